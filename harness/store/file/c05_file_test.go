package file

// C05 - every read path returns exactly the stored block: file-level representations.
// Harness file of /verif (injected by overlay; not part of celestia-node).

import (
	"context"
	"fmt"
	"os"
	"path/filepath"
	"testing"

	libshare "github.com/celestiaorg/go-square/v4/share"
	"pgregory.net/rapid"

	vk "github.com/celestiaorg/celestia-node/internal/verifkit"
	rb "github.com/celestiaorg/celestia-node/internal/verifkit/c05battery"
	"github.com/celestiaorg/celestia-node/share/eds"
)

var c05Bases = []string{"rsmt2d", "ods", "ods-nocache", "odsq4", "ods-missing-q4"}
var c05Wrappers = []string{"plain", "proofs-cache", "validation", "close-once", "store-stack"}

func c05ODSWidths() []int {
	if vk.Thorough() {
		return []int{1, 2, 4, 8, 16, 32}
	}
	return []int{1, 2, 2, 4, 4, 8}
}

// c05GenSquare draws a square; for ods <= 4 it often draws the amount of tail padding directly
// so that every amount from none to all-but-one occurs.
func c05GenSquare(t *rapid.T, widths []int) *vk.Square {
	if rapid.IntRange(0, 3).Draw(t, "tailsweep") == 0 {
		ods := rapid.SampledFrom([]int{1, 2, 2, 4, 4, 4}).Draw(t, "sweep.ods")
		area := ods * ods
		tail := rapid.IntRange(0, area-1).Draw(t, "sweep.tail")
		data := area - tail
		// one or two runs of blob namespaces (possibly preceded by a tx run)
		var runs []vk.Run
		start := 0
		if data > 1 && rapid.Bool().Draw(t, "sweep.tx") {
			n := rapid.IntRange(1, data-1).Draw(t, "sweep.txlen")
			runs = append(runs, vk.Run{NS: libshare.TxNamespace, Start: 0, Len: n})
			start = n
		}
		rest := data - start
		if rest > 1 && rapid.Bool().Draw(t, "sweep.two") {
			n := rapid.IntRange(1, rest-1).Draw(t, "sweep.cut")
			runs = append(runs, vk.Run{NS: vk.BlobNS(1), Start: start, Len: n}, vk.Run{NS: vk.BlobNS(3), Start: start + n, Len: rest - n})
		} else {
			runs = append(runs, vk.Run{NS: vk.BlobNS(2), Start: start, Len: rest})
		}
		return vk.BuildSquare(ods, tail, runs, rapid.Uint64().Draw(t, "sweep.seed"))
	}
	return vk.GenSquare(t, "sq", vk.SquareOpts{ODS: widths, AllowEmpty: true})
}

// c05Stack replicates the wrapper stack the store puts around every accessor (store.wrapAccessor;
// the real function is exercised by the store-level C05 check).
func c05Stack(a eds.AccessorStreamer) eds.AccessorStreamer {
	withCache := eds.WithProofsCache(a)
	closedOnce := eds.WithClosedOnce(withCache)
	return eds.AccessorAndStreamer(eds.WithValidation(closedOnce), closedOnce)
}

func TestVerifC05_FileAccessors(t *testing.T) {
	defer vk.Flush()
	ctx := context.Background()
	rapid.Check(t, func(t *rapid.T) {
		sq := c05GenSquare(t, c05ODSWidths())
		base := rapid.SampledFrom(c05Bases).Draw(t, "base")
		wrapper := rapid.SampledFrom(c05Wrappers).Draw(t, "wrapper")
		warm := rapid.Bool().Draw(t, "warm")
		passes := rapid.IntRange(1, 2).Draw(t, "passes")
		seed := rapid.Uint64().Draw(t, "batteryseed")

		dir, err := os.MkdirTemp("", "c05file")
		if err != nil {
			t.Fatalf("VERIF-INFRA: temp dir: %v", err)
		}
		defer os.RemoveAll(dir)
		pathODS, pathQ4 := filepath.Join(dir, "sq.ods"), filepath.Join(dir, "sq.q4")

		var acc eds.AccessorStreamer
		switch base {
		case "rsmt2d":
			acc = &eds.Rsmt2D{ExtendedDataSquare: sq.EDS}
		case "ods", "ods-nocache", "ods-missing-q4":
			if err := CreateODS(pathODS, sq.Roots, sq.EDS); err != nil {
				t.Fatalf("C05: CreateODS of a valid square failed: %v [%s]", err, sq.Desc())
			}
			ods, err := OpenODS(pathODS)
			if err != nil {
				t.Fatalf("C05: OpenODS of a file just created failed: %v [%s]", err, sq.Desc())
			}
			ods.disableCache = base == "ods-nocache"
			acc = ods
			if base == "ods-missing-q4" {
				acc = ODSWithQ4(ods, pathQ4) // no such file
			}
		case "odsq4":
			if err := CreateODSQ4(pathODS, pathQ4, sq.Roots, sq.EDS); err != nil {
				t.Fatalf("C05: CreateODSQ4 of a valid square failed: %v [%s]", err, sq.Desc())
			}
			ods, err := OpenODS(pathODS)
			if err != nil {
				t.Fatalf("C05: OpenODS of a file just created failed: %v [%s]", err, sq.Desc())
			}
			acc = ODSWithQ4(ods, pathQ4)
		}
		inner := acc
		validated := false
		switch wrapper {
		case "proofs-cache":
			acc = eds.WithProofsCache(acc)
		case "validation":
			acc = eds.AccessorAndStreamer(eds.WithValidation(acc), acc)
			validated = true
		case "close-once":
			acc = eds.WithClosedOnce(acc)
		case "store-stack":
			acc = c05Stack(acc)
			validated = true
		}
		defer inner.Close()

		if warm {
			// fill the file's in-memory square (and the proofs cache halves) before anything else
			if _, err := acc.Shares(ctx); err != nil {
				t.Fatalf("C05: Shares() on %s/%s: expected the original square, observed error %v [%s]", base, wrapper, err, sq.Desc())
			}
		}
		for p := 0; p < passes; p++ {
			err := rb.ReadBattery(ctx, acc, sq, rb.Opts{ID: "C05", Seed: seed + uint64(p), Validated: validated})
			if err != nil {
				t.Fatalf("%v\nrepresentation: base=%s wrapper=%s warm=%v pass=%d", err, base, wrapper, warm, p)
			}
		}
		if wrapper == "close-once" {
			if err := acc.Close(); err != nil {
				t.Fatalf("C05: Close of the close-once wrapper over %s failed: %v", base, err)
			}
			if err := acc.Close(); err != nil {
				t.Fatalf("C05: second Close of the close-once wrapper over %s: expected nil, observed %v", base, err)
			}
			if err := rb.CheckClosed(ctx, "C05", acc); err != nil {
				t.Fatalf("%v (base=%s)", err, base)
			}
		}

		fileBacked := base != "rsmt2d"
		labels := []string{
			"rep=" + base + "/" + wrapper, "base=" + base, "wrapper=" + wrapper,
			fmt.Sprintf("ods=%d", sq.ODS), "tail=" + rb.TailBucket(sq), fmt.Sprintf("warm=%v", warm),
			"cell=" + base + "|tail=" + rb.TailBucket(sq),
		}
		// the battery always reads cells of all four quadrants and the cells around the start of
		// the tail padding, so every file-backed or cached representation is a non-trivial case
		nontrivial := fileBacked || wrapper == "proofs-cache" || wrapper == "store-stack"
		desc := fmt.Sprintf("%s base=%s wrapper=%s warm=%v passes=%d bseed=%d", sq.Desc(), base, wrapper, warm, passes, seed)
		vk.Record(desc, labels, nontrivial, func() any {
			return map[string]any{"square": sq.Desc(), "base": base, "wrapper": wrapper, "warm": warm, "passes": passes}
		})
	})
}

// TestVerifC05_WideSquares runs the (light) read battery over file-backed accessors of wide
// squares: ODS 64 and 128 in quick, up to the protocol maximum 512 is too heavy for a routine
// check (ODS 256 is added in thorough). Arithmetic on header fields (uint16 square size x share
// size) only misbehaves from ODS 128 on, which the narrow-square runs can never reach.
func TestVerifC05_WideSquares(t *testing.T) {
	defer vk.Flush()
	ctx := context.Background()
	widths := []int{64, 128}
	if vk.Thorough() {
		widths = []int{64, 128, 128, 256}
	}
	rapid.Check(t, func(t *rapid.T) {
		sq := vk.GenSquare(t, "sq", vk.SquareOpts{ODS: widths, MaxRuns: 6})
		base := rapid.SampledFrom([]string{"ods", "ods-nocache", "odsq4", "ods-missing-q4"}).Draw(t, "base")
		stack := rapid.Bool().Draw(t, "storestack")
		seed := rapid.Uint64().Draw(t, "batteryseed")
		dir, err := os.MkdirTemp("", "c05wide")
		if err != nil {
			t.Fatalf("VERIF-INFRA: temp dir: %v", err)
		}
		defer os.RemoveAll(dir)
		pathODS, pathQ4 := filepath.Join(dir, "sq.ods"), filepath.Join(dir, "sq.q4")
		var acc eds.AccessorStreamer
		if base == "odsq4" {
			if err := CreateODSQ4(pathODS, pathQ4, sq.Roots, sq.EDS); err != nil {
				t.Fatalf("C05: CreateODSQ4 of a valid square failed: %v [%s]", err, sq.Desc())
			}
		} else if err := CreateODS(pathODS, sq.Roots, sq.EDS); err != nil {
			t.Fatalf("C05: CreateODS of a valid square failed: %v [%s]", err, sq.Desc())
		}
		ods, err := OpenODS(pathODS)
		if err != nil {
			t.Fatalf("C05: OpenODS of a file just created failed: %v [%s]", err, sq.Desc())
		}
		ods.disableCache = base == "ods-nocache"
		acc = ods
		if base == "odsq4" || base == "ods-missing-q4" {
			acc = ODSWithQ4(ods, pathQ4)
		}
		inner := acc
		defer inner.Close()
		if stack {
			acc = c05Stack(acc)
		}
		if err := rb.ReadBattery(ctx, acc, sq, rb.Opts{ID: "C05", Seed: seed, Validated: stack, Light: true}); err != nil {
			t.Fatalf("%v\nrepresentation: wide square base=%s store-stack=%v", err, base, stack)
		}
		vk.Record(fmt.Sprintf("wide %s base=%s stack=%v seed=%d", sq.Desc(), base, stack, seed),
			[]string{"wide:base=" + base, fmt.Sprintf("wide:ods=%d", sq.ODS), fmt.Sprintf("wide:stack=%v", stack)}, true,
			func() any { return map[string]any{"square": sq.Desc(), "base": base, "store_stack": stack} })
	})
}
