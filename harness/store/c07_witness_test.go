package store

// C07 - fixed witnesses (regression cases) of the finding "C07:partial-q4-served": a Q4 file left
// incomplete by a process death during PutODSQ4 was opened and served for every height whose ODS
// is linked. Deterministic, hook-free: the on-disk states are the ones the enumeration produced
// (crash right after q4:created, ODS writer already finished), rebuilt by hand.
// Harness file of /verif (injected by overlay; not part of celestia-node).

import (
	"context"
	"errors"
	"fmt"
	"os"
	"path/filepath"
	"testing"

	libshare "github.com/celestiaorg/go-square/v4/share"

	vk "github.com/celestiaorg/celestia-node/internal/verifkit"
)

const c07SigPartialQ4 = "C07:partial-q4-served"

func c07WitnessSquare() *vk.Square {
	return vk.BuildSquare(2, 1, []vk.Run{{NS: libshare.TxNamespace, Start: 0, Len: 1}, {NS: vk.BlobNS(1), Start: 1, Len: 2}}, 7)
}

// c07WitnessLookup: the height must be absent, or complete and correct.
func c07WitnessLookup(ctx context.Context, st *Store, h uint64, sq *vk.Square, mustBePresent bool) error {
	acc, err := st.GetByHeight(ctx, h)
	if errors.Is(err, ErrNotFound) {
		if mustBePresent {
			return fmt.Errorf("height %d: expected the block to be present, observed ErrNotFound", h)
		}
		return nil
	}
	if err != nil {
		return fmt.Errorf("height %d: expected absent or complete-and-correct, observed error %v", h, err)
	}
	defer acc.Close()
	return verifReadBattery(ctx, "C07", acc, sq, 1, false)
}

func TestVerifC07_WitnessPartialQ4(t *testing.T) {
	defer vk.Flush()
	ctx := context.Background()
	sq := c07WitnessSquare()
	const h = 7
	report := func(shape string, err error) {
		what := fmt.Sprintf("%s: %v", shape, err)
		if vk.KnownOpen(c07SigPartialQ4) {
			vk.FindingPresent(c07SigPartialQ4, what)
			return
		}
		if dir := os.Getenv("VERIF_REPLAY_DIR"); dir != "" {
			_ = os.WriteFile(filepath.Join(dir, "witness-partial-q4.txt"), []byte(c07SigPartialQ4+"\n"+what+"\n"), 0o644)
		}
		t.Errorf("C07: witness %s [%s]: %s", c07SigPartialQ4, sq.Desc(), what)
	}
	for _, partial := range []int{0, libshare.ShareSize, 3*libshare.ShareSize + 100} {
		// shape A: PutODSQ4 died after the ODS was written and the Q4 file was only started; the
		// block is stored again with PutODS (archival node, block meanwhile outside the window)
		func() {
			dir := t.TempDir()
			st, err := NewStore(&Parameters{}, dir)
			if err != nil {
				t.Fatalf("VERIF-INFRA: %v", err)
			}
			if err := st.PutODSQ4(ctx, sq.Roots, h, sq.EDS); err != nil {
				t.Fatalf("VERIF-INFRA: put: %v", err)
			}
			if err := os.Remove(st.heightToPath(h, odsFileExt)); err != nil {
				t.Fatalf("VERIF-INFRA: %v", err)
			}
			if err := os.Truncate(st.hashToPath(sq.Roots.Hash(), q4FileExt), int64(partial)); err != nil {
				t.Fatalf("VERIF-INFRA: %v", err)
			}
			st2, err := NewStore(&Parameters{}, dir)
			if err != nil {
				t.Fatalf("VERIF-INFRA: %v", err)
			}
			if err := c07WitnessLookup(ctx, st2, h, sq, false); err != nil {
				report("lookup after restart", err)
			}
			if err := st2.PutODS(ctx, sq.Roots, h, sq.EDS); err != nil {
				report("PutODS after a crashed PutODSQ4", err)
				return
			}
			if err := c07WitnessLookup(ctx, st2, h, sq, true); err != nil {
				report(fmt.Sprintf("PutODSQ4 died with a %d-byte Q4 file, block stored again with PutODS, then read", partial), err)
			}
		}()
		// shape B: the block is stored ODS-only and linked; PutODSQ4 of the same block (same or
		// another height) died right after it started the Q4 file
		func() {
			dir := t.TempDir()
			st, err := NewStore(&Parameters{}, dir)
			if err != nil {
				t.Fatalf("VERIF-INFRA: %v", err)
			}
			// same directory content: ODS complete and linked, Q4 a prefix of the complete file
			if err := st.PutODSQ4(ctx, sq.Roots, h, sq.EDS); err != nil {
				t.Fatalf("VERIF-INFRA: put: %v", err)
			}
			if err := os.Truncate(st.hashToPath(sq.Roots.Hash(), q4FileExt), int64(partial)); err != nil {
				t.Fatalf("VERIF-INFRA: %v", err)
			}
			st2, err := NewStore(&Parameters{}, dir)
			if err != nil {
				t.Fatalf("VERIF-INFRA: %v", err)
			}
			if err := c07WitnessLookup(ctx, st2, h, sq, true); err != nil {
				report(fmt.Sprintf("ODS-only block, PutODSQ4 died with a %d-byte Q4 file, then read", partial), err)
			}
		}()
	}
	vk.Record("witness "+c07SigPartialQ4, []string{"witness=partial-q4"}, true, nil)
}
