package store

// C08 - deterministic witnesses of the two schedule-dependent defects the concurrent check found.
// The racing call is issued from a verifhook observation point (build tag verif; the handler runs
// in the goroutine that reached the point), so the interleaving is forced instead of sampled:
//
//	stale:  CachedStore.GetByHeight(h) issued while RemoveODSQ4(h) is between dropping the cache
//	        entry and deleting the files. History: Put(h) < { RemoveODSQ4(h) || cached Get(h) }.
//	        Every sequential order of it ends with the block absent.
//	q4:     a reader holds a file-backed accessor of a square whose parity (Q4) file does not
//	        exist; a PutODSQ4 of the same square (same or another height) is writing the parity
//	        file when the reader's first parity read opens it.
//
// The racing call runs in its own goroutine and the handler waits for it for at most
// c08WitnessWait (schedule control only, never an oracle: on a tree where the call has to wait
// for the operation in progress the handler gives up waiting and the call completes afterwards).
//
// Harness file of /verif (injected by overlay; not part of celestia-node).

import (
	"context"
	"errors"
	"fmt"
	"os"
	"path/filepath"
	"strings"
	"sync"
	"sync/atomic"
	"testing"
	"time"

	"pgregory.net/rapid"

	"github.com/celestiaorg/celestia-node/internal/verifhook"
	vk "github.com/celestiaorg/celestia-node/internal/verifkit"
	"github.com/celestiaorg/celestia-node/share/eds"
	"github.com/celestiaorg/celestia-node/share/shwap"
)

const c08WitnessWait = 250 * time.Millisecond

// c08Known reports a witness failure: when the driver lists the signature as an open known finding
// it records that the finding is still present and returns true (the caller ends the case),
// otherwise it fails the case as a violation.
func c08Known(t *rapid.T, sig, format string, a ...any) bool {
	msg := fmt.Sprintf(format, a...)
	if vk.KnownOpen(sig) {
		vk.FindingPresent(sig, msg)
		return true
	}
	t.Fatalf("%s", msg)
	return false
}

func TestVerifC08_WitnessStaleCache(t *testing.T) {
	defer vk.Flush()
	defer verifhook.Set(nil)
	rapid.Check(t, func(t *rapid.T) {
		defer verifhook.Set(nil)
		recent := rapid.IntRange(0, 2).Draw(t, "recent")
		extra := rapid.IntRange(1, 3).Draw(t, "extra")
		sq := vk.GenSquare(t, "sq", vk.SquareOpts{ODS: []int{1, 2, 4, 8}, AllowEmpty: true, MaxRuns: 3})
		height := rapid.Uint64Range(1, 3000).Draw(t, "height")
		putKind := rapid.SampledFrom([]string{"putq4", "putods"}).Draw(t, "put")
		point := rapid.SampledFrom([]string{
			"store.remove:cache-dropped", "store.remove:cache-dropped", "store.remove:link-removed", "store.remove:ods-removed",
		}).Draw(t, "point")
		if sq.Empty && point == "store.remove:ods-removed" {
			point = "store.remove:link-removed" // the empty block has only a link to remove
		}
		racer := rapid.SampledFrom([]string{"cget", "cget", "cget", "get"}).Draw(t, "racer")
		warm := rapid.Bool().Draw(t, "warm") // the block is in the serving cache before the remove
		nreads := rapid.IntRange(0, 3).Draw(t, "nreads")
		desc := fmt.Sprintf("stale recent=%d extra=%d %s h=%d %s at %s warm=%v reads=%d [%s]",
			recent, extra, putKind, height, racer, point, warm, nreads, sq.Desc())
		vk.Record(desc, []string{"witness=stale", "point=" + point, "racer=" + racer}, point == "store.remove:cache-dropped" && racer == "cget", nil)

		dir, err := os.MkdirTemp("", "c08-w-")
		if err != nil {
			t.Fatalf("VERIF-INFRA: %v", err)
		}
		defer os.RemoveAll(dir)
		st, err := NewStore(&Parameters{RecentBlocksCacheSize: recent}, dir)
		if err != nil {
			t.Fatalf("VERIF-INFRA: %v", err)
		}
		cs, err := st.WithCache("c08w", extra)
		if err != nil {
			t.Fatalf("VERIF-INFRA: %v", err)
		}
		ctx := context.Background()
		if putKind == "putq4" {
			err = st.PutODSQ4(ctx, sq.Roots, height, sq.EDS)
		} else {
			err = st.PutODS(ctx, sq.Roots, height, sq.EDS)
		}
		if err != nil {
			t.Fatalf("C08: witness set-up: put failed: %v", err)
		}
		if warm {
			acc, err := cs.GetByHeight(ctx, height)
			if err != nil {
				t.Fatalf("C08: witness set-up: cached GetByHeight(%d) after the put: %v", height, err)
			}
			_ = acc.Close()
		}

		var fired atomic.Bool
		var racerErr error
		var readErr error
		raced := make(chan struct{})
		verifhook.Set(func(name string) {
			if name != point || !fired.CompareAndSwap(false, true) {
				return
			}
			go func() {
				defer close(raced)
				var acc eds.AccessorStreamer
				if racer == "cget" {
					acc, racerErr = cs.GetByHeight(ctx, height)
				} else {
					acc, racerErr = st.GetByHeight(ctx, height)
				}
				if racerErr != nil {
					return
				}
				for i := 0; i < nreads && readErr == nil; i++ {
					readErr = c08CheckRead(ctx, acc, sq, c08FinalReads(height + uint64(i))[1+i])
				}
				if cerr := acc.Close(); cerr != nil && readErr == nil {
					readErr = fmt.Errorf("Close: %v", cerr)
				}
			}()
			select {
			case <-raced:
			case <-time.After(c08WitnessWait):
			}
		})
		rmErr := st.RemoveODSQ4(ctx, height, sq.Roots.Hash())
		verifhook.Set(nil)
		if !fired.Load() {
			t.Fatalf("VERIF-INFRA: observation point %s was not reached by RemoveODSQ4", point)
		}
		select {
		case <-raced:
		case <-time.After(90 * time.Second):
			t.Fatalf("C08: progress: the %s issued at %s did not return within 90 s after RemoveODSQ4 returned", racer, point)
		}
		if rmErr != nil {
			t.Fatalf("C08: RemoveODSQ4(%d) with a concurrent %s: expected nil, observed %v", height, racer, rmErr)
		}
		if racerErr != nil && !errors.Is(racerErr, ErrNotFound) {
			t.Fatalf("C08: %s(%d) issued at %s: expected the block or ErrNotFound, observed %v", racer, height, point, racerErr)
		}
		if readErr != nil {
			t.Fatalf("C08: %s(%d) issued at %s: read through the held accessor: %v", racer, height, point, readErr)
		}
		// quiescent now. History: Put < { RemoveODSQ4 || racer }: the block must be absent.
		for _, v := range []struct {
			name string
			g    AccessorGetter
		}{{"Store", st}, {"CachedStore", cs}} {
			has, err := v.g.HasByHeight(ctx, height)
			if err != nil {
				t.Fatalf("C08: %s.HasByHeight(%d): %v", v.name, height, err)
			}
			if has {
				if c08Known(t, c08SigStale, "C08: final content: history Put(%d) < { RemoveODSQ4(%d) || %s(%d) issued at %s }: every sequential order leaves the height absent; observed %s.HasByHeight = true after both returned (%s)",
					height, height, racer, height, point, v.name, desc) {
					return
				}
			}
			acc, err := v.g.GetByHeight(ctx, height)
			if err == nil {
				_ = acc.Close()
				if c08Known(t, c08SigStale, "C08: final content: history Put(%d) < { RemoveODSQ4(%d) || %s(%d) issued at %s }: every sequential order leaves the height absent; observed %s.GetByHeight serving the block after both returned (%s)",
					height, height, racer, height, point, v.name, desc) {
					return
				}
			}
			if !errors.Is(err, ErrNotFound) {
				t.Fatalf("C08: %s.GetByHeight(%d) after the remove: expected ErrNotFound, observed %v", v.name, height, err)
			}
		}
	})
}

func TestVerifC08_WitnessLazyQ4(t *testing.T) {
	defer vk.Flush()
	defer verifhook.Set(nil)
	rapid.Check(t, func(t *rapid.T) {
		defer verifhook.Set(nil)
		extra := rapid.IntRange(0, 2).Draw(t, "extra")
		sq := vk.GenSquare(t, "sq", vk.SquareOpts{ODS: []int{1, 2, 4, 8, 16}, MaxRuns: 3})
		height := rapid.Uint64Range(1, 3000).Draw(t, "height")
		// how the parity file came to be absent while the block is stored
		setup := rapid.SampledFrom([]string{"putods", "putq4+rmq4"}).Draw(t, "setup")
		// the put that writes the parity file: same height, or another height of the same square
		other := rapid.Bool().Draw(t, "otherheight")
		reader := "get"
		if extra > 0 {
			reader = rapid.SampledFrom([]string{"get", "cget"}).Draw(t, "reader")
		}
		point := rapid.SampledFrom([]string{"q4:created", "q4:share-written", "q4:share-written", "q4:flushed"}).Draw(t, "point")
		nth := 1
		if point == "q4:share-written" {
			nth = rapid.IntRange(1, sq.ODS*sq.ODS).Draw(t, "nth")
		}
		rd := c08Read{Kind: rapid.SampledFrom([]string{"sample", "sample", "rowhalf", "colhalf"}).Draw(t, "read"),
			R: rapid.IntRange(0, 31).Draw(t, "r"), C: rapid.IntRange(0, 31).Draw(t, "c")}
		if rd.Kind == "sample" {
			rd.Q = rapid.SampledFrom([]int{3, 4}).Draw(t, "quadrant")
		} else {
			rd.Q = 1
		}
		desc := fmt.Sprintf("lazyq4 extra=%d %s h=%d other=%v %s at %s#%d read=%+v [%s]", extra, setup, height, other, reader, point, nth, rd, sq.Desc())
		vk.Record(desc, []string{"witness=lazyq4", "point=" + point, "setup=" + setup, "reader=" + reader}, point != "q4:flushed", nil)

		dir, err := os.MkdirTemp("", "c08-w-")
		if err != nil {
			t.Fatalf("VERIF-INFRA: %v", err)
		}
		defer os.RemoveAll(dir)
		// no recent cache: the reader gets a file-backed accessor, as after an eviction or restart
		st, err := NewStore(&Parameters{RecentBlocksCacheSize: 0}, dir)
		if err != nil {
			t.Fatalf("VERIF-INFRA: %v", err)
		}
		var cs *CachedStore
		if extra > 0 {
			if cs, err = st.WithCache("c08w", extra); err != nil {
				t.Fatalf("VERIF-INFRA: %v", err)
			}
		}
		ctx := context.Background()
		if setup == "putods" {
			err = st.PutODS(ctx, sq.Roots, height, sq.EDS)
		} else {
			err = st.PutODSQ4(ctx, sq.Roots, height, sq.EDS)
			if err == nil {
				err = st.RemoveQ4(ctx, height, sq.Roots.Hash())
			}
		}
		if err != nil {
			t.Fatalf("C08: witness set-up (%s): %v", setup, err)
		}
		var acc eds.AccessorStreamer
		if reader == "cget" {
			acc, err = cs.GetByHeight(ctx, height)
		} else {
			acc, err = st.GetByHeight(ctx, height)
		}
		if err != nil {
			t.Fatalf("C08: witness set-up: %s(%d) after the put: %v", reader, height, err)
		}
		// a read that does not need the parity file
		if rerr := c08CheckRead(ctx, acc, sq, c08Read{Kind: "sample", Q: 1, R: rd.R, C: rd.C}); rerr != nil {
			t.Fatalf("C08: read through the held accessor before the second put: %v", rerr)
		}

		var mu sync.Mutex
		count := 0
		var fired atomic.Bool
		var readErr error
		raced := make(chan struct{})
		verifhook.Set(func(name string) {
			if name != point {
				return
			}
			mu.Lock()
			count++
			hit := count == nth
			mu.Unlock()
			if !hit || !fired.CompareAndSwap(false, true) {
				return
			}
			go func() {
				defer close(raced)
				readErr = c08CheckRead(ctx, acc, sq, rd)
			}()
			select {
			case <-raced:
			case <-time.After(c08WitnessWait):
			}
		})
		putHeight := height
		if other {
			putHeight = height + 1024
		}
		putErr := st.PutODSQ4(ctx, sq.Roots, putHeight, sq.EDS)
		verifhook.Set(nil)
		if !fired.Load() {
			t.Fatalf("VERIF-INFRA: observation point %s#%d was not reached by PutODSQ4", point, nth)
		}
		select {
		case <-raced:
		case <-time.After(90 * time.Second):
			t.Fatalf("C08: progress: the read issued at %s did not return within 90 s after PutODSQ4 returned", point)
		}
		if putErr != nil {
			t.Fatalf("C08: PutODSQ4(%d) while a reader holds the block: expected nil, observed %v", putHeight, putErr)
		}
		if readErr != nil {
			_ = acc.Close()
			if c08Known(t, c08SigQ4, "C08: %s(%d) obtained an accessor (block stored by %s, no parity file); while PutODSQ4(%d) of the same square was at %s#%d the reader, still holding it, read: %v (%s)",
				reader, height, setup, putHeight, point, nth, readErr, desc) {
				return
			}
		}
		// the same and further reads afterwards, still through the held accessor
		for _, r := range append([]c08Read{rd}, c08FinalReads(height)...) {
			if rerr := c08CheckRead(ctx, acc, sq, r); rerr != nil {
				_ = acc.Close()
				if c08Known(t, c08SigQ4, "C08: %s(%d) obtained an accessor (block stored by %s); after PutODSQ4(%d) of the same square returned the reader, still holding it, read: %v (%s)",
					reader, height, setup, putHeight, rerr, desc) {
					return
				}
			}
		}
		if cerr := acc.Close(); cerr != nil {
			t.Fatalf("C08: Close of the held accessor: %v", cerr)
		}
	})
}

// TestVerifC08_WitnessRemoveQ4Race places a cached lookup with a parity-quadrant read exactly
// between RemoveQ4's cache drop and its removal of the Q4 file (observation point
// store.removeQ4:cache-dropped). History: PutODSQ4(h) < { RemoveQ4(h) || cached Get(h)+read }.
// Whatever the order, once both returned and the reader closed, the parity file is gone and no
// descriptor of it may stay open (the files opened on behalf of readers are released), the block
// stays fully readable, and after removing the block nothing of it is left.
func TestVerifC08_WitnessRemoveQ4Race(t *testing.T) {
	defer vk.Flush()
	defer verifhook.Set(nil)
	rapid.Check(t, func(t *rapid.T) {
		defer verifhook.Set(nil)
		recent := rapid.IntRange(0, 2).Draw(t, "recent")
		extra := rapid.IntRange(1, 3).Draw(t, "extra")
		sq := vk.GenSquare(t, "sq", vk.SquareOpts{ODS: []int{1, 2, 4, 8}, MaxRuns: 3})
		height := rapid.Uint64Range(1, 3000).Draw(t, "height")
		warm := rapid.Bool().Draw(t, "warm")
		hold := rapid.Bool().Draw(t, "holdAcrossRemove") // the reader closes only after RemoveQ4 returned
		desc := fmt.Sprintf("rmq4race recent=%d extra=%d h=%d warm=%v hold=%v [%s]", recent, extra, height, warm, hold, sq.Desc())
		vk.Record(desc, []string{"witness=rmq4race", fmt.Sprintf("hold=%v", hold)}, true, nil)

		dir, err := os.MkdirTemp("", "c08-q4-")
		if err != nil {
			t.Fatalf("VERIF-INFRA: %v", err)
		}
		defer os.RemoveAll(dir)
		if rdir, err := filepath.EvalSymlinks(dir); err == nil {
			dir = rdir
		}
		st, err := NewStore(&Parameters{RecentBlocksCacheSize: recent}, dir)
		if err != nil {
			t.Fatalf("VERIF-INFRA: %v", err)
		}
		cs, err := st.WithCache("c08q", extra)
		if err != nil {
			t.Fatalf("VERIF-INFRA: %v", err)
		}
		ctx := context.Background()
		if err := st.PutODSQ4(ctx, sq.Roots, height, sq.EDS); err != nil {
			t.Fatalf("C08: witness set-up: put failed: %v", err)
		}
		if warm {
			acc, err := cs.GetByHeight(ctx, height)
			if err != nil {
				t.Fatalf("C08: witness set-up: cached GetByHeight(%d): %v", height, err)
			}
			_ = acc.Close()
		}
		w := sq.Width()
		var fired atomic.Bool
		var racerErr, readErr error
		raced := make(chan struct{})
		release := make(chan struct{})
		verifhook.Set(func(name string) {
			if name != "store.removeQ4:cache-dropped" || !fired.CompareAndSwap(false, true) {
				return
			}
			go func() {
				defer close(raced)
				acc, err := cs.GetByHeight(ctx, height)
				if err != nil {
					racerErr = err
					return
				}
				// a cell of the parity quadrant: served from the Q4 file when it is there
				smpl, err := acc.Sample(ctx, shwap.SampleCoords{Row: w - 1, Col: w - 1})
				if err != nil {
					readErr = fmt.Errorf("Sample(%d,%d): %v", w-1, w-1, err)
				} else if string(smpl.ToBytes()) != string(sq.RefShare(w-1, w-1)) {
					readErr = fmt.Errorf("Sample(%d,%d): not the committed share", w-1, w-1)
				}
				if hold {
					<-release
				}
				if cerr := acc.Close(); cerr != nil && readErr == nil {
					readErr = fmt.Errorf("Close: %v", cerr)
				}
			}()
			select {
			case <-raced:
			case <-time.After(c08WitnessWait):
			}
		})
		rmErr := st.RemoveQ4(ctx, height, sq.Roots.Hash())
		verifhook.Set(nil)
		close(release)
		if !fired.Load() {
			t.Fatalf("VERIF-INFRA: observation point store.removeQ4:cache-dropped was not reached by RemoveQ4")
		}
		select {
		case <-raced:
		case <-time.After(90 * time.Second):
			t.Fatalf("C08: progress: the cached lookup issued during RemoveQ4 did not return within 90 s after RemoveQ4 returned")
		}
		if rmErr != nil {
			t.Fatalf("C08: RemoveQ4(%d) with a concurrent cached lookup: expected nil, observed %v", height, rmErr)
		}
		if racerErr != nil {
			t.Fatalf("C08: cached GetByHeight(%d) issued during RemoveQ4: expected the block (RemoveQ4 keeps it), observed %v", height, racerErr)
		}
		if readErr != nil {
			t.Fatalf("C08: cached lookup issued during RemoveQ4: read through the held accessor: %v", readErr)
		}
		// quiescent: the parity file is gone, the block is still there and fully readable
		if has, err := st.HasQ4ByHash(ctx, sq.Roots.Hash()); err != nil || has {
			t.Fatalf("C08: final content: after RemoveQ4(%d) returned the parity file must be gone, observed HasQ4ByHash=%v, %v", height, has, err)
		}
		acc, err := cs.GetByHeight(ctx, height)
		if err != nil {
			t.Fatalf("C08: final content: RemoveQ4 must keep the block, observed cached GetByHeight(%d) = %v", height, err)
		}
		for _, rd := range c08FinalReads(height) {
			if err := c08CheckRead(ctx, acc, sq, rd); err != nil {
				t.Fatalf("C08: final content after RemoveQ4(%d): %v", height, err)
			}
		}
		_ = acc.Close()
		// no reader is left: no descriptor may point at the removed parity file
		for _, fd := range c08OpenIn(dir) {
			if strings.HasSuffix(fd, " (deleted)") || strings.Contains(fd, ".q4") {
				t.Fatalf("C08: released files: after RemoveQ4(%d) returned and every reader closed, the process still holds %q (history: PutODSQ4 < { RemoveQ4 || cached Get + parity read }; %s)",
					height, fd, desc)
			}
		}
		if err := st.RemoveODSQ4(ctx, height, sq.Roots.Hash()); err != nil {
			t.Fatalf("C08: RemoveODSQ4(%d) at the end: %v", height, err)
		}
		if left := c08OpenIn(dir); len(left) > 0 {
			t.Fatalf("C08: released files: after the block was removed the process still holds %v (%s)", left, desc)
		}
	})
}
