package store

// C07 - a crash during a store write or removal never leaves a readable-but-wrong block.
// Fault enumeration: the operation runs once on the real code with the verifhook observation
// points registered; every on-disk state a process death at a point would leave is rebuilt in a
// scratch directory and recovered with a fresh Store.
// Harness file of /verif (injected by overlay; not part of celestia-node).

import (
	"bytes"
	"context"
	"errors"
	"fmt"
	"hash/fnv"
	"os"
	"path/filepath"
	"sort"
	"strings"
	"sync"
	"syscall"
	"testing"

	libshare "github.com/celestiaorg/go-square/v4/share"
	"pgregory.net/rapid"

	"github.com/celestiaorg/celestia-node/internal/verifhook"
	vk "github.com/celestiaorg/celestia-node/internal/verifkit"
	rb "github.com/celestiaorg/celestia-node/internal/verifkit/c05battery"
	"github.com/celestiaorg/celestia-node/share"
)

// ---- directory states -------------------------------------------------------------------------

// c07Ent is one directory entry of the store directory: a regular file with its content, or a
// symlink. kind 0 means "does not exist".
type c07Ent struct {
	kind   byte // 'f' regular file, 'l' symlink, 0 absent
	data   []byte
	sum    uint64
	target string
	ino    uint64
}

func (e c07Ent) same(o c07Ent) bool {
	return e.kind == o.kind && len(e.data) == len(o.data) && e.sum == o.sum && e.target == o.target
}

// c07State maps paths relative to the store directory to entries.
type c07State map[string]c07Ent

func c07Sum(b []byte) uint64 {
	h := fnv.New64a()
	h.Write(b)
	return h.Sum64()
}

// c07ReadEntSince is c07ReadEnt for a file that is only appended to: when it still has the size
// of the version read last (same inode), that version is returned without reading again.
func c07ReadEntSince(path string, last c07Ent) (c07Ent, error) {
	fi, err := os.Lstat(path)
	if err == nil && last.kind == 'f' && fi.Mode().IsRegular() && fi.Size() == int64(len(last.data)) {
		if st, ok := fi.Sys().(*syscall.Stat_t); ok && st.Ino == last.ino {
			return last, nil
		}
	}
	return c07ReadEnt(path)
}

func c07ReadEnt(path string) (c07Ent, error) {
	fi, err := os.Lstat(path)
	if errors.Is(err, os.ErrNotExist) {
		return c07Ent{}, nil
	}
	if err != nil {
		return c07Ent{}, err
	}
	if fi.Mode()&os.ModeSymlink != 0 {
		tgt, err := os.Readlink(path)
		return c07Ent{kind: 'l', target: tgt}, err
	}
	data, err := os.ReadFile(path)
	if errors.Is(err, os.ErrNotExist) {
		return c07Ent{}, nil
	}
	if err != nil {
		return c07Ent{}, err
	}
	var ino uint64
	if st, ok := fi.Sys().(*syscall.Stat_t); ok {
		ino = st.Ino
	}
	return c07Ent{kind: 'f', data: data, sum: c07Sum(data), ino: ino}, nil
}

// c07Scan reads blocks/ and blocks/heights/ of a store directory. The files of the empty block
// are left out: every NewStore rewrites them.
func c07Scan(dir string) (c07State, error) {
	st := c07State{}
	empty := share.EmptyEDSDataHash().String()
	for _, sub := range []string{blocksPath, heightsPath} {
		ents, err := os.ReadDir(filepath.Join(dir, sub))
		if err != nil {
			return nil, err
		}
		for _, de := range ents {
			if de.IsDir() || strings.HasPrefix(de.Name(), empty+".") {
				continue
			}
			rel := sub + "/" + de.Name()
			e, err := c07ReadEnt(filepath.Join(dir, rel))
			if err != nil {
				return nil, err
			}
			if e.kind != 0 {
				st[rel] = e
			}
		}
	}
	return st, nil
}

func (s c07State) paths() []string {
	out := make([]string, 0, len(s))
	for p := range s {
		out = append(out, p)
	}
	sort.Strings(out)
	return out
}

// key is the canonical description of a state (content sums, link structure).
func (s c07State) key() string {
	var b strings.Builder
	group := map[string]string{}
	for _, p := range s.paths() {
		e := s[p]
		g := ""
		if e.kind == 'f' {
			gk := fmt.Sprintf("%d/%d/%x", e.ino, len(e.data), e.sum)
			if first, ok := group[gk]; ok {
				g = "=" + first
			} else {
				group[gk] = p
			}
		}
		fmt.Fprintf(&b, "%s:%c:%d:%x:%s%s;", p, e.kind, len(e.data), e.sum, e.target, g)
	}
	return b.String()
}

func (s c07State) with(rel string, e c07Ent) c07State {
	out := make(c07State, len(s)+1)
	for p, v := range s {
		out[p] = v
	}
	if e.kind == 0 {
		delete(out, rel)
	} else {
		out[rel] = e
	}
	return out
}

// materialise rebuilds the state in a new scratch directory.
func (s c07State) materialise() (string, error) {
	dir, err := os.MkdirTemp("", "c07state")
	if err != nil {
		return "", err
	}
	if err := os.MkdirAll(filepath.Join(dir, heightsPath), 0o755); err != nil {
		return dir, err
	}
	written := map[string]string{}
	for _, p := range s.paths() {
		e := s[p]
		full := filepath.Join(dir, p)
		switch e.kind {
		case 'l':
			if err := os.Symlink(e.target, full); err != nil {
				return dir, err
			}
		case 'f':
			gk := fmt.Sprintf("%d/%d/%x", e.ino, len(e.data), e.sum)
			if first, ok := written[gk]; ok && e.ino != 0 {
				if err := os.Link(first, full); err != nil {
					return dir, err
				}
				continue
			}
			if err := os.WriteFile(full, e.data, 0o600); err != nil {
				return dir, err
			}
			written[gk] = full
		}
	}
	return dir, nil
}

// ---- recording the crash points of one operation ----------------------------------------------

// c07Segment is the part of an operation between two store-level points. base is the whole
// directory at the point that starts the segment; ods and q4 are the successive versions of the
// two block files observed at the file-level points of the segment (version 0 = as in base).
// The ODS and the Q4 writer run in two unsynchronised goroutines, so every pair of versions is a
// reachable on-disk state.
type c07Segment struct {
	at   string
	base c07State
	ods  []c07Ent
	q4   []c07Ent
}

type c07Recorder struct {
	mu            sync.Mutex
	dir           string
	odsRel, q4Rel string
	points        int
	names         map[string]int
	segs          []*c07Segment
	err           error
}

func c07NewRecorder(dir, odsRel, q4Rel string) (*c07Recorder, error) {
	r := &c07Recorder{dir: dir, odsRel: odsRel, q4Rel: q4Rel, names: map[string]int{}}
	if err := r.startSegment("start"); err != nil {
		return nil, err
	}
	return r, nil
}

func (r *c07Recorder) startSegment(at string) error {
	base, err := c07Scan(r.dir)
	if err != nil {
		return err
	}
	r.segs = append(r.segs, &c07Segment{at: at, base: base, ods: []c07Ent{base[r.odsRel]}, q4: []c07Ent{base[r.q4Rel]}})
	return nil
}

// handle is the verifhook handler. It may be called concurrently from the ODS writer (points
// "ods:*") and the Q4 writer (points "q4:*"); at such a point only the file of the calling
// writer is read - nobody else writes to it, so what is read is exactly what a process death at
// this point leaves of that file. Store-level points lie in sequential code: the whole directory
// is read.
func (r *c07Recorder) handle(name string) {
	r.mu.Lock()
	defer r.mu.Unlock()
	r.points++
	r.names[name]++
	if r.err != nil {
		return
	}
	seg := r.segs[len(r.segs)-1]
	switch {
	case strings.HasPrefix(name, "ods:"):
		e, err := c07ReadEntSince(filepath.Join(r.dir, r.odsRel), seg.ods[len(seg.ods)-1])
		if err != nil {
			r.err = err
			return
		}
		if !e.same(seg.ods[len(seg.ods)-1]) {
			seg.ods = append(seg.ods, e)
		}
	case strings.HasPrefix(name, "q4:"):
		e, err := c07ReadEntSince(filepath.Join(r.dir, r.q4Rel), seg.q4[len(seg.q4)-1])
		if err != nil {
			r.err = err
			return
		}
		if !e.same(seg.q4[len(seg.q4)-1]) {
			seg.q4 = append(seg.q4, e)
		}
	default:
		r.err = r.startSegment(name)
	}
}

// c07Crash is one enumerated crash state.
type c07Crash struct {
	state   c07State
	at      string // point (segment start) and version indices
	product bool   // produced by combining file versions of the two writers
}

// states lists every crash state of the recorded operation: the directory at every store-level
// point, every combination of file versions inside a segment, and the final directory.
func (r *c07Recorder) states() ([]c07Crash, error) {
	r.mu.Lock()
	defer r.mu.Unlock()
	if r.err != nil {
		return nil, r.err
	}
	var out []c07Crash
	for _, seg := range r.segs {
		for i, oe := range seg.ods {
			for j, qe := range seg.q4 {
				st := seg.base
				if i > 0 {
					st = st.with(r.odsRel, oe)
				}
				if j > 0 {
					st = st.with(r.q4Rel, qe)
				}
				out = append(out, c07Crash{state: st, at: fmt.Sprintf("%s+ods%d+q4%d", seg.at, i, j), product: i > 0 && j > 0})
			}
		}
	}
	final, err := c07Scan(r.dir)
	if err != nil {
		return nil, err
	}
	out = append(out, c07Crash{state: final, at: "done"})
	return out, nil
}

// ---- one generated case -----------------------------------------------------------------------

type c07Case struct {
	t        *rapid.T
	ctx      context.Context
	sq       *vk.Square
	hash     share.DataHash
	h, h0    uint64
	withH0   bool
	recent   int
	seed     uint64
	desc     string
	labels   []string
	odsRel   string
	q4Rel    string
	linkRel  string
	fullODS  int
	fullQ4   int
	seen     map[string]bool
	light    bool
	judged   int
	nontriv  int
	products int
}

func (c *c07Case) params() *Parameters { return &Parameters{RecentBlocksCacheSize: c.recent} }

func (c *c07Case) failf(format string, a ...any) {
	c.t.Fatalf("C07: "+format+"\ncase: %s", append(a, c.desc)...)
}

// classify names the parts of a state relative to the complete files.
func (c *c07Case) classify(s c07State) (cls string, nontrivial bool) {
	part := func(e c07Ent, full int) string {
		switch {
		case e.kind == 0:
			return "absent"
		case len(e.data) < full:
			return "partial"
		case len(e.data) == full:
			return "complete"
		}
		return "oversize"
	}
	o, q := part(s[c.odsRel], c.fullODS), part(s[c.q4Rel], c.fullQ4)
	linked := s[c.linkRel].kind != 0
	cls = fmt.Sprintf("ods=%s,q4=%s,linked=%v", o, q, linked)
	if c.sq.Empty {
		return fmt.Sprintf("empty-block,linked=%v", linked), false
	}
	nontrivial = o == "partial" || q == "partial" || (o == "complete" && q != "partial" && !linked)
	return cls, nontrivial
}

// lookup applies the lookup oracle to height: absent, or complete and correct.
func (c *c07Case) lookup(st *Store, height uint64, mustBePresent bool, where string) bool {
	has, herr := st.HasByHeight(c.ctx, height)
	if herr != nil {
		c.failf("%s: HasByHeight(%d): expected true or false, observed error %v", where, height, herr)
	}
	acc, err := st.GetByHeight(c.ctx, height)
	present := err == nil
	if err != nil && !errors.Is(err, ErrNotFound) {
		c.failf("%s: lookup of height %d: expected the block to be absent (ErrNotFound) or complete and correct, observed error %v - the height is linked to something that cannot be read", where, height, err)
	}
	if present {
		berr := verifReadBattery(c.ctx, "C07", acc, c.sq, c.seed, c.light)
		_ = acc.Close()
		if berr != nil {
			c.failf("%s: lookup of height %d returned a block that is readable but wrong (expected absent, or complete and correct):\n%v", where, height, berr)
		}
	}
	if has != present {
		c.failf("%s: HasByHeight(%d) = %v but GetByHeight error = %v", where, height, has, err)
	}
	if mustBePresent && !present {
		c.failf("%s: lookup of height %d: expected the block to be present and fully readable, observed %v", where, height, err)
	}
	return present
}

func (c *c07Case) mustBeClean(dir, where string) {
	rels := []string{c.linkRel}
	if !c.sq.Empty {
		rels = append(rels, c.odsRel, c.q4Rel)
	}
	for _, rel := range rels {
		if _, err := os.Lstat(filepath.Join(dir, rel)); !errors.Is(err, os.ErrNotExist) {
			c.failf("%s: RemoveODSQ4 returned nil: expected %s to be gone, observed it still there (lstat error: %v)", where, rel, err)
		}
	}
}

// recover runs one recovery scenario on a fresh copy of the crash state and returns the crash
// states of the recovery put when they were recorded (depth 2).
func (c *c07Case) recoverFrom(cr c07Crash, scenario string, depth int, record bool) []c07Crash {
	dir, err := cr.state.materialise()
	defer os.RemoveAll(dir)
	if err != nil {
		c.t.Fatalf("VERIF-INFRA: rebuilding crash state: %v", err)
	}
	where := fmt.Sprintf("crash at %s (depth %d) [%s], recovery %q", cr.at, depth, cr.cls(c), scenario)
	st, err := NewStore(c.params(), dir)
	if err != nil {
		c.failf("%s: a fresh Store cannot be opened on the directory: %v", where, err)
	}
	vk.Count("recoveries_judged", 1)
	c.lookup(st, c.h, false, where+", lookup after restart")
	if c.withH0 {
		c.lookup(st, c.h0, false, where+", lookup of the other height of the same block after restart")
	}
	var sub []c07Crash
	put := func(q4 bool) {
		var rec *c07Recorder
		if record {
			rec, err = c07NewRecorder(dir, c.odsRel, c.q4Rel)
			if err != nil {
				c.t.Fatalf("VERIF-INFRA: recorder: %v", err)
			}
			verifhook.Set(rec.handle)
		}
		var perr error
		if q4 {
			perr = st.PutODSQ4(c.ctx, c.sq.Roots, c.h, c.sq.EDS)
		} else {
			perr = st.PutODS(c.ctx, c.sq.Roots, c.h, c.sq.EDS)
		}
		verifhook.Set(nil)
		if perr != nil {
			c.failf("%s: storing the same block again (q4=%v): expected success, observed %v", where, q4, perr)
		}
		if rec != nil {
			sub, err = rec.states()
			if err != nil {
				c.t.Fatalf("VERIF-INFRA: recorder: %v", err)
			}
			vk.Count("points_hit_depth2", int64(rec.points))
		}
		c.lookup(st, c.h, true, where+", lookup after the re-put")
		_ = st.Stop(c.ctx)
		st, err = NewStore(c.params(), dir)
		if err != nil {
			c.failf("%s: reopening after the re-put failed: %v", where, err)
		}
		c.lookup(st, c.h, true, where+", lookup after the re-put and another restart")
		if c.withH0 {
			c.lookup(st, c.h0, false, where+", lookup of the other height after the re-put")
		}
	}
	remove := func() {
		if err := st.RemoveODSQ4(c.ctx, c.h, c.hash); err != nil {
			c.failf("%s: RemoveODSQ4: expected success, observed %v", where, err)
		}
		c.mustBeClean(dir, where)
		if c.lookup(st, c.h, false, where+", lookup after RemoveODSQ4") {
			c.failf("%s: height %d is still readable after RemoveODSQ4 returned nil", where, c.h)
		}
	}
	switch scenario {
	case "put-odsq4,remove":
		put(true)
		remove()
	case "put-ods,remove":
		put(false)
		remove()
	case "remove,put-odsq4":
		remove()
		put(true)
	}
	_ = st.Stop(c.ctx)
	return sub
}

func (cr c07Crash) cls(c *c07Case) string {
	s, _ := c.classify(cr.state)
	return s
}

// judge examines one crash state (once per distinct state of the case) and returns the crash
// states recorded during its recovery puts.
func (c *c07Case) judge(cr c07Crash, depth int) []c07Crash {
	key := cr.state.key()
	if c.seen[key] {
		return nil
	}
	c.seen[key] = true
	cls, nontrivial := c.classify(cr.state)
	// known finding (fallback when the defect is listed as open instead of repaired): an incomplete
	// Q4 file is served once the ODS is linked. Exactly the states holding an incomplete Q4 file
	// are left out then; the fixed witness proves that the defect is still there.
	if q := cr.state[c.q4Rel]; vk.KnownOpen(c07SigPartialQ4) && q.kind == 'f' && len(q.data) < c.fullQ4 {
		vk.Excluded(c07SigPartialQ4)
		return nil
	}
	vk.Count("dir_states_distinct", 1)
	if cr.product {
		vk.Count("product_states", 1)
		c.products++
	}
	record := depth == 1 && nontrivial
	var sub []c07Crash
	for _, sc := range []string{"put-odsq4,remove", "put-ods,remove", "remove,put-odsq4"} {
		sub = append(sub, c.recoverFrom(cr, sc, depth, record && sc != "remove,put-odsq4")...)
	}
	c.judged++
	if nontrivial {
		c.nontriv++
	}
	labels := append([]string{"state:" + cls, fmt.Sprintf("depth=%d", depth)}, c.labels...)
	if cr.product {
		labels = append(labels, "product-state")
	}
	vk.Record(c.desc+" | "+key, labels, nontrivial, func() any {
		return map[string]any{"case": c.desc, "crash_at": cr.at, "state": cls, "depth": depth}
	})
	return sub
}

var c07Pre = []string{"fresh", "fresh", "present-odsq4", "present-odsq4", "present-ods", "other-height-odsq4", "other-height-ods"}

func c07Widths() []int {
	// VERIF_C07_ODS (comma separated) overrides the widths, e.g. "16" for a run of large squares only
	if v := os.Getenv("VERIF_C07_ODS"); v != "" {
		var out []int
		for _, f := range strings.Split(v, ",") {
			var n int
			if _, err := fmt.Sscanf(f, "%d", &n); err == nil && n >= 1 && n <= 64 && n&(n-1) == 0 {
				out = append(out, n)
			}
		}
		if len(out) > 0 {
			return out
		}
	}
	if vk.Thorough() {
		return []int{1, 2, 4, 4, 8, 8, 16}
	}
	return []int{1, 2, 2, 4, 4, 8, 8} // ods 16 has its own run (crash16)
}

// TestVerifC07_CrashEnumeration: see the file comment.
func TestVerifC07_CrashEnumeration(t *testing.T) {
	defer vk.Flush()
	defer verifhook.Set(nil)
	ctx := context.Background()
	rapid.Check(t, func(t *rapid.T) {
		sq := vk.GenSquare(t, "sq", vk.SquareOpts{ODS: c07Widths(), AllowEmpty: true, MaxRuns: 5})
		pre := rapid.SampledFrom(c07Pre).Draw(t, "pre")
		var op string
		if strings.HasPrefix(pre, "present") {
			op = rapid.SampledFrom([]string{"PutODSQ4", "PutODS", "RemoveODSQ4", "RemoveODSQ4", "RemoveQ4"}).Draw(t, "op")
		} else {
			op = rapid.SampledFrom([]string{"PutODSQ4", "PutODSQ4", "PutODS"}).Draw(t, "op")
		}
		c := &c07Case{
			t: t, ctx: ctx, sq: sq, hash: sq.Roots.Hash(),
			h:      rapid.Uint64Range(1, 1<<32).Draw(t, "height"),
			recent: rapid.SampledFrom([]int{0, 10}).Draw(t, "recentCache"),
			seed:   rapid.Uint64().Draw(t, "batteryseed"),
			seen:   map[string]bool{},
			light:  sq.ODS > 4,
		}
		c.h0 = c.h + 1024
		c.withH0 = strings.HasPrefix(pre, "other-height")
		opRecent := rapid.SampledFrom([]int{0, 10}).Draw(t, "opRecentCache")
		c.desc = fmt.Sprintf("%s pre=%s op=%s h=%d recent=%d/%d bseed=%d", sq.Desc(), pre, op, c.h, opRecent, c.recent, c.seed)
		c.labels = []string{"op=" + op, "pre=" + pre, fmt.Sprintf("ods=%d", sq.ODS), "scenario=" + pre + "/" + op, "tail=" + rb.TailBucket(sq)}
		if sq.Empty {
			c.labels = append(c.labels, "empty-block")
		}

		dir, err := os.MkdirTemp("", "c07op")
		if err != nil {
			t.Fatalf("VERIF-INFRA: temp dir: %v", err)
		}
		defer os.RemoveAll(dir)
		st, err := NewStore(&Parameters{RecentBlocksCacheSize: opRecent}, dir)
		if err != nil {
			t.Fatalf("VERIF-INFRA: NewStore: %v", err)
		}
		rel := func(p string) string {
			r, err := filepath.Rel(dir, p)
			if err != nil {
				t.Fatalf("VERIF-INFRA: %v", err)
			}
			return filepath.ToSlash(r)
		}
		c.odsRel, c.q4Rel = rel(st.hashToPath(c.hash, odsFileExt)), rel(st.hashToPath(c.hash, q4FileExt))
		c.linkRel = rel(st.heightToPath(c.h, odsFileExt))
		// sizes of the complete files, from the documented layout: header, roots, every share
		// before the tail padding; Q4: every share of the quadrant
		w := sq.Width()
		c.fullODS = 1 + 64 + 2*w*share.AxisRootSize + (sq.ODS*sq.ODS-sq.Tail)*libshare.ShareSize
		c.fullQ4 = sq.ODS * sq.ODS * libshare.ShareSize

		switch pre {
		case "present-odsq4":
			err = st.PutODSQ4(ctx, sq.Roots, c.h, sq.EDS)
		case "present-ods":
			err = st.PutODS(ctx, sq.Roots, c.h, sq.EDS)
		case "other-height-odsq4":
			err = st.PutODSQ4(ctx, sq.Roots, c.h0, sq.EDS)
		case "other-height-ods":
			err = st.PutODS(ctx, sq.Roots, c.h0, sq.EDS)
		}
		if err != nil {
			t.Fatalf("C07: preparing the pre-state %q failed: %v\ncase: %s", pre, err, c.desc)
		}

		rec, err := c07NewRecorder(dir, c.odsRel, c.q4Rel)
		if err != nil {
			t.Fatalf("VERIF-INFRA: recorder: %v", err)
		}
		verifhook.Set(rec.handle)
		switch op {
		case "PutODSQ4":
			err = st.PutODSQ4(ctx, sq.Roots, c.h, sq.EDS)
		case "PutODS":
			err = st.PutODS(ctx, sq.Roots, c.h, sq.EDS)
		case "RemoveODSQ4":
			err = st.RemoveODSQ4(ctx, c.h, c.hash)
		case "RemoveQ4":
			err = st.RemoveQ4(ctx, c.h, c.hash)
		}
		verifhook.Set(nil)
		if err != nil {
			t.Fatalf("C07: the operation itself (no crash) failed: %v\ncase: %s", err, c.desc)
		}
		_ = st.Stop(ctx)
		crashes, err := rec.states()
		if err != nil {
			t.Fatalf("VERIF-INFRA: recording crash points: %v", err)
		}
		vk.Count("points_hit", int64(rec.points))
		vk.Count("crash_states_enumerated", int64(len(crashes)))
		for name, n := range rec.names {
			vk.Count("point:"+name, int64(n))
		}
		// no state is invented: every file version is a prefix of the complete file the same
		// operation went on to write (checked for puts, where the final files are complete)
		if strings.HasPrefix(op, "Put") && !sq.Empty {
			final := crashes[len(crashes)-1].state
			for _, seg := range rec.segs {
				for _, v := range seg.ods {
					if v.kind == 'f' && !bytes.HasPrefix(final[c.odsRel].data, v.data) {
						t.Fatalf("VERIF-INFRA: recorded ODS version of %d bytes is not a prefix of the final file", len(v.data))
					}
				}
				for _, v := range seg.q4 {
					if fq, ok := final[c.q4Rel]; ok && v.kind == 'f' && !bytes.HasPrefix(fq.data, v.data) {
						t.Fatalf("VERIF-INFRA: recorded Q4 version of %d bytes is not a prefix of the final file", len(v.data))
					}
				}
			}
			if got := len(final[c.odsRel].data); got != c.fullODS {
				t.Fatalf("C07: complete ODS file has %d bytes, the documented layout gives %d\ncase: %s", got, c.fullODS, c.desc)
			}
			if fq, ok := final[c.q4Rel]; ok && len(fq.data) != c.fullQ4 {
				t.Fatalf("C07: complete Q4 file has %d bytes, the documented layout gives %d\ncase: %s", len(fq.data), c.fullQ4, c.desc)
			}
		}
		// depth 1: the crash states of the operation; depth 2: the crash states of the recovery
		// puts that started from a depth-1 state (those not seen at depth 1 already)
		var second []c07Crash
		for _, cr := range crashes {
			second = append(second, c.judge(cr, 1)...)
		}
		for _, cr := range second {
			cr.at = "recovery-put:" + cr.at
			c.judge(cr, 2)
		}
		vk.Count("cases", 1)
		if c.nontriv > 0 {
			vk.Count("cases_with_nontrivial_states", 1)
		}
	})
}
