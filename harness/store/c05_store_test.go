package store

// C05 - every read path returns exactly the stored block: the store-level representations
// (recent cache, evicted, reopened directory, ODS-only put, after RemoveQ4, CachedStore, Getter).
// Harness file of /verif (injected by overlay; not part of celestia-node).

import (
	"bytes"
	"context"
	"errors"
	"fmt"
	"math/rand/v2"
	"os"
	"testing"

	libshare "github.com/celestiaorg/go-square/v4/share"
	"github.com/celestiaorg/rsmt2d"
	"pgregory.net/rapid"

	"github.com/celestiaorg/celestia-node/header"
	vk "github.com/celestiaorg/celestia-node/internal/verifkit"
	rb "github.com/celestiaorg/celestia-node/internal/verifkit/c05battery"
	"github.com/celestiaorg/celestia-node/share/eds"
	"github.com/celestiaorg/celestia-node/share/shwap"
)

// verifReadBattery is the C05 read battery (see internal/verifkit/c05battery): every read path of
// acc is compared with the reference matrix sq.Ref and verified against sq.Roots. Accessors
// handed out by the store always carry the validating wrapper, hence Validated.
func verifReadBattery(ctx context.Context, id string, acc eds.AccessorStreamer, sq *vk.Square, seed uint64, light bool) error {
	return rb.ReadBattery(ctx, acc, sq, rb.Opts{ID: id, Seed: seed, Validated: true, Light: light})
}

func c05StoreWidths() []int {
	if vk.Thorough() {
		return []int{1, 2, 4, 8, 16, 32}
	}
	return []int{1, 2, 2, 4, 4, 8}
}

func verifGenSweepSquare(t *rapid.T, widths []int) *vk.Square {
	if rapid.IntRange(0, 3).Draw(t, "tailsweep") == 0 {
		ods := rapid.SampledFrom([]int{1, 2, 2, 4, 4, 4}).Draw(t, "sweep.ods")
		area := ods * ods
		tail := rapid.IntRange(0, area-1).Draw(t, "sweep.tail")
		data := area - tail
		var runs []vk.Run
		start := 0
		if data > 1 && rapid.Bool().Draw(t, "sweep.tx") {
			n := rapid.IntRange(1, data-1).Draw(t, "sweep.txlen")
			runs = append(runs, vk.Run{NS: libshare.TxNamespace, Start: 0, Len: n})
			start = n
		}
		rest := data - start
		if rest > 1 && rapid.Bool().Draw(t, "sweep.two") {
			n := rapid.IntRange(1, rest-1).Draw(t, "sweep.cut")
			runs = append(runs, vk.Run{NS: vk.BlobNS(1), Start: start, Len: n}, vk.Run{NS: vk.BlobNS(3), Start: start + n, Len: rest - n})
		} else {
			runs = append(runs, vk.Run{NS: vk.BlobNS(2), Start: start, Len: rest})
		}
		return vk.BuildSquare(ods, tail, runs, rapid.Uint64().Draw(t, "sweep.seed"))
	}
	return vk.GenSquare(t, "sq", vk.SquareOpts{ODS: widths, AllowEmpty: true})
}

func verifHeader(height uint64, sq *vk.Square) *header.ExtendedHeader {
	eh := &header.ExtendedHeader{DAH: sq.Roots}
	eh.RawHeader.Height = int64(height)
	return eh
}

// c05GetterBattery reads the block through store.Getter.
func c05GetterBattery(ctx context.Context, g *Getter, eh *header.ExtendedHeader, sq *vk.Square, seed uint64) (err error) {
	defer func() {
		if r := recover(); r != nil {
			err = fmt.Errorf("C05: store.Getter panicked: %v", r)
		}
	}()
	rng := rand.New(rand.NewPCG(seed, 0x6E77E2))
	w, ods := sq.Width(), sq.ODS
	fail := func(what, format string, a ...any) error {
		return fmt.Errorf("C05: store.Getter.%s on [%s]: %s", what, sq.Desc(), fmt.Sprintf(format, a...))
	}
	coords := rb.Coordinates(sq, rng, 8, false)
	// one call with all coordinates (positional result), then a few single ones
	smpls, err := g.GetSamples(ctx, eh, coords)
	if err != nil {
		return fail("GetSamples", "expected %d samples, observed error %v", len(coords), err)
	}
	if len(smpls) != len(coords) {
		return fail("GetSamples", "expected %d samples, observed %d", len(coords), len(smpls))
	}
	for i, co := range coords {
		if !bytes.Equal(smpls[i].ToBytes(), sq.RefShare(co.Row, co.Col)) {
			return fail("GetSamples", "position %d = (%d,%d): expected the committed share, observed another one", i, co.Row, co.Col)
		}
		if err := smpls[i].Verify(sq.Roots, co.Row, co.Col); err != nil {
			return fail("GetSamples", "position %d = (%d,%d): expected a sample that verifies, observed %v", i, co.Row, co.Col, err)
		}
	}
	for _, bad := range []shwap.SampleCoords{{Row: w, Col: 0}, {Row: 0, Col: w}, {Row: -1, Col: 0}, {Row: 0, Col: 1 << 40}} {
		if out, err := g.GetSamples(ctx, eh, []shwap.SampleCoords{{Row: 0, Col: 0}, bad}); err == nil {
			return fail("GetSamples", "coordinate (%d,%d) is outside the square: expected an error, observed %d samples", bad.Row, bad.Col, len(out))
		}
	}
	square, err := g.GetEDS(ctx, eh)
	if err != nil {
		return fail("GetEDS", "expected the stored square, observed error %v", err)
	}
	if int(square.Width()) != w {
		return fail("GetEDS", "expected width %d, observed %d", w, square.Width())
	}
	for r := 0; r < w; r++ {
		for c := 0; c < w; c++ {
			if !bytes.Equal(square.GetCell(uint(r), uint(c)), sq.Ref[r][c]) {
				return fail("GetEDS", "cell (%d,%d) differs from the committed share", r, c)
			}
		}
	}
	rows := []int{0, ods - 1, ods, w - 1, rng.IntN(w)}
	for _, r := range rows {
		row, err := g.GetRow(ctx, eh, r)
		if err != nil {
			return fail("GetRow", "row %d: expected a row half, observed error %v", r, err)
		}
		if err := row.Verify(sq.Roots, r); err != nil {
			return fail("GetRow", "row %d: expected a row that verifies against its root, observed %v", r, err)
		}
		shrs, err := row.Shares()
		if err != nil {
			return fail("GetRow", "row %d: cannot extend the returned half: %v", r, err)
		}
		if err := vk.SharesBytesEqual(shrs, sq.Ref[r]); err != nil {
			return fail("GetRow", "row %d: expected the committed row, observed: %v", r, err)
		}
	}
	for _, r := range []int{w, -1, 1 << 40} {
		if _, err := g.GetRow(ctx, eh, r); err == nil {
			return fail("GetRow", "row %d is outside the square: expected an error, observed a row", r)
		}
	}
	for _, nc := range rb.Namespaces(sq, rng, true) {
		nd, err := g.GetNamespaceData(ctx, eh, nc.NS)
		if nc.Reject {
			// refused, or (when no row's range covers it) an empty result; never shares
			if err == nil && len(nd.Flatten()) > 0 {
				return fail("GetNamespaceData", "namespace %s (%s) is not a data namespace: expected an error or nothing, observed %d shares", vk.NsShort(nc.NS), nc.Class, len(nd.Flatten()))
			}
			continue
		}
		if err != nil {
			return fail("GetNamespaceData", "namespace %s (%s): expected namespace data, observed error %v", vk.NsShort(nc.NS), nc.Class, err)
		}
		if err := nd.Verify(sq.Roots, nc.NS); err != nil {
			return fail("GetNamespaceData", "namespace %s (%s): expected data that verifies against the roots, observed %v", vk.NsShort(nc.NS), nc.Class, err)
		}
		if err := vk.SharesBytesEqual(nd.Flatten(), sq.RefNamespace(nc.NS)); err != nil {
			return fail("GetNamespaceData", "namespace %s (%s): expected the committed shares of the namespace, observed: %v", vk.NsShort(nc.NS), nc.Class, err)
		}
	}
	area := ods * ods
	for i := 0; i < 4; i++ {
		a := []int{0, area - 1, max(0, area-sq.Tail-1), rng.IntN(area)}[i]
		lo, hi := sq.NSStretch(a)
		from := lo + rng.IntN(a-lo+1)
		to := a + 1 + rng.IntN(hi-a)
		rng2, err := g.GetRangeNamespaceData(ctx, eh, from, to)
		if err != nil {
			return fail("GetRangeNamespaceData", "[%d,%d): expected the shares of the range, observed error %v", from, to, err)
		}
		fc := shwap.SampleCoords{Row: from / ods, Col: from % ods}
		tc := shwap.SampleCoords{Row: (to - 1) / ods, Col: (to - 1) % ods}
		if err := rng2.VerifyInclusion(fc, tc, ods, sq.Roots.RowRoots[fc.Row:tc.Row+1]); err != nil {
			return fail("GetRangeNamespaceData", "[%d,%d): expected range data that verifies, observed %v", from, to, err)
		}
		want := make([][]byte, 0, to-from)
		for j := from; j < to; j++ {
			want = append(want, sq.Ref[j/ods][j%ods])
		}
		if err := vk.SharesBytesEqual(rng2.Flatten(), want); err != nil {
			return fail("GetRangeNamespaceData", "[%d,%d): expected the committed shares, observed: %v", from, to, err)
		}
	}
	for _, r := range [][2]int{{-1, 1}, {0, 0}, {0, area + 1}, {area, area + 1}, {2, 1}} {
		if _, err := g.GetRangeNamespaceData(ctx, eh, r[0], r[1]); err == nil {
			return fail("GetRangeNamespaceData", "[%d,%d) is not a range of the square (%d shares): expected an error, observed data", r[0], r[1], area)
		}
	}
	return nil
}

var c05Readers = []string{"store", "cached-first", "cached-second", "getter", "wrap-rsmt2d"}

// TestVerifC05_StorePaths: a generated square is put into a real store (PutODSQ4 or PutODS), a
// generated sequence of events changes how the store holds it (eviction from the recent cache,
// reopening the directory with a new Store, RemoveQ4), and it is then read back through
// Store.GetByHeight, CachedStore.GetByHeight (first and second hit) or store.Getter.
func TestVerifC05_StorePaths(t *testing.T) {
	defer vk.Flush()
	ctx := context.Background()
	rapid.Check(t, func(t *rapid.T) {
		sq := verifGenSweepSquare(t, c05StoreWidths())
		putQ4 := rapid.Bool().Draw(t, "putQ4")
		recent := rapid.SampledFrom([]int{0, 1, 10}).Draw(t, "recentCache")
		evict := rapid.IntRange(0, 2).Draw(t, "evict") == 0
		reopen := rapid.IntRange(0, 2).Draw(t, "reopen") == 0
		removeQ4 := rapid.IntRange(0, 2).Draw(t, "removeQ4") == 0
		reader := rapid.SampledFrom(c05Readers).Draw(t, "reader")
		height := rapid.Uint64Range(1, 1<<40).Draw(t, "height")
		seed := rapid.Uint64().Draw(t, "batteryseed")
		passes := rapid.IntRange(1, 2).Draw(t, "passes")
		var other *vk.Square
		if evict {
			other = vk.GenSquare(t, "other", vk.SquareOpts{ODS: []int{1, 2}})
		}

		if reader == "wrap-rsmt2d" {
			// the store's wrapper stack directly over the in-memory square (what put() caches)
			acc := wrapAccessor(&eds.Rsmt2D{ExtendedDataSquare: sq.EDS})
			for p := 0; p < passes; p++ {
				if err := verifReadBattery(ctx, "C05", acc, sq, seed+uint64(p), false); err != nil {
					t.Fatalf("%v\nrepresentation: wrapAccessor(Rsmt2D) pass=%d", err, p)
				}
			}
			_ = acc.Close()
			vk.Record(fmt.Sprintf("%s wrap-rsmt2d bseed=%d", sq.Desc(), seed),
				[]string{"rep=wrap-rsmt2d", "held=memory", fmt.Sprintf("ods=%d", sq.ODS), "tail=" + rb.TailBucket(sq)}, true, nil)
			return
		}

		dir, err := os.MkdirTemp("", "c05store")
		if err != nil {
			t.Fatalf("VERIF-INFRA: temp dir: %v", err)
		}
		defer os.RemoveAll(dir)
		st, err := NewStore(&Parameters{RecentBlocksCacheSize: recent}, dir)
		if err != nil {
			t.Fatalf("VERIF-INFRA: NewStore: %v", err)
		}
		put := st.PutODS
		if putQ4 {
			put = st.PutODSQ4
		}
		if err := put(ctx, sq.Roots, height, sq.EDS); err != nil {
			t.Fatalf("C05: put (q4=%v) of a valid square failed: %v [%s]", putQ4, err, sq.Desc())
		}
		held := "file"
		if recent > 0 && !sq.Empty {
			held = "recent-cache"
		}
		if evict {
			// fill the recent cache with other heights; size 1 evicts ours, size 10 does not
			oh := height + 1
			if err := st.PutODSQ4(ctx, other.Roots, oh, other.EDS); err != nil {
				t.Fatalf("C05: put of a second block failed: %v", err)
			}
			if recent == 1 {
				held = "file"
			}
		}
		if removeQ4 {
			if err := st.RemoveQ4(ctx, height, sq.Roots.Hash()); err != nil {
				t.Fatalf("C05: RemoveQ4 failed: %v", err)
			}
			held = "file" // RemoveQ4 drops the cache entry
		}
		if reopen {
			_ = st.Stop(ctx)
			st, err = NewStore(&Parameters{RecentBlocksCacheSize: recent}, dir)
			if err != nil {
				t.Fatalf("C05: reopening the store directory failed: %v", err)
			}
			held = "file"
		}
		hasQ4 := putQ4 && !removeQ4 || sq.Empty

		has, err := st.HasByHeight(ctx, height)
		if err != nil || !has {
			t.Fatalf("C05: HasByHeight(%d) after put: expected (true, nil), observed (%v, %v) [%s]", height, has, err, sq.Desc())
		}

		repDesc := fmt.Sprintf("reader=%s putQ4=%v recent=%d evict=%v removeQ4=%v reopen=%v held=%s", reader, putQ4, recent, evict, removeQ4, reopen, held)
		run := func(acc eds.AccessorStreamer, what string) {
			for p := 0; p < passes; p++ {
				if err := verifReadBattery(ctx, "C05", acc, sq, seed+uint64(p), false); err != nil {
					t.Fatalf("%v\nrepresentation: %s via %s pass=%d", err, repDesc, what, p)
				}
			}
		}
		switch reader {
		case "store":
			acc, err := st.GetByHeight(ctx, height)
			if err != nil {
				t.Fatalf("C05: GetByHeight(%d) after put: expected an accessor, observed %v (%s)", height, err, repDesc)
			}
			run(acc, "Store.GetByHeight")
			_ = acc.Close()
		case "cached-first", "cached-second":
			cs, err := st.WithCache("verif", 4)
			if err != nil {
				t.Fatalf("VERIF-INFRA: WithCache: %v", err)
			}
			acc, err := cs.GetByHeight(ctx, height)
			if err != nil {
				t.Fatalf("C05: CachedStore.GetByHeight(%d): expected an accessor, observed %v (%s)", height, err, repDesc)
			}
			if reader == "cached-first" {
				run(acc, "CachedStore.GetByHeight (first hit)")
				_ = acc.Close()
				break
			}
			// a few reads through the first handle, then a second hit
			if _, err := acc.Sample(ctx, shwap.SampleCoords{Row: sq.Width() - 1, Col: sq.Width() - 1}); err != nil {
				t.Fatalf("C05: Sample of the last cell through CachedStore: %v (%s)", err, repDesc)
			}
			_ = acc.Close()
			acc2, err := cs.GetByHeight(ctx, height)
			if err != nil {
				t.Fatalf("C05: CachedStore.GetByHeight(%d) second hit: expected an accessor, observed %v (%s)", height, err, repDesc)
			}
			run(acc2, "CachedStore.GetByHeight (second hit)")
			_ = acc2.Close()
			// the plain store reads through the combined cache as well
			acc3, err := st.GetByHeight(ctx, height)
			if err != nil {
				t.Fatalf("C05: Store.GetByHeight(%d) with a serving cache attached: %v (%s)", height, err, repDesc)
			}
			if err := verifReadBattery(ctx, "C05", acc3, sq, seed+7, true); err != nil {
				t.Fatalf("%v\nrepresentation: %s via Store.GetByHeight after CachedStore hits", err, repDesc)
			}
			_ = acc3.Close()
			if held == "file" {
				held = "serving-cache"
			}
		case "getter":
			if err := c05GetterBattery(ctx, NewGetter(st), verifHeader(height, sq), sq, seed); err != nil {
				t.Fatalf("%v\nrepresentation: %s", err, repDesc)
			}
			// a height that was never stored is reported as not found
			if _, err := NewGetter(st).GetEDS(ctx, verifHeader(height+77, sq)); !errors.Is(err, shwap.ErrNotFound) {
				t.Fatalf("C05: Getter.GetEDS of a height never stored: expected shwap.ErrNotFound, observed %v", err)
			}
		}
		_ = st.Stop(ctx)

		labels := []string{
			"rep=" + reader + "/" + held, "reader=" + reader, "held=" + held,
			fmt.Sprintf("ods=%d", sq.ODS), "tail=" + rb.TailBucket(sq),
			fmt.Sprintf("q4file=%v", hasQ4), fmt.Sprintf("reopen=%v", reopen), fmt.Sprintf("removeQ4=%v", removeQ4),
			fmt.Sprintf("putQ4=%v", putQ4), "cell=" + held + "|q4=" + fmt.Sprint(hasQ4) + "|tail=" + rb.TailBucket(sq),
		}
		vk.Record(sq.Desc()+" "+repDesc+fmt.Sprintf(" h=%d bseed=%d", height, seed), labels, true, func() any {
			return map[string]any{"square": sq.Desc(), "representation": repDesc}
		})
	})
}

var _ = rsmt2d.Row
