package header_test

// C16 — only internally consistent, properly signed extended headers are accepted.
// Harness file of /verif (injected by overlay; not part of celestia-node).
//
// This file: generator of honest header chains (all randomness under rapid), deep copies that
// never carry memoised hashes/totals over, and the independent reference (a)-(d).

import (
	"bytes"
	stded "crypto/ed25519"
	"encoding/binary"
	"encoding/hex"
	"fmt"
	"math/rand/v2"
	"strings"
	"time"

	"github.com/cometbft/cometbft/crypto/ed25519"
	"github.com/cometbft/cometbft/crypto/merkle"
	"github.com/cometbft/cometbft/crypto/tmhash"
	cmtbytes "github.com/cometbft/cometbft/libs/bytes"
	pcrypto "github.com/cometbft/cometbft/proto/tendermint/crypto"
	cmtproto "github.com/cometbft/cometbft/proto/tendermint/types"
	"github.com/cometbft/cometbft/proto/tendermint/version"
	core "github.com/cometbft/cometbft/types"
	"pgregory.net/rapid"

	"github.com/celestiaorg/celestia-app/v9/pkg/appconsts"
	"github.com/celestiaorg/celestia-app/v9/pkg/da"

	"github.com/celestiaorg/celestia-node/header"
	vk "github.com/celestiaorg/celestia-node/internal/verifkit"
)

const (
	c16PoolSize = 10 // keys per case; honest sets use at most 7, so outsiders always exist
	c16MaxSet   = 7
)

type c16Key struct {
	seed uint64
	priv ed25519.PrivKey
	pub  ed25519.PubKey
	addr []byte
}

type c16Member struct {
	key   int // index into the pool
	power int64
}

// c16Env is what one generated case knows: chain id, key pool and a filler PRNG seeded from a
// rapid-drawn value.
type c16Env struct {
	chainID string
	keys    []c16Key
	byAddr  map[string]int // address -> pool index (lookups only, never iterated)
	rng     *rand.Rand
	desc    strings.Builder
}

func (e *c16Env) logf(format string, a ...any) { fmt.Fprintf(&e.desc, format, a...) }

func (e *c16Env) fill(n int) []byte {
	b := make([]byte, n)
	for i := range b {
		b[i] = byte(e.rng.Uint32())
	}
	return b
}

func c16GenEnv(t *rapid.T) *c16Env {
	e := &c16Env{byAddr: map[string]int{}}
	e.chainID = rapid.SampledFrom([]string{
		"test", "celestia", "mocha-4", "c", "arabica-11",
		"a-chain-id-that-is-exactly-fifty-characters-long-x", // MaxChainIDLen
	}).Draw(t, "chainID")
	seeds := rapid.SliceOfNDistinct(rapid.Uint64(), c16PoolSize, c16PoolSize, func(s uint64) uint64 { return s }).Draw(t, "keyseeds")
	for _, s := range seeds {
		var secret [11]byte
		binary.LittleEndian.PutUint64(secret[:8], s)
		copy(secret[8:], "c16")
		priv := ed25519.GenPrivKeyFromSecret(secret[:])
		pub := priv.PubKey().(ed25519.PubKey)
		k := c16Key{seed: s, priv: priv, pub: pub, addr: pub.Address()}
		e.byAddr[string(k.addr)] = len(e.keys)
		e.keys = append(e.keys, k)
	}
	fseed := rapid.Uint64().Draw(t, "fillseed")
	e.rng = rand.New(rand.NewPCG(fseed, 0xC16C16C16))
	e.logf("chain=%s seeds=%v fill=%d", e.chainID, seeds, fseed)
	return e
}

var c16SmallPowers = []int64{1, 1, 1, 2, 3, 5, 10, 100}

func c16GenPower(t *rapid.T, label string) int64 {
	switch rapid.IntRange(0, 3).Draw(t, label+".pkind") {
	case 0, 1:
		return rapid.SampledFrom(c16SmallPowers).Draw(t, label+".psmall")
	case 2:
		return int64(rapid.IntRange(1, 1000).Draw(t, label+".p"))
	default:
		return rapid.SampledFrom([]int64{1 << 20, 1 << 40, 999_999_999}).Draw(t, label+".pbig")
	}
}

// c16GenSet draws a validator set of 1..7 distinct pool keys with generated powers.
func c16GenSet(t *rapid.T, label string) []c16Member {
	n := rapid.IntRange(1, c16MaxSet).Draw(t, label+".n")
	ks := rapid.SliceOfNDistinct(rapid.IntRange(0, c16PoolSize-1), n, n, func(i int) int { return i }).Draw(t, label+".keys")
	equal := rapid.IntRange(0, 2).Draw(t, label+".equal") == 0
	var eq int64
	if equal {
		eq = rapid.SampledFrom(c16SmallPowers).Draw(t, label+".eqp")
	}
	set := make([]c16Member, n)
	for i, k := range ks {
		p := eq
		if !equal {
			p = c16GenPower(t, label)
		}
		set[i] = c16Member{key: k, power: p}
	}
	return set
}

func c16InSet(set []c16Member, key int) bool {
	for _, m := range set {
		if m.key == key {
			return true
		}
	}
	return false
}

func c16Outsiders(set []c16Member) []int {
	var out []int
	for k := 0; k < c16PoolSize; k++ {
		if !c16InSet(set, k) {
			out = append(out, k)
		}
	}
	return out
}

// c16EvolveSet draws the validator set of the next height from the current one.
func c16EvolveSet(t *rapid.T, label string, cur []c16Member) ([]c16Member, string) {
	next := append([]c16Member(nil), cur...)
	switch rapid.IntRange(0, 9).Draw(t, label+".chg") {
	case 0, 1, 2, 3:
		return next, "same"
	case 4:
		i := rapid.IntRange(0, len(next)-1).Draw(t, label+".i")
		next[i].power = c16GenPower(t, label)
		return next, "power"
	case 5:
		if len(next) > 1 {
			i := rapid.IntRange(0, len(next)-1).Draw(t, label+".i")
			return append(next[:i], next[i+1:]...), "remove"
		}
		return next, "same"
	case 6:
		if len(next) < c16MaxSet {
			out := c16Outsiders(next)
			k := rapid.SampledFrom(out).Draw(t, label+".k")
			return append(next, c16Member{key: k, power: c16GenPower(t, label)}), "add"
		}
		return next, "same"
	case 7: // replace one member by an outsider (same power)
		out := c16Outsiders(next)
		i := rapid.IntRange(0, len(next)-1).Draw(t, label+".i")
		next[i].key = rapid.SampledFrom(out).Draw(t, label+".k")
		return next, "replace-one"
	case 8: // disjoint set
		out := c16Outsiders(next)
		n := rapid.IntRange(1, min(len(out), c16MaxSet)).Draw(t, label+".n")
		perm := rapid.Permutation(out).Draw(t, label+".perm")
		dis := make([]c16Member, n)
		for i := range dis {
			dis[i] = c16Member{key: perm[i], power: c16GenPower(t, label)}
		}
		return dis, "disjoint"
	default:
		return c16GenSet(t, label+".fresh"), "fresh"
	}
}

// buildValSet constructs the validator set the way cometbft does (sorted, proposer elected).
func (e *c16Env) buildValSet(set []c16Member, incr int) *core.ValidatorSet {
	vals := make([]*core.Validator, len(set))
	for i, m := range set {
		vals[i] = core.NewValidator(e.keys[m.key].pub, m.power)
	}
	vs := core.NewValidatorSet(vals)
	if incr > 0 {
		vs.IncrementProposerPriority(int32(incr))
	}
	return vs
}

func c16SetDesc(set []c16Member) string {
	var b strings.Builder
	for _, m := range set {
		fmt.Fprintf(&b, "k%d:%d,", m.key, m.power)
	}
	return b.String()
}

// signSig builds a properly signed CommitSig for validator key k.
func (e *c16Env) signSig(chainID string, height int64, round int32, bid core.BlockID, flag core.BlockIDFlag,
	ts time.Time, k int, addr []byte,
) core.CommitSig {
	if flag == core.BlockIDFlagAbsent {
		return core.NewCommitSigAbsent()
	}
	voteBID := bid
	if flag == core.BlockIDFlagNil {
		voteBID = core.BlockID{}
	}
	if addr == nil {
		addr = e.keys[k].addr
	}
	v := &cmtproto.Vote{
		Type:      cmtproto.PrecommitType,
		Height:    height,
		Round:     round,
		BlockID:   voteBID.ToProto(),
		Timestamp: ts,
	}
	msg, ok := safeSignBytes(chainID, v)
	if !ok {
		// cometbft cannot even form sign bytes here (block id of the wrong shape, time outside the
		// protobuf range): nobody can sign this vote
		return core.CommitSig{BlockIDFlag: flag, ValidatorAddress: append([]byte(nil), addr...), Timestamp: ts, Signature: e.fill(64)}
	}
	sig, err := e.keys[k].priv.Sign(msg)
	if err != nil {
		panic(err)
	}
	return core.CommitSig{BlockIDFlag: flag, ValidatorAddress: append([]byte(nil), addr...), Timestamp: ts, Signature: sig}
}

// safeSignBytes: cometbft's VoteSignBytes panics when the vote cannot be canonicalised.
func safeSignBytes(chainID string, v *cmtproto.Vote) (msg []byte, ok bool) {
	defer func() {
		if recover() != nil {
			msg, ok = nil, false
		}
	}()
	return core.VoteSignBytes(chainID, v), true
}

// c16HeaderSpec is everything that determines one honest header.
type c16HeaderSpec struct {
	height    int64
	time      time.Time
	appV      uint64
	last      core.BlockID
	lastCH    []byte
	vals      *core.ValidatorSet
	nextVals  *core.ValidatorSet
	sq        *vk.Square
	round     int32
	flags     []core.BlockIDFlag // per validator index (sorted set order); fixed up to exceed 2/3
	tsOffsets []int64
}

// buildHeader assembles an honest extended header as a block producer would: hashes from the
// libraries' own functions, commit signed by the set's keys over cometbft's canonical bytes.
func (e *c16Env) buildHeader(s c16HeaderSpec) *header.ExtendedHeader {
	dah := &da.DataAvailabilityHeader{RowRoots: cloneBB(s.sq.Roots.RowRoots), ColumnRoots: cloneBB(s.sq.Roots.ColumnRoots)}
	raw := header.RawHeader{
		Version:            version.Consensus{Block: 11, App: s.appV},
		ChainID:            e.chainID,
		Height:             s.height,
		Time:               s.time,
		LastBlockID:        s.last,
		LastCommitHash:     s.lastCH,
		DataHash:           dah.Hash(),
		ValidatorsHash:     s.vals.Hash(),
		NextValidatorsHash: s.nextVals.Hash(),
		ConsensusHash:      e.fill(32),
		AppHash:            e.fill(32),
		LastResultsHash:    e.fill(32),
		EvidenceHash:       tmhash.Sum(nil),
		ProposerAddress:    append([]byte(nil), s.vals.GetProposer().Address...),
	}
	bid := core.BlockID{
		Hash:          raw.Hash(),
		PartSetHeader: core.PartSetHeader{Total: 1 + e.rng.Uint32N(20), Hash: e.fill(32)},
	}
	// make the drawn flags honest: commit power must exceed 2/3
	total, commitP := int64(0), int64(0)
	for i, v := range s.vals.Validators {
		total += v.VotingPower
		if s.flags[i] == core.BlockIDFlagCommit {
			commitP += v.VotingPower
		}
	}
	for i, v := range s.vals.Validators {
		if 3*commitP > 2*total {
			break
		}
		if s.flags[i] != core.BlockIDFlagCommit {
			s.flags[i] = core.BlockIDFlagCommit
			commitP += v.VotingPower
		}
	}
	sigs := make([]core.CommitSig, len(s.vals.Validators))
	for i, v := range s.vals.Validators {
		k := e.byAddr[string(v.Address)]
		ts := s.time.Add(time.Duration(s.tsOffsets[i]))
		sigs[i] = e.signSig(e.chainID, s.height, s.round, bid, s.flags[i], ts, k, nil)
	}
	return &header.ExtendedHeader{
		RawHeader:    raw,
		Commit:       &core.Commit{Height: s.height, Round: s.round, BlockID: bid, Signatures: sigs},
		ValidatorSet: s.vals,
		DAH:          dah,
	}
}

func c16GenFlags(t *rapid.T, label string, n int) ([]core.BlockIDFlag, []int64) {
	flags := make([]core.BlockIDFlag, n)
	offs := make([]int64, n)
	allCommit := rapid.IntRange(0, 2).Draw(t, label+".all") == 0
	for i := range flags {
		flags[i] = core.BlockIDFlagCommit
		if !allCommit {
			flags[i] = rapid.SampledFrom([]core.BlockIDFlag{
				core.BlockIDFlagCommit, core.BlockIDFlagCommit, core.BlockIDFlagCommit,
				core.BlockIDFlagAbsent, core.BlockIDFlagNil,
			}).Draw(t, label+".flag")
		}
		offs[i] = int64(rapid.IntRange(0, 5_000_000_000).Draw(t, label+".ts"))
	}
	return flags, offs
}

// c16Chain is an honest chain of consecutive headers.
type c16Chain struct {
	env  *c16Env
	sets [][]c16Member // sets[i] signs hdrs[i]; sets[len(hdrs)] is the next set of the last header
	hdrs []*header.ExtendedHeader
	chg  []string // how sets[i+1] was derived from sets[i]
	sqs  []*vk.Square
}

func c16GenTime(t *rapid.T, label string) time.Time {
	sec := int64(rapid.IntRange(1_600_000_000, 1_900_000_000).Draw(t, label+".sec"))
	ns := int64(rapid.IntRange(0, 999_999_999).Draw(t, label+".ns"))
	return time.Unix(sec, ns).UTC()
}

func c16GenChain(t *rapid.T, env *c16Env, n int) *c16Chain {
	c := &c16Chain{env: env}
	h0 := int64(1)
	switch rapid.IntRange(0, 3).Draw(t, "h0kind") {
	case 0:
		h0 = 1
	case 1:
		h0 = int64(rapid.IntRange(2, 1000).Draw(t, "h0"))
	case 2:
		h0 = rapid.SampledFrom([]int64{1<<31 - 2, 1 << 32, 1<<53 - 1, 1<<62 + 5}).Draw(t, "h0big")
	default:
		h0 = rapid.Int64Range(1, 1<<40).Draw(t, "h0any")
	}
	cur := c16GenSet(t, "set0")
	c.sets = append(c.sets, cur)
	for i := 0; i < n; i++ {
		nx, how := c16EvolveSet(t, fmt.Sprintf("set%d", i+1), c.sets[i])
		c.sets = append(c.sets, nx)
		c.chg = append(c.chg, how)
	}
	tm := c16GenTime(t, "t0")
	valsets := make([]*core.ValidatorSet, n+1)
	for i := range valsets {
		valsets[i] = env.buildValSet(c.sets[i], rapid.IntRange(0, 3).Draw(t, "incr"))
	}
	last := core.BlockID{Hash: env.fill(32), PartSetHeader: core.PartSetHeader{Total: 1 + env.rng.Uint32N(20), Hash: env.fill(32)}}
	lastCH := env.fill(32)
	env.logf(" h0=%d t0=%d", h0, tm.UnixNano())
	for i := 0; i < n; i++ {
		sq := vk.GenSquare(t, fmt.Sprintf("sq%d", i), vk.SquareOpts{ODS: []int{1, 2, 4}, AllowEmpty: true, MaxRuns: 4})
		flags, offs := c16GenFlags(t, fmt.Sprintf("sig%d", i), len(valsets[i].Validators))
		spec := c16HeaderSpec{
			height:    h0 + int64(i),
			time:      tm,
			appV:      uint64(rapid.IntRange(1, int(appconsts.Version)).Draw(t, "appV")),
			last:      last,
			lastCH:    lastCH,
			vals:      valsets[i],
			nextVals:  valsets[i+1],
			sq:        sq,
			round:     rapid.SampledFrom([]int32{0, 0, 0, 1, 2, 7}).Draw(t, "round"),
			flags:     flags,
			tsOffsets: offs,
		}
		eh := env.buildHeader(spec)
		c.hdrs = append(c.hdrs, eh)
		c.sqs = append(c.sqs, sq)
		env.logf(" |H%d set=%s chg=%s sq=%s app=%d round=%d flags=%v offs=%v", i, c16SetDesc(c.sets[i]), c.chg[i],
			sq.Desc(), spec.appV, spec.round, flags, offs)
		last = eh.Commit.BlockID
		lastCH = cloneB(eh.Commit.Hash())
		tm = tm.Add(time.Duration(rapid.IntRange(1, 20_000_000_000).Draw(t, "dt")))
	}
	return c
}

// ---------------------------------------------------------------------------------------
// deep copies that never carry memoised values over

func cloneB(b []byte) []byte {
	if b == nil {
		return nil
	}
	return append([]byte{}, b...)
}

func cloneBB(bb [][]byte) [][]byte {
	out := make([][]byte, len(bb))
	for i := range bb {
		out[i] = cloneB(bb[i])
	}
	return out
}

func cloneRaw(r header.RawHeader) header.RawHeader {
	c := r
	c.LastBlockID.Hash = cloneB(r.LastBlockID.Hash)
	c.LastBlockID.PartSetHeader.Hash = cloneB(r.LastBlockID.PartSetHeader.Hash)
	c.LastCommitHash = cloneB(r.LastCommitHash)
	c.DataHash = cloneB(r.DataHash)
	c.ValidatorsHash = cloneB(r.ValidatorsHash)
	c.NextValidatorsHash = cloneB(r.NextValidatorsHash)
	c.ConsensusHash = cloneB(r.ConsensusHash)
	c.AppHash = cloneB(r.AppHash)
	c.LastResultsHash = cloneB(r.LastResultsHash)
	c.EvidenceHash = cloneB(r.EvidenceHash)
	c.ProposerAddress = cloneB(r.ProposerAddress)
	return c
}

func cloneCommit(c *core.Commit) *core.Commit {
	out := &core.Commit{
		Height: c.Height, Round: c.Round,
		BlockID: core.BlockID{
			Hash:          cloneB(c.BlockID.Hash),
			PartSetHeader: core.PartSetHeader{Total: c.BlockID.PartSetHeader.Total, Hash: cloneB(c.BlockID.PartSetHeader.Hash)},
		},
		Signatures: make([]core.CommitSig, len(c.Signatures)),
	}
	for i, s := range c.Signatures {
		out.Signatures[i] = core.CommitSig{
			BlockIDFlag: s.BlockIDFlag, ValidatorAddress: cloneB(s.ValidatorAddress),
			Timestamp: s.Timestamp, Signature: cloneB(s.Signature),
		}
	}
	return out
}

func cloneVal(v *core.Validator) *core.Validator {
	c := *v
	c.Address = cloneB(v.Address)
	return &c
}

func cloneVals(vs []*core.Validator) []*core.Validator {
	out := make([]*core.Validator, len(vs))
	for i, v := range vs {
		out[i] = cloneVal(v)
	}
	return out
}

// literalValSet builds a set without going through cometbft's constructors: no cached total
// voting power (recomputed on first use), allKeysHaveSameType unset (single verification path).
func literalValSet(vals []*core.Validator, proposer *core.Validator) *core.ValidatorSet {
	return &core.ValidatorSet{Validators: vals, Proposer: proposer}
}

func cloneDAH(d *da.DataAvailabilityHeader) *da.DataAvailabilityHeader {
	return &da.DataAvailabilityHeader{RowRoots: cloneBB(d.RowRoots), ColumnRoots: cloneBB(d.ColumnRoots)}
}

// cloneEH deep-copies a header. The validator set is copied with cometbft's Copy (it is only
// replaced by a literal set when a mutation touches it), the DAH is a fresh struct (no memoised hash).
func cloneEH(h *header.ExtendedHeader) *header.ExtendedHeader {
	vs := h.ValidatorSet.Copy()
	vs.Validators = cloneVals(vs.Validators)
	if vs.Proposer != nil {
		vs.Proposer = cloneVal(vs.Proposer)
	}
	return &header.ExtendedHeader{
		RawHeader:    cloneRaw(h.RawHeader),
		Commit:       cloneCommit(h.Commit),
		ValidatorSet: vs,
		DAH:          cloneDAH(h.DAH),
	}
}

// ---------------------------------------------------------------------------------------
// independent reference (a)-(d)

type c16Ref struct {
	a, b, cHeight, cHash, d bool
	tally, total            int64
	exact23                 bool // tally is exactly two thirds of the total
	sigDisagree             int  // signatures on which cometbft's single verification and crypto/ed25519 disagree
}

func (r c16Ref) ok() bool { return r.a && r.b && r.cHeight && r.cHash && r.d }

func (r c16Ref) failing() []string {
	var f []string
	if !r.a {
		f = append(f, "a:DAH-hash!=DataHash")
	}
	if !r.b {
		f = append(f, "b:valset-hash!=ValidatorsHash")
	}
	if !r.cHeight {
		f = append(f, "c:commit-height!=header-height")
	}
	if !r.cHash {
		f = append(f, "c:commit-block-hash!=header-hash")
	}
	if !r.d {
		f = append(f, fmt.Sprintf("d:valid-signature-power %d of %d is not > 2/3", r.tally, r.total))
	}
	return f
}

// refDAHHash: Merkle root over every row root followed by every column root.
func refDAHHash(d *da.DataAvailabilityHeader) []byte {
	all := make([][]byte, 0, len(d.RowRoots)+len(d.ColumnRoots))
	all = append(all, d.RowRoots...)
	all = append(all, d.ColumnRoots...)
	return merkle.HashFromByteSlices(all)
}

// refValsHash: Merkle root over (public key, voting power) of every validator in order.
func refValsHash(vs *core.ValidatorSet) ([]byte, bool) {
	if vs == nil {
		return nil, false
	}
	leaves := make([][]byte, len(vs.Validators))
	for i, v := range vs.Validators {
		if v == nil {
			return nil, false
		}
		pk, ok := v.PubKey.(ed25519.PubKey)
		if !ok {
			return nil, false
		}
		sv := cmtproto.SimpleValidator{
			PubKey:      &pcrypto.PublicKey{Sum: &pcrypto.PublicKey_Ed25519{Ed25519: []byte(pk)}},
			VotingPower: v.VotingPower,
		}
		bz, err := sv.Marshal()
		if err != nil {
			return nil, false
		}
		leaves[i] = bz
	}
	return merkle.HashFromByteSlices(leaves), true
}

// refHeaderHash recomputes the header hash on a private copy (cometbft's canonical field
// encoding is the trusted base).
func refHeaderHash(r header.RawHeader) []byte {
	c := cloneRaw(r)
	return c.Hash()
}

// refSigValid: does validator v's key verify commit signature idx over the canonical vote?
func refSigValid(chainID string, c *core.Commit, idx int, pub ed25519.PubKey, disagree *int) bool {
	s := c.Signatures[idx]
	v := &cmtproto.Vote{
		Type:      cmtproto.PrecommitType,
		Height:    c.Height,
		Round:     c.Round,
		BlockID:   c.BlockID.ToProto(), // only called for signatures flagged "commit"
		Timestamp: s.Timestamp,
	}
	msg, ok := safeSignBytes(chainID, v)
	if !ok {
		return false // no sign bytes exist for this vote
	}
	okTM := pub.VerifySignature(msg, s.Signature)
	okStd := len(pub) == stded.PublicKeySize && len(s.Signature) == stded.SignatureSize &&
		stded.Verify(stded.PublicKey(pub), msg, s.Signature)
	if okTM != okStd && disagree != nil {
		*disagree++
	}
	return okTM && okStd
}

// refSignedBy is the most permissive reading of "this validator's voting power is carried by the
// commit": some signature flagged "commit" verifies under the validator's key over that
// signature's canonical vote. The signature at the validator's own index (prefer, -1 = none) is
// tried first; position and address bookkeeping are deliberately not part of the reference.
func refSignedBy(chainID string, c *core.Commit, prefer int, pub ed25519.PubKey, disagree *int) bool {
	if prefer >= 0 && prefer < len(c.Signatures) && c.Signatures[prefer].BlockIDFlag == core.BlockIDFlagCommit &&
		refSigValid(chainID, c, prefer, pub, disagree) {
		return true
	}
	for i := range c.Signatures {
		if i == prefer || c.Signatures[i].BlockIDFlag != core.BlockIDFlagCommit {
			continue
		}
		if refSigValid(chainID, c, i, pub, nil) {
			return true
		}
	}
	return false
}

// refCheck evaluates the reference conditions on the header as given.
func refCheck(h *header.ExtendedHeader) c16Ref {
	var r c16Ref
	if h.DAH != nil {
		r.a = bytes.Equal(refDAHHash(h.DAH), h.DataHash)
	}
	if vh, ok := refValsHash(h.ValidatorSet); ok {
		r.b = bytes.Equal(vh, h.ValidatorsHash)
	}
	if h.Commit != nil {
		r.cHeight = h.Commit.Height == h.RawHeader.Height
		hh := refHeaderHash(h.RawHeader)
		r.cHash = len(hh) > 0 && bytes.Equal(hh, h.Commit.BlockID.Hash)
	}
	if h.Commit != nil && h.ValidatorSet != nil {
		for i, v := range h.ValidatorSet.Validators {
			if v == nil {
				continue
			}
			r.total += v.VotingPower
			pk, ok := v.PubKey.(ed25519.PubKey)
			if !ok || v.VotingPower <= 0 {
				continue
			}
			if refSignedBy(h.RawHeader.ChainID, h.Commit, i, pk, &r.sigDisagree) {
				r.tally += v.VotingPower
			}
		}
		r.d = r.total > 0 && 3*r.tally > 2*r.total
		r.exact23 = r.total > 0 && 3*r.tally == 2*r.total
	}
	return r
}

// refTrustedTally: voting power of the validators of the trusted set whose key verifies some
// "commit" signature of the untrusted commit under the trusted chain id; and the trusted total.
func refTrustedTally(trusted, untrusted *header.ExtendedHeader) (tally, total int64) {
	for _, v := range trusted.ValidatorSet.Validators {
		total += v.VotingPower
	}
	if untrusted.Commit == nil {
		return 0, total
	}
	for _, v := range trusted.ValidatorSet.Validators {
		pk, ok := v.PubKey.(ed25519.PubKey)
		if ok && v.VotingPower > 0 && refSignedBy(trusted.RawHeader.ChainID, untrusted.Commit, -1, pk, nil) {
			tally += v.VotingPower
		}
	}
	return tally, total
}

// ---------------------------------------------------------------------------------------
// canonical rendering (case hashes, samples, failure messages)

func hx(b []byte) string {
	if len(b) > 6 {
		return hex.EncodeToString(b[:3]) + ".." + hex.EncodeToString(b[len(b)-2:]) + fmt.Sprintf("/%d", len(b))
	}
	return hex.EncodeToString(b)
}

func renderEH(h *header.ExtendedHeader) string {
	var b strings.Builder
	r := h.RawHeader
	fmt.Fprintf(&b, "raw{v=%d/%d chain=%q h=%d t=%d last=%s:%d:%s lch=%s data=%s vals=%s next=%s cons=%s app=%s lres=%s evid=%s prop=%s}",
		r.Version.Block, r.Version.App, r.ChainID, r.Height, r.Time.UnixNano(), hx(r.LastBlockID.Hash),
		r.LastBlockID.PartSetHeader.Total, hx(r.LastBlockID.PartSetHeader.Hash), hx(r.LastCommitHash), hx(r.DataHash),
		hx(r.ValidatorsHash), hx(r.NextValidatorsHash), hx(r.ConsensusHash), hx(r.AppHash), hx(r.LastResultsHash),
		hx(r.EvidenceHash), hx(r.ProposerAddress))
	if c := h.Commit; c != nil {
		fmt.Fprintf(&b, " commit{h=%d r=%d id=%s:%d:%s sigs=[", c.Height, c.Round, hx(c.BlockID.Hash),
			c.BlockID.PartSetHeader.Total, hx(c.BlockID.PartSetHeader.Hash))
		for _, s := range c.Signatures {
			fmt.Fprintf(&b, "(f%d %s t=%d %s)", s.BlockIDFlag, hx(s.ValidatorAddress), s.Timestamp.UnixNano(), hx(s.Signature))
		}
		b.WriteString("]}")
	}
	if vs := h.ValidatorSet; vs != nil {
		b.WriteString(" vals{")
		for _, v := range vs.Validators {
			fmt.Fprintf(&b, "(%s pk=%s p=%d)", hx(v.Address), hx(v.PubKey.Bytes()), v.VotingPower)
		}
		if vs.Proposer != nil {
			fmt.Fprintf(&b, " proposer=%s", hx(vs.Proposer.Address))
		}
		b.WriteString("}")
	}
	if d := h.DAH; d != nil {
		b.WriteString(" dah{rows=")
		for _, x := range d.RowRoots {
			b.WriteString(hx(x) + ",")
		}
		b.WriteString(" cols=")
		for _, x := range d.ColumnRoots {
			b.WriteString(hx(x) + ",")
		}
		b.WriteString("}")
	}
	return b.String()
}

// fullBytes is a complete (not abbreviated) rendering for case hashes.
func fullBytes(h *header.ExtendedHeader) []byte {
	var b bytes.Buffer
	if pb := h.RawHeader.ToProto(); pb != nil {
		bz, _ := pb.Marshal()
		b.Write(bz)
	}
	if c := h.Commit; c != nil {
		fmt.Fprintf(&b, "|%d|%d|%x|%d|%x", c.Height, c.Round, c.BlockID.Hash, c.BlockID.PartSetHeader.Total, c.BlockID.PartSetHeader.Hash)
		for _, s := range c.Signatures {
			fmt.Fprintf(&b, "|%d|%x|%d|%x", s.BlockIDFlag, s.ValidatorAddress, s.Timestamp.UnixNano(), s.Signature)
		}
	}
	if vs := h.ValidatorSet; vs != nil {
		for _, v := range vs.Validators {
			fmt.Fprintf(&b, "|%x|%x|%d|%d", v.Address, v.PubKey.Bytes(), v.VotingPower, v.ProposerPriority)
		}
		if vs.Proposer != nil {
			fmt.Fprintf(&b, "|P%x", vs.Proposer.Address)
		}
	}
	if d := h.DAH; d != nil {
		for _, x := range d.RowRoots {
			fmt.Fprintf(&b, "|r%x", x)
		}
		for _, x := range d.ColumnRoots {
			fmt.Fprintf(&b, "|c%x", x)
		}
	}
	return b.Bytes()
}

var _ = cmtbytes.HexBytes(nil)
