package header_test

// C16 — Validate soundness against the independent reference (a)-(d), completeness on the benign
// classes, verdict/Hash/MsgID stability under re-encoding, MsgID depends only on the block.

import (
	"bytes"
	"encoding/json"
	"fmt"
	"strings"
	"testing"

	core "github.com/cometbft/cometbft/types"
	pubsubpb "github.com/libp2p/go-libp2p-pubsub/pb"
	"pgregory.net/rapid"

	"github.com/celestiaorg/celestia-app/v9/pkg/appconsts"

	"github.com/celestiaorg/celestia-node/header"
	vk "github.com/celestiaorg/celestia-node/internal/verifkit"
)

func c16Validate(h *header.ExtendedHeader) (err error, pv any) {
	defer func() {
		if r := recover(); r != nil {
			pv = r
		}
	}()
	return h.Validate(), nil
}

// c16PanicVerdict stands for "Validate panicked" on a header that no binary decoder lets through
// (cometbft's sign-bytes canonicalisation panics on a commit block id of the wrong shape, which
// CommitFromProto refuses). It counts as "not accepted"; see the report for why it is not flagged.
type c16PanicVerdict struct{ v any }

func (p c16PanicVerdict) Error() string { return fmt.Sprintf("panic: %v", p.v) }

func c16Guard(f func() error) (err error, pv any) {
	defer func() {
		if r := recover(); r != nil {
			pv = r
		}
	}()
	return f(), nil
}

// wellFormed: every part passes its own basic validation, i.e. Validate reaches the cross checks.
func c16WellFormed(h *header.ExtendedHeader) bool {
	err, pv := c16Guard(func() error {
		if err := h.RawHeader.ValidateBasic(); err != nil {
			return err
		}
		if h.Version.App == 0 || h.Version.App > appconsts.Version {
			return fmt.Errorf("app version")
		}
		if err := h.Commit.ValidateBasic(); err != nil {
			return err
		}
		return h.ValidatorSet.ValidateBasic()
	})
	return err == nil && pv == nil
}

func c16MsgID(bin []byte) string { return header.MsgID(&pubsubpb.Message{Data: bin}) }

func c16DecodeBin(bin []byte) (*header.ExtendedHeader, error) {
	out := new(header.ExtendedHeader)
	err, pv := c16Guard(func() error { return out.UnmarshalBinary(bin) })
	if pv != nil {
		return nil, fmt.Errorf("panic: %v", pv)
	}
	return out, err
}

func c16EncodeBin(h *header.ExtendedHeader) (bin []byte, err error) {
	err, pv := c16Guard(func() error {
		var e error
		bin, e = h.MarshalBinary()
		return e
	})
	if pv != nil {
		return nil, fmt.Errorf("panic: %v", pv)
	}
	return bin, err
}

func c16EncodeJSON(h *header.ExtendedHeader) (js []byte, err error) {
	err, pv := c16Guard(func() error {
		var e error
		js, e = json.Marshal(h)
		return e
	})
	if pv != nil {
		return nil, fmt.Errorf("panic: %v", pv)
	}
	return js, err
}

func c16DecodeJSON(js []byte) (*header.ExtendedHeader, error) {
	out := new(header.ExtendedHeader)
	err, pv := c16Guard(func() error { return json.Unmarshal(js, out) })
	if pv != nil {
		return nil, fmt.Errorf("panic: %v", pv)
	}
	return out, err
}

// checkSameVerdict validates a re-encoded copy and compares verdict and hash with the original.
func checkSameVerdict(t *rapid.T, via string, h, dec *header.ExtendedHeader, acc0 bool, err0 error, ctx string) {
	err1, pv := c16Validate(dec)
	if pv != nil {
		if _, ok := err0.(c16PanicVerdict); ok && via != "binary" {
			return // the same (non-)verdict as before; see c16PanicVerdict
		}
		t.Fatalf("C16-encoding: Validate panicked on the %s re-encoding of a header: %v\n%s", via, pv, ctx)
	}
	if (err1 == nil) != acc0 {
		t.Fatalf("C16-encoding: verdict changed by re-encoding via %s: expected the same verdict as before (accepted=%v, err=%v), observed accepted=%v (err=%v)\n%s",
			via, acc0, err0, err1 == nil, err1, ctx)
	}
	if !bytes.Equal(dec.Hash(), h.Hash()) {
		t.Fatalf("C16-encoding: Hash() changed by re-encoding via %s: expected %X, observed %X\n%s", via, h.Hash(), dec.Hash(), ctx)
	}
}

// checkEncodings: decode(encode(h)) has the same verdict, Hash() and MsgID, for binary, JSON and
// JSON->binary->JSON. A header that Validate accepts must survive every encoding; a rejected one
// may be refused by an encoder/decoder (that is still "rejected").
func checkEncodings(t *rapid.T, h *header.ExtendedHeader, acc0 bool, err0 error, ctx string) []string {
	var labels []string
	bin, err := c16EncodeBin(h)
	var id0 string
	binOK := false
	if err != nil {
		if acc0 {
			t.Fatalf("C16-encoding: a header accepted by Validate cannot be marshalled to binary: %v\n%s", err, ctx)
		}
		labels = append(labels, "enc=bin-marshal-refused")
	} else {
		id0 = c16MsgID(bin)
		h1, err := c16DecodeBin(bin)
		if err != nil {
			if acc0 {
				t.Fatalf("C16-encoding: a header accepted by Validate is refused by UnmarshalBinary(MarshalBinary(h)): %v\n%s", err, ctx)
			}
			labels = append(labels, "enc=bin-decode-refused")
		} else {
			binOK = true
			checkSameVerdict(t, "binary", h, h1, acc0, err0, ctx)
			bin1, err := c16EncodeBin(h1)
			if err != nil {
				t.Fatalf("C16-encoding: decoded header cannot be re-marshalled: %v\n%s", err, ctx)
			}
			if id1 := c16MsgID(bin1); id1 != id0 {
				t.Fatalf("C16-encoding: MsgID changed by binary re-encoding: expected %q, observed %q\n%s", id0, id1, ctx)
			}
			labels = append(labels, "enc=bin-ok")
		}
	}
	js, err := c16EncodeJSON(h)
	if err != nil {
		if acc0 {
			t.Fatalf("C16-encoding: a header accepted by Validate cannot be marshalled to JSON: %v\n%s", err, ctx)
		}
		return append(labels, "enc=json-marshal-refused")
	}
	h2, err := c16DecodeJSON(js)
	if err != nil {
		if acc0 {
			t.Fatalf("C16-encoding: a header accepted by Validate is refused by UnmarshalJSON(MarshalJSON(h)): %v\n%s", err, ctx)
		}
		return append(labels, "enc=json-decode-refused")
	}
	checkSameVerdict(t, "JSON", h, h2, acc0, err0, ctx)
	labels = append(labels, "enc=json-ok")
	// JSON -> binary -> JSON
	bin2, err := c16EncodeBin(h2)
	if err != nil {
		if acc0 || binOK {
			t.Fatalf("C16-encoding: JSON-decoded header cannot be marshalled to binary (accepted=%v, direct binary ok=%v): %v\n%s", acc0, binOK, err, ctx)
		}
		return labels
	}
	if id0 != "" {
		if id2 := c16MsgID(bin2); id2 != id0 {
			t.Fatalf("C16-encoding: MsgID differs between the binary encoding of a header and of its JSON round trip: %q vs %q\n%s", id0, id2, ctx)
		}
	}
	h3, err := c16DecodeBin(bin2)
	if err != nil {
		if acc0 || binOK {
			t.Fatalf("C16-encoding: JSON->binary of a header is refused by UnmarshalBinary (accepted=%v, direct binary ok=%v): %v\n%s", acc0, binOK, err, ctx)
		}
		return labels
	}
	js3, err := c16EncodeJSON(h3)
	if err != nil {
		t.Fatalf("C16-encoding: JSON->binary->JSON: cannot marshal to JSON again: %v\n%s", err, ctx)
	}
	h4, err := c16DecodeJSON(js3)
	if err != nil {
		t.Fatalf("C16-encoding: JSON->binary->JSON: cannot decode the final JSON: %v\n%s", err, ctx)
	}
	checkSameVerdict(t, "JSON->binary->JSON", h, h4, acc0, err0, ctx)
	return append(labels, "enc=json-bin-json-ok")
}

// checkMsgIDPair: the message id depends only on the block the commit is for. Only stated for
// pairs whose commits cometbft's decoder accepts (otherwise MsgID is by design the hash of the
// whole message).
func checkMsgIDPair(t *rapid.T, a, b *header.ExtendedHeader, what string) string {
	if !c16CommitDecodable(a.Commit) || !c16CommitDecodable(b.Commit) {
		return ""
	}
	ba, errA := c16EncodeBin(a)
	bb, errB := c16EncodeBin(b)
	if errA != nil || errB != nil {
		return ""
	}
	ida, idb := c16MsgID(ba), c16MsgID(bb)
	switch {
	case a.Commit.BlockID.Equals(b.Commit.BlockID):
		if ida != idb {
			t.Fatalf("C16-msgid: two messages whose commits are for the same block %v must have the same MsgID (%s): observed %q and %q\nA: %s\nB: %s",
				a.Commit.BlockID, what, ida, idb, renderEH(a), renderEH(b))
		}
		if !bytes.Equal(ba, bb) {
			return "msgid=same-block-different-bytes"
		}
		return "msgid=same-bytes"
	case !bytes.Equal(a.Commit.BlockID.Hash, b.Commit.BlockID.Hash):
		if ida == idb {
			t.Fatalf("C16-msgid: messages committing to different blocks (%X vs %X) must have different MsgIDs (%s): both are %q",
				a.Commit.BlockID.Hash, b.Commit.BlockID.Hash, what, ida)
		}
		return "msgid=different-block"
	}
	return "" // same hash, different part-set header: nothing stated
}

// c16CommitDecodable: cometbft's own commit decoder accepts the commit (for height 0 this is
// stricter than Commit.ValidateBasic, which then skips the per-signature checks).
func c16CommitDecodable(c *core.Commit) bool {
	err, pv := c16Guard(func() error {
		_, e := core.CommitFromProto(c.ToProto())
		return e
	})
	return err == nil && pv == nil
}

func c16RawProto(r header.RawHeader) []byte {
	bz, _ := r.ToProto().Marshal()
	return bz
}

func TestVerifC16_Validate(t *testing.T) {
	defer vk.Flush()
	rapid.Check(t, func(t *rapid.T) {
		env := c16GenEnv(t)
		n := rapid.IntRange(2, 3).Draw(t, "nheaders")
		chain := c16GenChain(t, env, n)
		pick := rapid.IntRange(0, n-1).Draw(t, "pick")
		nbIdx := pick + 1
		if nbIdx >= n || (pick > 0 && rapid.Bool().Draw(t, "nbprev")) {
			nbIdx = pick - 1
		}
		orig, nb := chain.hdrs[pick], chain.hdrs[nbIdx]

		m := &c16Mut{t: t, env: env, h: cloneEH(orig), orig: orig, nb: nb, onlyBenign: true}
		nmut := 0
		switch rapid.SampledFrom([]string{"untouched", "sigdrop", "sigdrop", "mutate", "mutate", "mutate", "mutate", "mutate", "mutate"}).Draw(t, "mode") {
		case "untouched":
		case "sigdrop": // only proper signature drops / honest nil votes: benign while more than 2/3 remain
			nmut = rapid.IntRange(1, 3).Draw(t, "ndrop")
			for i := 0; i < nmut; i++ {
				m.mutSigBenign(fmt.Sprintf("d%d", i))
			}
		default:
			nmut = rapid.SampledFrom([]int{1, 1, 1, 1, 2, 2, 3}).Draw(t, "nmut")
			for i := 0; i < nmut; i++ {
				m.applyOne(i)
			}
			m.applyFixups()
		}
		h := m.h
		ref := refCheck(h)
		if ref.sigDisagree > 0 {
			vk.Count("sig_verify_disagree_cometbft_vs_stdlib", int64(ref.sigDisagree))
		}
		class := "mutated"
		switch {
		case nmut == 0:
			class = "untouched"
		case m.onlyBenign && ref.ok():
			class = "benign-sigdrop"
		}
		wf := c16WellFormed(h)
		ctx := fmt.Sprintf("chain-change=%v picked=%d mutations=%v fixups=%v reference-failing=%v\nhonest:  %s\nmutated: %s",
			chain.chg, pick, m.labels, m.fixups, ref.failing(), renderEH(orig), renderEH(h))

		err0, pv := c16Validate(h)
		panicked := false
		if pv != nil {
			// only a header that a wire decoder lets through can reach Validate in a running node
			if bin, e := c16EncodeBin(h); e == nil {
				if _, e := c16DecodeBin(bin); e == nil {
					t.Fatalf("C16: Validate panicked on a header that survives binary re-encoding: %v\n%s", pv, ctx)
				}
			}
			err0, panicked = c16PanicVerdict{pv}, true
		}
		acc := err0 == nil

		// soundness: accepted => (a)-(d)
		if acc && !ref.ok() {
			t.Fatalf("C16-soundness: Validate accepted a header although reference condition(s) %v do not hold (expected rejection)\n%s",
				ref.failing(), ctx)
		}
		// completeness, only for the benign classes
		if !acc && class != "mutated" {
			t.Fatalf("C16-completeness: Validate rejected a header of the benign class %q (expected acceptance): %v\n%s", class, err0, ctx)
		}
		// every single-field mutation of a committed field must be rejected
		if nmut == 1 && len(m.fixups) == 0 && strings.HasPrefix(m.labels[0], "mut=raw:") &&
			!bytes.Equal(c16RawProto(orig.RawHeader), c16RawProto(h.RawHeader)) {
			if bytes.Equal(refHeaderHash(orig.RawHeader), refHeaderHash(h.RawHeader)) {
				t.Fatalf("C16-field: changing %s changes the encoded header but not its hash: the field takes part in no check\n%s", m.labels[0], ctx)
			}
			if acc {
				t.Fatalf("C16-field: single-field mutation %s of a committed field was accepted (expected rejection)\n%s", m.labels[0], ctx)
			}
		}

		// the verdict is a function of the header's content, not of the object's history: the same
		// content placed into an object that has already been validated successfully (or into a struct
		// copy of it — whatever the type keeps privately travels with the copy) gets the same verdict
		historyChecked := false
		if !panicked {
			carrier := cloneEH(orig)
			if e, p := c16Validate(carrier); e == nil && p == nil {
				target := carrier
				if rapid.Bool().Draw(t, "historyByCopy") {
					cp := *carrier
					target = &cp
				}
				hc := cloneEH(h)
				target.RawHeader, target.Commit, target.ValidatorSet, target.DAH = hc.RawHeader, hc.Commit, hc.ValidatorSet, hc.DAH
				err1, pv1 := c16Validate(target)
				if pv1 != nil || (err1 == nil) != acc {
					t.Fatalf("C16-history: the same header content is judged differently in an object that was validated before (fresh object: %v; reused object: %v, panic %v)\n%s",
						err0, err1, pv1, ctx)
				}
				historyChecked = true
			}
		}

		labels := []string{"class=" + class}
		if historyChecked {
			labels = append(labels, "history-independence-checked")
		}
		labels = append(labels, m.labels...)
		labels = append(labels, m.fixups...)
		if acc {
			labels = append(labels, "verdict=accept")
			if class == "mutated" {
				labels = append(labels, "accepted-mutated-consistent")
			}
		} else {
			labels = append(labels, "verdict=reject")
		}
		if panicked {
			labels = append(labels, "validate-panic-on-wire-undecodable-header")
		}
		if wf {
			labels = append(labels, "reach=cross-checks")
		} else {
			labels = append(labels, "reach=basic-validation-only")
		}
		if ref.ok() {
			labels = append(labels, "ref=all-hold")
			if !acc {
				labels = append(labels, "ref-holds-but-rejected") // not asserted (e.g. an invalid signature before the quorum)
			}
		} else {
			for _, f := range ref.failing() {
				labels = append(labels, "ref-fails="+strings.SplitN(f, " ", 2)[0])
			}
			if wf {
				for _, f := range ref.failing() {
					labels = append(labels, "ref-fails-wellformed="+strings.SplitN(f, " ", 2)[0])
				}
			}
		}
		if ref.exact23 {
			labels = append(labels, "tally=exactly-two-thirds")
		}
		if m.onlyBenign && nmut > 0 && !ref.ok() {
			labels = append(labels, "sigdrop-below-two-thirds")
		}
		labels = append(labels, fmt.Sprintf("nvals=%d", len(orig.ValidatorSet.Validators)), fmt.Sprintf("nmut=%d", nmut),
			"setchange="+chain.chg[min(pick, len(chain.chg)-1)])

		labels = append(labels, checkEncodings(t, h, acc, err0, ctx)...)
		if l := checkMsgIDPair(t, orig, h, "honest header vs its mutation"); l != "" {
			labels = append(labels, l)
		}
		if l := checkMsgIDPair(t, orig, nb, "header vs neighbouring header"); l != "" {
			labels = append(labels, l+"-neighbour")
		}

		nontrivial := class != "mutated" || wf
		vk.RecordHash(vk.Hash64(env.desc.String(), fullBytes(orig), fullBytes(h), strings.Join(m.labels, ","), strings.Join(m.fixups, ",")),
			labels, nontrivial, func() any {
				return map[string]any{
					"class": class, "mutations": m.labels, "fixups": m.fixups, "accepted": acc, "error": fmt.Sprint(err0),
					"reference_failing": ref.failing(), "header": renderEH(h),
				}
			})
	})
}

// TestVerifC16_MsgID: headers for the same block that differ in signature subset (and anything
// else outside the commit's block id) share one message id; different blocks never do.
func TestVerifC16_MsgID(t *testing.T) {
	defer vk.Flush()
	rapid.Check(t, func(t *rapid.T) {
		env := c16GenEnv(t)
		chain := c16GenChain(t, env, 2)
		h, other := chain.hdrs[0], chain.hdrs[1]
		a, b := cloneEH(h), cloneEH(h)
		var labels []string
		kind := rapid.SampledFrom([]string{"sigsubset", "sigsubset", "sigbytes", "commit-round", "raw-field", "dah", "vals", "blockhash"}).Draw(t, "kind")
		labels = append(labels, "msgid-variant="+kind)
		switch kind {
		case "sigsubset":
			// two different subsets of the honest signatures (validity of the quorum is irrelevant here)
			for _, x := range []*header.ExtendedHeader{a, b} {
				mask := rapid.Uint32().Draw(t, "mask")
				for i := range x.Commit.Signatures {
					if mask&(1<<uint(i)) == 0 && len(x.Commit.Signatures) > 1 {
						x.Commit.Signatures[i] = core.NewCommitSigAbsent()
					}
				}
			}
		case "sigbytes":
			i := rapid.IntRange(0, len(b.Commit.Signatures)-1).Draw(t, "i")
			if b.Commit.Signatures[i].BlockIDFlag != core.BlockIDFlagAbsent {
				b.Commit.Signatures[i].Signature = env.fill(64)
				b.Commit.Signatures[i].Timestamp = b.Commit.Signatures[i].Timestamp.Add(1)
			}
		case "commit-round":
			b.Commit.Round++
		case "raw-field":
			leaf := rapid.SampledFrom(c16RawLeaves).Draw(t, "leaf")
			mutateLeaf(t, &b.RawHeader, &other.RawHeader, leaf)
		case "dah":
			b.DAH = cloneDAH(other.DAH)
		case "vals":
			b.ValidatorSet = literalValSet(cloneVals(other.ValidatorSet.Validators), cloneVal(other.ValidatorSet.Proposer))
		case "blockhash":
			i := rapid.IntRange(0, len(b.Commit.BlockID.Hash)-1).Draw(t, "pos")
			b.Commit.BlockID.Hash[i] ^= 1 << uint(rapid.IntRange(0, 7).Draw(t, "bit"))
		}
		if l := checkMsgIDPair(t, a, b, kind); l != "" {
			labels = append(labels, l)
		}
		if l := checkMsgIDPair(t, a, other, "next header"); l != "" {
			labels = append(labels, l+"-neighbour")
		}
		// stable under decode -> encode
		if bin, err := c16EncodeBin(b); err == nil {
			if dec, err := c16DecodeBin(bin); err == nil {
				bin2, err := c16EncodeBin(dec)
				if err != nil {
					t.Fatalf("C16-msgid: decoded header cannot be re-marshalled: %v", err)
				}
				if c16MsgID(bin) != c16MsgID(bin2) {
					t.Fatalf("C16-msgid: MsgID changed by decode->encode: %q vs %q\n%s", c16MsgID(bin), c16MsgID(bin2), renderEH(b))
				}
				labels = append(labels, "msgid-reencoded")
			}
		}
		vk.RecordHash(vk.Hash64(env.desc.String(), fullBytes(a), fullBytes(b), kind), labels, true, func() any {
			return map[string]any{"kind": kind, "a": renderEH(a), "b": renderEH(b)}
		})
	})
}
