package header_test

// C16 — mutation engine: every RawHeader field by reflection, DAH roots, commit fields,
// signatures, validator set, parts of the neighbouring header, and consistent "fix-ups" that let a
// multi-field mutation reach the deeper checks.

import (
	"bytes"
	"fmt"
	"reflect"
	"time"

	core "github.com/cometbft/cometbft/types"
	"pgregory.net/rapid"

	"github.com/celestiaorg/celestia-node/header"
)

// ---- RawHeader leaves by reflection ----------------------------------------------------

type c16Leaf struct {
	path  string
	index []int
}

var timeType = reflect.TypeOf(time.Time{})

func rawLeaves() []c16Leaf {
	var out []c16Leaf
	var walk func(tp reflect.Type, path string, idx []int)
	walk = func(tp reflect.Type, path string, idx []int) {
		for i := 0; i < tp.NumField(); i++ {
			f := tp.Field(i)
			p := f.Name
			if path != "" {
				p = path + "." + f.Name
			}
			ix := append(append([]int(nil), idx...), i)
			if f.Type.Kind() == reflect.Struct && f.Type != timeType {
				walk(f.Type, p, ix)
				continue
			}
			out = append(out, c16Leaf{path: p, index: ix})
		}
	}
	walk(reflect.TypeOf(header.RawHeader{}), "", nil)
	return out
}

var c16RawLeaves = rawLeaves()

func mutateBytes(t *rapid.T, label string, b, neighbour []byte) ([]byte, string) {
	b = cloneB(b)
	k := rapid.IntRange(0, 6).Draw(t, label+".bk")
	if len(b) == 0 && (k == 0 || k == 1) {
		k = 2
	}
	switch k {
	case 0:
		i := rapid.IntRange(0, len(b)-1).Draw(t, label+".pos")
		b[i] ^= 1 << uint(rapid.IntRange(0, 7).Draw(t, label+".bit"))
		return b, "bitflip"
	case 1:
		return b[:len(b)-1], "truncate"
	case 2:
		return append(b, byte(rapid.IntRange(0, 255).Draw(t, label+".ext"))), "extend"
	case 3:
		return nil, "empty"
	case 4:
		seed := rapid.Uint64().Draw(t, label+".rnd")
		out := make([]byte, len(b))
		for i := range out {
			seed = seed*6364136223846793005 + 1442695040888963407
			out[i] = byte(seed >> 56)
		}
		return out, "random"
	case 5:
		return cloneB(neighbour), "neighbour"
	default:
		for i := range b {
			b[i] = 0
		}
		return b, "zero"
	}
}

// mutateLeaf changes one leaf of a RawHeader in place (through reflection).
func mutateLeaf(t *rapid.T, raw *header.RawHeader, neighbour *header.RawHeader, leaf c16Leaf) string {
	v := reflect.ValueOf(raw).Elem().FieldByIndex(leaf.index)
	nv := reflect.ValueOf(neighbour).Elem().FieldByIndex(leaf.index)
	label := "raw." + leaf.path
	switch {
	case v.Type() == timeType:
		tm := v.Interface().(time.Time)
		switch rapid.IntRange(0, 4).Draw(t, label+".tk") {
		case 0:
			tm = tm.Add(time.Nanosecond)
		case 1:
			tm = tm.Add(-time.Second)
		case 2:
			tm = tm.Add(time.Duration(rapid.Int64Range(-1e15, 1e15).Draw(t, label+".dt")))
		case 3:
			tm = nv.Interface().(time.Time)
		default:
			tm = tm.Add(time.Hour)
		}
		v.Set(reflect.ValueOf(tm))
		return "time"
	case v.Kind() == reflect.Uint64 || v.Kind() == reflect.Uint32:
		cur := v.Uint()
		switch rapid.IntRange(0, 4).Draw(t, label+".uk") {
		case 0:
			cur++
		case 1:
			cur--
		case 2:
			cur = 0
		case 3:
			cur = nv.Uint()
		default:
			cur = uint64(rapid.Uint32().Draw(t, label+".u"))
		}
		if v.Kind() == reflect.Uint32 {
			cur &= 0xFFFFFFFF
		}
		v.SetUint(cur)
		return "uint"
	case v.Kind() == reflect.Int64:
		cur := v.Int()
		switch rapid.IntRange(0, 5).Draw(t, label+".ik") {
		case 0:
			cur++
		case 1:
			cur--
		case 2:
			cur = 0
		case 3:
			cur = nv.Int()
		case 4:
			cur = -cur
		default:
			cur = rapid.Int64Range(1, 1<<62).Draw(t, label+".i")
		}
		v.SetInt(cur)
		return "int"
	case v.Kind() == reflect.String:
		cur := v.String()
		switch rapid.IntRange(0, 3).Draw(t, label+".sk") {
		case 0:
			cur += "x"
		case 1:
			if len(cur) > 0 {
				cur = cur[:len(cur)-1]
			} else {
				cur = "y"
			}
		case 2:
			cur = ""
		default:
			cur = nv.String() + "2"
		}
		v.SetString(cur)
		return "string"
	case v.Kind() == reflect.Slice && v.Type().Elem().Kind() == reflect.Uint8:
		nb, how := mutateBytes(t, label, v.Bytes(), nv.Bytes())
		v.SetBytes(nb)
		return how
	default:
		t.Fatalf("VERIF-INFRA C16: RawHeader field %s has kind %s which the mutation engine does not handle", leaf.path, v.Kind())
		return ""
	}
}

// ---- the mutation context ----------------------------------------------------------------

type c16Mut struct {
	t          *rapid.T
	env        *c16Env
	h          *header.ExtendedHeader // being mutated (deep copy)
	orig       *header.ExtendedHeader // honest original (read-only)
	nb         *header.ExtendedHeader // honest neighbour (read-only)
	labels     []string               // mutation labels in application order
	onlyBenign bool                   // every mutation so far is a proper signature drop / honest nil vote
	fixups     []string
}

func (m *c16Mut) add(label string, benign bool) {
	m.labels = append(m.labels, label)
	if !benign {
		m.onlyBenign = false
	}
}

func (m *c16Mut) setVals(vals []*core.Validator, proposer *core.Validator) {
	m.h.ValidatorSet = literalValSet(vals, proposer)
}

func (m *c16Mut) knownKey(v *core.Validator) (int, bool) {
	k, ok := m.env.byAddr[string(v.PubKey.Address())]
	return k, ok
}

func (m *c16Mut) outsiderKey(label string) int {
	var out []int
	for k := range m.env.keys {
		in := false
		for _, v := range m.h.ValidatorSet.Validators {
			if bytes.Equal(v.PubKey.Bytes(), m.env.keys[k].pub.Bytes()) {
				in = true
			}
		}
		if !in {
			out = append(out, k)
		}
	}
	if len(out) == 0 {
		return rapid.IntRange(0, len(m.env.keys)-1).Draw(m.t, label+".anykey")
	}
	return rapid.SampledFrom(out).Draw(m.t, label+".outsider")
}

// applyOne draws and applies one mutation.
func (m *c16Mut) applyOne(n int) {
	t := m.t
	lb := fmt.Sprintf("m%d", n)
	// signature mutations get extra weight: they are the richest family
	fam := rapid.SampledFrom([]string{"raw", "raw", "dah", "dah", "commit", "sig", "sig", "sig", "vals", "vals", "part"}).Draw(t, lb+".family")
	switch fam {
	case "raw":
		leaf := rapid.SampledFrom(c16RawLeaves).Draw(t, lb+".leaf")
		how := mutateLeaf(t, &m.h.RawHeader, &m.nb.RawHeader, leaf)
		m.add("mut=raw:"+leaf.path, false)
		m.labels = append(m.labels, "rawhow="+how)
	case "dah":
		m.mutDAH(lb)
	case "commit":
		m.mutCommit(lb)
	case "sig":
		m.mutSig(lb)
	case "vals":
		m.mutVals(lb)
	case "part":
		switch rapid.IntRange(0, 3).Draw(t, lb+".part") {
		case 0:
			m.h.RawHeader = cloneRaw(m.nb.RawHeader)
			m.add("mut=part:raw", false)
		case 1:
			m.h.Commit = cloneCommit(m.nb.Commit)
			m.add("mut=part:commit", false)
		case 2:
			vs := cloneVals(m.nb.ValidatorSet.Validators)
			m.setVals(vs, cloneVal(m.nb.ValidatorSet.Proposer))
			m.add("mut=part:vals", false)
		default:
			m.h.DAH = cloneDAH(m.nb.DAH)
			m.add("mut=part:dah", false)
		}
	}
}

func (m *c16Mut) mutDAH(lb string) {
	t := m.t
	d := cloneDAH(m.h.DAH) // fresh struct: no memoised hash
	m.h.DAH = d
	pick := func(list [][]byte, l string) int { return rapid.IntRange(0, len(list)-1).Draw(t, lb+l) }
	kinds := []string{"addrow", "addcol", "addboth", "rmrow", "rmcol", "rmboth", "chgrow", "chgcol",
		"swaprows", "swapcols", "swaprowcol", "duprow", "dupcol", "swaplists", "movetail"}
	k := rapid.SampledFrom(kinds).Draw(t, lb+".dah")
	if len(d.RowRoots) == 0 || len(d.ColumnRoots) == 0 {
		k = "addboth"
	}
	newRoot := func(l string) []byte {
		if rapid.Bool().Draw(t, lb+l+".copy") {
			src := d.RowRoots
			if rapid.Bool().Draw(t, lb+l+".fromcol") {
				src = d.ColumnRoots
			}
			if len(src) > 0 {
				return cloneB(src[pick(src, l+".src")])
			}
		}
		return m.env.fill(len(d.RowRoots[0]))
	}
	switch k {
	case "addrow":
		d.RowRoots = append(d.RowRoots, newRoot(".nr"))
	case "addcol":
		d.ColumnRoots = append(d.ColumnRoots, newRoot(".nc"))
	case "addboth":
		if len(d.RowRoots) == 0 {
			d.RowRoots = append(d.RowRoots, m.env.fill(90))
			d.ColumnRoots = append(d.ColumnRoots, m.env.fill(90))
		} else {
			d.RowRoots = append(d.RowRoots, newRoot(".nr"))
			d.ColumnRoots = append(d.ColumnRoots, newRoot(".nc"))
		}
	case "rmrow":
		i := pick(d.RowRoots, ".i")
		d.RowRoots = append(d.RowRoots[:i], d.RowRoots[i+1:]...)
	case "rmcol":
		i := pick(d.ColumnRoots, ".i")
		d.ColumnRoots = append(d.ColumnRoots[:i], d.ColumnRoots[i+1:]...)
	case "rmboth":
		i := pick(d.RowRoots, ".i")
		d.RowRoots = append(d.RowRoots[:i], d.RowRoots[i+1:]...)
		j := pick(d.ColumnRoots, ".j")
		d.ColumnRoots = append(d.ColumnRoots[:j], d.ColumnRoots[j+1:]...)
	case "chgrow":
		i := pick(d.RowRoots, ".i")
		d.RowRoots[i], _ = mutateBytes(t, lb+".rb", d.RowRoots[i], m.nb.DAH.RowRoots[0])
	case "chgcol":
		i := pick(d.ColumnRoots, ".i")
		d.ColumnRoots[i], _ = mutateBytes(t, lb+".cb", d.ColumnRoots[i], m.nb.DAH.ColumnRoots[0])
	case "swaprows":
		i, j := pick(d.RowRoots, ".i"), pick(d.RowRoots, ".j")
		d.RowRoots[i], d.RowRoots[j] = d.RowRoots[j], d.RowRoots[i]
	case "swapcols":
		i, j := pick(d.ColumnRoots, ".i"), pick(d.ColumnRoots, ".j")
		d.ColumnRoots[i], d.ColumnRoots[j] = d.ColumnRoots[j], d.ColumnRoots[i]
	case "swaprowcol":
		i, j := pick(d.RowRoots, ".i"), pick(d.ColumnRoots, ".j")
		d.RowRoots[i], d.ColumnRoots[j] = d.ColumnRoots[j], d.RowRoots[i]
	case "duprow":
		i, j := pick(d.RowRoots, ".i"), pick(d.RowRoots, ".j")
		d.RowRoots[j] = cloneB(d.RowRoots[i])
	case "dupcol":
		i, j := pick(d.ColumnRoots, ".i"), pick(d.ColumnRoots, ".j")
		d.ColumnRoots[j] = cloneB(d.ColumnRoots[i])
	case "swaplists":
		d.RowRoots, d.ColumnRoots = d.ColumnRoots, d.RowRoots
	case "movetail": // last row root becomes the first column root: same leaves, shifted boundary
		last := d.RowRoots[len(d.RowRoots)-1]
		d.RowRoots = d.RowRoots[:len(d.RowRoots)-1]
		d.ColumnRoots = append([][]byte{last}, d.ColumnRoots...)
	}
	m.add("mut=dah:"+k, false)
}

func (m *c16Mut) mutCommit(lb string) {
	t := m.t
	c := m.h.Commit
	k := rapid.SampledFrom([]string{"height", "round", "hash", "hash-neighbour", "psh-total", "psh-hash"}).Draw(t, lb+".commit")
	switch k {
	case "height":
		switch rapid.IntRange(0, 3).Draw(t, lb+".hk") {
		case 0:
			c.Height++
		case 1:
			c.Height--
		case 2:
			c.Height = m.nb.Commit.Height
		default:
			c.Height = rapid.Int64Range(-1, 1<<40).Draw(t, lb+".h")
		}
	case "round":
		c.Round = rapid.SampledFrom([]int32{c.Round + 1, c.Round - 1, -1, 1 << 30}).Draw(t, lb+".r")
	case "hash":
		c.BlockID.Hash, _ = mutateBytes(t, lb+".hb", c.BlockID.Hash, m.nb.Commit.BlockID.Hash)
	case "hash-neighbour":
		c.BlockID.Hash = cloneB(m.nb.Commit.BlockID.Hash)
	case "psh-total":
		c.BlockID.PartSetHeader.Total = rapid.SampledFrom([]uint32{c.BlockID.PartSetHeader.Total + 1, 0, 1 << 20}).Draw(t, lb+".pt")
	case "psh-hash":
		c.BlockID.PartSetHeader.Hash, _ = mutateBytes(t, lb+".pb", c.BlockID.PartSetHeader.Hash, m.nb.Commit.BlockID.PartSetHeader.Hash)
	}
	m.add("mut=commit:"+k, false)
}

func (m *c16Mut) mutSig(lb string) {
	t := m.t
	c := m.h.Commit
	if len(c.Signatures) == 0 {
		c.Signatures = append(c.Signatures, core.NewCommitSigAbsent())
		m.add("mut=sig:append-entry", false)
		return
	}
	i := rapid.IntRange(0, len(c.Signatures)-1).Draw(t, lb+".idx")
	s := &c.Signatures[i]
	// the validator this signature belongs to (when the set still has that index and we know its key)
	var key = -1
	if i < len(m.h.ValidatorSet.Validators) {
		if k, ok := m.knownKey(m.h.ValidatorSet.Validators[i]); ok {
			key = k
		}
	}
	kinds := []string{"drop", "drop", "drop", "flag-absent", "flag-nil", "flag-commit", "flag-unknown", "nil-vote", "sig-empty", "sig-bitflip",
		"sig-otherblock", "sig-otherval", "outsider-resign", "ts-change", "addr-change", "remove-entry", "append-entry", "swap-entries"}
	k := rapid.SampledFrom(kinds).Draw(t, lb+".sig")
	benign := false
	switch k {
	case "drop": // the way a real commit lacks a vote
		*s = core.NewCommitSigAbsent()
		benign = true
	case "flag-absent": // flag only: malformed (address, time and signature still present)
		s.BlockIDFlag = core.BlockIDFlagAbsent
	case "flag-nil": // flag only: the signature is over the block, not over nil
		s.BlockIDFlag = core.BlockIDFlagNil
	case "flag-commit": // e.g. an absent or nil vote relabelled as a commit vote
		s.BlockIDFlag = core.BlockIDFlagCommit
	case "flag-unknown":
		s.BlockIDFlag = core.BlockIDFlag(rapid.SampledFrom([]int{0, 4, 255}).Draw(t, lb+".flag"))
	case "nil-vote": // an honest vote for nil by the same validator
		if key >= 0 {
			ts := s.Timestamp
			if ts.IsZero() {
				ts = m.h.RawHeader.Time
			}
			*s = m.env.signSig(m.h.RawHeader.ChainID, c.Height, c.Round, c.BlockID, core.BlockIDFlagNil, ts, key, nil)
			benign = true
		} else {
			k = "drop"
			*s = core.NewCommitSigAbsent()
			benign = true
		}
	case "sig-empty":
		if rapid.Bool().Draw(t, lb+".nil") {
			s.Signature = nil
		} else {
			s.Signature = []byte{}
		}
	case "sig-bitflip":
		s.Signature, _ = mutateBytes(t, lb+".sb", s.Signature, nil)
	case "sig-otherblock": // the same validator's valid signature over another block
		if key >= 0 {
			other := m.nb.Commit.BlockID
			if rapid.Bool().Draw(t, lb+".rndblock") {
				other = core.BlockID{Hash: m.env.fill(32), PartSetHeader: c.BlockID.PartSetHeader}
			}
			ts := s.Timestamp
			if ts.IsZero() {
				ts = m.h.RawHeader.Time
			}
			ns := m.env.signSig(m.h.RawHeader.ChainID, c.Height, c.Round, other, core.BlockIDFlagCommit, ts, key, nil)
			*s = ns
		} else {
			s.Signature = m.env.fill(64)
		}
	case "sig-otherval": // another validator's signature bytes
		j := rapid.IntRange(0, len(c.Signatures)-1).Draw(t, lb+".from")
		s.Signature = cloneB(c.Signatures[j].Signature)
		if s.BlockIDFlag == core.BlockIDFlagAbsent {
			s.BlockIDFlag = core.BlockIDFlagCommit
			s.ValidatorAddress = cloneB(c.Signatures[j].ValidatorAddress)
			s.Timestamp = c.Signatures[j].Timestamp
		}
	case "outsider-resign": // a key outside the set signs the right bytes
		ok := m.outsiderKey(lb)
		ts := s.Timestamp
		if ts.IsZero() {
			ts = m.h.RawHeader.Time
		}
		var addr []byte // nil = the outsider's own address
		if rapid.Bool().Draw(t, lb+".keepaddr") && len(s.ValidatorAddress) > 0 {
			addr = s.ValidatorAddress
		} else if i < len(m.h.ValidatorSet.Validators) && rapid.Bool().Draw(t, lb+".valaddr") {
			addr = m.h.ValidatorSet.Validators[i].Address
		}
		*s = m.env.signSig(m.h.RawHeader.ChainID, c.Height, c.Round, c.BlockID, core.BlockIDFlagCommit, ts, ok, addr)
	case "ts-change":
		if s.Timestamp.IsZero() { // stay inside the range every encoding can express
			s.Timestamp = m.h.RawHeader.Time
		}
		s.Timestamp = s.Timestamp.Add(time.Duration(rapid.SampledFrom([]int64{1, -1, 1e9, -3600e9}).Draw(t, lb+".dts")))
	case "addr-change":
		s.ValidatorAddress, _ = mutateBytes(t, lb+".ab", s.ValidatorAddress, m.nb.RawHeader.ProposerAddress)
	case "remove-entry":
		c.Signatures = append(c.Signatures[:i], c.Signatures[i+1:]...)
	case "append-entry":
		dup := c.Signatures[i]
		dup.ValidatorAddress = cloneB(dup.ValidatorAddress)
		dup.Signature = cloneB(dup.Signature)
		c.Signatures = append(c.Signatures, dup)
	case "swap-entries":
		j := rapid.IntRange(0, len(c.Signatures)-1).Draw(t, lb+".with")
		c.Signatures[i], c.Signatures[j] = c.Signatures[j], c.Signatures[i]
	}
	m.add("mut=sig:"+k, benign)
}

// mutSigBenign removes one vote the way real commits lack votes: absent, or an honest nil vote.
func (m *c16Mut) mutSigBenign(lb string) {
	t := m.t
	c := m.h.Commit
	i := rapid.IntRange(0, len(c.Signatures)-1).Draw(t, lb+".idx")
	key, known := m.knownKey(m.h.ValidatorSet.Validators[i])
	if known && rapid.IntRange(0, 3).Draw(t, lb+".nil") == 0 {
		ts := c.Signatures[i].Timestamp
		if ts.IsZero() {
			ts = m.h.RawHeader.Time
		}
		c.Signatures[i] = m.env.signSig(m.h.RawHeader.ChainID, c.Height, c.Round, c.BlockID, core.BlockIDFlagNil, ts, key, nil)
		m.add("mut=sig:nil-vote", true)
		return
	}
	c.Signatures[i] = core.NewCommitSigAbsent()
	m.add("mut=sig:drop", true)
}

func (m *c16Mut) mutVals(lb string) {
	t := m.t
	vals := cloneVals(m.h.ValidatorSet.Validators)
	prop := m.h.ValidatorSet.Proposer
	if prop != nil {
		prop = cloneVal(prop)
	}
	kinds := []string{"remove", "add-outsider", "add-dup", "power", "power", "swapkeys", "swaporder", "replace-key", "proposer", "addr-change", "rebuild"}
	k := rapid.SampledFrom(kinds).Draw(t, lb+".vals")
	if len(vals) == 0 {
		k = "add-outsider"
	}
	pick := func(l string) int { return rapid.IntRange(0, len(vals)-1).Draw(t, lb+l) }
	switch k {
	case "remove":
		i := pick(".i")
		removed := vals[i]
		vals = append(vals[:i], vals[i+1:]...)
		if prop != nil && bytes.Equal(prop.Address, removed.Address) && len(vals) > 0 && rapid.Bool().Draw(t, lb+".reprop") {
			prop = cloneVal(vals[0])
		}
	case "add-outsider":
		ok := m.outsiderKey(lb)
		nv := core.NewValidator(m.env.keys[ok].pub, c16GenPower(t, lb))
		pos := rapid.IntRange(0, len(vals)).Draw(t, lb+".pos")
		vals = append(vals[:pos], append([]*core.Validator{nv}, vals[pos:]...)...)
		if prop == nil {
			prop = cloneVal(nv)
		}
	case "add-dup":
		i := pick(".i")
		pos := rapid.IntRange(0, len(vals)).Draw(t, lb+".pos")
		nv := cloneVal(vals[i])
		vals = append(vals[:pos], append([]*core.Validator{nv}, vals[pos:]...)...)
	case "power":
		i := pick(".i")
		p := vals[i].VotingPower
		switch rapid.IntRange(0, 5).Draw(t, lb+".pk") {
		case 0:
			p++
		case 1:
			p--
		case 2:
			p *= 2
		case 3:
			p = 0
		case 4:
			p = c16GenPower(t, lb)
		default:
			p = -1
		}
		vals[i].VotingPower = p
		if prop != nil && bytes.Equal(prop.Address, vals[i].Address) && rapid.Bool().Draw(t, lb+".propsync") {
			prop.VotingPower = p
		}
	case "swapkeys": // keys swapped, addresses stay
		i, j := pick(".i"), pick(".j")
		vals[i].PubKey, vals[j].PubKey = vals[j].PubKey, vals[i].PubKey
	case "swaporder":
		i, j := pick(".i"), pick(".j")
		vals[i], vals[j] = vals[j], vals[i]
	case "replace-key": // member replaced by an outsider with the same power (address follows the key)
		i := pick(".i")
		ok := m.outsiderKey(lb)
		wasProp := prop != nil && bytes.Equal(prop.Address, vals[i].Address)
		nv := core.NewValidator(m.env.keys[ok].pub, vals[i].VotingPower)
		nv.ProposerPriority = vals[i].ProposerPriority
		vals[i] = nv
		if wasProp {
			prop = cloneVal(nv)
		}
	case "proposer":
		i := pick(".i")
		prop = cloneVal(vals[i])
		prop.ProposerPriority = int64(rapid.IntRange(-100, 100).Draw(t, lb+".prio"))
	case "addr-change":
		i := pick(".i")
		vals[i].Address, _ = mutateBytes(t, lb+".ab", vals[i].Address, m.nb.RawHeader.ProposerAddress)
	case "rebuild": // same members, rebuilt as a literal set (nothing committed changes)
	}
	m.setVals(vals, prop)
	m.add("mut=vals:"+k, false)
}

// resign lets every validator of the (possibly mutated) set whose key the harness knows sign the
// (possibly mutated) commit properly; mask bit i = validator i takes part.
func (m *c16Mut) resign(mask uint32) {
	c := m.h.Commit
	vals := m.h.ValidatorSet.Validators
	sigs := make([]core.CommitSig, len(vals))
	for i, v := range vals {
		k, ok := m.knownKey(v)
		if !ok || mask&(1<<uint(i)) == 0 {
			sigs[i] = core.NewCommitSigAbsent()
			continue
		}
		ts := m.h.RawHeader.Time.Add(time.Duration(i) * time.Millisecond)
		if i < len(c.Signatures) && !c.Signatures[i].Timestamp.IsZero() {
			ts = c.Signatures[i].Timestamp
		}
		sigs[i] = m.env.signSig(m.h.RawHeader.ChainID, c.Height, c.Round, c.BlockID, core.BlockIDFlagCommit, ts, k, v.Address)
	}
	c.Signatures = sigs
}

// applyFixups draws a subset of consistent repairs, applied in dependency order.
func (m *c16Mut) applyFixups() {
	t := m.t
	if rapid.IntRange(0, 1).Draw(t, "fix.any") == 0 {
		return
	}
	all := rapid.IntRange(0, 3).Draw(t, "fix.all") == 0
	want := func(name string) bool { return all || rapid.Bool().Draw(t, "fix."+name) }
	if want("datahash") && m.h.DAH != nil {
		m.h.RawHeader.DataHash = refDAHHash(m.h.DAH)
		m.fixups = append(m.fixups, "fix=datahash")
	}
	if want("valhash") {
		if vh, ok := refValsHash(m.h.ValidatorSet); ok {
			m.h.RawHeader.ValidatorsHash = vh
			m.fixups = append(m.fixups, "fix=valhash")
		}
	}
	if want("commit-height") {
		m.h.Commit.Height = m.h.RawHeader.Height
		m.fixups = append(m.fixups, "fix=commit-height")
	}
	if want("commit-hash") {
		m.h.Commit.BlockID.Hash = refHeaderHash(m.h.RawHeader)
		m.fixups = append(m.fixups, "fix=commit-hash")
	}
	if want("resign") {
		mask := uint32(0xFFFFFFFF)
		if !all && rapid.Bool().Draw(t, "fix.partial") {
			mask = rapid.Uint32().Draw(t, "fix.mask")
		}
		m.resign(mask)
		m.fixups = append(m.fixups, "fix=resign")
	}
	if len(m.fixups) > 0 {
		m.onlyBenign = false
	}
}
