package header_test

// C16 — Verify(trusted, untrusted): accepted only if the untrusted header links to the trusted one
// (adjacent heights) or is signed by enough of the trusted validators (non-adjacent).

import (
	"bytes"
	"fmt"
	"strings"
	"testing"

	core "github.com/cometbft/cometbft/types"
	"pgregory.net/rapid"

	"github.com/celestiaorg/celestia-node/header"
	vk "github.com/celestiaorg/celestia-node/internal/verifkit"
)

func c16Verify(trusted, untrusted *header.ExtendedHeader) (err error, pv any) {
	defer func() {
		if r := recover(); r != nil {
			pv = r
		}
	}()
	return trusted.Verify(untrusted), nil
}

// forge builds a self-consistent header (passes Validate) signed by an arbitrary set of pool keys.
func (e *c16Env) forge(t *rapid.T, label string, height int64, tmpl *header.ExtendedHeader, last core.BlockID,
	set []c16Member, sq *vk.Square, chainID string,
) *header.ExtendedHeader {
	vals := e.buildValSet(set, 0)
	flags := make([]core.BlockIDFlag, len(vals.Validators))
	offs := make([]int64, len(vals.Validators))
	for i := range flags {
		flags[i] = core.BlockIDFlagCommit
		offs[i] = int64(i) * 1000
	}
	saved := e.chainID
	e.chainID = chainID
	defer func() { e.chainID = saved }()
	return e.buildHeader(c16HeaderSpec{
		height: height, time: tmpl.RawHeader.Time, appV: tmpl.Version.App, last: last, lastCH: e.fill(32),
		vals: vals, nextVals: vals, sq: sq, round: 0, flags: flags, tsOffsets: offs,
	})
}

func c16Overlap(trusted, untrusted *header.ExtendedHeader) string {
	n, hit := len(trusted.ValidatorSet.Validators), 0
	for _, tv := range trusted.ValidatorSet.Validators {
		for _, uv := range untrusted.ValidatorSet.Validators {
			if bytes.Equal(tv.Address, uv.Address) {
				hit++
				break
			}
		}
	}
	switch {
	case hit == 0:
		return "overlap=none"
	case hit == n:
		return "overlap=all-trusted-present"
	}
	return "overlap=partial"
}

func TestVerifC16_Verify(t *testing.T) {
	defer vk.Flush()
	rapid.Check(t, func(t *rapid.T) {
		env := c16GenEnv(t)
		n := rapid.IntRange(3, 5).Draw(t, "nheaders")
		chain := c16GenChain(t, env, n)
		i := rapid.IntRange(0, n-2).Draw(t, "trusted")
		j := i + 1
		if i+2 <= n-1 && rapid.Bool().Draw(t, "nonadjacent") {
			j = rapid.IntRange(i+2, n-1).Draw(t, "untrusted")
		}
		trusted := cloneEH(chain.hdrs[i])
		honest := chain.hdrs[j]
		un := cloneEH(honest)
		other := chain.hdrs[(j+1)%n] // some third header of the chain (may be the trusted one)
		if other == honest {
			other = chain.hdrs[i]
		}

		variant := rapid.SampledFrom([]string{"honest", "honest", "honest", "link-vals", "link-last", "height-shift", "sig", "sig",
			"forged-outsiders", "forged-overlap", "wrong-chain", "other-field"}).Draw(t, "variant")
		detail := ""
		switch variant {
		case "honest":
		case "link-vals":
			switch rapid.IntRange(0, 4).Draw(t, "lv") {
			case 0:
				un.ValidatorsHash = cloneB(trusted.ValidatorsHash)
				detail = "=trusted.ValidatorsHash"
			case 1:
				un.ValidatorsHash = cloneB(honest.NextValidatorsHash)
				detail = "=own.NextValidatorsHash"
			case 2:
				un.ValidatorsHash = cloneB(trusted.NextValidatorsHash)
				detail = "=trusted.NextValidatorsHash"
			default:
				un.ValidatorsHash, detail = mutateBytes(t, "lvb", un.ValidatorsHash, other.ValidatorsHash)
			}
		case "link-last":
			switch rapid.IntRange(0, 4).Draw(t, "ll") {
			case 0:
				un.LastBlockID.Hash = cloneB(trusted.LastBlockID.Hash)
				detail = "=trusted.LastBlockID.Hash"
			case 1:
				un.LastBlockID.Hash = cloneB(other.Commit.BlockID.Hash)
				detail = "=other.Hash"
			case 2:
				un.LastBlockID.Hash = cloneB(trusted.Commit.BlockID.Hash)
				detail = "=trusted.Hash"
			default:
				un.LastBlockID.Hash, detail = mutateBytes(t, "llb", un.LastBlockID.Hash, other.LastBlockID.Hash)
			}
		case "height-shift": // flips which branch of Verify applies
			if j == i+1 {
				un.RawHeader.Height += int64(rapid.IntRange(1, 3).Draw(t, "up"))
				detail = "adjacent->non-adjacent"
			} else {
				un.RawHeader.Height = trusted.RawHeader.Height + 1
				detail = "non-adjacent->adjacent"
			}
		case "sig":
			m := &c16Mut{t: t, env: env, h: un, orig: honest, nb: other, onlyBenign: true}
			k := rapid.IntRange(1, 3).Draw(t, "nsig")
			for x := 0; x < k; x++ {
				m.mutSig(fmt.Sprintf("s%d", x))
			}
			detail = strings.Join(m.labels, ",")
		case "forged-outsiders", "forged-overlap", "wrong-chain":
			// an attacker's self-consistent header at the untrusted height
			var set []c16Member
			tset := chain.sets[i]
			outs := c16Outsiders(tset)
			switch variant {
			case "forged-outsiders":
				k := rapid.IntRange(1, min(len(outs), c16MaxSet)).Draw(t, "nf")
				for x := 0; x < k; x++ {
					set = append(set, c16Member{key: outs[x], power: c16GenPower(t, "fp")})
				}
			case "forged-overlap": // some trusted validators collude (the harness holds their keys), powers re-drawn or kept
				keep := rapid.Bool().Draw(t, "keeppowers")
				for _, mbr := range tset {
					if rapid.Bool().Draw(t, "collude") {
						p := mbr.power
						if !keep {
							p = c16GenPower(t, "cp")
						}
						set = append(set, c16Member{key: mbr.key, power: p})
					}
				}
				extra := rapid.IntRange(0, min(len(outs), c16MaxSet-len(set))).Draw(t, "nextra")
				for x := 0; x < extra; x++ {
					set = append(set, c16Member{key: outs[x], power: c16GenPower(t, "xp")})
				}
				if len(set) == 0 {
					set = append(set, c16Member{key: outs[0], power: 1})
				}
			case "wrong-chain": // the honest set signs the same heights on another chain id
				set = append(set, chain.sets[j]...)
			}
			last := un.LastBlockID
			if rapid.Bool().Draw(t, "linklast") {
				last = trusted.Commit.BlockID
			}
			cid := env.chainID
			if variant == "wrong-chain" {
				cid = env.chainID + "-fork"
				if len(cid) > 50 {
					cid = "fork"
				}
			}
			un = env.forge(t, "forge", honest.RawHeader.Height, honest, last, set, chain.sqs[j], cid)
			if variant == "forged-overlap" && rapid.Bool().Draw(t, "claimnext") {
				// claims the trusted next-validators hash without having that set (would not pass Validate)
				un.ValidatorsHash = cloneB(trusted.NextValidatorsHash)
				detail = "claims-trusted-next-hash "
			}
			detail += c16SetDesc(set)
		case "other-field": // a field Verify does not look at
			leaf := rapid.SampledFrom(c16RawLeaves).Draw(t, "leaf")
			if leaf.path != "Height" && leaf.path != "ValidatorsHash" && leaf.path != "LastBlockID.Hash" && leaf.path != "ChainID" {
				mutateLeaf(t, &un.RawHeader, &other.RawHeader, leaf)
				detail = leaf.path
			}
		}

		adjacent := trusted.RawHeader.Height+1 == un.RawHeader.Height
		err, pv := c16Verify(trusted, un)
		ctx := fmt.Sprintf("variant=%s %s trusted=H%d untrusted=H%d set-changes=%v\ntrusted:   %s\nuntrusted: %s",
			variant, detail, i, j, chain.chg, renderEH(trusted), renderEH(un))
		if pv != nil {
			t.Fatalf("C16-verify: Verify panicked instead of returning a verdict: %v\n%s", pv, ctx)
		}
		acc := err == nil
		labels := []string{"variant=" + variant}
		var refOK bool
		if adjacent {
			labels = append(labels, "pair=adjacent")
			linkVals := bytes.Equal(un.ValidatorsHash, trusted.NextValidatorsHash)
			linkLast := bytes.Equal(un.LastBlockID.Hash, refHeaderHash(trusted.RawHeader))
			refOK = linkVals && linkLast
			if acc && !refOK {
				t.Fatalf("C16-verify: adjacent header accepted although it does not link to the trusted header (validators-hash link=%v, last-header link=%v); expected rejection\n%s",
					linkVals, linkLast, ctx)
			}
			labels = append(labels, fmt.Sprintf("ref=link-vals:%v,last:%v", linkVals, linkLast))
		} else {
			labels = append(labels, "pair=non-adjacent")
			tally, total := refTrustedTally(trusted, un)
			refOK = 3*tally > total
			if acc && !refOK {
				t.Fatalf("C16-verify: non-adjacent header accepted although valid signatures of trusted validators carry only %d of %d trusted voting power (need more than 1/3); expected rejection\n%s",
					tally, total, ctx)
			}
			labels = append(labels, fmt.Sprintf("ref=trusted-third:%v", refOK))
			if 3*tally == total {
				labels = append(labels, "trusted-tally=exactly-one-third")
			}
			labels = append(labels, c16Overlap(trusted, un))
		}
		// the honest chain must verify (guards the generator and the oracle against vacuity)
		if variant == "honest" && refOK && !acc {
			t.Fatalf("C16-verify-completeness: an untouched header of the honest chain that links to / is sufficiently signed by the trusted header was rejected: %v\n%s", err, ctx)
		}
		if variant == "honest" && adjacent && !refOK {
			t.Fatalf("VERIF-INFRA C16: generator produced an honest adjacent pair that does not link\n%s", ctx)
		}
		if acc {
			labels = append(labels, "verify=accept")
			if variant != "honest" {
				labels = append(labels, "verify=accept-nonhonest")
			}
		} else {
			labels = append(labels, "verify=reject")
			if refOK {
				labels = append(labels, "verify=reject-although-ref-holds") // not asserted outside the honest class
			}
		}
		labels = append(labels, "setchange-trusted="+chain.chg[i])

		// re-encoding both headers does not change the verdict. Stated only for untrusted headers whose
		// parts pass basic validation (what every wire decoder and Validate enforce before Verify is
		// reached): on a malformed CommitSig cometbft's batch and single verification paths differ, and
		// which path runs depends on how the trusted validator set was constructed.
		wfUn := c16WellFormed(un)
		via := rapid.SampledFrom([]string{"binary", "json"}).Draw(t, "via")
		var t2, u2 *header.ExtendedHeader
		var e1, e2 error
		if via == "binary" {
			var b1, b2 []byte
			if b1, e1 = c16EncodeBin(trusted); e1 == nil {
				t2, e1 = c16DecodeBin(b1)
			}
			if b2, e2 = c16EncodeBin(un); e2 == nil {
				u2, e2 = c16DecodeBin(b2)
			}
		} else {
			var b1, b2 []byte
			if b1, e1 = c16EncodeJSON(trusted); e1 == nil {
				t2, e1 = c16DecodeJSON(b1)
			}
			if b2, e2 = c16EncodeJSON(un); e2 == nil {
				u2, e2 = c16DecodeJSON(b2)
			}
		}
		if e1 != nil {
			t.Fatalf("C16-encoding: honest trusted header does not survive %s re-encoding: %v\n%s", via, e1, ctx)
		}
		if e2 == nil {
			err2, pv2 := c16Verify(t2, u2)
			if pv2 != nil {
				t.Fatalf("C16-verify: Verify panicked on %s re-encoded headers: %v\n%s", via, pv2, ctx)
			}
			if (err2 == nil) != acc && !wfUn {
				labels = append(labels, "verify-reencode-differs-on-malformed-untrusted(not asserted)")
			} else if (err2 == nil) != acc {
				t.Fatalf("C16-encoding: Verify verdict changed by %s re-encoding: before accepted=%v (%v), after accepted=%v (%v)\n%s",
					via, acc, err, err2 == nil, err2, ctx)
			}
			labels = append(labels, "verify-reencoded="+via)
		} else {
			labels = append(labels, "verify-untrusted-not-encodable")
		}

		nontrivial := variant == "honest" || wfUn
		vk.RecordHash(vk.Hash64(env.desc.String(), i, j, variant, detail, fullBytes(un)), labels, nontrivial, func() any {
			return map[string]any{"variant": variant, "detail": detail, "adjacent": adjacent, "accepted": acc, "error": fmt.Sprint(err),
				"reference_ok": refOK, "untrusted": renderEH(un)}
		})
	})
}
