package blob

// Real-layout block generator shared by the blob harnesses (C11, C20; reusable by C12).
// Harness file of /verif (injected by overlay; not part of celestia-node).
//
// A block is generated the way a validator builds it: a multiset of blobs is grouped into BlobTxs
// (tx.MarshalBlobTx over an opaque inner transaction), ordinary transactions are put in front, and
// the REAL go-square builder lays the square out (reserved namespaces, share-commitment alignment
// padding, namespace ordering). The start index of every blob is read back from the builder
// (FindBlobStartingIndex): that is the reference for "the blobs and positions the block was built
// from". The extended square comes from celestia-app's da.ConstructEDS over the same tx list.

import (
	"bytes"
	"context"
	"fmt"
	"math/rand/v2"
	"os"
	"sort"
	"strconv"
	"strings"

	"github.com/celestiaorg/celestia-app/v9/pkg/appconsts"
	"github.com/celestiaorg/celestia-app/v9/pkg/da"
	"github.com/celestiaorg/go-square/merkle"
	square "github.com/celestiaorg/go-square/v4"
	"github.com/celestiaorg/go-square/v4/inclusion"
	libshare "github.com/celestiaorg/go-square/v4/share"
	"github.com/celestiaorg/go-square/v4/tx"
	"github.com/celestiaorg/rsmt2d"
	"pgregory.net/rapid"

	"github.com/celestiaorg/celestia-node/header"
	vk "github.com/celestiaorg/celestia-node/internal/verifkit"
	"github.com/celestiaorg/celestia-node/share"
	"github.com/celestiaorg/celestia-node/share/eds"
	"github.com/celestiaorg/celestia-node/share/shwap"
)

// c11GenBlob is one generated blob together with where the real builder put it.
type c11GenBlob struct {
	Lib        *libshare.Blob
	NSIdx      int    // index into the namespace pool (vk.BlobNS)
	Tx         int    // BlobTx it belongs to (0-based among BlobTxs)
	PosInTx    int    // position inside that BlobTx
	SizeClass  string // generator size class
	DupOf      int    // index of the blob this one is a byte-identical copy of, or -1
	Start      int    // index of its first share in the ODS (row-major), from the builder
	Shares     int    // number of shares it occupies
	Commitment []byte // inclusion.CreateCommitment over the generated blob
}

// c11Block is a generated block.
type c11Block struct {
	Blobs     []*c11GenBlob // generation (= transaction priority) order
	Txs       [][]byte      // ordinary txs first, then BlobTxs: the block's tx list
	NormalTxs int
	Square    []libshare.Share // ODS as exported by the builder
	ODS       int
	EDS       *rsmt2d.ExtendedDataSquare
	Roots     *share.AxisRoots
	Seed      uint64
}

// c11BlockOpts bounds the generator.
type c11BlockOpts struct {
	MaxBlobs     int // upper bound for the number of blobs
	MaxShares    int // budget for the sum of blob shares (keeps the ODS width bounded)
	MaxNS        int // namespaces used by one block (1..MaxNS), pool of 6
	Huge         bool
	ForceNSCount int // if > 0: exactly that many namespaces
	// WideEvery > 0: one block in WideEvery gets a filler blob of > 4096 shares in the highest pool
	// namespace, which makes the square 128 shares wide: only then can a blob that is preceded by
	// alignment padding (>= 65 shares) be followed by another blob in the same row.
	WideEvery int
}

func c11DefaultOpts() c11BlockOpts {
	wide := 40
	if v, err := strconv.Atoi(os.Getenv("VERIF_C11_WIDE_EVERY")); err == nil {
		wide = v
	}
	if vk.Thorough() {
		return c11BlockOpts{MaxBlobs: 12, MaxShares: 2600, MaxNS: 4, Huge: true, WideEvery: wide}
	}
	return c11BlockOpts{MaxBlobs: 12, MaxShares: 700, MaxNS: 4, Huge: true, WideEvery: wide}
}

const c11NSPool = 6

// c11BlobDataLen draws a payload length for a size class. first = payload bytes of a first share.
func c11BlobDataLen(t *rapid.T, label string, class string, first int) int {
	if class == "big-in-row" { // 65..90 shares: with a few shares in front it ends inside a 128-wide row
		n := rapid.IntRange(65, 90).Draw(t, label+".shares")
		return first + (n-2)*libshare.ContinuationSparseShareContentSize + rapid.IntRange(1, libshare.ContinuationSparseShareContentSize).Draw(t, label+".rem")
	}
	cont := libshare.ContinuationSparseShareContentSize
	switch class {
	case "1B":
		return 1
	case "share-1":
		return first - 1
	case "share":
		return first
	case "share+1":
		return first + 1
	case "few": // 2..6 shares, any remainder
		n := rapid.IntRange(2, 6).Draw(t, label+".shares")
		return first + (n-2)*cont + rapid.IntRange(1, cont).Draw(t, label+".rem")
	case "fewexact": // ends exactly at a share boundary
		n := rapid.IntRange(2, 9).Draw(t, label+".shares")
		return first + (n-1)*cont
	case "mid": // 7..40 shares: more than a row (and often more than two) of a small square
		n := rapid.IntRange(7, 40).Draw(t, label+".shares")
		return first + (n-2)*cont + rapid.IntRange(1, cont).Draw(t, label+".rem")
	case "big": // 65..128 shares: subtree width 2, so alignment padding can precede it
		n := rapid.IntRange(65, 128).Draw(t, label+".shares")
		return first + (n-2)*cont + rapid.IntRange(1, cont).Draw(t, label+".rem")
	case "huge": // 129..300 shares: subtree width 4 or 8
		n := rapid.IntRange(129, 300).Draw(t, label+".shares")
		return first + (n-2)*cont + rapid.IntRange(1, cont).Draw(t, label+".rem")
	}
	panic("VERIF-INFRA: unknown size class " + class)
}

var c11SizeClasses = []string{
	"1B", "share-1", "share", "share+1", "few", "few", "fewexact", "mid", "mid", "big", "big", "huge",
}

// c11GenBlock draws a block.
func c11GenBlock(t *rapid.T, label string, o c11BlockOpts) *c11Block {
	seed := rapid.Uint64().Draw(t, label+".seed")
	rng := rand.New(rand.NewPCG(seed, 0xC11B10B))
	wideDraw := rng.Uint32()
	fill := func(n int) []byte {
		b := make([]byte, n)
		for i := range b {
			b[i] = byte(rng.Uint32())
		}
		return b
	}

	nBlobs := 0
	switch rapid.IntRange(0, 9).Draw(t, label+".nkind") {
	case 0:
		nBlobs = 0
	case 1:
		nBlobs = 1
	default:
		nBlobs = rapid.IntRange(2, o.MaxBlobs).Draw(t, label+".nblobs")
	}
	// the namespaces this block uses: a sorted subset of the pool
	nsCount := o.ForceNSCount
	if nsCount == 0 {
		nsCount = rapid.IntRange(1, o.MaxNS).Draw(t, label+".nscount")
	}
	perm := rapid.Permutation([]int{0, 1, 2, 3, 4, 5}).Draw(t, label+".nsperm")
	used := append([]int(nil), perm[:nsCount]...)
	sort.Ints(used)

	blk := &c11Block{Seed: seed}
	budget := o.MaxShares
	// (decided by the case's PRNG, not by a rapid integer: rapid favours small values, which would
	// make one block in ten wide instead of one in WideEvery)
	wide := o.WideEvery > 0 && wideDraw%uint32(o.WideEvery) == 0
	if wide {
		// keep the ordinary blobs inside the first rows of the 128-wide square and below the filler
		budget = 300
		if nBlobs < 5 {
			nBlobs = 5
		}
		for i := range used {
			if used[i] == c11NSPool-1 {
				used[i] = rapid.IntRange(0, c11NSPool-2).Draw(t, label+".widens")
			}
		}
	}
	for i := 0; i < nBlobs; i++ {
		l := fmt.Sprintf("%s.b%d", label, i)
		g := &c11GenBlob{DupOf: -1}
		kind := rapid.IntRange(0, 9).Draw(t, l+".kind")
		if wide && i < 5 {
			kind = 9 // the first five blobs of a wide block: small, >= 65 shares, small, >= 65 shares, small - one namespace
		}
		switch {
		case kind == 0 && len(blk.Blobs) > 0:
			// byte-identical duplicate of an earlier blob (same namespace, data, version, signer)
			src := rapid.IntRange(0, len(blk.Blobs)-1).Draw(t, l+".dupof")
			s := blk.Blobs[src]
			var signer []byte
			if s.Lib.Signer() != nil {
				signer = append([]byte(nil), s.Lib.Signer()...)
			}
			lib, err := libshare.NewBlob(s.Lib.Namespace(), append([]byte(nil), s.Lib.Data()...), s.Lib.ShareVersion(), signer)
			if err != nil {
				t.Fatalf("VERIF-INFRA: duplicate blob: %v", err)
			}
			g.Lib, g.NSIdx, g.SizeClass, g.DupOf = lib, s.NSIdx, s.SizeClass, src
		case kind == 1 && len(blk.Blobs) > 0 && nsCount > 1:
			// the same payload under another namespace (a different commitment)
			src := rapid.IntRange(0, len(blk.Blobs)-1).Draw(t, l+".sameData")
			s := blk.Blobs[src]
			nsIdx := used[rapid.IntRange(0, nsCount-1).Draw(t, l+".ns")]
			var signer []byte
			if s.Lib.Signer() != nil {
				signer = append([]byte(nil), s.Lib.Signer()...)
			}
			lib, err := libshare.NewBlob(vk.BlobNS(nsIdx), append([]byte(nil), s.Lib.Data()...), s.Lib.ShareVersion(), signer)
			if err != nil {
				t.Fatalf("VERIF-INFRA: same-data blob: %v", err)
			}
			g.Lib, g.NSIdx, g.SizeClass = lib, nsIdx, s.SizeClass
			if nsIdx == s.NSIdx {
				g.DupOf = src
			}
		default:
			classes := c11SizeClasses
			if !o.Huge {
				classes = classes[:len(classes)-1]
			}
			class := rapid.SampledFrom(classes).Draw(t, l+".class")
			if wide && i < 5 {
				class = rapid.SampledFrom([][]string{{"1B", "share+1", "few"}, {"big-in-row"}}[i%2]).Draw(t, l+".wideclass")
			}
			ver := uint8(rapid.IntRange(0, 1).Draw(t, l+".ver"))
			first := libshare.FirstSparseShareContentSize
			var signer []byte
			if ver == libshare.ShareVersionOne {
				first = libshare.FirstSparseShareContentSizeWithSigner
			}
			n := c11BlobDataLen(t, l, class, first)
			nsIdx := used[rapid.IntRange(0, nsCount-1).Draw(t, l+".ns")]
			if wide && i < 5 {
				nsIdx = used[0]
			}
			data := fill(n)
			if ver == libshare.ShareVersionOne {
				signer = fill(libshare.SignerSize)
			}
			lib, err := libshare.NewBlob(vk.BlobNS(nsIdx), data, ver, signer)
			if err != nil {
				t.Fatalf("VERIF-INFRA: NewBlob: %v", err)
			}
			g.Lib, g.NSIdx, g.SizeClass = lib, nsIdx, class
		}
		g.Shares = libshare.SparseSharesNeeded(uint32(g.Lib.DataLen()), g.Lib.ShareVersion() == libshare.ShareVersionOne)
		if g.Shares > budget {
			// keep the square width bounded: a blob that does not fit the budget is not added
			if g.DupOf >= 0 || kind == 1 {
				continue
			}
			// replace by a one-byte blob so that the number of blobs stays as drawn
			lib, err := libshare.NewBlob(g.Lib.Namespace(), fill(1), libshare.ShareVersionZero, nil)
			if err != nil {
				t.Fatalf("VERIF-INFRA: NewBlob: %v", err)
			}
			g.Lib, g.SizeClass, g.Shares = lib, "1B", 1
		}
		budget -= g.Shares
		com, err := inclusion.CreateCommitment(g.Lib, merkle.HashFromByteSlices, appconsts.SubtreeRootThreshold)
		if err != nil {
			t.Fatalf("VERIF-INFRA: CreateCommitment: %v", err)
		}
		g.Commitment = com
		blk.Blobs = append(blk.Blobs, g)
	}

	if wide {
		n := rapid.IntRange(4100, 4400).Draw(t, label+".filler")
		lib, err := libshare.NewBlob(vk.BlobNS(c11NSPool-1), fill(libshare.FirstSparseShareContentSize+(n-1)*libshare.ContinuationSparseShareContentSize), libshare.ShareVersionZero, nil)
		if err != nil {
			t.Fatalf("VERIF-INFRA: NewBlob: %v", err)
		}
		com, err := inclusion.CreateCommitment(lib, merkle.HashFromByteSlices, appconsts.SubtreeRootThreshold)
		if err != nil {
			t.Fatalf("VERIF-INFRA: CreateCommitment: %v", err)
		}
		blk.Blobs = append(blk.Blobs, &c11GenBlob{Lib: lib, NSIdx: c11NSPool - 1, SizeClass: "filler", DupOf: -1, Shares: n, Commitment: com})
	}
	// ordinary transactions: opaque bytes that are neither a BlobTx nor a cosmos tx (first byte is
	// an invalid protobuf tag), sizes from one byte to several compact shares
	nNormal := rapid.IntRange(0, 3).Draw(t, label+".ntxs")
	for i := 0; i < nNormal; i++ {
		n := rapid.SampledFrom([]int{1, 40, 300, 477, 478, 900, 2500}).Draw(t, fmt.Sprintf("%s.tx%d", label, i))
		b := fill(n)
		b[0] = 0x07
		blk.Txs = append(blk.Txs, b)
	}
	blk.NormalTxs = nNormal
	// group blobs into BlobTxs of 1..4 blobs, in generation order
	type group struct {
		from, n int
		inner   []byte
	}
	var groups []group
	for i := 0; i < len(blk.Blobs); {
		k := rapid.IntRange(1, 4).Draw(t, fmt.Sprintf("%s.group%d", label, i))
		if i+k > len(blk.Blobs) {
			k = len(blk.Blobs) - i
		}
		inner := fill(rapid.SampledFrom([]int{1, 90, 330}).Draw(t, fmt.Sprintf("%s.inner%d", label, i)))
		inner[0] = 0x07
		groups = append(groups, group{i, k, inner})
		i += k
	}
	normal := blk.Txs
	assemble := func() {
		blk.Txs = append([][]byte(nil), normal...)
		for gi, g := range groups {
			libs := make([]*libshare.Blob, g.n)
			for j := 0; j < g.n; j++ {
				blk.Blobs[g.from+j].Tx, blk.Blobs[g.from+j].PosInTx = gi, j
				libs[j] = blk.Blobs[g.from+j].Lib
			}
			raw, err := tx.MarshalBlobTx(g.inner, libs...)
			if err != nil {
				t.Fatalf("VERIF-INFRA: MarshalBlobTx: %v", err)
			}
			blk.Txs = append(blk.Txs, raw)
		}
		if err := blk.build(); err != nil {
			t.Fatalf("VERIF-INFRA: %v", err)
		}
	}
	assemble()
	if wide && !blk.HasBlobAfterPaddedBlobInRow() {
		// Whether alignment padding precedes the first >= 65-share blob depends on the parity of the
		// share index the small blob in front of it ends at. If there is none, make that small blob
		// one share longer and lay the block out again (still a function of the drawn values only).
		g := blk.Blobs[0]
		var signer []byte
		if g.Lib.Signer() != nil {
			signer = append([]byte(nil), g.Lib.Signer()...)
		}
		data := append(append([]byte(nil), g.Lib.Data()...), fill(libshare.ContinuationSparseShareContentSize)...)
		lib, err := libshare.NewBlob(g.Lib.Namespace(), data, g.Lib.ShareVersion(), signer)
		if err != nil {
			t.Fatalf("VERIF-INFRA: NewBlob: %v", err)
		}
		com, err := inclusion.CreateCommitment(lib, merkle.HashFromByteSlices, appconsts.SubtreeRootThreshold)
		if err != nil {
			t.Fatalf("VERIF-INFRA: CreateCommitment: %v", err)
		}
		g.Lib, g.Commitment, g.Shares = lib, com, g.Shares+1
		assemble()
	}
	return blk
}

// HasBlobAfterPaddedBlobInRow reports whether some blob starts in the row in which a blob of its
// namespace that is preceded by namespace padding started (the parser then has to carry the
// skipped padding in its column cursor).
func (b *c11Block) HasBlobAfterPaddedBlobInRow() bool {
	for _, ns := range b.NamespacesPresent() {
		ref := b.RefNamespace(ns)
		for i := 1; i < len(ref); i++ {
			if b.PaddingBefore(ref[i-1]) > 0 && ref[i].Start/b.ODS == ref[i-1].Start/b.ODS {
				return true
			}
		}
	}
	return false
}

// c11BlobSpec describes one blob of a hand-written block (fixed witnesses).
type c11BlobSpec struct {
	NSIdx int
	Ver   uint8
	Len   int
}

// c11BlockFromSpecs builds a block without rapid: one BlobTx per inner slice, payload bytes from a
// PRNG seeded with seed, nNormal ordinary 40-byte transactions in front.
func c11BlockFromSpecs(seed uint64, nNormal int, txs [][]c11BlobSpec) (*c11Block, error) {
	rng := rand.New(rand.NewPCG(seed, 0xC11B10B))
	fill := func(n int) []byte {
		b := make([]byte, n)
		for i := range b {
			b[i] = byte(rng.Uint32())
		}
		return b
	}
	blk := &c11Block{Seed: seed, NormalTxs: nNormal}
	for i := 0; i < nNormal; i++ {
		b := fill(40)
		b[0] = 0x07
		blk.Txs = append(blk.Txs, b)
	}
	for ti, specs := range txs {
		var libs []*libshare.Blob
		for pi, sp := range specs {
			var signer []byte
			if sp.Ver == libshare.ShareVersionOne {
				signer = fill(libshare.SignerSize)
			}
			lib, err := libshare.NewBlob(vk.BlobNS(sp.NSIdx), fill(sp.Len), sp.Ver, signer)
			if err != nil {
				return nil, err
			}
			com, err := inclusion.CreateCommitment(lib, merkle.HashFromByteSlices, appconsts.SubtreeRootThreshold)
			if err != nil {
				return nil, err
			}
			blk.Blobs = append(blk.Blobs, &c11GenBlob{
				Lib: lib, NSIdx: sp.NSIdx, Tx: ti, PosInTx: pi, SizeClass: "fixed", DupOf: -1, Commitment: com,
				Shares: libshare.SparseSharesNeeded(uint32(sp.Len), sp.Ver == libshare.ShareVersionOne),
			})
			libs = append(libs, lib)
		}
		inner := fill(90)
		inner[0] = 0x07
		raw, err := tx.MarshalBlobTx(inner, libs...)
		if err != nil {
			return nil, err
		}
		blk.Txs = append(blk.Txs, raw)
	}
	if err := blk.build(); err != nil {
		return nil, err
	}
	return blk, nil
}

// build lays the block out with the real builder and extends it.
func (b *c11Block) build() error {
	builder, err := square.NewBuilder(appconsts.SquareSizeUpperBound, appconsts.SubtreeRootThreshold, b.Txs...)
	if err != nil {
		return fmt.Errorf("square.NewBuilder: %w", err)
	}
	sq, err := builder.Export()
	if err != nil {
		return fmt.Errorf("Builder.Export: %w", err)
	}
	b.Square = sq
	size, err := sq.Size()
	if err != nil {
		return err
	}
	b.ODS = size
	for _, g := range b.Blobs {
		start, err := builder.FindBlobStartingIndex(b.NormalTxs+g.Tx, g.PosInTx)
		if err != nil {
			return fmt.Errorf("FindBlobStartingIndex(%d,%d): %w", b.NormalTxs+g.Tx, g.PosInTx, err)
		}
		g.Start = start
		// sanity of the reference itself: the shares at that position are the blob's shares
		shs, err := g.Lib.ToShares()
		if err != nil {
			return err
		}
		if len(shs) != g.Shares {
			return fmt.Errorf("blob splits into %d shares, expected %d", len(shs), g.Shares)
		}
		for i, sh := range shs {
			if start+i >= len(sq) || !bytes.Equal(sq[start+i].ToBytes(), sh.ToBytes()) {
				return fmt.Errorf("builder index %d does not hold share %d of the blob", start, i)
			}
		}
	}
	e, err := da.ConstructEDS(b.Txs, appconsts.Version, -1)
	if err != nil {
		return fmt.Errorf("da.ConstructEDS: %w", err)
	}
	if int(e.Width()) != 2*size {
		return fmt.Errorf("ConstructEDS width %d, builder square size %d", e.Width(), size)
	}
	flat := e.FlattenedODS()
	for i := range flat {
		if !bytes.Equal(flat[i], sq[i].ToBytes()) {
			return fmt.Errorf("ConstructEDS and the builder disagree at ODS share %d", i)
		}
	}
	b.EDS = e
	roots, err := share.NewAxisRoots(e)
	if err != nil {
		return err
	}
	b.Roots = roots
	return nil
}

// RefNamespace is the reference list of a namespace: its blobs sorted by builder start index.
func (b *c11Block) RefNamespace(ns libshare.Namespace) []*c11GenBlob {
	var out []*c11GenBlob
	for _, g := range b.Blobs {
		if g.Lib.Namespace().Equals(ns) {
			out = append(out, g)
		}
	}
	sort.SliceStable(out, func(i, j int) bool { return out[i].Start < out[j].Start })
	return out
}

// NamespacesPresent lists the blob namespaces of the block in ascending order.
func (b *c11Block) NamespacesPresent() []libshare.Namespace {
	seen := map[int]bool{}
	var idx []int
	for _, g := range b.Blobs {
		if !seen[g.NSIdx] {
			seen[g.NSIdx] = true
			idx = append(idx, g.NSIdx)
		}
	}
	sort.Ints(idx)
	out := make([]libshare.Namespace, len(idx))
	for i, k := range idx {
		out[i] = vk.BlobNS(k)
	}
	return out
}

// EDSIndex converts an ODS share index into the index the blob service documents for
// Blob.Index(): position of the share in the extended square, row-major.
func (b *c11Block) EDSIndex(odsIndex int) int {
	return (odsIndex/b.ODS)*(2*b.ODS) + odsIndex%b.ODS
}

// PaddingBefore counts the namespace-padding shares that directly precede the blob in its own
// namespace (alignment padding written after a previous blob of the same namespace).
func (b *c11Block) PaddingBefore(g *c11GenBlob) int {
	n := 0
	for i := g.Start - 1; i >= 0; i-- {
		sh := b.Square[i]
		if !sh.IsPadding() || !sh.Namespace().Equals(g.Lib.Namespace()) {
			break
		}
		n++
	}
	return n
}

// RowsSpanned is the number of ODS rows the blob touches.
func (b *c11Block) RowsSpanned(g *c11GenBlob) int {
	return (g.Start+g.Shares-1)/b.ODS - g.Start/b.ODS + 1
}

// RowRange classifies a namespace against the row roots: rows (ODS) whose [min,max] covers it.
func (b *c11Block) RowsCovering(ns libshare.Namespace) []int {
	var rows []int
	for r := 0; r < b.ODS; r++ {
		lo := b.Square[r*b.ODS].Namespace()
		hi := b.Square[r*b.ODS+b.ODS-1].Namespace()
		if !ns.IsLessThan(lo) && ns.IsLessOrEqualThan(hi) {
			rows = append(rows, r)
		}
	}
	return rows
}

// Header returns a header carrying only what the blob service reads: height and DAH.
func (b *c11Block) Header(height uint64) *header.ExtendedHeader {
	eh := &header.ExtendedHeader{DAH: b.Roots}
	eh.RawHeader.Height = int64(height)
	return eh
}

// Desc is the canonical description of the block (what was drawn).
func (b *c11Block) Desc() string {
	var s strings.Builder
	fmt.Fprintf(&s, "ods=%d txs=%d seed=%x", b.ODS, b.NormalTxs, b.Seed)
	for _, g := range b.Blobs {
		fmt.Fprintf(&s, " [ns%d v%d len=%d tx%d.%d @%d+%d", g.NSIdx, g.Lib.ShareVersion(), g.Lib.DataLen(), g.Tx, g.PosInTx, g.Start, g.Shares)
		if g.DupOf >= 0 {
			fmt.Fprintf(&s, " dup%d", g.DupOf)
		}
		s.WriteString("]")
	}
	return s.String()
}

// c11MemGetter is a shwap.Getter over generated blocks held in memory: namespace data comes from
// the real eds.NamespaceData over the in-memory accessor eds.Rsmt2D.
type c11MemGetter struct {
	blocks map[uint64]*c11Block
}

var _ shwap.Getter = (*c11MemGetter)(nil)

func (g *c11MemGetter) block(h *header.ExtendedHeader) (*c11Block, error) {
	b, ok := g.blocks[h.Height()]
	if !ok {
		return nil, shwap.ErrNotFound
	}
	return b, nil
}

func (g *c11MemGetter) GetSamples(context.Context, *header.ExtendedHeader, []shwap.SampleCoords) ([]shwap.Sample, error) {
	return nil, shwap.ErrOperationNotSupported
}

func (g *c11MemGetter) GetEDS(_ context.Context, h *header.ExtendedHeader) (*rsmt2d.ExtendedDataSquare, error) {
	b, err := g.block(h)
	if err != nil {
		return nil, err
	}
	return b.EDS, nil
}

func (g *c11MemGetter) GetRow(context.Context, *header.ExtendedHeader, int) (shwap.Row, error) {
	return shwap.Row{}, shwap.ErrOperationNotSupported
}

func (g *c11MemGetter) GetNamespaceData(ctx context.Context, h *header.ExtendedHeader, ns libshare.Namespace) (shwap.NamespaceData, error) {
	b, err := g.block(h)
	if err != nil {
		return nil, err
	}
	return eds.NamespaceData(ctx, &eds.Rsmt2D{ExtendedDataSquare: b.EDS}, ns)
}

func (g *c11MemGetter) GetRangeNamespaceData(context.Context, *header.ExtendedHeader, int, int) (shwap.RangeNamespaceData, error) {
	return shwap.RangeNamespaceData{}, shwap.ErrOperationNotSupported
}
