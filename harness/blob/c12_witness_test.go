package blob

// C12 — fixed witnesses of the defects the generated checks found in this package (regression
// cases; they pass on a tree that carries the fixes). Harness file of /verif.

import (
	"bytes"
	"context"
	"encoding/json"
	"fmt"
	"os"
	"path/filepath"
	"runtime"
	"strings"
	"testing"

	"github.com/celestiaorg/celestia-app/v9/pkg/appconsts"
	"github.com/celestiaorg/nmt"

	vk "github.com/celestiaorg/celestia-node/internal/verifkit"
)

func TestVerifC12_Witnesses(t *testing.T) {
	defer vk.Flush()
	c12Quiet()
	blk, blobs, err := c12FixedBlock()
	if err != nil {
		t.Fatalf("VERIF-INFRA: %v", err)
	}
	svc := c12Service(blk)
	ctx := context.Background()
	var failures []string
	fail := func(format string, a ...any) { failures = append(failures, fmt.Sprintf(format, a...)) }

	for _, bl := range blobs {
		own, err := svc.GetProof(ctx, blk.Height, bl.NS, bl.Commitment)
		if err != nil {
			t.Fatalf("VERIF-INFRA: GetProof: %v", err)
		}
		last := len(*own) - 1
		nodes := (*own)[last].Nodes()
		mk := func(n [][]byte) Proof {
			p := c12CloneProof(*own)
			p[last] = c12WithNodes(p[last], p[last].Start(), p[last].End(), n)
			return p
		}
		cases := map[string]Proof{
			"short (last node dropped)":  mk(vk.C12CloneBytes(nodes[:len(nodes)-1])),
			"short (no nodes)":           mk(nil),
			"padded (extra node)":        mk(append(vk.C12CloneBytes(nodes), bytes.Repeat([]byte{0xAA}, 90))),
			"padded (last node doubled)": mk(append(vk.C12CloneBytes(nodes), nodes[len(nodes)-1])),
			"nil row proof":              append(c12CloneProof(*own)[:last], nil),
		}
		for name, p := range cases {
			ok, ierr, pan := c12Included(svc, blk.Height, bl.NS, &p, bl.Commitment)
			vk.Record("witness included "+name, []string{"witness=included"}, true, nil)
			switch {
			case pan != nil:
				fail("C12 included: Included panicked (%v) for a %s proof of blob@%d; own %s supplied %s", pan, name, bl.Start, c12DescribeProof(*own), c12DescribeProof(p))
			case ok && ierr == nil:
				fail("C12 included: Included answered (true,nil) for a %s proof of blob@%d; own %s supplied %s", name, bl.Start, c12DescribeProof(*own), c12DescribeProof(p))
			}
		}
		ok, ierr, pan := c12Included(svc, blk.Height, bl.NS, own, bl.Commitment)
		if pan != nil || ierr != nil || !ok {
			fail("C12 included: own proof of blob@%d not accepted: (%v,%v) panic=%v", bl.Start, ok, ierr, pan)
		}

		cp, err := svc.GetCommitmentProof(ctx, blk.Height, bl.NS, bl.Commitment)
		if err != nil {
			t.Fatalf("VERIF-INFRA: GetCommitmentProof: %v", err)
		}
		if verr, vpan := c12VerifyCP(cp, blk.DataRoot, bl.Commitment); verr != nil || vpan != nil {
			fail("C12 commitment-proof: own proof of blob@%d does not verify: err=%v panic=%v", bl.Start, verr, vpan)
		}
		a := c12CloneCP(cp)
		a.SubtreeRootProofs[0] = nil
		b := c12CloneCP(cp)
		b.RowProof.Proofs[len(b.RowProof.Proofs)-1] = nil
		js, _ := json.Marshal(cp)
		var c CommitmentProof
		// first subtree root proof object -> null in the JSON form
		i := bytes.Index(js, []byte(`"subtree_root_proofs":[{`))
		j := i + bytes.IndexByte(js[i:], '}')
		if i < 0 || j < i {
			t.Fatalf("VERIF-INFRA: unexpected JSON form %s", js)
		}
		mut := append(append(append([]byte(nil), js[:i+len(`"subtree_root_proofs":[`)]...), []byte("null")...), js[j+1:]...)
		if err := json.Unmarshal(mut, &c); err != nil {
			t.Fatalf("VERIF-INFRA: JSON witness does not decode: %v (%s)", err, mut)
		}
		for name, p := range map[string]*CommitmentProof{"nil subtree root proof": a, "nil row proof": b, "JSON null subtree root proof": &c} {
			verr, vpan := c12VerifyCP(p, blk.DataRoot, bl.Commitment)
			vk.Record("witness commitment "+name, []string{"witness=commitment"}, true, nil)
			switch {
			case vpan != nil:
				fail("C12 commitment-proof: Verify panicked (%v) on a proof with a %s (blob@%d): %s", vpan, name, bl.Start, c12DescribeCP(p))
			case verr == nil:
				fail("C12 commitment-proof: Verify accepted a proof with a %s (blob@%d)", name, bl.Start)
			}
		}
		// absence-proof flavour of a row proof must not be mistaken for the own proof either
		abs := c12CloneProof(*own)
		n := nmt.NewAbsenceProof(abs[0].Start(), abs[0].End(), abs[0].Nodes(), bytes.Repeat([]byte{1}, 90), true)
		abs[0] = &n
		if ok, ierr, pan := c12Included(svc, blk.Height, bl.NS, &abs, bl.Commitment); pan != nil || (ok && ierr == nil) {
			fail("C12 included: proof with a foreign leaf hash: (%v,%v) panic=%v", ok, ierr, pan)
		}
	}
	// A subtree-root proof whose stated leaf range cannot exist in any square (rows have at most
	// 2*SquareSizeUpperBound leaves) must be refused without work proportional to the stated range:
	// with End = 2^40 the unguarded path builds 2^20 leaf ranges (tens of MB) before failing, with
	// End = 2^63-1 it needs 2^31 of them (more than 30 GB) and the process dies. Allocation volume is
	// measured instead of time, so the witness is deterministic and cheap.
	{
		bl := blobs[len(blobs)-1]
		cp, err := svc.GetCommitmentProof(ctx, blk.Height, bl.NS, bl.Commitment)
		if err != nil {
			t.Fatalf("VERIF-INFRA: GetCommitmentProof: %v", err)
		}
		end := 1 << 40
		if os.Getenv("C12_PROBE_HUGE") != "" {
			end = 1<<63 - 1 // manual probe only; run under an address-space limit (prlimit --as=...)
		}
		p := c12CloneCP(cp)
		p.SubtreeRootProofs[0] = c12WithNodes(p.SubtreeRootProofs[0], 0, end, p.SubtreeRootProofs[0].Nodes())
		var before, after runtime.MemStats
		runtime.ReadMemStats(&before)
		verr, vpan := c12VerifyCP(p, blk.DataRoot, bl.Commitment)
		runtime.ReadMemStats(&after)
		alloc := after.TotalAlloc - before.TotalAlloc
		vk.Record("witness commitment absurd-range", []string{"witness=commitment"}, true, nil)
		vk.Count("witness_absurd_range_alloc_bytes", int64(alloc))
		switch {
		case vpan != nil:
			fail("C12 commitment-proof: Verify panicked (%v) on a subtree-root proof with leaf range [0,2^40)", vpan)
		case verr == nil:
			fail("C12 commitment-proof: Verify accepted a subtree-root proof with leaf range [0,2^40)")
		case alloc > 4<<20:
			fail("C12 commitment-proof: Verify allocated %d MB before refusing a subtree-root proof whose stated leaf range [0,2^40) cannot exist in any square (a row has at most %d leaves); the work grows with the stated range: End=2^63-1 needs 2^31 leaf ranges (> 30 GB) and the process is killed instead of an error being returned",
				alloc>>20, 2*appconsts.SquareSizeUpperBound)
		}
	}
	if len(failures) > 0 {
		if dir := os.Getenv("VERIF_REPLAY_DIR"); dir != "" {
			_ = os.WriteFile(filepath.Join(dir, "c12-blob-witnesses.txt"), []byte(strings.Join(failures, "\n")+"\n"), 0o644)
		}
		t.Fatalf("%d fixed witness(es) fail:\n%s", len(failures), strings.Join(failures, "\n"))
	}
}
