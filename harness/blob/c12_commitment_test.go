package blob

// C12 — proofs handed to clients verify, and only for what they claim (blob package part):
// commitment proofs (GetCommitmentProof / ProveCommitment -> CommitmentProof.Verify) and the blob
// inclusion check (GetProof -> Included -> Proof.equal).
// Harness file of /verif (injected by overlay; not part of celestia-node).

import (
	"bytes"
	"context"
	"crypto/sha256"
	"encoding/json"
	"fmt"
	"os"
	"testing"

	pkgproof "github.com/celestiaorg/celestia-app/v9/pkg/proof"
	gsmerkle "github.com/celestiaorg/go-square/merkle"
	libshare "github.com/celestiaorg/go-square/v4/share"
	"github.com/celestiaorg/nmt"
	logging "github.com/ipfs/go-log/v2"
	"pgregory.net/rapid"

	vk "github.com/celestiaorg/celestia-node/internal/verifkit"
)

// ---------------------------------------------------------------------------------------------
// copies and list tampering

func c12CloneBytes(xs [][]byte) [][]byte {
	if xs == nil {
		return nil
	}
	out := make([][]byte, len(xs))
	for i, x := range xs {
		if x != nil {
			out[i] = append([]byte{}, x...)
		}
	}
	return out
}

func c12CloneNMT(p *nmt.Proof) *nmt.Proof {
	if p == nil {
		return nil
	}
	var c nmt.Proof
	if p.IsOfAbsence() {
		c = nmt.NewAbsenceProof(p.Start(), p.End(), c12CloneBytes(p.Nodes()), append([]byte(nil), p.LeafHash()...), p.IsMaxNamespaceIDIgnored())
	} else {
		c = nmt.NewInclusionProof(p.Start(), p.End(), c12CloneBytes(p.Nodes()), p.IsMaxNamespaceIDIgnored())
	}
	return &c
}

func c12CloneRowProofEntry(p *pkgproof.Proof) *pkgproof.Proof {
	if p == nil {
		return nil
	}
	return &pkgproof.Proof{Total: p.Total, Index: p.Index, LeafHash: append([]byte(nil), p.LeafHash...), Aunts: c12CloneBytes(p.Aunts)}
}

func c12CloneCP(p *CommitmentProof) *CommitmentProof {
	c := &CommitmentProof{
		SubtreeRoots:     c12CloneBytes(p.SubtreeRoots),
		NamespaceID:      append([]byte(nil), p.NamespaceID...),
		NamespaceVersion: p.NamespaceVersion,
	}
	for _, sp := range p.SubtreeRootProofs {
		c.SubtreeRootProofs = append(c.SubtreeRootProofs, c12CloneNMT(sp))
	}
	c.RowProof.RowRoots = c12CloneBytes(p.RowProof.RowRoots)
	for _, rp := range p.RowProof.Proofs {
		c.RowProof.Proofs = append(c.RowProof.Proofs, c12CloneRowProofEntry(rp))
	}
	c.RowProof.StartRow, c.RowProof.EndRow = p.RowProof.StartRow, p.RowProof.EndRow
	c.RowProof.Root = append([]byte(nil), p.RowProof.Root...)
	return c
}

func c12WithNodes(p *nmt.Proof, start, end int, nodes [][]byte) *nmt.Proof {
	n := nmt.NewInclusionProof(start, end, nodes, p.IsMaxNamespaceIDIgnored())
	return &n
}

// c12Claim is what is handed to Verify.
type c12Claim struct {
	P          *CommitmentProof
	Root, Com  []byte
	BlockOfTop *c12Block // block whose reference decides the claim
}

// c12TamperCP applies one tampering to a copy of the honest claim. donor is the commitment proof of
// another blob (same or sibling block; may be nil), donorCom its commitment, otherRoot the data root
// of a sibling block (may be nil).
func c12TamperCP(t *rapid.T, honest *CommitmentProof, root, com []byte, donor *CommitmentProof, donorCom, otherRoot []byte) (c12Claim, string) {
	p := c12CloneCP(honest)
	cl := c12Claim{P: p, Root: append([]byte(nil), root...), Com: append([]byte(nil), com...)}
	if donor == nil {
		donor = &CommitmentProof{}
	}
	pickSP := func() int { return rapid.IntRange(0, len(p.SubtreeRootProofs)-1).Draw(t, "sp.i") }
	pickRP := func() int { return rapid.IntRange(0, len(p.RowProof.Proofs)-1).Draw(t, "rp.i") }
	group := rapid.SampledFrom([]string{
		"subtree-roots", "subtree-roots", "sp-list", "sp-range", "sp-nodes", "row-roots", "row-proofs-list",
		"row-proof-fields", "row-aunts", "rows-startend", "commitment", "data-root", "ns-field", "whole-donor",
	}).Draw(t, "group")
	op := ""
	// a second tampering may meet lists the first one emptied or nil-ed: fall back to a list tampering
	usableSP := len(p.SubtreeRootProofs) > 0
	for _, x := range p.SubtreeRootProofs {
		usableSP = usableSP && x != nil
	}
	usableRP := len(p.RowProof.Proofs) > 0
	for _, x := range p.RowProof.Proofs {
		usableRP = usableRP && x != nil
	}
	switch {
	case !usableSP && (group == "sp-list" || group == "sp-range" || group == "sp-nodes"):
		group = "subtree-roots"
	case !usableRP && (group == "row-proofs-list" || group == "row-proof-fields" || group == "row-aunts"):
		group = "row-roots"
	case group == "commitment" && len(cl.Com) < 2, group == "data-root" && (len(cl.Root) < 2 || len(p.RowProof.RowRoots) == 0):
		group = "subtree-roots"
	}
	switch group {
	case "subtree-roots":
		p.SubtreeRoots, op = vk.C12MutList(t, "str", p.SubtreeRoots, donor.SubtreeRoots)
		if rapid.Bool().Draw(t, "str.rehash") {
			// consistent forgery: the claimed commitment is recomputed over the tampered roots, so
			// only the "every subtree root is consumed by a verified proof" logic can refuse it
			cl.Com = gsmerkle.HashFromByteSlices(p.SubtreeRoots)
			op += "+rehash"
		}
	case "sp-list":
		op = rapid.SampledFrom([]string{"append-dup", "append-donor", "drop-first", "drop-last", "swap", "nil-elem", "empty", "all-donor"}).Draw(t, "sp.op")
		switch op {
		case "append-dup":
			p.SubtreeRootProofs = append(p.SubtreeRootProofs, c12CloneNMT(p.SubtreeRootProofs[len(p.SubtreeRootProofs)-1]))
		case "append-donor":
			if len(donor.SubtreeRootProofs) > 0 {
				p.SubtreeRootProofs = append(p.SubtreeRootProofs, c12CloneNMT(donor.SubtreeRootProofs[0]))
			} else {
				p.SubtreeRootProofs = append(p.SubtreeRootProofs, nil)
			}
		case "drop-first":
			p.SubtreeRootProofs = p.SubtreeRootProofs[1:]
		case "drop-last":
			p.SubtreeRootProofs = p.SubtreeRootProofs[:len(p.SubtreeRootProofs)-1]
		case "swap":
			i, j := pickSP(), rapid.IntRange(0, len(p.SubtreeRootProofs)-1).Draw(t, "sp.j")
			p.SubtreeRootProofs[i], p.SubtreeRootProofs[j] = p.SubtreeRootProofs[j], p.SubtreeRootProofs[i]
		case "nil-elem":
			p.SubtreeRootProofs[pickSP()] = nil
		case "empty":
			p.SubtreeRootProofs = nil
		case "all-donor":
			p.SubtreeRootProofs = c12CloneCP(donor).SubtreeRootProofs
		}
	case "sp-range":
		i := pickSP()
		sp := p.SubtreeRootProofs[i]
		op = rapid.SampledFrom([]string{"start-1", "start+1", "end-1", "end+1", "shift+1", "shift-1", "empty", "inverted", "negative", "huge"}).Draw(t, "spr.op")
		s, e := sp.Start(), sp.End()
		switch op {
		case "start-1":
			s--
		case "start+1":
			s++
		case "end-1":
			e--
		case "end+1":
			e++
		case "shift+1":
			s, e = s+1, e+1
		case "shift-1":
			s, e = s-1, e-1
		case "empty":
			e = s
		case "inverted":
			s, e = e, s
		case "negative":
			s, e = -e, -s
		case "huge":
			e = 1 << rapid.IntRange(20, 40).Draw(t, "spr.huge")
		}
		p.SubtreeRootProofs[i] = c12WithNodes(sp, s, e, sp.Nodes())
	case "sp-nodes":
		i := pickSP()
		sp := p.SubtreeRootProofs[i]
		var dn [][]byte
		if len(donor.SubtreeRootProofs) > 0 && donor.SubtreeRootProofs[0] != nil {
			dn = donor.SubtreeRootProofs[0].Nodes()
		}
		var nodes [][]byte
		nodes, op = vk.C12MutList(t, "spn", sp.Nodes(), dn)
		p.SubtreeRootProofs[i] = c12WithNodes(sp, sp.Start(), sp.End(), nodes)
	case "row-roots":
		p.RowProof.RowRoots, op = vk.C12MutList(t, "rr", p.RowProof.RowRoots, donor.RowProof.RowRoots)
	case "row-proofs-list":
		op = rapid.SampledFrom([]string{"append-dup", "append-donor", "drop-first", "drop-last", "swap", "nil-elem", "empty", "all-donor"}).Draw(t, "rp.op")
		switch op {
		case "append-dup":
			p.RowProof.Proofs = append(p.RowProof.Proofs, c12CloneRowProofEntry(p.RowProof.Proofs[len(p.RowProof.Proofs)-1]))
		case "append-donor":
			if len(donor.RowProof.Proofs) > 0 {
				p.RowProof.Proofs = append(p.RowProof.Proofs, c12CloneRowProofEntry(donor.RowProof.Proofs[0]))
			} else {
				p.RowProof.Proofs = append(p.RowProof.Proofs, nil)
			}
		case "drop-first":
			p.RowProof.Proofs = p.RowProof.Proofs[1:]
		case "drop-last":
			p.RowProof.Proofs = p.RowProof.Proofs[:len(p.RowProof.Proofs)-1]
		case "swap":
			i, j := pickRP(), rapid.IntRange(0, len(p.RowProof.Proofs)-1).Draw(t, "rp.j")
			p.RowProof.Proofs[i], p.RowProof.Proofs[j] = p.RowProof.Proofs[j], p.RowProof.Proofs[i]
		case "nil-elem":
			p.RowProof.Proofs[pickRP()] = nil
		case "empty":
			p.RowProof.Proofs = nil
		case "all-donor":
			p.RowProof.Proofs = c12CloneCP(donor).RowProof.Proofs
		}
	case "row-proof-fields":
		rp := p.RowProof.Proofs[pickRP()]
		op = rapid.SampledFrom([]string{"index+1", "index-1", "index-neg", "total+1", "total-1", "total-neg", "total-huge", "leafhash-flip", "leafhash-nil", "leafhash-short"}).Draw(t, "rpf.op")
		switch op {
		case "index+1":
			rp.Index++
		case "index-1":
			rp.Index--
		case "index-neg":
			rp.Index = -rp.Index - 1
		case "total+1":
			rp.Total++
		case "total-1":
			rp.Total--
		case "total-neg":
			rp.Total = -rp.Total
		case "total-huge":
			rp.Total = 1 << 62
		case "leafhash-flip":
			if len(rp.LeafHash) > 0 {
				rp.LeafHash[rapid.IntRange(0, len(rp.LeafHash)-1).Draw(t, "rpf.pos")] ^= 0x10
			}
		case "leafhash-nil":
			rp.LeafHash = nil
		case "leafhash-short":
			rp.LeafHash = rp.LeafHash[:len(rp.LeafHash)/2]
		}
	case "row-aunts":
		rp := p.RowProof.Proofs[pickRP()]
		var da [][]byte
		if len(donor.RowProof.Proofs) > 0 && donor.RowProof.Proofs[0] != nil {
			da = donor.RowProof.Proofs[0].Aunts
		}
		rp.Aunts, op = vk.C12MutList(t, "aunts", rp.Aunts, da)
	case "rows-startend":
		op = rapid.SampledFrom([]string{"widen-end", "widen-start", "narrow-end", "narrow-start", "shift+1", "shift-1", "max"}).Draw(t, "se.op")
		switch op {
		case "widen-end":
			p.RowProof.EndRow++
		case "widen-start":
			p.RowProof.StartRow--
		case "narrow-end":
			p.RowProof.EndRow--
		case "narrow-start":
			p.RowProof.StartRow++
		case "shift+1":
			p.RowProof.StartRow, p.RowProof.EndRow = p.RowProof.StartRow+1, p.RowProof.EndRow+1
		case "shift-1":
			p.RowProof.StartRow, p.RowProof.EndRow = p.RowProof.StartRow-1, p.RowProof.EndRow-1
		case "max":
			p.RowProof.StartRow, p.RowProof.EndRow = 0, ^uint32(0)
		}
	case "commitment":
		op = rapid.SampledFrom([]string{"other-blob", "random", "flip", "truncate", "extend", "nil"}).Draw(t, "com.op")
		switch op {
		case "other-blob":
			if len(donorCom) > 0 && !bytes.Equal(donorCom, com) {
				cl.Com = append([]byte(nil), donorCom...)
			} else {
				h := sha256.Sum256(com)
				cl.Com, op = h[:], "hash-of-commitment"
			}
		case "random":
			cl.Com = rapid.SliceOfN(rapid.Byte(), 32, 32).Draw(t, "com.rnd")
		case "flip":
			cl.Com[rapid.IntRange(0, len(cl.Com)-1).Draw(t, "com.pos")] ^= 1 << uint(rapid.IntRange(0, 7).Draw(t, "com.bit"))
		case "truncate":
			cl.Com = cl.Com[:rapid.IntRange(1, len(cl.Com)-1).Draw(t, "com.cut")]
		case "extend":
			cl.Com = append(cl.Com, 0)
		case "nil":
			cl.Com = nil
		}
	case "data-root":
		op = rapid.SampledFrom([]string{"sibling-block", "random", "flip", "truncate", "nil", "row-root"}).Draw(t, "root.op")
		switch op {
		case "sibling-block":
			if len(otherRoot) > 0 && !bytes.Equal(otherRoot, root) {
				cl.Root = append([]byte(nil), otherRoot...)
			} else {
				h := sha256.Sum256(root)
				cl.Root, op = h[:], "hash-of-root"
			}
		case "random":
			cl.Root = rapid.SliceOfN(rapid.Byte(), 32, 32).Draw(t, "root.rnd")
		case "flip":
			cl.Root[rapid.IntRange(0, len(cl.Root)-1).Draw(t, "root.pos")] ^= 1 << uint(rapid.IntRange(0, 7).Draw(t, "root.bit"))
		case "truncate":
			cl.Root = cl.Root[:rapid.IntRange(1, len(cl.Root)-1).Draw(t, "root.cut")]
		case "nil":
			cl.Root = nil
		case "row-root":
			cl.Root = append([]byte(nil), p.RowProof.RowRoots[0]...)
		}
	case "ns-field":
		op = rapid.SampledFrom([]string{"id-flip", "id-nil", "version"}).Draw(t, "nsf.op")
		switch op {
		case "id-flip":
			if len(p.NamespaceID) > 0 {
				p.NamespaceID[len(p.NamespaceID)-1] ^= 0xFF
			}
		case "id-nil":
			p.NamespaceID = nil
		case "version":
			p.NamespaceVersion ^= 0xFF
		}
	case "whole-donor":
		op = "other-proof-this-commitment"
		cl.P = c12CloneCP(donor)
	}
	return cl, group + "/" + op
}

// c12VerifyCP calls the code under test and converts a panic into a reported outcome.
func c12VerifyCP(p *CommitmentProof, root, com []byte) (err error, panicked any) {
	defer func() {
		if r := recover(); r != nil {
			panicked = r
		}
	}()
	return p.Verify(root, com), nil
}

func c12ValidateCP(p *CommitmentProof) (ok bool) {
	defer func() {
		if r := recover(); r != nil {
			ok = false
		}
	}()
	return p.Validate() == nil
}

func c12DescribeCP(p *CommitmentProof) string {
	var b bytes.Buffer
	fmt.Fprintf(&b, "{subtreeRoots=%d rows=[%d,%d] rowRoots=%d rowProofs=[", len(p.SubtreeRoots), p.RowProof.StartRow, p.RowProof.EndRow, len(p.RowProof.RowRoots))
	for _, rp := range p.RowProof.Proofs {
		if rp == nil {
			b.WriteString("nil ")
			continue
		}
		fmt.Fprintf(&b, "(idx=%d total=%d aunts=%d) ", rp.Index, rp.Total, len(rp.Aunts))
	}
	b.WriteString("] subtreeRootProofs=[")
	for _, sp := range p.SubtreeRootProofs {
		if sp == nil {
			b.WriteString("nil ")
			continue
		}
		fmt.Fprintf(&b, "([%d,%d) nodes=%d) ", sp.Start(), sp.End(), len(sp.Nodes()))
	}
	b.WriteString("]}")
	return b.String()
}

// c12CheckHonestCP: the proof the node produced for (ns, commitment) verifies against the block's
// data root for that commitment, states a true claim by the reference, and points at the position
// the builder gave to a blob with that commitment.
func c12CheckHonestCP(t *rapid.T, blk *c12Block, bl c12Blob, p *CommitmentProof) {
	if err, pan := c12VerifyCP(p, blk.DataRoot, bl.Commitment); pan != nil || err != nil {
		t.Fatalf("C12 commitment-proof: the node's own proof for blob@%d (%d shares, ods %d) must verify against the block's data root for the blob's commitment; got err=%v panic=%v; proof %s; block %s",
			bl.Start, bl.NumShares, blk.ODS, err, pan, c12DescribeCP(p), blk.Desc())
	}
	if ok, why := blk.c12ClaimHolds(p, blk.DataRoot, bl.Commitment); !ok {
		t.Fatalf("C12 commitment-proof: the node's own proof for blob@%d does not state a true claim about the block (%s); proof %s; block %s",
			bl.Start, why, c12DescribeCP(p), blk.Desc())
	}
	// position: one of the occurrences of this (namespace, commitment)
	match := false
	for _, o := range blk.occurrences(bl.NS, bl.Commitment) {
		r0, r1 := o.rows(blk.ODS)
		if int(p.RowProof.StartRow) != r0 || int(p.RowProof.EndRow) != r1 || len(p.SubtreeRootProofs) != r1-r0+1 {
			continue
		}
		ok := true
		for i, sp := range p.SubtreeRootProofs {
			ws, we := 0, blk.ODS
			if i == 0 {
				ws = o.Start % blk.ODS
			}
			if i == r1-r0 {
				we = (o.Start+o.NumShares-1)%blk.ODS + 1
			}
			if sp.Start() != ws || sp.End() != we || p.RowProof.Proofs[i].Index != int64(r0+i) {
				ok = false
			}
		}
		if ok {
			match = true
		}
	}
	if !match {
		t.Fatalf("C12 commitment-proof: proof requested for blob@%d (%d shares, ods %d) covers other shares than any blob with that commitment: %s; block %s",
			bl.Start, bl.NumShares, blk.ODS, c12DescribeCP(p), blk.Desc())
	}
	if !bytes.Equal(p.NamespaceID, bl.NS.ID()) || p.NamespaceVersion != bl.NS.Version() {
		t.Fatalf("C12 commitment-proof: proof names namespace %x/%d, requested %x/%d", p.NamespaceID, p.NamespaceVersion, bl.NS.ID(), bl.NS.Version())
	}
}

func c12RowsLabel(blk *c12Block, bl c12Blob) string {
	r0, r1 := bl.rows(blk.ODS)
	switch r1 - r0 {
	case 0:
		return "rows=1"
	case 1:
		return "rows=2"
	default:
		return "rows=3+"
	}
}

// c12JudgeTampered applies the oracle to one tampered claim and records it.
func c12JudgeTampered(t *rapid.T, blk *c12Block, bl c12Blob, cl c12Claim, kind, descBase string) {
	if os.Getenv("C12_TRACE") != "" {
		fmt.Fprintf(os.Stderr, "C12_TRACE verify %s %s\n", kind, c12DescribeCP(cl.P))
	}
	err, pan := c12VerifyCP(cl.P, cl.Root, cl.Com)
	validates := c12ValidateCP(cl.P)
	outcome := "rejected"
	if pan != nil {
		outcome = "panic"
	} else if err == nil {
		outcome = "accepted"
	}
	grp := kind
	if i := bytes.IndexByte([]byte(kind), '/'); i >= 0 {
		grp = kind[:i]
	}
	labels := []string{"tamper=" + grp, "cp-outcome=" + outcome, c12RowsLabel(blk, bl), fmt.Sprintf("ods=%d", blk.ODS)}
	if validates {
		labels = append(labels, "cp-validate=pass")
	} else {
		labels = append(labels, "cp-validate=fail")
	}
	desc := fmt.Sprintf("%s blob@%d %s %s root=%x com=%x", descBase, bl.Start, kind, c12DescribeCP(cl.P), cl.Root, cl.Com)
	vk.Record(desc, labels, validates, func() any {
		return map[string]any{"block": blk.Desc(), "blob_start": bl.Start, "blob_shares": bl.NumShares, "tamper": kind, "proof": c12DescribeCP(cl.P), "outcome": outcome}
	})
	if pan != nil {
		t.Fatalf("C12 commitment-proof: Verify must report malformed input as an error, but it panicked (%v) on tampering %q of the proof of blob@%d (%d shares, ods %d): %s",
			pan, kind, bl.Start, bl.NumShares, blk.ODS, c12DescribeCP(cl.P))
	}
	if err == nil {
		if ok, why := blk.c12ClaimHolds(cl.P, cl.Root, cl.Com); !ok {
			t.Fatalf("C12 commitment-proof: Verify accepted a tampered proof (%q, blob@%d, %d shares, ods %d) whose claim does not hold for the reference square (%s): %s root=%x commitment=%x; block %s",
				kind, bl.Start, bl.NumShares, blk.ODS, why, c12DescribeCP(cl.P), cl.Root, cl.Com, blk.Desc())
		}
		vk.Count("cp_tampered_accepted_semantically_equal", 1)
		vk.Count("cp_accepted_equal:"+grp, 1)
	}
}

// TestVerifC12_CommitmentProof: every commitment proof the service produces verifies for the
// blob's commitment and the block's data root and points at the blob; no tampered proof / root /
// commitment is accepted unless what it states is true for the reference square; never a panic.
func TestVerifC12_CommitmentProof(t *testing.T) {
	defer vk.Flush()
	c12Quiet()
	ctx := context.Background()
	rapid.Check(t, func(t *rapid.T) {
		blk := c12GenBlock(t, "blk", 1, 8, 7)
		if err := blk.c12SelfCheck(); err != nil {
			t.Fatalf("VERIF-INFRA: %v", err)
		}
		var sib *c12Block
		if rapid.IntRange(0, 3).Draw(t, "withSibling") == 0 {
			sib = c12GenBlock(t, "sib", 1, 4, 8)
		}
		svc := c12Service(blk)
		if sib != nil {
			svc = c12Service(blk, sib)
		}
		bi := rapid.IntRange(0, len(blk.Blobs)-1).Draw(t, "blob")
		bl := blk.Blobs[bi]
		honest, err := svc.GetCommitmentProof(ctx, blk.Height, bl.NS, bl.Commitment)
		if err != nil {
			t.Fatalf("C12 commitment-proof: GetCommitmentProof failed for a blob of the block (blob@%d, %d shares, ods %d): %v; block %s",
				bl.Start, bl.NumShares, blk.ODS, err, blk.Desc())
		}
		c12CheckHonestCP(t, blk, bl, honest)
		multi := c12RowsLabel(blk, bl) != "rows=1"
		vk.Record(fmt.Sprintf("%s honest blob@%d", blk.Desc(), bl.Start),
			[]string{"kind=honest-cp", c12RowsLabel(blk, bl), fmt.Sprintf("ods=%d", blk.ODS), "blobclass=" + bl.Class, fmt.Sprintf("sharever=%d", bl.Lib.ShareVersion())},
			multi, func() any {
				return map[string]any{"block": blk.Desc(), "blob_start": bl.Start, "blob_shares": bl.NumShares, "proof": c12DescribeCP(honest)}
			})
		// a proof emptied of every component proves nothing: it must not verify for the commitment
		// "hash of no subtree roots" against this (or any) data root, in any of the row-range shapes
		// an empty proof can be given
		emptyCom := gsmerkle.HashFromByteSlices(nil)
		for _, shape := range [][2]uint32{{honest.RowProof.StartRow, honest.RowProof.EndRow}, {honest.RowProof.EndRow + 1, honest.RowProof.EndRow}, {1, 0}, {0, 0}} {
			e := c12CloneCP(honest)
			e.SubtreeRoots, e.SubtreeRootProofs = nil, nil
			e.RowProof.RowRoots, e.RowProof.Proofs = nil, nil
			e.RowProof.StartRow, e.RowProof.EndRow = shape[0], shape[1]
			for _, root := range [][]byte{blk.DataRoot, bytes.Repeat([]byte{0x5A}, 32)} {
				err, pan := c12VerifyCP(e, root, emptyCom)
				vk.Count("cp_emptied_proofs_judged", 1)
				if pan != nil {
					t.Fatalf("C12 commitment-proof: Verify panicked (%v) on a proof emptied of all components (rows %d..%d)", pan, shape[0], shape[1])
				}
				if err == nil {
					t.Fatalf("C12 commitment-proof: a proof with no subtree roots, no subtree proofs and no rows (row range %d..%d) verified for commitment %x against data root %x: an empty proof commits to nothing",
						shape[0], shape[1], emptyCom, root)
				}
			}
		}
		// JSON round trip of the honest proof keeps it valid
		js, err := json.Marshal(honest)
		if err != nil {
			t.Fatalf("C12 commitment-proof: honest proof does not marshal: %v", err)
		}
		var back CommitmentProof
		if err := json.Unmarshal(js, &back); err != nil {
			t.Fatalf("C12 commitment-proof: honest proof does not survive its own JSON form: %v", err)
		}
		if err, pan := c12VerifyCP(&back, blk.DataRoot, bl.Commitment); err != nil || pan != nil {
			t.Fatalf("C12 commitment-proof: honest proof decoded from its JSON form no longer verifies: err=%v panic=%v", err, pan)
		}

		// donor: proof of another blob (same block, or sibling block)
		var donor *CommitmentProof
		var donorCom, otherRoot []byte
		if sib != nil {
			otherRoot = sib.DataRoot
		}
		if sib != nil && rapid.Bool().Draw(t, "donorFromSibling") {
			d := sib.Blobs[rapid.IntRange(0, len(sib.Blobs)-1).Draw(t, "sibBlob")]
			donor, err = svc.GetCommitmentProof(ctx, sib.Height, d.NS, d.Commitment)
			donorCom = d.Commitment
		} else if len(blk.Blobs) > 1 {
			d := blk.Blobs[(bi+1+rapid.IntRange(0, len(blk.Blobs)-2).Draw(t, "donorBlob"))%len(blk.Blobs)]
			donor, err = svc.GetCommitmentProof(ctx, blk.Height, d.NS, d.Commitment)
			donorCom = d.Commitment
		}
		if err != nil {
			t.Fatalf("C12 commitment-proof: GetCommitmentProof failed for a donor blob: %v; block %s", err, blk.Desc())
		}
		// the honest proof must not verify for another blob's (different) commitment or another root
		if donorCom != nil && !bytes.Equal(donorCom, bl.Commitment) {
			if err, pan := c12VerifyCP(honest, blk.DataRoot, donorCom); err == nil || pan != nil {
				t.Fatalf("C12 commitment-proof: proof of blob@%d verified for the commitment of another blob (err=%v panic=%v)", bl.Start, err, pan)
			}
		}
		if otherRoot != nil && !bytes.Equal(otherRoot, blk.DataRoot) {
			if err, pan := c12VerifyCP(honest, otherRoot, bl.Commitment); err == nil || pan != nil {
				t.Fatalf("C12 commitment-proof: proof of blob@%d verified against the data root of another block (err=%v panic=%v)", bl.Start, err, pan)
			}
		}

		nt := rapid.IntRange(2, 4).Draw(t, "ntamper")
		for k := 0; k < nt; k++ {
			if rapid.IntRange(0, 7).Draw(t, "viaJSON") == 0 {
				mut, mk := vk.C12MutateJSON(t, "json", js)
				var dec CommitmentProof
				if err := c12DecodeCP(mut, &dec); err != nil {
					vk.Record(fmt.Sprintf("%s json %x", blk.Desc(), mut), []string{"tamper=json", "json=undecodable"}, false, nil)
					continue
				}
				c12JudgeTampered(t, blk, bl, c12Claim{P: &dec, Root: blk.DataRoot, Com: bl.Commitment}, "json/"+mk, blk.Desc())
				continue
			}
			cl, kind := c12TamperCP(t, honest, blk.DataRoot, bl.Commitment, donor, donorCom, otherRoot)
			if rapid.IntRange(0, 4).Draw(t, "second") == 0 {
				cl2, kind2 := c12TamperCP(t, cl.P, cl.Root, cl.Com, donor, donorCom, otherRoot)
				cl, kind = cl2, kind+"+"+kind2
			}
			c12JudgeTampered(t, blk, bl, cl, kind, blk.Desc())
		}
	})
}

// c12Quiet silences the service's per-call error logging (thousands of refused proofs).
func c12Quiet() { _ = logging.SetLogLevel("blob", "fatal") }

// c12DecodeCP decodes with the real UnmarshalJSON; a panic of the decoder is a failure of the
// "malformed input is an error" clause and is reported by the caller through the returned error
// being nil only for a clean decode.
func c12DecodeCP(data []byte, into *CommitmentProof) (err error) {
	defer func() {
		if r := recover(); r != nil {
			panic(fmt.Sprintf("C12 commitment-proof: UnmarshalJSON panicked on %q: %v", data, r))
		}
	}()
	return into.UnmarshalJSON(data)
}

// ---------------------------------------------------------------------------------------------
// Included / GetProof

// c12ProofEqualRef is the reference for "the supplied proof equals the node's own proof
// component-wise": same number of row proofs; per row the same range, the same node list
// (length and content) and the same leaf hash.
func c12ProofEqualRef(a, b Proof) bool {
	if len(a) != len(b) {
		return false
	}
	for i := range a {
		if a[i] == nil || b[i] == nil {
			return false
		}
		if a[i].Start() != b[i].Start() || a[i].End() != b[i].End() {
			return false
		}
		an, bn := a[i].Nodes(), b[i].Nodes()
		if len(an) != len(bn) {
			return false
		}
		for k := range an {
			if !bytes.Equal(an[k], bn[k]) {
				return false
			}
		}
		if !bytes.Equal(a[i].LeafHash(), b[i].LeafHash()) {
			return false
		}
	}
	return true
}

func c12CloneProof(p Proof) Proof {
	out := make(Proof, len(p))
	for i := range p {
		out[i] = c12CloneNMT(p[i])
	}
	return out
}

func c12DescribeProof(p Proof) string {
	var b bytes.Buffer
	b.WriteString("[")
	for _, x := range p {
		if x == nil {
			b.WriteString("nil ")
			continue
		}
		fmt.Fprintf(&b, "([%d,%d) nodes=%d leafHash=%d) ", x.Start(), x.End(), len(x.Nodes()), len(x.LeafHash()))
	}
	b.WriteString("]")
	return b.String()
}

func c12Included(svc *Service, h uint64, ns libshare.Namespace, p *Proof, com Commitment) (ok bool, err error, panicked any) {
	defer func() {
		if r := recover(); r != nil {
			panicked = r
		}
	}()
	ok, err = svc.Included(context.Background(), h, ns, p, com)
	return ok, err, nil
}

// c12TamperProof applies one tampering to a copy of the node's own proof.
func c12TamperProof(t *rapid.T, own, donor Proof) (Proof, string) {
	p := c12CloneProof(own)
	pick := func() int { return rapid.IntRange(0, len(p)-1).Draw(t, "ip.i") }
	op := rapid.SampledFrom([]string{
		"identity", "nodes", "nodes", "nodes", "append-dup", "append-donor", "append-nil", "drop-first", "drop-last", "swap",
		"nil-elem", "range", "leafhash", "all-donor", "empty",
	}).Draw(t, "ip.op")
	switch op {
	case "identity":
	case "nodes":
		i := pick()
		var dn [][]byte
		if len(donor) > 0 && donor[0] != nil {
			dn = donor[0].Nodes()
		}
		nodes, sub := vk.C12MutList(t, "ipn", p[i].Nodes(), dn)
		p[i] = c12WithNodes(p[i], p[i].Start(), p[i].End(), nodes)
		op += "/" + sub
	case "append-dup":
		p = append(p, c12CloneNMT(p[len(p)-1]))
	case "append-donor":
		if len(donor) > 0 {
			p = append(p, c12CloneNMT(donor[0]))
		} else {
			e := nmt.NewEmptyRangeProof(true)
			p = append(p, &e)
		}
	case "append-nil":
		p = append(p, nil)
	case "drop-first":
		p = p[1:]
	case "drop-last":
		p = p[:len(p)-1]
	case "swap":
		i, j := pick(), rapid.IntRange(0, len(p)-1).Draw(t, "ip.j")
		p[i], p[j] = p[j], p[i]
	case "nil-elem":
		p[pick()] = nil
	case "range":
		i := pick()
		s, e := p[i].Start(), p[i].End()
		sub := rapid.SampledFrom([]string{"start-1", "start+1", "end-1", "end+1", "shift"}).Draw(t, "ip.range")
		switch sub {
		case "start-1":
			s--
		case "start+1":
			s++
		case "end-1":
			e--
		case "end+1":
			e++
		default:
			s, e = s+1, e+1
		}
		p[i] = c12WithNodes(p[i], s, e, p[i].Nodes())
		op += "/" + sub
	case "leafhash":
		i := pick()
		lh := rapid.SliceOfN(rapid.Byte(), 1, 90).Draw(t, "ip.lh")
		n := nmt.NewAbsenceProof(p[i].Start(), p[i].End(), p[i].Nodes(), lh, true)
		p[i] = &n
	case "all-donor":
		p = c12CloneProof(donor)
	case "empty":
		p = Proof{}
	}
	return p, op
}

// c12VerifyOwnProof checks the node's own blob proof against the committed row roots with the
// trusted nmt verifier: one proof per row the blob spans, each proving the namespace's shares of
// that row (taken from the reference square) at the stated leaf range.
func c12VerifyOwnProof(t *rapid.T, blk *c12Block, bl c12Blob, p Proof) {
	occ := blk.occurrences(bl.NS, bl.Commitment)
	var why string
	for _, o := range occ {
		r0, r1 := o.rows(blk.ODS)
		if len(p) != r1-r0+1 {
			why = fmt.Sprintf("%d row proofs for a blob spanning rows %d..%d", len(p), r0, r1)
			continue
		}
		ok := true
		for i, np := range p {
			if np == nil {
				ok, why = false, "nil row proof"
				break
			}
			row := r0 + i
			// the proof covers all shares of the namespace in that row
			var leaves [][]byte
			first := -1
			for c := 0; c < blk.ODS; c++ {
				if bytes.Equal(blk.Ref[row][c][:libshare.NamespaceSize], bl.NS.Bytes()) {
					if first < 0 {
						first = c
					}
					leaves = append(leaves, blk.Ref[row][c])
				}
			}
			if np.Start() != first || np.End() != first+len(leaves) {
				ok, why = false, fmt.Sprintf("row %d: proof range [%d,%d), namespace occupies [%d,%d)", row, np.Start(), np.End(), first, first+len(leaves))
				break
			}
			if !np.VerifyInclusion(sha256.New(), bl.NS.Bytes(), leaves, blk.Roots.RowRoots[row]) {
				ok, why = false, fmt.Sprintf("row %d: nmt proof does not verify the namespace shares against the committed row root", row)
				break
			}
		}
		if ok {
			return
		}
	}
	t.Fatalf("C12 blob-proof: GetProof for blob@%d (%d shares, ods %d) does not prove the blob's rows: %s; proof %s; block %s",
		bl.Start, bl.NumShares, blk.ODS, why, c12DescribeProof(p), blk.Desc())
}

// TestVerifC12_Included: Included answers (true,nil) exactly for a blob of the block together
// with the node's own proof; a proof that differs in any component, an absent commitment or
// namespace never yields (true,nil); malformed proofs are errors, not panics.
func TestVerifC12_Included(t *testing.T) {
	defer vk.Flush()
	c12Quiet()
	ctx := context.Background()
	rapid.Check(t, func(t *rapid.T) {
		blk := c12GenBlock(t, "blk", 1, 8, 5)
		svc := c12Service(blk)
		bi := rapid.IntRange(0, len(blk.Blobs)-1).Draw(t, "blob")
		bl := blk.Blobs[bi]
		own, err := svc.GetProof(ctx, blk.Height, bl.NS, bl.Commitment)
		if err != nil || own == nil {
			t.Fatalf("C12 included: GetProof failed for a blob of the block (blob@%d, %d shares, ods %d): %v; block %s", bl.Start, bl.NumShares, blk.ODS, err, blk.Desc())
		}
		c12VerifyOwnProof(t, blk, bl, *own)
		ok, err, pan := c12Included(svc, blk.Height, bl.NS, own, bl.Commitment)
		if pan != nil || err != nil || !ok {
			t.Fatalf("C12 included: Included must answer (true,nil) for blob@%d with the node's own proof; got (%v, %v) panic=%v; block %s", bl.Start, ok, err, pan, blk.Desc())
		}
		multi := c12RowsLabel(blk, bl) != "rows=1"
		vk.Record(fmt.Sprintf("%s own-proof blob@%d", blk.Desc(), bl.Start),
			[]string{"kind=honest-included", c12RowsLabel(blk, bl), fmt.Sprintf("ods=%d", blk.ODS)}, multi, nil)

		var donor Proof
		if len(blk.Blobs) > 1 {
			d := blk.Blobs[(bi+1+rapid.IntRange(0, len(blk.Blobs)-2).Draw(t, "donorBlob"))%len(blk.Blobs)]
			dp, err := svc.GetProof(ctx, blk.Height, d.NS, d.Commitment)
			if err != nil {
				t.Fatalf("C12 included: GetProof failed for a donor blob: %v", err)
			}
			donor = *dp
		}

		nt := rapid.IntRange(2, 5).Draw(t, "ntamper")
		for k := 0; k < nt; k++ {
			switch rapid.IntRange(0, 9).Draw(t, "what") {
			case 0: // absent commitment / namespace, honest proof
				sub := rapid.SampledFrom([]string{"random-commitment", "other-namespace-commitment", "absent-namespace", "unknown-height", "nil-proof"}).Draw(t, "absent")
				ns, com, h := bl.NS, Commitment(bl.Commitment), blk.Height
				var pr *Proof = own
				wantAbsent := true
				switch sub {
				case "random-commitment":
					com = rapid.SliceOfN(rapid.Byte(), 32, 32).Draw(t, "rndcom")
				case "other-namespace-commitment":
					// a commitment that exists in the block, asked under a namespace that does not hold it
					found := false
					for _, o := range blk.Blobs {
						if !o.NS.Equals(bl.NS) && len(blk.occurrences(bl.NS, o.Commitment)) == 0 {
							com, found = o.Commitment, true
							break
						}
					}
					if !found {
						com = rapid.SliceOfN(rapid.Byte(), 32, 32).Draw(t, "rndcom")
					}
				case "absent-namespace":
					ns = rapid.SampledFrom([]libshare.Namespace{vk.LowNS(), vk.HighNS(), vk.OddNS(1), vk.OddNS(3), vk.BlobNS(5)}).Draw(t, "absns")
				case "unknown-height":
					h, wantAbsent = blk.Height+1, false
				case "nil-proof":
					pr, wantAbsent = nil, false
				}
				ok, err, pan := c12Included(svc, h, ns, pr, com)
				vk.Record(fmt.Sprintf("%s blob@%d %s ns=%s com=%x", blk.Desc(), bl.Start, sub, vk.NsShort(ns), com), []string{"included=" + sub}, false, nil)
				if pan != nil {
					t.Fatalf("C12 included: Included panicked (%v) for %s; block %s", pan, sub, blk.Desc())
				}
				if ok && err == nil {
					t.Fatalf("C12 included: Included answered (true,nil) for %s (namespace %s, commitment %x) although no such blob is in the block; block %s", sub, vk.NsShort(ns), com, blk.Desc())
				}
				if wantAbsent {
					if ok {
						t.Fatalf("C12 included: Included answered true (err=%v) for an absent blob (%s)", err, sub)
					}
					if err != nil {
						vk.Count("included_absent_answered_with_error", 1)
					}
				} else if err == nil {
					t.Fatalf("C12 included: Included must refuse %s with an error; got (%v,nil)", sub, ok)
				}
			case 1: // JSON form of the proof, byte-mutated, decoded with the real decoder
				js, err := json.Marshal(own)
				if err != nil {
					t.Fatalf("C12 included: own proof does not marshal: %v", err)
				}
				mut, mk := vk.C12MutateJSON(t, "pjson", js)
				var dec Proof
				if err := json.Unmarshal(mut, &dec); err != nil {
					vk.Record(fmt.Sprintf("%s pjson %x", blk.Desc(), mut), []string{"included=json-undecodable"}, false, nil)
					continue
				}
				c12JudgeIncluded(t, svc, blk, bl, *own, dec, "json/"+mk)
			default:
				tp, kind := c12TamperProof(t, *own, donor)
				c12JudgeIncluded(t, svc, blk, bl, *own, tp, kind)
			}
		}
	})
}

func c12JudgeIncluded(t *rapid.T, svc *Service, blk *c12Block, bl c12Blob, own, supplied Proof, kind string) {
	equal := c12ProofEqualRef(own, supplied)
	ok, err, pan := c12Included(svc, blk.Height, bl.NS, &supplied, bl.Commitment)
	outcome := "false-or-error"
	switch {
	case pan != nil:
		outcome = "panic"
	case ok && err == nil:
		outcome = "true"
	}
	grp := kind
	if i := bytes.IndexByte([]byte(kind), '/'); i >= 0 {
		grp = kind[:i]
	}
	eq := "included-equal=no"
	if equal {
		eq = "included-equal=yes"
	}
	// non-trivial: same number of row proofs as the node's own (passes the first structural step)
	vk.Record(fmt.Sprintf("%s blob@%d included %s %s", blk.Desc(), bl.Start, kind, c12DescribeProof(supplied)),
		[]string{"included-tamper=" + grp, "included-outcome=" + outcome, eq, c12RowsLabel(blk, bl)}, len(own) == len(supplied), func() any {
			return map[string]any{"block": blk.Desc(), "blob_start": bl.Start, "tamper": kind, "own": c12DescribeProof(own), "supplied": c12DescribeProof(supplied), "outcome": outcome}
		})
	if pan != nil {
		t.Fatalf("C12 included: Included must report a malformed proof as an error, but it panicked (%v): tampering %q of the proof of blob@%d (ods %d): own %s supplied %s; block %s",
			pan, kind, bl.Start, blk.ODS, c12DescribeProof(own), c12DescribeProof(supplied), blk.Desc())
	}
	if equal && !(ok && err == nil) {
		t.Fatalf("C12 included: supplied proof equals the node's own proof component-wise (%q) but Included answered (%v, %v); own %s supplied %s",
			kind, ok, err, c12DescribeProof(own), c12DescribeProof(supplied))
	}
	if !equal && ok && err == nil {
		t.Fatalf("C12 included: Included answered (true,nil) for a proof that differs from the node's own proof (tampering %q, blob@%d, ods %d): own %s supplied %s; block %s",
			kind, bl.Start, blk.ODS, c12DescribeProof(own), c12DescribeProof(supplied), blk.Desc())
	}
}

// ---------------------------------------------------------------------------------------------
// native fuzz target (thorough tier): JSON decoder feeding CommitmentProof.Verify

func c12FixedBlock() (*c12Block, []c12Blob, error) {
	ns := vk.BlobNS(1)
	mk := func(n int, fill byte) *libshare.Blob {
		b, err := libshare.NewBlob(ns, bytes.Repeat([]byte{fill}, n), libshare.ShareVersionZero, nil)
		if err != nil {
			panic(err)
		}
		return b
	}
	libs := []*libshare.Blob{mk(100, 1), mk(3000, 2), mk(9000, 3)}
	return c12FixedFromLibs(libs)
}

func FuzzVerifC12_CommitmentProofJSON(f *testing.F) {
	blk, blobs, err := c12FixedBlock()
	if err != nil {
		f.Fatalf("VERIF-INFRA: %v", err)
	}
	svc := c12Service(blk)
	target := blobs[len(blobs)-1]
	for _, b := range blobs {
		p, err := svc.GetCommitmentProof(context.Background(), blk.Height, b.NS, b.Commitment)
		if err != nil {
			f.Fatalf("VERIF-INFRA: %v", err)
		}
		js, _ := json.Marshal(p)
		f.Add(js)
	}
	f.Add([]byte(`{"subtree_roots":[null],"subtree_root_proofs":[null],"namespace_id":null,"row_proof":{"row_roots":[""],"proofs":[null],"start_row":0,"end_row":0},"namespace_version":0}`))
	f.Add([]byte(`{"subtree_root_proofs":[{"start":1,"end":0}],"row_proof":{"row_roots":["AA=="],"proofs":[{"total":-1}]}}`))
	f.Fuzz(func(t *testing.T, data []byte) {
		var p CommitmentProof
		if err := p.UnmarshalJSON(data); err != nil {
			return
		}
		for _, sp := range p.SubtreeRootProofs {
			// absurd leaf ranges are judged by the allocation-bounded fixed witness
			// (TestVerifC12_Witnesses); on a tree without the range guard they would make the
			// verifier allocate tens of GB and take the machine down with the fuzzing worker
			if sp != nil && (sp.End() > 1<<41 || sp.Start() < -(1<<41)) {
				return
			}
		}
		err, pan := c12VerifyCP(&p, blk.DataRoot, target.Commitment)
		if pan != nil {
			t.Fatalf("C12 commitment-proof: Verify panicked (%v) on decoded JSON %q", pan, data)
		}
		if err == nil {
			if ok, why := blk.c12ClaimHolds(&p, blk.DataRoot, target.Commitment); !ok {
				t.Fatalf("C12 commitment-proof: Verify accepted a decoded proof whose claim does not hold (%s): %q", why, data)
			}
		}
	})
}
