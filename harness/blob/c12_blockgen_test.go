package blob

// C12 — real-layout block generator, in-memory getter and reference model shared by the C12 tests
// of this package. Harness file of /verif (injected by overlay; not part of celestia-node).

import (
	"bytes"
	"context"
	"crypto/sha256"
	"errors"
	"fmt"
	"math/rand/v2"
	"sort"
	"strings"

	"github.com/celestiaorg/celestia-app/v9/pkg/appconsts"
	"github.com/celestiaorg/celestia-app/v9/pkg/da"
	gsmerkle "github.com/celestiaorg/go-square/merkle"
	square "github.com/celestiaorg/go-square/v4"
	"github.com/celestiaorg/go-square/v4/inclusion"
	libshare "github.com/celestiaorg/go-square/v4/share"
	gstx "github.com/celestiaorg/go-square/v4/tx"
	"github.com/celestiaorg/nmt"
	"github.com/celestiaorg/rsmt2d"
	"pgregory.net/rapid"

	"github.com/celestiaorg/celestia-node/header"
	vk "github.com/celestiaorg/celestia-node/internal/verifkit"
	"github.com/celestiaorg/celestia-node/share"
	"github.com/celestiaorg/celestia-node/share/eds"
	"github.com/celestiaorg/celestia-node/share/shwap"
)

// c12Blob is one generated blob together with where the real builder put it.
type c12Blob struct {
	Lib        *libshare.Blob
	NS         libshare.Namespace
	Tx, Idx    int    // index of the BlobTx in the tx list / of the blob inside the tx
	Start      int    // ODS row-major index of the first share (read back from the builder)
	NumShares  int    // shares occupied
	Commitment []byte // inclusion.CreateCommitment (go-square; trusted base)
	Class      string
}

// c12Block is a generated block laid out by the real go-square builder plus its reference model.
type c12Block struct {
	ODS      int
	Height   uint64
	Blobs    []c12Blob // sorted by Start
	NTxs     int
	EDS      *rsmt2d.ExtendedDataSquare
	Roots    *share.AxisRoots
	DataRoot []byte
	Ref      [][][]byte // Ref[row][col] over the whole EDS: the only thing oracles index into
	Header   *header.ExtendedHeader
	desc     string
}

func (b *c12Block) Desc() string { return b.desc }

// c12GenBlock draws a block. minBlobs..maxBlobs blobs, sizes from one byte to several rows,
// share versions 0/1, namespaces from a pool of four, byte-identical duplicates, blobs that only
// differ in their last byte, 1-4 blobs per BlobTx, 0-3 ordinary txs.
func c12GenBlock(t *rapid.T, label string, minBlobs, maxBlobs int, height uint64) *c12Block {
	n := rapid.IntRange(minBlobs, maxBlobs).Draw(t, label+".nblobs")
	seed := rapid.Uint64().Draw(t, label+".seed")
	rng := rand.New(rand.NewPCG(seed, 0xC12C12C12))
	var desc strings.Builder
	fmt.Fprintf(&desc, "h=%d seed=%d blobs=", height, seed)
	libs := make([]*libshare.Blob, 0, n)
	classes := make([]string, 0, n)
	for i := 0; i < n; i++ {
		kind := rapid.IntRange(0, 9).Draw(t, label+".bkind")
		if i > 0 && kind == 0 {
			// byte-identical duplicate of an earlier blob
			j := rapid.IntRange(0, i-1).Draw(t, label+".dupof")
			libs = append(libs, libs[j])
			classes = append(classes, "dup")
			fmt.Fprintf(&desc, "[dup%d]", j)
			continue
		}
		if i > 0 && kind == 1 {
			// same namespace, same length, same leading bytes, different last byte
			j := rapid.IntRange(0, i-1).Draw(t, label+".nearof")
			src := libs[j]
			data := append([]byte(nil), src.Data()...)
			data[len(data)-1] ^= 0x5A
			nb, err := libshare.NewBlob(src.Namespace(), data, src.ShareVersion(), src.Signer())
			if err != nil {
				t.Fatalf("VERIF-INFRA: near-duplicate blob: %v", err)
			}
			libs = append(libs, nb)
			classes = append(classes, "near")
			fmt.Fprintf(&desc, "[near%d]", j)
			continue
		}
		nsIdx := rapid.IntRange(0, 3).Draw(t, label+".ns")
		ver := uint8(rapid.IntRange(0, 1).Draw(t, label+".ver"))
		first := libshare.FirstSparseShareContentSize
		var signer []byte
		if ver == libshare.ShareVersionOne {
			first -= libshare.SignerSize
			signer = make([]byte, libshare.SignerSize)
			for k := range signer {
				signer[k] = byte(rng.Uint32())
			}
		}
		cont := libshare.ContinuationSparseShareContentSize
		var size int
		class := ""
		switch rapid.IntRange(0, 7).Draw(t, label+".size") {
		case 0:
			size, class = 1, "1B"
		case 1:
			size, class = first, "1share"
		case 2:
			size, class = first-1, "1share-1"
		case 3:
			size, class = first+1, "1share+1"
		case 4:
			size, class = first+cont*rapid.IntRange(1, 4).Draw(t, label+".sh")-rapid.IntRange(0, 1).Draw(t, label+".m"), "2-5shares"
		case 5:
			size, class = first+cont*rapid.IntRange(5, 19).Draw(t, label+".sh")-rapid.IntRange(0, 300).Draw(t, label+".m"), "6-20shares"
		case 6:
			size, class = first+cont*rapid.IntRange(20, 70).Draw(t, label+".sh")-rapid.IntRange(0, 300).Draw(t, label+".m"), "21-71shares"
		default:
			size, class = rapid.IntRange(1, 3000).Draw(t, label+".bytes"), "free"
		}
		data := make([]byte, size)
		for k := range data {
			data[k] = byte(rng.Uint32())
		}
		nb, err := libshare.NewBlob(vk.BlobNS(nsIdx), data, ver, signer)
		if err != nil {
			t.Fatalf("VERIF-INFRA: blob constructor refused generated blob: %v", err)
		}
		libs = append(libs, nb)
		classes = append(classes, class)
		fmt.Fprintf(&desc, "[ns%d v%d %dB]", nsIdx, ver, size)
	}
	// ordinary txs: bytes that are neither a BlobTx nor a cosmos Tx (first byte = field 0, wire type 7)
	nOrd := rapid.IntRange(0, 3).Draw(t, label+".nord")
	txs := make([][]byte, 0, nOrd+n)
	for i := 0; i < nOrd; i++ {
		ln := rapid.SampledFrom([]int{10, 200, 480, 900}).Draw(t, label+".ordlen")
		b := make([]byte, ln)
		for k := range b {
			b[k] = byte(rng.Uint32())
		}
		b[0] = 0x07
		txs = append(txs, b)
		fmt.Fprintf(&desc, " tx%d", ln)
	}
	// group blobs into BlobTxs
	slots := make([]c12Slot, n)
	desc.WriteString(" groups=")
	for i := 0; i < n; {
		g := rapid.IntRange(1, 4).Draw(t, label+".group")
		if i+g > n {
			g = n - i
		}
		inner := make([]byte, 40)
		for k := range inner {
			inner[k] = byte(rng.Uint32())
		}
		btx, err := gstx.MarshalBlobTx(inner, libs[i:i+g]...)
		if err != nil {
			t.Fatalf("VERIF-INFRA: MarshalBlobTx: %v", err)
		}
		for k := 0; k < g; k++ {
			slots[i+k] = c12Slot{tx: len(txs), idx: k}
		}
		txs = append(txs, btx)
		fmt.Fprintf(&desc, "%d,", g)
		i += g
	}
	blk, err := c12Assemble(txs, libs, slots, classes, height)
	if err != nil {
		t.Fatalf("VERIF-INFRA: %v", err)
	}
	blk.desc = desc.String()
	return blk
}

type c12Slot struct{ tx, idx int }

// c12Assemble lays the txs out with the real builder, reads the blob positions back from it and
// attaches the reference model.
func c12Assemble(txs [][]byte, libs []*libshare.Blob, slots []c12Slot, classes []string, height uint64) (*c12Block, error) {
	blk, err := c12BuildBlock(txs, height)
	if err != nil {
		return nil, fmt.Errorf("building the generated block failed: %w", err)
	}
	builder, err := square.NewBuilder(appconsts.SquareSizeUpperBound, appconsts.SubtreeRootThreshold, txs...)
	if err != nil {
		return nil, fmt.Errorf("go-square builder refused generated txs: %w", err)
	}
	if _, err := builder.Export(); err != nil {
		return nil, fmt.Errorf("go-square export failed: %w", err)
	}
	for i, lb := range libs {
		start, err := builder.FindBlobStartingIndex(slots[i].tx, slots[i].idx)
		if err != nil {
			return nil, fmt.Errorf("FindBlobStartingIndex: %w", err)
		}
		com, err := inclusion.CreateCommitment(lb, gsmerkle.HashFromByteSlices, appconsts.SubtreeRootThreshold)
		if err != nil {
			return nil, fmt.Errorf("CreateCommitment: %w", err)
		}
		blk.Blobs = append(blk.Blobs, c12Blob{
			Lib: lb, NS: lb.Namespace(), Tx: slots[i].tx, Idx: slots[i].idx, Start: start,
			NumShares:  libshare.SparseSharesNeeded(uint32(len(lb.Data())), lb.ShareVersion() == libshare.ShareVersionOne),
			Commitment: com, Class: classes[i],
		})
	}
	sort.SliceStable(blk.Blobs, func(i, j int) bool { return blk.Blobs[i].Start < blk.Blobs[j].Start })
	// the reference position must hold the blob's first share: cross-check builder vs. square
	for _, b := range blk.Blobs {
		r, c := b.Start/blk.ODS, b.Start%blk.ODS
		sh, err := libshare.NewShare(blk.Ref[r][c])
		if err != nil || !sh.Namespace().Equals(b.NS) || !sh.IsSequenceStart() || int(sh.SequenceLen()) != len(b.Lib.Data()) {
			return nil, fmt.Errorf("builder index %d does not hold the first share of its blob", b.Start)
		}
	}
	blk.NTxs = len(txs)
	return blk, nil
}

// c12FixedFromLibs builds a deterministic block: one BlobTx per blob, no ordinary txs.
func c12FixedFromLibs(libs []*libshare.Blob) (*c12Block, []c12Blob, error) {
	var txs [][]byte
	slots := make([]c12Slot, len(libs))
	classes := make([]string, len(libs))
	for i, lb := range libs {
		btx, err := gstx.MarshalBlobTx([]byte{0x07, byte(i)}, lb)
		if err != nil {
			return nil, nil, err
		}
		slots[i] = c12Slot{tx: len(txs), idx: 0}
		classes[i] = "fixed"
		txs = append(txs, btx)
	}
	blk, err := c12Assemble(txs, libs, slots, classes, 3)
	if err != nil {
		return nil, nil, err
	}
	blk.desc = "fixed block"
	return blk, blk.Blobs, nil
}

// c12BuildBlock lays txs out with the real builder (through celestia-app's ConstructEDS, as a
// bridge node does) and computes roots and the reference matrix.
func c12BuildBlock(txs [][]byte, height uint64) (*c12Block, error) {
	e, err := da.ConstructEDS(txs, appconsts.Version, -1)
	if err != nil {
		return nil, err
	}
	roots, err := share.NewAxisRoots(e)
	if err != nil {
		return nil, err
	}
	w := int(e.Width())
	ref := make([][][]byte, w)
	for r := 0; r < w; r++ {
		ref[r] = make([][]byte, w)
		for c := 0; c < w; c++ {
			ref[r][c] = append([]byte(nil), e.GetCell(uint(r), uint(c))...)
		}
	}
	blk := &c12Block{ODS: w / 2, Height: height, EDS: e, Roots: roots, DataRoot: roots.Hash(), Ref: ref}
	blk.Header = &header.ExtendedHeader{DAH: roots}
	blk.Header.RawHeader.Height = int64(height)
	blk.Header.RawHeader.DataHash = roots.Hash()
	return blk, nil
}

// rowsSpanned returns the first and last ODS row of a blob.
func (b c12Blob) rows(ods int) (int, int) { return b.Start / ods, (b.Start + b.NumShares - 1) / ods }

// ---- in-memory getter (what a store-backed getter does, over the generated EDS) ----

type c12Getter struct{ blocks map[uint64]*c12Block }

var _ shwap.Getter = (*c12Getter)(nil)

func (g *c12Getter) blk(h *header.ExtendedHeader) (*c12Block, error) {
	b, ok := g.blocks[h.Height()]
	if !ok {
		return nil, shwap.ErrNotFound
	}
	return b, nil
}

func (g *c12Getter) GetSamples(ctx context.Context, h *header.ExtendedHeader, idx []shwap.SampleCoords) ([]shwap.Sample, error) {
	b, err := g.blk(h)
	if err != nil {
		return nil, err
	}
	acc := &eds.Rsmt2D{ExtendedDataSquare: b.EDS}
	out := make([]shwap.Sample, len(idx))
	for i, c := range idx {
		s, err := acc.Sample(ctx, c)
		if err != nil {
			return nil, err
		}
		out[i] = s
	}
	return out, nil
}

func (g *c12Getter) GetEDS(_ context.Context, h *header.ExtendedHeader) (*rsmt2d.ExtendedDataSquare, error) {
	b, err := g.blk(h)
	if err != nil {
		return nil, err
	}
	return b.EDS, nil
}

func (g *c12Getter) GetRow(ctx context.Context, h *header.ExtendedHeader, rowIdx int) (shwap.Row, error) {
	b, err := g.blk(h)
	if err != nil {
		return shwap.Row{}, err
	}
	return (&eds.Rsmt2D{ExtendedDataSquare: b.EDS}).HalfRow(rowIdx, shwap.Left)
}

func (g *c12Getter) GetNamespaceData(ctx context.Context, h *header.ExtendedHeader, ns libshare.Namespace) (shwap.NamespaceData, error) {
	b, err := g.blk(h)
	if err != nil {
		return nil, err
	}
	return eds.NamespaceData(ctx, &eds.Rsmt2D{ExtendedDataSquare: b.EDS}, ns)
}

func (g *c12Getter) GetRangeNamespaceData(ctx context.Context, h *header.ExtendedHeader, from, to int) (shwap.RangeNamespaceData, error) {
	b, err := g.blk(h)
	if err != nil {
		return shwap.RangeNamespaceData{}, err
	}
	return (&eds.Rsmt2D{ExtendedDataSquare: b.EDS}).RangeNamespaceData(ctx, from, to)
}

// c12Service wires the real blob.Service over the generated blocks.
func c12Service(blocks ...*c12Block) *Service {
	g := &c12Getter{blocks: map[uint64]*c12Block{}}
	for _, b := range blocks {
		g.blocks[b.Height] = b
	}
	hg := func(_ context.Context, height uint64) (*header.ExtendedHeader, error) {
		b, ok := g.blocks[height]
		if !ok {
			return nil, errors.New("c12: header not found")
		}
		return b.Header, nil
	}
	sub := func(context.Context) (<-chan *header.ExtendedHeader, error) { return nil, errors.New("not used") }
	return NewService(nil, g, hg, sub)
}

// ---- reference model: NMT over one EDS axis, built from Ref with the trusted nmt package ----

// c12AxisTree builds the namespaced merkle tree of an EDS row (axis index < width) or column
// (axis index >= width) exactly as the data square commits to it: original-quadrant leaves are
// prefixed with their own namespace, all others with the parity namespace.
func (b *c12Block) c12AxisTree(axisIdx int) (*nmt.NamespacedMerkleTree, error) {
	w := 2 * b.ODS
	if axisIdx < 0 || axisIdx >= 2*w {
		return nil, fmt.Errorf("axis index %d outside [0,%d)", axisIdx, 2*w)
	}
	tree := nmt.New(sha256.New(), nmt.NamespaceIDSize(libshare.NamespaceSize), nmt.IgnoreMaxNamespace(true))
	for k := 0; k < w; k++ {
		r, c := axisIdx, k
		if axisIdx >= w {
			r, c = k, axisIdx-w
		}
		sh := b.Ref[r][c]
		prefix := libshare.ParitySharesNamespace.Bytes()
		if r < b.ODS && c < b.ODS {
			prefix = sh[:libshare.NamespaceSize]
		}
		if err := tree.Push(append(append([]byte(nil), prefix...), sh...)); err != nil {
			return nil, err
		}
	}
	return tree, nil
}

// axisRoot returns the committed root of an axis (rows first, then columns).
func (b *c12Block) axisRoot(axisIdx int) []byte {
	w := 2 * b.ODS
	if axisIdx < w {
		return b.Roots.RowRoots[axisIdx]
	}
	return b.Roots.ColumnRoots[axisIdx-w]
}

// c12SelfCheck makes sure the reference tree reproduces the committed row roots (harness sanity).
func (b *c12Block) c12SelfCheck() error {
	for _, r := range []int{0, b.ODS - 1, 2*b.ODS - 1, 2 * b.ODS, 4*b.ODS - 1} {
		tree, err := b.c12AxisTree(r)
		if err != nil {
			return err
		}
		root, err := tree.Root()
		if err != nil {
			return err
		}
		if !bytes.Equal(root, b.axisRoot(r)) {
			return fmt.Errorf("reference tree of axis %d does not reproduce the committed root", r)
		}
	}
	return nil
}

// c12ClaimHolds decides, from the reference square only, whether what a commitment proof states
// is true for (dataRoot, commitment) in block b: every listed row root is the committed root of
// the axis its merkle proof points at, the subtree roots are the roots of the stated leaf ranges
// of those axes (ADR-013 widths), and they hash to the commitment. It is the "semantically equal
// to an honest proof for the same claim" test of the oracle and never calls the code under test.
func (b *c12Block) c12ClaimHolds(p *CommitmentProof, dataRoot, commitment []byte) (bool, string) {
	if !bytes.Equal(dataRoot, b.DataRoot) {
		return false, "data root is not the block's"
	}
	n := len(p.SubtreeRootProofs)
	if n == 0 || len(p.RowProof.RowRoots) != n || len(p.RowProof.Proofs) != n {
		return false, "component counts differ"
	}
	total := 0
	for _, sp := range p.SubtreeRootProofs {
		if sp == nil {
			return false, "nil subtree root proof"
		}
		if sp.Start() < 0 || sp.End() <= sp.Start() || sp.End() > 2*b.ODS {
			return false, "leaf range outside the row"
		}
		total += sp.End() - sp.Start()
	}
	width, err := inclusion.SubTreeWidth(total, appconsts.SubtreeRootThreshold)
	if err != nil {
		return false, "no subtree width"
	}
	var want [][]byte
	for i, sp := range p.SubtreeRootProofs {
		mp := p.RowProof.Proofs[i]
		if mp == nil {
			return false, "nil row proof"
		}
		if mp.Index < 0 || mp.Index >= int64(4*b.ODS) {
			return false, "row proof index outside the root list"
		}
		if !bytes.Equal(p.RowProof.RowRoots[i], b.axisRoot(int(mp.Index))) {
			return false, "row root is not the committed root at the proof's index"
		}
		tree, err := b.c12AxisTree(int(mp.Index))
		if err != nil {
			return false, err.Error()
		}
		ranges, err := nmt.ToLeafRanges(sp.Start(), sp.End(), width)
		if err != nil {
			return false, "no leaf ranges"
		}
		for _, rg := range ranges {
			root, err := tree.ComputeSubtreeRoot(rg.Start, rg.End)
			if err != nil {
				return false, "range is not a subtree"
			}
			want = append(want, root)
		}
	}
	if len(want) != len(p.SubtreeRoots) {
		return false, "number of subtree roots differs from the stated ranges"
	}
	for i := range want {
		if !bytes.Equal(want[i], p.SubtreeRoots[i]) {
			return false, fmt.Sprintf("subtree root %d is not the root of its range", i)
		}
	}
	if !bytes.Equal(gsmerkle.HashFromByteSlices(p.SubtreeRoots), commitment) {
		return false, "subtree roots do not hash to the commitment"
	}
	return true, ""
}

// occurrences returns the blobs of the block with this namespace and commitment.
func (b *c12Block) occurrences(ns libshare.Namespace, com []byte) []c12Blob {
	var out []c12Blob
	for _, x := range b.Blobs {
		if x.NS.Equals(ns) && bytes.Equal(x.Commitment, com) {
			out = append(out, x)
		}
	}
	return out
}
