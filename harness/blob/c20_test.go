package blob

// C20 - blob subscriptions deliver every block once, in order, with the right blobs.
// Harness file of /verif (injected by overlay; not part of celestia-node).
//
// A rapid state machine owns the schedule of the real blob.Service.Subscribe: the header feed is a
// harness queue behind an unbuffered channel (the shape of nodebuilder/header Service.Subscribe),
// the shwap.Getter parks every GetNamespaceData call until the harness releases it with the real
// namespace data of the generated block or with an error, and the harness is the only reader of
// the subscription channel. Because every blocking point of the subscription loop is a fake, the
// model knows after every action where the loop is (idle in its select, parked in a retrieval,
// or finished) and how many responses sit unread in the channel.

import (
	"context"
	"errors"
	"fmt"
	"os"
	"runtime"
	"slices"
	"sort"
	"strings"
	"sync"
	"testing"
	"time"

	libshare "github.com/celestiaorg/go-square/v4/share"
	"github.com/celestiaorg/rsmt2d"
	"pgregory.net/rapid"

	"github.com/celestiaorg/celestia-node/header"
	vk "github.com/celestiaorg/celestia-node/internal/verifkit"
	"github.com/celestiaorg/celestia-node/share/eds"
	"github.com/celestiaorg/celestia-node/share/shwap"
)

const (
	// c20Buffer is the documented capacity of a subscription ("falls 16 responses behind").
	c20Buffer = 16
	// c20CloseBound: the stream has to end within this wall-clock time after an end cause. The
	// work to be done is a handful of channel operations (microseconds), so the bound is 5-6
	// orders of magnitude above it.
	c20CloseBound = 5 * time.Second
	// c20Watchdog bounds waits for the next step of the subscription loop that the model
	// predicts (take the offered header, start / retry the retrieval, queue the response).
	c20Watchdog = 20 * time.Second
)

// Signatures of the two shapes this check found on the pinned tree (see TestVerifC20_Witnesses).
const (
	// after Service.Stop the retry loop keeps retrying a failing retrieval: the stream never ends
	c20SigStop = "C20:retry-loop-ignores-service-stop"
	// a retrieval failing with an error that wraps shwap.ErrNotFound ("data not found") is not
	// retried: the height is emitted as a response without blobs
	c20SigNotFound = "C20:data-not-found-emitted-as-empty-response"
)

type c20SubKey struct{}

// c20Loops counts the goroutines started by Service.Subscribe that are still alive. It is used for
// one thing only: to know that a subscription loop has returned (and therefore closed its channel)
// WITHOUT reading from the channel - reading would change the number of unread responses the loop
// is about to compare with the buffer size. It never decides an oracle.
func c20Loops() int {
	buf := make([]byte, 1<<20)
	for {
		n := runtime.Stack(buf, true)
		if n < len(buf) {
			return strings.Count(string(buf[:n]), "created by github.com/celestiaorg/celestia-node/blob.(*Service).Subscribe in goroutine")
		}
		buf = make([]byte, 2*len(buf))
	}
}

// c20Outcome is what the harness answers a parked retrieval with.
type c20Outcome struct {
	err error // nil: the real namespace data of the generated block
}

// c20Call is one GetNamespaceData call parked inside the fake getter.
type c20Call struct {
	height uint64
	ns     libshare.Namespace
	rel    chan c20Outcome
}

// c20Feed imitates headerService.Subscribe: a goroutine takes the next header of the
// subscription (here: the harness queue) and hands it over on an unbuffered channel; the channel
// is closed when the subscriber's context is done or the underlying subscription fails.
type c20Feed struct {
	mu        sync.Mutex
	queue     []*header.ExtendedHeader
	failed    bool
	wake      chan struct{}
	ch        chan *header.ExtendedHeader
	delivered chan uint64
}

func (f *c20Feed) push(h *header.ExtendedHeader) {
	f.mu.Lock()
	f.queue = append(f.queue, h)
	f.mu.Unlock()
	select {
	case f.wake <- struct{}{}:
	default:
	}
}

func (f *c20Feed) fail() {
	f.mu.Lock()
	f.failed = true
	f.mu.Unlock()
	select {
	case f.wake <- struct{}{}:
	default:
	}
}

func (f *c20Feed) next(ctx context.Context) (*header.ExtendedHeader, error) {
	for {
		f.mu.Lock()
		if f.failed {
			f.mu.Unlock()
			return nil, errors.New("subscription cancelled")
		}
		if len(f.queue) > 0 {
			h := f.queue[0]
			f.queue = f.queue[1:]
			f.mu.Unlock()
			return h, nil
		}
		f.mu.Unlock()
		select {
		case <-ctx.Done():
			return nil, ctx.Err()
		case <-f.wake:
		}
	}
}

func (f *c20Feed) pump(ctx context.Context, wg *sync.WaitGroup) {
	defer wg.Done()
	defer close(f.ch)
	for {
		h, err := f.next(ctx)
		if err != nil {
			return
		}
		select {
		case <-ctx.Done():
			return
		case f.ch <- h:
			f.delivered <- h.Height()
		}
	}
}

// c20Sub is one subscription: the real channel plus the model of where its loop is.
type c20Sub struct {
	id     int
	nsIdx  int
	ns     libshare.Namespace
	ctx    context.Context
	cancel context.CancelFunc
	ch     <-chan *SubscriptionResponse
	feed   *c20Feed
	parked chan *c20Call

	offered   []uint64 // heights pushed into this subscription's feed, in order
	taken     int      // headers the subscription loop has received from the feed
	cur       *c20Call // retrieval parked right now (nil: the loop is idle or finished)
	produced  int      // responses the loop has queued (== successful retrievals)
	consumed  int      // responses the harness has read
	successes int      // retrievals answered with data
	ended     bool     // the channel was seen closed after an end cause
	cause     string
}

func (s *c20Sub) unread() int { return s.produced - s.consumed }

type c20Machine struct {
	svc     *Service
	pool    []*c11Block
	mu      sync.RWMutex
	heights map[uint64]*c11Block
	next    uint64
	subs    []*c20Sub
	stopped bool
	done    chan struct{}
	wg      sync.WaitGroup
	log     []string
	labels  map[string]bool
	failed  int
	stalled bool
}

func (m *c20Machine) logf(format string, a ...any) { m.log = append(m.log, fmt.Sprintf(format, a...)) }
func (m *c20Machine) label(l string)               { m.labels[l] = true }

func (m *c20Machine) history() string { return strings.Join(m.log, "; ") }

func (m *c20Machine) errorf(format string, a ...any) error {
	return fmt.Errorf("C20: "+format+"\nhistory: %s", append(a, m.history())...)
}

// --- fakes handed to the service

func (m *c20Machine) headerGetter(_ context.Context, h uint64) (*header.ExtendedHeader, error) {
	m.mu.RLock()
	defer m.mu.RUnlock()
	b, ok := m.heights[h]
	if !ok {
		return nil, fmt.Errorf("header %d: not found", h)
	}
	return b.Header(h), nil
}

func (m *c20Machine) headerSub(ctx context.Context) (<-chan *header.ExtendedHeader, error) {
	sub, _ := ctx.Value(c20SubKey{}).(*c20Sub)
	if sub == nil {
		return nil, errors.New("VERIF-INFRA: subscription context without harness tag")
	}
	f := &c20Feed{
		wake:      make(chan struct{}, 1),
		ch:        make(chan *header.ExtendedHeader),
		delivered: make(chan uint64, 4096),
	}
	sub.feed = f
	m.wg.Add(1)
	go f.pump(ctx, &m.wg)
	return f.ch, nil
}

type c20Getter struct{ m *c20Machine }

var _ shwap.Getter = (*c20Getter)(nil)

func (g *c20Getter) GetSamples(context.Context, *header.ExtendedHeader, []shwap.SampleCoords) ([]shwap.Sample, error) {
	return nil, shwap.ErrOperationNotSupported
}

func (g *c20Getter) GetEDS(context.Context, *header.ExtendedHeader) (*rsmt2d.ExtendedDataSquare, error) {
	return nil, shwap.ErrOperationNotSupported
}

func (g *c20Getter) GetRow(context.Context, *header.ExtendedHeader, int) (shwap.Row, error) {
	return shwap.Row{}, shwap.ErrOperationNotSupported
}

func (g *c20Getter) GetRangeNamespaceData(context.Context, *header.ExtendedHeader, int, int) (shwap.RangeNamespaceData, error) {
	return shwap.RangeNamespaceData{}, shwap.ErrOperationNotSupported
}

// GetNamespaceData parks until the harness releases the call; like every real getter it returns
// when its context is done.
func (g *c20Getter) GetNamespaceData(ctx context.Context, h *header.ExtendedHeader, ns libshare.Namespace) (shwap.NamespaceData, error) {
	sub, _ := ctx.Value(c20SubKey{}).(*c20Sub)
	if sub == nil {
		return nil, errors.New("VERIF-INFRA: retrieval context without harness tag")
	}
	call := &c20Call{height: h.Height(), ns: ns, rel: make(chan c20Outcome, 1)}
	select {
	case sub.parked <- call:
	case <-g.m.done:
		return nil, errors.New("harness finished")
	}
	select {
	case out := <-call.rel:
		if out.err != nil {
			return nil, out.err
		}
		g.m.mu.RLock()
		blk := g.m.heights[h.Height()]
		g.m.mu.RUnlock()
		if blk == nil {
			return nil, errors.New("VERIF-INFRA: retrieval for a height that was never offered")
		}
		return eds.NamespaceData(ctx, &eds.Rsmt2D{ExtendedDataSquare: blk.EDS}, ns)
	case <-ctx.Done():
		return nil, ctx.Err()
	case <-g.m.done:
		return nil, errors.New("harness finished")
	}
}

// --- model steps

func (m *c20Machine) live() []*c20Sub {
	var out []*c20Sub
	for _, s := range m.subs {
		if !s.ended {
			out = append(out, s)
		}
	}
	return out
}

func (m *c20Machine) subscribe(nsIdx int) error {
	s := &c20Sub{id: len(m.subs), nsIdx: nsIdx, ns: vk.BlobNS(nsIdx), parked: make(chan *c20Call, 64)}
	ctx, cancel := context.WithCancel(context.Background())
	s.ctx = context.WithValue(ctx, c20SubKey{}, s)
	s.cancel = cancel
	ch, err := m.svc.Subscribe(s.ctx, s.ns)
	if err != nil {
		cancel()
		return m.errorf("Subscribe(ns%d) on a started service: expected a channel, observed error %v", nsIdx, err)
	}
	// the loops of subscriptions that ended earlier are gone or about to go: exactly the live ones remain
	for deadline := time.Now().Add(c20Watchdog); c20Loops() != len(m.live())+1; time.Sleep(200 * time.Microsecond) {
		if time.Now().After(deadline) {
			cancel()
			return fmt.Errorf("VERIF-INFRA: cannot observe the subscription loop goroutines (%d seen, %d expected)", c20Loops(), len(m.live())+1)
		}
	}
	s.ch = ch
	m.subs = append(m.subs, s)
	m.logf("subscribe#%d(ns%d)", s.id, nsIdx)
	return nil
}

// closedWithoutCause drains whatever is readable without blocking and says whether the channel is closed.
func (s *c20Sub) closedNow() bool {
	for {
		select {
		case _, ok := <-s.ch:
			if !ok {
				return true
			}
		default:
			return false
		}
	}
}

func (m *c20Machine) stuck(s *c20Sub, what string) error {
	if s.closedNow() {
		return m.errorf("subscription #%d: %s, but the stream was closed although nobody cancelled, the service runs, the feed is open and at most %d of %d buffer slots were unread",
			s.id, what, s.unread(), c20Buffer)
	}
	return m.errorf("subscription #%d: %s: expected that within %s, observed nothing (stream still open)", s.id, what, c20Watchdog)
}

// waitParked waits for the retrieval the model predicts. While waiting it watches the number of
// unread responses: a response showing up instead of a retrieval is reported at once.
func (m *c20Machine) waitParked(s *c20Sub, height uint64, why string) error {
	deadline := time.NewTimer(c20Watchdog)
	defer deadline.Stop()
	tick := time.NewTicker(200 * time.Microsecond)
	defer tick.Stop()
	for {
		select {
		case c := <-s.parked:
			if c.height != height || !c.ns.Equals(s.ns) {
				return m.errorf("subscription #%d (ns%d): %s: expected a retrieval of height %d for the subscribed namespace, observed a retrieval of height %d for %s",
					s.id, s.nsIdx, why, height, c.height, vk.NsShort(c.ns))
			}
			if n := len(s.ch); n != s.unread() {
				return m.errorf("subscription #%d: %s: while the retrieval of height %d is in flight expected %d unread responses, observed %d",
					s.id, why, height, s.unread(), n)
			}
			s.cur = c
			return nil
		case <-tick.C:
			if n := len(s.ch); n > s.unread() {
				return m.errorf("subscription #%d: %s: expected a retrieval of height %d and no new response, observed %d unread responses instead of %d (a response was emitted without a successful retrieval)",
					s.id, why, height, n, s.unread())
			}
		case <-deadline.C:
			return m.stuck(s, fmt.Sprintf("%s: a retrieval of height %d should start", why, height))
		}
	}
}

// advance lets the idle loop take the next offered header, if any.
func (m *c20Machine) advance(s *c20Sub) error {
	if s.ended || s.cur != nil || s.taken == len(s.offered) {
		return nil
	}
	want := s.offered[s.taken]
	select {
	case h := <-s.feed.delivered:
		if h != want {
			return m.errorf("VERIF-INFRA: feed delivered %d, expected %d", h, want)
		}
	case <-time.After(c20Watchdog):
		return m.stuck(s, fmt.Sprintf("header %d is waiting in the feed and the loop is idle: it should be taken", want))
	}
	s.taken++
	if s.unread() == c20Buffer {
		m.label("overflow")
		m.logf("overflow#%d@%d", s.id, want)
		// the loop has to end now; nothing may be read before it has decided (see c20Loops)
		deadline := time.Now().Add(c20Watchdog)
		for c20Loops() >= len(m.live()) {
			select {
			case c := <-s.parked:
				c.rel <- c20Outcome{err: errors.New("harness finished")}
				return m.errorf("subscription #%d: header %d arrived while %d responses were unread (a full buffer): expected the stream to end, observed a retrieval of height %d",
					s.id, want, c20Buffer, c.height)
			default:
			}
			if time.Now().After(deadline) {
				return m.errorf("subscription #%d: header %d arrived while %d responses were unread (a full buffer): expected the stream to end, observed the loop still running after %s",
					s.id, want, c20Buffer, c20Watchdog)
			}
			time.Sleep(200 * time.Microsecond)
		}
		return m.finalize(s, "overflow", 0, false)
	}
	return m.waitParked(s, want, fmt.Sprintf("header %d was taken from the feed", want))
}

func (m *c20Machine) offer(blockIdx int) error {
	m.next++
	h := m.next
	m.mu.Lock()
	m.heights[h] = m.pool[blockIdx]
	m.mu.Unlock()
	m.logf("offer(%d=blk%d)", h, blockIdx)
	for _, s := range m.live() {
		s.offered = append(s.offered, h)
		s.feed.push(m.pool[blockIdx].Header(h))
		if s.cur != nil {
			m.label("header-queued-behind-retrieval")
		}
		if s.unread() >= c20Buffer/2 {
			m.stalled = true
		}
		if err := m.advance(s); err != nil {
			return err
		}
	}
	return nil
}

var c20ErrKinds = []string{"transient", "notfound", "timeout", "canceled-inner"}

func c20Err(kind string) error {
	switch kind {
	case "notfound":
		return fmt.Errorf("peers do not have the data yet: %w", shwap.ErrNotFound)
	case "timeout":
		return fmt.Errorf("request timed out: %w", context.DeadlineExceeded)
	case "canceled-inner":
		return fmt.Errorf("request stream reset: %w", context.Canceled)
	}
	return errors.New("transient retrieval failure")
}

func (m *c20Machine) release(s *c20Sub, kind string) error {
	c := s.cur
	if c == nil {
		return nil
	}
	s.cur = nil
	if kind == "ok" {
		m.logf("release#%d(%d,ok)", s.id, c.height)
		s.successes++
		c.rel <- c20Outcome{}
		s.produced++
		// the loop queues the response before it looks at the feed again
		deadline := time.Now().Add(c20Watchdog)
		for len(s.ch) != s.unread() {
			if time.Now().After(deadline) {
				return m.stuck(s, fmt.Sprintf("the retrieval of height %d succeeded: a response should be queued (%d unread expected, %d observed)", c.height, s.unread(), len(s.ch)))
			}
			time.Sleep(100 * time.Microsecond)
		}
		return m.advance(s)
	}
	m.logf("release#%d(%d,%s)", s.id, c.height, kind)
	m.failed++
	m.label("failure=" + kind)
	c.rel <- c20Outcome{err: c20Err(kind)}
	return m.waitParked(s, c.height, fmt.Sprintf("the retrieval of height %d failed (%s) and has to be retried for the same height", c.height, kind))
}

// checkResponse compares a response with the next one the model expects.
func (m *c20Machine) checkResponse(s *c20Sub, r *SubscriptionResponse) error {
	if s.consumed >= s.successes {
		return m.errorf("subscription #%d: observed a response (height %d) although only %d retrievals have succeeded and %d responses were read before",
			s.id, r.Height, s.successes, s.consumed)
	}
	want := s.offered[s.consumed]
	if r == nil || r.Header == nil {
		return m.errorf("subscription #%d: expected the response of height %d, observed nil response/header", s.id, want)
	}
	if r.Height != want || uint64(r.Header.Height) != want {
		return m.errorf("subscription #%d: expected the response of height %d (response number %d; offered %v), observed Height=%d Header.Height=%d",
			s.id, want, s.consumed+1, s.offered, r.Height, r.Header.Height)
	}
	m.mu.RLock()
	blk := m.heights[want]
	m.mu.RUnlock()
	ref := blk.RefNamespace(s.ns)
	if len(r.Blobs) != len(ref) {
		return m.errorf("subscription #%d (ns%d): response of height %d: expected the %d blobs of the namespace in that block, observed %d\nblock: %s",
			s.id, s.nsIdx, want, len(ref), len(r.Blobs), blk.Desc())
	}
	for i := range ref {
		if e := c11SameBlob(blk, r.Blobs[i], ref[i]); e != nil {
			return m.errorf("subscription #%d (ns%d): response of height %d: blob #%d: %v\nblock: %s", s.id, s.nsIdx, want, i, e, blk.Desc())
		}
	}
	s.consumed++
	if len(ref) > 0 {
		m.label("response-with-blobs")
	} else {
		m.label("response-without-blobs")
	}
	return nil
}

func (m *c20Machine) consume(s *c20Sub, k int) error {
	if k > s.unread() {
		k = s.unread()
	}
	m.logf("consume#%d(%d)", s.id, k)
	for i := 0; i < k; i++ {
		select {
		case r, ok := <-s.ch:
			if !ok {
				return m.errorf("subscription #%d: %d responses were queued and unread: expected to read one, observed a closed stream although nobody cancelled, the service runs, the feed is open and the reader is not 16 behind",
					s.id, s.unread())
			}
			if err := m.checkResponse(s, r); err != nil {
				return err
			}
		case <-time.After(c20Watchdog):
			return m.stuck(s, "a queued response should be readable")
		}
	}
	return nil
}

// finalize runs after an end cause: everything still delivered has to be the correct continuation,
// and the channel has to close within c20CloseBound while parked retrievals are answered with
// `failures` errors (forever: with errors only) and then with data.
func (m *c20Machine) finalize(s *c20Sub, cause string, failures int, forever bool) error {
	s.cause = cause
	start := time.Now()
	deadline := time.NewTimer(c20CloseBound)
	defer deadline.Stop()
	answered := 0
	answer := func(c *c20Call) {
		if cause == "cancel" {
			return // its context is done: like every real getter the fake returns by itself, with an error
		}
		if forever || answered < failures {
			answered++
			m.failed++
			c.rel <- c20Outcome{err: c20Err("transient")}
			return
		}
		s.successes++
		c.rel <- c20Outcome{}
	}
	if s.cur != nil {
		answer(s.cur)
		s.cur = nil
	}
	producedAtCause := s.produced
	for {
		select {
		case r, ok := <-s.ch:
			if !ok {
				if s.consumed < producedAtCause {
					return m.errorf("subscription #%d: stream ended by %s: %d responses were queued before, expected all of them to be readable, observed only %d",
						s.id, cause, producedAtCause, s.consumed)
				}
				s.ended = true
				m.logf("closed#%d(%s,read=%d,%s)", s.id, cause, s.consumed, time.Since(start).Round(time.Second))
				return nil
			}
			if err := m.checkResponse(s, r); err != nil {
				return err
			}
		case c := <-s.parked:
			answer(c)
		case <-s.feed.delivered:
			s.taken++
		case <-deadline.C:
			extra := ""
			if answered > 0 {
				extra = fmt.Sprintf(" (%d retrievals were answered with errors meanwhile)", answered)
				if forever {
					extra = fmt.Sprintf(" (the retrieval keeps failing: %d attempts were answered with errors meanwhile)", answered)
				}
			}
			return m.errorf("subscription #%d: end cause '%s' happened: expected the stream to be closed within %s, observed it still open%s",
				s.id, cause, c20CloseBound, extra)
		}
	}
}

func (m *c20Machine) teardown() {
	for _, s := range m.subs {
		s.cancel()
	}
	if m.svc != nil && !m.stopped {
		_ = m.svc.Stop(context.Background())
	}
	close(m.done)
	for _, s := range m.subs {
		if s.ch == nil {
			continue
		}
		// every subscription loop has to be gone before the case ends
		t := time.NewTimer(c20Watchdog)
	drain:
		for {
			select {
			case _, ok := <-s.ch:
				if !ok {
					break drain
				}
			case c := <-s.parked:
				c.rel <- c20Outcome{err: errors.New("harness finished")}
			case <-t.C:
				fmt.Println("VERIF-INFRA: C20 teardown: a subscription loop did not end after cancellation")
				break drain
			}
		}
		t.Stop()
	}
	m.wg.Wait()
}

func c20NewMachine() *c20Machine {
	return &c20Machine{heights: map[uint64]*c11Block{}, done: make(chan struct{}), labels: map[string]bool{}}
}

func (m *c20Machine) start() error {
	m.svc = NewService(nil, &c20Getter{m: m}, m.headerGetter, m.headerSub)
	if err := m.svc.Start(context.Background()); err != nil {
		return fmt.Errorf("VERIF-INFRA: Start: %w", err)
	}
	return nil
}

// stop is the stopService action: Stop, then every live stream has to end while parked
// retrievals are answered with `failures` errors (forever: only errors) and then data.
func (m *c20Machine) stop(failures int, forever bool) error {
	m.logf("stop(failures=%d,forever=%v)", failures, forever)
	m.stopped = true
	for _, s := range m.live() {
		if s.cur != nil {
			m.label("stop-while-parked")
			if forever || failures > 0 {
				m.label("stop-while-failing")
			}
		} else {
			m.label("stop-while-idle")
		}
	}
	if err := m.svc.Stop(context.Background()); err != nil {
		return fmt.Errorf("VERIF-INFRA: Stop: %w", err)
	}
	for _, s := range m.live() {
		if err := m.finalize(s, "stop", failures, forever); err != nil {
			return err
		}
	}
	return nil
}

// TestVerifC20_Machine is the state machine.
func TestVerifC20_Machine(t *testing.T) {
	defer vk.Flush()
	opts := c11BlockOpts{MaxBlobs: 5, MaxShares: 48, MaxNS: 3}
	rapid.Check(t, func(t *rapid.T) {
		m := c20NewMachine()
		defer m.teardown()
		fatal := func(err error) {
			if err != nil {
				t.Fatalf("%v", err)
			}
		}
		nPool := rapid.IntRange(2, 4).Draw(t, "pool")
		for i := 0; i < nPool; i++ {
			o := opts
			if i == 0 {
				o.ForceNSCount = 3
			}
			m.pool = append(m.pool, c11GenBlock(t, fmt.Sprintf("blk%d", i), o))
		}
		m.next = uint64(rapid.SampledFrom([]int{0, 1, 41, 99999}).Draw(t, "base"))
		if err := m.start(); err != nil {
			t.Fatalf("%v", err)
		}
		nsPerm := rapid.Permutation([]int{0, 1, 2, 3, 4, 5}).Draw(t, "subns")
		fatal(m.subscribe(nsPerm[0]))

		plan := func(t *rapid.T, allowForever bool) (int, bool) {
			k := rapid.IntRange(0, 4).Draw(t, "failuresAfter")
			if allowForever && k == 4 {
				return 0, true
			}
			if k == 4 {
				k = 3
			}
			return k, false
		}
		offerOne := func(t *rapid.T) {
			fatal(m.offer(rapid.IntRange(0, len(m.pool)-1).Draw(t, "blk")))
		}

		// One action kind per step, drawn among the kinds that are possible in the current state,
		// weighted so that subscriptions live long enough to see failures and slow readers.
		type act struct {
			name   string
			weight int
			ok     func() bool
			run    func(t *rapid.T)
		}
		anyLive := func() bool { return len(m.live()) > 0 }
		with := func(pred func(*c20Sub) bool) []*c20Sub {
			var out []*c20Sub
			for _, s := range m.live() {
				if pred(s) {
					out = append(out, s)
				}
			}
			return out
		}
		pickOf := func(t *rapid.T, l []*c20Sub) *c20Sub {
			return l[rapid.IntRange(0, len(l)-1).Draw(t, "sub")]
		}
		parked := func(s *c20Sub) bool { return s.cur != nil }
		hasUnread := func(s *c20Sub) bool { return s.unread() > 0 }
		all := func(*c20Sub) bool { return true }
		acts := []act{
			{"offerHeader", 8, anyLive, func(t *rapid.T) { offerOne(t) }},
			{"releaseRetrieval", 10, func() bool { return len(with(parked)) > 0 }, func(t *rapid.T) {
				s := pickOf(t, with(parked))
				kind := "ok"
				if rapid.IntRange(0, 2).Draw(t, "fail") == 0 {
					kind = rapid.SampledFrom(c20ErrKinds).Draw(t, "errkind")
					if kind == "notfound" && vk.KnownOpen(c20SigNotFound) {
						vk.Excluded(c20SigNotFound)
						kind = "transient"
					}
				}
				fatal(m.release(s, kind))
			}},
			{"consume", 5, func() bool { return len(with(hasUnread)) > 0 }, func(t *rapid.T) {
				s := pickOf(t, with(hasUnread))
				k := s.unread()
				if rapid.Bool().Draw(t, "some") {
					k = rapid.IntRange(1, s.unread()).Draw(t, "k")
				}
				fatal(m.consume(s, k))
			}},
			// a reader that does not read: headers keep coming and retrievals succeed
			{"stalledReader", 1, anyLive, func(t *rapid.T) {
				n := rapid.IntRange(2, 20).Draw(t, "n")
				m.logf("stalledReader(%d)", n)
				for i := 0; i < n && len(m.live()) > 0; i++ {
					offerOne(t)
					for _, s := range m.live() {
						if s.cur != nil {
							fatal(m.release(s, "ok"))
						}
					}
				}
			}},
			{"cancelSubscriber", 1, anyLive, func(t *rapid.T) {
				s := pickOf(t, with(all))
				if s.cur != nil {
					m.label("cancel-while-parked")
				}
				if s.unread() > 0 {
					m.label("cancel-with-unread")
				}
				m.logf("cancel#%d", s.id)
				s.cancel()
				fatal(m.finalize(s, "cancel", 0, false))
			}},
			{"stopService", 1, func() bool { return !m.stopped && anyLive() }, func(t *rapid.T) {
				failures, forever := plan(t, true)
				if forever && vk.KnownOpen(c20SigStop) && len(with(parked)) > 0 {
					vk.Excluded(c20SigStop)
					forever = false
				}
				fatal(m.stop(failures, forever))
			}},
			{"closeFeed", 1, anyLive, func(t *rapid.T) {
				s := pickOf(t, with(all))
				failures, _ := plan(t, false)
				if s.cur != nil {
					m.label("feedclose-while-parked")
				} else {
					m.label("feedclose-while-idle")
				}
				m.logf("closeFeed#%d(failures=%d)", s.id, failures)
				s.feed.fail()
				fatal(m.finalize(s, "feed closed", failures, false))
			}},
			{"startSecondSubscription", 2, func() bool { return !m.stopped && len(m.subs) < 5 && len(m.live()) < 3 }, func(t *rapid.T) {
				fatal(m.subscribe(nsPerm[len(m.subs)]))
				if len(m.live()) > 1 {
					m.label("subscriptions=2+")
				}
			}},
		}
		t.Repeat(map[string]func(*rapid.T){
			"step": func(t *rapid.T) {
				var names []string
				for _, a := range acts {
					if a.ok() {
						for i := 0; i < a.weight; i++ {
							names = append(names, a.name)
						}
					}
				}
				if len(names) == 0 {
					return // the service was stopped: nothing can happen any more
				}
				name := rapid.SampledFrom(names).Draw(t, "action")
				for _, a := range acts {
					if a.name == name {
						a.run(t)
					}
				}
			},
		})

		// end of the history: every header still owed is delivered, exactly once, then the stream
		// ends on cancellation
		for _, s := range m.live() {
			for !s.ended && (s.cur != nil || s.unread() > 0 || s.taken < len(s.offered)) {
				if s.cur != nil {
					fatal(m.release(s, "ok"))
					continue
				}
				if s.unread() > 0 {
					fatal(m.consume(s, s.unread()))
					continue
				}
				fatal(m.advance(s))
			}
			if s.ended {
				continue
			}
			if s.consumed != len(s.offered) {
				t.Fatalf("%v", m.errorf("subscription #%d: %d headers were offered, expected as many responses, observed %d", s.id, len(s.offered), s.consumed))
			}
			if n := len(s.ch); n != 0 {
				t.Fatalf("%v", m.errorf("subscription #%d: all %d offered headers were answered: expected nothing more, observed %d extra responses", s.id, len(s.offered), n))
			}
			m.logf("cancel#%d(final)", s.id)
			s.cancel()
			fatal(m.finalize(s, "cancel", 0, false))
		}

		labels := []string{fmt.Sprintf("subscriptions-total=%d", len(m.subs))}
		for l := range m.labels {
			labels = append(labels, l)
		}
		if m.failed > 0 {
			labels = append(labels, "failed-retrievals")
		}
		if m.stalled {
			labels = append(labels, "stalled-reader")
		}
		for _, s := range m.subs {
			labels = append(labels, "end="+s.cause)
		}
		sort.Strings(labels)
		labels = slices.Compact(labels)
		desc := m.history()
		for _, b := range m.pool {
			desc += " | " + b.Desc()
		}
		vk.Record(desc, labels, m.failed > 0 || m.stalled, func() any { return m.history() })
	})
}

// c20Witness runs one scripted history on a fresh machine over one fixed block (namespace 1 holds
// two blobs, namespace 3 one).
func c20Witness(script func(m *c20Machine) error) (history string, err error) {
	m := c20NewMachine()
	defer m.teardown()
	blk, err := c11BlockFromSpecs(0xC20, 1, [][]c11BlobSpec{{{NSIdx: 1, Ver: 0, Len: 700}, {NSIdx: 3, Ver: 1, Len: 30}}, {{NSIdx: 1, Ver: 1, Len: 1}}})
	if err != nil {
		return "", fmt.Errorf("VERIF-INFRA: %w", err)
	}
	m.pool = []*c11Block{blk}
	m.next = 41
	if err := m.start(); err != nil {
		return "", err
	}
	err = script(m)
	return m.history(), err
}

// TestVerifC20_Witnesses replays the shrunk counterexamples this check found on the pinned tree as
// fixed histories: permanent regression cases once repaired, proof that an open known finding is
// still present otherwise.
func TestVerifC20_Witnesses(t *testing.T) {
	defer vk.Flush()
	witnesses := []struct {
		sig    string
		script func(m *c20Machine) error
	}{
		{c20SigStop, func(m *c20Machine) error {
			// subscribe; offer(42); stop while the retrieval of 42 is parked and keeps failing
			if err := m.subscribe(1); err != nil {
				return err
			}
			if err := m.offer(0); err != nil {
				return err
			}
			return m.stop(0, true)
		}},
		{"C20:stop-after-many-failed-attempts", func(m *c20Machine) error {
			// subscribe; offer(42); eleven failed attempts in a row; stop while the retrieval keeps
			// failing. Whatever the loop does between attempts (an implementation may pace its retries),
			// the stream has to end promptly on stop also after a long run of failures.
			if err := m.subscribe(1); err != nil {
				return err
			}
			if err := m.offer(0); err != nil {
				return err
			}
			for i := 0; i < 11; i++ {
				if err := m.release(m.subs[0], "transient"); err != nil {
					return err
				}
			}
			// the twelfth failure is answered and the service stopped at once, without waiting for the
			// next attempt to arrive: the stop falls between two attempts
			if s := m.subs[0]; s.cur != nil {
				c := s.cur
				s.cur = nil
				m.failed++
				c.rel <- c20Outcome{err: c20Err("transient")}
			}
			return m.stop(0, true)
		}},
		{c20SigNotFound, func(m *c20Machine) error {
			// subscribe; offer(42); the retrieval fails with "data not found", then succeeds
			if err := m.subscribe(1); err != nil {
				return err
			}
			if err := m.offer(0); err != nil {
				return err
			}
			s := m.subs[0]
			if err := m.release(s, "notfound"); err != nil {
				return err
			}
			if err := m.release(s, "ok"); err != nil {
				return err
			}
			if err := m.consume(s, 1); err != nil {
				return err
			}
			s.cancel()
			return m.finalize(s, "cancel", 0, false)
		}},
	}
	for _, w := range witnesses {
		hist, err := c20Witness(w.script)
		vk.Record("witness "+w.sig, []string{"witness"}, true, func() any { return hist })
		switch {
		case err == nil:
		case strings.Contains(err.Error(), "VERIF-INFRA"):
			t.Errorf("%v", err)
		case vk.KnownOpen(w.sig):
			vk.FindingPresent(w.sig, strings.SplitN(err.Error(), "\n", 2)[0])
			t.Logf("known finding %s still present: %v", w.sig, err)
		default:
			if dir := os.Getenv("VERIF_REPLAY_DIR"); dir != "" {
				_ = os.WriteFile(dir+"/witness-"+strings.ReplaceAll(w.sig, ":", "_")+".txt", []byte(err.Error()+"\n"), 0o644)
			}
			t.Errorf("VERIF-VIOLATION %v", err)
		}
	}
}
