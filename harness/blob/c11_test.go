package blob

// C11 - blob retrieval returns exactly the blobs that are in the block.
// Harness file of /verif (injected by overlay; not part of celestia-node).
//
// Generator: real-layout blocks (c11_blockgen_test.go). Service under test: the real blob.Service
// over (a) an in-memory shwap.Getter answering with the real eds.NamespaceData, (b) the real
// store.Getter over a file-backed store.Store (no recent-blocks cache, so reads hit the files).
// Oracle: the reference list of a namespace is the generated blobs of that namespace sorted by
// the start index the real square builder assigned; nothing is derived from the code under test.

import (
	"bytes"
	"context"
	"errors"
	"fmt"
	"math/rand/v2"
	"os"
	"testing"

	libshare "github.com/celestiaorg/go-square/v4/share"
	"pgregory.net/rapid"

	"github.com/celestiaorg/celestia-node/header"
	vk "github.com/celestiaorg/celestia-node/internal/verifkit"
	"github.com/celestiaorg/celestia-node/share/shwap"
	"github.com/celestiaorg/celestia-node/store"
)

// c11SameBlob compares a blob returned by the service with a generated one.
func c11SameBlob(blk *c11Block, got *Blob, want *c11GenBlob) error {
	if got == nil || got.Blob == nil {
		return fmt.Errorf("expected a blob, observed nil")
	}
	if !got.Namespace().Equals(want.Lib.Namespace()) {
		return fmt.Errorf("expected namespace %s, observed %s", vk.NsShort(want.Lib.Namespace()), vk.NsShort(got.Namespace()))
	}
	if got.ShareVersion() != want.Lib.ShareVersion() {
		return fmt.Errorf("expected share version %d, observed %d", want.Lib.ShareVersion(), got.ShareVersion())
	}
	if !bytes.Equal(got.Data(), want.Lib.Data()) {
		return fmt.Errorf("expected the generated %d data bytes, observed %d bytes (equal=false)", want.Lib.DataLen(), len(got.Data()))
	}
	if !bytes.Equal(got.Signer(), want.Lib.Signer()) {
		return fmt.Errorf("expected signer %x, observed %x", want.Lib.Signer(), got.Signer())
	}
	if !bytes.Equal(got.Commitment, want.Commitment) {
		return fmt.Errorf("expected commitment %x (computed from the generated blob), observed %x", want.Commitment, []byte(got.Commitment))
	}
	if got.Index() != blk.EDSIndex(want.Start) {
		return fmt.Errorf("expected Index() %d (builder start %d = row %d col %d of the %d-wide extended square), observed %d",
			blk.EDSIndex(want.Start), want.Start, want.Start/blk.ODS, want.Start%blk.ODS, 2*blk.ODS, got.Index())
	}
	return nil
}

func c11First(ref []*c11GenBlob, com []byte) *c11GenBlob {
	for _, g := range ref {
		if bytes.Equal(g.Commitment, com) {
			return g
		}
	}
	return nil
}

// c11CheckList checks the result of a listing against the reference list.
func c11CheckList(blk *c11Block, what string, got []*Blob, err error, want []*c11GenBlob) error {
	if err != nil {
		return fmt.Errorf("C11: %s: expected %d blobs and no error, observed error %v", what, len(want), err)
	}
	if len(got) != len(want) {
		return fmt.Errorf("C11: %s: expected %d blobs, observed %d", what, len(want), len(got))
	}
	for i := range want {
		if e := c11SameBlob(blk, got[i], want[i]); e != nil {
			return fmt.Errorf("C11: %s: blob #%d (generated as tx%d.%d, builder start %d, %d shares): %v",
				what, i, want[i].Tx, want[i].PosInTx, want[i].Start, want[i].Shares, e)
		}
	}
	return nil
}

// c11CheckProof checks that the proof handed out for a blob is what GetProof documents: one NMT
// proof per row the blob spans, each proving the namespace's shares of that row to the row root.
func c11CheckProof(blk *c11Block, ns libshare.Namespace, first *c11GenBlob, proof *Proof) error {
	if proof == nil {
		return fmt.Errorf("expected a proof, observed nil")
	}
	rows := blk.RowsSpanned(first)
	if proof.Len() != rows {
		return fmt.Errorf("expected %d row proofs (blob at %d+%d in a %d-wide square), observed %d", rows, first.Start, first.Shares, blk.ODS, proof.Len())
	}
	r0 := first.Start / blk.ODS
	for i, p := range *proof {
		if p == nil {
			return fmt.Errorf("row proof %d is nil", i)
		}
		row := r0 + i
		var shs []libshare.Share
		for c := 0; c < blk.ODS; c++ {
			if sh := blk.Square[row*blk.ODS+c]; sh.Namespace().Equals(ns) {
				shs = append(shs, sh)
			}
		}
		rnd := shwap.RowNamespaceData{Shares: shs, Proof: p}
		if err := rnd.Verify(blk.Roots, ns, row); err != nil {
			return fmt.Errorf("row proof %d does not prove the %d shares of the namespace in row %d: %v", i, len(shs), row, err)
		}
	}
	return nil
}

// c11CheckBlock runs all queries of the property against one block.
func c11CheckBlock(t *rapid.T, svc *Service, blk *c11Block, height uint64, rng *rand.Rand, maxAbsent int) {
	ctx, cancel := context.WithCancel(context.Background())
	defer cancel()
	present := blk.NamespacesPresent()

	// --- listing every present namespace
	for _, ns := range present {
		got, err := svc.GetAll(ctx, height, []libshare.Namespace{ns})
		if e := c11CheckList(blk, "GetAll("+vk.NsShort(ns)+")", got, err, blk.RefNamespace(ns)); e != nil {
			t.Fatalf("%v\nblock: %s", e, blk.Desc())
		}
	}
	// --- listing absent namespaces: inside a row's range, between rows / outside every row
	absent := []libshare.Namespace{vk.LowNS(), vk.HighNS()}
	for i := 0; i <= c11NSPool; i++ {
		absent = append(absent, vk.OddNS(i))
	}
	for _, ns := range absent {
		got, err := svc.GetAll(ctx, height, []libshare.Namespace{ns})
		if err != nil || len(got) != 0 {
			t.Fatalf("C11: GetAll(%s) for a namespace that is not in the block (rows covering it: %v): expected an empty list and no error, observed %d blobs, error %v\nblock: %s",
				vk.NsShort(ns), blk.RowsCovering(ns), len(got), err, blk.Desc())
		}
		if len(blk.RowsCovering(ns)) > 0 {
			vk.Count("absent_inside_row_range", 1)
		} else {
			vk.Count("absent_outside_every_row", 1)
		}
	}
	// --- one listing over several namespaces: results in the order the namespaces were requested
	if len(present) > 0 {
		req := append([]libshare.Namespace(nil), present...)
		req = append(req, absent[rng.IntN(len(absent))])
		rng.Shuffle(len(req), func(i, j int) { req[i], req[j] = req[j], req[i] })
		var want []*c11GenBlob
		for _, ns := range req {
			want = append(want, blk.RefNamespace(ns)...)
		}
		got, err := svc.GetAll(ctx, height, req)
		if e := c11CheckList(blk, fmt.Sprintf("GetAll(%d namespaces)", len(req)), got, err, want); e != nil {
			t.Fatalf("%v\nblock: %s", e, blk.Desc())
		}
		// --- a long request: every present namespace among all the absent ones (more namespaces than
		// any fixed degree of parallelism inside the service would take at once)
		long := append(append([]libshare.Namespace(nil), present...), absent...)
		rng.Shuffle(len(long), func(i, j int) { long[i], long[j] = long[j], long[i] })
		want = want[:0]
		for _, ns := range long {
			want = append(want, blk.RefNamespace(ns)...)
		}
		got, err = svc.GetAll(ctx, height, long)
		if e := c11CheckList(blk, fmt.Sprintf("GetAll(%d namespaces, %d of them present)", len(long), len(present)), got, err, want); e != nil {
			t.Fatalf("%v\nblock: %s", e, blk.Desc())
		}
		vk.Count("getall_long_requests", 1)
		vk.Count("getall_long_request_namespaces", int64(len(long)))
	}

	// --- by commitment: every present commitment under its namespace
	type key struct {
		ns  int
		com string
	}
	done := map[key]bool{}
	for _, g := range blk.Blobs {
		k := key{g.NSIdx, string(g.Commitment)}
		if done[k] {
			continue
		}
		done[k] = true
		ns := g.Lib.Namespace()
		first := c11First(blk.RefNamespace(ns), g.Commitment)
		what := fmt.Sprintf("(%s, commitment of the blob at builder start %d)", vk.NsShort(ns), first.Start)
		b, err := svc.Get(ctx, height, ns, g.Commitment)
		if err != nil {
			t.Fatalf("C11: Get%s: the block contains it: expected the blob, observed error %v\nblock: %s", what, err, blk.Desc())
		}
		if e := c11SameBlob(blk, b, first); e != nil {
			t.Fatalf("C11: Get%s: expected the first blob with that commitment: %v\nblock: %s", what, e, blk.Desc())
		}
		proof, err := svc.GetProof(ctx, height, ns, g.Commitment)
		if err != nil {
			t.Fatalf("C11: GetProof%s: the block contains it: expected a proof, observed error %v\nblock: %s", what, err, blk.Desc())
		}
		if e := c11CheckProof(blk, ns, first, proof); e != nil {
			t.Fatalf("C11: GetProof%s: %v\nblock: %s", what, e, blk.Desc())
		}
		ok, err := svc.Included(ctx, height, ns, proof, g.Commitment)
		if !ok || err != nil {
			t.Fatalf("C11: Included%s with the service's own proof: expected (true, nil), observed (%v, %v)\nblock: %s", what, ok, err, blk.Desc())
		}
	}
	// --- by commitment: not in the block under that namespace
	type q struct {
		ns   libshare.Namespace
		com  []byte
		kind string
	}
	var qs []q
	for _, g := range blk.Blobs {
		for _, ns := range present {
			if !ns.Equals(g.Lib.Namespace()) {
				qs = append(qs, q{ns, g.Commitment, "commitment of another namespace"})
			}
		}
		qs = append(qs, q{absent[rng.IntN(len(absent))], g.Commitment, "present commitment, absent namespace"})
		flipped := append([]byte(nil), g.Commitment...)
		flipped[rng.IntN(len(flipped))] ^= 1 << rng.IntN(8)
		qs = append(qs, q{g.Lib.Namespace(), flipped, "one bit off a present commitment"})
		qs = append(qs, q{g.Lib.Namespace(), g.Commitment[:len(g.Commitment)-1], "prefix of a present commitment"})
	}
	random := make([]byte, 32)
	for i := range random {
		random[i] = byte(rng.Uint32())
	}
	for _, ns := range present {
		qs = append(qs, q{ns, random, "random commitment"})
	}
	qs = append(qs, q{absent[rng.IntN(len(absent))], random, "random commitment, absent namespace"})
	if len(qs) > maxAbsent { // bound the work per block; which ones are kept comes from the case's PRNG
		rng.Shuffle(len(qs), func(i, j int) { qs[i], qs[j] = qs[j], qs[i] })
		qs = qs[:maxAbsent]
	}
	for _, x := range qs {
		if c11First(blk.RefNamespace(x.ns), x.com) != nil {
			continue // (cannot happen short of a hash collision)
		}
		what := fmt.Sprintf("(%s, %s %x)", vk.NsShort(x.ns), x.kind, x.com)
		b, err := svc.Get(ctx, height, x.ns, x.com)
		if !errors.Is(err, ErrBlobNotFound) || b != nil {
			t.Fatalf("C11: Get%s: the block does not contain it: expected ErrBlobNotFound, observed blob=%v error=%v\nblock: %s", what, b != nil, err, blk.Desc())
		}
		p, err := svc.GetProof(ctx, height, x.ns, x.com)
		if !errors.Is(err, ErrBlobNotFound) || p != nil {
			t.Fatalf("C11: GetProof%s: the block does not contain it: expected ErrBlobNotFound, observed proof=%v error=%v\nblock: %s", what, p != nil, err, blk.Desc())
		}
		ok, err := svc.Included(ctx, height, x.ns, &Proof{}, x.com)
		if ok || (err != nil && !errors.Is(err, ErrBlobNotFound)) {
			t.Fatalf("C11: Included%s: the block does not contain it: expected false (not found), observed (%v, %v)\nblock: %s", what, ok, err, blk.Desc())
		}
		vk.Count("notfound_queries", 1)
	}
}

// c11Record reports the generated block to the statistics.
func c11Record(blk *c11Block, config string) {
	labels := []string{"config=" + config, fmt.Sprintf("ods=%d", blk.ODS)}
	perNS := map[int]int{}
	multi, pad, rows2, rows3, dup, v1, adjacent := false, false, false, false, false, false, false
	for _, g := range blk.Blobs {
		perNS[g.NSIdx]++
		if blk.PaddingBefore(g) > 0 {
			pad = true
		}
		switch r := blk.RowsSpanned(g); {
		case r >= 3:
			rows3 = true
			fallthrough
		case r == 2:
			rows2 = true
		}
		if g.DupOf >= 0 {
			dup = true
		}
		if g.Lib.ShareVersion() == libshare.ShareVersionOne {
			v1 = true
		}
		labels = append(labels, "size="+g.SizeClass)
	}
	for _, n := range perNS {
		if n >= 2 {
			multi = true
		}
	}
	afterPadded := blk.HasBlobAfterPaddedBlobInRow()
	for _, ns := range blk.NamespacesPresent() {
		ref := blk.RefNamespace(ns)
		for i := 1; i < len(ref); i++ {
			if ref[i].Start == ref[i-1].Start+ref[i-1].Shares {
				adjacent = true
			}
		}
	}
	add := func(c bool, l string) {
		if c {
			labels = append(labels, l)
		}
	}
	add(len(blk.Blobs) == 0, "blobs=0")
	add(len(blk.Blobs) == 1, "blobs=1")
	add(len(blk.Blobs) >= 2 && len(blk.Blobs) <= 5, "blobs=2-5")
	add(len(blk.Blobs) > 5, "blobs=6+")
	labels = append(labels, fmt.Sprintf("namespaces=%d", len(perNS)))
	add(multi, "layout=namespace-with-2+-blobs")
	add(pad, "layout=blob-preceded-by-namespace-padding")
	add(rows2, "layout=blob-spans-row-boundary")
	add(rows3, "layout=blob-spans-3+-rows")
	add(adjacent, "layout=adjacent-blobs-same-namespace")
	add(afterPadded, "layout=blob-after-padded-blob-in-same-row")
	add(dup, "layout=byte-identical-duplicates")
	add(v1, "shareversion=1")
	add(blk.NormalTxs > 0, "ordinary-txs")
	// de-duplicate size labels
	seen := map[string]bool{}
	uniq := labels[:0]
	for _, l := range labels {
		if !seen[l] {
			seen[l] = true
			uniq = append(uniq, l)
		}
	}
	nontrivial := multi || pad || rows2
	vk.Record(config+" "+blk.Desc(), uniq, nontrivial, func() any { return blk.Desc() })
}

func c11HeaderGetter(blocks map[uint64]*c11Block) func(context.Context, uint64) (*header.ExtendedHeader, error) {
	return func(_ context.Context, h uint64) (*header.ExtendedHeader, error) {
		b, ok := blocks[h]
		if !ok {
			return nil, fmt.Errorf("header %d: not found", h)
		}
		return b.Header(h), nil
	}
}

func c11NoSub(context.Context) (<-chan *header.ExtendedHeader, error) {
	return nil, errors.New("no header subscription in this harness")
}

// TestVerifC11_MemGetter: blob.Service over the in-memory getter.
func TestVerifC11_MemGetter(t *testing.T) {
	defer vk.Flush()
	rapid.Check(t, func(t *rapid.T) {
		blk := c11GenBlock(t, "blk", c11DefaultOpts())
		height := uint64(rapid.IntRange(1, 1<<20).Draw(t, "height"))
		blocks := map[uint64]*c11Block{height: blk}
		svc := NewService(nil, &c11MemGetter{blocks: blocks}, c11HeaderGetter(blocks), c11NoSub)
		c11Record(blk, "mem")
		c11CheckBlock(t, svc, blk, height, rand.New(rand.NewPCG(blk.Seed, 0xC11C4EC)), 24)
	})
}

// TestVerifC11_StoreGetter: blob.Service over store.Getter over a real file-backed store.
func TestVerifC11_StoreGetter(t *testing.T) {
	defer vk.Flush()
	rapid.Check(t, func(t *rapid.T) {
		blk := c11GenBlock(t, "blk", c11DefaultOpts())
		height := uint64(rapid.IntRange(1, 1<<20).Draw(t, "height"))
		odsOnly := rapid.Bool().Draw(t, "odsOnly")
		dir, err := os.MkdirTemp("", "c11store")
		if err != nil {
			t.Fatalf("VERIF-INFRA: %v", err)
		}
		defer os.RemoveAll(dir)
		st, err := store.NewStore(&store.Parameters{RecentBlocksCacheSize: 0}, dir)
		if err != nil {
			t.Fatalf("VERIF-INFRA: NewStore: %v", err)
		}
		defer st.Stop(context.Background()) //nolint:errcheck
		put := st.PutODSQ4
		config := "store-odsq4"
		if odsOnly {
			put, config = st.PutODS, "store-ods"
		}
		if err := put(context.Background(), blk.Roots, height, blk.EDS); err != nil {
			t.Fatalf("VERIF-INFRA: store put: %v", err)
		}
		blocks := map[uint64]*c11Block{height: blk}
		svc := NewService(nil, store.NewGetter(st), c11HeaderGetter(blocks), c11NoSub)
		c11Record(blk, config)
		// (every row read re-extends the row from the file: fewer absent-commitment queries here)
		c11CheckBlock(t, svc, blk, height, rand.New(rand.NewPCG(blk.Seed, 0xC11C4EC)), 8)
	})
}

// c11FlakyGetter answers the first `fail` namespace-data requests with "data not found" (what the
// shrex getter reports when peers do not have the block yet, or store.Getter before the block is
// stored) and serves the block afterwards.
type c11FlakyGetter struct {
	c11MemGetter
	fail int
}

func (g *c11FlakyGetter) GetNamespaceData(ctx context.Context, h *header.ExtendedHeader, ns libshare.Namespace) (shwap.NamespaceData, error) {
	if g.fail > 0 {
		g.fail--
		return nil, fmt.Errorf("shrex: peers do not have the block: %w", shwap.ErrNotFound)
	}
	return g.c11MemGetter.GetNamespaceData(ctx, h, ns)
}

// TestVerifC11_DataUnavailable: while the block's data cannot be retrieved, listing a namespace
// that HAS blobs in the block must not answer "no blobs" (an empty list with a nil error is
// exactly what an absent namespace gives); once the data is retrievable the full list comes back.
func TestVerifC11_DataUnavailable(t *testing.T) {
	defer vk.Flush()
	rapid.Check(t, func(t *rapid.T) {
		blk := c11GenBlock(t, "blk", c11DefaultOpts())
		height := uint64(rapid.IntRange(1, 1<<20).Draw(t, "height"))
		blocks := map[uint64]*c11Block{height: blk}
		present := blk.NamespacesPresent()
		if len(present) == 0 {
			c11Record(blk, "unavailable:no-blobs")
			return
		}
		ns := present[rapid.IntRange(0, len(present)-1).Draw(t, "ns")]
		want := blk.RefNamespace(ns)
		fails := rapid.IntRange(1, 3).Draw(t, "fails")
		g := &c11FlakyGetter{c11MemGetter: c11MemGetter{blocks: blocks}, fail: fails}
		svc := NewService(nil, g, c11HeaderGetter(blocks), c11NoSub)
		ctx := context.Background()
		for i := 0; i < fails; i++ {
			got, err := svc.GetAll(ctx, height, []libshare.Namespace{ns})
			if err == nil && len(got) != len(want) {
				t.Fatalf("C11: GetAll(%s) while the block's data is not retrievable (attempt %d of %d failing): expected an error, observed %d blobs and a nil error although the block holds %d blobs of that namespace\nblock: %s",
					vk.NsShort(ns), i+1, fails, len(got), len(want), blk.Desc())
			}
		}
		got, err := svc.GetAll(ctx, height, []libshare.Namespace{ns})
		if e := c11CheckList(blk, "GetAll("+vk.NsShort(ns)+") after the data became retrievable", got, err, want); e != nil {
			t.Fatalf("%v\nblock: %s", e, blk.Desc())
		}
		c11Record(blk, "unavailable-then-served")
	})
}
