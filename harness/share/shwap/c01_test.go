package shwap_test

// C01 — verified shares are exactly the shares committed at the requested position.
// Harness file of /verif (injected by overlay; not part of celestia-node).

import (
	"bytes"
	"context"
	"encoding/json"
	"fmt"
	"testing"

	libshare "github.com/celestiaorg/go-square/v4/share"
	"github.com/celestiaorg/nmt"
	"github.com/celestiaorg/rsmt2d"
	"pgregory.net/rapid"

	vk "github.com/celestiaorg/celestia-node/internal/verifkit"
	"github.com/celestiaorg/celestia-node/share"
	"github.com/celestiaorg/celestia-node/share/eds"
	"github.com/celestiaorg/celestia-node/share/shwap"
)

func c01ODS() []int {
	if vk.Thorough() {
		return []int{1, 2, 2, 4, 4, 4, 8, 8, 16, 32}
	}
	return []int{1, 2, 2, 4, 4, 4, 8}
}

func c01must(t *rapid.T, err error) {
	if err != nil {
		t.Helper()
		t.Fatalf("C01 harness: unexpected error from an honest producer: %v", err)
	}
}

func clampIdx(v, n int) int {
	if v < 0 {
		return 0
	}
	if v >= n {
		return n - 1
	}
	return v
}

func drawCoord(t *rapid.T, label string, n int) int {
	switch rapid.IntRange(0, 5).Draw(t, label+".kind") {
	case 0:
		return 0
	case 1:
		return n - 1
	case 2:
		return clampIdx(n/2-1+rapid.IntRange(0, 1).Draw(t, label+".half"), n)
	default:
		return rapid.IntRange(0, n-1).Draw(t, label)
	}
}

func cloneProof(p *nmt.Proof, dStart, dEnd int) *nmt.Proof {
	np := nmt.NewInclusionProof(p.Start()+dStart, p.End()+dEnd, p.Nodes(), p.IsMaxNamespaceIDIgnored())
	return &np
}

// ---------------------------------------------------------------------------------------------
// samples

func TestVerifC01_Sample(t *testing.T) {
	defer vk.Flush()
	rapid.Check(t, func(t *rapid.T) {
		sq := vk.GenSquare(t, "sq", vk.SquareOpts{ODS: c01ODS(), AllowEmpty: true})
		w := sq.Width()
		acc := eds.Rsmt2D{ExtendedDataSquare: sq.EDS}
		r, c := drawCoord(t, "row", w), drawCoord(t, "col", w)
		honestAxis := rapid.SampledFrom([]rsmt2d.Axis{rsmt2d.Row, rsmt2d.Col}).Draw(t, "axis")
		honest, err := acc.SampleForProofAxis(shwap.SampleCoords{Row: r, Col: c}, honestAxis)
		c01must(t, err)
		if err := honest.Verify(sq.Roots, r, c); err != nil {
			t.Fatalf("C01 completeness: honest sample (%d,%d) axis %d of %s does not verify: %v", r, c, honestAxis, sq.Desc(), err)
		}
		if !bytes.Equal(honest.ToBytes(), sq.RefShare(r, c)) {
			t.Fatalf("C01 honest producer returned a share that differs from the committed one at (%d,%d)", r, c)
		}

		family := rapid.SampledFrom([]string{
			"neighbour", "transposed", "axisflag", "sibling", "sharekeep-proofother", "proofshift",
			"bytes", "honest-other-axis", "mirror", "axis-invalid",
		}).Draw(t, "family")
		var resp shwap.Sample
		decoded := true
		switch family {
		case "neighbour":
			dr, dc := rapid.IntRange(-1, 1).Draw(t, "dr"), rapid.IntRange(-1, 1).Draw(t, "dc")
			rr, cc := clampIdx(r+dr, w), clampIdx(c+dc, w)
			resp, err = acc.SampleForProofAxis(shwap.SampleCoords{Row: rr, Col: cc}, honestAxis)
			c01must(t, err)
		case "transposed":
			resp, err = acc.SampleForProofAxis(shwap.SampleCoords{Row: c, Col: r}, honestAxis)
			c01must(t, err)
		case "mirror": // same position in another quadrant
			resp, err = acc.SampleForProofAxis(shwap.SampleCoords{Row: (r + w/2) % w, Col: c}, honestAxis)
			c01must(t, err)
			if rapid.Bool().Draw(t, "mirrorcol") {
				resp, err = acc.SampleForProofAxis(shwap.SampleCoords{Row: r, Col: (c + w/2) % w}, honestAxis)
				c01must(t, err)
			}
		case "axisflag": // honest material, proof type flag flipped
			resp = honest
			resp.ProofType = 1 - honestAxis
			if rapid.Bool().Draw(t, "axisother") { // proof of the transposed coordinate under the other flag
				resp, err = acc.SampleForProofAxis(shwap.SampleCoords{Row: c, Col: r}, honestAxis)
				c01must(t, err)
				resp.ProofType = 1 - honestAxis
			}
		case "sibling":
			sib := vk.GenSibling(t, "sib", sq)
			sacc := eds.Rsmt2D{ExtendedDataSquare: sib.EDS}
			resp, err = sacc.SampleForProofAxis(shwap.SampleCoords{Row: r, Col: c}, honestAxis)
			c01must(t, err)
		case "sharekeep-proofother": // share of another cell under the honest proof, and vice versa
			rr, cc := drawCoord(t, "orow", w), drawCoord(t, "ocol", w)
			other, err := acc.SampleForProofAxis(shwap.SampleCoords{Row: rr, Col: cc}, honestAxis)
			c01must(t, err)
			resp = honest
			if rapid.Bool().Draw(t, "swapwhich") {
				resp.Share = other.Share
			} else {
				resp.Proof = other.Proof
			}
		case "proofshift":
			other, err := acc.SampleForProofAxis(shwap.SampleCoords{Row: drawCoord(t, "orow", w), Col: drawCoord(t, "ocol", w)}, honestAxis)
			c01must(t, err)
			resp = other
			// relabel the other cell's proof with the requested leaf position
			want := c
			if honestAxis == rsmt2d.Col {
				want = r
			}
			resp.Proof = cloneProof(other.Proof, want-other.Proof.Start(), want+1-other.Proof.End())
		case "honest-other-axis":
			resp, err = acc.SampleForProofAxis(shwap.SampleCoords{Row: r, Col: c}, 1-honestAxis)
			c01must(t, err)
		case "axis-invalid":
			// honest material of another cell of the same row or column under an axis value that is
			// neither ROW nor COL (the wire field is a signed enum), sent through the wire encoding
			rr, cc := r, c
			if rapid.Bool().Draw(t, "othercellrow") {
				rr = drawCoord(t, "orow", w)
			} else {
				cc = drawCoord(t, "ocol", w)
			}
			src := rapid.SampledFrom([]rsmt2d.Axis{rsmt2d.Row, rsmt2d.Col}).Draw(t, "srcaxis")
			resp, err = acc.SampleForProofAxis(shwap.SampleCoords{Row: rr, Col: cc}, src)
			c01must(t, err)
			resp.ProofType = rsmt2d.Axis(rapid.SampledFrom([]int{-1, 2, 3, 7, 255, -128}).Draw(t, "axisvalue"))
			var wb bytes.Buffer
			if _, err := resp.WriteTo(&wb); err != nil {
				decoded = false
				break
			}
			var dec shwap.Sample
			if _, err := dec.ReadFrom(bytes.NewReader(wb.Bytes())); err != nil {
				decoded = false
				break
			}
			resp = dec
		case "bytes":
			var buf bytes.Buffer
			_, err := honest.WriteTo(&buf)
			c01must(t, err)
			var sibEnc []byte
			if rapid.Bool().Draw(t, "withsib") {
				o, err := acc.SampleForProofAxis(shwap.SampleCoords{Row: drawCoord(t, "orow", w), Col: drawCoord(t, "ocol", w)}, honestAxis)
				c01must(t, err)
				var sb bytes.Buffer
				_, _ = o.WriteTo(&sb)
				sibEnc = sb.Bytes()
			}
			mut, _ := vk.MutateBytes(t, "mut", buf.Bytes(), sibEnc)
			var dec shwap.Sample
			if _, err := dec.ReadFrom(bytes.NewReader(mut)); err != nil {
				decoded = false
			}
			resp = dec
		}

		accepted := false
		if decoded {
			verr := safeVerify(func() error { return resp.Verify(sq.Roots, r, c) })
			if p, ok := verr.(panicErr); ok {
				t.Fatalf("C01 Sample.Verify panicked on a decoded response (family %s, %s, request (%d,%d)): %v", family, sq.Desc(), r, c, p.v)
			}
			if verr == nil {
				accepted = true
				if !bytes.Equal(resp.ToBytes(), sq.RefShare(r, c)) {
					t.Fatalf("C01 accepted sample for (%d,%d) carries a share that is not the committed one (family %s, square %s)",
						r, c, family, sq.Desc())
				}
			}
		}
		isForgery := decoded && !bytes.Equal(resp.ToBytes(), sq.RefShare(r, c))
		vk.RecordHash(vk.Hash64(sq.Desc(), r, c, int(honestAxis), family, sampleKey(resp, decoded)),
			[]string{"sample:" + family, fmt.Sprintf("ods=%d", sq.ODS), fmt.Sprintf("accepted=%v", accepted),
				fmt.Sprintf("quadrant=%d", 2*b2i(r >= sq.ODS)+b2i(c >= sq.ODS))},
			isForgery, func() any {
				return map[string]any{"square": sq.Desc(), "request": fmt.Sprintf("sample(%d,%d)", r, c), "family": family, "accepted": accepted}
			})
	})
}

func sampleKey(s shwap.Sample, decoded bool) []byte {
	if !decoded || s.Proof == nil {
		return []byte("undecodable")
	}
	b, _ := s.ToProto().Marshal()
	return b
}

type panicErr struct{ v any }

func (p panicErr) Error() string { return fmt.Sprint("panic: ", p.v) }

func safeVerify(f func() error) (err error) {
	defer func() {
		if r := recover(); r != nil {
			err = panicErr{r}
		}
	}()
	return f()
}

func b2i(b bool) int {
	if b {
		return 1
	}
	return 0
}

// ---------------------------------------------------------------------------------------------
// rows

func TestVerifC01_Row(t *testing.T) {
	defer vk.Flush()
	rapid.Check(t, func(t *rapid.T) {
		sq := vk.GenSquare(t, "sq", vk.SquareOpts{ODS: c01ODS(), AllowEmpty: true})
		w := sq.Width()
		r := drawCoord(t, "row", w)
		side := rapid.SampledFrom([]shwap.RowSide{shwap.Left, shwap.Right, shwap.Both}).Draw(t, "side")
		honest, err := shwap.RowFromEDS(sq.EDS, r, side)
		c01must(t, err)
		{
			h := honest
			if err := h.Verify(sq.Roots, r); err != nil {
				t.Fatalf("C01 completeness: honest row %d side %v of %s does not verify: %v", r, side, sq.Desc(), err)
			}
			got, err := h.Shares()
			c01must(t, err)
			if err := vk.SharesBytesEqual(got, sq.Ref[r]); err != nil {
				t.Fatalf("C01 honest row %d differs from the committed row: %v", r, err)
			}
		}
		rowShares := func(rr int, s shwap.RowSide) []libshare.Share {
			all := sq.ExtendedRowShares(rr)
			switch s {
			case shwap.Left:
				return all[:w/2]
			case shwap.Right:
				return all[w/2:]
			}
			return all
		}
		family := rapid.SampledFrom([]string{
			"otherrow", "rotated", "halves-swapped", "sideflag", "oneshare", "sibling", "length", "column", "bytes",
		}).Draw(t, "family")
		var resp shwap.Row
		decoded := true
		switch family {
		case "otherrow":
			rr := drawCoord(t, "orow", w)
			resp = shwap.NewRow(rowShares(rr, side), side)
		case "rotated":
			s := rowShares(r, side)
			k := rapid.IntRange(1, max(1, len(s)-1)).Draw(t, "rot")
			resp = shwap.NewRow(append(append([]libshare.Share(nil), s[k%len(s):]...), s[:k%len(s)]...), side)
		case "halves-swapped":
			all := sq.ExtendedRowShares(r)
			sw := append(append([]libshare.Share(nil), all[w/2:]...), all[:w/2]...)
			switch side {
			case shwap.Both:
				resp = shwap.NewRow(sw, shwap.Both)
			case shwap.Left:
				resp = shwap.NewRow(all[w/2:], shwap.Left) // right half labelled left
			default:
				resp = shwap.NewRow(all[:w/2], shwap.Right)
			}
		case "sideflag":
			other := rapid.SampledFrom([]shwap.RowSide{shwap.Left, shwap.Right, shwap.Both, shwap.RowSide(3), shwap.RowSide(-1)}).Draw(t, "oside")
			resp = shwap.NewRow(rowShares(r, side), other)
		case "oneshare":
			s := append([]libshare.Share(nil), rowShares(r, side)...)
			i := rapid.IntRange(0, len(s)-1).Draw(t, "pos")
			rr := drawCoord(t, "orow", w)
			o := rowShares(rr, side)
			s[i] = o[i]
			resp = shwap.NewRow(s, side)
		case "sibling":
			sib := vk.GenSibling(t, "sib", sq)
			resp, err = shwap.RowFromEDS(sib.EDS, r, side)
			c01must(t, err)
		case "length":
			s := append([]libshare.Share(nil), rowShares(r, side)...)
			switch rapid.IntRange(0, 3).Draw(t, "lenkind") {
			case 0:
				s = s[:len(s)-1]
			case 1:
				s = append(s, s[len(s)-1])
			case 2:
				s = s[:len(s)/2]
			default:
				s = append(s, s...)
			}
			resp = shwap.NewRow(s, side)
		case "column": // column r presented as row r
			col := sq.ExtendedColShares(r)
			switch side {
			case shwap.Left:
				col = col[:w/2]
			case shwap.Right:
				col = col[w/2:]
			}
			resp = shwap.NewRow(col, side)
		case "bytes":
			var buf bytes.Buffer
			h := honest
			_, err := h.WriteTo(&buf)
			c01must(t, err)
			orow, err := shwap.RowFromEDS(sq.EDS, drawCoord(t, "orow", w), side)
			c01must(t, err)
			var sb bytes.Buffer
			_, _ = orow.WriteTo(&sb)
			mut, _ := vk.MutateBytes(t, "mut", buf.Bytes(), sb.Bytes())
			var dec shwap.Row
			if _, err := dec.ReadFrom(bytes.NewReader(mut)); err != nil {
				decoded = false
			}
			resp = dec
		}
		accepted := false
		forgery := decoded
		if decoded {
			verr := safeVerify(func() error { return resp.Verify(sq.Roots, r) })
			if p, ok := verr.(panicErr); ok {
				// only wire-reachable shapes count: a decoded row has side Left or Right
				if family == "bytes" {
					t.Fatalf("C01 Row.Verify panicked on a decoded response (%s, row %d): %v", sq.Desc(), r, p.v)
				}
			} else if verr == nil {
				accepted = true
				got, err := resp.Shares()
				if err != nil {
					t.Fatalf("C01 accepted row %d cannot produce its shares: %v", r, err)
				}
				if err := vk.SharesBytesEqual(got, sq.Ref[r]); err != nil {
					t.Fatalf("C01 accepted row %d (family %s, side %v, square %s) is not the committed row: %v", r, family, side, sq.Desc(), err)
				}
				forgery = false // equal to the committed row: not a forgery that was accepted
			}
		}
		vk.RecordHash(vk.Hash64(sq.Desc(), r, int(side), family, rowKey(resp, decoded)),
			[]string{"row:" + family, fmt.Sprintf("ods=%d", sq.ODS), fmt.Sprintf("accepted=%v", accepted), fmt.Sprintf("side=%d", side),
				fmt.Sprintf("parityrow=%v", r >= sq.ODS)},
			forgery, func() any {
				return map[string]any{"square": sq.Desc(), "request": fmt.Sprintf("row(%d) side=%d", r, side), "family": family, "accepted": accepted}
			})
	})
}

func rowKey(r shwap.Row, decoded bool) []byte {
	if !decoded || r.IsEmpty() {
		return []byte("undecodable-or-empty")
	}
	var out []byte
	func() {
		defer func() { _ = recover() }()
		b, _ := r.ToProto().Marshal()
		out = b
	}()
	return out
}

// ---------------------------------------------------------------------------------------------
// row namespace data (single row; completeness across rows is C02)

func TestVerifC01_RowNamespaceData(t *testing.T) {
	defer vk.Flush()
	rapid.Check(t, func(t *rapid.T) {
		sq := vk.GenSquare(t, "sq", vk.SquareOpts{ODS: c01ODS()})
		acc := eds.Rsmt2D{ExtendedDataSquare: sq.EDS}
		ctx := context.Background()
		present := sq.NamespacesPresent()
		var cands []libshare.Namespace
		for _, ns := range present {
			if ns.ValidateForData() == nil {
				cands = append(cands, ns)
			}
		}
		if len(cands) == 0 {
			vk.Record(sq.Desc()+" rownd none", []string{"rownd:no-data-namespace"}, false, nil)
			return
		}
		ns := cands[rapid.IntRange(0, len(cands)-1).Draw(t, "ns")]
		rows := sq.RefRowsCovering(ns)
		r := rows[rapid.IntRange(0, len(rows)-1).Draw(t, "rowpick")]
		refRow := func(rr int, n libshare.Namespace) [][]byte {
			var out [][]byte
			for c := 0; c < sq.ODS; c++ {
				if bytes.Equal(sq.Ref[rr][c][:libshare.NamespaceSize], n.Bytes()) {
					out = append(out, sq.Ref[rr][c])
				}
			}
			return out
		}
		honest, err := acc.RowNamespaceData(ctx, ns, r)
		c01must(t, err)
		if err := honest.Verify(sq.Roots, ns, r); err != nil {
			t.Fatalf("C01 completeness: honest row namespace data (row %d, ns %s) of %s does not verify: %v", r, vk.NsShort(ns), sq.Desc(), err)
		}
		if err := vk.SharesBytesEqual(honest.Shares, refRow(r, ns)); err != nil {
			t.Fatalf("C01 honest row namespace data differs from the committed shares: %v", err)
		}
		family := rapid.SampledFrom([]string{"otherrow", "otherns", "dropshare", "dupshare", "reorder", "sibling", "proofshift", "bytes",
			"absence+shares", "absence+shares", "noproof"}).Draw(t, "family")
		resp := shwap.RowNamespaceData{Shares: append([]libshare.Share(nil), honest.Shares...), Proof: honest.Proof}
		decoded := true
		switch family {
		case "otherrow":
			rr := rapid.IntRange(0, sq.ODS-1).Draw(t, "orow")
			o, err := acc.RowNamespaceData(ctx, ns, rr)
			if err != nil {
				decoded = false
				break
			}
			resp = o
		case "otherns":
			o, err := acc.RowNamespaceData(ctx, cands[rapid.IntRange(0, len(cands)-1).Draw(t, "ons")], r)
			if err != nil {
				decoded = false
				break
			}
			resp = o
		case "dropshare":
			if len(resp.Shares) == 0 {
				decoded = false
				break
			}
			i := rapid.IntRange(0, len(resp.Shares)-1).Draw(t, "pos")
			resp.Shares = append(resp.Shares[:i:i], resp.Shares[i+1:]...)
			if rapid.Bool().Draw(t, "fixproof") && len(resp.Shares) > 0 && (i == 0 || i == len(honest.Shares)-1) {
				// honest proof of the shorter sub-range
				start := honest.Proof.Start()
				if i == 0 {
					start++
				}
				p, err := shwap.GenerateSharesProofs(r, start, start+len(resp.Shares), sq.ODS, sq.ExtendedRowShares(r))
				c01must(t, err)
				resp.Proof = p
			}
		case "dupshare":
			if len(resp.Shares) == 0 {
				decoded = false
				break
			}
			i := rapid.IntRange(0, len(resp.Shares)-1).Draw(t, "pos")
			resp.Shares = append(resp.Shares[:i+1], resp.Shares[i:]...)
		case "reorder":
			if len(resp.Shares) < 2 {
				decoded = false
				break
			}
			i := rapid.IntRange(0, len(resp.Shares)-2).Draw(t, "pos")
			resp.Shares[i], resp.Shares[i+1] = resp.Shares[i+1], resp.Shares[i]
		case "sibling":
			sib := vk.GenSibling(t, "sib", sq)
			o, err := (&eds.Rsmt2D{ExtendedDataSquare: sib.EDS}).RowNamespaceData(ctx, ns, r)
			if err != nil {
				decoded = false
				break
			}
			resp = o
		case "proofshift":
			if honest.Proof.IsOfAbsence() {
				decoded = false
				break
			}
			d := rapid.SampledFrom([]int{-1, 1}).Draw(t, "shift")
			if honest.Proof.Start()+d < 0 {
				d = 1
			}
			resp.Proof = cloneProof(honest.Proof, d, d)
		case "noproof":
			// the honest shares with the proof left out of the message (decoders accept that shape)
			resp.Proof = nil
			var wb bytes.Buffer
			if _, err := resp.WriteTo(&wb); err != nil {
				decoded = false
				break
			}
			var dec shwap.RowNamespaceData
			if _, err := dec.ReadFrom(bytes.NewReader(wb.Bytes())); err != nil {
				decoded = false
				break
			}
			resp = dec
		case "absence+shares":
			// the honest proof of absence of a neighbouring absent namespace in a covering row, with
			// shares attached; requested for that absent namespace
			odd := vk.OddNS(rapid.IntRange(0, 6).Draw(t, "odd"))
			orows := sq.RefRowsCovering(odd)
			if len(orows) == 0 {
				decoded = false
				break
			}
			orow := orows[rapid.IntRange(0, len(orows)-1).Draw(t, "orowpick")]
			abs, err := acc.RowNamespaceData(ctx, odd, orow)
			if err != nil || abs.Proof == nil || !abs.Proof.IsOfAbsence() {
				decoded = false
				break
			}
			ns, r = odd, orow
			n := rapid.IntRange(1, 3).Draw(t, "nattach")
			var attached []libshare.Share
			for i := 0; i < n; i++ {
				attached = append(attached, sq.Shares[rapid.IntRange(0, sq.ODS*sq.ODS-1).Draw(t, "attach")])
			}
			resp = shwap.RowNamespaceData{Shares: attached, Proof: abs.Proof}
			// through the stream encoding, the JSON form, or as a value
			switch rapid.SampledFrom([]string{"stream", "json", "direct"}).Draw(t, "wire") {
			case "stream":
				var wb bytes.Buffer
				if _, err := resp.WriteTo(&wb); err != nil {
					decoded = false
					break
				}
				var dec shwap.RowNamespaceData
				if _, err := dec.ReadFrom(bytes.NewReader(wb.Bytes())); err != nil {
					decoded = false
					break
				}
				resp = dec
			case "json":
				js, err := json.Marshal(resp)
				if err != nil {
					decoded = false
					break
				}
				var dec shwap.RowNamespaceData
				if err := json.Unmarshal(js, &dec); err != nil {
					decoded = false
					break
				}
				resp = dec
			}
		case "bytes":
			var buf bytes.Buffer
			_, err := honest.WriteTo(&buf)
			c01must(t, err)
			mut, _ := vk.MutateBytes(t, "mut", buf.Bytes(), nil)
			var dec shwap.RowNamespaceData
			if _, err := dec.ReadFrom(bytes.NewReader(mut)); err != nil {
				decoded = false
			}
			resp = dec
		}
		accepted := false
		forgery := false
		if decoded {
			verr := safeVerify(func() error { return resp.Verify(sq.Roots, ns, r) })
			if p, ok := verr.(panicErr); ok {
				t.Fatalf("C01 RowNamespaceData.Verify panicked (family %s, %s, row %d): %v", family, sq.Desc(), r, p.v)
			}
			forgery = vk.SharesBytesEqual(resp.Shares, refRow(r, ns)) != nil
			if verr == nil {
				accepted = true
				if err := vk.SharesBytesEqual(resp.Shares, refRow(r, ns)); err != nil {
					t.Fatalf("C01 accepted row namespace data (row %d, ns %s, family %s, square %s) is not the committed data: %v",
						r, vk.NsShort(ns), family, sq.Desc(), err)
				}
			}
		}
		vk.RecordHash(vk.Hash64(sq.Desc(), r, ns.Bytes(), family, rndKey(resp, decoded)),
			[]string{"rownd:" + family, fmt.Sprintf("ods=%d", sq.ODS), fmt.Sprintf("accepted=%v", accepted)},
			forgery, func() any {
				return map[string]any{"square": sq.Desc(), "request": fmt.Sprintf("rownd(row %d, ns %s)", r, vk.NsShort(ns)), "family": family, "accepted": accepted}
			})
	})
}

func rndKey(r shwap.RowNamespaceData, decoded bool) []byte {
	if !decoded {
		return []byte("n/a")
	}
	b, _ := r.ToProto().Marshal()
	return b
}

// ---------------------------------------------------------------------------------------------
// ranges

type rangeReq struct {
	from, to int // ODS row-major, end-exclusive
	fc, tc   shwap.SampleCoords
}

func mkRange(from, to, ods int) rangeReq {
	return rangeReq{from: from, to: to,
		fc: shwap.SampleCoords{Row: from / ods, Col: from % ods},
		tc: shwap.SampleCoords{Row: (to - 1) / ods, Col: (to - 1) % ods}}
}

// verifyRangeAsCallers verifies a range response the way shrex_getter and the bitswap range block do.
func verifyRangeAsCallers(resp *shwap.RangeNamespaceData, rq rangeReq, roots *share.AxisRoots, nsMode bool) error {
	ods := len(roots.RowRoots) / 2
	if nsMode {
		return resp.VerifyNamespace(rq.fc, rq.tc, ods, roots.RowRoots[rq.fc.Row:rq.tc.Row+1])
	}
	return resp.VerifyInclusion(rq.fc, rq.tc, ods, roots.RowRoots[rq.fc.Row:rq.tc.Row+1])
}

// rangeOracle: the accepted response must expose exactly the committed shares of [from,to), row by row.
func rangeOracle(resp *shwap.RangeNamespaceData, rq rangeReq, sq *vk.Square) error {
	want := make([][]byte, 0, rq.to-rq.from)
	for i := rq.from; i < rq.to; i++ {
		want = append(want, sq.Ref[i/sq.ODS][i%sq.ODS])
	}
	if err := vk.SharesBytesEqual(resp.Flatten(), want); err != nil {
		return fmt.Errorf("flattened shares: %w", err)
	}
	if len(resp.Shares) != rq.tc.Row-rq.fc.Row+1 {
		return fmt.Errorf("%d rows, want %d", len(resp.Shares), rq.tc.Row-rq.fc.Row+1)
	}
	for i, row := range resp.Shares {
		lo, hi := 0, sq.ODS
		if i == 0 {
			lo = rq.fc.Col
		}
		if i == len(resp.Shares)-1 {
			hi = rq.tc.Col + 1
		}
		if len(row) != hi-lo {
			return fmt.Errorf("row %d carries %d shares, the requested range has %d there", rq.fc.Row+i, len(row), hi-lo)
		}
	}
	return nil
}

func cloneRange(r shwap.RangeNamespaceData) shwap.RangeNamespaceData {
	out := shwap.RangeNamespaceData{FirstIncompleteRowProof: r.FirstIncompleteRowProof, LastIncompleteRowProof: r.LastIncompleteRowProof}
	for _, row := range r.Shares {
		out.Shares = append(out.Shares, append([]libshare.Share(nil), row...))
	}
	return out
}

func TestVerifC01_Range(t *testing.T) {
	defer vk.Flush()
	rapid.Check(t, func(t *rapid.T) {
		sq := vk.GenSquare(t, "sq", vk.SquareOpts{ODS: c01ODS(), MaxRuns: 5})
		ods := sq.ODS
		acc := eds.Rsmt2D{ExtendedDataSquare: sq.EDS}
		ctx := context.Background()
		// request inside one namespace stretch (the only kind that can be served)
		anchor := rapid.IntRange(0, ods*ods-1).Draw(t, "anchor")
		lo, hi := sq.NSStretch(anchor)
		var from, to int
		switch rapid.IntRange(0, 3).Draw(t, "reqkind") {
		case 0:
			from, to = lo, hi
		case 1: // starts mid row, ends mid row
			from = rapid.IntRange(lo, hi-1).Draw(t, "from")
			to = rapid.IntRange(from+1, hi).Draw(t, "to")
		case 2: // row aligned where possible
			from = min(hi-1, ((lo+ods-1)/ods)*ods)
			to = max(from+1, (hi/ods)*ods)
			if to > hi {
				to = hi
			}
		default:
			from = rapid.IntRange(lo, hi-1).Draw(t, "from")
			to = hi
		}
		rq := mkRange(from, to, ods)
		nsMode := rapid.IntRange(0, 3).Draw(t, "nsmode") == 0
		honest, err := acc.RangeNamespaceData(ctx, from, to)
		c01must(t, err)
		{
			h := cloneRange(honest)
			if err := verifyRangeAsCallers(&h, rq, sq.Roots, false); err != nil {
				t.Fatalf("C01 completeness: honest range [%d,%d) of %s does not verify: %v", from, to, sq.Desc(), err)
			}
			if err := rangeOracle(&h, rq, sq); err != nil {
				t.Fatalf("C01 honest range [%d,%d) differs from the committed data: %v", from, to, err)
			}
		}

		family := rapid.SampledFrom([]string{
			"shifted", "reslice-boundary", "reslice-widen", "dropproof", "swapproofs", "borrowproof", "rows-dup-drop",
			"rows-reorder", "sibling", "othershare", "proofrelabel", "bytes", "honest-wider", "honest-narrower",
		}).Draw(t, "family")
		resp := cloneRange(honest)
		decoded := true
		produce := func(f, tt int) (shwap.RangeNamespaceData, bool) {
			if f < 0 || tt > ods*ods || f >= tt {
				return shwap.RangeNamespaceData{}, false
			}
			o, err := acc.RangeNamespaceData(ctx, f, tt)
			if err != nil {
				return shwap.RangeNamespaceData{}, false
			}
			return o, true
		}
		switch family {
		case "shifted": // honest answer of a shifted range of equal length
			d := rapid.SampledFrom([]int{-ods, -1, 1, ods}).Draw(t, "shift")
			resp, decoded = produce(from+d, to+d)
		case "honest-wider":
			resp, decoded = produce(from-rapid.IntRange(0, 2).Draw(t, "wl"), to+rapid.IntRange(0, 2).Draw(t, "wr"))
		case "honest-narrower":
			resp, decoded = produce(from+rapid.IntRange(0, 1).Draw(t, "nl"), to-rapid.IntRange(0, 1).Draw(t, "nr"))
		case "reslice-boundary":
			// move k shares across a row boundary: same total, same first Start / last End
			if len(resp.Shares) < 2 {
				decoded = false
				break
			}
			b := rapid.IntRange(0, len(resp.Shares)-2).Draw(t, "boundary")
			k := rapid.IntRange(1, 3).Draw(t, "k")
			if rapid.Bool().Draw(t, "dir") {
				// last k shares of row b go to the front of row b+1
				if len(resp.Shares[b]) <= k {
					decoded = false
					break
				}
				n := len(resp.Shares[b])
				moved := append([]libshare.Share(nil), resp.Shares[b][n-k:]...)
				resp.Shares[b] = resp.Shares[b][:n-k]
				resp.Shares[b+1] = append(moved, resp.Shares[b+1]...)
			} else {
				if len(resp.Shares[b+1]) <= k {
					decoded = false
					break
				}
				moved := append([]libshare.Share(nil), resp.Shares[b+1][:k]...)
				resp.Shares[b+1] = resp.Shares[b+1][k:]
				resp.Shares[b] = append(resp.Shares[b], moved...)
			}
		case "reslice-widen":
			// a partial first row widened to the full committed row (no proof needed then) and the
			// last row shortened by the same amount, keeping its honest sub-range proof
			if len(resp.Shares) < 2 || rq.fc.Col == 0 {
				decoded = false
				break
			}
			k := rq.fc.Col
			full := sq.ExtendedRowShares(rq.fc.Row)[:ods]
			lastRowAll := sq.ExtendedRowShares(rq.tc.Row)
			lastLen := rq.tc.Col + 1
			if lastLen-k < 1 {
				decoded = false
				break
			}
			resp.Shares[0] = full
			resp.FirstIncompleteRowProof = nil
			// keep the end position (so End()-1 == to.Col) and cut from the front
			resp.Shares[len(resp.Shares)-1] = append([]libshare.Share(nil), lastRowAll[k:lastLen]...)
			p, err := shwap.GenerateSharesProofs(rq.tc.Row, k, lastLen, ods, lastRowAll)
			c01must(t, err)
			resp.LastIncompleteRowProof = p
		case "dropproof":
			if rapid.Bool().Draw(t, "which") {
				resp.FirstIncompleteRowProof = nil
			} else {
				resp.LastIncompleteRowProof = nil
			}
		case "swapproofs":
			resp.FirstIncompleteRowProof, resp.LastIncompleteRowProof = resp.LastIncompleteRowProof, resp.FirstIncompleteRowProof
		case "borrowproof":
			o, ok := produce(from+rapid.SampledFrom([]int{-1, 1, ods, -ods}).Draw(t, "bshift"), to)
			if !ok {
				decoded = false
				break
			}
			if rapid.Bool().Draw(t, "which") {
				resp.FirstIncompleteRowProof = o.FirstIncompleteRowProof
			} else {
				resp.LastIncompleteRowProof = o.LastIncompleteRowProof
			}
		case "rows-dup-drop":
			i := rapid.IntRange(0, len(resp.Shares)-1).Draw(t, "rowi")
			if rapid.Bool().Draw(t, "dup") {
				resp.Shares = append(resp.Shares[:i+1], resp.Shares[i:]...)
			} else {
				resp.Shares = append(resp.Shares[:i:i], resp.Shares[i+1:]...)
			}
		case "rows-reorder":
			if len(resp.Shares) < 2 {
				decoded = false
				break
			}
			i := rapid.IntRange(0, len(resp.Shares)-2).Draw(t, "rowi")
			resp.Shares[i], resp.Shares[i+1] = resp.Shares[i+1], resp.Shares[i]
		case "sibling":
			sib := vk.GenSibling(t, "sib", sq)
			o, err := (&eds.Rsmt2D{ExtendedDataSquare: sib.EDS}).RangeNamespaceData(ctx, from, to)
			if err != nil {
				decoded = false
				break
			}
			resp = o
		case "othershare":
			i := rapid.IntRange(0, len(resp.Shares)-1).Draw(t, "rowi")
			j := rapid.IntRange(0, len(resp.Shares[i])-1).Draw(t, "coli")
			src := rapid.IntRange(0, ods*ods-1).Draw(t, "src")
			resp.Shares[i][j] = sq.Shares[src]
		case "proofrelabel":
			if resp.FirstIncompleteRowProof != nil && rapid.Bool().Draw(t, "which") {
				d := rapid.SampledFrom([]int{-1, 1}).Draw(t, "d")
				resp.FirstIncompleteRowProof = cloneProof(resp.FirstIncompleteRowProof, 0, d)
			} else if resp.LastIncompleteRowProof != nil {
				d := rapid.SampledFrom([]int{-1, 1}).Draw(t, "d")
				if resp.LastIncompleteRowProof.Start()+d < 0 {
					d = 1
				}
				resp.LastIncompleteRowProof = cloneProof(resp.LastIncompleteRowProof, d, 0)
			} else {
				decoded = false
			}
		case "bytes":
			var buf bytes.Buffer
			h := cloneRange(honest)
			_, err := h.WriteTo(&buf)
			c01must(t, err)
			mut, _ := vk.MutateBytes(t, "mut", buf.Bytes(), nil)
			var dec shwap.RangeNamespaceData
			if _, err := dec.ReadFrom(bytes.NewReader(mut)); err != nil {
				decoded = false
			}
			resp = dec
		}

		accepted := false
		forgery := false
		if decoded {
			// what a client receives went through the wire: re-encode and decode structural forgeries
			// so that only wire-representable responses are judged
			if family != "bytes" {
				var buf bytes.Buffer
				wire := cloneRange(resp)
				if len(wire.Shares) == 0 {
					decoded = false
				} else if _, err := wire.WriteTo(&buf); err != nil {
					decoded = false
				} else {
					var dec shwap.RangeNamespaceData
					if _, err := dec.ReadFrom(bytes.NewReader(buf.Bytes())); err != nil {
						decoded = false
					} else {
						resp = dec
					}
				}
			}
		}
		if decoded {
			forgery = rangeOracle(&resp, rq, sq) != nil
			verr := safeVerify(func() error { return verifyRangeAsCallers(&resp, rq, sq.Roots, nsMode) })
			if p, ok := verr.(panicErr); ok {
				t.Fatalf("C01 range verification panicked on a decoded response (family %s, %s, range [%d,%d)): %v", family, sq.Desc(), from, to, p.v)
			}
			if verr == nil {
				accepted = true
				if err := rangeOracle(&resp, rq, sq); err != nil {
					t.Fatalf("C01 accepted range response for [%d,%d) (rows %d..%d, family %s, nsMode=%v, square %s) does not carry the committed shares at the requested positions: %v",
						from, to, rq.fc.Row, rq.tc.Row, family, nsMode, sq.Desc(), err)
				}
			}
		}
		labels := []string{"range:" + family, fmt.Sprintf("ods=%d", ods), fmt.Sprintf("accepted=%v", accepted),
			fmt.Sprintf("rangerows=%d", min(3, rq.tc.Row-rq.fc.Row+1)), fmt.Sprintf("decoded=%v", decoded)}
		if forgery && (family == "reslice-boundary" || family == "reslice-widen") {
			labels = append(labels, "forgery=reslice")
		}
		vk.RecordHash(vk.Hash64(sq.Desc(), from, to, family, nsMode, rangeKey(resp, decoded)), labels, forgery, func() any {
			return map[string]any{"square": sq.Desc(), "request": fmt.Sprintf("range[%d,%d)", from, to), "family": family, "accepted": accepted}
		})
	})
}

func rangeKey(r shwap.RangeNamespaceData, decoded bool) []byte {
	if !decoded {
		return []byte("n/a")
	}
	var out []byte
	func() {
		defer func() { _ = recover() }()
		b, _ := r.ToProto().Marshal()
		out = b
	}()
	return out
}
