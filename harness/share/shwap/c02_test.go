package shwap_test

// C02 — verified namespace data is complete: no share of a namespace can be withheld.
// Harness file of /verif (injected by overlay; not part of celestia-node).

import (
	"bytes"
	"context"
	"encoding/json"
	"fmt"
	"testing"

	libshare "github.com/celestiaorg/go-square/v4/share"
	"pgregory.net/rapid"

	vk "github.com/celestiaorg/celestia-node/internal/verifkit"
	"github.com/celestiaorg/celestia-node/share/eds"
	"github.com/celestiaorg/celestia-node/share/shwap"
)

// c02Target draws a target namespace and names its class.
func c02Target(t *rapid.T, sq *vk.Square) (libshare.Namespace, string) {
	var data []libshare.Namespace
	for _, ns := range sq.NamespacesPresent() {
		if ns.ValidateForData() == nil {
			data = append(data, ns)
		}
	}
	k := rapid.IntRange(0, 9).Draw(t, "nsclass")
	switch {
	case k <= 4 && len(data) > 0:
		ns := data[rapid.IntRange(0, len(data)-1).Draw(t, "nspick")]
		if ns.IsReserved() {
			return ns, "present-reserved"
		}
		return ns, "present"
	case k <= 6:
		return vk.OddNS(rapid.IntRange(0, 6).Draw(t, "odd")), "absent-between"
	case k == 7:
		return vk.LowNS(), "absent-low"
	case k == 8:
		return vk.HighNS(), "absent-high"
	default:
		// a reserved namespace that may or may not be present
		return rapid.SampledFrom([]libshare.Namespace{libshare.TxNamespace, libshare.PayForBlobNamespace}).Draw(t, "reserved"), "reserved"
	}
}

func cloneND(nd shwap.NamespaceData) shwap.NamespaceData {
	out := make(shwap.NamespaceData, len(nd))
	for i, r := range nd {
		out[i] = shwap.RowNamespaceData{Shares: append([]libshare.Share(nil), r.Shares...), Proof: r.Proof}
	}
	return out
}

func ndKey(nd shwap.NamespaceData) []byte {
	var buf bytes.Buffer
	func() {
		defer func() { _ = recover() }()
		_, _ = nd.WriteTo(&buf)
	}()
	return buf.Bytes()
}

func TestVerifC02_NamespaceData(t *testing.T) {
	defer vk.Flush()
	ctx := context.Background()
	rapid.Check(t, func(t *rapid.T) {
		sq := vk.GenSquare(t, "sq", vk.SquareOpts{ODS: c01ODS(), AllowEmpty: true})
		ns, class := c02Target(t, sq)
		refShares := sq.RefNamespace(ns)
		refRows := sq.RefRowsCovering(ns)

		// --- honest producers: direct NMT build and proofs-cache tree walk (differential)
		direct := &eds.Rsmt2D{ExtendedDataSquare: sq.EDS}
		cached := eds.WithProofsCache(&eds.Rsmt2D{ExtendedDataSquare: sq.EDS})
		ndA, err := eds.NamespaceData(ctx, direct, ns)
		c01must(t, err)
		ndB, err := eds.NamespaceData(ctx, cached, ns)
		c01must(t, err)
		for name, nd := range map[string]shwap.NamespaceData{"direct": ndA, "proofs-cache": ndB} {
			if err := nd.Verify(sq.Roots, ns); err != nil {
				t.Fatalf("C02 completeness: honest namespace data (%s producer, ns %s [%s]) of %s does not verify: %v",
					name, vk.NsShort(ns), class, sq.Desc(), err)
			}
			if err := vk.SharesBytesEqual(nd.Flatten(), refShares); err != nil {
				t.Fatalf("C02 honest namespace data (%s producer, ns %s) differs from the reference scan: %v", name, vk.NsShort(ns), err)
			}
			if len(nd) != len(refRows) {
				t.Fatalf("C02 honest namespace data (%s producer) has %d rows, reference says rows %v cover ns %s",
					name, len(nd), refRows, vk.NsShort(ns))
			}
		}
		for i := range ndA {
			a, b := ndA[i], ndB[i]
			if len(a.Shares) != len(b.Shares) || a.Proof.Start() != b.Proof.Start() || a.Proof.End() != b.Proof.End() ||
				a.Proof.IsOfAbsence() != b.Proof.IsOfAbsence() {
				t.Fatalf("C02 differential: producers disagree on row entry %d for ns %s of %s: direct [%d,%d) abs=%v %d shares, proofs-cache [%d,%d) abs=%v %d shares",
					i, vk.NsShort(ns), sq.Desc(), a.Proof.Start(), a.Proof.End(), a.Proof.IsOfAbsence(), len(a.Shares),
					b.Proof.Start(), b.Proof.End(), b.Proof.IsOfAbsence(), len(b.Shares))
			}
			if !proofNodesEqual(a, b) {
				vk.Count("honest_proof_nodes_differ_between_producers", 1)
			}
		}
		honest := ndA
		if rapid.Bool().Draw(t, "base") {
			honest = ndB
		}

		// --- forgery
		// only families that apply to this honest answer are drawn (construction, not rejection)
		fams := []string{"honest", "appendrow", "sibling", "bytes", "empty"}
		if len(honest) > 0 {
			fams = append(fams, "droprow", "duprow", "otherrow-entry", "otherns-entry", "noproof-entry")
			if len(honest) > 1 {
				fams = append(fams, "reorderrows")
			}
			if len(refShares) > 0 {
				fams = append(fams, "dropshare-reproved", "dropshare-reproved", "dropshare", "truncate-last", "extrashare",
					"inclusion->absence", "inclusion->absence")
			} else {
				fams = append(fams, "absence->inclusion", "absence->inclusion", "absence+shares", "absence+shares")
			}
		}
		family := rapid.SampledFrom(fams).Draw(t, "family")
		resp := cloneND(honest)
		ok := true
		rowOf := func(i int) int { return refRows[i] }
		switch family {
		case "honest":
		case "droprow":
			if len(resp) == 0 {
				ok = false
				break
			}
			i := rapid.IntRange(0, len(resp)-1).Draw(t, "rowi")
			resp = append(resp[:i:i], resp[i+1:]...)
		case "duprow":
			if len(resp) == 0 {
				ok = false
				break
			}
			i := rapid.IntRange(0, len(resp)-1).Draw(t, "rowi")
			resp = append(resp[:i+1], resp[i:]...)
		case "reorderrows":
			if len(resp) < 2 {
				ok = false
				break
			}
			i := rapid.IntRange(0, len(resp)-2).Draw(t, "rowi")
			resp[i], resp[i+1] = resp[i+1], resp[i]
		case "appendrow":
			// an entry for a row that cannot contain the namespace: honest data of what that row does contain
			r := rapid.IntRange(0, sq.ODS-1).Draw(t, "xrow")
			other := sq.Shares[r*sq.ODS].Namespace()
			e, err := direct.RowNamespaceData(ctx, other, r)
			if err != nil {
				ok = false
				break
			}
			pos := rapid.IntRange(0, len(resp)).Draw(t, "inspos")
			resp = append(resp[:pos:pos], append(shwap.NamespaceData{e}, resp[pos:]...)...)
		case "empty":
			resp = shwap.NamespaceData{}
		case "dropshare-reproved", "dropshare", "truncate-last", "extrashare":
			if len(resp) == 0 {
				ok = false
				break
			}
			var withShares []int
			for x := range resp {
				if len(resp[x].Shares) > 0 {
					withShares = append(withShares, x)
				}
			}
			if len(withShares) == 0 {
				ok = false
				break
			}
			i := withShares[rapid.IntRange(0, len(withShares)-1).Draw(t, "rowi")]
			if family == "truncate-last" {
				i = withShares[len(withShares)-1]
			}
			e := resp[i]
			switch family {
			case "extrashare":
				// add the neighbouring committed share of the row (belongs to another namespace or is a duplicate)
				j := e.Proof.End()
				if j >= sq.ODS {
					j = max(0, e.Proof.Start()-1)
				}
				extra := sq.Shares[rowOf(i)*sq.ODS+j]
				e.Shares = append(e.Shares, extra)
				if rapid.Bool().Draw(t, "reprove") && e.Proof.End() < sq.ODS {
					p, err := shwap.GenerateSharesProofs(rowOf(i), e.Proof.Start(), e.Proof.End()+1, sq.ODS, sq.ExtendedRowShares(rowOf(i)))
					c01must(t, err)
					e.Proof = p
				}
			case "truncate-last":
				n := rapid.IntRange(0, len(e.Shares)-1).Draw(t, "keep")
				start := e.Proof.Start()
				e.Shares = e.Shares[:n]
				if n > 0 && rapid.Bool().Draw(t, "reprove") {
					p, err := shwap.GenerateSharesProofs(rowOf(i), start, start+n, sq.ODS, sq.ExtendedRowShares(rowOf(i)))
					c01must(t, err)
					e.Proof = p
				}
			default:
				// drop first, last or a middle share
				pos := rapid.SampledFrom([]string{"first", "last", "middle"}).Draw(t, "droppos")
				start, n := e.Proof.Start(), len(e.Shares)
				j := 0
				switch pos {
				case "last":
					j = n - 1
				case "middle":
					j = n / 2
				}
				e.Shares = append(e.Shares[:j:j], e.Shares[j+1:]...)
				if family == "dropshare-reproved" && len(e.Shares) > 0 && (j == 0 || j == n-1) {
					// the honest inclusion proof of the shorter sub-range: valid for inclusion, must fail completeness
					ns0 := start
					if j == 0 {
						ns0 = start + 1
					}
					p, err := shwap.GenerateSharesProofs(rowOf(i), ns0, ns0+n-1, sq.ODS, sq.ExtendedRowShares(rowOf(i)))
					c01must(t, err)
					e.Proof = p
				}
			}
			resp[i] = e
		case "inclusion->absence":
			// replace an inclusion entry by the honest absence proof of a neighbouring absent namespace
			if len(resp) == 0 || len(refShares) == 0 {
				ok = false
				break
			}
			i := rapid.IntRange(0, len(resp)-1).Draw(t, "rowi")
			odd := vk.OddNS(rapid.IntRange(0, 6).Draw(t, "odd"))
			e, err := direct.RowNamespaceData(ctx, odd, rowOf(i))
			if err != nil {
				ok = false
				break
			}
			resp[i] = e
		case "absence->inclusion":
			// for an absent namespace, answer a row with the inclusion entry of a namespace that is present there
			if len(resp) == 0 || len(refShares) != 0 {
				ok = false
				break
			}
			i := rapid.IntRange(0, len(resp)-1).Draw(t, "rowi")
			c := rapid.IntRange(0, sq.ODS-1).Draw(t, "col")
			other := sq.Shares[rowOf(i)*sq.ODS+c].Namespace()
			e, err := direct.RowNamespaceData(ctx, other, rowOf(i))
			if err != nil {
				ok = false
				break
			}
			resp[i] = e
		case "absence+shares":
			// an honest absence entry with shares attached (a responder pads an absent namespace)
			i := rapid.IntRange(0, len(resp)-1).Draw(t, "rowi")
			n := rapid.IntRange(1, 3).Draw(t, "nattach")
			e := resp[i]
			for x := 0; x < n; x++ {
				e.Shares = append(e.Shares, sq.Shares[rapid.IntRange(0, sq.ODS*sq.ODS-1).Draw(t, "attach")])
			}
			resp[i] = e
		case "noproof-entry":
			// one entry keeps its shares but loses its proof
			i := rapid.IntRange(0, len(resp)-1).Draw(t, "rowi")
			resp[i].Proof = nil
		case "otherns-entry":
			if len(resp) == 0 {
				ok = false
				break
			}
			i := rapid.IntRange(0, len(resp)-1).Draw(t, "rowi")
			c := rapid.IntRange(0, sq.ODS-1).Draw(t, "col")
			other := sq.Shares[rowOf(i)*sq.ODS+c].Namespace()
			e, err := direct.RowNamespaceData(ctx, other, rowOf(i))
			if err != nil {
				ok = false
				break
			}
			resp[i] = e
		case "otherrow-entry":
			if len(resp) == 0 {
				ok = false
				break
			}
			i := rapid.IntRange(0, len(resp)-1).Draw(t, "rowi")
			r := rapid.IntRange(0, sq.ODS-1).Draw(t, "xrow")
			e, err := direct.RowNamespaceData(ctx, ns, r)
			if err != nil {
				ok = false
				break
			}
			resp[i] = e
		case "sibling":
			sib := vk.GenSibling(t, "sib", sq)
			o, err := eds.NamespaceData(ctx, &eds.Rsmt2D{ExtendedDataSquare: sib.EDS}, ns)
			if err != nil {
				ok = false
				break
			}
			resp = o
		case "bytes":
			var buf bytes.Buffer
			_, err := honest.WriteTo(&buf)
			c01must(t, err)
			mut, _ := vk.MutateBytes(t, "mut", buf.Bytes(), nil)
			var dec shwap.NamespaceData
			if _, err := dec.ReadFrom(bytes.NewReader(mut)); err != nil {
				ok = false
			}
			resp = dec
		}
		wire := "stream"
		if ok && family != "bytes" && family != "honest" {
			// a response reaches the verifier through the shrex stream encoding, through the JSON
			// form (RPC clients) or as a value built by a getter; all three are judged
			wire = rapid.SampledFrom([]string{"stream", "stream", "json", "direct"}).Draw(t, "wire")
			switch wire {
			case "stream":
				var buf bytes.Buffer
				if _, err := resp.WriteTo(&buf); err != nil {
					ok = false
				} else {
					var dec shwap.NamespaceData
					if _, err := dec.ReadFrom(bytes.NewReader(buf.Bytes())); err != nil {
						ok = false
					} else {
						resp = dec
					}
				}
			case "json":
				js, err := json.Marshal(resp)
				if err != nil {
					ok = false
					break
				}
				var dec shwap.NamespaceData
				if err := json.Unmarshal(js, &dec); err != nil {
					ok = false
				} else {
					resp = dec
				}
			}
		}

		accepted := false
		changes := false
		if ok {
			changes = vk.SharesBytesEqual(resp.Flatten(), refShares) != nil || len(resp) != len(refRows) || swapsKind(resp, honest)
			verr := safeVerify(func() error { return resp.Verify(sq.Roots, ns) })
			if p, isPanic := verr.(panicErr); isPanic {
				if wire == "direct" {
					// a value no decoder produced: a panic is not judged, acceptance of wrong data is
					vk.Count("panic_on_direct_value", 1)
					verr = fmt.Errorf("panic: %v", p.v)
				} else {
					t.Fatalf("C02 NamespaceData.Verify panicked on a decoded response (family %s, wire %s, ns %s, %s): %v", family, wire, vk.NsShort(ns), sq.Desc(), p.v)
				}
			}
			if verr == nil {
				accepted = true
				if err := vk.SharesBytesEqual(resp.Flatten(), refShares); err != nil {
					t.Fatalf("C02 accepted namespace data for ns %s [%s] (family %s, square %s) is not exactly the namespace's shares in block order: %v",
						vk.NsShort(ns), class, family, sq.Desc(), err)
				}
				if len(resp) != len(refRows) {
					t.Fatalf("C02 accepted namespace data has %d row entries; rows whose range covers ns %s are %v (family %s, square %s)",
						len(resp), vk.NsShort(ns), refRows, family, sq.Desc())
				}
				if len(refShares) == 0 {
					for i, e := range resp {
						if len(e.Shares) != 0 || e.Proof == nil || !e.Proof.IsOfAbsence() {
							t.Fatalf("C02 accepted response for an absent namespace has a non-absence entry %d (family %s, ns %s, square %s)",
								i, family, vk.NsShort(ns), sq.Desc())
						}
					}
				} else {
					for i, e := range resp {
						if len(e.Shares) == 0 {
							t.Fatalf("C02 accepted response for a present namespace claims absence in row entry %d (family %s, ns %s, square %s)",
								i, family, vk.NsShort(ns), sq.Desc())
						}
					}
				}
			}
		}
		nontrivial := (family == "honest" && (len(refRows) >= 2 || class == "absent-between")) || (ok && changes && family != "honest")
		labels := []string{"nd:" + family, "ns=" + class, fmt.Sprintf("ods=%d", sq.ODS), fmt.Sprintf("accepted=%v", accepted),
			fmt.Sprintf("nsrows=%d", min(3, len(refRows))), fmt.Sprintf("applicable=%v", ok), "wire=" + wire}
		if len(refShares) > 0 && len(refShares)%sq.ODS == 0 && len(refRows)*sq.ODS == len(refShares) {
			labels = append(labels, "ns-fills-whole-rows")
		}
		vk.RecordHash(vk.Hash64(sq.Desc(), ns.Bytes(), family, ndKey(resp)), labels, nontrivial, func() any {
			return map[string]any{"square": sq.Desc(), "namespace": vk.NsShort(ns), "class": class, "family": family,
				"rows_covering": refRows, "ns_shares": len(refShares), "accepted": accepted}
		})
	})
}

func proofNodesEqual(a, b shwap.RowNamespaceData) bool {
	an, bn := a.Proof.Nodes(), b.Proof.Nodes()
	if len(an) != len(bn) {
		return false
	}
	for i := range an {
		if !bytes.Equal(an[i], bn[i]) {
			return false
		}
	}
	return bytes.Equal(a.Proof.LeafHash(), b.Proof.LeafHash())
}

// swapsKind reports whether some entry changed between inclusion and absence.
func swapsKind(resp, honest shwap.NamespaceData) bool {
	if len(resp) != len(honest) {
		return true
	}
	for i := range resp {
		if resp[i].Proof == nil || honest[i].Proof == nil {
			return true
		}
		if resp[i].Proof.IsOfAbsence() != honest[i].Proof.IsOfAbsence() {
			return true
		}
	}
	return false
}

// TestVerifC02_IDRefusesNonDataNamespaces: namespace-data identifiers for parity / tail-padding
// namespaces are refused by the constructors (the request can never be made).
func TestVerifC02_IDRefusesNonDataNamespaces(t *testing.T) {
	defer vk.Flush()
	rapid.Check(t, func(t *rapid.T) {
		h := rapid.Uint64Min(1).Draw(t, "h")
		ns := rapid.SampledFrom([]libshare.Namespace{
			libshare.ParitySharesNamespace, libshare.TailPaddingNamespace,
		}).Draw(t, "ns")
		if _, err := shwap.NewNamespaceDataID(h, ns); err == nil {
			t.Fatalf("C02 NewNamespaceDataID accepted namespace %s", ns.String())
		}
		if _, err := shwap.NewRowNamespaceDataID(h, 0, ns, 4); err == nil {
			t.Fatalf("C02 NewRowNamespaceDataID accepted namespace %s", ns.String())
		}
		vk.Record(fmt.Sprintf("%d %s", h, ns.String()), []string{"id-refusal"}, false, nil)
	})
}
