package shwap

// C18 — identifiers and containers survive the wire unchanged or are refused.
// Harness file of /verif (injected by overlay; not part of celestia-node).

import (
	"bytes"
	"encoding/binary"
	"encoding/json"
	"fmt"
	"io"
	"testing"

	libshare "github.com/celestiaorg/go-square/v4/share"
	"github.com/celestiaorg/rsmt2d"
	"pgregory.net/rapid"

	vk "github.com/celestiaorg/celestia-node/internal/verifkit"
)

var c18Heights = []uint64{
	1, 2, 255, 256, 65535, 65536, 1<<32 - 1, 1 << 32, 1<<63 - 1, 1 << 63, 1<<64 - 2, 1<<64 - 1,
}

func genHeight(t *rapid.T) uint64 {
	if rapid.IntRange(0, 2).Draw(t, "hkind") == 0 {
		return rapid.SampledFrom(c18Heights).Draw(t, "hconst")
	}
	return rapid.Uint64Min(1).Draw(t, "h")
}

var c18EdsSizes = []int{2, 4, 8, 16, 32, 64, 128, 256, 512, 1024}

// biasedIndex draws from [0,n) with bias to the borders and the ODS/parity boundary.
func biasedIndex(t *rapid.T, label string, n int) int {
	switch rapid.IntRange(0, 5).Draw(t, label+".kind") {
	case 0:
		return 0
	case 1:
		return n - 1
	case 2:
		return n/2 - 1 + rapid.IntRange(0, 1).Draw(t, label+".half")
	default:
		return rapid.IntRange(0, n-1).Draw(t, label)
	}
}

func edge(pct int, v, n int) bool { // v in the bottom or top pct% of [0,n)
	return v*100 < n*pct || (n-1-v)*100 < n*pct
}

// TestVerifC18_IDs: every identifier a constructor accepts survives every encoding unchanged,
// and an identifier accepted by Verify(size) addresses a position inside the square.
func TestVerifC18_IDs(t *testing.T) {
	defer vk.Flush()
	rapid.Check(t, func(t *rapid.T) {
		height := genHeight(t)
		eds := rapid.SampledFrom(c18EdsSizes).Draw(t, "eds")
		ods := eds / 2
		kind := rapid.SampledFrom([]string{"eds", "row", "sample", "nd", "rownd", "range", "rangeV0"}).Draw(t, "idkind")
		nontrivial := false
		desc := fmt.Sprintf("%s h=%d eds=%d", kind, height, eds)
		for _, c := range c18Heights {
			if c == height {
				nontrivial = true
			}
		}
		ns := genAnyDataNamespace(t)
		switch kind {
		case "eds":
			id, err := NewEdsID(height)
			if err != nil {
				t.Fatalf("constructor refused a valid id: %v", err)
			}
			bin, err := id.MarshalBinary()
			must(t, err)
			if len(bin) != EdsIDSize {
				t.Fatalf("encoded size %d != %d", len(bin), EdsIDSize)
			}
			got, err := EdsIDFromBinary(bin)
			must(t, err)
			if got.Height() != height {
				t.Fatalf("height changed on the wire: %d -> %d", height, got.Height())
			}
			var rd EdsID
			streamRoundTrip(t, id.WriteTo, rd.ReadFrom, EdsIDSize)
			if rd.Height() != height {
				t.Fatalf("height changed on the stream: %d -> %d", height, rd.Height())
			}
		case "row":
			row := biasedIndex(t, "row", eds)
			desc += fmt.Sprintf(" row=%d", row)
			nontrivial = nontrivial || edge(1, row, eds)
			id, err := NewRowID(height, row, eds)
			if err != nil {
				t.Fatalf("constructor refused a valid id: %v", err)
			}
			bin, err := id.MarshalBinary()
			must(t, err)
			if len(bin) != RowIDSize {
				t.Fatalf("encoded size %d != %d", len(bin), RowIDSize)
			}
			got, err := RowIDFromBinary(bin)
			must(t, err)
			if got.Height() != height || got.RowIndex != row {
				t.Fatalf("id changed on the wire: (%d,%d) -> (%d,%d)", height, row, got.Height(), got.RowIndex)
			}
			var rd RowID
			streamRoundTrip(t, id.WriteTo, rd.ReadFrom, RowIDSize)
			if rd.Height() != height || rd.RowIndex != row {
				t.Fatalf("id changed on the stream")
			}
			if err := got.Verify(eds); err != nil {
				t.Fatalf("decoded id no longer verifies: %v", err)
			}
		case "sample":
			row := biasedIndex(t, "row", eds)
			col := biasedIndex(t, "col", eds)
			desc += fmt.Sprintf(" row=%d col=%d", row, col)
			nontrivial = nontrivial || edge(1, row, eds) || edge(1, col, eds)
			id, err := NewSampleID(height, SampleCoords{Row: row, Col: col}, eds)
			if err != nil {
				t.Fatalf("constructor refused a valid id: %v", err)
			}
			bin, err := id.MarshalBinary()
			must(t, err)
			if len(bin) != SampleIDSize {
				t.Fatalf("encoded size %d != %d", len(bin), SampleIDSize)
			}
			got, err := SampleIDFromBinary(bin)
			must(t, err)
			if got.Height() != height || got.RowIndex != row || got.ShareIndex != col {
				t.Fatalf("id changed on the wire: (%d,%d,%d) -> (%d,%d,%d)", height, row, col, got.Height(), got.RowIndex, got.ShareIndex)
			}
			var rd SampleID
			streamRoundTrip(t, id.WriteTo, rd.ReadFrom, SampleIDSize)
			if !rd.Equals(id) {
				t.Fatalf("id changed on the stream")
			}
			js, err := json.Marshal(id)
			must(t, err)
			var jd SampleID
			must(t, json.Unmarshal(js, &jd))
			if jd.Height() != height || jd.RowIndex != row || jd.ShareIndex != col {
				t.Fatalf("id changed through JSON: %s", js)
			}
			// 1D index helpers agree with the coordinates
			idx, err := SampleCoordsAs1DIndex(SampleCoords{Row: row, Col: col}, eds)
			must(t, err)
			back, err := SampleCoordsFrom1DIndex(idx, eds)
			must(t, err)
			if back.Row != row || back.Col != col {
				t.Fatalf("1D index round trip: (%d,%d) -> %d -> (%d,%d)", row, col, idx, back.Row, back.Col)
			}
		case "nd":
			desc += " ns=" + vk.NsShort(ns)
			id, err := NewNamespaceDataID(height, ns)
			if err != nil {
				t.Fatalf("constructor refused a valid id: %v", err)
			}
			bin, err := id.MarshalBinary()
			must(t, err)
			if len(bin) != NamespaceDataIDSize {
				t.Fatalf("encoded size %d", len(bin))
			}
			got, err := NamespaceDataIDFromBinary(bin)
			must(t, err)
			if got.Height() != height || !got.DataNamespace.Equals(ns) {
				t.Fatalf("id changed on the wire")
			}
			var rd NamespaceDataID
			streamRoundTrip(t, id.WriteTo, rd.ReadFrom, NamespaceDataIDSize)
			if !rd.Equals(id) {
				t.Fatalf("id changed on the stream")
			}
		case "rownd":
			row := biasedIndex(t, "row", eds)
			desc += fmt.Sprintf(" row=%d ns=%s", row, vk.NsShort(ns))
			nontrivial = nontrivial || edge(1, row, eds)
			id, err := NewRowNamespaceDataID(height, row, ns, eds)
			if err != nil {
				t.Fatalf("constructor refused a valid id: %v", err)
			}
			bin, err := id.MarshalBinary()
			must(t, err)
			if len(bin) != RowNamespaceDataIDSize {
				t.Fatalf("encoded size %d", len(bin))
			}
			got, err := RowNamespaceDataIDFromBinary(bin)
			must(t, err)
			if got.Height() != height || got.RowIndex != row || !got.DataNamespace.Equals(ns) {
				t.Fatalf("id changed on the wire")
			}
			var rd RowNamespaceDataID
			streamRoundTrip(t, id.WriteTo, rd.ReadFrom, RowNamespaceDataIDSize)
			if !rd.Equals(id) {
				t.Fatalf("id changed on the stream")
			}
		case "range", "rangeV0":
			area := ods * ods
			from, to := genRange(t, area)
			desc += fmt.Sprintf(" from=%d to=%d", from, to)
			nontrivial = nontrivial || edge(1, from, area) || edge(1, to-1, area) ||
				(from >= 65530 && from <= 65540) || (to >= 65530 && to <= 65540)
			eid, err := NewEdsID(height)
			must(t, err)
			if kind == "range" {
				id, err := NewRangeNamespaceDataID(eid, from, to, ods)
				if err != nil {
					t.Fatalf("constructor refused a valid id: %v", err)
				}
				bin, err := id.MarshalBinary()
				must(t, err)
				if len(bin) != RangeNamespaceDataIDSize {
					t.Fatalf("encoded size %d", len(bin))
				}
				got, err := RangeNamespaceDataIDFromBinary(bin)
				must(t, err)
				if got.Height() != height || got.From != from || got.To != to {
					t.Fatalf("id changed on the wire: [%d,%d) -> [%d,%d)", from, to, got.From, got.To)
				}
				var rd RangeNamespaceDataID
				streamRoundTrip(t, id.WriteTo, rd.ReadFrom, RangeNamespaceDataIDSize)
				if !rd.Equals(id) {
					t.Fatalf("id changed on the stream")
				}
			} else {
				id, err := NewRangeNamespaceDataIDV0(eid, from, to, ods)
				if err != nil {
					// refusing to construct an id the legacy encoding cannot carry is fine
					if from > 0xFFFF || to > 0xFFFF {
						vk.Record(desc, []string{"id=" + kind, "v0-refused-too-large"}, true, nil)
						return
					}
					t.Fatalf("constructor refused a valid id: %v", err)
				}
				bin, err := id.MarshalBinary()
				if err != nil {
					if from > 0xFFFF || to > 0xFFFF {
						vk.Record(desc, []string{"id=" + kind, "v0-refused-too-large"}, true, nil)
						return
					}
					t.Fatalf("encoding failed: %v", err)
				}
				if len(bin) != RangeNamespaceDataIDV0Size {
					t.Fatalf("encoded size %d", len(bin))
				}
				got, err := RangeNamespaceDataIDV0FromBinary(bin)
				if err == nil && (got.Height() != height || got.From != from || got.To != to) {
					t.Fatalf("encoder silently altered the id: [%d,%d) decodes as [%d,%d)", from, to, got.From, got.To)
				}
				if err != nil {
					t.Fatalf("own encoding of an accepted id [%d,%d) is refused by the decoder: %v", from, to, err)
				}
				var rd RangeNamespaceDataIDV0
				streamRoundTrip(t, id.WriteTo, rd.ReadFrom, RangeNamespaceDataIDV0Size)
				if !rd.Equals(id) {
					t.Fatalf("id changed on the stream")
				}
			}
		}
		vk.Record(desc, []string{"id=" + kind, fmt.Sprintf("eds=%d", eds)}, nontrivial, func() any { return desc })
	})
}

// TestVerifC18_VerifyBounds: an identifier (built as a struct, any field values) that Verify
// accepts for a square size addresses a position inside that square.
func TestVerifC18_VerifyBounds(t *testing.T) {
	defer vk.Flush()
	rapid.Check(t, func(t *rapid.T) {
		eds := rapid.SampledFrom(c18EdsSizes).Draw(t, "eds")
		ods := eds / 2
		height := rapid.Uint64Range(0, 3).Draw(t, "h")
		around := func(label string, bound int) int {
			if rapid.Bool().Draw(t, label+".wild") {
				return rapid.SampledFrom([]int{-1 << 40, -65536, -1, 0, 1, 65535, 65536, 65537, 1 << 31, 1 << 32, 1<<62 + 5}).Draw(t, label+".c")
			}
			return bound + rapid.IntRange(-3, 3).Draw(t, label+".d")
		}
		kind := rapid.SampledFrom([]string{"row", "sample", "rownd", "range"}).Draw(t, "kind")
		var desc string
		accepted := false
		switch kind {
		case "row":
			r := around("row", eds)
			id := RowID{EdsID: EdsID{height: height}, RowIndex: r}
			desc = fmt.Sprintf("row h=%d eds=%d r=%d", height, eds, r)
			if id.Verify(eds) == nil {
				accepted = true
				if height == 0 || r < 0 || r >= eds {
					t.Fatalf("Verify accepted %s", desc)
				}
			}
		case "sample":
			r, c := around("row", eds), around("col", eds)
			if rapid.Bool().Draw(t, "rowok") {
				r = rapid.IntRange(0, eds-1).Draw(t, "rv")
			}
			id := SampleID{RowID: RowID{EdsID: EdsID{height: height}, RowIndex: r}, ShareIndex: c}
			desc = fmt.Sprintf("sample h=%d eds=%d r=%d c=%d", height, eds, r, c)
			if id.Verify(eds) == nil {
				accepted = true
				if height == 0 || r < 0 || r >= eds || c < 0 || c >= eds {
					t.Fatalf("Verify accepted %s", desc)
				}
			}
		case "rownd":
			r := around("row", eds)
			id := RowNamespaceDataID{RowID: RowID{EdsID: EdsID{height: height}, RowIndex: r}, DataNamespace: vk.BlobNS(1)}
			desc = fmt.Sprintf("rownd h=%d eds=%d r=%d", height, eds, r)
			if id.Verify(eds) == nil {
				accepted = true
				if height == 0 || r < 0 || r >= eds {
					t.Fatalf("Verify accepted %s", desc)
				}
			}
		case "range":
			from, to := around("from", ods*ods), around("to", ods*ods)
			if rapid.Bool().Draw(t, "fromok") {
				from = rapid.IntRange(0, ods*ods-1).Draw(t, "fv")
			}
			id := RangeNamespaceDataID{EdsID: EdsID{height: height}, From: from, To: to}
			desc = fmt.Sprintf("range h=%d ods=%d from=%d to=%d", height, ods, from, to)
			if id.Verify(ods) == nil {
				accepted = true
				if height == 0 || from < 0 || from >= to || to > ods*ods {
					t.Fatalf("Verify accepted %s", desc)
				}
			}
		}
		lab := "verify=refused"
		if accepted {
			lab = "verify=accepted"
		}
		vk.Record(desc, []string{"bounds:" + kind, lab}, true, func() any { return desc })
	})
}

func genRange(t *rapid.T, area int) (from, to int) {
	switch rapid.IntRange(0, 4).Draw(t, "rngkind") {
	case 0: // around the 16-bit boundary when the square is large enough
		if area > 65540 {
			from = 65530 + rapid.IntRange(0, 10).Draw(t, "f16")
			to = from + 1 + rapid.IntRange(0, 70).Draw(t, "l16")
			if to > area {
				to = area
			}
			return from, to
		}
		fallthrough
	case 1:
		from = rapid.IntRange(0, area-1).Draw(t, "from")
		return from, from + 1
	case 2:
		return 0, area
	case 3:
		to = area
		from = area - 1 - rapid.IntRange(0, min(area-1, 40)).Draw(t, "back")
		return from, to
	default:
		from = rapid.IntRange(0, area-1).Draw(t, "from")
		to = rapid.IntRange(from+1, area).Draw(t, "to")
		return from, to
	}
}

func genAnyDataNamespace(t *rapid.T) libshare.Namespace {
	switch rapid.IntRange(0, 4).Draw(t, "nskind") {
	case 0:
		return libshare.TxNamespace
	case 1:
		return libshare.PayForBlobNamespace
	case 2:
		return vk.HighNS()
	case 3:
		return vk.LowNS()
	default:
		return vk.BlobNS(rapid.IntRange(0, 5).Draw(t, "nsi"))
	}
}

func must(t *rapid.T, err error) {
	if err != nil {
		t.Helper()
		t.Fatalf("unexpected error: %v", err)
	}
}

func streamRoundTrip(
	t *rapid.T,
	write func(w io.Writer) (int64, error),
	read func(r io.Reader) (int64, error),
	size int,
) {
	var buf bytes.Buffer
	n, err := write(&buf)
	must(t, err)
	if int(n) != size || buf.Len() != size {
		t.Fatalf("WriteTo wrote %d (reported %d), want %d", buf.Len(), n, size)
	}
	buf.WriteString("TRAILER")
	m, err := read(&buf)
	must(t, err)
	if int(m) != size {
		t.Fatalf("ReadFrom consumed %d, want %d", m, size)
	}
	if buf.String() != "TRAILER" {
		t.Fatalf("ReadFrom consumed bytes beyond the id")
	}
}

// ---------------------------------------------------------------------------------------------
// decoders fed with arbitrary / mutated bytes

type idDecoder struct {
	name string
	size int
	// dec decodes and returns a canonical re-encoding of the decoded value
	dec func(b []byte) (reenc []byte, fields string, err error)
}

func idDecoders() []idDecoder {
	return []idDecoder{
		{"eds", EdsIDSize, func(b []byte) ([]byte, string, error) {
			id, err := EdsIDFromBinary(b)
			if err != nil {
				return nil, "", err
			}
			out, err := id.MarshalBinary()
			return out, fmt.Sprint(id.Height()), err
		}},
		{"row", RowIDSize, func(b []byte) ([]byte, string, error) {
			id, err := RowIDFromBinary(b)
			if err != nil {
				return nil, "", err
			}
			out, err := id.MarshalBinary()
			return out, fmt.Sprint(id.Height(), id.RowIndex), err
		}},
		{"sample", SampleIDSize, func(b []byte) ([]byte, string, error) {
			id, err := SampleIDFromBinary(b)
			if err != nil {
				return nil, "", err
			}
			out, err := id.MarshalBinary()
			return out, fmt.Sprint(id.Height(), id.RowIndex, id.ShareIndex), err
		}},
		{"nd", NamespaceDataIDSize, func(b []byte) ([]byte, string, error) {
			id, err := NamespaceDataIDFromBinary(b)
			if err != nil {
				return nil, "", err
			}
			out, err := id.MarshalBinary()
			return out, fmt.Sprint(id.Height(), id.DataNamespace.String()), err
		}},
		{"rownd", RowNamespaceDataIDSize, func(b []byte) ([]byte, string, error) {
			id, err := RowNamespaceDataIDFromBinary(b)
			if err != nil {
				return nil, "", err
			}
			out, err := id.MarshalBinary()
			return out, fmt.Sprint(id.Height(), id.RowIndex, id.DataNamespace.String()), err
		}},
		{"range", RangeNamespaceDataIDSize, func(b []byte) ([]byte, string, error) {
			id, err := RangeNamespaceDataIDFromBinary(b)
			if err != nil {
				return nil, "", err
			}
			out, err := id.MarshalBinary()
			return out, fmt.Sprint(id.Height(), id.From, id.To), err
		}},
		{"rangeV0", RangeNamespaceDataIDV0Size, func(b []byte) ([]byte, string, error) {
			id, err := RangeNamespaceDataIDV0FromBinary(b)
			if err != nil {
				return nil, "", err
			}
			out, err := id.MarshalBinary()
			return out, fmt.Sprint(id.Height(), id.From, id.To), err
		}},
	}
}

// checkIDDecoder is the oracle shared by the rapid test and the native fuzz targets.
func checkIDDecoder(d idDecoder, in []byte) (accepted bool, err error) {
	defer func() {
		if r := recover(); r != nil {
			err = fmt.Errorf("decoder %s panicked on %x: %v", d.name, in, r)
		}
	}()
	re, f1, derr := d.dec(in)
	if derr != nil {
		return false, nil
	}
	if len(in) != d.size {
		return true, fmt.Errorf("decoder %s accepted %d bytes (id size %d)", d.name, len(in), d.size)
	}
	if !bytes.Equal(re, in) {
		return true, fmt.Errorf("decoder %s: value decoded from %x re-encodes to %x", d.name, in, re)
	}
	_, f2, derr2 := d.dec(re)
	if derr2 != nil || f1 != f2 {
		return true, fmt.Errorf("decoder %s: re-encoding does not decode to the same value (%s vs %s, %v)", d.name, f1, f2, derr2)
	}
	return true, nil
}

func TestVerifC18_IDDecoders(t *testing.T) {
	defer vk.Flush()
	decs := idDecoders()
	rapid.Check(t, func(t *rapid.T) {
		d := decs[rapid.IntRange(0, len(decs)-1).Draw(t, "dec")]
		var in []byte
		src := rapid.SampledFrom([]string{"valid-mutated", "random-rightsize", "random", "wronglen"}).Draw(t, "src")
		valid := make([]byte, d.size)
		hb := rapid.SliceOfN(rapid.Byte(), d.size, d.size).Draw(t, "validbytes")
		copy(valid, hb)
		if d.name == "nd" || d.name == "rownd" {
			copy(valid[d.size-libshare.NamespaceSize:], vk.BlobNS(2).Bytes())
		}
		switch src {
		case "valid-mutated":
			in, _ = vk.MutateBytes(t, "mut", valid, nil)
		case "random-rightsize":
			in = valid
			if rapid.Bool().Draw(t, "hostile") {
				fill := rapid.SampledFrom([]byte{0x00, 0xFF}).Draw(t, "fill")
				in = bytes.Repeat([]byte{fill}, d.size)
			}
		case "random":
			in = rapid.SliceOfN(rapid.Byte(), 0, 80).Draw(t, "bytes")
		case "wronglen":
			delta := rapid.SampledFrom([]int{-2, -1, 1, 2, 8}).Draw(t, "delta")
			n := d.size + delta
			if n < 0 {
				n = 0
			}
			in = make([]byte, n)
			copy(in, valid)
			if n > d.size {
				in[0] = 1
			}
		}
		acc, err := checkIDDecoder(d, in)
		if err != nil {
			t.Fatalf("%v", err)
		}
		lab := "refused"
		if acc {
			lab = "accepted"
		}
		vk.RecordHash(vk.Hash64(d.name, in), []string{"decoder=" + d.name, "src=" + src, lab}, src != "random",
			func() any { return fmt.Sprintf("%s(%x) -> %s", d.name, in, lab) })
	})
}

// ---------------------------------------------------------------------------------------------
// containers

func sampleEq(a, b Sample) bool {
	pa, _ := a.ToProto().Marshal()
	pb, _ := b.ToProto().Marshal()
	return bytes.Equal(pa, pb) && a.ProofType == b.ProofType
}

// codec is one decoder of a container together with the matching encoder.
type codec struct {
	dec func([]byte) (any, error)
	enc func(any) ([]byte, error)
}

// decodeStable feeds enc to the decoder. A panic inside the decoder is a failure (the property:
// decoders never panic on arbitrary bytes). What happens when an accepted value is re-encoded
// is only counted (the property makes no statement about values that no constructor produced).
func decodeStable(name string, enc []byte, c codec) (accepted bool, err error) {
	var v any
	func() {
		defer func() {
			if r := recover(); r != nil {
				err = fmt.Errorf("%s decoder panicked on %d bytes (%.200q): %v", name, len(enc), enc, r)
			}
		}()
		var derr error
		v, derr = c.dec(enc)
		accepted = derr == nil
	}()
	if err != nil || !accepted {
		return accepted, err
	}
	func() {
		defer func() {
			if r := recover(); r != nil {
				vk.Count("reencode_panics_on_accepted_mutant:"+name, 1)
			}
		}()
		re1, e1 := c.enc(v)
		if e1 != nil {
			vk.Count("reencode_errors:"+name, 1)
			return
		}
		v2, e2 := c.dec(re1)
		if e2 != nil {
			vk.Count("reencode_not_decodable:"+name, 1)
			return
		}
		re2, e3 := c.enc(v2)
		if e3 != nil || !bytes.Equal(re1, re2) {
			vk.Count("reencode_unstable:"+name, 1)
		}
	}()
	return true, nil
}

func streamCodec[T any, PT interface {
	*T
	io.ReaderFrom
	io.WriterTo
}]() codec {
	return codec{
		dec: func(b []byte) (any, error) {
			v := PT(new(T))
			_, err := v.ReadFrom(bytes.NewReader(b))
			return v, err
		},
		enc: func(v any) ([]byte, error) {
			var out bytes.Buffer
			_, err := v.(PT).WriteTo(&out)
			return out.Bytes(), err
		},
	}
}

func jsonCodec[T any]() codec {
	return codec{
		dec: func(b []byte) (any, error) {
			v := new(T)
			err := json.Unmarshal(b, v)
			return v, err
		},
		enc: func(v any) ([]byte, error) { return json.Marshal(v) },
	}
}

var (
	sampleStream = streamCodec[Sample]()
	rowStream    = streamCodec[Row]()
	rndStream    = streamCodec[RowNamespaceData]()
	ndStream     = streamCodec[NamespaceData]()
	rangeStream  = streamCodec[RangeNamespaceData]()
	sampleJSON   = jsonCodec[Sample]()
	rowJSON      = jsonCodec[Row]()
	rndJSON      = jsonCodec[RowNamespaceData]()
	rangeJSON    = jsonCodec[RangeNamespaceData]()
)

// TestVerifC18_Containers: honest containers from generated squares survive protobuf/stream and
// JSON unchanged; decoders given mutated encodings return a value or an error, never panic, and
// what they accept re-encodes stably.
func TestVerifC18_Containers(t *testing.T) {
	defer vk.Flush()
	rapid.Check(t, func(t *rapid.T) {
		sq := vk.GenSquare(t, "sq", vk.SquareOpts{ODS: []int{1, 2, 4, 8}, AllowEmpty: true})
		w := sq.Width()
		kind := rapid.SampledFrom([]string{"sample", "row", "rownd", "nd", "range"}).Draw(t, "ckind")
		labels := []string{"container=" + kind, fmt.Sprintf("ods=%d", sq.ODS)}
		desc := sq.Desc() + " " + kind
		var (
			enc, js    []byte
			stream, jf codec
		)
		switch kind {
		case "sample":
			r, c := biasedIndex(t, "row", w), biasedIndex(t, "col", w)
			axis := rapid.SampledFrom([]rsmt2d.Axis{rsmt2d.Row, rsmt2d.Col}).Draw(t, "axis")
			desc += fmt.Sprintf(" (%d,%d) axis=%d", r, c, axis)
			var smpl Sample
			var err error
			if axis == rsmt2d.Row {
				smpl, err = SampleFromShares(sq.ExtendedRowShares(r), rsmt2d.Row, SampleCoords{Row: r, Col: c})
			} else {
				smpl, err = SampleFromShares(sq.ExtendedColShares(c), rsmt2d.Col, SampleCoords{Row: c, Col: r})
			}
			must(t, err)
			if err := smpl.Verify(sq.Roots, r, c); err != nil {
				t.Fatalf("honest sample does not verify: %v", err)
			}
			quad := fmt.Sprintf("quadrant=%d", 2*b2i(r >= sq.ODS)+b2i(c >= sq.ODS))
			labels = append(labels, quad, fmt.Sprintf("axis=%d", axis))
			var buf bytes.Buffer
			_, err = smpl.WriteTo(&buf)
			must(t, err)
			enc = buf.Bytes()
			var back Sample
			_, err = back.ReadFrom(bytes.NewReader(enc))
			must(t, err)
			if !sampleEq(smpl, back) || !bytes.Equal(back.ToBytes(), sq.RefShare(r, c)) {
				t.Fatalf("sample changed on the stream")
			}
			if err := back.Verify(sq.Roots, r, c); err != nil {
				t.Fatalf("decoded sample does not verify: %v", err)
			}
			js, err = json.Marshal(smpl)
			must(t, err)
			var jb Sample
			must(t, json.Unmarshal(js, &jb))
			if !sampleEq(smpl, jb) {
				t.Fatalf("sample changed through JSON")
			}
			stream, jf = sampleStream, sampleJSON
		case "row":
			r := biasedIndex(t, "row", w)
			side := rapid.SampledFrom([]RowSide{Left, Right, Both}).Draw(t, "side")
			desc += fmt.Sprintf(" row=%d side=%d", r, side)
			labels = append(labels, "side="+side.String())
			row, err := RowFromEDS(sq.EDS, r, side)
			must(t, err)
			var buf bytes.Buffer
			_, err = row.WriteTo(&buf)
			must(t, err)
			enc = buf.Bytes()
			var back Row
			_, err = back.ReadFrom(bytes.NewReader(enc))
			must(t, err)
			if err := back.Verify(sq.Roots, r); err != nil {
				t.Fatalf("decoded row does not verify: %v", err)
			}
			shrs, err := back.Shares()
			must(t, err)
			if err := vk.SharesBytesEqual(shrs, sq.Ref[r]); err != nil {
				t.Fatalf("row changed on the stream: %v", err)
			}
			js, err = json.Marshal(row)
			must(t, err)
			var jb Row
			must(t, json.Unmarshal(js, &jb))
			if err := jb.Verify(sq.Roots, r); err != nil {
				t.Fatalf("row decoded from JSON does not verify: %v", err)
			}
			jshrs, err := jb.Shares()
			must(t, err)
			if err := vk.SharesBytesEqual(jshrs, sq.Ref[r]); err != nil {
				t.Fatalf("row changed through JSON: %v", err)
			}
			stream, jf = rowStream, rowJSON
		case "rownd", "nd":
			ns, nslab := genTargetNamespace(t, sq)
			labels = append(labels, "ns="+nslab)
			rows := sq.RefRowsCovering(ns)
			desc += " ns=" + vk.NsShort(ns)
			var nd NamespaceData
			for _, r := range rows {
				rnd, err := RowNamespaceDataFromShares(sq.ExtendedRowShares(r), ns, r)
				must(t, err)
				nd = append(nd, rnd)
			}
			if kind == "rownd" {
				if len(nd) == 0 {
					vk.Record(desc, append(labels, "no-row"), false, nil)
					return
				}
				i := rapid.IntRange(0, len(nd)-1).Draw(t, "rowpick")
				rnd := nd[i]
				if rnd.Proof.IsOfAbsence() {
					labels = append(labels, "proof=absence")
				} else {
					labels = append(labels, "proof=inclusion")
				}
				var buf bytes.Buffer
				_, err := rnd.WriteTo(&buf)
				must(t, err)
				enc = buf.Bytes()
				var back RowNamespaceData
				_, err = back.ReadFrom(bytes.NewReader(enc))
				must(t, err)
				if err := back.Verify(sq.Roots, ns, rows[i]); err != nil {
					t.Fatalf("decoded row namespace data does not verify: %v", err)
				}
				if len(back.Shares) != len(rnd.Shares) {
					t.Fatalf("share count changed on the stream")
				}
				js, err = json.Marshal(rnd)
				must(t, err)
				var jb RowNamespaceData
				must(t, json.Unmarshal(js, &jb))
				if err := jb.Verify(sq.Roots, ns, rows[i]); err != nil {
					t.Fatalf("row namespace data decoded from JSON does not verify: %v", err)
				}
				stream, jf = rndStream, rndJSON
			} else {
				labels = append(labels, fmt.Sprintf("ndrows=%d", min(len(nd), 3)))
				var buf bytes.Buffer
				_, err := nd.WriteTo(&buf)
				must(t, err)
				enc = buf.Bytes()
				var back NamespaceData
				_, err = back.ReadFrom(bytes.NewReader(enc))
				must(t, err)
				if err := back.Verify(sq.Roots, ns); err != nil {
					t.Fatalf("decoded namespace data does not verify: %v", err)
				}
				if err := vk.SharesBytesEqual(back.Flatten(), sq.RefNamespace(ns)); err != nil {
					t.Fatalf("namespace data changed on the stream: %v", err)
				}
				stream = ndStream
			}
		case "range":
			if sq.Empty {
				vk.Record(desc, append(labels, "empty"), false, nil)
				return
			}
			idx := rapid.IntRange(0, sq.ODS*sq.ODS-1).Draw(t, "rangeanchor")
			lo, hi := sq.NSStretch(idx)
			from := rapid.IntRange(lo, hi-1).Draw(t, "from")
			to := rapid.IntRange(from+1, hi).Draw(t, "to") // exclusive
			fc := SampleCoords{Row: from / sq.ODS, Col: from % sq.ODS}
			tc := SampleCoords{Row: (to - 1) / sq.ODS, Col: (to - 1) % sq.ODS}
			desc += fmt.Sprintf(" range=[%d,%d)", from, to)
			ext := make([][]libshare.Share, 0, tc.Row-fc.Row+1)
			for r := fc.Row; r <= tc.Row; r++ {
				ext = append(ext, sq.ExtendedRowShares(r))
			}
			rng, err := RangeNamespaceDataFromShares(ext, fc, tc)
			must(t, err)
			np := b2i(rng.FirstIncompleteRowProof != nil) + b2i(rng.LastIncompleteRowProof != nil)
			labels = append(labels, fmt.Sprintf("partialproofs=%d", np), fmt.Sprintf("rangerows=%d", min(3, tc.Row-fc.Row+1)))
			var buf bytes.Buffer
			_, err = rng.WriteTo(&buf)
			must(t, err)
			enc = buf.Bytes()
			var back RangeNamespaceData
			_, err = back.ReadFrom(bytes.NewReader(enc))
			must(t, err)
			if err := back.VerifyInclusion(fc, tc, sq.ODS, sq.Roots.RowRoots[fc.Row:tc.Row+1]); err != nil {
				t.Fatalf("decoded range data does not verify: %v (first=%v last=%v)", err,
					rng.FirstIncompleteRowProof != nil, rng.LastIncompleteRowProof != nil)
			}
			want := make([][]byte, 0, to-from)
			for i := from; i < to; i++ {
				want = append(want, sq.Ref[i/sq.ODS][i%sq.ODS])
			}
			if err := vk.SharesBytesEqual(back.Flatten(), want); err != nil {
				t.Fatalf("range data changed on the stream: %v", err)
			}
			js, err = json.Marshal(rng)
			must(t, err)
			var jb RangeNamespaceData
			must(t, json.Unmarshal(js, &jb))
			if err := jb.VerifyInclusion(fc, tc, sq.ODS, sq.Roots.RowRoots[fc.Row:tc.Row+1]); err != nil {
				t.Fatalf("range data decoded from JSON does not verify: %v", err)
			}
			if err := vk.SharesBytesEqual(jb.Flatten(), want); err != nil {
				t.Fatalf("range data changed through JSON: %v", err)
			}
			stream, jf = rangeStream, rangeJSON
		}

		// decoders on the honest and on mutated encodings
		if acc, err := decodeStable(kind+"/stream", enc, stream); err != nil || (!acc && len(enc) > 0) {
			t.Fatalf("honest %s encoding: accepted=%v err=%v", kind, acc, err)
		}
		// wrong length: a stream cut anywhere but at a message boundary must be refused
		if len(enc) > 0 {
			cut := rapid.IntRange(0, len(enc)-1).Draw(t, "cut")
			if rapid.Bool().Draw(t, "cutnearend") {
				cut = len(enc) - 1 - rapid.IntRange(0, min(len(enc)-1, 8)).Draw(t, "cutback")
			}
			atBoundary := false
			for _, b := range messageBoundaries(enc) {
				if b == cut {
					atBoundary = true
				}
			}
			multi := kind == "nd" || kind == "range"
			if !(multi && atBoundary) {
				acc, err := decodeStable(kind+"/stream", enc[:cut], stream)
				if err != nil {
					t.Fatalf("%v", err)
				}
				if acc {
					t.Fatalf("C18 %s stream decoder accepted an encoding cut to %d of %d bytes (not a message boundary): wrong-length input must be refused",
						kind, cut, len(enc))
				}
				labels = append(labels, "truncated-midmessage-refused")
			}
		}
		mutated, mk := vk.MutateBytes(t, "mut", enc, nil)
		acc, err := decodeStable(kind+"/stream", mutated, stream)
		if err != nil {
			t.Fatalf("%v", err)
		}
		labels = append(labels, "mut="+mk, fmt.Sprintf("mutaccepted=%v", acc))
		if jf.dec != nil {
			if _, err := decodeStable(kind+"/json", js, jf); err != nil {
				t.Fatalf("%v", err)
			}
			jm := mutateJSON(t, js)
			jacc, err := decodeStable(kind+"/json", jm, jf)
			if err != nil {
				t.Fatalf("%v", err)
			}
			labels = append(labels, fmt.Sprintf("jsonmutaccepted=%v", jacc))
		}
		vk.RecordHash(vk.Hash64(desc, mutated), labels, true, func() any {
			return map[string]any{"square": sq.Desc(), "container": desc, "encoded_len": len(enc), "mutation": mk}
		})
	})
}

func b2i(b bool) int {
	if b {
		return 1
	}
	return 0
}

// mutateJSON either byte-mutates the JSON text or substitutes a hostile value for a known field.
func mutateJSON(t *rapid.T, js []byte) []byte {
	if rapid.Bool().Draw(t, "jsonfield") {
		repl := [][2]string{
			{`"side":"LEFT"`, `"side":"left"`}, {`"side":"RIGHT"`, `"side":""`}, {`"side":"BOTH"`, `"side":"NONE"`},
			{`"side":"LEFT"`, `"side":"BOTH"`}, {`"proof_type":0`, `"proof_type":7`}, {`"proof_type":1`, `"proof_type":-1`},
			{`"start":`, `"start":-`}, {`"end":`, `"end":99999999999`}, {`"shares":[`, `"shares":[null,`},
			{`"proof":{`, `"proof":null,"x":{`}, {`"nodes":[`, `"nodes":[null,`}, {`"shares":`, `"shares":null,"y":`},
		}
		i := rapid.IntRange(0, len(repl)-1).Draw(t, "jsonrepl")
		if bytes.Contains(js, []byte(repl[i][0])) {
			return bytes.Replace(js, []byte(repl[i][0]), []byte(repl[i][1]), 1)
		}
	}
	out, _ := vk.MutateBytes(t, "jmut", js, nil)
	return out
}

// genTargetNamespace draws a namespace of one of the classes of C02.
func genTargetNamespace(t *rapid.T, sq *vk.Square) (libshare.Namespace, string) {
	present := sq.NamespacesPresent()
	switch rapid.IntRange(0, 6).Draw(t, "nsclass") {
	case 0, 1, 2:
		ns := present[rapid.IntRange(0, len(present)-1).Draw(t, "nspick")]
		if ns.IsTailPadding() || ns.IsPrimaryReservedPadding() {
			// not a namespace ValidateForData accepts; fall through to an absent one
			return vk.OddNS(rapid.IntRange(0, 6).Draw(t, "odd")), "absent"
		}
		if ns.IsReserved() {
			return ns, "present-reserved"
		}
		return ns, "present"
	case 3, 4:
		return vk.OddNS(rapid.IntRange(0, 6).Draw(t, "odd")), "absent"
	case 5:
		return vk.LowNS(), "low"
	default:
		return vk.HighNS(), "high"
	}
}

// ---------------------------------------------------------------------------------------------
// native fuzz targets (thorough tier): same oracles, coverage-guided byte search

func FuzzVerifC18_IDDecoders(f *testing.F) {
	decs := idDecoders()
	for i, d := range decs {
		valid := make([]byte, d.size)
		valid[7] = 1 // height 1
		if d.name == "nd" || d.name == "rownd" {
			copy(valid[d.size-libshare.NamespaceSize:], vk.BlobNS(2).Bytes())
		}
		if d.name == "range" {
			valid[d.size-1] = 1 // to = 1
		}
		if d.name == "rangeV0" {
			valid[d.size-1] = 1
		}
		f.Add(uint8(i), valid)
		f.Add(uint8(i), bytes.Repeat([]byte{0xFF}, d.size))
		f.Add(uint8(i), bytes.Repeat([]byte{0x00}, d.size))
		f.Add(uint8(i), valid[:d.size-1])
		f.Add(uint8(i), append(append([]byte(nil), valid...), 0))
	}
	f.Fuzz(func(t *testing.T, sel uint8, data []byte) {
		d := decs[int(sel)%len(decs)]
		if _, err := checkIDDecoder(d, data); err != nil {
			t.Fatalf("C18 %v", err)
		}
	})
}

func fuzzCodecs() []struct {
	name string
	c    codec
} {
	return []struct {
		name string
		c    codec
	}{
		{"sample/stream", sampleStream}, {"row/stream", rowStream}, {"rownd/stream", rndStream}, {"nd/stream", ndStream},
		{"range/stream", rangeStream}, {"sample/json", sampleJSON}, {"row/json", rowJSON}, {"rownd/json", rndJSON}, {"range/json", rangeJSON},
	}
}

func FuzzVerifC18_ContainerDecoders(f *testing.F) {
	cs := fuzzCodecs()
	// corpus: honest encodings from one small fixed square
	sq := vk.BuildSquare(2, 1, []vk.Run{{NS: vk.BlobNS(0), Start: 0, Len: 2}, {NS: vk.BlobNS(1), Start: 2, Len: 1}}, 42)
	smpl, _ := SampleFromShares(sq.ExtendedRowShares(1), rsmt2d.Row, SampleCoords{Row: 1, Col: 2})
	row, _ := RowFromEDS(sq.EDS, 0, Left)
	rnd, _ := RowNamespaceDataFromShares(sq.ExtendedRowShares(0), vk.BlobNS(0), 0)
	abs, _ := RowNamespaceDataFromShares(sq.ExtendedRowShares(1), vk.OddNS(1), 1)
	rng, _ := RangeNamespaceDataFromShares([][]libshare.Share{sq.ExtendedRowShares(0)}, SampleCoords{Row: 0, Col: 0}, SampleCoords{Row: 0, Col: 1})
	vals := []any{&smpl, &row, &rnd, &NamespaceData{rnd, abs}, &rng, &smpl, &row, &rnd, &rng}
	for i, c := range cs {
		if enc, err := c.c.enc(vals[i]); err == nil {
			f.Add(uint8(i), enc)
		}
		f.Add(uint8(i), []byte{})
		f.Add(uint8(i), []byte{0xFF, 0xFF, 0xFF, 0xFF, 0x0F})
	}
	if enc, err := rndStream.enc(&abs); err == nil {
		f.Add(uint8(2), enc)
	}
	f.Add(uint8(6), []byte(`{"shares":[],"side":"NONE"}`))
	f.Add(uint8(5), []byte(`{"share":null,"proof":null,"proof_type":9}`))
	f.Fuzz(func(t *testing.T, sel uint8, data []byte) {
		c := cs[int(sel)%len(cs)]
		if _, err := decodeStable(c.name, data, c.c); err != nil {
			t.Fatalf("C18 %v", err)
		}
	})
}

// messageBoundaries returns the offsets at which a length-delimited (uvarint-prefixed) message
// of the stream starts or ends: 0, end of message 1, end of message 2, ...
func messageBoundaries(b []byte) []int {
	out := []int{0}
	off := 0
	for off < len(b) {
		l, n := binary.Uvarint(b[off:])
		if n <= 0 || off+n+int(l) > len(b) {
			break
		}
		off += n + int(l)
		out = append(out, off)
	}
	return out
}
