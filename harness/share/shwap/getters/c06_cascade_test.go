package getters

// C06 — getters hand back only verified data, even when peers misbehave (cascades).
// Harness file of /verif (injected by overlay; not part of celestia-node).
//
// The cascade is composed the way nodebuilder/share does it: lightGetter = [shrex?, bitswap?] with
// the datastore-backed block store, bridgeGetter = [store getter over a real EDS store that may or
// may not hold the block, shrex?, bitswap?] with the block store over that EDS store. The shrex
// getter runs over c06kit.ShrexNet (scripted fake libp2p host), the Bitswap getter over
// c06kit.BSExchange (scripted exchange applying Bitswap's acceptance rule).
//
// Two ways of ending a call:
//   mode "script": the caller's context is a c06kit.ScriptCtx that ends when the first network
//     getter's script says so — no wall clock involved;
//   mode "clock":  the caller's context carries a real deadline of c06ClockDeadline, so that the
//     cascade's time slicing moves on from a failing shrex getter to Bitswap. Success is only
//     demanded when the honest data arrived with at least c06ClockSpare (hundreds of ms; the work
//     left after that point is micro- to a few milliseconds) left in the slice.

import (
	"context"
	"errors"
	"fmt"
	"os"
	"testing"
	"time"

	"github.com/ipfs/boxo/blockstore"
	"github.com/ipfs/go-cid"
	"github.com/ipfs/go-datastore"
	ds_sync "github.com/ipfs/go-datastore/sync"
	logging "github.com/ipfs/go-log/v2"
	"github.com/libp2p/go-libp2p/p2p/net/conngater"
	"pgregory.net/rapid"

	vk "github.com/celestiaorg/celestia-node/internal/verifkit"
	kit "github.com/celestiaorg/celestia-node/internal/verifkit/c06kit"
	"github.com/celestiaorg/celestia-node/share"
	"github.com/celestiaorg/celestia-node/share/availability"
	"github.com/celestiaorg/celestia-node/share/shwap"
	"github.com/celestiaorg/celestia-node/share/shwap/p2p/bitswap"
	"github.com/celestiaorg/celestia-node/share/shwap/p2p/shrex"
	"github.com/celestiaorg/celestia-node/share/shwap/p2p/shrex/peers"
	"github.com/celestiaorg/celestia-node/share/shwap/p2p/shrex/shrex_getter"
	"github.com/celestiaorg/celestia-node/store"
)

const (
	c06ClockDeadline = 800 * time.Millisecond
	c06ClockSpare    = 300 * time.Millisecond
)

func c06ShrexGetter(net *kit.ShrexNet, npeers int) (*shrex_getter.Getter, func(), error) {
	params := shrex.DefaultClientParameters()
	params.WithNetworkID("c06")
	client, err := shrex.NewClient(params, net)
	if err != nil {
		return nil, nil, err
	}
	mk := func(tag string) (*peers.Manager, error) {
		gater, err := conngater.NewBasicConnectionGater(ds_sync.MutexWrap(datastore.NewMapDatastore()))
		if err != nil {
			return nil, err
		}
		p := peers.DefaultParameters()
		p.PeerCooldown = time.Hour
		return peers.NewManager(*p, net, gater, tag)
	}
	full, err := mk("full")
	if err != nil {
		return nil, nil, err
	}
	arch, err := mk("archival")
	if err != nil {
		return nil, nil, err
	}
	g := shrex_getter.NewGetter(client, full, arch, availability.RequestWindow)
	if err := g.Start(context.Background()); err != nil {
		return nil, nil, err
	}
	for _, p := range kit.PeerIDs(npeers) {
		full.UpdateNodePool(p, true)
		arch.UpdateNodePool(p, true)
	}
	return g, func() { _ = g.Stop(context.Background()) }, nil
}

// c06Wants lists the CIDs the Bitswap getter asks the exchange for.
func c06Wants(r kit.Req, sq *vk.Square, height uint64) ([]cid.Cid, error) {
	w := sq.Width()
	var out []cid.Cid
	switch r.Kind {
	case "samples":
		for _, c := range r.Coords {
			b, err := bitswap.NewEmptySampleBlock(height, c, w)
			if err != nil {
				return nil, err
			}
			out = append(out, b.CID())
		}
	case "row":
		b, err := bitswap.NewEmptyRowBlock(height, r.Row, w)
		if err != nil {
			return nil, err
		}
		out = append(out, b.CID())
	case "eds":
		for i := 0; i < sq.ODS; i++ {
			b, err := bitswap.NewEmptyRowBlock(height, i, w)
			if err != nil {
				return nil, err
			}
			out = append(out, b.CID())
		}
	case "nd":
		rows, err := share.RowsWithNamespace(sq.Roots, r.NS)
		if err != nil {
			return nil, err
		}
		for _, i := range rows {
			b, err := bitswap.NewEmptyRowNamespaceDataBlock(height, i, r.NS, w)
			if err != nil {
				return nil, err
			}
			out = append(out, b.CID())
		}
	default:
		b, err := bitswap.NewEmptyRangeNamespaceDataBlock(height, r.From, r.To, sq.ODS)
		if err != nil {
			return nil, err
		}
		out = append(out, b.CID())
	}
	return out, nil
}

func c06Serve(height uint64) kit.ServeFn {
	return func(sq *vk.Square, c cid.Cid) ([]byte, error) {
		b, err := (&bitswap.Blockstore{Getter: kit.Squares{height: sq}}).Get(context.Background(), c)
		if err != nil {
			return nil, err
		}
		return b.RawData(), nil
	}
}

func TestVerifC06_Cascade(t *testing.T) {
	defer vk.Flush()
	_ = logging.SetLogLevel("*", "fatal")
	rapid.Check(t, c06CascadeCase)
}

func c06CascadeCase(t *rapid.T) {
	sq := vk.GenSquare(t, "sq", vk.SquareOpts{ODS: kit.ODSChoices()})
	sib := vk.GenSibling(t, "sib", sq)
	height := rapid.Uint64Range(1, 1<<40).Draw(t, "height")
	req := kit.GenReq(t, sq, "")
	node := rapid.SampledFrom([]string{"light", "bridge", "bridge"}).Draw(t, "node")
	enabled := rapid.SampledFrom([]string{"shrex+bitswap", "shrex+bitswap", "shrex", "bitswap"}).Draw(t, "getters")
	useShrex, useBitswap := enabled != "bitswap", enabled != "shrex"
	stored := ""
	if node == "bridge" {
		stored = rapid.SampledFrom([]string{"absent", "absent", "odsq4", "ods"}).Draw(t, "stored")
	}
	mode := "script"
	if rapid.IntRange(0, 3).Draw(t, "clockmode") == 0 {
		mode = "clock"
	}
	flavour := context.DeadlineExceeded
	if rapid.Bool().Draw(t, "cancelled") {
		flavour = context.Canceled
	}
	farDeadline := rapid.Bool().Draw(t, "far-deadline")

	infra := func(what string, err error) { t.Fatalf("VERIF-INFRA C06 cascade harness: %s: %v", what, err) }

	// scripts of both network getters (drawn even if the getter is not wired: keeps shrinking simple)
	shrexItems, shrexScripts, err := kit.PrepareShrex(t, req, sq, sib, height, kit.ScriptOpts{})
	if err != nil {
		infra("shrex script", err)
	}
	wants, err := c06Wants(req, sq, height)
	if err != nil {
		infra("wants", err)
	}
	srv := c06Serve(height)
	bsItems, bsScripts, err := kit.PrepareBS(t, req, wants, sq, sib, height, srv, false)
	if err != nil {
		infra("bitswap script", err)
	}

	var (
		ctx    context.Context
		ctl    *kit.ScriptCtx
		cancel = func() {}
	)
	if mode == "script" {
		ctl = kit.NewScriptCtx(farDeadline, flavour)
		ctx, cancel = ctl, ctl.End
	} else {
		ctx, cancel = context.WithTimeout(context.Background(), c06ClockDeadline)
	}
	defer cancel()

	var cascade []shwap.Getter
	var bstore blockstore.Blockstore
	if node == "bridge" {
		dir, err := os.MkdirTemp("", "c06cascade")
		if err != nil {
			infra("temp dir", err)
		}
		defer os.RemoveAll(dir)
		st, err := store.NewStore(store.DefaultParameters(), dir)
		if err != nil {
			infra("store", err)
		}
		defer func() { _ = st.Stop(context.Background()) }()
		switch stored {
		case "odsq4":
			err = st.PutODSQ4(context.Background(), sq.Roots, height, sq.EDS)
		case "ods":
			err = st.PutODS(context.Background(), sq.Roots, height, sq.EDS)
		}
		if err != nil {
			infra("store put", err)
		}
		cascade = append(cascade, store.NewGetter(st))
		bstore, err = bitswap.NewBlockstoreWithMetrics(&bitswap.Blockstore{Getter: st})
		if err != nil {
			infra("block store", err)
		}
	} else {
		bstore, err = bitswap.NewBlockstoreWithMetrics(blockstore.NewBlockstore(ds_sync.MutexWrap(datastore.NewMapDatastore())))
		if err != nil {
			infra("block store", err)
		}
	}
	// in script mode only the first network getter of the cascade can end the caller's context
	net := kit.NewShrexNet(ctl, sq, height, shrexItems)
	net.Barrier = true
	ex := kit.NewBSExchange(ctl, bsItems, func(c cid.Cid) ([]byte, error) { return srv(sq, c) })
	if useShrex {
		g, stop, err := c06ShrexGetter(net, kit.TotalSteps(shrexItems)+4)
		if err != nil {
			infra("shrex getter", err)
		}
		defer stop()
		cascade = append(cascade, g)
	}
	if useBitswap {
		g := bitswap.NewGetter(ex, bstore, availability.RequestWindow)
		g.Start()
		defer g.Stop()
		cascade = append(cascade, g)
	}
	cg := NewCascadeGetter(cascade)

	res, hung := kit.Run(ctx, req, cg, kit.MakeHeader(sq, height, false), cancel)
	cancel()
	ex.Wait()
	what := fmt.Sprintf("request %s at height %d of square {%s}; %s node, getters %s, store %q, mode %s; shrex scripts %s served %v; bitswap scripts %s offered %v",
		req.Desc(), height, sq.Desc(), node, enabled, stored, mode, kit.ScriptsDesc(shrexScripts), net.History(), kit.ScriptsDesc(bsScripts), ex.History())
	if hung {
		t.Fatalf("VERIF-INFRA C06 cascade: the call did not return within %v (%s)", kit.HangBound, what)
	}
	spare := time.Duration(0)
	if mode == "clock" {
		spare = c06ClockSpare
	}
	sst, bst := net.StatsWithSpare(spare), ex.StatsWithSpare(spare)
	if len(bst.Panics) > 0 {
		t.Fatalf("C06 cascade: verification of a received Bitswap block panicked: %s\n  %s", bst.Panics[0], what)
	}
	// (1) only committed data, with or without an error; nil error = complete; no panic
	if err := req.CheckSafety(sq, res); err != nil {
		t.Fatalf("C06 cascade returned unverified or incomplete data, or panicked: %v\n  %s", err, what)
	}
	// (2) success is due when the local store holds the block, or when honest peers answered the
	// getter whose turn it was
	expect := ""
	switch {
	case mode == "script" && stored != "" && stored != "absent":
		expect = "the local store holds the block"
	case useShrex && sst.AllServed:
		expect = "an honest peer answered every shrex request in full"
	case useBitswap && bst.AllOffered && (mode == "clock" || !useShrex):
		expect = "the honest block of every Bitswap want was offered"
	}
	if expect != "" && res.Err != nil {
		if mode == "clock" && (errors.Is(res.Err, context.DeadlineExceeded) || errors.Is(res.Err, context.Canceled)) {
			// In clock mode the cascade slices a real wall-clock deadline between its getters: whether
			// the honest answer is verified before the slice ends depends on machine load (seen once
			// under -race with a loaded machine). A miss by deadline is counted, never raised; the
			// script-driven mode carries the liveness claim without a clock.
			vk.Count("clock_mode_liveness_missed_by_deadline", 1)
		} else {
			t.Fatalf("C06 cascade failed (%v) although %s: expected success\n  %s", res.Err, expect, what)
		}
	}

	answered := "none"
	switch {
	case res.Err != nil:
	case stored != "" && stored != "absent":
		answered = "store"
	case useShrex && sst.AllServed:
		answered = "shrex"
	case useBitswap && bst.AllOffered:
		answered = "bitswap"
	default:
		answered = "other"
	}
	labels := append(req.Labels(sq), "node="+node, "getters="+enabled, "mode="+mode, "answered-by="+answered, "result="+req.ResultShape(res))
	if stored != "" {
		labels = append(labels, "store="+stored)
	}
	for _, l := range sst.Labels {
		if net.Opened > 0 {
			labels = append(labels, "shrex:"+l)
		}
	}
	for _, l := range bst.Labels {
		labels = append(labels, "bitswap:"+l)
	}
	if expect != "" {
		labels = append(labels, "oracle=must-succeed")
	}
	if useShrex && useBitswap && net.Opened > 0 && ex.Calls > 0 {
		labels = append(labels, "fell-through-to-bitswap")
	}
	nontrivial := (net.Opened > 0 && sst.Misbehaved) || (ex.Calls > 0 && bst.Misbehaved)
	vk.Record(fmt.Sprintf("%s|%d|%s|%s|%s|%s|%s|%s|%s|%v%v", sq.Desc(), height, req.Desc(), node, enabled, stored, mode,
		kit.ScriptsDesc(shrexScripts), kit.ScriptsDesc(bsScripts), flavour, farDeadline),
		labels, nontrivial, func() any {
			return map[string]any{"square": sq.Desc(), "request": req.Desc(), "node": node, "getters": enabled, "store": stored, "mode": mode,
				"shrex": kit.ScriptsDesc(shrexScripts), "bitswap": kit.ScriptsDesc(bsScripts), "error": fmt.Sprint(res.Err)}
		})
}
