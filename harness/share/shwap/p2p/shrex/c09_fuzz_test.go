package shrex

// C09 — coverage-guided fuzzing of the request bytes (thorough tier) and the plain replay of its
// corpus. The first input byte selects the protocol, the rest is written to the stream; the
// oracle is the one of c09_test.go (I2-I6 for every input, I1 when the bytes are exactly one
// valid identifier).
// Harness file of /verif (injected by overlay; not part of celestia-node).

import (
	"bytes"
	"os"
	"strconv"
	"strings"
	"testing"

	libshare "github.com/celestiaorg/go-square/v4/share"

	vk "github.com/celestiaorg/celestia-node/internal/verifkit"
)

// c09FixedWorld holds three fixed squares: ODS 2 (two namespaces + tail padding) at height 1,
// ODS 4 (reserved + blobs with namespace padding + tail) at height 2, the empty block at 3.
func c09FixedWorld(tb c09TB, cache int) *c09World {
	sq2 := vk.BuildSquare(2, 1, []vk.Run{
		{NS: vk.BlobNS(0), Start: 0, Len: 2}, {NS: vk.BlobNS(2), Start: 2, Len: 1},
	}, 11)
	sq4 := vk.BuildSquare(4, 3, []vk.Run{
		{NS: libshare.TxNamespace, Start: 0, Len: 1}, {NS: libshare.PayForBlobNamespace, Start: 1, Len: 1},
		{NS: vk.BlobNS(1), Start: 2, Len: 7, Pad: 2}, {NS: vk.BlobNS(3), Start: 9, Len: 4},
	}, 12)
	return c09NewWorld(tb, c09WorldOpts{
		squares: []*vk.Square{sq2, sq4, vk.EmptySquare()},
		heights: []uint64{1, 2, 3},
		q4:      []bool{true, false, true},
		cache:   cache,
	})
}

func c09FuzzSeeds(w *c09World) [][]byte {
	var seeds [][]byte
	add := func(kind int, raw []byte) { seeds = append(seeds, append([]byte{byte(kind)}, raw...)) }
	for _, h := range []uint64{1, 2, 3, 4, 0, 1<<64 - 1} {
		ns := vk.BlobNS(1).Bytes()
		add(c09EDS, c09Encode(c09EDS, c09Fields{height: h}))
		add(c09Row, c09Encode(c09Row, c09Fields{height: h, row: 1}))
		add(c09Sample, c09Encode(c09Sample, c09Fields{height: h, row: 1, col: 3}))
		add(c09ND, c09Encode(c09ND, c09Fields{height: h, ns: ns}))
		add(c09Range, c09Encode(c09Range, c09Fields{height: h, from: 2, to: 7}))
	}
	for kind := 0; kind < c09Kinds; kind++ {
		n := c09IDSize[kind]
		add(kind, nil)
		add(kind, make([]byte, n))
		add(kind, bytes.Repeat([]byte{0xFF}, n))
		add(kind, bytes.Repeat([]byte{0xFF}, n+9))
		add(kind, c09Encode(kind, c09Fields{height: 2, row: 8, col: 8, ns: libshare.ParitySharesNamespace.Bytes(), from: 16, to: 17}))
		add(kind, c09Encode(kind, c09Fields{height: 2, row: 65535, col: 65535, ns: libshare.TailPaddingNamespace.Bytes(), from: 0, to: 1<<32 - 1}))
		add(kind, c09Encode(kind, c09Fields{height: 2, row: 7, col: 7, ns: vk.OddNS(2).Bytes(), from: 15, to: 16})[:n-1])
	}
	return seeds
}

func c09FuzzOne(tb c09TB, w *c09World, data []byte) {
	if len(data) == 0 || len(data) > 200 {
		return
	}
	raw := data[1:]
	w.run(tb, &c09Req{class: "raw", via: "raw", kind: int(data[0]) % c09Kinds, raw: raw, split: len(raw), how: "fuzz"})
}

func FuzzVerifC09_Request(f *testing.F) {
	w := c09FixedWorld(f, 0)
	f.Cleanup(w.close)
	for _, s := range c09FuzzSeeds(w) {
		f.Add(s)
	}
	f.Fuzz(func(t *testing.T, data []byte) {
		c09FuzzOne(t, w, data)
	})
}

// TestVerifC09_FuzzCorpus runs the seed corpus of the fuzz target (and, when VERIF_REPLAY_FILE
// names a saved crasher, that input) through the same oracle, against both store variants.
func TestVerifC09_FuzzCorpus(t *testing.T) {
	defer vk.Flush()
	for _, cache := range []int{0, 10} {
		w := c09FixedWorld(t, cache)
		inputs := c09FuzzSeeds(w)
		if p := os.Getenv("VERIF_REPLAY_FILE"); p != "" && !strings.HasSuffix(p, ".fail") {
			in, err := c09ReadCorpusFile(p)
			if err != nil {
				w.close()
				t.Fatalf("VERIF-INFRA: cannot read %s: %v", p, err)
			}
			inputs = [][]byte{in}
		}
		for _, in := range inputs {
			c09FuzzOne(t, w, in)
		}
		w.close()
	}
}

// c09ReadCorpusFile parses a `go test fuzz v1` corpus file with a single []byte value.
func c09ReadCorpusFile(path string) ([]byte, error) {
	b, err := os.ReadFile(path)
	if err != nil {
		return nil, err
	}
	for _, line := range strings.Split(string(b), "\n") {
		line = strings.TrimSpace(line)
		if strings.HasPrefix(line, "[]byte(") && strings.HasSuffix(line, ")") {
			s, err := strconv.Unquote(line[len("[]byte(") : len(line)-1])
			return []byte(s), err
		}
	}
	return nil, os.ErrInvalid
}
