package shrex

// C09 — fakes for the shrex exchange check: an in-memory libp2p host pair whose streams support
// half-close, reset codes and deadlines, a recording stream scope, a loopback connection and an
// accessor-counting wrapper around the real EDS store.
// Harness file of /verif (injected by overlay; not part of celestia-node).

import (
	"context"
	"errors"
	"fmt"
	"io"
	"os"
	"runtime"
	"runtime/debug"
	"strings"
	"sync"
	"sync/atomic"
	"time"

	"github.com/libp2p/go-libp2p/core/host"
	"github.com/libp2p/go-libp2p/core/network"
	"github.com/libp2p/go-libp2p/core/peer"
	"github.com/libp2p/go-libp2p/core/protocol"
	ma "github.com/multiformats/go-multiaddr"

	libshare "github.com/celestiaorg/go-square/v4/share"
	"github.com/celestiaorg/rsmt2d"

	"github.com/celestiaorg/celestia-node/share"
	"github.com/celestiaorg/celestia-node/share/eds"
	"github.com/celestiaorg/celestia-node/share/shwap"
	"github.com/celestiaorg/celestia-node/store"
)

// ------------------------------------------------------------------------------------------
// one direction of a stream

// c09Window bounds the bytes buffered in one direction (like a muxer's flow-control window):
// a writer blocks until the reader drains, its deadline passes or the stream is reset.
const c09Window = 256 << 10

var errC09ReadClosed = errors.New("c09: stream closed for reading")
var errC09WriteClosed = errors.New("c09: stream closed for writing")

type c09Pipe struct {
	mu      sync.Mutex
	cond    *sync.Cond
	buf     []byte
	wclosed bool  // writer half-closed: reader sees EOF after draining
	rclosed bool  // reader closed its side: further writes are accepted and discarded
	rerr    error // reset, as seen by the reader
	werr    error // reset, as seen by the writer
	rdl     time.Time
	wdl     time.Time
	rtimer  *time.Timer
	wtimer  *time.Timer
	total   int64 // bytes ever accepted from the writer
	// chunk > 0: a Read returns at most chunk bytes (a transport may deliver one write in several
	// segments; readers must not assume that one Read returns a whole message)
	chunk int
	// window > 0 overrides c09Window: how many unread bytes the writer may have in flight
	window int
}

func newC09Pipe() *c09Pipe {
	p := &c09Pipe{}
	p.cond = sync.NewCond(&p.mu)
	return p
}

func (p *c09Pipe) wake() {
	p.mu.Lock()
	p.cond.Broadcast()
	p.mu.Unlock()
}

func (p *c09Pipe) read(b []byte) (int, error) {
	p.mu.Lock()
	defer p.mu.Unlock()
	for {
		if p.rerr != nil {
			return 0, p.rerr
		}
		if p.rclosed {
			return 0, errC09ReadClosed
		}
		if len(p.buf) > 0 {
			if p.chunk > 0 && len(b) > p.chunk {
				b = b[:p.chunk]
			}
			n := copy(b, p.buf)
			p.buf = p.buf[n:]
			p.cond.Broadcast()
			return n, nil
		}
		if p.wclosed {
			return 0, io.EOF
		}
		if !p.rdl.IsZero() && !time.Now().Before(p.rdl) {
			return 0, os.ErrDeadlineExceeded
		}
		p.cond.Wait()
	}
}

func (p *c09Pipe) write(b []byte) (int, error) {
	p.mu.Lock()
	defer p.mu.Unlock()
	written := 0
	for {
		if p.werr != nil {
			return written, p.werr
		}
		if p.wclosed {
			return written, errC09WriteClosed
		}
		if p.rclosed {
			p.total += int64(len(b))
			return written + len(b), nil // the peer no longer reads: data is dropped
		}
		win := p.window
		if win == 0 {
			win = c09Window
		}
		if len(p.buf) < win {
			if p.window == 0 {
				// default window: a write is taken whole once there is room (as before)
				p.buf = append(p.buf, b...)
				p.total += int64(len(b))
				p.cond.Broadcast()
				return written + len(b), nil
			}
			// explicit (small) window: only what fits is taken, the rest waits for the reader
			n := min(len(b), win-len(p.buf))
			p.buf = append(p.buf, b[:n]...)
			p.total += int64(n)
			written += n
			b = b[n:]
			p.cond.Broadcast()
			if len(b) == 0 {
				return written, nil
			}
			continue
		}
		if !p.wdl.IsZero() && !time.Now().Before(p.wdl) {
			return written, os.ErrDeadlineExceeded
		}
		p.cond.Wait()
	}
}

func (p *c09Pipe) setDeadline(read bool, t time.Time) {
	p.mu.Lock()
	defer p.mu.Unlock()
	slot, dl := &p.wtimer, &p.wdl
	if read {
		slot, dl = &p.rtimer, &p.rdl
	}
	if *slot != nil {
		(*slot).Stop()
		*slot = nil
	}
	*dl = t
	if !t.IsZero() {
		d := time.Until(t)
		if d < 0 {
			d = 0
		}
		*slot = time.AfterFunc(d+time.Millisecond, p.wake)
	}
	p.cond.Broadcast()
}

func (p *c09Pipe) stopTimers() {
	p.mu.Lock()
	if p.rtimer != nil {
		p.rtimer.Stop()
	}
	if p.wtimer != nil {
		p.wtimer.Stop()
	}
	p.mu.Unlock()
}

// ------------------------------------------------------------------------------------------
// stream

type c09ResetRec struct {
	code    network.StreamErrorCode
	inPanic bool
	stack   string
}

type c09Stream struct {
	id    string
	in    *c09Pipe // we read from it
	out   *c09Pipe // we write to it
	conn  *c09Conn
	scope *c09Scope
	proto protocol.ID
	dir   network.Direction

	mu     sync.Mutex
	resets []c09ResetRec
	closes int
}

var c09StreamSeq atomic.Int64

var c09Chunks = []int{0, 0, 1, 0, 0, 5, 0, 0, 0, 11, 0, 2}

func newC09StreamPair(client, server peer.ID, pid protocol.ID, scope *c09Scope) (c, s *c09Stream) {
	a, b := newC09Pipe(), newC09Pipe()
	id := c09StreamSeq.Add(1)
	// every few streams deliver their bytes in small segments, in both directions
	a.chunk = c09Chunks[int(id)%len(c09Chunks)]
	b.chunk = a.chunk
	c = &c09Stream{
		id: fmt.Sprintf("c09-%d-c", id), in: b, out: a, proto: pid, dir: network.DirOutbound,
		conn: newC09Conn(client, server), scope: &c09Scope{},
	}
	s = &c09Stream{
		id: fmt.Sprintf("c09-%d-s", id), in: a, out: b, proto: pid, dir: network.DirInbound,
		conn: newC09Conn(server, client), scope: scope,
	}
	return c, s
}

func (s *c09Stream) Read(b []byte) (int, error)  { return s.in.read(b) }
func (s *c09Stream) Write(b []byte) (int, error) { return s.out.write(b) }

func (s *c09Stream) CloseWrite() error {
	s.out.mu.Lock()
	s.out.wclosed = true
	s.out.cond.Broadcast()
	s.out.mu.Unlock()
	return nil
}

func (s *c09Stream) CloseRead() error {
	s.in.mu.Lock()
	s.in.rclosed = true
	s.in.buf = nil
	s.in.cond.Broadcast()
	s.in.mu.Unlock()
	return nil
}

func (s *c09Stream) Close() error {
	s.mu.Lock()
	s.closes++
	s.mu.Unlock()
	_ = s.CloseRead()
	return s.CloseWrite()
}

func (s *c09Stream) Reset() error { return s.ResetWithError(network.StreamNoError) }

func (s *c09Stream) ResetWithError(code network.StreamErrorCode) error {
	rec := c09ResetRec{code: code}
	if c09Panicking() {
		rec.inPanic = true
		rec.stack = string(debug.Stack())
	}
	s.mu.Lock()
	s.resets = append(s.resets, rec)
	s.mu.Unlock()
	local := &network.StreamError{ErrorCode: code, Remote: false}
	remote := &network.StreamError{ErrorCode: code, Remote: true}
	for _, x := range []struct {
		p          *c09Pipe
		rerr, werr error
	}{{s.in, local, remote}, {s.out, remote, local}} {
		x.p.mu.Lock()
		if x.p.rerr == nil {
			x.p.rerr = x.rerr
		}
		if x.p.werr == nil {
			x.p.werr = x.werr
		}
		x.p.buf = nil
		x.p.cond.Broadcast()
		x.p.mu.Unlock()
	}
	return nil
}

func (s *c09Stream) SetDeadline(t time.Time) error {
	s.in.setDeadline(true, t)
	s.out.setDeadline(false, t)
	return nil
}
func (s *c09Stream) SetReadDeadline(t time.Time) error  { s.in.setDeadline(true, t); return nil }
func (s *c09Stream) SetWriteDeadline(t time.Time) error { s.out.setDeadline(false, t); return nil }

func (s *c09Stream) ID() string                        { return s.id }
func (s *c09Stream) Protocol() protocol.ID             { return s.proto }
func (s *c09Stream) SetProtocol(p protocol.ID) error   { s.proto = p; return nil }
func (s *c09Stream) Stat() network.Stats               { return network.Stats{Direction: s.dir} }
func (s *c09Stream) Conn() network.Conn                { return s.conn }
func (s *c09Stream) Scope() network.StreamScope        { return s.scope }
func (s *c09Stream) written() int64                    { s.out.mu.Lock(); defer s.out.mu.Unlock(); return s.out.total }
func (s *c09Stream) resetRecords() []c09ResetRec       { s.mu.Lock(); defer s.mu.Unlock(); return append([]c09ResetRec(nil), s.resets...) }
func (s *c09Stream) stop()                             { s.in.stopTimers(); s.out.stopTimers() }
func (s *c09Stream) isReset() bool                     { s.mu.Lock(); defer s.mu.Unlock(); return len(s.resets) > 0 }
func (s *c09Stream) writeClosed() bool                 { s.out.mu.Lock(); defer s.out.mu.Unlock(); return s.out.wclosed }

// c09Panicking reports whether the calling goroutine is currently unwinding a panic (the caller
// runs inside a deferred function started by runtime.gopanic). It is how the harness sees panics
// that the server's RecoveryMiddleware swallows: the middleware resets the stream from its
// deferred function, and handleDataRequest's deferred Close/ReleaseMemory run the same way.
func c09Panicking() bool {
	pcs := make([]uintptr, 64)
	n := runtime.Callers(2, pcs)
	frames := runtime.CallersFrames(pcs[:n])
	for {
		f, more := frames.Next()
		if f.Function == "runtime.gopanic" {
			return true
		}
		if !more {
			return false
		}
	}
}

// ------------------------------------------------------------------------------------------
// connection: only what the server and client touch; anything else is a nil-interface call and
// would surface as a panic in the exchange.

type c09Conn struct {
	network.Conn
	local, remote peer.ID
	laddr, raddr  ma.Multiaddr
}

var (
	c09LoopbackA = ma.StringCast("/ip4/127.0.0.1/tcp/2121")
	c09LoopbackB = ma.StringCast("/ip4/127.0.0.1/tcp/4242")
)

func newC09Conn(local, remote peer.ID) *c09Conn {
	return &c09Conn{local: local, remote: remote, laddr: c09LoopbackA, raddr: c09LoopbackB}
}

func (c *c09Conn) LocalPeer() peer.ID            { return c.local }
func (c *c09Conn) RemotePeer() peer.ID           { return c.remote }
func (c *c09Conn) LocalMultiaddr() ma.Multiaddr  { return c.laddr }
func (c *c09Conn) RemoteMultiaddr() ma.Multiaddr { return c.raddr }
func (c *c09Conn) ID() string                    { return "c09-conn" }
func (c *c09Conn) IsClosed() bool                { return false }
func (c *c09Conn) Close() error                  { return nil }

// ------------------------------------------------------------------------------------------
// recording stream scope

type c09Scope struct {
	mu          sync.Mutex
	services    []string
	reserved    int64
	released    int64
	reserveArgs []int
	releaseArgs []int
	panicSeen   string // stack of a ReleaseMemory call made while a panic unwinds
	failService bool
	failReserve bool
}

func (s *c09Scope) SetService(name string) error {
	s.mu.Lock()
	defer s.mu.Unlock()
	s.services = append(s.services, name)
	if s.failService {
		return fmt.Errorf("c09 fault: %w", network.ErrResourceLimitExceeded)
	}
	return nil
}

func (s *c09Scope) ReserveMemory(size int, _ uint8) error {
	s.mu.Lock()
	defer s.mu.Unlock()
	s.reserveArgs = append(s.reserveArgs, size)
	if s.failReserve {
		return fmt.Errorf("c09 fault: %w", network.ErrResourceLimitExceeded)
	}
	if size > 0 {
		s.reserved += int64(size)
	}
	return nil
}

func (s *c09Scope) ReleaseMemory(size int) {
	inPanic := c09Panicking()
	s.mu.Lock()
	defer s.mu.Unlock()
	s.releaseArgs = append(s.releaseArgs, size)
	if size > 0 {
		s.released += int64(size)
	}
	if inPanic && s.panicSeen == "" {
		s.panicSeen = string(debug.Stack())
	}
}

func (s *c09Scope) Stat() network.ScopeStat { return network.ScopeStat{} }
func (s *c09Scope) BeginSpan() (network.ResourceScopeSpan, error) {
	return nil, errors.New("c09: spans are not supported by the recording scope")
}

// ------------------------------------------------------------------------------------------
// host / network

// c09Exchange is what the harness knows about one stream handled by a server.
type c09Exchange struct {
	srv     *c09Stream
	cli     *c09Stream
	scope   *c09Scope
	done    chan struct{}
	escaped string // panic value + stack that escaped the handler installed by the server
}

type c09Net struct {
	mu       sync.Mutex
	handlers map[peer.ID]map[protocol.ID]network.StreamHandler
	last     *c09Exchange
	all      []*c09Exchange
	// faults applied to the scope of the next stream
	nextFailService, nextFailReserve bool
	// nextSmallWindow: the next stream lets the server have only 1 KiB in flight (a peer that
	// stops reading its answer)
	nextSmallWindow bool
}

func newC09Net() *c09Net {
	return &c09Net{handlers: map[peer.ID]map[protocol.ID]network.StreamHandler{}}
}

type c09Host struct {
	host.Host
	net *c09Net
	id  peer.ID
}

func (n *c09Net) host(id string) *c09Host { return &c09Host{net: n, id: peer.ID(id)} }

func (h *c09Host) ID() peer.ID  { return h.id }
func (h *c09Host) Close() error { return nil }

func (h *c09Host) SetStreamHandler(pid protocol.ID, handler network.StreamHandler) {
	h.net.mu.Lock()
	defer h.net.mu.Unlock()
	m := h.net.handlers[h.id]
	if m == nil {
		m = map[protocol.ID]network.StreamHandler{}
		h.net.handlers[h.id] = m
	}
	m[pid] = handler
}

func (h *c09Host) RemoveStreamHandler(pid protocol.ID) {
	h.net.mu.Lock()
	defer h.net.mu.Unlock()
	delete(h.net.handlers[h.id], pid)
}

var errC09NoHandler = errors.New("c09: protocols not supported")

func (h *c09Host) NewStream(_ context.Context, p peer.ID, pids ...protocol.ID) (network.Stream, error) {
	n := h.net
	n.mu.Lock()
	var handler network.StreamHandler
	var pid protocol.ID
	for _, cand := range pids {
		if hd, ok := n.handlers[p][cand]; ok {
			handler, pid = hd, cand
			break
		}
	}
	if handler == nil {
		n.mu.Unlock()
		return nil, errC09NoHandler
	}
	scope := &c09Scope{failService: n.nextFailService, failReserve: n.nextFailReserve}
	n.nextFailService, n.nextFailReserve = false, false
	c, s := newC09StreamPair(h.id, p, pid, scope)
	if n.nextSmallWindow {
		s.out.window = 1024
		n.nextSmallWindow = false
	}
	x := &c09Exchange{srv: s, cli: c, scope: scope, done: make(chan struct{})}
	n.last = x
	n.all = append(n.all, x)
	n.mu.Unlock()
	go func() {
		defer close(x.done)
		defer func() {
			if r := recover(); r != nil {
				x.escaped = fmt.Sprintf("%v\n%s", r, debug.Stack())
			}
		}()
		handler(s)
	}()
	return c, nil
}

func (n *c09Net) takeLast() *c09Exchange {
	n.mu.Lock()
	defer n.mu.Unlock()
	x := n.last
	n.last = nil
	return x
}

// ------------------------------------------------------------------------------------------
// accessor-counting store wrapper

type c09Store struct {
	inner *store.Store

	lookups  atomic.Int64 // GetByHeight calls
	opened   atomic.Int64 // accessors handed out
	closed   atomic.Int64 // Close calls on handed-out accessors
	dblClose atomic.Int64 // second and later Close calls on one accessor
	touched  atomic.Int64 // data methods called on handed-out accessors
	panicked atomic.Int64 // Close calls made while a panic unwinds

	mu         sync.Mutex
	failSize   bool  // next accessor reports an error from Size
	failPanic  bool  // next accessor panics in Size (a bug somewhere below the handler)
	failLookup error // next GetByHeight fails with this error
}

func (s *c09Store) GetByHeight(ctx context.Context, height uint64) (eds.AccessorStreamer, error) {
	s.lookups.Add(1)
	s.mu.Lock()
	failSize, failLookup, failPanic := s.failSize, s.failLookup, s.failPanic
	s.failSize, s.failLookup, s.failPanic = false, nil, false
	s.mu.Unlock()
	if failLookup != nil {
		return nil, failLookup
	}
	acc, err := s.inner.GetByHeight(ctx, height)
	if err != nil {
		// every second failing lookup is reported the way a layered getter reports it (the store's
		// own CachedStore wraps the error of the store below it): callers must use errors.Is
		if s.lookups.Load()%2 == 0 {
			return nil, fmt.Errorf("c09 store layer: unable to load accessor: %w", err)
		}
		return nil, err
	}
	s.opened.Add(1)
	return &c09Acc{AccessorStreamer: acc, st: s, failSize: failSize, failPanic: failPanic}, nil
}

func (s *c09Store) HasByHeight(ctx context.Context, height uint64) (bool, error) {
	return s.inner.HasByHeight(ctx, height)
}

type c09Acc struct {
	eds.AccessorStreamer
	st       *c09Store
	failSize bool
	failPanic bool
	closes   atomic.Int64
}

func (a *c09Acc) Close() error {
	if c09Panicking() {
		a.st.panicked.Add(1)
	}
	if a.closes.Add(1) > 1 {
		a.st.dblClose.Add(1)
	} else {
		a.st.closed.Add(1)
	}
	return a.AccessorStreamer.Close()
}

func (a *c09Acc) Size(ctx context.Context) (int, error) {
	if a.failPanic {
		panic("c09 fault: injected panic below the handler")
	}
	if a.failSize {
		return 0, errors.New("c09 fault: size unavailable")
	}
	return a.AccessorStreamer.Size(ctx)
}

func (a *c09Acc) Sample(ctx context.Context, idx shwap.SampleCoords) (shwap.Sample, error) {
	a.st.touched.Add(1)
	return a.AccessorStreamer.Sample(ctx, idx)
}

func (a *c09Acc) AxisHalf(ctx context.Context, axis rsmt2d.Axis, idx int) (shwap.AxisHalf, error) {
	a.st.touched.Add(1)
	return a.AccessorStreamer.AxisHalf(ctx, axis, idx)
}

func (a *c09Acc) RowNamespaceData(
	ctx context.Context, ns libshare.Namespace, rowIdx int,
) (shwap.RowNamespaceData, error) {
	a.st.touched.Add(1)
	return a.AccessorStreamer.RowNamespaceData(ctx, ns, rowIdx)
}

func (a *c09Acc) RangeNamespaceData(ctx context.Context, from, to int) (shwap.RangeNamespaceData, error) {
	a.st.touched.Add(1)
	return a.AccessorStreamer.RangeNamespaceData(ctx, from, to)
}

func (a *c09Acc) AxisRoots(ctx context.Context) (*share.AxisRoots, error) {
	a.st.touched.Add(1)
	return a.AccessorStreamer.AxisRoots(ctx)
}

func (a *c09Acc) Reader() (io.Reader, error) {
	a.st.touched.Add(1)
	return a.AccessorStreamer.Reader()
}

// c09Goroutines renders all goroutine stacks (for wedge reports).
func c09Goroutines() string {
	buf := make([]byte, 1<<20)
	n := runtime.Stack(buf, true)
	out := string(buf[:n])
	if len(out) > 60000 {
		out = out[:60000] + "\n...[truncated]"
	}
	return strings.TrimSpace(out)
}
