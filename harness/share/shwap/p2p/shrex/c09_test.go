package shrex

// C09 — shrex serves exactly what is asked and survives anything it is sent.
// Harness file of /verif (injected by overlay; not part of celestia-node).
//
// System under test: the real Server (Start → RecoveryMiddleware → streamHandler →
// handleDataRequest, with its real per-IP rate limiter) over a real store.Store holding generated
// squares, reached by the real Client.Get (or by raw bytes written to the stream) through the
// in-memory host of c09_net_test.go.
//
// Invariants (every failure message starts with the id):
//   C09-I1 a well-formed request for a held height is answered with data that the shwap
//          verifiers accept and that equals the reference square at the requested positions;
//          a well-formed request for a height that is not held is answered "not found".
//   C09-I2 a malformed / truncated / out-of-bounds request is never answered with status OK
//          (error status or reset only); a request that has a valid reading (e.g. valid id
//          followed by garbage) is either refused or answered with the committed data.
//   C09-I3 no panic escapes the handler chain the server installed; the handler returns within
//          the case deadline and leaves the stream closed or reset.
//   C09-I4 every accessor the handler obtained from the store is closed exactly once.
//   C09-I5 reserved bytes == released bytes; ReserveMemory is never called with a negative size.
//   C09-I6 the reservation is commensurate with the response: at least the share bytes sent,
//          never more than the whole ODS (plus proof slack) for an in-bounds request, and for a
//          range request no more than its shares plus proof overhead.
// Panics swallowed by RecoveryMiddleware end in a stream reset, which the property allows; they
// are counted ("recovered_panics") and reported, and fail only with VERIF_C09_STRICT_PANICS=1.

import (
	"bytes"
	"context"
	"encoding/binary"
	"errors"
	"fmt"
	"io"
	"math/bits"
	"os"
	"strings"
	"testing"
	"time"

	logging "github.com/ipfs/go-log/v2"
	"github.com/libp2p/go-libp2p/core/peer"
	"pgregory.net/rapid"

	"github.com/celestiaorg/go-libp2p-messenger/serde"
	libshare "github.com/celestiaorg/go-square/v4/share"

	vk "github.com/celestiaorg/celestia-node/internal/verifkit"
	"github.com/celestiaorg/celestia-node/share/eds"
	"github.com/celestiaorg/celestia-node/share/shwap"
	shrexpb "github.com/celestiaorg/celestia-node/share/shwap/p2p/shrex/pb"
	"github.com/celestiaorg/celestia-node/store"
)

const (
	// c09CaseDeadline bounds one exchange. One exchange is < 50 ms of work (< 1 s for the held-open
	// cases that wait for the server's 150 ms read timeout), so the bound is 2-3 orders of
	// magnitude above the work; hitting it means the handler or the client is wedged.
	c09CaseDeadline    = 60 * time.Second
	c09FastReadTimeout = 150 * time.Millisecond
	c09NetworkID       = "c09net"
)

type c09TB interface {
	Fatalf(format string, args ...any)
	Logf(format string, args ...any)
}

// ------------------------------------------------------------------------------------------
// wire model (independent of the code under test): big-endian fixed-width identifiers

const (
	c09EDS = iota
	c09Row
	c09Sample
	c09ND
	c09Range
	c09Kinds
)

var (
	c09KindName = [c09Kinds]string{"eds", "row", "sample", "nd", "range"}
	c09IDSize   = [c09Kinds]int{8, 10, 12, 8 + libshare.NamespaceSize, 16}
)

func c09ProtoName(kind int) string {
	switch kind {
	case c09EDS:
		return (&shwap.EdsID{}).Name()
	case c09Row:
		return (&shwap.RowID{}).Name()
	case c09Sample:
		return (&shwap.SampleID{}).Name()
	case c09ND:
		return (&shwap.NamespaceDataID{}).Name()
	default:
		return (&shwap.RangeNamespaceDataID{}).Name()
	}
}

type c09Fields struct {
	height   uint64
	row, col uint16
	ns       []byte // NamespaceSize bytes
	from, to uint32
}

func (f c09Fields) desc(kind int) string {
	switch kind {
	case c09EDS:
		return fmt.Sprintf("eds(h=%d)", f.height)
	case c09Row:
		return fmt.Sprintf("row(h=%d,row=%d)", f.height, f.row)
	case c09Sample:
		return fmt.Sprintf("sample(h=%d,row=%d,col=%d)", f.height, f.row, f.col)
	case c09ND:
		return fmt.Sprintf("nd(h=%d,ns=%x)", f.height, f.ns)
	default:
		return fmt.Sprintf("range(h=%d,from=%d,to=%d)", f.height, f.from, f.to)
	}
}

func c09Encode(kind int, f c09Fields) []byte {
	b := binary.BigEndian.AppendUint64(nil, f.height)
	switch kind {
	case c09Row:
		b = binary.BigEndian.AppendUint16(b, f.row)
	case c09Sample:
		b = binary.BigEndian.AppendUint16(b, f.row)
		b = binary.BigEndian.AppendUint16(b, f.col)
	case c09ND:
		ns := f.ns
		if len(ns) != libshare.NamespaceSize {
			ns = make([]byte, libshare.NamespaceSize)
		}
		b = append(b, ns...)
	case c09Range:
		b = binary.BigEndian.AppendUint32(b, f.from)
		b = binary.BigEndian.AppendUint32(b, f.to)
	}
	return b
}

// c09Decode reads the identifier a server of protocol kind sees at the start of raw.
func c09Decode(kind int, raw []byte) (f c09Fields, complete bool) {
	if len(raw) < c09IDSize[kind] {
		return f, false
	}
	f.height = binary.BigEndian.Uint64(raw)
	switch kind {
	case c09Row:
		f.row = binary.BigEndian.Uint16(raw[8:])
	case c09Sample:
		f.row = binary.BigEndian.Uint16(raw[8:])
		f.col = binary.BigEndian.Uint16(raw[10:])
	case c09ND:
		f.ns = append([]byte(nil), raw[8:8+libshare.NamespaceSize]...)
	case c09Range:
		f.from = binary.BigEndian.Uint32(raw[8:])
		f.to = binary.BigEndian.Uint32(raw[12:])
	}
	return f, true
}

// c09NS classifies namespace bytes with go-square (trusted base, not code under test).
func c09NS(b []byte) (libshare.Namespace, bool) {
	ns, err := libshare.NewNamespaceFromBytes(b)
	if err != nil {
		return libshare.Namespace{}, false
	}
	if ns.ValidateForData() != nil {
		return ns, false
	}
	return ns, true
}

// ------------------------------------------------------------------------------------------
// world

type c09World struct {
	dir      string
	st       *store.Store
	cs       *c09Store
	net      *c09Net
	srv      *Server
	fast     *Server
	cli      *Client
	cliHost  *c09Host
	srvPeer  peer.ID
	fastPeer peer.ID
	squares  map[uint64]*vk.Square
	heights  []uint64
	desc     string
	labels   []string
}

type c09WorldOpts struct {
	squares []*vk.Square
	heights []uint64
	q4      []bool
	cache   int
	metrics bool
}

func c09Quiet() { logging.SetAllLoggers(logging.LevelFatal) }

func c09NewWorld(tb c09TB, o c09WorldOpts) *c09World {
	c09Quiet()
	dir, err := os.MkdirTemp(os.TempDir(), "c09-")
	if err != nil {
		tb.Fatalf("VERIF-INFRA: temp dir: %v", err)
	}
	params := store.DefaultParameters()
	params.RecentBlocksCacheSize = o.cache
	st, err := store.NewStore(params, dir)
	if err != nil {
		tb.Fatalf("VERIF-INFRA: store: %v", err)
	}
	w := &c09World{dir: dir, st: st, cs: &c09Store{inner: st}, net: newC09Net(), squares: map[uint64]*vk.Square{}}
	ctx := context.Background()
	var d strings.Builder
	fmt.Fprintf(&d, "cache=%d metrics=%v", o.cache, o.metrics)
	for i, sq := range o.squares {
		h := o.heights[i]
		if o.q4[i] {
			err = st.PutODSQ4(ctx, sq.Roots, h, sq.EDS)
		} else {
			err = st.PutODS(ctx, sq.Roots, h, sq.EDS)
		}
		if err != nil {
			tb.Fatalf("VERIF-INFRA: store put: %v", err)
		}
		w.squares[h] = sq
		w.heights = append(w.heights, h)
		fmt.Fprintf(&d, " | h=%d q4=%v %s", h, o.q4[i], sq.Desc())
	}
	w.desc = d.String()
	if o.cache > 0 {
		w.labels = append(w.labels, "store=cache")
	} else {
		w.labels = append(w.labels, "store=file")
	}

	srvHost, fastHost := w.net.host("c09-server"), w.net.host("c09-fast")
	w.cliHost = w.net.host("c09-client")
	w.srvPeer, w.fastPeer = srvHost.ID(), fastHost.ID()

	sp := DefaultServerParameters()
	sp.WithNetworkID(c09NetworkID)
	w.srv, err = NewServer(sp, srvHost, w.cs)
	if err != nil {
		tb.Fatalf("VERIF-INFRA: server: %v", err)
	}
	fp := DefaultServerParameters()
	fp.WithNetworkID(c09NetworkID)
	fp.ReadTimeout = c09FastReadTimeout
	fp.WriteTimeout = c09FastReadTimeout
	w.fast, err = NewServer(fp, fastHost, w.cs)
	if err != nil {
		tb.Fatalf("VERIF-INFRA: server: %v", err)
	}
	if o.metrics {
		if err := w.srv.WithMetrics(); err != nil {
			tb.Fatalf("VERIF-INFRA: metrics: %v", err)
		}
	}
	if err := w.srv.Start(ctx); err != nil {
		tb.Fatalf("VERIF-INFRA: server start: %v", err)
	}
	if err := w.fast.Start(ctx); err != nil {
		tb.Fatalf("VERIF-INFRA: server start: %v", err)
	}
	cp := DefaultClientParameters()
	cp.WithNetworkID(c09NetworkID)
	w.cli, err = NewClient(cp, w.cliHost)
	if err != nil {
		tb.Fatalf("VERIF-INFRA: client: %v", err)
	}
	return w
}

func (w *c09World) close() {
	ctx := context.Background()
	_ = w.srv.Stop(ctx)
	_ = w.fast.Stop(ctx)
	for _, x := range w.net.all {
		x.srv.stop()
		x.cli.stop()
	}
	_ = w.st.Stop(ctx)
	_ = os.RemoveAll(w.dir)
}

// ------------------------------------------------------------------------------------------
// expectations (reference model)

type c09Expect int

const (
	c09ExpServe    c09Expect = iota // must be answered with the committed data
	c09ExpNotFound                  // must be answered "not found"
	c09ExpRefuse                    // must not be answered with status OK
	c09ExpEither                    // may be refused; if answered, with the committed data
	c09ExpAnyErr                    // an injected fault: must not be answered with status OK
)

func (e c09Expect) String() string {
	return [...]string{"serve", "notfound", "refuse", "either", "anyerror"}[e]
}

// expect says what the property demands for the identifier f sent to protocol kind.
// complete: the wire carried at least a whole identifier; strict: exactly one identifier, write
// side closed, normal read timeout (so a valid request must be served, not merely may be).
func (w *c09World) expect(kind int, f c09Fields, complete, strict bool) (c09Expect, *vk.Square, string) {
	if !complete {
		return c09ExpRefuse, nil, "truncated identifier"
	}
	if f.height == 0 {
		return c09ExpRefuse, nil, "zero height"
	}
	switch kind {
	case c09ND:
		if _, ok := c09NS(f.ns); !ok {
			return c09ExpRefuse, nil, "namespace not valid for data"
		}
	case c09Range:
		if f.from >= f.to {
			return c09ExpRefuse, nil, "from >= to"
		}
	}
	sq, held := w.squares[f.height]
	if !held {
		if strict {
			return c09ExpNotFound, nil, "height not held"
		}
		return c09ExpRefuse, nil, "height not held"
	}
	width, area := sq.Width(), sq.ODS*sq.ODS
	serve := c09ExpServe
	if !strict {
		serve = c09ExpEither
	}
	switch kind {
	case c09Row:
		if int(f.row) >= width {
			return c09ExpRefuse, sq, "row out of bounds"
		}
	case c09Sample:
		if int(f.row) >= width || int(f.col) >= width {
			return c09ExpRefuse, sq, "coordinate out of bounds"
		}
	case c09Range:
		if int64(f.to) > int64(area) {
			return c09ExpRefuse, sq, "range end out of bounds"
		}
		if _, hi := sq.NSStretch(int(f.from)); int(f.to) > hi {
			// in bounds but spans several namespaces: the property does not say; a range
			// container is namespace-scoped, so refusal is fine, wrong data is not
			return c09ExpEither, sq, "range spans several namespaces"
		}
	}
	return serve, sq, "valid"
}

// ------------------------------------------------------------------------------------------
// requests

type c09Req struct {
	kind  int
	class string // wf | bound | raw | fault
	via   string // client | raw
	f     c09Fields
	raw   []byte // bytes put on the wire when via == raw
	split int    // raw: first write carries raw[:split]
	hold  bool   // raw: keep the write side open (sent to the short-read-timeout server)
	stall bool   // raw: after sending the request the peer never reads the answer (short-write-timeout server)
	abort bool   // raw: reset the stream right after writing, without reading the answer
	fault string // "", service, reserve, size, lookup
	how   string // how the request was derived
}

func (r *c09Req) desc() string {
	s := fmt.Sprintf("%s/%s/%s %s", r.class, c09KindName[r.kind], r.via, r.how)
	if r.via == "raw" {
		s += fmt.Sprintf(" bytes=%x split=%d hold=%v abort=%v stall=%v", r.raw, r.split, r.hold, r.abort, r.stall)
	} else {
		s += " " + r.f.desc(r.kind)
	}
	if r.fault != "" {
		s += " fault=" + r.fault
	}
	return s
}

type c09Result struct {
	status  string // ok | notfound | internal | exhausted | reset | badstatus | badresponse | clientrefused
	err     error
	cont    any
	payload int64
	x       *c09Exchange
	reached bool // the request got as far as the store lookup
	touched bool // ... and as far as a data method of the accessor
}

func c09Container(kind int) any {
	switch kind {
	case c09EDS:
		return &bytes.Buffer{}
	case c09Row:
		return &shwap.Row{}
	case c09Sample:
		return &shwap.Sample{}
	case c09ND:
		return &shwap.NamespaceData{}
	default:
		return &shwap.RangeNamespaceData{}
	}
}

// c09ClientID builds the identifier value a client would hold for the wire fields f.
func c09ClientID(kind int, f c09Fields) (request, error) {
	eid := shwap.EdsID{} // zero height
	if f.height != 0 {
		var err error
		if eid, err = shwap.NewEdsID(f.height); err != nil {
			return nil, err
		}
	}
	switch kind {
	case c09EDS:
		return &eid, nil
	case c09Row:
		return &shwap.RowID{EdsID: eid, RowIndex: int(f.row)}, nil
	case c09Sample:
		return &shwap.SampleID{RowID: shwap.RowID{EdsID: eid, RowIndex: int(f.row)}, ShareIndex: int(f.col)}, nil
	case c09ND:
		ns, err := libshare.NewNamespaceFromBytes(f.ns)
		if err != nil {
			return nil, err
		}
		return &shwap.NamespaceDataID{EdsID: eid, DataNamespace: ns}, nil
	default:
		return &shwap.RangeNamespaceDataID{EdsID: eid, From: int(f.from), To: int(f.to)}, nil
	}
}

// c09WellFormedID builds the identifier exactly as shrex_getter does (through the constructors,
// with the square size taken from the header's roots).
func c09WellFormedID(kind int, f c09Fields, sq *vk.Square) (request, error) {
	switch kind {
	case c09EDS:
		id, err := shwap.NewEdsID(f.height)
		return &id, err
	case c09Row:
		id, err := shwap.NewRowID(f.height, int(f.row), len(sq.Roots.RowRoots))
		return &id, err
	case c09Sample:
		id, err := shwap.NewSampleID(f.height, shwap.SampleCoords{Row: int(f.row), Col: int(f.col)}, len(sq.Roots.RowRoots))
		return &id, err
	case c09ND:
		ns, err := libshare.NewNamespaceFromBytes(f.ns)
		if err != nil {
			return nil, err
		}
		if err := ns.ValidateForData(); err != nil {
			return nil, err
		}
		id, err := shwap.NewNamespaceDataID(f.height, ns)
		return &id, err
	default:
		eid, err := shwap.NewEdsID(f.height)
		if err != nil {
			return nil, err
		}
		id, err := shwap.NewRangeNamespaceDataID(eid, int(f.from), int(f.to), len(sq.Roots.RowRoots)/2)
		return &id, err
	}
}

func c09ClientStatus(err error) string {
	switch {
	case err == nil:
		return "ok"
	case errors.Is(err, ErrNotFound):
		return "notfound"
	case errors.Is(err, ErrInternalServer):
		return "internal"
	case errors.Is(err, ErrResourceExhausted):
		return "exhausted"
	case errors.Is(err, ErrInvalidRequest):
		return "badstatus"
	case errors.Is(err, ErrInvalidResponse):
		return "badresponse" // status OK followed by a payload the container decoder refuses
	case strings.HasPrefix(err.Error(), "writing request"):
		return "clientrefused"
	default:
		return "reset"
	}
}

// do performs one exchange and checks the invariants that hold for every exchange (I3-I5).
func (w *c09World) do(tb c09TB, rq *c09Req, id request) c09Result {
	lookups0, opened0, closed0 := w.cs.lookups.Load(), w.cs.opened.Load(), w.cs.closed.Load()
	touched0, dbl0, pan0 := w.cs.touched.Load(), w.cs.dblClose.Load(), w.cs.panicked.Load()
	w.net.mu.Lock()
	w.net.nextFailService, w.net.nextFailReserve = rq.fault == "service", rq.fault == "reserve"
	w.net.nextSmallWindow = rq.stall
	w.net.mu.Unlock()
	w.cs.mu.Lock()
	w.cs.failSize, w.cs.failLookup = rq.fault == "size", nil
	w.cs.failPanic = rq.fault == "panic"
	if rq.fault == "lookup" {
		w.cs.failLookup = errors.New("c09 fault: lookup failed")
	}
	w.cs.mu.Unlock()

	target := w.srvPeer
	if rq.hold || rq.stall {
		target = w.fastPeer
	}
	ctx, cancel := context.WithTimeout(context.Background(), c09CaseDeadline)
	defer cancel()
	var res c09Result
	if rq.via == "client" {
		res.cont = c09Container(rq.kind)
		res.err = w.cli.Get(ctx, id, res.cont.(response), target)
		res.status = c09ClientStatus(res.err)
	} else {
		res = w.sendRaw(ctx, rq, target)
	}
	if ctx.Err() != nil {
		tb.Fatalf("VERIF-VIOLATION C09-I3 (wedge): the exchange did not finish within %s (expected: an answer or a refusal "+
			"within milliseconds); request %s; client error: %v\n%s", c09CaseDeadline, rq.desc(), res.err, c09Goroutines())
	}
	x := w.net.takeLast()
	if x == nil {
		tb.Fatalf("VERIF-INFRA: C09 no stream was opened for %s (err %v)", rq.desc(), res.err)
	}
	res.x = x
	select {
	case <-x.done:
	case <-time.After(c09CaseDeadline):
		tb.Fatalf("VERIF-VIOLATION C09-I3 (wedge): the server handler has not returned %s after the client was done "+
			"(expected: it returns once the request is answered or refused); request %s\n%s",
			c09CaseDeadline, rq.desc(), c09Goroutines())
	}
	res.reached = w.cs.lookups.Load() > lookups0
	res.touched = w.cs.touched.Load() > touched0
	res.payload = x.srv.written()

	// I3: no panic escapes; the stream is left closed or reset
	if x.escaped != "" {
		tb.Fatalf("C09-I3: a panic escaped the handler chain installed by the server (expected: refusal by status or "+
			"reset, server keeps running); request %s; panic: %s", rq.desc(), x.escaped)
	}
	if !x.srv.isReset() && !x.srv.writeClosed() {
		tb.Fatalf("C09-I3: the handler returned leaving the stream neither closed nor reset (the peer would wait until "+
			"its own timeout); request %s status %s", rq.desc(), res.status)
	}
	// recovered panics: observed through deferred calls that ran while a panic was unwinding
	var pstack string
	for _, r := range x.srv.resetRecords() {
		if r.inPanic {
			pstack = r.stack
		}
	}
	if pstack == "" {
		x.scope.mu.Lock()
		pstack = x.scope.panicSeen
		x.scope.mu.Unlock()
	}
	if rq.fault == "panic" {
		// injected below the handler: it must have been recovered (an escape was judged above), the
		// accessor and the memory checks below apply as for every other exchange
		vk.Count("injected_panics_recovered", 1)
	} else if pstack != "" || w.cs.panicked.Load() > pan0 {
		vk.Count("recovered_panics", 1)
		vk.Note("recovered panic while handling %s: %s", rq.desc(), c09PanicOrigin(pstack))
		if os.Getenv("VERIF_C09_STRICT_PANICS") == "1" {
			tb.Fatalf("C09-I3 (strict): the handler panicked and RecoveryMiddleware reset the stream; request %s\n%s",
				rq.desc(), pstack)
		}
	}
	// I4: accessors
	opened, closed := w.cs.opened.Load()-opened0, w.cs.closed.Load()-closed0
	if opened != closed || w.cs.dblClose.Load() != dbl0 {
		tb.Fatalf("C09-I4: accessors opened by the handler: %d, closed: %d, repeated Close calls: %d (expected every "+
			"accessor closed exactly once when the handler returns); request %s status %s",
			opened, closed, w.cs.dblClose.Load()-dbl0, rq.desc(), res.status)
	}
	// I5: memory
	x.scope.mu.Lock()
	reserved, released := x.scope.reserved, x.scope.released
	rargs, largs := append([]int(nil), x.scope.reserveArgs...), append([]int(nil), x.scope.releaseArgs...)
	x.scope.mu.Unlock()
	for _, a := range rargs {
		if a < 0 {
			tb.Fatalf("C09-I5: ReserveMemory called with negative size %d; request %s", a, rq.desc())
		}
	}
	for _, a := range largs {
		if a < 0 {
			tb.Fatalf("C09-I5: ReleaseMemory called with negative size %d; request %s", a, rq.desc())
		}
	}
	if reserved != released {
		tb.Fatalf("C09-I5: reserved %d bytes (calls %v) but released %d bytes (calls %v) by the time the handler "+
			"returned; request %s status %s", reserved, rargs, released, largs, rq.desc(), res.status)
	}
	vk.Count("accessors_opened", opened)
	vk.Count("bytes_reserved", reserved)
	return res
}

func c09PanicOrigin(stack string) string {
	// the frames right below "panic(" name the origin
	lines := strings.Split(stack, "\n")
	for i, l := range lines {
		if strings.HasPrefix(l, "panic(") {
			end := min(len(lines), i+8)
			return strings.Join(lines[i:end], " | ")
		}
	}
	if len(stack) > 600 {
		return stack[:600]
	}
	return stack
}

// sendRaw plays a client that writes arbitrary bytes and then reads like the real client does.
func (w *c09World) sendRaw(ctx context.Context, rq *c09Req, target peer.ID) (res c09Result) {
	s, err := w.cliHost.NewStream(ctx, target, ProtocolID(c09NetworkID, c09ProtoName(rq.kind)))
	if err != nil {
		res.status, res.err = "reset", err
		return res
	}
	defer s.Close() //nolint:errcheck
	dl, _ := ctx.Deadline()
	_ = s.SetDeadline(dl)
	split := min(max(rq.split, 0), len(rq.raw))
	for _, part := range [][]byte{rq.raw[:split], rq.raw[split:]} {
		if len(part) == 0 {
			continue
		}
		if _, err := s.Write(part); err != nil {
			res.status, res.err = "reset", err
			return res
		}
	}
	if rq.abort {
		_ = s.Reset()
		res.status = "aborted"
		return res
	}
	if !rq.hold {
		_ = s.CloseWrite()
	}
	if rq.stall {
		// never read: the server must give up on its own (write deadline) and release everything
		w.net.mu.Lock()
		x := w.net.last
		w.net.mu.Unlock()
		if x != nil {
			select {
			case <-x.done:
			case <-ctx.Done():
			}
		}
		res.status = "stalled"
		return res
	}
	var st shrexpb.Response
	if _, err := serde.Read(s, &st); err != nil {
		res.status, res.err = "reset", err
		if isResourceExhausted(err) {
			res.status = "exhausted"
		}
		return res
	}
	switch st.Status {
	case shrexpb.Status_OK:
	case shrexpb.Status_NOT_FOUND:
		res.status = "notfound"
		return res
	case shrexpb.Status_INTERNAL:
		res.status = "internal"
		return res
	default:
		res.status = "badstatus"
		return res
	}
	res.cont = c09Container(rq.kind)
	if _, err := res.cont.(io.ReaderFrom).ReadFrom(s); err != nil {
		res.status, res.err = "badresponse", err
		return res
	}
	res.status = "ok"
	return res
}

// ------------------------------------------------------------------------------------------
// data oracle: verification as callers do it + comparison with the reference matrix

func c09CheckData(sq *vk.Square, kind int, f c09Fields, cont any) (shareBytes int64, err error) {
	roots := sq.Roots
	switch kind {
	case c09Sample:
		smp := cont.(*shwap.Sample)
		if smp.IsEmpty() {
			return 0, errors.New("empty sample")
		}
		if err := smp.Verify(roots, int(f.row), int(f.col)); err != nil {
			return 0, fmt.Errorf("client verification refuses the sample: %w", err)
		}
		if !bytes.Equal(smp.Share.ToBytes(), sq.Ref[f.row][f.col]) {
			return 0, fmt.Errorf("sample differs from the committed share at (%d,%d)", f.row, f.col)
		}
		return libshare.ShareSize, nil
	case c09Row:
		row := cont.(*shwap.Row)
		if row.IsEmpty() {
			return 0, errors.New("empty row")
		}
		if err := row.Verify(roots, int(f.row)); err != nil {
			return 0, fmt.Errorf("client verification refuses the row: %w", err)
		}
		shrs, err := row.Shares()
		if err != nil {
			return 0, err
		}
		if err := vk.SharesBytesEqual(shrs, sq.Ref[f.row]); err != nil {
			return 0, fmt.Errorf("row %d: %w", f.row, err)
		}
		return int64(sq.ODS) * libshare.ShareSize, nil
	case c09ND:
		nd := cont.(*shwap.NamespaceData)
		ns, ok := c09NS(f.ns)
		if !ok {
			return 0, errors.New("namespace not valid for data")
		}
		if err := nd.Verify(roots, ns); err != nil {
			return 0, fmt.Errorf("client verification refuses the namespace data: %w", err)
		}
		flat := nd.Flatten()
		if err := vk.SharesBytesEqual(flat, sq.RefNamespace(ns)); err != nil {
			return 0, fmt.Errorf("namespace data: %w", err)
		}
		return int64(len(flat)) * libshare.ShareSize, nil
	case c09Range:
		rng := cont.(*shwap.RangeNamespaceData)
		if rng.IsEmpty() {
			return 0, errors.New("empty range data")
		}
		ods := len(roots.RowRoots) / 2
		from, to := int(f.from), int(f.to)
		fc, err := shwap.SampleCoordsFrom1DIndex(from, ods)
		if err != nil {
			return 0, err
		}
		tc, err := shwap.SampleCoordsFrom1DIndex(to-1, ods)
		if err != nil {
			return 0, err
		}
		if err := rng.VerifyInclusion(fc, tc, ods, roots.RowRoots[fc.Row:tc.Row+1]); err != nil {
			return 0, fmt.Errorf("client verification refuses the range data: %w", err)
		}
		want := make([][]byte, 0, to-from)
		for i := from; i < to; i++ {
			want = append(want, sq.Ref[i/ods][i%ods])
		}
		if err := vk.SharesBytesEqual(rng.Flatten(), want); err != nil {
			return 0, fmt.Errorf("range [%d,%d): %w", from, to, err)
		}
		return int64(to-from) * libshare.ShareSize, nil
	default:
		buf := cont.(*bytes.Buffer)
		n := int64(buf.Len())
		if n == 0 {
			return 0, errors.New("empty square payload")
		}
		acc, err := eds.ReadAccessor(context.Background(), bytes.NewReader(buf.Bytes()), roots)
		if err != nil {
			return 0, fmt.Errorf("client import refuses the square: %w", err)
		}
		width := sq.Width()
		if int(acc.Width()) != width {
			return 0, fmt.Errorf("square width %d, want %d", acc.Width(), width)
		}
		for r := 0; r < width; r++ {
			for c := 0; c < width; c++ {
				if !bytes.Equal(acc.GetCell(uint(r), uint(c)), sq.Ref[r][c]) {
					return 0, fmt.Errorf("square differs from the committed share at (%d,%d)", r, c)
				}
			}
		}
		return n, nil
	}
}

// judge applies I1/I2/I6 to the outcome of one exchange.
func (w *c09World) judge(tb c09TB, rq *c09Req, f c09Fields, exp c09Expect, sq *vk.Square, why string, res c09Result) {
	fail := func(inv, format string, a ...any) {
		tb.Fatalf("%s: %s; request %s [%s: %s]; outcome %s (err: %v); world: %s",
			inv, fmt.Sprintf(format, a...), rq.desc(), exp, why, res.status, res.err, w.desc)
	}
	okSent := res.status == "ok" || res.status == "badresponse"
	switch exp {
	case c09ExpNotFound:
		if res.status != "notfound" {
			fail("C09-I1", "expected the 'not found' answer for a height the server does not hold")
		}
		return
	case c09ExpRefuse, c09ExpAnyErr:
		if okSent {
			fail("C09-I2", "expected an error status or a reset, the server answered with status OK")
		}
		if res.status == "badstatus" {
			fail("C09-I2", "the server answered with a status outside OK/NOT_FOUND/INTERNAL")
		}
		return
	case c09ExpServe:
		if res.status != "ok" {
			fail("C09-I1", "expected the requested data, the exchange failed")
		}
	case c09ExpEither:
		if res.status == "badresponse" || res.status == "badstatus" {
			fail("C09-I2", "expected a refusal or the committed data, got an undecodable answer after status OK")
		}
		if res.status != "ok" {
			return
		}
	}
	shareBytes, err := c09CheckData(sq, rq.kind, f, res.cont)
	if err != nil {
		inv := "C09-I1"
		if exp == c09ExpEither {
			inv = "C09-I2"
		}
		fail(inv, "the answer is not the committed data for the request: %v", err)
	}
	// I6 (observation only - the property speaks of releasing the reservation, not of its size):
	// count reservations that are not commensurate with the answer
	res.x.scope.mu.Lock()
	rargs := append([]int(nil), res.x.scope.reserveArgs...)
	res.x.scope.mu.Unlock()
	if len(rargs) != 1 {
		vk.Count("I6_observation:not-exactly-one-reservation", 1)
		return
	}
	r := int64(rargs[0])
	slack := int64(2*(bits.Len(uint(2*sq.ODS))+1)*96 + 256)
	whole := int64(sq.ODS*sq.ODS)*libshare.ShareSize + slack
	if r < shareBytes {
		vk.Count("I6_observation:reserved-less-than-sent", 1)
	}
	if r > whole {
		vk.Count("I6_observation:reserved-more-than-whole-ods", 1)
	}
	if rq.kind == c09Range && r > shareBytes+slack {
		vk.Count("I6_observation:range-over-reserved", 1)
	}
}

// run performs, judges and records one request.
func (w *c09World) run(tb c09TB, rq *c09Req) {
	var (
		f        c09Fields
		complete = true
		strict   bool
		id       request
	)
	if rq.via == "raw" {
		f, complete = c09Decode(rq.kind, rq.raw)
		strict = len(rq.raw) == c09IDSize[rq.kind] && !rq.hold
	} else {
		f, strict = rq.f, true
	}
	exp, sq, why := w.expect(rq.kind, f, complete, strict)
	if rq.fault != "" {
		exp = c09ExpAnyErr
	}
	if rq.via == "client" {
		var err error
		if rq.class == "wf" && sq != nil {
			if id, err = c09WellFormedID(rq.kind, f, sq); err != nil {
				tb.Fatalf("C09 generator: constructor refuses a request meant to be well-formed: %s: %v", rq.desc(), err)
			}
		} else if id, err = c09ClientID(rq.kind, f); err != nil {
			tb.Fatalf("C09 generator: identifier cannot be built: %s: %v", rq.desc(), err)
		}
	}
	res := w.do(tb, rq, id)
	if rq.abort {
		// the client walked away: nothing to judge about the answer, I3-I5 were checked by do
		vk.Record(w.desc+" || "+rq.desc(), append([]string{"class=" + rq.class, "abort=1",
			"kind=" + c09KindName[rq.kind]}, w.labels...), res.reached, nil)
		return
	}
	if rq.stall {
		// the peer never read the answer: nothing to judge about it; I3 (the handler returned on its
		// own), I4 and I5 were checked by do
		vk.Record(w.desc+" || "+rq.desc(), append([]string{"class=" + rq.class, "stall=1",
			"kind=" + c09KindName[rq.kind]}, w.labels...), res.reached, nil)
		return
	}
	w.judge(tb, rq, f, exp, sq, why, res)

	nontrivial := false
	labels := []string{
		"class=" + rq.class, "kind=" + c09KindName[rq.kind], "via=" + rq.via, "expect=" + exp.String(),
		"outcome=" + res.status,
	}
	labels = append(labels, w.labels...)
	if sq != nil {
		labels = append(labels, fmt.Sprintf("ods=%d", sq.ODS))
	}
	switch rq.class {
	case "wf":
		var ls []string
		nontrivial, ls = c09Interesting(sq, rq.kind, f)
		labels = append(labels, ls...)
	case "fault":
		nontrivial = true
		labels = append(labels, "fault="+rq.fault)
	default:
		nontrivial = res.reached
		if res.reached {
			labels = append(labels, "reached="+rq.class)
		}
		if res.touched {
			labels = append(labels, "touched="+rq.class)
		}
		if rq.hold {
			labels = append(labels, "hold=1")
		}
		if rq.how != "" {
			labels = append(labels, "how="+rq.how)
		}
		if exp == c09ExpRefuse {
			labels = append(labels, "refuse="+strings.ReplaceAll(why, " ", "-"))
		}
	}
	vk.Record(w.desc+" || "+rq.desc(), labels, nontrivial, func() any {
		return map[string]any{"request": rq.desc(), "expect": exp.String(), "why": why, "outcome": res.status,
			"world": w.desc}
	})
}

// c09Interesting implements the non-trivial rule for well-formed requests: the answer involves
// padding or parity shares, an absence proof, or at least two rows.
func c09Interesting(sq *vk.Square, kind int, f c09Fields) (bool, []string) {
	if sq == nil {
		return false, []string{"held=0"}
	}
	ods := sq.ODS
	isPad := func(b []byte) bool {
		sh, err := libshare.NewShare(b)
		if err != nil {
			return false
		}
		return sh.IsPadding()
	}
	switch kind {
	case c09Sample:
		par := int(f.row) >= ods || int(f.col) >= ods
		pad := !par && isPad(sq.Ref[f.row][f.col])
		ls := []string{fmt.Sprintf("quadrant=%d", 2*b2i(int(f.row) >= ods)+b2i(int(f.col) >= ods))}
		if pad {
			ls = append(ls, "sample=padding")
		}
		return par || pad, ls
	case c09Row:
		if int(f.row) >= ods {
			return true, []string{"row=parity"}
		}
		for c := 0; c < ods; c++ {
			if isPad(sq.Ref[f.row][c]) {
				return true, []string{"row=padding"}
			}
		}
		return false, []string{"row=data"}
	case c09ND:
		ns, _ := c09NS(f.ns)
		shares := sq.RefNamespace(ns)
		rows := sq.RefRowsCovering(ns)
		switch {
		case len(shares) == 0 && len(rows) == 0:
			return false, []string{"nd=absent-outside"}
		case len(shares) == 0:
			return true, []string{"nd=absent-inside"}
		}
		ls := []string{"nd=present"}
		nt := false
		if len(rows) >= 2 {
			ls = append(ls, "nd=multirow")
			nt = true
		}
		for _, s := range shares {
			if isPad(s) {
				ls = append(ls, "nd=padding")
				nt = true
				break
			}
		}
		return nt, ls
	case c09Range:
		from, to := int(f.from), int(f.to)
		var ls []string
		nt := false
		if from/ods != (to-1)/ods {
			ls = append(ls, "range=multirow")
			nt = true
		}
		for i := from; i < to; i++ {
			if isPad(sq.Ref[i/ods][i%ods]) {
				ls = append(ls, "range=padding")
				nt = true
				break
			}
		}
		if from%ods != 0 || to%ods != 0 {
			ls = append(ls, "range=partialrow")
		}
		return nt, ls
	default:
		if sq.Empty {
			return true, []string{"eds=emptyblock"}
		}
		return ods >= 2 || sq.Tail > 0, nil
	}
}

func b2i(b bool) int {
	if b {
		return 1
	}
	return 0
}

// ------------------------------------------------------------------------------------------
// generators

func c09GenWorld(t *rapid.T, odsSet []int, maxSquares int) *c09World {
	n := rapid.IntRange(1, maxSquares).Draw(t, "nsquares")
	o := c09WorldOpts{
		cache:   rapid.SampledFrom([]int{0, 10}).Draw(t, "cache"),
		metrics: rapid.IntRange(0, 3).Draw(t, "metrics") == 0,
	}
	used := map[uint64]bool{}
	for i := 0; i < n; i++ {
		sq := vk.GenSquare(t, fmt.Sprintf("sq%d", i), vk.SquareOpts{ODS: odsSet, AllowEmpty: true})
		var h uint64
		switch rapid.IntRange(0, 5).Draw(t, "hkind") {
		case 0:
			h = rapid.SampledFrom([]uint64{1, 2, 255, 256, 65535, 65536, 1<<32 - 1, 1 << 32, 1<<32 + 7, 1<<62 + 3}).Draw(t, "hconst")
		default:
			h = uint64(rapid.IntRange(1, 40).Draw(t, "h"))
		}
		for used[h] {
			h++
		}
		used[h] = true
		o.squares = append(o.squares, sq)
		o.heights = append(o.heights, h)
		o.q4 = append(o.q4, rapid.IntRange(0, 2).Draw(t, "q4") != 0)
	}
	return c09NewWorld(t, o)
}

func (w *c09World) genHeld(t *rapid.T) (uint64, *vk.Square) {
	h := rapid.SampledFrom(w.heights).Draw(t, "held")
	return h, w.squares[h]
}

func (w *c09World) genNotHeld(t *rapid.T) uint64 {
	base := rapid.SampledFrom(w.heights).Draw(t, "near")
	h := rapid.SampledFrom([]uint64{
		base + 1, base - 1, base + 1<<32, base ^ (1 << 63), 1<<64 - 1, 1 << 63, 1<<63 - 1, 1000003, base * 10,
	}).Draw(t, "notheld")
	for h == 0 || w.squares[h] != nil {
		h++
	}
	return h
}

// c09Biased draws from [0,n) with a bias to the borders and to the ODS/parity boundary.
func c09Biased(t *rapid.T, label string, n int) int {
	switch rapid.IntRange(0, 5).Draw(t, label+".kind") {
	case 0:
		return 0
	case 1:
		return n - 1
	case 2:
		return max(0, n/2-1+rapid.IntRange(0, 1).Draw(t, label+".half"))
	default:
		return rapid.IntRange(0, n-1).Draw(t, label)
	}
}

// c09NSCandidates lists namespaces that are valid for data: the ones present in sq and the absent
// classes (between present ones, below, above, reserved).
func c09NSCandidates(sq *vk.Square) []libshare.Namespace {
	var out []libshare.Namespace
	seen := map[string]bool{}
	add := func(ns libshare.Namespace) {
		if ns.ValidateForData() != nil || seen[string(ns.Bytes())] {
			return
		}
		seen[string(ns.Bytes())] = true
		out = append(out, ns)
	}
	for _, ns := range sq.NamespacesPresent() {
		add(ns)
	}
	for i := 0; i <= 6; i++ {
		add(vk.OddNS(i))
	}
	add(vk.LowNS())
	add(vk.HighNS())
	add(libshare.TxNamespace)
	add(libshare.PayForBlobNamespace)
	add(libshare.PrimaryReservedPaddingNamespace)
	add(libshare.MaxPrimaryReservedNamespace)
	add(libshare.MinSecondaryReservedNamespace)
	return out
}

// c09GenValidFields draws the fields of a well-formed request of kind for sq at height h.
func c09GenValidFields(t *rapid.T, kind int, h uint64, sq *vk.Square) c09Fields {
	f := c09Fields{height: h}
	width, ods := sq.Width(), sq.ODS
	switch kind {
	case c09Row:
		f.row = uint16(c09Biased(t, "row", width))
	case c09Sample:
		f.row = uint16(c09Biased(t, "row", width))
		f.col = uint16(c09Biased(t, "col", width))
	case c09ND:
		f.ns = rapid.SampledFrom(c09NSCandidates(sq)).Draw(t, "ns").Bytes()
	case c09Range:
		anchor := rapid.IntRange(0, ods*ods-1).Draw(t, "anchor")
		lo, hi := sq.NSStretch(anchor)
		var from, to int
		switch rapid.IntRange(0, 4).Draw(t, "rangekind") {
		case 0:
			from, to = lo, hi
		case 1:
			from = rapid.IntRange(lo, hi-1).Draw(t, "from")
			to = rapid.IntRange(from+1, hi).Draw(t, "to")
		case 2: // row aligned where possible
			from = min(hi-1, ((lo+ods-1)/ods)*ods)
			to = max(from+1, (hi/ods)*ods)
			if to > hi {
				to = hi
			}
		case 3:
			from, to = anchor, anchor+1
		default:
			from = rapid.IntRange(lo, hi-1).Draw(t, "from")
			to = hi
		}
		f.from, f.to = uint32(from), uint32(to)
	}
	return f
}

func (w *c09World) genWellFormed(t *rapid.T) *c09Req {
	rq := &c09Req{class: "wf", via: "client", kind: rapid.IntRange(0, c09Kinds-1).Draw(t, "kind")}
	h, sq := w.genHeld(t)
	rq.f = c09GenValidFields(t, rq.kind, h, sq)
	rq.how = "held"
	if rapid.IntRange(0, 7).Draw(t, "notheld") == 0 {
		rq.f.height = w.genNotHeld(t)
		rq.how = "notheld"
	}
	return rq
}

func (w *c09World) genFault(t *rapid.T) *c09Req {
	rq := &c09Req{class: "fault", via: "client", kind: rapid.IntRange(0, c09Kinds-1).Draw(t, "kind")}
	h, sq := w.genHeld(t)
	rq.f = c09GenValidFields(t, rq.kind, h, sq)
	rq.fault = rapid.SampledFrom([]string{"service", "reserve", "size", "lookup", "panic"}).Draw(t, "fault")
	rq.how = "fault"
	return rq
}

var c09HostileNS = func() [][]byte {
	rep := func(b byte) []byte { return bytes.Repeat([]byte{b}, libshare.NamespaceSize) }
	v1 := make([]byte, libshare.NamespaceSize)
	v1[0] = 1
	v1[libshare.NamespaceSize-1] = 7
	badPrefix := make([]byte, libshare.NamespaceSize) // version 0 with a non-zero id prefix
	badPrefix[1] = 0x55
	badPrefix[libshare.NamespaceSize-1] = 1
	v255 := rep(0xFF)
	v255[libshare.NamespaceSize-1] = 0xF0
	return [][]byte{
		libshare.ParitySharesNamespace.Bytes(), libshare.TailPaddingNamespace.Bytes(),
		libshare.MaxPrimaryReservedNamespace.Bytes(), libshare.MinSecondaryReservedNamespace.Bytes(),
		libshare.TxNamespace.Bytes(), libshare.PayForBlobNamespace.Bytes(),
		libshare.PrimaryReservedPaddingNamespace.Bytes(),
		rep(0x00), rep(0xFF), rep(0x7F), v1, badPrefix, v255,
	}
}()

// genBoundary perturbs one or two fields of a valid request to the values at and around their
// bounds for the stored square and to the extremes of their wire types.
func (w *c09World) genBoundary(t *rapid.T) *c09Req {
	rq := &c09Req{class: "bound", kind: rapid.IntRange(0, c09Kinds-1).Draw(t, "kind")}
	h, sq := w.genHeld(t)
	f := c09GenValidFields(t, rq.kind, h, sq)
	width, ods, area := sq.Width(), sq.ODS, sq.ODS*sq.ODS
	u16 := func(label string) uint16 {
		v := rapid.SampledFrom([]int{
			0, ods - 1, ods, width - 1, width, width + 1, 2 * width, 255, 256, 32767, 32768, 65534, 65535, -1,
		}).Draw(t, label)
		if v < 0 {
			v = rapid.IntRange(0, 65535).Draw(t, label+".any")
		}
		return uint16(v)
	}
	u32 := func(label string) uint32 {
		v := rapid.SampledFrom([]int64{
			0, 1, int64(ods) - 1, int64(ods), int64(ods) + 1, int64(area) - 1, int64(area), int64(area) + 1,
			2 * int64(area), 4 * int64(area), 65535, 65536, 65537, 1<<31 - 1, 1 << 31, 1<<32 - 2, 1<<32 - 1, -1,
		}).Draw(t, label)
		if v < 0 {
			v = int64(rapid.IntRange(0, area+2).Draw(t, label+".near"))
		}
		return uint32(v)
	}
	var hows []string
	nmut := rapid.IntRange(1, 2).Draw(t, "nfields")
	for i := 0; i < nmut; i++ {
		fields := []string{"height"}
		switch rq.kind {
		case c09Row:
			fields = append(fields, "row", "row")
		case c09Sample:
			fields = append(fields, "row", "col", "row", "col")
		case c09ND:
			fields = append(fields, "ns", "ns", "ns")
		case c09Range:
			fields = append(fields, "from", "to", "from", "to", "fromto")
		}
		which := rapid.SampledFrom(fields).Draw(t, "field")
		switch which {
		case "height":
			f.height = rapid.SampledFrom([]uint64{
				0, h - 1, h + 1, h + 1<<32, h | 1<<63, 1<<64 - 1, 1 << 63, 1 << 32, h,
			}).Draw(t, "height")
		case "row":
			f.row = u16("rowv")
		case "col":
			f.col = u16("colv")
		case "ns":
			f.ns = append([]byte(nil), rapid.SampledFrom(c09HostileNS).Draw(t, "nsv")...)
		case "from":
			f.from = u32("fromv")
		case "to":
			f.to = u32("tov")
		case "fromto": // from >= to around a valid pair
			switch rapid.IntRange(0, 2).Draw(t, "ft") {
			case 0:
				f.to = f.from
			case 1:
				f.from, f.to = f.to, f.from
			default:
				f.from, f.to = f.to, f.to
			}
		}
		hows = append(hows, which)
	}
	rq.f = f
	rq.how = strings.Join(hows, "+")
	rq.via = "raw"
	clientOK := true
	if rq.kind == c09ND {
		if _, err := libshare.NewNamespaceFromBytes(f.ns); err != nil {
			clientOK = false // the client cannot even hold such a namespace value
		}
	}
	if clientOK && rapid.Bool().Draw(t, "viaclient") {
		rq.via = "client"
	} else {
		rq.raw = c09Encode(rq.kind, f)
		rq.split = rapid.IntRange(0, len(rq.raw)).Draw(t, "split")
	}
	return rq
}

// genRaw writes arbitrary bytes: wrong lengths, truncations, random bytes, mutated valid
// identifiers, identifiers of another protocol, trailing garbage.
func (w *c09World) genRaw(t *rapid.T) *c09Req {
	rq := &c09Req{class: "raw", via: "raw", kind: rapid.IntRange(0, c09Kinds-1).Draw(t, "kind")}
	h, sq := w.genHeld(t)
	base := c09Encode(rq.kind, c09GenValidFields(t, rq.kind, h, sq))
	n := c09IDSize[rq.kind]
	how := rapid.SampledFrom([]string{
		"truncate", "extend", "random", "randomsized", "mutate", "cross", "empty", "valid", "zeros", "ones",
	}).Draw(t, "how")
	switch how {
	case "truncate":
		rq.raw = base[:rapid.IntRange(0, n-1).Draw(t, "len")]
	case "extend":
		rq.raw = append(base, rapid.SliceOfN(rapid.Byte(), 1, 96).Draw(t, "garbage")...)
	case "random":
		rq.raw = rapid.SliceOfN(rapid.Byte(), 0, 2*n).Draw(t, "bytes")
	case "randomsized":
		rq.raw = rapid.SliceOfN(rapid.Byte(), n, n).Draw(t, "bytes")
	case "mutate":
		okind := rapid.IntRange(0, c09Kinds-1).Draw(t, "sibkind")
		_, osq := w.genHeld(t)
		sib := c09Encode(okind, c09GenValidFields(t, okind, h, osq))
		rq.raw, _ = vk.MutateBytes(t, "mut", base, sib)
	case "cross":
		okind := rapid.IntRange(0, c09Kinds-1).Draw(t, "otherkind")
		rq.raw = c09Encode(okind, c09GenValidFields(t, okind, h, sq))
	case "empty":
		rq.raw = nil
	case "valid":
		rq.raw = base
	case "zeros":
		rq.raw = make([]byte, rapid.IntRange(1, 2*n).Draw(t, "len"))
	case "ones":
		rq.raw = bytes.Repeat([]byte{0xFF}, rapid.IntRange(1, 2*n).Draw(t, "len"))
	}
	rq.how = how
	rq.split = rapid.IntRange(0, len(rq.raw)).Draw(t, "split")
	switch rapid.IntRange(0, 15).Draw(t, "mode") {
	case 0:
		rq.hold = true
	case 1:
		rq.abort = true
	case 2:
		rq.stall = true
	}
	return rq
}

// ------------------------------------------------------------------------------------------
// tests

func c09ODSSet() []int {
	if vk.Thorough() {
		return []int{1, 2, 4, 4, 8, 8, 16}
	}
	return []int{1, 2, 4, 4, 8, 8, 16}
}

// TestVerifC09_Requests: sampled squares (ODS 1..16) and sampled requests of all classes.
func TestVerifC09_Requests(t *testing.T) {
	defer vk.Flush()
	rapid.Check(t, func(t *rapid.T) {
		w := c09GenWorld(t, c09ODSSet(), 3)
		defer w.close()
		n := rapid.IntRange(8, 32).Draw(t, "nreq")
		for i := 0; i < n; i++ {
			var rq *c09Req
			// (rapid biases integer draws to small values: the hostile classes come first)
			switch c := rapid.IntRange(0, 19).Draw(t, "class"); {
			case c < 6:
				rq = w.genBoundary(t)
			case c < 12:
				rq = w.genRaw(t)
			case c < 19:
				rq = w.genWellFormed(t)
			default:
				rq = w.genFault(t)
			}
			w.run(t, rq)
		}
	})
}

// TestVerifC09_SmallExhaustive: for a generated square of ODS 1 or 2 (or the empty block) EVERY
// sample coordinate, row, namespace class and [from,to) is requested, plus the first
// out-of-bounds value of every field, zero and foreign heights for every protocol.
func TestVerifC09_SmallExhaustive(t *testing.T) {
	defer vk.Flush()
	rapid.Check(t, func(t *rapid.T) {
		sq := vk.GenSquare(t, "sq", vk.SquareOpts{ODS: []int{1, 2, 2}, AllowEmpty: true})
		h := uint64(rapid.IntRange(1, 1000).Draw(t, "h"))
		w := c09NewWorld(t, c09WorldOpts{
			squares: []*vk.Square{sq}, heights: []uint64{h},
			q4:    []bool{rapid.Bool().Draw(t, "q4")},
			cache: rapid.SampledFrom([]int{0, 10}).Draw(t, "cache"),
		})
		defer w.close()
		via := func(kind int, f c09Fields, how string) {
			// requests the property calls well-formed go through the real client; everything else
			// is written to the wire as bytes (and through the client too when it can hold the value)
			exp, _, _ := w.expect(kind, f, true, true)
			_, idErr := c09ClientID(kind, f)
			if exp == c09ExpServe || exp == c09ExpNotFound {
				w.run(t, &c09Req{class: "wf", kind: kind, f: f, how: how, via: "client"})
				return
			}
			raw := c09Encode(kind, f)
			w.run(t, &c09Req{class: "bound", kind: kind, f: f, how: how, via: "raw", raw: raw, split: len(raw)})
			if idErr == nil {
				w.run(t, &c09Req{class: "bound", kind: kind, f: f, how: how, via: "client"})
			}
		}
		width, area := sq.Width(), sq.ODS*sq.ODS
		notHeld := h + 1
		for _, height := range []uint64{h, notHeld, 0} {
			how := map[uint64]string{h: "held", notHeld: "notheld", 0: "zeroheight"}[height]
			full := height == h
			// whole square
			via(c09EDS, c09Fields{height: height}, how)
			// rows and samples: every index, and the first one out of bounds
			for r := 0; r <= width; r++ {
				if !full && r != 0 && r != width {
					continue
				}
				via(c09Row, c09Fields{height: height, row: uint16(r)}, how)
				for c := 0; c <= width; c++ {
					if !full && c != 0 && c != width {
						continue
					}
					via(c09Sample, c09Fields{height: height, row: uint16(r), col: uint16(c)}, how)
				}
			}
			// namespaces: every present one, every absent class, the forbidden ones
			nss := [][]byte{libshare.ParitySharesNamespace.Bytes(), libshare.TailPaddingNamespace.Bytes()}
			for _, ns := range c09NSCandidates(sq) {
				nss = append(nss, ns.Bytes())
			}
			for i, ns := range nss {
				if !full && i > 2 {
					break
				}
				via(c09ND, c09Fields{height: height, ns: ns}, how)
			}
			// ranges: every [from,to) over [0, area+1] including from >= to
			for from := 0; from <= area+1; from++ {
				for to := 0; to <= area+1; to++ {
					if !full && !(from == 0 && to == 1) {
						continue
					}
					via(c09Range, c09Fields{height: height, from: uint32(from), to: uint32(to)}, how)
				}
			}
		}
		// every injected fault once per protocol: the accessor and the memory must be released on
		// each early-exit path of the handler
		for kind := 0; kind < c09Kinds; kind++ {
			f := c09Fields{height: h, ns: sq.Shares[0].Namespace().Bytes(), to: 1}
			if kind == c09ND {
				f.ns = c09NSCandidates(sq)[0].Bytes()
			}
			for _, fault := range []string{"service", "reserve", "size", "lookup", "panic"} {
				w.run(t, &c09Req{class: "fault", kind: kind, f: f, how: "fault", via: "client", fault: fault})
			}
		}
		// a peer that sends a valid request and never reads the answer (whole square and a row: the
		// answers exceed the 1 KiB the peer lets the server have in flight): the handler must return
		// on its own and release the accessor and the reserved memory
		for _, kind := range []int{c09EDS, c09Row} {
			f := c09Fields{height: h}
			w.run(t, &c09Req{class: "raw", kind: kind, how: "valid-then-stall", via: "raw", raw: c09Encode(kind, f), stall: true,
				split: 0})
		}
		vk.Count("exhaustive_squares", 1)
	})
}
