package peers

// C17, concurrent tier: 4-12 goroutines run generated operation lists against one pool / one
// Manager with real timers and a cool-down of 100-500 µs. Schedules are sampled, not enumerated.
// Oracles: progress watchdog (no operation completes for c17Bound() while operations are
// outstanding => goroutine dump + VERIF-VIOLATION), afterwards the pools' counters equal a
// recount of their statuses, no peer is stuck on cool-down, no goroutine is left, and
// happens-before checks on what was handed out (a peer whose removal / blacklisting had
// completed before the request started, with no re-addition that could have taken effect,
// must not be offered). Thorough runs use -race.

import (
	"context"
	"fmt"
	"os"
	"path/filepath"
	"runtime"
	"strings"
	"sync"
	"sync/atomic"
	"testing"
	"time"

	"github.com/libp2p/go-libp2p/core/network"
	"github.com/libp2p/go-libp2p/core/peer"
	"pgregory.net/rapid"

	vk "github.com/celestiaorg/celestia-node/internal/verifkit"
	"github.com/celestiaorg/celestia-node/share"
	"github.com/celestiaorg/celestia-node/share/shwap/p2p/shrex/shrexsub"
)

type c17Op struct {
	Kind  string
	Peers []int // add / remove
	Peer  int
	Hash  int
	Flag  bool // get: put the offered peer on cool-down; discover: added
	Res   int  // peer: 0 noop, 1 cool-down, 2 blacklist
	Micro int  // pause / wait length in µs
}

func (o c17Op) String() string {
	switch o.Kind {
	case "add", "remove":
		return fmt.Sprintf("%s%v", o.Kind, o.Peers)
	case "get":
		if o.Flag {
			return "get+cooldown"
		}
		return "get"
	case "cooldown", "disconnect":
		return fmt.Sprintf("%s(p%d)", o.Kind, o.Peer)
	case "wait", "pause":
		return fmt.Sprintf("%s(%dµs)", o.Kind, o.Micro)
	case "announce":
		return fmt.Sprintf("announce(p%d,h%d)", o.Peer, o.Hash)
	case "header":
		return fmt.Sprintf("header(h%d)", o.Hash)
	case "discover":
		return fmt.Sprintf("discover(p%d,%v)", o.Peer, o.Flag)
	case "peer":
		return fmt.Sprintf("peer(h%d,wait %dµs,result %d,hold %dµs)", o.Hash, o.Micro, o.Res, o.Peer)
	}
	return o.Kind
}

// c17Rec is what one executed operation left behind: logical start/end ticks and the outcome.
type c17Rec struct {
	g          int
	op         c17Op
	start, end int64
	got        peer.ID   // peer handed out (get / wait / peer)
	bl         []peer.ID // peers whose blacklisting this operation completed
}

type c17Run struct {
	tick atomic.Int64
	wd   *c17Watchdog
	mu   sync.Mutex
	recs []c17Rec
}

func (r *c17Run) do(g int, op c17Op, f func(rec *c17Rec)) {
	rec := c17Rec{g: g, op: op}
	r.wd.begin()
	rec.start = r.tick.Add(1)
	f(&rec)
	rec.end = r.tick.Add(1)
	r.wd.end()
	r.mu.Lock()
	r.recs = append(r.recs, rec)
	r.mu.Unlock()
}

func c17PlanString(head string, plan [][]c17Op) string {
	var b strings.Builder
	b.WriteString(head)
	for g, ops := range plan {
		fmt.Fprintf(&b, "\ng%d:", g)
		for _, o := range ops {
			b.WriteString(" " + o.String())
		}
	}
	return b.String()
}

func c17Reps() int {
	if strings.HasSuffix(os.Getenv("VERIF_REPLAY_FILE"), ".fail") {
		return 50 // a schedule-dependent failure is replayed by running its plan many times
	}
	return 1
}

// c17WriteReplay stores the plan and the recorded history of a failed concurrent case.
func c17WriteReplay(name, verdict, plan string, recs []c17Rec) string {
	dir := os.Getenv("VERIF_REPLAY_DIR")
	if dir == "" {
		return ""
	}
	var b strings.Builder
	fmt.Fprintf(&b, "%s\n\nshard seed: %s\n\nplan:\n%s\n\nhistory (goroutine, op, start tick, end tick, handed out):\n", verdict, os.Getenv("VERIF_SHARD_SEED"), plan)
	for _, r := range recs {
		fmt.Fprintf(&b, "g%d %s [%d,%d] %s %v\n", r.g, r.op, r.start, r.end, string(r.got), c17IDs(r.bl))
	}
	file := filepath.Join(dir, fmt.Sprintf("c17-%s-%d.txt", name, time.Now().UnixNano()))
	_ = os.WriteFile(file, []byte(b.String()), 0o644)
	return file
}

// c17Drain waits until no peer of the pool is on cool-down any more (every cool-down of the run
// lasts at most ttl) and returns the peers that still are after the liveness bound.
func c17Drain(p *pool) []string {
	deadline := time.Now().Add(c17Bound())
	for {
		var stuck []string
		p.m.RLock()
		for _, id := range p.peersList {
			if p.statuses[id] == cooldown {
				stuck = append(stuck, string(id))
			}
		}
		p.m.RUnlock()
		if len(stuck) == 0 && p.cooldown.len() > 0 && !time.Now().After(deadline) {
			// items of peers that were removed while on cool-down: their timers are still pending
			time.Sleep(200 * time.Microsecond)
			continue
		}
		if len(stuck) == 0 || time.Now().After(deadline) {
			return stuck
		}
		time.Sleep(200 * time.Microsecond)
	}
}

// ---------------------------------------------------------------------------------------------
// pool

func c17GenPoolPlan(rt *rapid.T, nPeers, nG, maxOps int) [][]c17Op {
	plan := make([][]c17Op, nG)
	kinds := []string{"add", "add", "remove", "get", "get", "get", "get", "cooldown", "cooldown", "wait", "read", "pause"}
	for g := range plan {
		n := rapid.IntRange(maxOps/4, maxOps).Draw(rt, "ops")
		for i := 0; i < n; i++ {
			op := c17Op{Kind: rapid.SampledFrom(kinds).Draw(rt, "kind")}
			switch op.Kind {
			case "add", "remove":
				op.Peers = rapid.SliceOfN(rapid.IntRange(0, nPeers-1), 1, 3).Draw(rt, "peers")
			case "get":
				op.Flag = rapid.Bool().Draw(rt, "cd")
			case "cooldown", "read":
				op.Peer = rapid.IntRange(0, nPeers-1).Draw(rt, "peer")
			case "wait":
				op.Micro = rapid.IntRange(100, 2000).Draw(rt, "wait")
			case "pause":
				op.Micro = rapid.IntRange(20, 600).Draw(rt, "pause")
			}
			plan[g] = append(plan[g], op)
		}
	}
	return plan
}

func c17RunPoolPlan(wd *c17Watchdog, uni []peer.ID, ttl time.Duration, plan [][]c17Op) (*pool, []c17Rec) {
	p := newPool(ttl)
	run := &c17Run{wd: wd}
	ids := func(ix []int) []peer.ID {
		out := make([]peer.ID, len(ix))
		for i, j := range ix {
			out[i] = uni[j]
		}
		return out
	}
	var wg sync.WaitGroup
	startCh := make(chan struct{})
	for g := range plan {
		wg.Add(1)
		go func(g int) {
			defer wg.Done()
			<-startCh
			for _, op := range plan[g] {
				run.do(g, op, func(rec *c17Rec) {
					switch op.Kind {
					case "add":
						p.add(ids(op.Peers)...)
					case "remove":
						p.remove(ids(op.Peers)...)
					case "get":
						if id, ok := p.tryGet(); ok {
							rec.got = id
							if op.Flag {
								p.putOnCooldown(id)
							}
						}
					case "cooldown":
						p.putOnCooldown(uni[op.Peer])
					case "wait":
						ctx, cancel := context.WithTimeout(context.Background(), time.Duration(op.Micro)*time.Microsecond)
						select {
						case id := <-p.next(ctx):
							rec.got = id
						case <-ctx.Done():
						}
						cancel()
					case "read":
						_ = p.len()
						_ = p.has(uni[op.Peer])
						_ = p.peers()
					case "pause":
						time.Sleep(time.Duration(op.Micro) * time.Microsecond)
					}
				})
			}
		}(g)
	}
	close(startCh)
	wg.Wait()
	return p, run.recs
}

// c17CheckPoolHistory: a peer handed out by an operation G must have been added by an add that
// could have taken effect before G ended, and there must be no remove of it that completed
// before G started unless an add could have taken effect after that remove began.
func c17CheckPoolHistory(recs []c17Rec, uni []peer.ID) error {
	type iv struct{ s, e int64 }
	adds := map[peer.ID][]iv{}
	rems := map[peer.ID][]iv{}
	for _, r := range recs {
		if r.op.Kind == "add" || r.op.Kind == "remove" {
			for _, j := range r.op.Peers {
				if r.op.Kind == "add" {
					adds[uni[j]] = append(adds[uni[j]], iv{r.start, r.end})
				} else {
					rems[uni[j]] = append(rems[uni[j]], iv{r.start, r.end})
				}
			}
		}
	}
	for _, g := range recs {
		if g.got == "" {
			continue
		}
		x := g.got
		added := false
		for _, a := range adds[x] {
			if a.s < g.end {
				added = true
			}
		}
		if !added {
			return fmt.Errorf("C17/pool-offers-only-active: g%d %s [%d,%d] was handed %s, which no add that began before it ended had added",
				g.g, g.op, g.start, g.end, string(x))
		}
		for _, r := range rems[x] {
			if r.e >= g.start {
				continue
			}
			readded := false
			for _, a := range adds[x] {
				if a.e > r.s && a.s < g.end {
					readded = true
				}
			}
			if !readded {
				return fmt.Errorf("C17/pool-offers-only-active: g%d %s [%d,%d] was handed %s although remove(%s) [%d,%d] had completed before and no add of it ran after that remove began",
					g.g, g.op, g.start, g.end, string(x), string(x), r.s, r.e)
			}
		}
	}
	return nil
}

func TestVerifC17_PoolConcurrent(t *testing.T) {
	defer vk.Flush()
	wd := c17StartWatchdog("pool-concurrent")
	defer wd.close()
	reps := c17Reps()
	rapid.Check(t, func(rt *rapid.T) {
		nPeers := rapid.IntRange(1, 6).Draw(rt, "peers")
		nG := rapid.IntRange(4, 12).Draw(rt, "goroutines")
		ttl := time.Duration(rapid.IntRange(100, 500).Draw(rt, "ttl_us")) * time.Microsecond
		maxOps := 120
		if vk.Thorough() {
			maxOps = 300
		}
		plan := c17GenPoolPlan(rt, nPeers, nG, maxOps)
		uni := make([]peer.ID, nPeers)
		for i := range uni {
			uni[i] = peer.ID(fmt.Sprintf("p%d", i))
		}
		desc := c17PlanString(fmt.Sprintf("pool, %d peers, cool-down %s", nPeers, ttl), plan)
		wd.setDescribe(func() string { return desc })
		cdG, ops := 0, 0
		for _, g := range plan {
			has := false
			for _, o := range g {
				ops++
				if o.Kind == "cooldown" || (o.Kind == "get" && o.Flag) {
					has = true
				}
			}
			if has {
				cdG++
			}
		}
		for rep := 0; rep < reps; rep++ {
			p, recs := c17RunPoolPlan(wd, uni, ttl, plan)
			fail := func(format string, a ...any) {
				verdict := fmt.Sprintf(format, a...)
				file := c17WriteReplay("pool-concurrent", verdict, desc, recs)
				rt.Fatalf("%s\n(plan and history: %s)\nplan:\n%s", verdict, file, c17Trunc(desc, 4000))
			}
			if n := c17WaitNoGoroutine("peers.(*pool).next.func1"); n > 0 {
				fail("C17/cancellation-honoured: %d goroutine(s) of pool.next alive %s after their contexts expired", n, c17Bound())
			}
			if stuck := c17Drain(p); len(stuck) > 0 {
				fail("C17/cooldown-expiry: %v still on cool-down %s after the last operation (cool-down %s, queue length %d): they are never offered again",
					stuck, c17Bound(), ttl, p.cooldown.len())
			}
			if err := c17PoolConsistency(p); err != nil {
				fail("C17/pool-counts: after the run: %v", err)
			}
			if err := c17CheckPoolHistory(recs, uni); err != nil {
				fail("%v", err)
			}
		}
		labels := []string{"tier=pool-concurrent", fmt.Sprintf("goroutines=%d", nG), fmt.Sprintf("cooldown-goroutines=%d", min(cdG, 4))}
		if cdG >= 2 {
			labels = append(labels, "cooldown-goroutines>=2")
		}
		vk.Count("pool_concurrent_ops", int64(ops))
		// non-trivial (DESIGN C17): plan with >= 2 goroutines calling putOnCooldown
		vk.Record(desc, labels, cdG >= 2, func() any { return c17Trunc(desc, 1500) })
	})
}

// ---------------------------------------------------------------------------------------------
// manager

func c17GenMgrPlan(rt *rapid.T, nPeers, nHashes, nG, maxOps int) [][]c17Op {
	plan := make([][]c17Op, nG)
	kinds := []string{"announce", "announce", "announce", "header", "discover", "discover", "disconnect",
		"peer", "peer", "peer", "peer", "gc", "pause"}
	for g := range plan {
		n := rapid.IntRange(maxOps/4, maxOps).Draw(rt, "ops")
		for i := 0; i < n; i++ {
			op := c17Op{Kind: rapid.SampledFrom(kinds).Draw(rt, "kind")}
			switch op.Kind {
			case "announce":
				op.Peer = rapid.IntRange(0, nPeers-1).Draw(rt, "peer")
				op.Hash = rapid.IntRange(0, nHashes-1).Draw(rt, "hash")
			case "header":
				op.Hash = rapid.IntRange(0, nHashes-1).Draw(rt, "hash")
			case "discover":
				op.Peer = rapid.IntRange(0, nPeers-1).Draw(rt, "peer")
				op.Flag = rapid.IntRange(0, 3).Draw(rt, "added") != 0
			case "disconnect":
				op.Peer = rapid.IntRange(0, nPeers-1).Draw(rt, "peer")
			case "peer":
				op.Hash = rapid.IntRange(0, nHashes-1).Draw(rt, "hash")
				op.Micro = rapid.IntRange(50, 2000).Draw(rt, "wait")
				op.Res = rapid.SampledFrom([]int{0, 1, 1, 1, 2, 2}).Draw(rt, "result")
				op.Peer = rapid.SampledFrom([]int{0, 0, 50, 300}).Draw(rt, "hold") // µs between grant and done
			case "pause":
				op.Micro = rapid.IntRange(20, 600).Draw(rt, "pause")
			}
			plan[g] = append(plan[g], op)
		}
	}
	return plan
}

// c17SigCleanupRace: Manager.cleanUp iterates (and logs) syncPool.peersList holding only the
// manager lock, while pool.add (Validate) and pool.remove/cleanup (Peer) write it under the pool
// lock: a data race between the GC goroutine and the shrex-sub validator / requests.
const c17SigCleanupRace = "C17:datarace-gc-reads-pool-peerlist-unlocked"

type c17MgrRun struct {
	env     *c17Env
	recs    []c17Rec
	hashes  []share.DataHash
	heights []uint64
}

func c17RunMgrPlan(wd *c17Watchdog, params Parameters, uni []peer.ID, nHashes int, plan [][]c17Op) (*c17MgrRun, error) {
	env, err := newC17Env(params, "self")
	if err != nil {
		return nil, err
	}
	mr := &c17MgrRun{env: env}
	for i := 0; i < nHashes; i++ {
		hash := make([]byte, share.DataHashSize)
		copy(hash, fmt.Sprintf("verif-hash-%d", i))
		mr.hashes = append(mr.hashes, hash)
		mr.heights = append(mr.heights, uint64(5+i)) // all inside the window of stored pools
	}
	run := &c17Run{wd: wd}
	results := []result{ResultNoop, ResultCooldownPeer, ResultBlacklistPeer}
	var hdrMu, evMu sync.Mutex
	// known finding (data race, reported by the race detector only): cleanUp reads the peer list
	// of a pool without the pool's lock while Validate / Peer may write it. When it is listed as
	// open, GC ticks are kept apart from those operations, which excludes exactly that overlap.
	var gcMu sync.RWMutex
	gcGuard := vk.KnownOpen(c17SigCleanupRace)
	var wg sync.WaitGroup
	startCh := make(chan struct{})
	for g := range plan {
		wg.Add(1)
		go func(g int) {
			defer wg.Done()
			<-startCh
			for _, op := range plan[g] {
				run.do(g, op, func(rec *c17Rec) {
					switch op.Kind {
					case "announce":
						if gcGuard {
							gcMu.RLock()
							defer gcMu.RUnlock()
						}
						env.mgr.Validate(context.Background(), uni[op.Peer], shrexsub.Notification{DataHash: mr.hashes[op.Hash], Height: mr.heights[op.Hash]})
					case "header":
						hdrMu.Lock()
						env.header(mr.hashes[op.Hash], mr.heights[op.Hash])
						hdrMu.Unlock()
					case "discover":
						env.mgr.UpdateNodePool(uni[op.Peer], op.Flag)
					case "disconnect":
						evMu.Lock()
						env.connectedness(uni[op.Peer], network.NotConnected)
						evMu.Unlock()
					case "peer":
						if gcGuard {
							gcMu.RLock()
							defer gcMu.RUnlock()
						}
						ctx, cancel := context.WithTimeout(context.Background(), time.Duration(op.Micro)*time.Microsecond)
						id, done, err := env.mgr.Peer(ctx, mr.hashes[op.Hash], mr.heights[op.Hash])
						cancel()
						if err == nil {
							rec.got = id
							if op.Peer > 0 {
								time.Sleep(time.Duration(op.Peer) * time.Microsecond)
							}
							done(results[op.Res])
							if results[op.Res] == ResultBlacklistPeer && params.EnableBlackListing {
								rec.bl = []peer.ID{id}
							}
						}
					case "gc":
						if gcGuard {
							gcMu.Lock()
							defer gcMu.Unlock()
							vk.Excluded(c17SigCleanupRace)
						}
						if bl := env.mgr.cleanUp(); len(bl) > 0 {
							env.mgr.blacklistPeers(reasonInvalidHash, bl...)
							if params.EnableBlackListing {
								rec.bl = bl
							}
						}
					case "pause":
						time.Sleep(time.Duration(op.Micro) * time.Microsecond)
					}
				})
			}
		}(g)
	}
	close(startCh)
	wg.Wait()
	mr.recs = run.recs
	return mr, nil
}

// c17CheckMgrHistory: (1) a peer whose blacklisting had completed before a Peer request started
// must not be handed out by it; (2) a peer handed out must have been reported by discovery, or
// have announced the requested hash, or have announced a hash that a header or a request
// confirmed — each by an operation that began before the request ended.
func c17CheckMgrHistory(recs []c17Rec, uni []peer.ID) error {
	blEnd := map[peer.ID]int64{}
	for _, r := range recs {
		for _, x := range r.bl {
			if e, ok := blEnd[x]; !ok || r.end < e {
				blEnd[x] = r.end
			}
		}
	}
	for _, g := range recs {
		if g.op.Kind != "peer" || g.got == "" {
			continue
		}
		x := g.got
		if e, ok := blEnd[x]; ok && e < g.start {
			return fmt.Errorf("C17/blacklisted-peer-offered: g%d %s [%d,%d] was handed %s, whose blacklisting had completed at tick %d (blacklisting is enabled)",
				g.g, g.op, g.start, g.end, string(x), e)
		}
		ok := false
		for _, r := range recs {
			if r.start >= g.end {
				continue
			}
			switch {
			case r.op.Kind == "discover" && r.op.Flag && uni[r.op.Peer] == x:
				ok = true
			case r.op.Kind == "announce" && uni[r.op.Peer] == x:
				if r.op.Hash == g.op.Hash {
					ok = true
					break
				}
				for _, v := range recs {
					if v.start < g.end && (v.op.Kind == "header" || v.op.Kind == "peer") && v.op.Hash == r.op.Hash {
						ok = true
					}
				}
			}
			if ok {
				break
			}
		}
		if !ok {
			return fmt.Errorf("C17/unconfirmed-peer-offered: g%d %s [%d,%d] was handed %s, which discovery never reported and which announced no hash that was confirmed (or requested) by then",
				g.g, g.op, g.start, g.end, string(x))
		}
	}
	return nil
}

func TestVerifC17_ManagerConcurrent(t *testing.T) {
	defer vk.Flush()
	wd := c17StartWatchdog("manager-concurrent")
	defer wd.close()
	reps := c17Reps()
	rapid.Check(t, func(rt *rapid.T) {
		nPeers := rapid.IntRange(1, 5).Draw(rt, "peers")
		nHashes := rapid.IntRange(1, 4).Draw(rt, "hashes")
		nG := rapid.IntRange(4, 12).Draw(rt, "goroutines")
		bl := rapid.IntRange(0, 3).Draw(rt, "blacklisting") != 0
		params := *DefaultParameters()
		params.PeerCooldown = time.Duration(rapid.IntRange(100, 500).Draw(rt, "ttl_us")) * time.Microsecond
		params.PoolValidationTimeout = time.Duration(rapid.IntRange(200, 3000).Draw(rt, "validation_timeout_us")) * time.Microsecond
		params.EnableBlackListing = bl
		maxOps := 80
		if vk.Thorough() {
			maxOps = 200
		}
		plan := c17GenMgrPlan(rt, nPeers, nHashes, nG, maxOps)
		uni := make([]peer.ID, nPeers)
		for i := range uni {
			uni[i] = peer.ID(fmt.Sprintf("p%d", i))
		}
		desc := c17PlanString(fmt.Sprintf("manager, %d peers, %d hashes, cool-down %s, validation timeout %s, blacklisting=%v",
			nPeers, nHashes, params.PeerCooldown, params.PoolValidationTimeout, bl), plan)
		wd.setDescribe(func() string { return desc })
		cdG, blG, ops := 0, 0, 0
		for _, g := range plan {
			hasCd, hasBl := false, false
			for _, o := range g {
				ops++
				if o.Kind == "peer" && o.Res == 1 {
					hasCd = true
				}
				if o.Kind == "gc" || (o.Kind == "peer" && o.Res == 2) {
					hasBl = true
				}
			}
			if hasCd {
				cdG++
			}
			if hasBl {
				blG++
			}
		}
		for rep := 0; rep < reps; rep++ {
			mr, err := c17RunMgrPlan(wd, params, uni, nHashes, plan)
			if err != nil {
				t.Logf("VERIF-INFRA: cannot build manager: %v", err)
				rt.Fatalf("VERIF-INFRA: cannot build manager: %v", err)
			}
			fail := func(format string, a ...any) {
				verdict := fmt.Sprintf(format, a...)
				file := c17WriteReplay("manager-concurrent", verdict, desc, mr.recs)
				rt.Fatalf("%s\n(plan and history: %s)\nplan:\n%s", verdict, file, c17Trunc(desc, 4000))
			}
			if err := mr.env.stop(); err != nil {
				fail("C17/cancellation-honoured: %v", err)
			}
			for _, fn := range []string{"peers.(*pool).next.func1", "peers.(*Manager).Peer"} {
				if n := c17WaitNoGoroutine(fn); n > 0 {
					fail("C17/cancellation-honoured: %d goroutine(s) in %s alive %s after every request context expired", n, fn, c17Bound())
				}
			}
			pools := map[string]*pool{"general pool": mr.env.mgr.nodes}
			mr.env.mgr.lock.Lock()
			for i, h := range mr.hashes {
				if sp := mr.env.mgr.pools[h.String()]; sp != nil {
					pools[fmt.Sprintf("pool of h%d", i)] = sp.pool
				}
			}
			mr.env.mgr.lock.Unlock()
			names := make([]string, 0, len(pools))
			for n := range pools {
				names = append(names, n)
			}
			sortStrings(names)
			for _, n := range names {
				if stuck := c17Drain(pools[n]); len(stuck) > 0 {
					fail("C17/cooldown-expiry: %s: %v still on cool-down %s after the last operation (cool-down %s): they are never offered again",
						n, stuck, c17Bound(), params.PeerCooldown)
				}
				if err := c17PoolConsistency(pools[n]); err != nil {
					fail("C17/pool-counts: %s after the run: %v", n, err)
				}
			}
			if err := c17CheckMgrHistory(mr.recs, uni); err != nil {
				fail("%v", err)
			}
			granted := 0
			for _, r := range mr.recs {
				if r.op.Kind == "peer" && r.got != "" {
					granted++
				}
			}
			vk.Count("manager_concurrent_grants", int64(granted))
		}
		labels := []string{"tier=manager-concurrent", fmt.Sprintf("goroutines=%d", nG), fmt.Sprintf("blacklisting=%v", bl)}
		if cdG >= 2 {
			labels = append(labels, "cooldown-goroutines>=2")
		}
		if bl && blG >= 1 {
			labels = append(labels, "blacklisting-ops")
		}
		vk.Count("manager_concurrent_ops", int64(ops))
		vk.Record(desc, labels, cdG >= 2, func() any { return c17Trunc(desc, 1500) })
	})
}

func sortStrings(s []string) {
	for i := 1; i < len(s); i++ {
		for j := i; j > 0 && s[j] < s[j-1]; j-- {
			s[j], s[j-1] = s[j-1], s[j]
		}
	}
}

// ---------------------------------------------------------------------------------------------
// first confirmation of a hash under concurrent requests

// TestVerifC17_ConfirmationRace: peers announce a hash nobody has confirmed yet; then 2-4 requests
// for that hash start together (each of them confirms the hash, the first one promotes the
// announcers), optionally while its header arrives as well. Every announcer is eligible, so every
// request must be handed one of them; a request that is still waiting after the liveness bound
// means the announcers were lost on the way.
func TestVerifC17_ConfirmationRace(t *testing.T) {
	defer vk.Flush()
	wd := c17StartWatchdog("confirmation-race")
	defer wd.close()
	reps := c17Reps()
	hash := share.DataHash(make([]byte, share.DataHashSize))
	copy(hash, "verif-confirmation-race")
	rapid.Check(t, func(rt *rapid.T) {
		nAnn := rapid.IntRange(1, 3).Draw(rt, "announcers")
		nReq := rapid.IntRange(2, 4).Draw(rt, "requests")
		withHeader := rapid.Bool().Draw(rt, "header")
		stagger := rapid.IntRange(0, 3).Draw(rt, "stagger")
		desc := fmt.Sprintf("%d announcer(s) of an unconfirmed hash, then %d concurrent Peer requests for it, header arrives concurrently=%v, stagger=%d",
			nAnn, nReq, withHeader, stagger)
		wd.setDescribe(func() string { return desc })
		if vk.KnownOpen(c17SigValidationRace) {
			vk.Excluded(c17SigValidationRace) // the whole scenario has the shape of the known finding
			return
		}
		for rep := 0; rep < reps*4; rep++ {
			env, err := newC17Env(*DefaultParameters(), "self")
			if err != nil {
				rt.Fatalf("VERIF-INFRA: cannot build manager: %v", err)
			}
			ann := map[peer.ID]bool{}
			for i := 0; i < nAnn; i++ {
				id := peer.ID(fmt.Sprintf("p%d", i))
				ann[id] = true
				env.mgr.Validate(context.Background(), id, shrexsub.Notification{DataHash: hash, Height: 5})
			}
			ctx, cancel := context.WithCancel(context.Background())
			res := make(chan c17PeerRes, nReq)
			startCh := make(chan struct{})
			for i := 0; i < nReq; i++ {
				i := i
				go func() {
					<-startCh
					for k := 0; k < i*stagger; k++ {
						runtime.Gosched()
					}
					// no watchdog bracket: the bounded wait below judges these requests itself
					id, done, err := env.mgr.Peer(ctx, hash, 5)
					res <- c17PeerRes{id, done, err}
				}()
			}
			close(startCh)
			if withHeader {
				wd.begin()
				env.header(hash, 5)
				wd.end()
			}
			tm := time.NewTimer(c17Bound())
			for i := 0; i < nReq; i++ {
				select {
				case r := <-res:
					if r.err != nil || !ann[r.id] {
						cancel()
						rt.Fatalf("C17/request-returns: Peer returned (%q, %v); want one of the %d announcers of the requested hash\ncase: %s", string(r.id), r.err, nAnn, desc)
					}
				case <-tm.C:
					var where []string
					for id := range ann {
						st, ok := c17Status(env.mgr.getPool(hash.String()).pool, id)
						where = append(where, fmt.Sprintf("%s: hash pool=%s, general pool member=%v", string(id), c17StatusName(st, ok), env.mgr.nodes.has(id)))
					}
					sortStrings(where)
					cancel()
					c17ShrinkBound()
					rt.Fatalf("C17/request-returns: %d of %d concurrent Peer requests for a hash with %d eligible announcer(s) still wait after %s; announcers now: %v\ncase: %s",
						nReq-i, nReq, nAnn, c17Bound(), where, desc)
				}
			}
			tm.Stop()
			cancel()
			if err := env.stop(); err != nil {
				rt.Fatalf("C17/cancellation-honoured: %v", err)
			}
		}
		vk.Record(desc, []string{"tier=confirmation-race", fmt.Sprintf("requests=%d", nReq), fmt.Sprintf("header=%v", withHeader)}, true,
			func() any { return desc })
	})
}
