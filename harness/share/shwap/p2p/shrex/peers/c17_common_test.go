package peers

// C17 — peer selection never deadlocks and never hands out a peer it should not.
// Shared pieces of the C17 harness of /verif (injected by overlay; not part of celestia-node):
// a step clock that fires timers synchronously, structural consistency of a pool, the
// progress watchdog and the goroutine-leak probe.

import (
	"fmt"
	"os"
	"path/filepath"
	"runtime"
	"sort"
	"strings"
	"sync"
	"sync/atomic"
	"time"

	"github.com/benbjohnson/clock"
	"github.com/libp2p/go-libp2p/core/peer"

	vk "github.com/celestiaorg/celestia-node/internal/verifkit"
)

// ---------------------------------------------------------------------------------------------
// step clock

// c17Clock is a clock.Clock whose time only moves when the harness calls advance, and whose
// AfterFunc callbacks are run synchronously by advance on the caller's goroutine, in deadline
// order, at exactly their deadline (like a real timer: once, unless the owner stopped it).
// The embedded Mock is never advanced: it only mints *clock.Timer values whose Stop works.
type c17Clock struct {
	*clock.Mock
	mu     sync.Mutex
	now    time.Time
	seq    int
	timers []*c17Timer
	fired  int
}

type c17Timer struct {
	at  time.Time
	seq int
	fn  func()
	tm  *clock.Timer
}

func newC17Clock() *c17Clock {
	return &c17Clock{Mock: clock.NewMock(), now: time.Unix(1_700_000_000, 0)}
}

func (c *c17Clock) Now() time.Time {
	c.mu.Lock()
	defer c.mu.Unlock()
	return c.now
}

func (c *c17Clock) Since(t time.Time) time.Duration { return c.Now().Sub(t) }
func (c *c17Clock) Until(t time.Time) time.Duration { return t.Sub(c.Now()) }

func (c *c17Clock) AfterFunc(d time.Duration, fn func()) *clock.Timer {
	tm := c.Mock.AfterFunc(time.Duration(1<<62), func() {})
	c.mu.Lock()
	c.seq++
	c.timers = append(c.timers, &c17Timer{at: c.now.Add(d), seq: c.seq, fn: fn, tm: tm})
	c.mu.Unlock()
	return tm
}

// advance moves the clock forward by d. Every timer that becomes due is fired at its deadline
// (time stands at the deadline while its callback runs), earliest first.
func (c *c17Clock) advance(d time.Duration) {
	c.mu.Lock()
	target := c.now.Add(d)
	for {
		idx := -1
		for i, t := range c.timers {
			if t.at.After(target) {
				continue
			}
			if idx < 0 || t.at.Before(c.timers[idx].at) || (t.at.Equal(c.timers[idx].at) && t.seq < c.timers[idx].seq) {
				idx = i
			}
		}
		if idx < 0 {
			break
		}
		t := c.timers[idx]
		c.timers = append(c.timers[:idx], c.timers[idx+1:]...)
		if t.at.After(c.now) {
			c.now = t.at
		}
		c.mu.Unlock()
		// Stop reports true iff the owner of the timer has not stopped it before
		if t.tm.Stop() {
			t.fn()
			c.mu.Lock()
			c.fired++
			c.mu.Unlock()
		}
		c.mu.Lock()
	}
	c.now = target
	c.mu.Unlock()
}

// ---------------------------------------------------------------------------------------------
// structural consistency of a pool ("counts peers correctly")

// c17PoolConsistency recounts the pool's bookkeeping from its status table: the active counter,
// the has-peer flag and the has-peer channel (what waiters block on) must agree with the number
// of peers whose status is active, every listed peer has a status and vice versa.
func c17PoolConsistency(p *pool) error {
	p.m.RLock()
	defer p.m.RUnlock()
	seen := make(map[peer.ID]bool, len(p.peersList))
	act := 0
	for _, id := range p.peersList {
		if seen[id] {
			return fmt.Errorf("peer %q is listed twice in the round-robin list %v", string(id), c17IDs(p.peersList))
		}
		seen[id] = true
		st, ok := p.statuses[id]
		if !ok {
			return fmt.Errorf("peer %q is in the round-robin list but has no status", string(id))
		}
		if st == active {
			act++
		}
	}
	keys := make([]string, 0, len(p.statuses))
	for id := range p.statuses {
		keys = append(keys, string(id))
	}
	sort.Strings(keys)
	for _, k := range keys {
		if !seen[peer.ID(k)] {
			return fmt.Errorf("peer %q has status %d but is not in the round-robin list (can never be offered)", k, p.statuses[peer.ID(k)])
		}
	}
	if act != p.activeCount {
		return fmt.Errorf("activeCount=%d but %d peers have status active (list %v)", p.activeCount, act, c17IDs(p.peersList))
	}
	if p.hasPeer != (act > 0) {
		return fmt.Errorf("hasPeer=%v with %d active peers", p.hasPeer, act)
	}
	closed := false
	select {
	case <-p.hasPeerCh:
		closed = true
	default:
	}
	if closed != (act > 0) {
		return fmt.Errorf("hasPeerCh closed=%v with %d active peers (waiters block on this channel)", closed, act)
	}
	return nil
}

func c17IDs(ids []peer.ID) []string {
	out := make([]string, len(ids))
	for i, id := range ids {
		out[i] = string(id)
	}
	return out
}

func c17StatusName(st status, ok bool) string {
	switch {
	case !ok:
		return "unknown (no status entry)"
	case st == active:
		return "active"
	case st == cooldown:
		return "on cool-down"
	default:
		return "removed"
	}
}

func c17Status(p *pool, id peer.ID) (status, bool) {
	p.m.RLock()
	defer p.m.RUnlock()
	st, ok := p.statuses[id]
	return st, ok
}

// ---------------------------------------------------------------------------------------------
// progress watchdog

// c17Bound() is the liveness bound: the operations driven here cost micro- to milliseconds, so
// "no operation completed for the bound while operations are outstanding" means no progress
// (4-6 orders of magnitude above the cost of an operation), not slowness.
var c17HangBoundNs atomic.Int64

func init() { c17HangBoundNs.Store(int64(30 * time.Second)) }

func c17Bound() time.Duration { return time.Duration(c17HangBoundNs.Load()) }

// c17Watchdog watches begin/end pairs. If operations are outstanding and none completes for
// the bound it writes the description of the running case and a goroutine dump to
// $VERIF_REPLAY_DIR, prints VERIF-VIOLATION and ends the process (a wedged goroutine cannot be
// recovered, so neither shrinking nor further cases are possible).
type c17Watchdog struct {
	name        string
	outstanding atomic.Int64
	completed   atomic.Int64
	describe    atomic.Value // func() string
	stop        chan struct{}
	done        chan struct{}
}

func c17StartWatchdog(name string) *c17Watchdog {
	w := &c17Watchdog{name: name, stop: make(chan struct{}), done: make(chan struct{})}
	w.describe.Store(func() string { return "" })
	go w.loop()
	return w
}

func (w *c17Watchdog) begin() { w.outstanding.Add(1) }
func (w *c17Watchdog) end() {
	w.completed.Add(1)
	w.outstanding.Add(-1)
}
func (w *c17Watchdog) setDescribe(f func() string) { w.describe.Store(f) }
func (w *c17Watchdog) close() {
	close(w.stop)
	<-w.done
}

func (w *c17Watchdog) loop() {
	defer close(w.done)
	tick := time.NewTicker(200 * time.Millisecond)
	defer tick.Stop()
	last := w.completed.Load()
	lastChange := time.Now()
	for {
		select {
		case <-w.stop:
			return
		case <-tick.C:
		}
		cur := w.completed.Load()
		if cur != last || w.outstanding.Load() == 0 {
			last = cur
			lastChange = time.Now()
			continue
		}
		if time.Since(lastChange) >= c17Bound() {
			c17ReportHang(w.name, fmt.Sprintf("%d operation(s) outstanding, none completed for %s (%d completed before)",
				w.outstanding.Load(), c17Bound(), cur), w.describe.Load().(func() string)())
		}
	}
}

var c17HangOnce sync.Once

// c17ReportHang never returns.
func c17ReportHang(name, what, desc string) {
	c17HangOnce.Do(func() {
		buf := make([]byte, 16<<20)
		buf = buf[:runtime.Stack(buf, true)]
		verdict := "C17 " + name + ": no progress: " + what
		if strings.Contains(string(buf), "(*timedQueue).push") && strings.Contains(string(buf), "(*pool).afterCooldown") {
			verdict += "; goroutine dump shows putOnCooldown -> timedQueue.push (holds the pool lock, wants the queue lock) " +
				"against releaseExpired -> afterCooldown (holds the queue lock, wants the pool lock): lock-order deadlock"
		}
		file := ""
		if dir := os.Getenv("VERIF_REPLAY_DIR"); dir != "" {
			file = filepath.Join(dir, "c17-"+name+"-hang.txt")
			_ = os.WriteFile(file, []byte(verdict+"\n\nseed/shard: "+os.Getenv("VERIF_SHARD_SEED")+"\n\ncase:\n"+desc+
				"\n\ngoroutines:\n"+string(buf)), 0o644)
		}
		fmt.Printf("VERIF-VIOLATION %s (replay/dump: %s)\n", verdict, file)
		fmt.Printf("--- FAIL: C17 %s watchdog\ncase:\n%s\n", name, c17Trunc(desc, 6000))
		vk.Flush()
		os.Exit(1)
	})
	select {}
}

func c17Trunc(s string, n int) string {
	if len(s) <= n {
		return s
	}
	return s[:n] + " …"
}

// c17WaitNoGoroutine waits until no goroutine runs the function fn (a substring of a stack
// frame). It returns the number still alive after the liveness bound (0 = none leaked).
func c17WaitNoGoroutine(fn string) int { return c17WaitGoroutines(fn, 0) }

// c17WaitGoroutines waits until at most max goroutines run fn and returns the last count.
func c17WaitGoroutines(fn string, max int) int {
	deadline := time.Now().Add(c17Bound())
	buf := make([]byte, 1<<20)
	for i := 0; ; i++ {
		n := runtime.Stack(buf, true)
		for n == len(buf) {
			buf = make([]byte, 2*len(buf))
			n = runtime.Stack(buf, true)
		}
		c := strings.Count(string(buf[:n]), fn)
		if c <= max {
			return c
		}
		if time.Now().After(deadline) {
			c17LastLeak = c17Goroutines(string(buf[:n]), fn)
			return c
		}
		if i < 50 {
			runtime.Gosched()
		} else {
			time.Sleep(time.Millisecond)
		}
	}
}

// c17LastLeak holds the stacks of the goroutines c17WaitGoroutines gave up on.
var c17LastLeak string

func c17Goroutines(dump, fn string) string {
	var out []string
	for _, g := range strings.Split(dump, "\n\n") {
		if strings.Contains(g, fn) {
			out = append(out, g)
		}
	}
	return strings.Join(out, "\n\n")
}

// c17Recv receives from ch, giving up after the liveness bound.
func c17Recv(ch <-chan peer.ID) (peer.ID, bool) {
	select {
	case id := <-ch:
		return id, true
	default:
	}
	tm := time.NewTimer(c17Bound())
	defer tm.Stop()
	select {
	case id := <-ch:
		return id, true
	case <-tm.C:
		return "", false
	}
}
