package peers

// C17, sequential tier, pool: rapid state machine over add / remove / tryGet / next (waiters) /
// cancel / putOnCooldown / advance(time) against a reference model
// {absent|removed, active, cooldown(until)} per peer. The timed queue's clock is the step clock
// of c17_common_test.go, so "cool-down expiry" is the action advance(d).

import (
	"context"
	"fmt"
	"strings"
	"sync"
	"testing"
	"time"

	"github.com/libp2p/go-libp2p/core/peer"
	"pgregory.net/rapid"

	vk "github.com/celestiaorg/celestia-node/internal/verifkit"
)

// c17Model is the reference model of one pool.
type c17Model struct {
	ttl time.Duration
	uni []peer.ID
	st  map[peer.ID]status // absent key == never added or removed
	til map[peer.ID]time.Time
}

func newC17Model(ttl time.Duration, uni []peer.ID) *c17Model {
	return &c17Model{ttl: ttl, uni: uni, st: map[peer.ID]status{}, til: map[peer.ID]time.Time{}}
}

func (m *c17Model) present(id peer.ID) bool { _, ok := m.st[id]; return ok }
func (m *c17Model) isActive(id peer.ID) bool {
	st, ok := m.st[id]
	return ok && st == active
}

func (m *c17Model) add(id peer.ID) {
	if !m.present(id) {
		m.st[id] = active
	}
}

func (m *c17Model) remove(id peer.ID) {
	delete(m.st, id)
	delete(m.til, id)
}

// cooldown reports whether the peer went on cool-down (only an active peer does).
func (m *c17Model) cooldown(id peer.ID, now time.Time) bool {
	if !m.isActive(id) {
		return false
	}
	m.st[id] = cooldown
	m.til[id] = now.Add(m.ttl)
	return true
}

// expire re-activates the peers whose latest cool-down has elapsed at now.
func (m *c17Model) expire(now time.Time) (n int) {
	for _, id := range m.uni {
		if st, ok := m.st[id]; ok && st == cooldown && !now.Before(m.til[id]) {
			m.st[id] = active
			delete(m.til, id)
			n++
		}
	}
	return n
}

func (m *c17Model) actives() []peer.ID {
	var out []peer.ID
	for _, id := range m.uni {
		if m.isActive(id) {
			out = append(out, id)
		}
	}
	return out
}

func (m *c17Model) describe(id peer.ID, now time.Time) string {
	st, ok := m.st[id]
	switch {
	case !ok:
		return "not in the pool (never added or removed)"
	case st == cooldown:
		return fmt.Sprintf("on cool-down for another %s", m.til[id].Sub(now))
	default:
		return "active"
	}
}

type c17Waiter struct {
	n         int
	ch        <-chan peer.ID
	cancel    context.CancelFunc
	cancelled bool
	sawEmpty  bool // was started (or has been pending) while no peer was active
}

type c17PoolSM struct {
	clk     *c17Clock
	t0      time.Time
	p       *pool
	m       *c17Model
	wd      *c17Watchdog
	waiters []*c17Waiter
	nWait   int
	logMu   sync.Mutex
	log     []string

	// class tracking
	staleUntil  map[peer.ID]time.Time // peer was removed while on cool-down: its queue item pops at this time
	labels      map[string]bool
	cooldowns   int
	expiries    int
	wokenByOp   int
	cancelledOK int
}

func (s *c17PoolSM) logf(format string, a ...any) {
	s.logMu.Lock()
	defer s.logMu.Unlock()
	s.log = append(s.log, fmt.Sprintf("t+%s ", s.clk.Now().Sub(s.t0))+fmt.Sprintf(format, a...))
}

func (s *c17PoolSM) history() string {
	s.logMu.Lock()
	defer s.logMu.Unlock()
	return strings.Join(s.log, "\n")
}

func (s *c17PoolSM) pick(rt *rapid.T, label string) peer.ID {
	return s.m.uni[rapid.IntRange(0, len(s.m.uni)-1).Draw(rt, label)]
}

func (s *c17PoolSM) pickSome(rt *rapid.T, label string) []peer.ID {
	n := rapid.IntRange(1, 3).Draw(rt, label+".n")
	out := make([]peer.ID, n)
	for i := range out {
		out[i] = s.pick(rt, label)
	}
	return out
}

func (s *c17PoolSM) add(rt *rapid.T) {
	ids := s.pickSome(rt, "add")
	s.logf("add(%v)", c17IDs(ids))
	now := s.clk.Now()
	for _, id := range ids {
		if !s.m.present(id) {
			if til, ok := s.staleUntil[id]; ok && now.Before(til) {
				s.labels["cooldown-remove-add"] = true
			}
		}
		s.m.add(id)
	}
	s.p.add(ids...)
}

func (s *c17PoolSM) remove(rt *rapid.T) {
	ids := s.pickSome(rt, "remove")
	s.logf("remove(%v)", c17IDs(ids))
	for _, id := range ids {
		if st, ok := s.m.st[id]; ok && st == cooldown {
			s.staleUntil[id] = s.m.til[id]
			s.labels["remove-during-cooldown"] = true
		}
		s.m.remove(id)
	}
	before := len(s.p.peersList)
	s.p.remove(ids...)
	if len(s.p.peersList) < before {
		s.labels["cleanup-ran"] = true
	}
}

func (s *c17PoolSM) tryGet(rt *rapid.T) {
	id, ok := s.p.tryGet()
	s.logf("tryGet()")
	s.checkOffer(rt, "tryGet", id, ok)
}

func (s *c17PoolSM) checkOffer(rt *rapid.T, what string, id peer.ID, ok bool) {
	act := s.m.actives()
	now := s.clk.Now()
	if ok && !s.m.isActive(id) {
		rt.Fatalf("C17/pool-offers-only-active: %s offered peer %q which is %s; model active peers %v\nhistory:\n%s",
			what, string(id), s.m.describe(id, now), c17IDs(act), s.history())
	}
	if !ok && len(act) > 0 {
		rt.Fatalf("C17/pool-offers-when-available: %s found no peer although %v are active (never on cool-down or cool-down elapsed, not removed)\nhistory:\n%s",
			what, c17IDs(act), s.history())
	}
}

func (s *c17PoolSM) cooldownOp(rt *rapid.T) {
	id := s.pick(rt, "cd")
	now := s.clk.Now()
	s.logf("putOnCooldown(%s)", string(id))
	if s.m.cooldown(id, now) {
		s.cooldowns++
		if til, ok := s.staleUntil[id]; ok && now.Before(til) {
			// the item of an earlier cool-down of this peer is still queued and pops before this one ends
			s.labels["cooldown-remove-add-cooldown"] = true
		}
	}
	s.p.putOnCooldown(id)
}

func (s *c17PoolSM) advance(rt *rapid.T) {
	ttl := s.m.ttl
	d := rapid.SampledFrom([]time.Duration{1, ttl / 3, ttl / 2, ttl - 1, ttl, ttl, 2 * ttl}).Draw(rt, "advance")
	s.clk.advance(d)
	n := s.m.expire(s.clk.Now())
	s.expiries += n
	s.logf("advanced by %s (%d cool-down(s) elapsed)", d, n)
}

func (s *c17PoolSM) next(rt *rapid.T) {
	if len(s.waiters) >= 4 {
		rt.Skip("enough waiters")
	}
	ctx, cancel := context.WithCancel(context.Background())
	s.nWait++
	w := &c17Waiter{n: s.nWait, cancel: cancel, sawEmpty: len(s.m.actives()) == 0}
	w.ch = s.p.next(ctx)
	s.waiters = append(s.waiters, w)
	s.logf("next() -> waiter #%d (active peers now: %d)", w.n, len(s.m.actives()))
}

func (s *c17PoolSM) cancelWaiter(rt *rapid.T) {
	var pend []*c17Waiter
	for _, w := range s.waiters {
		if !w.cancelled {
			pend = append(pend, w)
		}
	}
	if len(pend) == 0 {
		rt.Skip("no pending waiter")
	}
	w := pend[rapid.IntRange(0, len(pend)-1).Draw(rt, "cancel")]
	s.logf("cancel waiter #%d", w.n)
	w.cancel()
	w.cancelled = true
	s.cancelledOK++
	// Pending waiters exist only while no peer is active (settle collects them otherwise), so the
	// cancelled goroutine has nothing to deliver and must end.
	if n := c17WaitGoroutines("peers.(*pool).next.func1", len(pend)-1); n > len(pend)-1 {
		rt.Fatalf("C17/cancellation-honoured: %d goroutine(s) of pool.next alive %s after cancelling waiter #%d, expected %d\nhistory:\n%s",
			n, c17Bound(), w.n, len(pend)-1, s.history())
	}
	select {
	case id := <-w.ch:
		rt.Fatalf("C17/pool-offers-only-active: cancelled waiter #%d was handed peer %q while no peer is active\nhistory:\n%s", w.n, string(id), s.history())
	default:
	}
}

// settle runs after every action. When the model has an active peer every pending waiter must
// deliver one (peers are not consumed); when it has none nothing may be delivered.
func (s *c17PoolSM) settle(rt *rapid.T) {
	act := s.m.actives()
	keep := s.waiters[:0]
	for _, w := range s.waiters {
		if w.cancelled {
			continue // its goroutine has ended (checked when it was cancelled)
		}
		if len(act) == 0 {
			w.sawEmpty = true
			select {
			case id := <-w.ch:
				rt.Fatalf("C17/pool-offers-only-active: waiter #%d was handed peer %q while no peer is active (%s)\nhistory:\n%s",
					w.n, id, s.m.describe(id, s.clk.Now()), s.history())
			default:
			}
			keep = append(keep, w)
			continue
		}
		id, ok := c17Recv(w.ch)
		if !ok {
			c17ShrinkBound()
			rt.Fatalf("C17/waiters-woken: waiter #%d was not handed a peer within %s although %v are active\nhistory:\n%s",
				w.n, c17Bound(), c17IDs(act), s.history())
		}
		s.logf("waiter #%d was handed a peer", w.n)
		if !s.m.isActive(id) {
			rt.Fatalf("C17/pool-offers-only-active: waiter #%d was handed peer %q which is %s\nhistory:\n%s",
				w.n, string(id), s.m.describe(id, s.clk.Now()), s.history())
		}
		if w.sawEmpty {
			s.wokenByOp++
		}
		w.cancel()
	}
	s.waiters = keep
}

// c17ShrinkBound shortens the liveness bound after a first hang was seen, so that shrinking the
// failing sequence stays affordable (5 s is still > 5 orders of magnitude above a wake-up).
func c17ShrinkBound() { c17HangBoundNs.Store(int64(5 * time.Second)) }

func (s *c17PoolSM) check(rt *rapid.T) {
	s.settle(rt)
	if err := c17PoolConsistency(s.p); err != nil {
		rt.Fatalf("C17/pool-counts: %v\nhistory:\n%s", err, s.history())
	}
	now := s.clk.Now()
	for _, id := range s.m.uni {
		st, ok := c17Status(s.p, id)
		realActive := ok && st == active
		if realActive && !s.m.isActive(id) {
			rule := "C17/pool-offers-only-active"
			if mst, mok := s.m.st[id]; mok && mst == cooldown {
				rule = "C17/cooldown-not-elapsed"
			}
			rt.Fatalf("%s: the pool holds peer %s as active (it will be offered) but by the model it is %s\nhistory:\n%s",
				rule, string(id), s.m.describe(id, now), s.history())
		}
		if !realActive && s.m.isActive(id) {
			rt.Fatalf("C17/pool-offers-when-available: peer %s is active by the model (added, not removed, no cool-down running) but the pool holds it as %s\nhistory:\n%s",
				string(id), c17StatusName(st, ok), s.history())
		}
	}
	act := s.m.actives()
	if got := s.p.len(); got != len(act) {
		rt.Fatalf("C17/pool-counts: len()=%d but %d peers are active by the model %v\nhistory:\n%s", got, len(act), c17IDs(act), s.history())
	}
	for _, id := range s.m.uni {
		if got, want := s.p.has(id), s.m.present(id); got != want {
			rt.Fatalf("C17/pool-counts: has(%s)=%v, model says member=%v (%s)\nhistory:\n%s", string(id), got, want, s.m.describe(id, s.clk.Now()), s.history())
		}
	}
	if got := len(s.p.peers()); got != len(s.m.st) {
		rt.Fatalf("C17/pool-counts: peers() lists %d peers, model has %d members\nhistory:\n%s", got, len(s.m.st), s.history())
	}
}

// op wraps an action with the watchdog (a call that never returns is a hang, not a slow test).
func (s *c17PoolSM) op(f func(*rapid.T)) func(*rapid.T) {
	return func(rt *rapid.T) {
		s.wd.begin()
		defer s.wd.end()
		f(rt)
	}
}

func TestVerifC17_PoolModel(t *testing.T) {
	defer vk.Flush()
	wd := c17StartWatchdog("pool-model")
	defer wd.close()
	rapid.Check(t, func(rt *rapid.T) {
		nPeers := rapid.IntRange(1, 5).Draw(rt, "peers")
		ttl := rapid.SampledFrom([]time.Duration{time.Second, 3 * time.Second, 10 * time.Second}).Draw(rt, "ttl")
		thr := rapid.SampledFrom([]int{defaultCleanupThreshold, defaultCleanupThreshold, 3, 5}).Draw(rt, "cleanupThreshold")
		uni := make([]peer.ID, nPeers)
		for i := range uni {
			uni[i] = peer.ID(fmt.Sprintf("p%d", i))
		}
		clk := newC17Clock()
		p := newPool(ttl)
		p.cooldown.clock = clk
		p.cleanupThreshold = thr
		s := &c17PoolSM{
			clk: clk, t0: clk.Now(), p: p, m: newC17Model(ttl, uni), wd: wd,
			staleUntil: map[peer.ID]time.Time{}, labels: map[string]bool{},
		}
		wd.setDescribe(s.history)
		s.log = append(s.log, fmt.Sprintf("pool: %d peers, cool-down %s, cleanup threshold %d", nPeers, ttl, thr))
		defer func() {
			// no goroutine outlives the case; cancellation must end every waiter
			for _, w := range s.waiters {
				w.cancel()
			}
			if n := c17WaitNoGoroutine("peers.(*pool).next.func1"); n > 0 && !rt.Failed() {
				rt.Fatalf("C17/cancellation-honoured: %d goroutine(s) of pool.next still alive %s after their context was cancelled\nhistory:\n%s",
					n, c17Bound(), s.history())
			}
		}()

		rt.Repeat(map[string]func(*rapid.T){
			"":         s.op(s.check),
			"add":      s.op(s.add),
			"add2":     s.op(s.add),
			"remove":   s.op(s.remove),
			"tryGet":   s.op(s.tryGet),
			"tryGet2":  s.op(s.tryGet),
			"cooldown": s.op(s.cooldownOp),
			"cooldwn2": s.op(s.cooldownOp),
			"advance":  s.op(s.advance),
			"advance2": s.op(s.advance),
			"next":     s.op(s.next),
			"cancel":   s.op(s.cancelWaiter),
		})

		labels := []string{"tier=pool-model", fmt.Sprintf("peers=%d", nPeers), fmt.Sprintf("cleanupThreshold=%d", thr)}
		for _, l := range []string{"remove-during-cooldown", "cooldown-remove-add", "cooldown-remove-add-cooldown", "cleanup-ran"} {
			if s.labels[l] {
				labels = append(labels, l)
			}
		}
		if s.cooldowns > 0 {
			labels = append(labels, "has-cooldown")
		}
		if s.expiries > 0 {
			labels = append(labels, "has-expiry")
		}
		if s.wokenByOp > 0 {
			labels = append(labels, "waiter-woken-by-later-op")
		}
		if s.cancelledOK > 0 {
			labels = append(labels, "waiter-cancelled")
		}
		vk.Count("pool_model_actions", int64(len(s.log)-1))
		vk.Count("pool_model_cooldowns", int64(s.cooldowns))
		vk.Count("pool_model_expiries", int64(s.expiries))
		vk.Count("pool_model_waiters_woken_by_later_op", int64(s.wokenByOp))
		// non-trivial (DESIGN C17): a cool-down followed by remove/add of the same peer
		nontrivial := s.labels["cooldown-remove-add"]
		vk.Record(s.history(), labels, nontrivial, func() any { return s.log })
	})
}
