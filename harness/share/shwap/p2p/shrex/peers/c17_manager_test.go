package peers

// C17, sequential tier, Manager: rapid state machine over shrex-sub notifications (Validate),
// header arrivals (through the real subscribeHeader loop fed by a fake subscription), discovery
// updates, disconnect events (through the real subscribeDisconnectedPeers loop fed by a fake
// event subscription), Peer requests (immediate and blocked-then-woken / cancelled), request
// results (noop / cool-down / blacklist), GC ticks (cleanUp + blacklistPeers as GC() does),
// pool ageing and time. No network: fake host (ID, Network().ClosePeer), real connection gater.

import (
	"context"
	"errors"
	"fmt"
	"os"
	"runtime"
	"strings"
	"sync"
	"testing"
	"time"

	"github.com/ipfs/go-datastore"
	dssync "github.com/ipfs/go-datastore/sync"
	"github.com/libp2p/go-libp2p/core/event"
	"github.com/libp2p/go-libp2p/core/host"
	"github.com/libp2p/go-libp2p/core/network"
	"github.com/libp2p/go-libp2p/core/peer"
	"github.com/libp2p/go-libp2p/p2p/net/conngater"
	"pgregory.net/rapid"

	"github.com/celestiaorg/celestia-node/header"
	vk "github.com/celestiaorg/celestia-node/internal/verifkit"
	"github.com/celestiaorg/celestia-node/share"
	"github.com/celestiaorg/celestia-node/share/shwap/p2p/shrex/shrexsub"
)

// ---------------------------------------------------------------------------------------------
// fakes

type c17Host struct {
	host.Host
	id  peer.ID
	net *c17Net
}

func (h *c17Host) ID() peer.ID              { return h.id }
func (h *c17Host) Network() network.Network { return h.net }

type c17Net struct {
	network.Network
	mu     sync.Mutex
	closed map[peer.ID]int
}

func (n *c17Net) ClosePeer(p peer.ID) error {
	n.mu.Lock()
	n.closed[p]++
	n.mu.Unlock()
	return nil
}

// c17HeaderSub is a libhead.Subscription: every entry into NextHeader is announced on calls, so
// the harness knows that the previous header has been processed completely.
type c17HeaderSub struct {
	feed  chan *header.ExtendedHeader
	calls chan struct{}
}

func (s *c17HeaderSub) NextHeader(ctx context.Context) (*header.ExtendedHeader, error) {
	select {
	case s.calls <- struct{}{}:
	case <-ctx.Done():
		return nil, ctx.Err()
	}
	select {
	case h := <-s.feed:
		return h, nil
	case <-ctx.Done():
		return nil, ctx.Err()
	}
}

func (s *c17HeaderSub) Cancel() {}

type c17EventSub struct{ ch chan any }

func (s *c17EventSub) Out() <-chan any { return s.ch }
func (s *c17EventSub) Close() error    { return nil }
func (s *c17EventSub) Name() string    { return "verif" }

// c17Env is a Manager without a network, with the two subscription loops running.
type c17Env struct {
	mgr    *Manager
	net    *c17Net
	hdr    *c17HeaderSub
	ev     *c17EventSub
	cancel context.CancelFunc
}

func newC17Env(params Parameters, self peer.ID) (*c17Env, error) {
	gater, err := conngater.NewBasicConnectionGater(dssync.MutexWrap(datastore.NewMapDatastore()))
	if err != nil {
		return nil, err
	}
	nw := &c17Net{closed: map[peer.ID]int{}}
	mgr, err := NewManager(params, &c17Host{id: self, net: nw}, gater, "verif")
	if err != nil {
		return nil, err
	}
	ctx, cancel := context.WithCancel(context.Background())
	e := &c17Env{
		mgr: mgr, net: nw, cancel: cancel,
		hdr: &c17HeaderSub{feed: make(chan *header.ExtendedHeader), calls: make(chan struct{})},
		ev:  &c17EventSub{ch: make(chan any)},
	}
	// what Manager.Start does, with fake subscriptions
	go mgr.subscribeHeader(ctx, e.hdr)
	go mgr.subscribeDisconnectedPeers(ctx, e.ev)
	<-e.hdr.calls
	return e, nil
}

// header delivers a header and returns when subscribeHeader has processed it completely.
func (e *c17Env) header(hash share.DataHash, height uint64) {
	e.hdr.feed <- &header.ExtendedHeader{RawHeader: header.RawHeader{Height: int64(height), DataHash: []byte(hash)}}
	<-e.hdr.calls
}

// connectedness delivers a connectedness event and returns when it has been processed (the
// loop is sequential: once it accepts the trailing no-op event the first one is done).
func (e *c17Env) connectedness(id peer.ID, c network.Connectedness) {
	e.ev.ch <- event.EvtPeerConnectednessChanged{Peer: id, Connectedness: c}
	e.ev.ch <- event.EvtPeerConnectednessChanged{Peer: "verif-sentinel", Connectedness: network.Connected}
}

func (e *c17Env) gcTick() {
	// the body of Manager.GC for one tick
	if bl := e.mgr.cleanUp(); len(bl) > 0 {
		e.mgr.blacklistPeers(reasonInvalidHash, bl...)
	}
}

func (e *c17Env) stop() error {
	e.cancel()
	tm := time.NewTimer(c17Bound())
	defer tm.Stop()
	for _, ch := range []chan struct{}{e.mgr.headerSubDone, e.mgr.disconnectedPeersDone} {
		select {
		case <-ch:
		case <-tm.C:
			return errors.New("subscription loops did not end after their context was cancelled")
		}
	}
	return nil
}

// setClock makes every pool of the manager use clk.
func (e *c17Env) setClock(clk *c17Clock) {
	set := func(p *pool) {
		p.cooldown.Lock()
		if p.cooldown.clock != clk {
			p.cooldown.clock = clk
		}
		p.cooldown.Unlock()
	}
	set(e.mgr.nodes)
	e.mgr.lock.Lock()
	defer e.mgr.lock.Unlock()
	for _, p := range e.mgr.pools {
		set(p.pool)
	}
}

// ---------------------------------------------------------------------------------------------
// model

type c17HP struct {
	*c17Model
	validated bool
	height    uint64
	aged      bool
}

type c17Grant struct {
	n       int
	id      peer.ID
	h       int
	done    DoneFunc
	srcHash bool // may have been taken from the pool of hash h
	srcGen  bool // may have been taken from the general pool
}

type c17PeerRes struct {
	id   peer.ID
	done DoneFunc
	err  error
}

type c17Call struct {
	n      int
	h      int
	cancel context.CancelFunc
	res    chan c17PeerRes
}

const c17PoolValidationTimeout = time.Hour

type c17MgrSM struct {
	env *c17Env
	clk *c17Clock
	t0  time.Time
	wd  *c17Watchdog
	bl  bool
	ttl time.Duration

	uni     []peer.ID
	self    peer.ID
	hashes  []share.DataHash
	heights []uint64

	gen           *c17Model
	hp            map[int]*c17HP
	blPeers       map[peer.ID]bool
	blHashes      map[int]bool
	initialHeight uint64
	storeFrom     uint64
	lastHeader    int
	discovered    map[peer.ID]bool // ever reported by discovery (for messages only)

	grants []*c17Grant
	nGrant int
	nCall  int
	focus  int // hash a blocked request is waiting for (-1: none); biases announce

	logMu sync.Mutex
	log   []string

	staleUntil map[peer.ID]time.Time
	labels     map[string]bool
	counts     map[string]int
}

func (s *c17MgrSM) logf(format string, a ...any) {
	s.logMu.Lock()
	defer s.logMu.Unlock()
	s.log = append(s.log, fmt.Sprintf("t+%s ", s.clk.Now().Sub(s.t0))+fmt.Sprintf(format, a...))
}

func (s *c17MgrSM) history() string {
	s.logMu.Lock()
	defer s.logMu.Unlock()
	return strings.Join(s.log, "\n")
}

func (s *c17MgrSM) isBl(x peer.ID) bool { return s.bl && s.blPeers[x] }

func (s *c17MgrSM) genAdd(x peer.ID) {
	if !s.gen.present(x) {
		if til, ok := s.staleUntil[x]; ok && s.clk.Now().Before(til) {
			s.labels["cooldown-remove-add"] = true
		}
	}
	s.gen.add(x)
}

func (s *c17MgrSM) genRemove(x peer.ID) {
	if st, ok := s.gen.st[x]; ok && st == cooldown {
		s.staleUntil[x] = s.gen.til[x]
	}
	s.gen.remove(x)
}

func (s *c17MgrSM) mBlacklist(x peer.ID) {
	if !s.bl {
		return
	}
	s.blPeers[x] = true
	s.genRemove(x)
	s.labels["blacklisted"] = true
}

func (s *c17MgrSM) mGetOrCreate(h int) *c17HP {
	p := s.hp[h]
	if p == nil {
		p = &c17HP{c17Model: newC17Model(s.ttl, s.uni), height: s.heights[h]}
		s.hp[h] = p
	}
	return p
}

// mValidatedPool mirrors Manager.validatedPool: the first confirmation of a hash promotes the
// peers that announced it to the general pool. A blacklisted peer must not come back that way.
func (s *c17MgrSM) mValidatedPool(h int) *c17HP {
	p := s.mGetOrCreate(h)
	if !p.validated {
		p.validated = true
		for _, x := range s.uni {
			if !p.present(x) {
				continue
			}
			if s.isBl(x) {
				s.labels["blacklist-then-validate"] = true
				continue
			}
			s.genAdd(x)
		}
	}
	return p
}

// avail is the set of peers a request for hash h can be served with for certain.
func (s *c17MgrSM) avail(h int) []peer.ID {
	var out []peer.ID
	p := s.hp[h]
	for _, x := range s.uni {
		if s.isBl(x) {
			continue
		}
		if (p != nil && p.isActive(x) && s.gen.present(x)) || s.gen.isActive(x) {
			out = append(out, x)
		}
	}
	return out
}

func (s *c17MgrSM) whyNot(h int, x peer.ID) string {
	now := s.clk.Now()
	var b strings.Builder
	if p := s.hp[h]; p != nil {
		fmt.Fprintf(&b, "in the pool of h%d it is %s; ", h, p.describe(x, now))
	} else {
		fmt.Fprintf(&b, "there is no pool for h%d; ", h)
	}
	b.WriteString(s.whyNotGen(x))
	return b.String()
}

func (s *c17MgrSM) whyNotGen(x peer.ID) string {
	var b strings.Builder
	fmt.Fprintf(&b, "in the general pool it is %s", s.gen.describe(x, s.clk.Now()))
	if !s.gen.present(x) {
		var unconf, conf []string
		for i := range s.hashes {
			if p := s.hp[i]; p != nil && p.present(x) {
				if p.validated {
					conf = append(conf, fmt.Sprintf("h%d", i))
				} else {
					unconf = append(unconf, fmt.Sprintf("h%d", i))
				}
			}
		}
		fmt.Fprintf(&b, " (announced unconfirmed hashes %v, confirmed hashes %v, reported by discovery: %v)", unconf, conf, s.discovered[x])
	}
	return b.String()
}

// ---------------------------------------------------------------------------------------------
// actions

func (s *c17MgrSM) pickPeer(rt *rapid.T, label string) peer.ID {
	return s.uni[rapid.IntRange(0, len(s.uni)-1).Draw(rt, label)]
}

func (s *c17MgrSM) pickHash(rt *rapid.T, label string) int {
	return rapid.IntRange(0, len(s.hashes)-1).Draw(rt, label)
}

func (s *c17MgrSM) announce(rt *rapid.T) {
	x := s.pickPeer(rt, "announce.peer")
	if rapid.IntRange(0, 11).Draw(rt, "announce.self") == 0 {
		x = s.self
	}
	h := s.pickHash(rt, "announce.hash")
	if s.focus >= 0 && rapid.Bool().Draw(rt, "announce.focus") {
		h = s.focus
	}
	s.logf("shrex-sub: %s announces h%d (height %d)", string(x), h, s.heights[h])
	if x != s.self && !s.blHashes[h] && !s.isBl(x) && s.heights[h] >= s.storeFrom {
		p := s.mGetOrCreate(h)
		p.add(x)
		if p.validated {
			s.genAdd(x)
		} else {
			s.labels["announce-unconfirmed"] = true
		}
	}
	s.env.mgr.Validate(context.Background(), x, shrexsub.Notification{DataHash: s.hashes[h], Height: s.heights[h]})
}

func (s *c17MgrSM) headerOp(rt *rapid.T) {
	h := rapid.IntRange(s.lastHeader, len(s.hashes)-1).Draw(rt, "header.hash")
	s.lastHeader = h
	s.logf("header-sub: header of height %d confirms h%d", s.heights[h], h)
	s.mValidatedPool(h)
	if s.initialHeight == 0 {
		s.initialHeight = s.heights[h]
	}
	s.storeFrom = 0
	if s.heights[h] > storedPoolsAmount {
		s.storeFrom = s.heights[h] - storedPoolsAmount
	}
	s.env.header(s.hashes[h], s.heights[h])
}

func (s *c17MgrSM) discover(rt *rapid.T) {
	x := s.pickPeer(rt, "discover.peer")
	added := rapid.IntRange(0, 3).Draw(rt, "discover.added") != 0
	s.logf("discovery: %s added=%v", string(x), added)
	if added {
		if !s.isBl(x) {
			s.genAdd(x)
			s.discovered[x] = true
		}
	} else {
		s.genRemove(x)
	}
	s.env.mgr.UpdateNodePool(x, added)
}

func (s *c17MgrSM) disconnect(rt *rapid.T) {
	x := s.pickPeer(rt, "disconnect.peer")
	s.logf("libp2p: %s disconnected", string(x))
	s.genRemove(x)
	s.env.connectedness(x, network.NotConnected)
}

func (s *c17MgrSM) age(rt *rapid.T) {
	var cand []int
	for i := range s.hashes {
		if p := s.hp[i]; p != nil && !p.validated && !p.aged {
			cand = append(cand, i)
		}
	}
	if len(cand) == 0 {
		rt.Skip("no unconfirmed pool")
	}
	h := cand[rapid.IntRange(0, len(cand)-1).Draw(rt, "age.hash")]
	s.logf("time: pool of h%d is now older than the validation timeout", h)
	s.hp[h].aged = true
	rp := s.env.mgr.getPool(s.hashes[h].String())
	if rp == nil {
		rt.Fatalf("C17/peer-lost: the manager has no pool for h%d although a peer announced it (height %d, storeFrom %d) and no GC tick removed it\nhistory:\n%s",
			h, s.heights[h], s.storeFrom, s.history())
	}
	rp.createdAt = time.Now().Add(-2 * c17PoolValidationTimeout)
}

func (s *c17MgrSM) gc(rt *rapid.T) {
	s.logf("GC tick")
	if s.initialHeight != 0 {
		var toBl []peer.ID
		for h := range s.hashes {
			p := s.hp[h]
			if p == nil {
				continue
			}
			switch {
			case p.validated:
				if p.height < s.storeFrom {
					delete(s.hp, h)
				}
			case p.height < s.initialHeight:
				delete(s.hp, h)
			case p.aged:
				delete(s.hp, h)
				s.blHashes[h] = true
				s.labels["gc-blacklisted-hash"] = true
				for _, x := range s.uni {
					if p.present(x) {
						toBl = append(toBl, x)
					}
				}
			}
		}
		for _, x := range toBl {
			s.mBlacklist(x)
		}
	}
	s.env.gcTick()
}

func (s *c17MgrSM) advance(rt *rapid.T) {
	d := rapid.SampledFrom([]time.Duration{1, s.ttl / 2, s.ttl - 1, s.ttl, s.ttl, 2 * s.ttl}).Draw(rt, "advance")
	s.env.setClock(s.clk)
	s.clk.advance(d)
	now := s.clk.Now()
	n := s.gen.expire(now)
	for h := range s.hashes {
		if p := s.hp[h]; p != nil {
			n += p.expire(now)
		}
	}
	s.counts["expiries"] += n
	s.logf("advanced by %s (%d cool-down(s) elapsed)", d, n)
}

func (s *c17MgrSM) doneOp(rt *rapid.T) {
	if len(s.grants) == 0 {
		rt.Skip("no outstanding grant")
	}
	i := rapid.IntRange(0, len(s.grants)-1).Draw(rt, "done.grant")
	g := s.grants[i]
	s.grants = append(s.grants[:i], s.grants[i+1:]...)
	res := rapid.SampledFrom([]result{ResultNoop, ResultCooldownPeer, ResultCooldownPeer, ResultCooldownPeer, ResultBlacklistPeer, ResultBlacklistPeer}).Draw(rt, "done.result")
	if s.bl && res != ResultBlacklistPeer {
		// bias towards the interesting order: blacklist a peer that sits in a still unconfirmed pool
		for h := range s.hashes {
			if p := s.hp[h]; p != nil && !p.validated && p.present(g.id) {
				if rapid.Bool().Draw(rt, "done.blacklist-unconfirmed-announcer") {
					res = ResultBlacklistPeer
				}
				break
			}
		}
	}
	s.logf("done(grant #%d of Peer(h%d), %s)", g.n, g.h, res)
	rt.Logf("grant #%d is peer %s (may be from: hash pool=%v, general pool=%v)", g.n, string(g.id), g.srcHash, g.srcGen)
	s.env.setClock(s.clk)
	now := s.clk.Now()
	switch res {
	case ResultCooldownPeer:
		s.counts["cooldowns"]++
		hpm := s.hp[g.h]
		switch {
		case g.srcHash && g.srcGen:
			// a woken request may have been served from either pool; the peer is active in both, so
			// exactly one of them must now hold it on cool-down
			g.done(res)
			hpActive := hpm != nil && hpm.isActive(g.id)
			genActive := s.gen.isActive(g.id)
			var rh, rg bool
			if rp := s.env.mgr.getPool(s.hashes[g.h].String()); rp != nil {
				st, ok := c17Status(rp.pool, g.id)
				rh = ok && st == cooldown
			}
			st, ok := c17Status(s.env.mgr.nodes, g.id)
			rg = ok && st == cooldown
			applied := 0
			if hpActive && rh {
				hpm.cooldown(g.id, now)
				applied++
			}
			if genActive && rg {
				s.gen.cooldown(g.id, now)
				applied++
			}
			if hpActive && genActive && applied != 1 {
				rt.Fatalf("C17/mgr-cooldown: peer %s (grant #%d) was active in the pool of h%d and in the general pool; after done(cool-down) "+
					"it is on cool-down in the hash pool: %v, in the general pool: %v — expected exactly one\nhistory:\n%s",
					string(g.id), g.n, g.h, rh, rg, s.history())
			}
			return
		case g.srcGen:
			s.gen.cooldown(g.id, now)
		case g.srcHash:
			if hpm != nil {
				hpm.cooldown(g.id, now)
			}
		}
	case ResultBlacklistPeer:
		s.mBlacklist(g.id)
	}
	g.done(res)
}

// startPeer issues Manager.Peer on its own goroutine.
func (s *c17MgrSM) startPeer(h int) *c17Call {
	ctx, cancel := context.WithCancel(context.Background())
	s.nCall++
	c := &c17Call{n: s.nCall, h: h, cancel: cancel, res: make(chan c17PeerRes, 1)}
	hash, height := s.hashes[h], s.heights[h]
	go func() {
		id, done, err := s.env.mgr.Peer(ctx, hash, height)
		c.res <- c17PeerRes{id, done, err}
	}()
	return c
}

func (s *c17MgrSM) await(rt *rapid.T, c *c17Call, why string) c17PeerRes {
	select {
	case r := <-c.res:
		return r
	default:
	}
	tm := time.NewTimer(c17Bound())
	defer tm.Stop()
	select {
	case r := <-c.res:
		return r
	case <-tm.C:
		c17ShrinkBound()
		rt.Fatalf("C17/request-returns: Peer(h%d) (request #%d) did not return within %s although %s\nhistory:\n%s",
			c.h, c.n, c17Bound(), why, s.history())
		panic("unreachable")
	}
}

// granted checks a peer handed out by Peer and records the grant.
func (s *c17MgrSM) granted(rt *rapid.T, c *c17Call, r c17PeerRes, blocked bool) {
	x, h := r.id, c.h
	rt.Logf("Peer(h%d) (request #%d) returned %s", h, c.n, string(x))
	if s.isBl(x) {
		rt.Fatalf("C17/blacklisted-peer-offered: Peer(h%d) handed out %s, which was blacklisted earlier (blacklisting is enabled); %s\nhistory:\n%s",
			h, string(x), s.whyNot(h, x), s.history())
	}
	p := s.hp[h]
	hpActive := p != nil && p.isActive(x)
	genActive := s.gen.isActive(x)
	if !hpActive && !genActive {
		rule := "C17/ineligible-peer-offered"
		if !s.gen.present(x) && !(p != nil && p.present(x)) {
			rule = "C17/unconfirmed-or-removed-peer-offered"
		} else if (p != nil && p.present(x)) || s.gen.present(x) {
			rule = "C17/cooldown-not-elapsed"
		}
		rt.Fatalf("%s: Peer(h%d) handed out %s: %s\nhistory:\n%s", rule, h, string(x), s.whyNot(h, x), s.history())
	}
	s.nGrant++
	g := &c17Grant{n: s.nGrant, id: x, h: h, done: r.done}
	if blocked {
		g.srcHash, g.srcGen = hpActive && s.gen.present(x), genActive
	} else if hpActive && s.gen.present(x) {
		g.srcHash = true // the hash pool is asked first and x is servable from it
	} else {
		g.srcGen = true
	}
	s.grants = append(s.grants, g)
	if len(s.grants) > 6 {
		s.grants = s.grants[1:]
	}
	s.counts["grants"]++
}

// unreachable lists the peers a request would drop from a hash pool when it meets them
// (removeIfUnreachable: blacklisted, or not in the general pool).
func (s *c17MgrSM) unreachable(into map[peer.ID]bool) map[peer.ID]bool {
	if into == nil {
		into = map[peer.ID]bool{}
	}
	for _, x := range s.uni {
		if s.isBl(x) || !s.gen.present(x) {
			into[x] = true
		}
	}
	return into
}

// resync: a request for h drops peers from h's pool that are blacklisted or not in the general
// pool; whether a given one was met depends on the round-robin position, so for the peers in
// unreach (unreachable at some point while the request ran) the model follows the pool.
func (s *c17MgrSM) resync(rt *rapid.T, h int, unreach map[peer.ID]bool) {
	p := s.hp[h]
	rp := s.env.mgr.getPool(s.hashes[h].String())
	if p == nil || rp == nil {
		return
	}
	for _, x := range s.uni {
		if !p.present(x) {
			continue
		}
		if st, ok := c17Status(rp.pool, x); !ok || st == removed {
			if !unreach[x] {
				rt.Fatalf("C17/peer-lost: a request for h%d dropped %s from the pool of h%d although it is neither blacklisted nor missing from the general pool (%s)\nhistory:\n%s",
					h, string(x), h, s.gen.describe(x, s.clk.Now()), s.history())
			}
			p.remove(x)
			s.counts["unreachable_dropped_from_hash_pool"]++
		}
	}
}

func (s *c17MgrSM) peerOp(rt *rapid.T) {
	h := s.pickHash(rt, "peer.hash")
	unreach := s.unreachable(nil)
	s.mValidatedPool(h)
	if av := s.avail(h); len(av) > 0 {
		s.logf("Peer(h%d): %d peer(s) can serve it", h, len(av))
		c := s.startPeer(h)
		defer c.cancel()
		r := s.await(rt, c, fmt.Sprintf("%v can serve it", c17IDs(av)))
		if r.err != nil {
			rt.Fatalf("C17/request-returns: Peer(h%d) returned error %v although %v can serve it\nhistory:\n%s", h, r.err, c17IDs(av), s.history())
		}
		s.granted(rt, c, r, false)
		s.resync(rt, h, unreach)
		s.counts["peer_immediate"]++
		return
	}
	s.peerBlocked(rt, h, unreach)
}

// peerBlocked: requests that nobody can serve right now are started, then one further action
// happens; requests that can be served afterwards must return a peer (waiters are woken), the
// rest must return when their context is cancelled.
func (s *c17MgrSM) peerBlocked(rt *rapid.T, h int, unreach map[peer.ID]bool) {
	hs := []int{h}
	for i, n := 0, rapid.IntRange(0, 2).Draw(rt, "blocked.more"); i < n; i++ {
		hs = append(hs, s.pickHash(rt, "blocked.hash"))
	}
	s.logf("Peer(%s): nobody can serve h%d now; request(s) started", c17HashList(hs), h)
	var calls []*c17Call
	for i, hh := range hs {
		s.mValidatedPool(hh)
		if vk.KnownOpen(c17SigValidationRace) {
			// known finding: two requests racing for the first confirmation of the same hash can drop
			// its announcers from both pools. Excluded by confirming such a hash before they start.
			for _, prev := range hs[:i] {
				if prev == hh {
					if rp := s.env.mgr.getPool(s.hashes[hh].String()); rp == nil || !rp.isValidatedDataHash.Load() {
						vk.Excluded(c17SigValidationRace)
						s.env.mgr.validatedPool(s.hashes[hh].String(), s.heights[hh])
					}
					break
				}
			}
		}
	}
	// The requests run in goroutines of their own. Their first effect (confirming the hash, which
	// the model has already applied above) must not race with the next generated event - a GC tick
	// that sees the pool still unconfirmed would blacklist the hash, a legitimate outcome the
	// sequential model does not follow. The confirmation is therefore done synchronously first;
	// racing first confirmations belong to the concurrent tier (confirmation-race run).
	for _, hh := range hs {
		s.env.mgr.validatedPool(s.hashes[hh].String(), s.heights[hh])
	}
	for _, hh := range hs {
		calls = append(calls, s.startPeer(hh))
	}
	all := append([]*c17Call(nil), calls...)
	defer func() {
		for _, c := range all {
			c.cancel()
		}
	}()
	settle := func(stage string) {
		var keep []*c17Call
		for _, c := range calls {
			av := s.avail(c.h)
			if len(av) == 0 {
				keep = append(keep, c)
				continue
			}
			r := s.await(rt, c, fmt.Sprintf("%v can serve it %s (a waiting request must be woken)", c17IDs(av), stage))
			if r.err != nil {
				rt.Fatalf("C17/request-returns: waiting Peer(h%d) returned error %v although %v can serve it %s\nhistory:\n%s",
					c.h, r.err, c17IDs(av), stage, s.history())
			}
			s.granted(rt, c, r, true)
			s.counts["peer_woken"]++
			if stage != "at once" {
				s.labels["request-woken-by-later-event"] = true
			}
		}
		calls = keep
	}
	settle("at once")
	if len(calls) > 0 {
		if rapid.Bool().Draw(rt, "blocked.park") {
			for i := 0; i < 20; i++ {
				runtime.Gosched()
			}
			time.Sleep(200 * time.Microsecond)
		}
		s.focus = calls[0].h
		kind := rapid.SampledFrom([]string{"announce", "announce", "announce", "discover", "discover", "discover",
			"advance", "advance", "advance", "header", "done", "gc", "disconnect", "none"}).Draw(rt, "blocked.then")
		switch kind {
		case "announce":
			s.announce(rt)
		case "discover":
			s.discover(rt)
		case "advance":
			s.advance(rt)
		case "header":
			s.headerOp(rt)
		case "done":
			if len(s.grants) > 0 {
				s.doneOp(rt)
			}
		case "gc":
			s.gc(rt)
		case "disconnect":
			s.disconnect(rt)
		}
		s.focus = -1
		settle("after that event")
	}
	for _, c := range calls {
		s.logf("cancel request #%d (Peer(h%d))", c.n, c.h)
		c.cancel()
		r := s.await(rt, c, "its context was cancelled")
		if r.err == nil {
			// nobody can serve it by the model: whatever came back is judged like any other grant
			s.granted(rt, c, r, true)
			continue
		}
		if !errors.Is(r.err, context.Canceled) {
			rt.Fatalf("C17/cancellation-honoured: cancelled Peer(h%d) returned %v, want context.Canceled\nhistory:\n%s", c.h, r.err, s.history())
		}
		s.counts["peer_cancelled"]++
		s.labels["request-cancelled"] = true
	}
	s.unreachable(unreach)
	for _, hh := range hs {
		s.resync(rt, hh, unreach)
	}
}

func c17HashList(hs []int) string {
	out := make([]string, len(hs))
	for i, h := range hs {
		out[i] = fmt.Sprintf("h%d", h)
	}
	return strings.Join(out, ",")
}

// check compares the manager's pools with the model after every action.
func (s *c17MgrSM) check(rt *rapid.T) {
	s.env.setClock(s.clk)
	now := s.clk.Now()
	if err := c17PoolConsistency(s.env.mgr.nodes); err != nil {
		rt.Fatalf("C17/pool-counts: general pool: %v\nhistory:\n%s", err, s.history())
	}
	for _, x := range s.uni {
		if s.isBl(x) {
			continue // judged when it is handed out
		}
		st, ok := c17Status(s.env.mgr.nodes, x)
		rPresent := ok && st != removed
		switch {
		case rPresent && !s.gen.present(x):
			rule := "C17/removed-peer-in-general-pool"
			if !s.discovered[x] {
				confirmed := false
				for h := range s.hashes {
					if p := s.hp[h]; p != nil && p.validated && p.present(x) {
						confirmed = true
					}
				}
				if !confirmed {
					rule = "C17/unconfirmed-peer-promoted"
				}
			}
			rt.Fatalf("%s: the manager holds %s in the general pool (%s) but by the model %s\nhistory:\n%s",
				rule, string(x), c17StatusName(st, ok), s.whyNotGen(x), s.history())
		case !rPresent && s.gen.present(x):
			rt.Fatalf("C17/peer-lost: %s is not in the general pool, by the model it is %s there\nhistory:\n%s",
				string(x), s.gen.describe(x, now), s.history())
		case rPresent && st == active && !s.gen.isActive(x):
			rt.Fatalf("C17/cooldown-not-elapsed: the general pool holds %s as active (it will be offered) but it is %s\nhistory:\n%s",
				string(x), s.gen.describe(x, now), s.history())
		case rPresent && st != active && s.gen.isActive(x):
			rt.Fatalf("C17/peer-lost: the general pool holds %s as %s although its cool-down has elapsed / none is running\nhistory:\n%s",
				string(x), c17StatusName(st, ok), s.history())
		}
	}
	for h := range s.hashes {
		p := s.hp[h]
		rp := s.env.mgr.getPool(s.hashes[h].String())
		if p == nil || rp == nil {
			continue
		}
		if err := c17PoolConsistency(rp.pool); err != nil {
			rt.Fatalf("C17/pool-counts: pool of h%d: %v\nhistory:\n%s", h, err, s.history())
		}
		for _, x := range s.uni {
			st, ok := c17Status(rp.pool, x)
			rActive := ok && st == active
			if rActive && !p.isActive(x) {
				rule := "C17/ineligible-peer-in-hash-pool"
				if mst, mok := p.st[x]; mok && mst == cooldown {
					rule = "C17/cooldown-not-elapsed"
				}
				rt.Fatalf("%s: the pool of h%d holds %s as active (it will be offered) but by the model it is %s\nhistory:\n%s",
					rule, h, string(x), p.describe(x, now), s.history())
			}
			if !rActive && p.isActive(x) {
				rt.Fatalf("C17/peer-lost: the pool of h%d holds %s as %s, by the model it announced h%d and is active\nhistory:\n%s",
					h, string(x), c17StatusName(st, ok), h, s.history())
			}
		}
	}
}

func (s *c17MgrSM) op(f func(*rapid.T)) func(*rapid.T) {
	return func(rt *rapid.T) {
		s.wd.begin()
		defer s.wd.end()
		f(rt)
	}
}

// c17SigValidationRace: Manager.validatedPool marks a pool validated and only then promotes its
// peers to the general pool; a second request for the same hash that loses the race for the
// first confirmation can meanwhile take an announcer from the hash pool, find it missing from
// the general pool and drop it, after which the promotion no longer sees it: the announcer is in
// neither pool and requests that it could serve wait until they are cancelled.
const c17SigValidationRace = "C17:concurrent-first-confirmation-drops-announcer"

// c17ValidationRaceWitness tries (schedule-dependent, bounded) to reproduce c17SigValidationRace:
// a peer announces a hash, then two requests for that hash start together.
func c17ValidationRaceWitness(iterations int) (string, bool) {
	params := *DefaultParameters()
	hash := make([]byte, share.DataHashSize)
	copy(hash, "verif-witness")
	for it := 0; it < iterations; it++ {
		env, err := newC17Env(params, "self")
		if err != nil {
			return "", false
		}
		env.mgr.Validate(context.Background(), "p1", shrexsub.Notification{DataHash: hash, Height: 5})
		ctx, cancel := context.WithCancel(context.Background())
		res := make(chan error, 2)
		for i := 0; i < 2; i++ {
			go func() {
				_, _, err := env.mgr.Peer(ctx, hash, 5)
				res <- err
			}()
		}
		lost := false
		for got, polls := 0, 0; got < 2 && !lost && polls < 100000; polls++ {
			select {
			case <-res:
				got++
			default:
				st, ok := c17Status(env.mgr.getOrCreatePool(share.DataHash(hash).String(), 5).pool, "p1")
				if ok && st == removed && !env.mgr.nodes.has("p1") && env.mgr.getPool(share.DataHash(hash).String()).isValidatedDataHash.Load() {
					// candidate: unless the promotion is still under way, p1 is gone for good and the
					// requests stay blocked
					lost = true
					for w := 0; w < 300 && lost; w++ {
						time.Sleep(time.Millisecond)
						if env.mgr.nodes.has("p1") || len(res) > 0 {
							lost = false
						}
					}
				}
				runtime.Gosched()
			}
		}
		cancel()
		_ = env.stop()
		c17WaitNoGoroutine("peers.(*Manager).Peer")
		if lost {
			return fmt.Sprintf("iteration %d: p1 announced the hash, two concurrent Peer requests for it started; p1 ended up removed from the hash pool and absent from the general pool, both requests wait", it), true
		}
	}
	return "", false
}

func TestVerifC17_ManagerModel(t *testing.T) {
	defer vk.Flush()
	wd := c17StartWatchdog("manager-model")
	defer wd.close()
	if vk.KnownOpen(c17SigValidationRace) && os.Getenv("VERIF_SHARD") == "0" {
		if what, ok := c17ValidationRaceWitness(4000); ok {
			vk.FindingPresent(c17SigValidationRace, what)
		}
	}
	rapid.Check(t, func(rt *rapid.T) {
		nPeers := rapid.IntRange(1, 4).Draw(rt, "peers")
		nHashes := rapid.IntRange(2, 5).Draw(rt, "hashes")
		bl := rapid.IntRange(0, 3).Draw(rt, "blacklisting") != 0
		ttl := rapid.SampledFrom([]time.Duration{time.Second, 3 * time.Second}).Draw(rt, "cooldown")
		s := &c17MgrSM{
			clk: newC17Clock(), wd: wd, bl: bl, ttl: ttl, self: "self", focus: -1,
			hp: map[int]*c17HP{}, blPeers: map[peer.ID]bool{}, blHashes: map[int]bool{}, discovered: map[peer.ID]bool{},
			staleUntil: map[peer.ID]time.Time{}, labels: map[string]bool{}, counts: map[string]int{},
		}
		s.t0 = s.clk.Now()
		for i := 0; i < nPeers; i++ {
			s.uni = append(s.uni, peer.ID(fmt.Sprintf("p%d", i)))
		}
		height := uint64(rapid.IntRange(1, 12).Draw(rt, "height0"))
		for i := 0; i < nHashes; i++ {
			hash := make([]byte, share.DataHashSize)
			copy(hash, fmt.Sprintf("verif-hash-%d", i))
			s.hashes = append(s.hashes, hash)
			s.heights = append(s.heights, height)
			height += uint64(rapid.SampledFrom([]int{1, 1, 2, 5, 12}).Draw(rt, "heightgap"))
		}
		s.gen = newC17Model(ttl, s.uni)
		params := *DefaultParameters()
		params.PeerCooldown = ttl
		params.PoolValidationTimeout = c17PoolValidationTimeout
		params.EnableBlackListing = bl
		env, err := newC17Env(params, s.self)
		if err != nil {
			t.Logf("VERIF-INFRA: cannot build manager: %v", err)
			rt.Fatalf("VERIF-INFRA: cannot build manager: %v", err)
		}
		s.env = env
		env.setClock(s.clk)
		wd.setDescribe(s.history)
		s.log = append(s.log, fmt.Sprintf("manager: peers %v, hashes h0..h%d at heights %v, cool-down %s, blacklisting enabled=%v",
			c17IDs(s.uni), nHashes-1, s.heights, ttl, bl))
		defer func() {
			if err := env.stop(); err != nil && !rt.Failed() {
				rt.Fatalf("C17/cancellation-honoured: %v", err)
			}
			for _, fn := range []string{"peers.(*pool).next.func1", "peers.(*Manager).Peer"} {
				if n := c17WaitNoGoroutine(fn); n > 0 && !rt.Failed() {
					rt.Logf("leaked goroutines:\n%s", c17LastLeak)
					rt.Fatalf("C17/cancellation-honoured: %d goroutine(s) in %s still alive %s after every request context was cancelled\nhistory:\n%s",
						n, fn, c17Bound(), s.history())
				}
			}
		}()

		rt.Repeat(map[string]func(*rapid.T){
			"":           s.op(s.check),
			"announce":   s.op(s.announce),
			"announce2":  s.op(s.announce),
			"announce3":  s.op(s.announce),
			"header":     s.op(s.headerOp),
			"discover":   s.op(s.discover),
			"discover2":  s.op(s.discover),
			"disconnect": s.op(s.disconnect),
			"peer":       s.op(s.peerOp),
			"peer2":      s.op(s.peerOp),
			"peer3":      s.op(s.peerOp),
			"peer4":      s.op(s.peerOp),
			"done":       s.op(s.doneOp),
			"done2":      s.op(s.doneOp),
			"done3":      s.op(s.doneOp),
			"gc":         s.op(s.gc),
			"age":        s.op(s.age),
			"advance":    s.op(s.advance),
			"advance2":   s.op(s.advance),
		})

		labels := []string{"tier=manager-model", fmt.Sprintf("blacklisting=%v", bl), fmt.Sprintf("peers=%d", nPeers)}
		for _, l := range []string{"blacklist-then-validate", "cooldown-remove-add", "blacklisted", "gc-blacklisted-hash",
			"announce-unconfirmed", "request-woken-by-later-event", "request-cancelled"} {
			if s.labels[l] {
				labels = append(labels, "mgr:"+l)
			}
		}
		for _, k := range []string{"grants", "cooldowns", "expiries", "peer_immediate", "peer_woken", "peer_cancelled",
			"unreachable_dropped_from_hash_pool"} {
			vk.Count("manager_model_"+k, int64(s.counts[k]))
		}
		vk.Count("manager_model_actions", int64(len(s.log)-1))
		// non-trivial (DESIGN C17): a blacklist followed by hash validation, or a cool-down followed
		// by remove/add of the same peer
		nontrivial := s.labels["blacklist-then-validate"] || s.labels["cooldown-remove-add"]
		vk.Record(s.history(), labels, nontrivial, func() any { return s.log })
	})
}
