package peers

// C17: fixed witnesses of the defects this check found on the pinned tree. They stay in the quick
// tier as regression cases (their shapes also remain in the generators' domain).

import (
	"context"
	"testing"
	"time"

	"github.com/libp2p/go-libp2p/core/peer"

	vk "github.com/celestiaorg/celestia-node/internal/verifkit"
	"github.com/celestiaorg/celestia-node/share"
	"github.com/celestiaorg/celestia-node/share/shwap/p2p/shrex/shrexsub"
)

func TestVerifC17_Witnesses(t *testing.T) {
	defer vk.Flush()

	t.Run("cooldown-reactivated-by-stale-queue-item", func(t *testing.T) {
		// cool-down at t+0, remove, add, cool-down again at t+0.5s (runs until t+1.5s)
		clk := newC17Clock()
		p := newPool(time.Second)
		p.cooldown.clock = clk
		p.add("a")
		p.putOnCooldown("a")
		p.remove("a")
		p.add("a")
		clk.advance(500 * time.Millisecond)
		p.putOnCooldown("a")
		clk.advance(500 * time.Millisecond)
		if id, ok := p.tryGet(); ok {
			t.Fatalf("C17/cooldown-not-elapsed (witness): add a; putOnCooldown a; remove a; add a; +0.5s; putOnCooldown a; +0.5s: "+
				"tryGet offers %q at t+1s although its latest cool-down (1s, started at t+0.5s) runs until t+1.5s", string(id))
		}
		clk.advance(500 * time.Millisecond)
		if _, ok := p.tryGet(); !ok {
			t.Fatalf("C17/pool-offers-when-available (witness): peer a is not offered at t+1.5s although its cool-down has elapsed")
		}
		vk.Record("witness:cooldown-reactivated-by-stale-queue-item", []string{"tier=witness"}, true, nil)
	})

	t.Run("blacklisted-peer-promoted-on-hash-validation", func(t *testing.T) {
		params := *DefaultParameters()
		params.EnableBlackListing = true
		env, err := newC17Env(params, "self")
		if err != nil {
			t.Fatalf("VERIF-INFRA: %v", err)
		}
		defer env.stop() //nolint:errcheck
		hash := func(s string) share.DataHash {
			h := make([]byte, share.DataHashSize)
			copy(h, s)
			return h
		}
		h1, h4 := hash("witness-h1"), hash("witness-h4")
		ctx := context.Background()
		// p0 announces h4 (nobody confirms it yet) and is known from discovery
		env.mgr.Validate(ctx, "p0", shrexsub.Notification{DataHash: h4, Height: 5})
		env.mgr.UpdateNodePool("p0", true)
		id, done, err := env.mgr.Peer(ctx, h1, 2)
		if err != nil || id != peer.ID("p0") {
			t.Fatalf("C17/request-returns (witness): Peer(h1) = (%q, %v), want the discovered peer p0", string(id), err)
		}
		done(ResultBlacklistPeer)
		// the header of h4 arrives: its pool (holding the blacklisted p0) is confirmed
		env.header(h4, 5)
		cctx, cancel := context.WithCancel(ctx)
		cancel()
		if id, _, err := env.mgr.Peer(cctx, h1, 2); err == nil {
			t.Fatalf("C17/blacklisted-peer-offered (witness): p0 announces h4; discovery adds p0; Peer(h1)=p0; done(blacklist); header confirms h4; "+
				"Peer(h1) hands out %q again although it is blacklisted and blacklisting is enabled", string(id))
		}
		vk.Record("witness:blacklisted-peer-promoted-on-hash-validation", []string{"tier=witness"}, true, nil)
	})
}
