package shrex_getter //nolint:stylecheck

// C06 — getters hand back only verified data, even when peers misbehave (shrex getter).
// Harness file of /verif (injected by overlay; not part of celestia-node).
//
// The real Getter and the real shrex.Client run over a fake libp2p host (c06kit.ShrexNet) whose
// streams are answered from a generated peer script; the peers come from real peers.Managers fed
// through UpdateNodePool with a one hour cool-down, so that the round robin hands out every peer
// at most once and in list order. The caller's context is a c06kit.ScriptCtx: it ends when the
// script says so ("the deadline runs out while peer k is asked" / "after the last peer"), never
// because of the wall clock. The only real-time element is the per-attempt timeout
// (minRequestTimeout lowered to 30 ms, only in cases whose script contains a stalling peer) that
// "stall" peers make the getter run into; an honest answer that is cut short by it under load is
// observed as such and no claim is made for it, and such a case never qualifies for the NOT_FOUND
// claim.

import (
	"context"
	"errors"
	"fmt"
	"os"
	"path/filepath"
	"strings"
	"testing"
	"time"

	"github.com/ipfs/go-datastore"
	ds_sync "github.com/ipfs/go-datastore/sync"
	logging "github.com/ipfs/go-log/v2"
	"github.com/libp2p/go-libp2p/p2p/net/conngater"
	"pgregory.net/rapid"

	kit "github.com/celestiaorg/celestia-node/internal/verifkit/c06kit"

	vk "github.com/celestiaorg/celestia-node/internal/verifkit"
	"github.com/celestiaorg/celestia-node/share/availability"
	"github.com/celestiaorg/celestia-node/share/shwap"
	"github.com/celestiaorg/celestia-node/share/shwap/p2p/shrex"
	"github.com/celestiaorg/celestia-node/share/shwap/p2p/shrex/peers"
)

const c06AttemptTimeout = 30 * time.Millisecond

// c06Getter wires a real Getter over the fake host with npeers peers known to both managers.
func c06Getter(net *kit.ShrexNet, npeers int, blacklisting bool, attemptTimeout time.Duration) (*Getter, func(), error) {
	params := shrex.DefaultClientParameters()
	params.WithNetworkID("c06")
	client, err := shrex.NewClient(params, net)
	if err != nil {
		return nil, nil, err
	}
	mk := func(tag string) (*peers.Manager, error) {
		gater, err := conngater.NewBasicConnectionGater(ds_sync.MutexWrap(datastore.NewMapDatastore()))
		if err != nil {
			return nil, err
		}
		p := peers.DefaultParameters()
		p.PeerCooldown = time.Hour
		p.EnableBlackListing = blacklisting
		return peers.NewManager(*p, net, gater, tag)
	}
	full, err := mk("full")
	if err != nil {
		return nil, nil, err
	}
	arch, err := mk("archival")
	if err != nil {
		return nil, nil, err
	}
	g := NewGetter(client, full, arch, availability.RequestWindow)
	if attemptTimeout > 0 {
		g.minRequestTimeout = attemptTimeout
	}
	if err := g.Start(context.Background()); err != nil {
		return nil, nil, err
	}
	for _, p := range kit.PeerIDs(npeers) {
		full.UpdateNodePool(p, true)
		arch.UpdateNodePool(p, true)
	}
	stop := func() { _ = g.Stop(context.Background()) }
	return g, stop, nil
}

func TestVerifC06_Shrex(t *testing.T) {
	defer vk.Flush()
	_ = logging.SetLogLevel("*", "fatal")
	rapid.Check(t, c06ShrexCase)
}

func c06ShrexCase(t *rapid.T) {
	sq := vk.GenSquare(t, "sq", vk.SquareOpts{ODS: kit.ODSChoices()})
	sib := vk.GenSibling(t, "sib", sq)
	height := rapid.Uint64Range(1, 1<<40).Draw(t, "height")
	req := kit.GenReq(t, sq, "")
	farDeadline := rapid.Bool().Draw(t, "far-deadline")
	flavour := context.DeadlineExceeded
	if rapid.Bool().Draw(t, "cancelled") {
		flavour = context.Canceled
	}
	archival := rapid.IntRange(0, 3).Draw(t, "archival") == 0
	blacklisting := rapid.Bool().Draw(t, "blacklisting")
	// with the barrier the context of a multi-coordinate call ends only when every coordinate's
	// request has been answered acceptably or waits at the end of its script (deterministic);
	// without it the end races with the other coordinates' attempts (schedule-dependent)
	barrier := rapid.IntRange(0, 7).Draw(t, "racy-end") != 0

	// attempts can only time out quickly when the caller's context carries no deadline: then every
	// attempt gets minRequestTimeout; with a deadline one hour ahead an attempt gets 20 minutes
	items, scripts, err := kit.PrepareShrex(t, req, sq, sib, height, kit.ScriptOpts{AllowStall: !farDeadline, AllowDial: true})
	if err != nil {
		t.Fatalf("VERIF-INFRA C06 harness: preparing the peer script: %v", err)
	}
	ctl := kit.NewScriptCtx(farDeadline, flavour)
	defer ctl.End()
	net := kit.NewShrexNet(ctl, sq, height, items)
	net.Barrier = barrier
	// the per-attempt timeout is lowered only when some peer stalls: otherwise no timer of the
	// getter can fire during a case and nothing depends on how fast the machine is
	attemptTimeout := time.Duration(0)
	for _, sc := range scripts {
		for _, k := range sc {
			if strings.HasPrefix(k, "stall-") {
				attemptTimeout = c06AttemptTimeout
			}
		}
	}
	g, stop, err := c06Getter(net, kit.TotalSteps(items)+4, blacklisting, attemptTimeout)
	if err != nil {
		t.Fatalf("VERIF-INFRA C06 harness: building the getter: %v", err)
	}
	defer stop()

	hdr := kit.MakeHeader(sq, height, archival)
	res, hung := kit.Run(ctl, req, g, hdr, ctl.End)
	aliveAtReturn := !ctl.Ended()
	ctl.End()
	hist := net.History()
	what := fmt.Sprintf("request %s at height %d of square {%s}; peer scripts %s; served %v; ctx(far-deadline=%v, ends-with=%v, barrier=%v) archival=%v blacklisting=%v",
		req.Desc(), height, sq.Desc(), kit.ScriptsDesc(scripts), hist, farDeadline, flavour, barrier, archival, blacklisting)
	if hung {
		t.Fatalf("VERIF-INFRA C06 shrex: the call did not return within %v although every peer answers from memory (%s)", kit.HangBound, what)
	}
	st := net.Stats()

	// (1) whatever is returned — with or without an error — is the committed data; nil error = complete
	if err := req.CheckSafety(sq, res); err != nil {
		t.Fatalf("C06 shrex getter returned unverified or incomplete data: %v\n  %s", err, what)
	}
	// (2) a bad peer must not poison a later honest one: when every wire request was answered
	// honestly and the answer was consumed entirely while the context was alive, the call succeeds
	if st.AllServed && res.Err != nil {
		t.Fatalf("C06 shrex getter failed (%v) although an honest peer answered every request in full before the context ended: expected success\n  %s",
			res.Err, what)
	}
	// (2b) the getter keeps asking peers until it succeeds or its context ends (the documented
	// contract of its retry loop): giving up with an error while the context is alive would let
	// refusals of some peers ("not found", resets, garbage) fail a request that a later honest
	// peer of the pool could still serve
	if aliveAtReturn && res.Err != nil && !hung {
		t.Fatalf("C06 shrex getter gave up with an error (%v) while its context was still alive and peers were left to ask: expected it to keep trying until success or the end of the context\n  %s",
			res.Err, what)
	}
	// (3) NOT_FOUND from every peer that was asked is reported as not found
	if st.OnlyNotFound {
		if res.Err == nil {
			t.Fatalf("C06 shrex getter reported success although every peer asked said NOT_FOUND\n  %s", what)
		}
		if !errors.Is(res.Err, shwap.ErrNotFound) {
			t.Fatalf("C06 shrex getter: every peer asked said NOT_FOUND, expected an error that Is shwap.ErrNotFound, got: %v\n  %s", res.Err, what)
		}
	}

	labels := append(req.Labels(sq), st.Labels...)
	labels = append(labels, "result="+req.ResultShape(res), fmt.Sprintf("ctx-far-deadline=%v", farDeadline),
		fmt.Sprintf("blacklisting=%v", blacklisting), fmt.Sprintf("archival=%v", archival))
	if len(items) > 1 {
		labels = append(labels, fmt.Sprintf("multi-request-barrier=%v", barrier))
	}
	if st.AllServed {
		labels = append(labels, "oracle=honest-must-succeed")
	}
	vk.Record(fmt.Sprintf("%s|%d|%s|%s|%v%v%v%v%v", sq.Desc(), height, req.Desc(), kit.ScriptsDesc(scripts), farDeadline, flavour, archival, blacklisting, barrier),
		labels, st.Misbehaved, func() any {
			return map[string]any{"square": sq.Desc(), "request": req.Desc(), "scripts": kit.ScriptsDesc(scripts),
				"served": hist, "error": fmt.Sprint(res.Err)}
		})
}

// TestVerifC06_ShrexWitnesses replays the fixed witnesses of the two defects this check found in
// the shrex getter (kept as permanent regression cases):
//   - a sample for another coordinate, followed by the end of the context, must not be handed
//     back in the slot of the requested coordinate;
//   - a range answer with more rows than requested (refused) must not make the following honest
//     one-row answer fail (stale LastIncompleteRowProof in the reused response buffer).
func TestVerifC06_ShrexWitnesses(t *testing.T) {
	defer vk.Flush()
	_ = logging.SetLogLevel("*", "fatal")
	fail := func(name, msg string) {
		if dir := os.Getenv("VERIF_REPLAY_DIR"); dir != "" {
			_ = os.WriteFile(filepath.Join(dir, "witness-"+name+".txt"), []byte(msg+"\n"), 0o644)
		}
		t.Error(msg)
	}
	const height = 7
	sq := vk.BuildSquare(4, 0, []vk.Run{{NS: vk.BlobNS(0), Start: 0, Len: 16}}, 7)
	run := func(name string, req kit.Req, steps func(id kit.WireID) []*kit.Step) (kit.Result, kit.ShrexStats, []string) {
		ids, err := kit.ShrexIDs(req, sq, height)
		if err != nil || len(ids) != 1 {
			t.Fatalf("VERIF-INFRA C06 witness %s: ids: %v", name, err)
		}
		it, err := kit.NewItem(ids[0], name, steps(ids[0])...)
		if err != nil {
			t.Fatalf("VERIF-INFRA C06 witness %s: %v", name, err)
		}
		ctl := kit.NewScriptCtx(false, context.DeadlineExceeded)
		defer ctl.End()
		net := kit.NewShrexNet(ctl, sq, height, []*kit.Item{it})
		g, stop, err := c06Getter(net, 8, false, 0)
		if err != nil {
			t.Fatalf("VERIF-INFRA C06 witness %s: %v", name, err)
		}
		defer stop()
		res, hung := kit.Run(ctl, req, g, kit.MakeHeader(sq, height, false), ctl.End)
		if hung {
			t.Fatalf("VERIF-INFRA C06 witness %s: the call did not return", name)
		}
		return res, net.Stats(), net.History()
	}
	mustResp := func(id kit.WireID) []byte {
		b, err := kit.HonestResponse(sq, id)
		if err != nil {
			t.Fatalf("VERIF-INFRA C06 witness: %v", err)
		}
		return b
	}

	// witness 1: unverified sample survives a failed attempt
	{
		req := kit.Req{Kind: "samples", Coords: []shwap.SampleCoords{{Row: 0, Col: 1}}}
		other, err := shwap.NewSampleID(height, shwap.SampleCoords{Row: 0, Col: 2}, sq.Width())
		if err != nil {
			t.Fatal(err)
		}
		res, _, hist := run("sample-slot", req, func(kit.WireID) []*kit.Step {
			return []*kit.Step{{Kind: "other-id", Data: mustResp(other)}}
		})
		if err := req.CheckSafety(sq, res); err != nil {
			fail("sample-slot", fmt.Sprintf("C06 shrex witness: GetSamples[(0,1)] was answered with the sample of (0,2), then the context ended; "+
				"expected an error with an empty slot, got: %v (served %v)", err, hist))
		}
		if res.Err == nil {
			fail("sample-slot", "C06 shrex witness: GetSamples succeeded although no peer sent the requested sample")
		}
	}
	// witness 2: stale last-row proof of a refused answer breaks the next, honest one
	{
		req := kit.Req{Kind: "range", From: 1, To: 3}
		e, _ := shwap.NewEdsID(height)
		wide, err := shwap.NewRangeNamespaceDataID(e, 1, 7, sq.ODS)
		if err != nil {
			t.Fatal(err)
		}
		res, st, hist := run("range-stale-proof", req, func(id kit.WireID) []*kit.Step {
			h := mustResp(id)
			return []*kit.Step{{Kind: "other-id", Data: mustResp(wide)}, {Kind: "honest", Data: h, Honest: true}}
		})
		if err := req.CheckSafety(sq, res); err != nil {
			fail("range-stale-proof", fmt.Sprintf("C06 shrex witness: %v (served %v)", err, hist))
		}
		if st.AllServed && res.Err != nil {
			fail("range-stale-proof", fmt.Sprintf("C06 shrex witness: GetRangeNamespaceData[1,3) was answered with the data of [1,7) by the first peer "+
				"(refused) and honestly by the second; expected success, got: %v (served %v)", res.Err, hist))
		}
	}
	vk.Record("shrex-witnesses", []string{"witness"}, false, nil)
}
