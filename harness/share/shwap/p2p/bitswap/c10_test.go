package bitswap

// C10 — Bitswap blocks are accepted only if they verify for the requested identifier.
// Harness file of /verif (injected by overlay; not part of celestia-node).

import (
	"bytes"
	"context"
	"fmt"
	"sync"
	"sync/atomic"
	"testing"
	"time"

	blocks "github.com/ipfs/go-block-format"
	"github.com/ipfs/go-cid"
	mh "github.com/multiformats/go-multihash"
	"pgregory.net/rapid"

	libshare "github.com/celestiaorg/go-square/v4/share"

	vk "github.com/celestiaorg/celestia-node/internal/verifkit"
	"github.com/celestiaorg/celestia-node/share"
	"github.com/celestiaorg/celestia-node/share/eds"
	"github.com/celestiaorg/celestia-node/share/shwap"
	bitswappb "github.com/celestiaorg/celestia-node/share/shwap/p2p/bitswap/pb"
	"github.com/celestiaorg/celestia-node/store"
)

// squares is a fake AccessorGetter over generated squares (the serving side of a node).
type squares map[uint64]*vk.Square

func (s squares) GetByHeight(_ context.Context, h uint64) (eds.AccessorStreamer, error) {
	sq, ok := s[h]
	if !ok {
		return nil, store.ErrNotFound
	}
	return &eds.Rsmt2D{ExtendedDataSquare: sq.EDS}, nil
}

func (s squares) HasByHeight(_ context.Context, h uint64) (bool, error) {
	_, ok := s[h]
	return ok, nil
}

// c10Req is one generated request: the block the requester waits for plus its reference answer.
type c10Req struct {
	kind string
	blk  Block
	desc string
	// check compares the populated container with the reference square
	check func() error
	empty func() bool
	// neighbour returns an empty block for a different identifier of the same type
	neighbour func(t *rapid.T) Block
}

func c10ODS() []int {
	if vk.Thorough() {
		return []int{1, 2, 2, 4, 4, 8, 16}
	}
	return []int{1, 2, 2, 4, 4, 8}
}

func genC10Req(t *rapid.T, sq *vk.Square, height uint64) c10Req {
	w := sq.Width()
	kind := rapid.SampledFrom([]string{"sample", "row", "rownd", "range"}).Draw(t, "kind")
	switch kind {
	case "sample":
		r, c := rapid.IntRange(0, w-1).Draw(t, "row"), rapid.IntRange(0, w-1).Draw(t, "col")
		b, err := NewEmptySampleBlock(height, shwap.SampleCoords{Row: r, Col: c}, w)
		c10must(t, err)
		return c10Req{kind: kind, blk: b, desc: fmt.Sprintf("sample(%d,%d)@%d", r, c, height),
			check: func() error {
				if !bytes.Equal(b.Container.ToBytes(), sq.RefShare(r, c)) {
					return fmt.Errorf("sample share differs from the committed share at (%d,%d)", r, c)
				}
				return nil
			},
			empty: func() bool { return b.Container.IsEmpty() },
			neighbour: func(t *rapid.T) Block {
				rr, cc := rapid.IntRange(0, w-1).Draw(t, "nrow"), rapid.IntRange(0, w-1).Draw(t, "ncol")
				if rr == r && cc == c {
					cc = (cc + 1) % w
					if w == 1 {
						return nil
					}
				}
				nb, err := NewEmptySampleBlock(height, shwap.SampleCoords{Row: rr, Col: cc}, w)
				c10must(t, err)
				return nb
			}}
	case "row":
		r := rapid.IntRange(0, w-1).Draw(t, "row")
		b, err := NewEmptyRowBlock(height, r, w)
		c10must(t, err)
		return c10Req{kind: kind, blk: b, desc: fmt.Sprintf("row(%d)@%d", r, height),
			check: func() error {
				shrs, err := b.Container.Shares()
				if err != nil {
					return err
				}
				return vk.SharesBytesEqual(shrs, sq.Ref[r])
			},
			empty: func() bool { return b.Container.IsEmpty() },
			neighbour: func(t *rapid.T) Block {
				rr := rapid.IntRange(0, w-1).Draw(t, "nrow")
				if rr == r {
					rr = (rr + 1) % w
				}
				nb, err := NewEmptyRowBlock(height, rr, w)
				c10must(t, err)
				return nb
			}}
	case "rownd":
		var cands []libshare.Namespace
		for _, ns := range sq.NamespacesPresent() {
			if ns.ValidateForData() == nil {
				cands = append(cands, ns)
			}
		}
		cands = append(cands, vk.OddNS(rapid.IntRange(0, 6).Draw(t, "odd")))
		ns := cands[rapid.IntRange(0, len(cands)-1).Draw(t, "ns")]
		rows := sq.RefRowsCovering(ns)
		if len(rows) == 0 {
			// nothing to request for this namespace: fall back to a sample request
			b, err := NewEmptySampleBlock(height, shwap.SampleCoords{}, w)
			c10must(t, err)
			return c10Req{kind: "sample", blk: b, desc: fmt.Sprintf("sample(0,0)@%d", height),
				check: func() error {
					if !bytes.Equal(b.Container.ToBytes(), sq.RefShare(0, 0)) {
						return fmt.Errorf("sample share differs")
					}
					return nil
				},
				empty:     func() bool { return b.Container.IsEmpty() },
				neighbour: func(*rapid.T) Block { return nil }}
		}
		r := rows[rapid.IntRange(0, len(rows)-1).Draw(t, "rowpick")]
		b, err := NewEmptyRowNamespaceDataBlock(height, r, ns, w)
		c10must(t, err)
		return c10Req{kind: kind, blk: b, desc: fmt.Sprintf("rownd(%d,%s)@%d", r, vk.NsShort(ns), height),
			check: func() error {
				var want [][]byte
				for c := 0; c < sq.ODS; c++ {
					if bytes.Equal(sq.Ref[r][c][:libshare.NamespaceSize], ns.Bytes()) {
						want = append(want, sq.Ref[r][c])
					}
				}
				return vk.SharesBytesEqual(b.Container.Shares, want)
			},
			empty: func() bool { return b.Container.IsEmpty() },
			neighbour: func(t *rapid.T) Block {
				if len(rows) > 1 && rapid.Bool().Draw(t, "nrowkind") {
					for _, rr := range rows {
						if rr != r {
							nb, err := NewEmptyRowNamespaceDataBlock(height, rr, ns, w)
							c10must(t, err)
							return nb
						}
					}
				}
				other := cands[rapid.IntRange(0, len(cands)-1).Draw(t, "nns")]
				if other.Equals(ns) {
					return nil
				}
				nb, err := NewEmptyRowNamespaceDataBlock(height, r, other, w)
				c10must(t, err)
				return nb
			}}
	default:
		anchor := rapid.IntRange(0, sq.ODS*sq.ODS-1).Draw(t, "anchor")
		lo, hi := sq.NSStretch(anchor)
		from := rapid.IntRange(lo, hi-1).Draw(t, "from")
		to := rapid.IntRange(from+1, hi).Draw(t, "to")
		b, err := NewEmptyRangeNamespaceDataBlock(height, from, to, sq.ODS)
		c10must(t, err)
		return c10Req{kind: kind, blk: b, desc: fmt.Sprintf("range[%d,%d)@%d", from, to, height),
			check: func() error {
				want := make([][]byte, 0, to-from)
				for i := from; i < to; i++ {
					want = append(want, sq.Ref[i/sq.ODS][i%sq.ODS])
				}
				return vk.SharesBytesEqual(b.Container.Flatten(), want)
			},
			empty: func() bool { return b.Container.IsEmpty() },
			neighbour: func(t *rapid.T) Block {
				f2 := rapid.IntRange(lo, hi-1).Draw(t, "nfrom")
				t2 := rapid.IntRange(f2+1, hi).Draw(t, "nto")
				if f2 == from && t2 == to {
					return nil
				}
				nb, err := NewEmptyRangeNamespaceDataBlock(height, f2, t2, sq.ODS)
				c10must(t, err)
				return nb
			}}
	}
}

func c10must(t *rapid.T, err error) {
	if err != nil {
		t.Helper()
		t.Fatalf("C10 harness: unexpected error: %v", err)
	}
}

// serve produces the block a serving node sends for cid c (the real serving path).
func serve(bs *Blockstore, c cid.Cid) ([]byte, error) {
	b, err := bs.Get(context.Background(), c)
	if err != nil {
		return nil, err
	}
	return b.RawData(), nil
}

// accepts mimics the Bitswap client: the received bytes are hashed with the multihash function of
// the wanted CID's prefix (which runs the registered hasher = the real verification) and the
// block fills the want only if the resulting CID is the wanted one.
func accepts(want cid.Cid, data []byte) (ok bool, panicked any) {
	defer func() {
		if r := recover(); r != nil {
			panicked = r
		}
	}()
	got, err := want.Prefix().Sum(data)
	return err == nil && got.Equals(want), nil
}

func envelope(inner []byte, container []byte) []byte {
	b := bitswappb.Block{Cid: inner, Container: container}
	out, err := b.Marshal()
	if err != nil {
		panic(err)
	}
	return out
}

func splitEnvelope(data []byte) (cidBytes, container []byte) {
	var b bitswappb.Block
	if err := b.Unmarshal(data); err != nil {
		return nil, nil
	}
	return b.Cid, b.Container
}

// TestVerifC10_Hasher decides acceptance at the level where Bitswap decides it.
func TestVerifC10_Hasher(t *testing.T) {
	defer vk.Flush()
	rapid.Check(t, func(t *rapid.T) {
		sq := vk.GenSquare(t, "sq", vk.SquareOpts{ODS: c10ODS()})
		height := rapid.Uint64Range(1, 1<<40).Draw(t, "height")
		sib := vk.GenSibling(t, "sib", sq)
		otherHeight := height + 1 + rapid.Uint64Range(0, 5).Draw(t, "dh")
		srv := &Blockstore{Getter: squares{height: sq, otherHeight: sib}}
		srvSib := &Blockstore{Getter: squares{height: sib}} // a node holding a different square at the same height

		req := genC10Req(t, sq, height)
		want := req.blk.CID()
		// identifier <-> CID round trip
		back, err := EmptyBlock(want)
		if err != nil {
			t.Fatalf("C10 CID of a constructed identifier (%s) is refused: %v", req.desc, err)
		}
		if !back.CID().Equals(want) || back.Height() != height {
			t.Fatalf("C10 identifier -> CID -> identifier is not the identity for %s", req.desc)
		}
		honest, err := serve(srv, want)
		if err != nil {
			t.Fatalf("C10 serving path failed for %s of %s: %v", req.desc, sq.Desc(), err)
		}
		honestCid, honestContainer := splitEnvelope(honest)

		// register the request exactly as fetch does
		entry := &unmarshalEntry{UnmarshalFn: req.blk.UnmarshalFn(sq.Roots)}
		if _, loaded := unmarshalFns.LoadOrStore(want, entry); loaded {
			t.Fatalf("C10 harness: unmarshalFns leaked an entry for %s", want)
		}
		defer unmarshalFns.Delete(want)

		// a second request of the same requester, pending at the same time (cross-type candidates)
		var other c10Req
		if rb, isRow := req.blk.(*RowBlock); isRow && rapid.Bool().Draw(t, "collide") {
			col := rapid.IntRange(0, sq.Width()-1).Draw(t, "ocol")
			ob, err := NewEmptySampleBlock(height, shwap.SampleCoords{Row: rb.ID.RowIndex, Col: col}, sq.Width())
			c10must(t, err)
			other = c10Req{kind: "sample", blk: ob, desc: fmt.Sprintf("sample(%d,%d)@%d", rb.ID.RowIndex, col, height),
				empty: func() bool { return ob.Container.IsEmpty() }}
		} else {
			other = genC10Req(t, sq, height)
		}
		otherCID := other.blk.CID()
		var otherHonest []byte
		if !otherCID.Equals(want) {
			if _, loaded := unmarshalFns.LoadOrStore(otherCID, &unmarshalEntry{UnmarshalFn: other.blk.UnmarshalFn(sq.Roots)}); !loaded {
				defer unmarshalFns.Delete(otherCID)
				otherHonest, _ = serve(srv, otherCID)
			}
		}

		n := rapid.IntRange(1, 4).Draw(t, "ncand")
		var fams []string
		nontrivial := false
		for i := 0; i < n; i++ {
			fam := rapid.SampledFrom([]string{
				"other-id", "other-height", "sibling-square", "inner-cid-mismatch", "foreign-codec", "mh-length",
				"truncated", "mutated", "empty-container", "container-only", "honest", "cross-request",
			}).Draw(t, "family")
			fams = append(fams, fam)
			var cand []byte
			reaches := false // decodes as an envelope with a valid CID of the right type
			switch fam {
			case "honest":
				cand = honest
			case "cross-request":
				// the valid block of another request that is pending at the same time
				if otherHonest == nil {
					continue
				}
				cand, reaches = otherHonest, true
			case "other-id":
				nb := req.neighbour(t)
				if nb == nil {
					continue
				}
				d, err := serve(srv, nb.CID())
				if err != nil {
					continue
				}
				cand, reaches = d, true
			case "other-height":
				// same identifier fields, different height (different square)
				var oc cid.Cid
				switch b := req.blk.(type) {
				case *SampleBlock:
					nb, err := NewEmptySampleBlock(otherHeight, shwap.SampleCoords{Row: b.ID.RowIndex, Col: b.ID.ShareIndex}, sq.Width())
					c10must(t, err)
					oc = nb.CID()
				case *RowBlock:
					nb, err := NewEmptyRowBlock(otherHeight, b.ID.RowIndex, sq.Width())
					c10must(t, err)
					oc = nb.CID()
				case *RowNamespaceDataBlock:
					nb, err := NewEmptyRowNamespaceDataBlock(otherHeight, b.ID.RowIndex, b.ID.DataNamespace, sq.Width())
					c10must(t, err)
					oc = nb.CID()
				case *RangeNamespaceDataBlock:
					nb, err := NewEmptyRangeNamespaceDataBlock(otherHeight, b.ID.From, b.ID.To, sq.ODS)
					c10must(t, err)
					oc = nb.CID()
				}
				d, err := serve(srv, oc)
				if err != nil {
					continue
				}
				cand, reaches = d, true
				if rapid.Bool().Draw(t, "relabel") {
					// the other height's container under the requested CID
					_, cont := splitEnvelope(d)
					cand = envelope(honestCid, cont)
				}
			case "sibling-square":
				d, err := serve(srvSib, want)
				if err != nil {
					continue
				}
				cand, reaches = d, true
			case "inner-cid-mismatch":
				nb := req.neighbour(t)
				if nb == nil {
					continue
				}
				if rapid.Bool().Draw(t, "dir") {
					cand = envelope(nb.CID().Bytes(), honestContainer) // honest data, foreign inner CID
				} else {
					d, err := serve(srv, nb.CID())
					if err != nil {
						continue
					}
					_, cont := splitEnvelope(d)
					cand = envelope(honestCid, cont) // foreign data, requested inner CID
				}
				reaches = true
			case "foreign-codec":
				p := want.Prefix()
				id, err := extractFromCID(want)
				c10must(t, err)
				codec := rapid.SampledFrom([]uint64{sampleCodec, rowCodec, rowNamespaceDataCodec, rangeNamespaceDataCodec, 0x55, 0x70}).Draw(t, "codec")
				code := rapid.SampledFrom([]uint64{sampleMultihashCode, rowMultihashCode, rowNamespaceDataMultihashCode, rangeNamespaceDataMultihashCode, mh.SHA2_256, mh.IDENTITY}).Draw(t, "mhcode")
				if codec == p.Codec && code == p.MhType {
					codec = 0x55
				}
				buf, err := mh.Encode(id, code)
				c10must(t, err)
				cand = envelope(cid.NewCidV1(codec, buf).Bytes(), honestContainer)
			case "mh-length":
				id, err := extractFromCID(want)
				c10must(t, err)
				p := want.Prefix()
				var id2 []byte
				if rapid.Bool().Draw(t, "longer") {
					id2 = append(append([]byte(nil), id...), 0)
				} else {
					id2 = id[:len(id)-1]
				}
				buf, err := mh.Encode(id2, p.MhType)
				c10must(t, err)
				cand = envelope(cid.NewCidV1(p.Codec, buf).Bytes(), honestContainer)
			case "truncated":
				cand = honest[:rapid.IntRange(0, len(honest)-1).Draw(t, "len")]
			case "mutated":
				cand, _ = vk.MutateBytes(t, "mut", honest, nil)
				reaches = true
			case "empty-container":
				cand = envelope(honestCid, nil)
				reaches = true
			case "container-only":
				cand = honestContainer
			}
			wasEmpty := req.empty()
			ok, panicked := accepts(want, cand)
			if panicked != nil {
				t.Fatalf("C10 hasher panicked on a %s candidate for %s (%s): %v", fam, req.desc, sq.Desc(), panicked)
			}
			isHonestBytes := bytes.Equal(cand, honest)
			if reaches && !isHonestBytes {
				nontrivial = true
			}
			if ok {
				if req.empty() {
					t.Fatalf("C10 candidate (%s) accepted for %s but the request was not populated", fam, req.desc)
				}
				if err := req.check(); err != nil {
					t.Fatalf("C10 candidate (%s) accepted for %s of %s but the populated container is not the committed data: %v",
						fam, req.desc, sq.Desc(), err)
				}
				// the accepted bytes must carry exactly the requested identifier
				ic, _ := splitEnvelope(cand)
				if c2, err := cid.Cast(ic); err != nil || !c2.Equals(want) {
					t.Fatalf("C10 candidate (%s) accepted for %s although its inner CID is not the requested one", fam, req.desc)
				}
			} else {
				if isHonestBytes && wasEmpty {
					t.Fatalf("C10 the block a serving node produces for %s of %s is rejected by the requester", req.desc, sq.Desc())
				}
				if wasEmpty && !req.empty() {
					// the want was not satisfied, yet the request got populated: only acceptable if what it
					// now holds is the committed data (e.g. valid bytes under a foreign outer prefix)
					if err := req.check(); err != nil {
						t.Fatalf("C10 rejected candidate (%s) for %s left unverified data in the request: %v", fam, req.desc, err)
					}
				}
			}
		}
		// a bad candidate must not poison the request: the honest block still fills it
		if req.empty() {
			ok, panicked := accepts(want, honest)
			if panicked != nil || !ok {
				t.Fatalf("C10 honest block for %s rejected after candidates %v (panic=%v)", req.desc, fams, panicked)
			}
			if err := req.check(); err != nil {
				t.Fatalf("C10 honest block accepted for %s but container differs from the committed data: %v", req.desc, err)
			}
		}
		vk.RecordHash(vk.Hash64(sq.Desc(), req.desc, fmt.Sprint(fams)), append([]string{"block=" + req.kind, fmt.Sprintf("ods=%d", sq.ODS)}, famLabels(fams)...),
			nontrivial, func() any {
				return map[string]any{"square": sq.Desc(), "request": req.desc, "candidates": fams}
			})
	})
}

func famLabels(f []string) []string {
	out := make([]string, 0, len(f))
	seen := map[string]bool{}
	for _, x := range f {
		if !seen[x] {
			seen[x] = true
			out = append(out, "cand="+x)
		}
	}
	return out
}

// TestVerifC10_CIDInjective: two different identifiers never share a CID, and every CID maps back
// to its identifier.
func TestVerifC10_CIDInjective(t *testing.T) {
	defer vk.Flush()
	rapid.Check(t, func(t *rapid.T) {
		eds := rapid.SampledFrom([]int{2, 4, 16, 128, 512, 1024}).Draw(t, "eds")
		gen := func(label string) (Block, string) {
			h := rapid.Uint64Range(1, 1<<63).Draw(t, label+".h")
			if rapid.Bool().Draw(t, label+".smallh") {
				h = rapid.Uint64Range(1, 4).Draw(t, label+".hs")
			}
			switch rapid.IntRange(0, 3).Draw(t, label+".kind") {
			case 0:
				r, c := rapid.IntRange(0, eds-1).Draw(t, label+".r"), rapid.IntRange(0, eds-1).Draw(t, label+".c")
				b, err := NewEmptySampleBlock(h, shwap.SampleCoords{Row: r, Col: c}, eds)
				c10must(t, err)
				return b, fmt.Sprintf("sample %d %d %d", h, r, c)
			case 1:
				r := rapid.IntRange(0, eds-1).Draw(t, label+".r")
				b, err := NewEmptyRowBlock(h, r, eds)
				c10must(t, err)
				return b, fmt.Sprintf("row %d %d", h, r)
			case 2:
				r := rapid.IntRange(0, eds-1).Draw(t, label+".r")
				ns := vk.BlobNS(rapid.IntRange(0, 3).Draw(t, label+".ns"))
				b, err := NewEmptyRowNamespaceDataBlock(h, r, ns, eds)
				c10must(t, err)
				return b, fmt.Sprintf("rownd %d %d %s", h, r, ns.String())
			default:
				area := (eds / 2) * (eds / 2)
				from := rapid.IntRange(0, min(area-1, 65534)).Draw(t, label+".from")
				to := rapid.IntRange(from+1, min(area, 65535)).Draw(t, label+".to")
				b, err := NewEmptyRangeNamespaceDataBlock(h, from, to, eds/2)
				c10must(t, err)
				return b, fmt.Sprintf("range %d %d %d", h, from, to)
			}
		}
		a, da := gen("a")
		b, db := gen("b")
		ca, cb := a.CID(), b.CID()
		if (da == db) != ca.Equals(cb) {
			t.Fatalf("C10 identifiers %q and %q: equal=%v but CIDs equal=%v", da, db, da == db, ca.Equals(cb))
		}
		for _, x := range []struct {
			c cid.Cid
			d string
		}{{ca, da}, {cb, db}} {
			back, err := EmptyBlock(x.c)
			if err != nil || !back.CID().Equals(x.c) {
				t.Fatalf("C10 CID of %q does not map back to its identifier: %v", x.d, err)
			}
			// through the binary CID form as it travels on the wire
			c2, err := cid.Cast(x.c.Bytes())
			if err != nil || !c2.Equals(x.c) {
				t.Fatalf("C10 CID of %q does not survive its binary form", x.d)
			}
		}
		vk.Record(da+"|"+db, []string{"cid-pair"}, da != db, nil)
	})
}

// ---------------------------------------------------------------------------------------------
// end to end through Fetch with a schedule-owned fake exchange that applies Bitswap's acceptance rule

// ownedExchange hands every GetBlocks call to the harness, which decides what is delivered when.
type ownedExchange struct {
	calls chan *ownedCall
}

type ownedCall struct {
	cids []cid.Cid
	out  chan blocks.Block
}

func (f *ownedExchange) GetBlock(ctx context.Context, c cid.Cid) (blocks.Block, error) {
	ch, err := f.GetBlocks(ctx, []cid.Cid{c})
	if err != nil {
		return nil, err
	}
	b, ok := <-ch
	if !ok {
		return nil, ctx.Err()
	}
	return b, nil
}

func (f *ownedExchange) GetBlocks(_ context.Context, cids []cid.Cid) (<-chan blocks.Block, error) {
	c := &ownedCall{cids: cids, out: make(chan blocks.Block)}
	f.calls <- c
	return c.out, nil
}

func (f *ownedExchange) NotifyNewBlocks(context.Context, ...blocks.Block) error { return nil }
func (f *ownedExchange) Close() error                                           { return nil }

// c10Gated wraps a Block so that the harness owns two more scheduling points of a fetch:
//   - regGate: UnmarshalFn(root) - which fetch calls while it registers the request - returns only
//     when the harness says so (two fetches of one identifier can then overlap in registration);
//   - verify gate: the unmarshal closure the hasher runs parks once before verifying (a second
//     delivery for the same identifier can then arrive while the first is being verified).
type c10Gated struct {
	Block
	regGate chan struct{}
	parked  chan struct{}
	once    sync.Once
	vgate   atomic.Pointer[c10VerifyGate]
}

type c10VerifyGate struct {
	armed   atomic.Bool
	parked  chan struct{}
	release chan struct{}
}

func (g *c10Gated) UnmarshalFn(root *share.AxisRoots) UnmarshalFn {
	if g.regGate != nil {
		g.once.Do(func() { close(g.parked) })
		<-g.regGate
	}
	inner := g.Block.UnmarshalFn(root)
	return func(c, id []byte) error {
		if vg := g.vgate.Load(); vg != nil && vg.armed.CompareAndSwap(true, false) {
			close(vg.parked)
			<-vg.release
		}
		return inner(c, id)
	}
}

type c10Fetcher struct {
	blks      []*c10Gated
	gated     bool // started with its registration gated and not yet released
	reqs      []c10Req
	ex        *ownedExchange
	call      *ownedCall
	ctx       context.Context
	cancel    context.CancelFunc
	done      chan struct{}
	err       error
	panicked  any
	started   bool
	finished  bool
	satisfied []bool
	gotBad    bool // a non-honest candidate was accepted for one of its wants
	original  []bool
}

// TestVerifC10_Fetch: Fetch over a schedule-owned exchange; 1-4 fetchers request the same
// identifiers (the duplicates path); the harness generates the order of starts, deliveries
// (honest / other-square / garbage candidates, each subjected to Bitswap's acceptance rule) and
// completions. Oracle: an honest block offered to a fetcher that still wants it is accepted;
// whatever populates a request is the committed data; Fetch returns nil only with every request
// populated; nothing panics; the global registry is empty afterwards.
func TestVerifC10_Fetch(t *testing.T) {
	defer vk.Flush()
	const orphanSig = "C10:duplicate-fetch-orphaned-after-original-returns"
	rapid.Check(t, func(t *rapid.T) {
		sq := vk.GenSquare(t, "sq", vk.SquareOpts{ODS: []int{1, 2, 4}})
		height := rapid.Uint64Range(1, 1<<30).Draw(t, "height")
		srv := &Blockstore{Getter: squares{height: sq}}
		sib := vk.GenSibling(t, "sib", sq)
		srvSib := &Blockstore{Getter: squares{height: sib}}
		nreq := rapid.IntRange(1, 3).Draw(t, "nreq")
		nfetch := rapid.IntRange(1, 4).Draw(t, "nfetchers")

		// distinct identifiers (real callers never put one identifier twice into a Fetch call)
		var first []c10Req
		seen := map[cid.Cid]bool{}
		for len(first) < nreq {
			r := genC10Req(t, sq, height)
			if seen[r.blk.CID()] {
				nreq--
				continue
			}
			seen[r.blk.CID()] = true
			first = append(first, r)
		}
		if len(first) == 0 {
			t.Skip("no request")
		}
		nreq = len(first)
		honest := make([][]byte, nreq)
		bad := make([][]byte, nreq)
		var descs []string
		for i, r := range first {
			h, err := serve(srv, r.blk.CID())
			c10must(t, err)
			honest[i] = h
			if b, err := serve(srvSib, r.blk.CID()); err == nil && !bytes.Equal(b, h) {
				bad[i] = b
			}
			descs = append(descs, r.desc)
		}
		fetchers := make([]*c10Fetcher, nfetch)
		for k := range fetchers {
			f := &c10Fetcher{ex: &ownedExchange{calls: make(chan *ownedCall, 1)}, done: make(chan struct{}),
				satisfied: make([]bool, nreq), original: make([]bool, nreq)}
			f.ctx, f.cancel = context.WithCancel(context.Background())
			if k == 0 {
				f.reqs = first
			} else {
				f.reqs = make([]c10Req, nreq)
				for i := range first {
					f.reqs[i] = cloneReq(t, first[i], sq, height)
				}
			}
			fetchers[k] = f
		}
		defer func() {
			for _, f := range fetchers {
				f.cancel()
				if f.gated {
					close(f.blks[0].regGate)
					f.gated = false
					select {
					case f.call = <-f.ex.calls:
					case <-f.done:
					}
				}
				if f.started && !f.finished && f.call != nil {
					close(f.call.out)
					<-f.done
				}
			}
		}()
		// owner[i] = index of the fetcher whose registry entry serves CID i (-1: none registered)
		owner := make([]int, nreq)
		for i := range owner {
			owner[i] = -1
		}
		var history []string
		labels := map[string]bool{}
		infra := func(msg string) { t.Fatalf("VERIF-INFRA C10 harness: %s (history %v)", msg, history) }

		launch := func(k int, gated bool) {
			f := fetchers[k]
			f.started = true
			f.blks = make([]*c10Gated, nreq)
			for i := range f.reqs {
				f.blks[i] = &c10Gated{Block: f.reqs[i].blk}
			}
			if gated {
				f.blks[0].regGate, f.blks[0].parked = make(chan struct{}), make(chan struct{})
			}
			go func() {
				defer close(f.done)
				defer func() {
					if r := recover(); r != nil {
						f.panicked = r
					}
				}()
				blks := make([]Block, nreq)
				for i := range f.blks {
					blks[i] = f.blks[i]
				}
				f.err = Fetch(f.ctx, f.ex, sq.Roots, blks)
			}()
		}
		arrive := func(k int) {
			f := fetchers[k]
			select {
			case f.call = <-f.ex.calls:
			case <-f.done:
				infra(fmt.Sprintf("Fetch of fetcher %d returned before asking the exchange: err=%v panic=%v", k, f.err, f.panicked))
			case <-time.After(20 * time.Second):
				infra("Fetch did not reach the exchange within 20s")
			}
			for i := range owner {
				if owner[i] == -1 {
					owner[i] = k
					f.original[i] = true
				}
			}
		}
		start := func(k int) {
			launch(k, false)
			arrive(k)
			history = append(history, fmt.Sprintf("start(%d)", k))
		}
		startGated := func(k int) {
			launch(k, true)
			f := fetchers[k]
			select {
			case <-f.blks[0].parked:
				f.gated = true
				history = append(history, fmt.Sprintf("startGated(%d)", k))
				labels["registration-overlap"] = true
			case f.call = <-f.ex.calls:
				// the fetch went to the exchange without building its unmarshal closure first (an
				// implementation may skip that for a request it treats as a duplicate): it is started
				for i := range owner {
					if owner[i] == -1 {
						owner[i] = k
						f.original[i] = true
					}
				}
				history = append(history, fmt.Sprintf("startGated(%d)->not gated", k))
			case <-f.done:
				infra(fmt.Sprintf("gated Fetch of fetcher %d returned before registering: err=%v panic=%v", k, f.err, f.panicked))
			case <-time.After(20 * time.Second):
				infra("gated Fetch neither reached its registration nor the exchange within 20s")
			}
		}
		ungate := func(k int) {
			f := fetchers[k]
			close(f.blks[0].regGate)
			f.gated = false
			arrive(k)
			history = append(history, fmt.Sprintf("ungate(%d)", k))
		}
		finish := func(k int, cancelFirst bool) {
			f := fetchers[k]
			if cancelFirst {
				f.cancel()
			}
			close(f.call.out)
			select {
			case <-f.done:
			case <-time.After(20 * time.Second):
				infra(fmt.Sprintf("Fetch of fetcher %d did not return within 20s after its channel was closed", k))
			}
			f.finished = true
			history = append(history, fmt.Sprintf("finish(%d,cancel=%v)->err=%v", k, cancelFirst, f.err))
			// the registry entries this fetcher owned are gone now
			for i := range owner {
				if owner[i] == k {
					owner[i] = -1
				}
			}
			all := true
			for _, s := range f.satisfied {
				all = all && s
			}
			if f.panicked != nil {
				t.Fatalf("C10 Fetch panicked (fetcher %d, requests %v, %s, history %v): %v", k, descs, sq.Desc(), history, f.panicked)
			}
			for i, r := range f.reqs {
				if !r.empty() {
					if err := r.check(); err != nil {
						t.Fatalf("C10 fetcher %d request %s populated with data that is not the committed data: %v (history %v)", k, r.desc, err, history)
					}
				}
				if f.err == nil && r.empty() {
					t.Fatalf("C10 Fetch returned nil but request %d (%s) of fetcher %d is unfulfilled (history %v)", i, r.desc, k, history)
				}
			}
			if f.err == nil && (!all || cancelFirst) {
				t.Fatalf("C10 Fetch of fetcher %d returned nil although not every want was satisfied / its context was cancelled (history %v)", k, history)
			}
			if f.err != nil && all && !cancelFirst && !f.gotBad {
				t.Fatalf("C10 Fetch of fetcher %d failed (%v) although every want was satisfied by an honest block (history %v)", k, f.err, history)
			}
		}
		deliver := func(k, i int, fam string) {
			f := fetchers[k]
			var data []byte
			switch fam {
			case "honest":
				data = honest[i]
			case "bad":
				data = bad[i]
				if data == nil {
					return
				}
			case "cross":
				// the honest block of another request of the same Fetch call
				if nreq < 2 {
					return
				}
				data = honest[(i+1+rapid.IntRange(0, nreq-2).Draw(t, "cross"))%nreq]
			default:
				data = rapid.SliceOfN(rapid.Byte(), 0, 48).Draw(t, "garbage")
			}
			want := f.reqs[i].blk.CID()
			orphan := owner[i] == -1 // the registrant of this CID has returned; k is a left-over duplicate
			if orphan && vk.KnownOpen(orphanSig) {
				vk.Excluded(orphanSig)
				return
			}
			ok, panicked := accepts(want, data)
			if panicked != nil {
				t.Fatalf("C10 hasher panicked on a %s candidate for %s: %v (history %v)", fam, f.reqs[i].desc, panicked, history)
			}
			history = append(history, fmt.Sprintf("deliver(%d,%s,%s)->%v", k, f.reqs[i].desc, fam, ok))
			if fam == "honest" && !ok {
				t.Fatalf("C10 [%s] honest block for %s offered to fetcher %d, which still wants it, was rejected (orphaned duplicate=%v; history %v)",
					orphanSig, f.reqs[i].desc, k, orphan, history)
			}
			if !ok {
				return
			}
			if fam == "cross" {
				t.Fatalf("C10 the block of another request was accepted for %s (history %v)", f.reqs[i].desc, history)
			}
			if fam != "honest" {
				// only possible when the registrant's request is already populated (a second block
				// for a filled request is let through by design); a duplicate must refuse it itself
				if oi := owner[i]; oi >= 0 && fetchers[oi].reqs[i].empty() {
					t.Fatalf("C10 a %s candidate for %s was accepted while the registered request is still empty (history %v)", fam, f.reqs[i].desc, history)
				}
				f.gotBad = true
				labels["bad-accepted-after-filled"] = true
			}
			b, err := blocks.NewBlockWithCid(data, want)
			c10must(t, err)
			select {
			case f.call.out <- b:
			case <-f.done:
				finishedEarly := fmt.Sprintf("Fetch of fetcher %d returned while a block was being delivered: err=%v panic=%v", k, f.err, f.panicked)
				if f.panicked != nil {
					t.Fatalf("C10 Fetch panicked: %v (history %v)", f.panicked, history)
				}
				infra(finishedEarly)
			case <-time.After(20 * time.Second):
				infra("Fetch did not take a delivered block within 20s")
			}
			f.satisfied[i] = true
		}

		// deliverRacing: a first delivery for want i is parked inside the verification of the
		// registered request (it holds the entry lock there); meanwhile another peer's block - the
		// other square's block with the requested CID - arrives for the same identifier. The second
		// delivery must not be declared valid while the request is still empty.
		deliverRacing := func(k, i int, firstFam string) {
			f := fetchers[k]
			o := fetchers[owner[i]]
			want := f.reqs[i].blk.CID()
			firstData := bad[i]
			if firstFam == "honest" {
				firstData = honest[i]
			}
			wasEmpty := o.reqs[i].empty()
			vg := &c10VerifyGate{parked: make(chan struct{}), release: make(chan struct{})}
			vg.armed.Store(true)
			o.blks[i].vgate.Store(vg)
			type verdict struct {
				ok       bool
				panicked any
			}
			r1, r2 := make(chan verdict, 1), make(chan verdict, 1)
			go func() { ok, p := accepts(want, firstData); r1 <- verdict{ok, p} }()
			var v1, v2 verdict
			got1 := false
			select {
			case <-vg.parked:
			case v1 = <-r1:
				got1 = true // did not reach the verification (e.g. request already filled)
			case <-time.After(20 * time.Second):
				infra("a delivery neither parked in verification nor returned within 20s")
			}
			go func() { ok, p := accepts(want, bad[i]); r2 <- verdict{ok, p} }()
			got2 := false
			if !got1 {
				select {
				case v2 = <-r2:
					got2 = true
				case <-time.After(150 * time.Millisecond): // schedule control only: the second delivery waits for the first
				}
				if got2 && v2.ok && wasEmpty && o.reqs[i].empty() {
					close(vg.release)
					<-r1
					t.Fatalf("C10 a block of another square was declared valid for %s while an earlier delivery for the same identifier was still being verified and the request was empty (history %v)",
						f.reqs[i].desc, history)
				}
				close(vg.release)
				v1 = <-r1
			}
			if !got2 {
				select {
				case v2 = <-r2:
				case <-time.After(20 * time.Second):
					infra("second delivery did not return within 20s after the first was released")
				}
			}
			o.blks[i].vgate.Store(nil)
			if v1.panicked != nil || v2.panicked != nil {
				t.Fatalf("C10 hasher panicked during racing deliveries for %s: %v %v (history %v)", f.reqs[i].desc, v1.panicked, v2.panicked, history)
			}
			history = append(history, fmt.Sprintf("deliverRacing(%d,%s,first=%s)->%v,%v", k, f.reqs[i].desc, firstFam, v1.ok, v2.ok))
			labels["racing-deliveries"] = true
			if firstFam == "honest" && wasEmpty && !v1.ok {
				t.Fatalf("C10 honest block for %s was rejected (history %v)", f.reqs[i].desc, history)
			}
			if (v1.ok && firstFam == "bad" || v2.ok) && o.reqs[i].empty() {
				t.Fatalf("C10 a block of another square was accepted for %s while the registered request is still empty (history %v)", f.reqs[i].desc, history)
			}
			// what Bitswap hands to the session: the first accepted block for the want
			var data []byte
			switch {
			case v1.ok:
				data = firstData
				if firstFam == "bad" {
					f.gotBad = true
				}
			case v2.ok:
				data = bad[i]
				f.gotBad = true
			default:
				return
			}
			if v2.ok {
				labels["bad-accepted-after-filled"] = true
			}
			b, err := blocks.NewBlockWithCid(data, want)
			c10must(t, err)
			select {
			case f.call.out <- b:
			case <-f.done:
				if f.panicked != nil {
					t.Fatalf("C10 Fetch panicked: %v (history %v)", f.panicked, history)
				}
				infra("Fetch returned while a block was being delivered")
			case <-time.After(20 * time.Second):
				infra("Fetch did not take a delivered block within 20s")
			}
			f.satisfied[i] = true
		}

		if rapid.IntRange(0, 3).Draw(t, "firstgated") == 0 {
			startGated(0)
		} else {
			start(0)
		}
		// once every fetcher has been started and has returned, only "idle" stays enabled; rapid gives up
		// after 100 disabled draws in a row (1 chance in 10^6 per step with eight actions — met once in
		// 5·10^5 thorough cases), so in that state the other actions are no-ops instead of skips
		quiet := func() bool {
			for _, f := range fetchers {
				if !f.started || !f.finished {
					return false
				}
			}
			return true
		}
		t.Repeat(map[string]func(*rapid.T){
			"idle": func(*rapid.T) {},
			"start": func(t *rapid.T) {
				for k, f := range fetchers {
					if !f.started {
						start(k)
						if k > 0 {
							labels["duplicate-fetcher"] = true
						}
						return
					}
				}
				if quiet() {
					return
				}
				t.Skip("all started")
			},
			"startGated": func(t *rapid.T) {
				for k, f := range fetchers {
					if !f.started {
						startGated(k)
						if k > 0 {
							labels["duplicate-fetcher"] = true
						}
						return
					}
				}
				if quiet() {
					return
				}
				t.Skip("all started")
			},
			"ungate": func(t *rapid.T) {
				for k, f := range fetchers {
					if f.gated {
						ungate(k)
						return
					}
				}
				if quiet() {
					return
				}
				t.Skip("nobody is gated")
			},
			"deliverRacing": func(t *rapid.T) {
				var live []int
				for k, f := range fetchers {
					if f.started && !f.finished && !f.gated {
						live = append(live, k)
					}
				}
				if len(live) == 0 {
					if quiet() {
						return
					}
					t.Skip("nobody waits")
				}
				k := live[rapid.IntRange(0, len(live)-1).Draw(t, "fetcher")]
				f := fetchers[k]
				var open []int
				for i, sat := range f.satisfied {
					if !sat && owner[i] >= 0 && !fetchers[owner[i]].gated && bad[i] != nil {
						open = append(open, i)
					}
				}
				if len(open) == 0 {
					t.Skip("nothing to race on")
				}
				i := open[rapid.IntRange(0, len(open)-1).Draw(t, "want")]
				firstFam := rapid.SampledFrom([]string{"bad", "honest"}).Draw(t, "firstfam")
				deliverRacing(k, i, firstFam)
			},
			"deliver": func(t *rapid.T) {
				var live []int
				for k, f := range fetchers {
					if f.started && !f.finished && !f.gated {
						live = append(live, k)
					}
				}
				if len(live) == 0 {
					if quiet() {
						return
					}
					t.Skip("nobody waits")
				}
				k := live[rapid.IntRange(0, len(live)-1).Draw(t, "fetcher")]
				f := fetchers[k]
				var open []int
				for i, s := range f.satisfied {
					if !s {
						open = append(open, i)
					}
				}
				if len(open) == 0 {
					t.Skip("nothing wanted")
				}
				i := open[rapid.IntRange(0, len(open)-1).Draw(t, "want")]
				fam := rapid.SampledFrom([]string{"honest", "honest", "bad", "garbage", "cross"}).Draw(t, "fam")
				deliver(k, i, fam)
			},
			"finish": func(t *rapid.T) {
				var live []int
				for k, f := range fetchers {
					if f.started && !f.finished && !f.gated {
						live = append(live, k)
					}
				}
				if len(live) == 0 {
					if quiet() {
						return
					}
					t.Skip("nobody to finish")
				}
				k := live[rapid.IntRange(0, len(live)-1).Draw(t, "fetcher")]
				f := fetchers[k]
				all := true
				for _, s := range f.satisfied {
					all = all && s
				}
				if vk.KnownOpen(orphanSig) {
					// excluded shape: never let a registrant return while a duplicate still waits
					for i := range owner {
						if owner[i] == k {
							for k2, f2 := range fetchers {
								if k2 != k && f2.started && !f2.finished && !f2.satisfied[i] {
									vk.Excluded(orphanSig)
									t.Skip("excluded: would orphan a duplicate")
								}
							}
						}
					}
				}
				if !all {
					labels["cancelled-fetch"] = true
				}
				finish(k, !all)
			},
		})
		for k, f := range fetchers {
			if f.gated {
				ungate(k)
			}
		}
		for k, f := range fetchers {
			if f.started && !f.finished {
				all := true
				for _, s := range f.satisfied {
					all = all && s
				}
				finish(k, !all)
			}
		}
		leaked := 0
		unmarshalFns.Range(func(_, _ any) bool { leaked++; return true })
		if leaked != 0 {
			t.Fatalf("C10 %d unmarshal entries leaked after all fetches returned (history %v)", leaked, history)
		}
		ls := []string{fmt.Sprintf("fetchers=%d", nfetch)}
		for l := range labels {
			ls = append(ls, l)
		}
		sortStrings(ls)
		vk.RecordHash(vk.Hash64(sq.Desc(), fmt.Sprint(descs), fmt.Sprint(history)), ls, labels["duplicate-fetcher"] || labels["bad-accepted-after-filled"],
			func() any {
				return map[string]any{"square": sq.Desc(), "requests": descs, "history": history}
			})
	})
}

// TestVerifC10_OrphanWitness is the fixed witness of the known finding: a duplicate fetcher is
// left behind when the original requester of the same identifier returns.
func TestVerifC10_OrphanWitness(t *testing.T) {
	defer vk.Flush()
	const orphanSig = "C10:duplicate-fetch-orphaned-after-original-returns"
	sq := vk.BuildSquare(2, 0, []vk.Run{{NS: vk.BlobNS(0), Start: 0, Len: 4}}, 7)
	srv := &Blockstore{Getter: squares{5: sq}}
	mk := func() (*SampleBlock, *ownedExchange) {
		b, err := NewEmptySampleBlock(5, shwap.SampleCoords{Row: 1, Col: 2}, 4)
		if err != nil {
			t.Fatal(err)
		}
		return b, &ownedExchange{calls: make(chan *ownedCall, 1)}
	}
	a, exA := mk()
	b, exB := mk()
	honest, err := serve(srv, a.CID())
	if err != nil {
		t.Fatal(err)
	}
	ctx, cancel := context.WithCancel(context.Background())
	defer cancel()
	doneA, doneB := make(chan error, 1), make(chan error, 1)
	go func() { doneA <- Fetch(ctx, exA, sq.Roots, []Block{a}) }()
	callA := <-exA.calls
	go func() { doneB <- Fetch(ctx, exB, sq.Roots, []Block{b}) }()
	callB := <-exB.calls
	if ok, _ := accepts(a.CID(), honest); !ok {
		t.Fatalf("C10 witness: honest block rejected for the original requester")
	}
	blk, _ := blocks.NewBlockWithCid(honest, a.CID())
	callA.out <- blk
	close(callA.out)
	if err := <-doneA; err != nil {
		t.Fatalf("C10 witness: original fetch failed: %v", err)
	}
	ok, _ := accepts(b.CID(), honest)
	if ok {
		callB.out <- blk
	}
	cancel()
	close(callB.out)
	<-doneB
	if !ok {
		vk.FindingPresent(orphanSig, "honest block for sample(1,2)@5 is rejected for a duplicate fetcher once the original requester of the same CID has returned (registry entry deleted); the duplicate can only time out")
	}
	vk.Record("orphan-witness", []string{"witness"}, false, nil)
}

func sortStrings(s []string) {
	for i := 1; i < len(s); i++ {
		for j := i; j > 0 && s[j] < s[j-1]; j-- {
			s[j], s[j-1] = s[j-1], s[j]
		}
	}
}

// cloneReq builds a second, independent request value for the same identifier.
func cloneReq(t *rapid.T, r c10Req, sq *vk.Square, height uint64) c10Req {
	nb, err := EmptyBlock(r.blk.CID())
	c10must(t, err)
	out := r
	out.blk = nb
	switch b := nb.(type) {
	case *SampleBlock:
		out.empty = func() bool { return b.Container.IsEmpty() }
		out.check = func() error {
			if !bytes.Equal(b.Container.ToBytes(), sq.RefShare(b.ID.RowIndex, b.ID.ShareIndex)) {
				return fmt.Errorf("sample differs from the committed share")
			}
			return nil
		}
	case *RowBlock:
		out.empty = func() bool { return b.Container.IsEmpty() }
		out.check = func() error {
			s, err := b.Container.Shares()
			if err != nil {
				return err
			}
			return vk.SharesBytesEqual(s, sq.Ref[b.ID.RowIndex])
		}
	case *RowNamespaceDataBlock:
		out.empty = func() bool { return b.Container.IsEmpty() }
		out.check = func() error {
			var want [][]byte
			for c := 0; c < sq.ODS; c++ {
				if bytes.Equal(sq.Ref[b.ID.RowIndex][c][:libshare.NamespaceSize], b.ID.DataNamespace.Bytes()) {
					want = append(want, sq.Ref[b.ID.RowIndex][c])
				}
			}
			return vk.SharesBytesEqual(b.Container.Shares, want)
		}
	case *RangeNamespaceDataBlock:
		out.empty = func() bool { return b.Container.IsEmpty() }
		out.check = func() error {
			want := make([][]byte, 0, b.ID.To-b.ID.From)
			for i := b.ID.From; i < b.ID.To; i++ {
				want = append(want, sq.Ref[i/sq.ODS][i%sq.ODS])
			}
			return vk.SharesBytesEqual(b.Container.Flatten(), want)
		}
	}
	_ = height
	return out
}

// ---------------------------------------------------------------------------------------------
// native fuzz target (thorough tier): arbitrary bytes offered for four pending requests of one
// fixed square; accepted => the request holds the committed data and the bytes carry its CID.

func FuzzVerifC10_HasherBytes(f *testing.F) {
	sq := vk.BuildSquare(2, 1, []vk.Run{{NS: vk.BlobNS(0), Start: 0, Len: 2}, {NS: vk.BlobNS(1), Start: 2, Len: 1}}, 99)
	const height = 77
	srv := &Blockstore{Getter: squares{height: sq}}
	mk := func() []c10Req {
		s, _ := NewEmptySampleBlock(height, shwap.SampleCoords{Row: 1, Col: 2}, 4)
		r, _ := NewEmptyRowBlock(height, 1, 4)
		n, _ := NewEmptyRowNamespaceDataBlock(height, 0, vk.BlobNS(0), 4)
		g, _ := NewEmptyRangeNamespaceDataBlock(height, 0, 2, 2)
		var out []c10Req
		for _, b := range []Block{s, r, n, g} {
			out = append(out, cloneReqFuzz(b, sq))
		}
		return out
	}
	for i, r := range mk() {
		h, err := serve(srv, r.blk.CID())
		if err != nil {
			f.Fatal(err)
		}
		f.Add(uint8(i), h)
		f.Add(uint8((i+1)%4), h) // the valid block of another pending request
		ic, cont := splitEnvelope(h)
		f.Add(uint8(i), envelope(ic, nil))
		f.Add(uint8(i), cont)
		f.Add(uint8(i), h[:len(h)/2])
	}
	f.Add(uint8(0), []byte{})
	f.Add(uint8(1), []byte{0x0a, 0xff, 0xff, 0xff, 0xff, 0x0f})
	f.Fuzz(func(t *testing.T, sel uint8, data []byte) {
		reqs := mk()
		for _, r := range reqs {
			c := r.blk.CID()
			unmarshalFns.Store(c, &unmarshalEntry{UnmarshalFn: r.blk.UnmarshalFn(sq.Roots)})
			defer unmarshalFns.Delete(c)
		}
		req := reqs[int(sel)%len(reqs)]
		want := req.blk.CID()
		ok, panicked := accepts(want, data)
		if panicked != nil {
			t.Fatalf("C10 hasher panicked on %d bytes for %s: %v", len(data), req.desc, panicked)
		}
		for _, r := range reqs {
			if !r.empty() {
				if err := r.check(); err != nil {
					t.Fatalf("C10 request %s holds data that is not the committed data after %d offered bytes: %v", r.desc, len(data), err)
				}
			}
		}
		if ok {
			if req.empty() {
				t.Fatalf("C10 bytes accepted for %s but the request was not populated", req.desc)
			}
			ic, _ := splitEnvelope(data)
			if c2, err := cid.Cast(ic); err != nil || !c2.Equals(want) {
				t.Fatalf("C10 bytes accepted for %s although their inner CID is not the requested one", req.desc)
			}
		}
	})
}

func cloneReqFuzz(b Block, sq *vk.Square) c10Req {
	r := c10Req{blk: b, desc: b.CID().String()}
	var t *rapid.T
	return cloneReqNoT(t, r, sq)
}

// cloneReqNoT is cloneReq without a rapid.T (only used where EmptyBlock cannot fail).
func cloneReqNoT(_ *rapid.T, r c10Req, sq *vk.Square) c10Req {
	nb, err := EmptyBlock(r.blk.CID())
	if err != nil {
		panic(err)
	}
	out := r
	out.blk = nb
	switch b := nb.(type) {
	case *SampleBlock:
		out.desc = fmt.Sprintf("sample(%d,%d)", b.ID.RowIndex, b.ID.ShareIndex)
		out.empty = func() bool { return b.Container.IsEmpty() }
		out.check = func() error {
			if !bytes.Equal(b.Container.ToBytes(), sq.RefShare(b.ID.RowIndex, b.ID.ShareIndex)) {
				return fmt.Errorf("sample differs from the committed share")
			}
			return nil
		}
	case *RowBlock:
		out.desc = fmt.Sprintf("row(%d)", b.ID.RowIndex)
		out.empty = func() bool { return b.Container.IsEmpty() }
		out.check = func() error {
			s, err := b.Container.Shares()
			if err != nil {
				return err
			}
			return vk.SharesBytesEqual(s, sq.Ref[b.ID.RowIndex])
		}
	case *RowNamespaceDataBlock:
		out.desc = fmt.Sprintf("rownd(%d)", b.ID.RowIndex)
		out.empty = func() bool { return b.Container.IsEmpty() }
		out.check = func() error {
			var want [][]byte
			for c := 0; c < sq.ODS; c++ {
				if bytes.Equal(sq.Ref[b.ID.RowIndex][c][:libshare.NamespaceSize], b.ID.DataNamespace.Bytes()) {
					want = append(want, sq.Ref[b.ID.RowIndex][c])
				}
			}
			return vk.SharesBytesEqual(b.Container.Shares, want)
		}
	case *RangeNamespaceDataBlock:
		out.desc = fmt.Sprintf("range[%d,%d)", b.ID.From, b.ID.To)
		out.empty = func() bool { return b.Container.IsEmpty() }
		out.check = func() error {
			want := make([][]byte, 0, b.ID.To-b.ID.From)
			for i := b.ID.From; i < b.ID.To; i++ {
				want = append(want, sq.Ref[i/sq.ODS][i%sq.ODS])
			}
			return vk.SharesBytesEqual(b.Container.Flatten(), want)
		}
	}
	return out
}
