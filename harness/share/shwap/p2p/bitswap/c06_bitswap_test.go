package bitswap

// C06 — getters hand back only verified data, even when peers misbehave (Bitswap getter).
// Harness file of /verif (injected by overlay; not part of celestia-node).
//
// The real Getter and Fetch run over c06kit.BSExchange, a fake exchange.SessionExchange that
// offers, per wanted CID, the scripted answers of 1-6 peers in order and applies Bitswap's
// acceptance rule to each (multihash of the wanted CID over the received bytes = the registered
// hasher = the real verification). The getter is wired to both block stores a node uses: the
// datastore-backed one (light node) and bitswap.Blockstore over the EDS store (bridge node), each
// wrapped in BlockstoreWithMetrics as nodebuilder/share does.

import (
	"context"
	"fmt"
	"os"
	"path/filepath"
	"testing"

	"github.com/ipfs/boxo/blockstore"
	"github.com/ipfs/go-cid"
	"github.com/ipfs/go-datastore"
	ds_sync "github.com/ipfs/go-datastore/sync"
	logging "github.com/ipfs/go-log/v2"
	"pgregory.net/rapid"

	vk "github.com/celestiaorg/celestia-node/internal/verifkit"
	kit "github.com/celestiaorg/celestia-node/internal/verifkit/c06kit"
	"github.com/celestiaorg/celestia-node/share"
	"github.com/celestiaorg/celestia-node/share/availability"
	"github.com/celestiaorg/celestia-node/share/shwap"
	"github.com/celestiaorg/celestia-node/store"
)

// c06Wants lists the CIDs the getter asks the exchange for.
func c06Wants(r kit.Req, sq *vk.Square, height uint64) ([]cid.Cid, error) {
	w := sq.Width()
	var out []cid.Cid
	switch r.Kind {
	case "samples":
		for _, c := range r.Coords {
			b, err := NewEmptySampleBlock(height, c, w)
			if err != nil {
				return nil, err
			}
			out = append(out, b.CID())
		}
	case "row":
		b, err := NewEmptyRowBlock(height, r.Row, w)
		if err != nil {
			return nil, err
		}
		out = append(out, b.CID())
	case "eds":
		for i := 0; i < sq.ODS; i++ {
			b, err := NewEmptyRowBlock(height, i, w)
			if err != nil {
				return nil, err
			}
			out = append(out, b.CID())
		}
	case "nd":
		rows, err := share.RowsWithNamespace(sq.Roots, r.NS)
		if err != nil {
			return nil, err
		}
		for _, i := range rows {
			b, err := NewEmptyRowNamespaceDataBlock(height, i, r.NS, w)
			if err != nil {
				return nil, err
			}
			out = append(out, b.CID())
		}
	default:
		b, err := NewEmptyRangeNamespaceDataBlock(height, r.From, r.To, sq.ODS)
		if err != nil {
			return nil, err
		}
		out = append(out, b.CID())
	}
	return out, nil
}

// c06Serve is the serving path of an honest node holding a square at the given height.
func c06Serve(height uint64) kit.ServeFn {
	return func(sq *vk.Square, c cid.Cid) ([]byte, error) {
		return serve(&Blockstore{Getter: kit.Squares{height: sq}}, c)
	}
}

// c06BlockStores builds the block stores of the two node types exactly as nodebuilder/share does
// (blockstoreFromDatastore / blockstoreFromEDSStore without and with accessor cache).
func c06BlockStores(t *testing.T) map[string]func() (blockstore.Blockstore, error) {
	dir, err := os.MkdirTemp("", "c06bs")
	if err != nil {
		t.Fatalf("VERIF-INFRA C06: %v", err)
	}
	t.Cleanup(func() { _ = os.RemoveAll(dir) })
	mkStore := func(name string) (*store.Store, error) {
		if err := os.MkdirAll(filepath.Join(dir, name), 0o755); err != nil {
			return nil, err
		}
		return store.NewStore(store.DefaultParameters(), filepath.Join(dir, name))
	}
	plain, err := mkStore("plain")
	if err != nil {
		t.Fatalf("VERIF-INFRA C06: %v", err)
	}
	cachedSt, err := mkStore("cached")
	if err != nil {
		t.Fatalf("VERIF-INFRA C06: %v", err)
	}
	withCache, err := cachedSt.WithCache("blockstore", 16)
	if err != nil {
		t.Fatalf("VERIF-INFRA C06: %v", err)
	}
	return map[string]func() (blockstore.Blockstore, error){
		"light-datastore": func() (blockstore.Blockstore, error) {
			return NewBlockstoreWithMetrics(blockstore.NewBlockstore(ds_sync.MutexWrap(datastore.NewMapDatastore())))
		},
		"bridge-eds": func() (blockstore.Blockstore, error) {
			return NewBlockstoreWithMetrics(&Blockstore{Getter: plain})
		},
		"bridge-eds-cached": func() (blockstore.Blockstore, error) {
			return NewBlockstoreWithMetrics(&Blockstore{Getter: withCache})
		},
	}
}

func TestVerifC06_Bitswap(t *testing.T) {
	defer vk.Flush()
	_ = logging.SetLogLevel("*", "fatal")
	stores := c06BlockStores(t)
	rapid.Check(t, func(t *rapid.T) { c06BitswapCase(t, stores, "") })
}

func c06BitswapCase(t *rapid.T, stores map[string]func() (blockstore.Blockstore, error), fixedStore string) {
	sq := vk.GenSquare(t, "sq", vk.SquareOpts{ODS: kit.ODSChoices()})
	sib := vk.GenSibling(t, "sib", sq)
	height := rapid.Uint64Range(1, 1<<40).Draw(t, "height")
	req := kit.GenReq(t, sq, "")
	storeKind := fixedStore
	if storeKind == "" {
		storeKind = rapid.SampledFrom([]string{"light-datastore", "light-datastore", "bridge-eds", "bridge-eds-cached"}).Draw(t, "blockstore")
	}
	flavour := context.DeadlineExceeded
	if rapid.Bool().Draw(t, "cancelled") {
		flavour = context.Canceled
	}
	archival := rapid.IntRange(0, 3).Draw(t, "archival") == 0

	wants, err := c06Wants(req, sq, height)
	if err != nil {
		t.Fatalf("VERIF-INFRA C06 harness: wants: %v", err)
	}
	srv := c06Serve(height)
	items, scripts, err := kit.PrepareBS(t, req, wants, sq, sib, height, srv, false)
	if err != nil {
		t.Fatalf("VERIF-INFRA C06 harness: preparing the peer script: %v", err)
	}
	bs, err := stores[storeKind]()
	if err != nil {
		t.Fatalf("VERIF-INFRA C06 harness: block store: %v", err)
	}
	ctl := kit.NewScriptCtx(rapid.Bool().Draw(t, "far-deadline"), flavour)
	defer ctl.End()
	ex := kit.NewBSExchange(ctl, items, func(c cid.Cid) ([]byte, error) { return srv(sq, c) })
	g := NewGetter(ex, bs, availability.RequestWindow)
	g.Start()
	defer g.Stop()

	res, hung := kit.Run(ctl, req, g, kit.MakeHeader(sq, height, archival), ctl.End)
	ctl.End()
	ex.Wait()
	hist := ex.History()
	what := fmt.Sprintf("request %s at height %d of square {%s}; block store %s; peer scripts per want %s; offered %v; ctx ends with %v",
		req.Desc(), height, sq.Desc(), storeKind, kit.ScriptsDesc(scripts), hist, flavour)
	if hung {
		t.Fatalf("VERIF-INFRA C06 bitswap: the call did not return within %v (%s)", kit.HangBound, what)
	}
	st := ex.Stats()
	if len(st.Panics) > 0 {
		t.Fatalf("C06 bitswap: verification of a received block panicked: %s\n  %s", st.Panics[0], what)
	}
	if err := req.CheckSafety(sq, res); err != nil {
		t.Fatalf("C06 bitswap getter (%s) returned unverified or incomplete data, or panicked: %v\n  %s", storeKind, err, what)
	}
	if st.AllOffered && res.Err != nil {
		t.Fatalf("C06 bitswap getter (%s) failed (%v) although the honest block of every want was offered before the context ended: expected success\n  %s",
			storeKind, res.Err, what)
	}
	leaked := 0
	unmarshalFns.Range(func(_, _ any) bool { leaked++; return true })
	if leaked != 0 {
		vk.Count("c06_registry_entries_left", int64(leaked))
		unmarshalFns.Range(func(k, _ any) bool { unmarshalFns.Delete(k); return true })
	}

	labels := append(req.Labels(sq), st.Labels...)
	labels = append(labels, "blockstore="+storeKind, "result="+req.ResultShape(res), fmt.Sprintf("archival=%v", archival))
	if st.AllOffered {
		labels = append(labels, "oracle=honest-must-succeed")
	}
	if len(wants) > 1 {
		labels = append(labels, "wants=many")
	}
	vk.Record(fmt.Sprintf("%s|%d|%s|%s|%s|%v%v", sq.Desc(), height, req.Desc(), storeKind, kit.ScriptsDesc(scripts), flavour, archival),
		labels, st.Misbehaved, func() any {
			return map[string]any{"square": sq.Desc(), "request": req.Desc(), "blockstore": storeKind,
				"scripts": kit.ScriptsDesc(scripts), "offered": hist, "error": fmt.Sprint(res.Err)}
		})
}

// TestVerifC06_BitswapWitness: the fixed witness of the defect this check found — on a bridge
// node (block store over the EDS store) GetSamples must not panic when a valid sample block
// arrives (the getter asks Fetch to store fetched blocks; that block store cannot store).
func TestVerifC06_BitswapWitness(t *testing.T) {
	defer vk.Flush()
	_ = logging.SetLogLevel("*", "fatal")
	stores := c06BlockStores(t)
	const height = 9
	sq := vk.BuildSquare(2, 0, []vk.Run{{NS: vk.BlobNS(0), Start: 0, Len: 4}}, 7)
	req := kit.Req{Kind: "samples", Coords: []shwap.SampleCoords{{Row: 1, Col: 2}}}
	for _, kind := range []string{"light-datastore", "bridge-eds", "bridge-eds-cached"} {
		bs, err := stores[kind]()
		if err != nil {
			t.Fatalf("VERIF-INFRA C06: %v", err)
		}
		srv := c06Serve(height)
		ctl := kit.NewScriptCtx(false, context.DeadlineExceeded)
		ex := kit.NewBSExchange(ctl, nil, func(c cid.Cid) ([]byte, error) { return srv(sq, c) }) // every want is answered honestly
		g := NewGetter(ex, bs, availability.RequestWindow)
		g.Start()
		res, hung := kit.Run(ctl, req, g, kit.MakeHeader(sq, height, false), ctl.End)
		ctl.End()
		ex.Wait()
		g.Stop()
		unmarshalFns.Range(func(k, _ any) bool { unmarshalFns.Delete(k); return true })
		msg := ""
		switch {
		case hung:
			t.Fatalf("VERIF-INFRA C06 bitswap witness: the call did not return")
		case res.Panic != "":
			msg = fmt.Sprintf("C06 bitswap witness: GetSamples[(1,2)] with block store %s panicked when the honest sample block arrived; expected the verified sample: %s", kind, res.Panic)
		case res.Err != nil:
			msg = fmt.Sprintf("C06 bitswap witness: GetSamples[(1,2)] with block store %s failed although the honest block was delivered: %v", kind, res.Err)
		default:
			if err := req.CheckSafety(sq, res); err != nil {
				msg = fmt.Sprintf("C06 bitswap witness (%s): %v", kind, err)
			}
		}
		if msg != "" {
			if dir := os.Getenv("VERIF_REPLAY_DIR"); dir != "" {
				_ = os.WriteFile(filepath.Join(dir, "witness-bitswap-"+kind+".txt"), []byte(msg+"\n"), 0o644)
			}
			t.Error(msg)
		}
	}
	vk.Record("bitswap-witness", []string{"witness"}, false, nil)
}
