package full

// C15 (availability path) — a bridge/full node that only knows the header fetches the square
// through its availability check and keeps exactly that block.
// Harness file of /verif (injected by overlay; not part of celestia-node).
//
// The real ShareAvailability.SharesAvailable runs over a real store.Store and a scripted getter.
// Reference: generated squares (vk.Square.Ref) and a model of which heights are stored.

import (
	"context"
	"errors"
	"fmt"
	"math/rand/v2"
	"os"
	"path/filepath"
	"strings"
	"testing"
	"time"

	"github.com/celestiaorg/celestia-app/v9/pkg/wrapper"
	libshare "github.com/celestiaorg/go-square/v4/share"
	"github.com/celestiaorg/rsmt2d"
	"pgregory.net/rapid"

	"github.com/celestiaorg/celestia-node/header"
	vk "github.com/celestiaorg/celestia-node/internal/verifkit"
	"github.com/celestiaorg/celestia-node/internal/verifkit/c15kit"
	"github.com/celestiaorg/celestia-node/share"
	"github.com/celestiaorg/celestia-node/share/availability"
	"github.com/celestiaorg/celestia-node/share/eds/byzantine"
	"github.com/celestiaorg/celestia-node/share/shwap"
	"github.com/celestiaorg/celestia-node/store"
)

type c15Blk struct {
	height uint64
	sq     *vk.Square
	inside bool
	eh     *header.ExtendedHeader
}

func c15TreeFn(ods int) rsmt2d.TreeConstructorFn { return wrapper.NewConstructor(uint64(ods)) }

var errC15Other = errors.New("c15: some other getter failure")

// c15Getter is the scripted network: GetEDS answers with the outcome armed for the call.
type c15Getter struct {
	outcome string
	blk     *c15Blk
	calls   int
}

func (g *c15Getter) GetEDS(ctx context.Context, h *header.ExtendedHeader) (*rsmt2d.ExtendedDataSquare, error) {
	g.calls++
	if err := ctx.Err(); err != nil {
		return nil, err
	}
	switch g.outcome {
	case "square":
		// a fresh copy of the square committed to by the header (what a verifying getter returns)
		flat := make([][]byte, 0, len(g.blk.sq.Ref)*len(g.blk.sq.Ref))
		for _, row := range g.blk.sq.Ref {
			for _, c := range row {
				flat = append(flat, append([]byte(nil), c...))
			}
		}
		return rsmt2d.ImportExtendedDataSquare(flat, share.DefaultRSMT2DCodec(), c15TreeFn(g.blk.sq.ODS))
	case "notfound":
		return nil, fmt.Errorf("getter: %w", shwap.ErrNotFound)
	case "deadline":
		return nil, fmt.Errorf("getter: %w", context.DeadlineExceeded)
	case "cancelled":
		return nil, fmt.Errorf("getter: %w", context.Canceled)
	case "byzantine":
		return nil, fmt.Errorf("getter: %w", &byzantine.ErrByzantine{Index: 1, Axis: rsmt2d.Row})
	case "byzantine+deadline":
		return nil, errors.Join(context.DeadlineExceeded, &byzantine.ErrByzantine{Index: 0, Axis: rsmt2d.Col})
	default:
		return nil, errC15Other
	}
}

func (g *c15Getter) GetSamples(context.Context, *header.ExtendedHeader, []shwap.SampleCoords) ([]shwap.Sample, error) {
	return nil, errors.New("c15: unexpected GetSamples")
}

func (g *c15Getter) GetRow(context.Context, *header.ExtendedHeader, int) (shwap.Row, error) {
	return shwap.Row{}, errors.New("c15: unexpected GetRow")
}

func (g *c15Getter) GetNamespaceData(context.Context, *header.ExtendedHeader, libshare.Namespace) (shwap.NamespaceData, error) {
	return nil, errors.New("c15: unexpected GetNamespaceData")
}

func (g *c15Getter) GetRangeNamespaceData(context.Context, *header.ExtendedHeader, int, int) (shwap.RangeNamespaceData, error) {
	return shwap.RangeNamespaceData{}, errors.New("c15: unexpected GetRangeNamespaceData")
}

var c15Outcomes = []string{"square", "square", "square", "square", "notfound", "deadline", "cancelled", "byzantine", "byzantine+deadline", "other"}

var c15StoreFaults = []string{"none", "none", "none", "none", "none", "none", "open0", "open1", "open2", "link"}

func TestVerifC15_Availability(t *testing.T) {
	defer vk.Flush()
	c15AvailProbe(t)
	odsSizes := []int{1, 2, 4, 8}
	if vk.Thorough() {
		odsSizes = []int{1, 2, 4, 8, 16, 32}
	}
	rapid.Check(t, func(t *rapid.T) { c15AvailCase(t, odsSizes) })
}

func c15AvailProbe(t *testing.T) {
	dir, err := os.MkdirTemp("", "c15probe")
	if err != nil {
		t.Fatalf("VERIF-INFRA: %v", err)
	}
	defer os.RemoveAll(dir)
	_ = time.Now().Local().String()
	st, err := store.NewStore(store.DefaultParameters(), dir)
	if err != nil {
		t.Fatalf("VERIF-INFRA: NewStore: %v", err)
	}
	sq := vk.BuildSquare(2, 0, []vk.Run{{NS: vk.BlobNS(0), Start: 0, Len: 4}}, 1)
	if err := st.PutODSQ4(context.Background(), sq.Roots, 1, sq.EDS); err != nil {
		t.Fatalf("VERIF-INFRA: warm-up put: %v", err)
	}
	log.Debugw("c15 warm-up")
	_ = st.Stop(context.Background())
	if err := c15kit.ProbeOpenBudget(dir); err != nil {
		t.Fatalf("VERIF-INFRA: the descriptor-budget fault injection does not work here: %v", err)
	}
}

func c15AvailCase(t *rapid.T, odsSizes []int) {
	ctx := context.Background()
	archival := rapid.Bool().Draw(t, "archival")
	window := rapid.SampledFrom([]time.Duration{time.Hour, availability.StorageWindow}).Draw(t, "window")
	nblk := rapid.IntRange(1, 3).Draw(t, "blocks")
	coordSeed := rapid.Uint64().Draw(t, "coordseed")
	crng := rand.New(rand.NewPCG(coordSeed, 0xC0085))
	pick := func(_ string, lo, hi int) int { return lo + int(crng.Uint64()%uint64(hi-lo+1)) }

	base, err := os.MkdirTemp("", "c15avail")
	if err != nil {
		t.Fatalf("VERIF-INFRA: %v", err)
	}
	defer os.RemoveAll(base)
	st, err := store.NewStore(store.DefaultParameters(), base)
	if err != nil {
		t.Fatalf("VERIF-INFRA: NewStore: %v", err)
	}
	heightsDir := filepath.Join(base, "blocks", "heights")
	if fi, err := os.Stat(heightsDir); err != nil || !fi.IsDir() {
		t.Fatalf("VERIF-INFRA: the store's height index is not at %s", heightsDir)
	}

	const margin = 10 * time.Minute
	now := time.Now().UTC()
	var blocks []*c15Blk
	seen := map[string]bool{}
	var desc strings.Builder
	fmt.Fprintf(&desc, "archival=%v window=%s |", archival, window)
	for i := 0; i < nblk; i++ {
		b := &c15Blk{
			height: uint64(rapid.SampledFrom([]int{1, 7, 5000}).Draw(t, "h0") + 10*i),
			sq:     vk.GenSquare(t, fmt.Sprintf("sq%d", i), vk.SquareOpts{ODS: odsSizes, AllowEmpty: true, MaxRuns: 4}),
			inside: rapid.Bool().Draw(t, "inside"),
		}
		if rapid.IntRange(0, 4).Draw(t, "forceEmpty") == 0 {
			b.sq = vk.EmptySquare()
		}
		key := string(b.sq.Roots.Hash())
		if seen[key] && !b.sq.Empty {
			continue // two heights of a chain never share a non-empty data root
		}
		seen[key] = true
		age := time.Duration(rapid.Int64Range(0, int64(window-margin)).Draw(t, "age"))
		if !b.inside {
			age = window + margin + time.Duration(rapid.Int64Range(0, int64(2*window)).Draw(t, "age"))
		} else if rapid.IntRange(0, 7).Draw(t, "aheadOfClock") == 0 {
			// stamped ahead of this node's clock (clock skew): as fresh as a block can be
			age = -time.Duration(rapid.IntRange(1, 90).Draw(t, "aheadBySec")) * time.Second
		}
		b.eh = &header.ExtendedHeader{
			RawHeader: header.RawHeader{Height: int64(b.height), Time: now.Add(-age), DataHash: b.sq.Roots.Hash()},
			DAH:       b.sq.Roots,
		}
		blocks = append(blocks, b)
		fmt.Fprintf(&desc, " [h=%d inside=%v %s]", b.height, b.inside, b.sq.Desc())
	}

	// Occasionally two heights carry the same non-empty square (the store keeps one file per data
	// hash and a link per height, so it supports that): the second height must be stored under its
	// own height too. Such cases run without injected store faults and with both heights on the same
	// side of the window, because the parity file is kept per data hash.
	shared := rapid.IntRange(0, 5).Draw(t, "sharedRoot") == 0
	if shared {
		for _, o := range blocks {
			if o.sq.Empty {
				continue
			}
			twin := &c15Blk{height: o.height + 3, sq: o.sq, inside: o.inside}
			twin.eh = &header.ExtendedHeader{
				RawHeader: header.RawHeader{Height: int64(twin.height), Time: o.eh.Time(), DataHash: o.sq.Roots.Hash()},
				DAH:       o.sq.Roots,
			}
			blocks = append(blocks, twin)
			fmt.Fprintf(&desc, " [h=%d twin of h=%d]", twin.height, o.height)
			break
		}
	}
	twinStored := func(b *c15Blk, stored map[uint64]bool) bool {
		for _, o := range blocks {
			if o != b && !o.sq.Empty && string(o.sq.Roots.Hash()) == string(b.sq.Roots.Hash()) && stored[o.height] {
				return true
			}
		}
		return false
	}

	getter := &c15Getter{}
	var opts []Option
	if archival {
		opts = append(opts, WithArchivalMode())
	}
	fa := NewShareAvailability(st, getter, opts...)
	if window != availability.StorageWindow {
		// the default window is left as the constructor sets it (a node never overrides it afterwards)
		fa.storageWindow = window
	}

	stored := map[uint64]bool{}    // model: height present
	storedQ4 := map[uint64]bool{}  // model: stored together with the parity quadrant
	everFailed := map[uint64]bool{}
	labels := map[string]bool{}
	nontrivial := false

	ncalls := rapid.IntRange(1, 8).Draw(t, "calls")
	for step := 0; step < ncalls; step++ {
		b := blocks[rapid.IntRange(0, len(blocks)-1).Draw(t, "blk")]
		outcome := rapid.SampledFrom(c15Outcomes).Draw(t, "outcome")
		fault := rapid.SampledFrom(c15StoreFaults).Draw(t, "storefault")
		if shared {
			fault = "none"
		}
		prestore := !stored[b.height] && rapid.IntRange(0, 5).Draw(t, "prestore") == 0
		ctxCancelled := rapid.IntRange(0, 9).Draw(t, "ctxCancelled") == 0
		if prestore {
			// the block arrived earlier by another path (consensus ingest / earlier sync): the way a
			// node of this mode keeps it
			switch {
			case b.inside:
				err = st.PutODSQ4(ctx, b.sq.Roots, b.height, b.sq.EDS)
				storedQ4[b.height] = true
			case archival:
				err = st.PutODS(ctx, b.sq.Roots, b.height, b.sq.EDS)
			default:
				prestore = false
			}
			if err != nil {
				t.Fatalf("VERIF-INFRA: pre-storing height %d: %v", b.height, err)
			}
			if prestore {
				stored[b.height] = true
			}
		}
		if fault == "link" && stored[b.height] {
			fault = "none" // hiding the height index from the already-stored shortcut is an artefact
		}
		wasStored := stored[b.height]
		getter.outcome, getter.blk, getter.calls = outcome, b, 0
		callCtx := ctx
		if ctxCancelled {
			c, cancel := context.WithCancel(ctx)
			cancel()
			callCtx = c
		}
		var cerr error
		var panicked any
		run := func() {
			defer func() { panicked = recover() }()
			cerr = fa.SharesAvailable(callCtx, b.eh)
		}
		var ferr error
		switch fault {
		case "open0":
			ferr = c15kit.WithOpenBudget(0, run)
		case "open1":
			ferr = c15kit.WithOpenBudget(1, run)
		case "open2":
			ferr = c15kit.WithOpenBudget(2, run)
		case "link":
			ferr = c15kit.WithoutDir(heightsDir, run)
		default:
			run()
		}
		if ferr != nil {
			t.Fatalf("VERIF-INFRA: fault injection %s: %v", fault, ferr)
		}
		where := fmt.Sprintf("call %d: SharesAvailable(height %d, inside window=%v, empty=%v, %s) archival=%v getter=%s store fault=%s ctx cancelled=%v already stored=%v",
			step, b.height, b.inside, b.sq.Empty, b.sq.Desc(), archival, outcome, fault, ctxCancelled, wasStored)
		fmt.Fprintf(&desc, " %d:h%d:%s:%s:%v:%v", step, b.height, outcome, fault, ctxCancelled, prestore)
		if panicked != nil {
			t.Fatalf("C15 %s: SharesAvailable panicked: %v", where, panicked)
		}
		has, herr := st.HasByHeight(ctx, b.height)
		if herr != nil {
			t.Fatalf("C15 %s: HasByHeight after the call: %v", where, herr)
		}
		consulted := getter.calls > 0
		if consulted {
			labels["getter="+outcome] = true
			nontrivial = true // the network was asked for a block the node did not have
		}

		switch {
		case !archival && !b.inside:
			// pruned node, header outside the window: refused, nothing new kept
			labels["outside:pruned-refused"] = true
			if !errors.Is(cerr, availability.ErrOutsideSamplingWindow) {
				t.Fatalf("C15 %s: a pruned node must refuse a header outside its window with ErrOutsideSamplingWindow, returned %v", where, cerr)
			}
			if has != wasStored {
				t.Fatalf("C15 %s: a pruned node changed the store for a header outside its window (present before=%v, after=%v)", where, wasStored, has)
			}

		case cerr != nil:
			// failed: reported, and nothing newly stored
			everFailed[b.height] = true
			if has != wasStored {
				t.Fatalf("C15 %s: the check failed (%v) but the height's presence changed from %v to %v", where, cerr, wasStored, has)
			}
			if !wasStored && !b.sq.Empty && !twinStored(b, stored) {
				if hb, err := st.HasByHash(ctx, b.sq.Roots.Hash()); err != nil || hb {
					t.Fatalf("C15 %s: the check failed (%v) but the store holds the block by hash (%v, %v)", where, cerr, hb, err)
				}
				if hq, err := st.HasQ4ByHash(ctx, b.sq.Roots.Hash()); err != nil || hq {
					t.Fatalf("C15 %s: the check failed (%v) but the store holds the block's parity quadrant (%v, %v)", where, cerr, hq, err)
				}
			}
			if consulted && !ctxCancelled {
				// documented mapping of getter failures
				switch outcome {
				case "notfound", "deadline":
					if !errors.Is(cerr, share.ErrNotAvailable) {
						t.Fatalf("C15 %s: a block the network does not serve must be reported as ErrNotAvailable, returned %v", where, cerr)
					}
				case "cancelled":
					if !errors.Is(cerr, context.Canceled) {
						t.Fatalf("C15 %s: a cancelled fetch must be reported as context.Canceled, returned %v", where, cerr)
					}
				case "byzantine", "byzantine+deadline":
					var be *byzantine.ErrByzantine
					if !errors.As(cerr, &be) || errors.Is(cerr, share.ErrNotAvailable) {
						t.Fatalf("C15 %s: a byzantine square must be reported as such, returned %v", where, cerr)
					}
				}
			}
			if consulted && outcome == "square" && !ctxCancelled && !strings.HasPrefix(fault, "open") && fault != "link" {
				t.Fatalf("C15 %s: the square was obtained and no store fault was injected, but the check failed: %v", where, cerr)
			}
			if !consulted && !ctxCancelled && fault == "none" {
				t.Fatalf("C15 %s: nothing had to be fetched and no fault was injected, but the check failed: %v", where, cerr)
			}
			if strings.HasPrefix(fault, "open") || fault == "link" {
				if !consulted || outcome == "square" {
					labels["storefault:failed"] = true
				}
			}
			labels["failed"] = true

		default:
			// nil: the block is kept under the header's data availability header
			if consulted && outcome != "square" {
				t.Fatalf("C15 %s: the getter failed but SharesAvailable reported the block available", where)
			}
			if !has {
				t.Fatalf("C15 %s: SharesAvailable returned nil but the height is not in the store", where)
			}
			acc, err := st.GetByHeight(ctx, b.height)
			if err != nil {
				t.Fatalf("C15 %s: GetByHeight after nil: %v", where, err)
			}
			err = c15kit.ReadCheck(ctx, acc, b.sq.Ref, b.eh.DAH, c15kit.QuadrantCoords(b.sq.Width(), pick))
			acc.Close()
			if err != nil {
				t.Fatalf("C15 %s: the stored block is not the block of the given header: %v", where, err)
			}
			if !wasStored {
				storedQ4[b.height] = b.inside
				if everFailed[b.height] {
					labels["stored-after-failure"] = true
					nontrivial = true
				}
			}
			if !b.sq.Empty {
				hq, err := st.HasQ4ByHash(ctx, b.sq.Roots.Hash())
				if err != nil || hq != storedQ4[b.height] {
					t.Fatalf("C15 %s: parity quadrant present = %v, %v; expected %v (inside window = %v)", where, hq, err, storedQ4[b.height], b.inside)
				}
			}
			stored[b.height] = true
			if shared && twinStored(b, stored) {
				labels["two-heights-one-root-stored"] = true
			}
			switch {
			case b.sq.Empty:
				labels["empty-linked"] = true
			case wasStored:
				labels["already-stored"] = true
			case b.inside:
				labels["stored:inside"] = true
			default:
				labels["stored:archival-outside"] = true
			}
			if !b.sq.Empty && !wasStored {
				nontrivial = true
			}
		}
	}

	// disk state through a freshly opened store
	_ = st.Stop(ctx)
	st2, err := store.NewStore(store.DefaultParameters(), base)
	if err != nil {
		t.Fatalf("C15: the store does not open again: %v", err)
	}
	for _, b := range blocks {
		has, err := st2.HasByHeight(ctx, b.height)
		if err != nil || has != stored[b.height] {
			t.Fatalf("C15 end (reopened store): HasByHeight(%d) = %v, %v; stored per the call outcomes: %v", b.height, has, err, stored[b.height])
		}
		if !has {
			continue
		}
		acc, err := st2.GetByHeight(ctx, b.height)
		if err != nil {
			t.Fatalf("C15 end (reopened store): GetByHeight(%d): %v", b.height, err)
		}
		err = c15kit.ReadCheck(ctx, acc, b.sq.Ref, b.eh.DAH, c15kit.QuadrantCoords(b.sq.Width(), pick))
		acc.Close()
		if err != nil {
			t.Fatalf("C15 end (reopened store): height %d on disk is not the block of its header: %v", b.height, err)
		}
	}
	_ = st2.Stop(ctx)

	lab := []string{fmt.Sprintf("avail:archival=%v", archival)}
	for _, k := range []string{
		"getter=square", "getter=notfound", "getter=deadline", "getter=cancelled", "getter=byzantine", "getter=byzantine+deadline",
		"getter=other", "outside:pruned-refused", "storefault:failed", "failed", "stored-after-failure", "empty-linked",
		"already-stored", "stored:inside", "stored:archival-outside", "two-heights-one-root-stored",
	} {
		if labels[k] {
			lab = append(lab, "avail:"+k)
		}
	}
	d := desc.String()
	vk.Record(d, lab, nontrivial, func() any { return d })
}
