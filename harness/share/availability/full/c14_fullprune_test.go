package full

// C14 (archival / pruned part) — what full.ShareAvailability.Prune does to a real store.Store.
// Harness file of /verif (injected by overlay; not part of celestia-node).
//
//   archival mode: Prune removes exactly blocks/<hash>.q4 of the pruned heights, nothing else,
//                  and every block stays fully readable (all four quadrants, ODS shares, roots);
//   pruned mode:   Prune removes blocks/<hash>.ods, blocks/<hash>.q4 and heights/<h>.ods of the
//                  pruned heights (for the empty block only the height link), nothing else, and
//                  the untouched heights stay fully readable;
//   conversion:    ConvertFromArchivalToPruned reports "convert" at most once over any sequence
//                  of node starts and never lets a node that ran pruned start archival again.
//
// The reference is the generated square (vk.Square.Ref) and a directory listing taken before the
// call; the store is never asked what it thinks it removed.

import (
	"bytes"
	"context"
	"errors"
	"fmt"
	"io"
	"os"
	"path/filepath"
	"sort"
	"strings"
	"testing"

	"github.com/ipfs/go-datastore"
	"github.com/ipfs/go-datastore/namespace"
	dssync "github.com/ipfs/go-datastore/sync"
	"pgregory.net/rapid"

	"github.com/celestiaorg/rsmt2d"

	"github.com/celestiaorg/celestia-node/header"
	vk "github.com/celestiaorg/celestia-node/internal/verifkit"
	"github.com/celestiaorg/celestia-node/share/shwap"
	"github.com/celestiaorg/celestia-node/store"
)

type c14Block struct {
	height uint64
	sq     *vk.Square
	withQ4 bool // stored with PutODSQ4 (inside the window) or PutODS (archival, outside)
	pruned bool
}

func (b *c14Block) header() *header.ExtendedHeader {
	return &header.ExtendedHeader{
		RawHeader: header.RawHeader{Height: int64(b.height), DataHash: b.sq.Roots.Hash()},
		DAH:       b.sq.Roots,
	}
}

// c14Listing maps every regular file below the store's base path to its size.
func c14Listing(base string) (map[string]int64, error) {
	out := map[string]int64{}
	err := filepath.Walk(base, func(p string, info os.FileInfo, err error) error {
		if err != nil {
			return err
		}
		if info.IsDir() {
			return nil
		}
		rel, _ := filepath.Rel(base, p)
		out[rel] = info.Size()
		return nil
	})
	return out, err
}

func c14Diff(before, after map[string]int64) (removed, added, resized []string) {
	for f, sz := range before {
		sz2, ok := after[f]
		switch {
		case !ok:
			removed = append(removed, f)
		case sz != sz2:
			resized = append(resized, f)
		}
	}
	for f := range after {
		if _, ok := before[f]; !ok {
			added = append(added, f)
		}
	}
	sort.Strings(removed)
	sort.Strings(added)
	sort.Strings(resized)
	return
}

// c14ReadCheck reads the block at height through the store and compares with the reference.
func c14ReadCheck(ctx context.Context, st *store.Store, b *c14Block, coords []shwap.SampleCoords) error {
	has, err := st.HasByHeight(ctx, b.height)
	if err != nil || !has {
		return fmt.Errorf("HasByHeight(%d) = %v, %v; expected true", b.height, has, err)
	}
	acc, err := st.GetByHeight(ctx, b.height)
	if err != nil {
		return fmt.Errorf("GetByHeight(%d): %v", b.height, err)
	}
	defer acc.Close()
	w := b.sq.Width()
	if size, err := acc.Size(ctx); err != nil || size != w {
		return fmt.Errorf("Size = %d, %v; expected %d", size, err, w)
	}
	if dh, err := acc.DataHash(ctx); err != nil || !bytes.Equal(dh, b.sq.Roots.Hash()) {
		return fmt.Errorf("DataHash = %X, %v; expected %X", dh, err, b.sq.Roots.Hash())
	}
	roots, err := acc.AxisRoots(ctx)
	if err != nil || !roots.Equals(b.sq.Roots) {
		return fmt.Errorf("AxisRoots differ from the square's roots (err %v)", err)
	}
	for _, c := range coords {
		smp, err := acc.Sample(ctx, c)
		if err != nil {
			return fmt.Errorf("Sample(%d,%d): %v", c.Row, c.Col, err)
		}
		if !bytes.Equal(smp.Share.ToBytes(), b.sq.Ref[c.Row][c.Col]) {
			return fmt.Errorf("Sample(%d,%d) returned a share that is not the square's share at that position", c.Row, c.Col)
		}
		if err := smp.Verify(b.sq.Roots, c.Row, c.Col); err != nil {
			return fmt.Errorf("Sample(%d,%d) does not verify against the roots: %v", c.Row, c.Col, err)
		}
	}
	shares, err := acc.Shares(ctx)
	if err != nil {
		return fmt.Errorf("Shares: %v", err)
	}
	ods := b.sq.ODS
	if len(shares) != ods*ods {
		return fmt.Errorf("Shares returned %d shares, expected %d", len(shares), ods*ods)
	}
	for i, s := range shares {
		if !bytes.Equal(s.ToBytes(), b.sq.Ref[i/ods][i%ods]) {
			return fmt.Errorf("Shares()[%d] differs from the square", i)
		}
	}
	// one row and one column of the parity half, through AxisHalf + extension
	for _, ax := range []rsmt2d.Axis{rsmt2d.Row, rsmt2d.Col} {
		idx := w - 1
		half, err := acc.AxisHalf(ctx, ax, idx)
		if err != nil {
			return fmt.Errorf("AxisHalf(%v,%d): %v", ax, idx, err)
		}
		ext, err := half.Extended()
		if err != nil || len(ext) != w {
			return fmt.Errorf("AxisHalf(%v,%d) does not extend to a full axis: %d shares, %v", ax, idx, len(ext), err)
		}
		for j, s := range ext {
			want := b.sq.Ref[idx][j]
			if ax == rsmt2d.Col {
				want = b.sq.Ref[j][idx]
			}
			if !bytes.Equal(s.ToBytes(), want) {
				return fmt.Errorf("AxisHalf(%v,%d) extended share %d differs from the square", ax, idx, j)
			}
		}
	}
	// the ODS stream
	rd, err := acc.Reader()
	if err != nil {
		return fmt.Errorf("Reader: %v", err)
	}
	stream, err := io.ReadAll(rd)
	if err != nil {
		return fmt.Errorf("reading the ODS stream: %v", err)
	}
	var want []byte
	for i := 0; i < ods*ods; i++ {
		want = append(want, b.sq.Ref[i/ods][i%ods]...)
	}
	if !bytes.Equal(stream, want) {
		return fmt.Errorf("ODS stream (%d bytes) differs from the square's ODS (%d bytes)", len(stream), len(want))
	}
	return nil
}

func c14Coords(t *rapid.T, w int) []shwap.SampleCoords {
	h := w / 2
	// every quadrant, plus the far corner
	out := []shwap.SampleCoords{
		{Row: rapid.IntRange(0, h-1).Draw(t, "q1r"), Col: rapid.IntRange(0, h-1).Draw(t, "q1c")},
		{Row: rapid.IntRange(0, h-1).Draw(t, "q2r"), Col: rapid.IntRange(h, w-1).Draw(t, "q2c")},
		{Row: rapid.IntRange(h, w-1).Draw(t, "q3r"), Col: rapid.IntRange(0, h-1).Draw(t, "q3c")},
		{Row: rapid.IntRange(h, w-1).Draw(t, "q4r"), Col: rapid.IntRange(h, w-1).Draw(t, "q4c")},
		{Row: w - 1, Col: w - 1},
	}
	return out
}

func TestVerifC14_FullPrune(t *testing.T) {
	defer vk.Flush()
	ctx := context.Background()
	odsSizes := []int{1, 2, 4, 8}
	if vk.Thorough() {
		odsSizes = []int{1, 2, 4, 8, 16, 32}
	}
	rapid.Check(t, func(t *rapid.T) {
		archivalMode := rapid.Bool().Draw(t, "archival")
		cache := rapid.SampledFrom([]int{0, 2, 10}).Draw(t, "cache")
		reopen := rapid.Bool().Draw(t, "reopen")
		base, err := os.MkdirTemp("", "c14full")
		if err != nil {
			t.Fatalf("VERIF-INFRA: %v", err)
		}
		defer os.RemoveAll(base)
		st, err := store.NewStore(&store.Parameters{RecentBlocksCacheSize: cache}, base)
		if err != nil {
			t.Fatalf("VERIF-INFRA: NewStore: %v", err)
		}

		n := rapid.IntRange(1, 4).Draw(t, "blocks")
		var blocks []*c14Block
		seen := map[string]bool{}
		desc := fmt.Sprintf("archival=%v cache=%d reopen=%v", archivalMode, cache, reopen)
		for i := 0; i < n; i++ {
			b := &c14Block{
				height: uint64(10 + 3*i),
				sq:     vk.GenSquare(t, fmt.Sprintf("sq%d", i), vk.SquareOpts{ODS: odsSizes, AllowEmpty: true, MaxRuns: 4}),
				withQ4: !archivalMode || rapid.IntRange(0, 3).Draw(t, "withQ4") != 0,
				pruned: rapid.IntRange(0, 2).Draw(t, "prune") != 0,
			}
			key := string(b.sq.Roots.Hash())
			if seen[key] && !b.sq.Empty {
				// two heights with the same non-empty data root cannot occur on a chain (every
				// block carries signed, sequenced transactions); only the empty block repeats
				continue
			}
			seen[key] = true
			if b.withQ4 {
				err = st.PutODSQ4(ctx, b.sq.Roots, b.height, b.sq.EDS)
			} else {
				err = st.PutODS(ctx, b.sq.Roots, b.height, b.sq.EDS)
			}
			if err != nil {
				t.Fatalf("VERIF-INFRA: put height %d: %v", b.height, err)
			}
			blocks = append(blocks, b)
			desc += fmt.Sprintf(" | h=%d q4=%v prune=%v %s", b.height, b.withQ4, b.pruned, b.sq.Desc())
		}
		coords := map[uint64][]shwap.SampleCoords{}
		for _, b := range blocks {
			coords[b.height] = c14Coords(t, b.sq.Width())
			if err := c14ReadCheck(ctx, st, b, coords[b.height]); err != nil {
				t.Fatalf("VERIF-INFRA: block %d is not readable before any pruning: %v", b.height, err)
			}
		}

		fa := NewShareAvailability(st, nil)
		if archivalMode {
			fa = NewShareAvailability(st, nil, WithArchivalMode())
		}
		before, err := c14Listing(base)
		if err != nil {
			t.Fatalf("VERIF-INFRA: %v", err)
		}
		expectRemoved := map[string]bool{}
		nontrivial := false
		twice := rapid.Bool().Draw(t, "pruneTwice")
		for _, b := range blocks {
			if !b.pruned {
				continue
			}
			if err := fa.Prune(ctx, b.header()); err != nil {
				t.Fatalf("C14-A: Prune(height %d, archival=%v) on an intact store failed: %v", b.height, archivalMode, err)
			}
			if twice {
				if err := fa.Prune(ctx, b.header()); err != nil {
					vk.Count("c14_second_prune_errors", 1)
				}
			}
			hash := strings.ToUpper(fmt.Sprintf("%x", b.sq.Roots.Hash()))
			switch {
			case archivalMode && !b.sq.Empty && b.withQ4:
				expectRemoved[filepath.Join("blocks", hash+".q4")] = true
				nontrivial = true
			case archivalMode:
			case b.sq.Empty:
				expectRemoved[filepath.Join("blocks", "heights", fmt.Sprintf("%d.ods", b.height))] = true
			default:
				expectRemoved[filepath.Join("blocks", hash+".ods")] = true
				expectRemoved[filepath.Join("blocks", hash+".q4")] = true
				expectRemoved[filepath.Join("blocks", "heights", fmt.Sprintf("%d.ods", b.height))] = true
				nontrivial = true
			}
		}
		if reopen {
			if err := st.Stop(ctx); err != nil {
				t.Fatalf("VERIF-INFRA: Stop: %v", err)
			}
			st, err = store.NewStore(&store.Parameters{RecentBlocksCacheSize: cache}, base)
			if err != nil {
				t.Fatalf("C14-A: the store does not open again after pruning: %v", err)
			}
		}
		after, err := c14Listing(base)
		if err != nil {
			t.Fatalf("VERIF-INFRA: %v", err)
		}
		removed, added, resized := c14Diff(before, after)
		for _, f := range removed {
			if !expectRemoved[f] {
				t.Fatalf("C14-A: pruning (archival=%v) removed %s, which it must keep; expected removals %v, observed %v",
					archivalMode, f, c14SortedKeys(expectRemoved), removed)
			}
		}
		if len(removed) != len(expectRemoved) {
			t.Fatalf("C14-A: pruning (archival=%v) must remove exactly %v, it removed only %v", archivalMode, c14SortedKeys(expectRemoved), removed)
		}
		if len(added)+len(resized) != 0 {
			t.Fatalf("C14-A: pruning (archival=%v) created %v and changed the size of %v", archivalMode, added, resized)
		}

		for _, b := range blocks {
			gone := b.pruned && !archivalMode
			if !gone {
				// archival prune, or a height that was not pruned at all: fully servable
				if err := c14ReadCheck(ctx, st, b, coords[b.height]); err != nil {
					t.Fatalf("C14-A: after pruning (archival=%v, this height pruned=%v, stored with q4=%v) block %d (%s) is no longer fully readable: %v",
						archivalMode, b.pruned, b.withQ4, b.height, b.sq.Desc(), err)
				}
				if !b.sq.Empty {
					hasQ4, err := st.HasQ4ByHash(ctx, b.sq.Roots.Hash())
					wantQ4 := b.withQ4 && !b.pruned
					if err != nil || hasQ4 != wantQ4 {
						t.Fatalf("C14-A: HasQ4ByHash(height %d) = %v, %v; expected %v", b.height, hasQ4, err, wantQ4)
					}
				}
				continue
			}
			if has, err := st.HasByHeight(ctx, b.height); err != nil || has {
				t.Fatalf("C14-A: pruned height %d is still reported by HasByHeight (%v, %v)", b.height, has, err)
			}
			if acc, err := st.GetByHeight(ctx, b.height); !errors.Is(err, store.ErrNotFound) {
				if acc != nil {
					acc.Close()
				}
				t.Fatalf("C14-A: GetByHeight(%d) after a pruned-mode Prune returned %v, expected ErrNotFound", b.height, err)
			}
			if !b.sq.Empty {
				if has, err := st.HasByHash(ctx, b.sq.Roots.Hash()); err != nil || has {
					t.Fatalf("C14-A: pruned block %d is still reported by HasByHash (%v, %v)", b.height, has, err)
				}
			}
		}
		_ = st.Stop(ctx)

		labels := []string{fmt.Sprintf("mode=archival:%v", archivalMode), fmt.Sprintf("cache=%d", cache), fmt.Sprintf("reopen=%v", reopen)}
		for _, b := range blocks {
			if b.pruned {
				labels = append(labels, fmt.Sprintf("pruned-ods=%d", b.sq.ODS))
				if b.sq.Empty {
					labels = append(labels, "pruned-empty-block")
				}
				if archivalMode && !b.withQ4 {
					labels = append(labels, "archival-prune-without-q4")
				}
			}
		}
		vk.Record(desc, labels, nontrivial, func() any { return desc })
	})
}

func c14SortedKeys(m map[string]bool) []string {
	out := make([]string, 0, len(m))
	for k := range m {
		out = append(out, k)
	}
	sort.Strings(out)
	return out
}

// TestVerifC14_Conversion: the archival -> pruned switch is one-way and reported once.
func TestVerifC14_Conversion(t *testing.T) {
	defer vk.Flush()
	ctx := context.Background()
	rapid.Check(t, func(t *rapid.T) {
		ds := dssync.MutexWrap(datastore.NewMapDatastore())
		ns := namespace.Wrap(ds, storePrefix)
		// the mode recorded by the node's first run (nodebuilder/pruner.detectFirstRun)
		mode := rapid.SampledFrom([]string{"archival", "pruned"}).Draw(t, "firstRun")
		if err := ns.Put(ctx, previousModeKey, []byte(mode)); err != nil {
			t.Fatalf("VERIF-INFRA: %v", err)
		}
		starts := rapid.SliceOfN(rapid.Bool(), 1, 12).Draw(t, "startsArchival")
		converts := 0
		first := mode
		desc := "first=" + mode
		for i, isArchival := range starts {
			desc += fmt.Sprintf(" %v", isArchival)
			convert, err := ConvertFromArchivalToPruned(ctx, ds, isArchival)
			switch {
			case mode == "pruned" && isArchival:
				if !errors.Is(err, ErrDisallowRevertToArchival) || convert {
					t.Fatalf("C14-C: start %d as archival on a node that ran pruned returned (%v, %v); expected ErrDisallowRevertToArchival", i, convert, err)
				}
			case mode == "archival" && !isArchival:
				if err != nil || !convert {
					t.Fatalf("C14-C: first pruned start %d of an archival node returned (%v, %v); expected (true, nil)", i, convert, err)
				}
				mode = "pruned"
			default:
				if err != nil || convert {
					t.Fatalf("C14-C: start %d (archival=%v) with unchanged mode %q returned (%v, %v); expected (false, nil)", i, isArchival, mode, convert, err)
				}
			}
			if convert {
				converts++
			}
			got, err := ns.Get(ctx, previousModeKey)
			if err != nil || string(got) != mode {
				t.Fatalf("C14-C: recorded mode after start %d is %q (%v); expected %q", i, got, err, mode)
			}
		}
		if converts > 1 {
			t.Fatalf("C14-C: the archival->pruned conversion was reported %d times over %v", converts, starts)
		}
		vk.Record(desc, []string{"first=" + first, fmt.Sprintf("converts=%d", converts)}, converts == 1, func() any { return desc })
	})
}
