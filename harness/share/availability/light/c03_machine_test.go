package light

// C03 — a light node calls a block available only after verifying its whole sample set.
// Harness file of /verif (injected by overlay; not part of celestia-node).
//
// Model-based state machine over the real ShareAvailability. The only blocking point of the code
// under test is shwap.Getter.GetSamples; the harness owns it: every GetSamples call parks on a
// channel until the harness releases it with a generated outcome, so the interleaving of
// concurrent calls is a generated value. The coordinates the code draws (crypto/rand) are read
// back from what the getter is asked; the oracle is written over those observed values.
//
// Oracle (reference model per data root; ids are used in failure messages):
//   C03/first-request      the first request for a root asks exactly min(n, width²) distinct
//                          in-bounds coordinates (the "owed" set, fixed from then on)
//   C03/same-coordinates   every later request (retry, concurrent call, after a graceful restart)
//                          contains every owed coordinate no call has served yet and nothing
//                          outside the owed set
//   C03/whole-sample-set   SharesAvailable returns nil for a non-empty in-window block only if
//                          every owed coordinate was served (with a valid sample) by some call
//   C03/persisted-result   the stored SamplingResult never lists as available a coordinate no
//                          call served, keeps every unserved owed coordinate as remaining, and
//                          holds no coordinate outside the owed set
//   C03/session-exclusion  two calls for one height are never inside the getter together
//   C03/every-call-returns every call returns once the getter calls it waits for are released
//   C03/untouched          calls for the empty block / a header outside the window never reach
//                          the getter
// Deliberately NOT asserted (the property does not say it): that served coordinates are never
// asked again (counted as "rerequested_served"), which error a failing call returns, that a
// complete sample set makes the next call succeed (guarded by a required label instead), anything
// about Prune beyond "returns". After `crash` (new instance without Close) a root falls back to
// what reached the datastore at the last graceful Close; a fresh draw is accepted as well.

import (
	"context"
	"encoding/json"
	"errors"
	"fmt"
	"os"
	"sort"
	"strings"
	"sync"
	"testing"
	"time"

	"github.com/ipfs/boxo/blockstore"
	"github.com/ipfs/go-datastore"
	ds_sync "github.com/ipfs/go-datastore/sync"
	"pgregory.net/rapid"

	libshare "github.com/celestiaorg/go-square/v4/share"
	"github.com/celestiaorg/rsmt2d"

	"github.com/celestiaorg/celestia-node/header"
	vk "github.com/celestiaorg/celestia-node/internal/verifkit"
	"github.com/celestiaorg/celestia-node/share"
	"github.com/celestiaorg/celestia-node/share/shwap"
)

// c03Hang is the bound after which a call that neither returned nor reached the getter is
// reported. The work of one call is microseconds to a few milliseconds; 20 s is more than four
// orders of magnitude above it.
const c03Hang = 20 * time.Second

// ---------------------------------------------------------------------------------------------
// coordinate sets

type c03Set map[shwap.SampleCoords]struct{}

func c03SetOf(cs []shwap.SampleCoords) c03Set {
	s := make(c03Set, len(cs))
	for _, c := range cs {
		s[c] = struct{}{}
	}
	return s
}

func (s c03Set) clone() c03Set {
	if s == nil {
		return nil
	}
	out := make(c03Set, len(s))
	for c := range s {
		out[c] = struct{}{}
	}
	return out
}

func (s c03Set) has(c shwap.SampleCoords) bool { _, ok := s[c]; return ok }

// minus returns s \ o, sorted.
func (s c03Set) minus(o c03Set) []shwap.SampleCoords {
	var out []shwap.SampleCoords
	for c := range s {
		if !o.has(c) {
			out = append(out, c)
		}
	}
	return c03Sorted(out)
}

func (s c03Set) sorted() []shwap.SampleCoords {
	out := make([]shwap.SampleCoords, 0, len(s))
	for c := range s {
		out = append(out, c)
	}
	return c03Sorted(out)
}

func c03Sorted(cs []shwap.SampleCoords) []shwap.SampleCoords {
	out := append([]shwap.SampleCoords(nil), cs...)
	sort.Slice(out, func(i, j int) bool {
		if out[i].Row != out[j].Row {
			return out[i].Row < out[j].Row
		}
		return out[i].Col < out[j].Col
	})
	return out
}

func c03Fmt(cs []shwap.SampleCoords) string {
	var b strings.Builder
	b.WriteString("{")
	for i, c := range cs {
		if i == 24 {
			fmt.Fprintf(&b, " …(%d in all)", len(cs))
			break
		}
		if i > 0 {
			b.WriteString(" ")
		}
		fmt.Fprintf(&b, "%d:%d", c.Row, c.Col)
	}
	b.WriteString("}")
	return b.String()
}

// ---------------------------------------------------------------------------------------------
// the getter owned by the harness

type c03CallKey struct{}

type c03Reply struct {
	smpls []shwap.Sample
	err   error
}

type c03Arrival struct {
	callID int
	height uint64
	coords []shwap.SampleCoords
	reply  chan c03Reply
}

type c03Return struct {
	callID   int
	err      error
	panicked any
}

type c03Event struct {
	arrival *c03Arrival
	ret     *c03Return
}

// c03Getter parks every GetSamples call until the harness replies. It honours the documented
// contract of shwap.Getter when it answers (positional slice, empty entries for misses) — the
// answer itself is built by the harness.
type c03Getter struct {
	mu       sync.Mutex
	inside   map[uint64]int // calls currently inside GetSamples, per height
	overlaps []string
	entries  int
	events   chan c03Event
	quit     chan struct{}
}

func newC03Getter() *c03Getter {
	return &c03Getter{inside: map[uint64]int{}, events: make(chan c03Event, 256), quit: make(chan struct{})}
}

func (g *c03Getter) GetSamples(
	ctx context.Context, hdr *header.ExtendedHeader, idxs []shwap.SampleCoords,
) ([]shwap.Sample, error) {
	id, _ := ctx.Value(c03CallKey{}).(int)
	h := hdr.Height()
	a := &c03Arrival{callID: id, height: h, coords: append([]shwap.SampleCoords(nil), idxs...), reply: make(chan c03Reply, 1)}
	g.mu.Lock()
	g.entries++
	g.inside[h]++
	if g.inside[h] > 1 {
		g.overlaps = append(g.overlaps, fmt.Sprintf("call #%d entered the getter for height %d while another call for that height was inside", id, h))
	}
	g.mu.Unlock()
	defer func() {
		g.mu.Lock()
		g.inside[h]--
		g.mu.Unlock()
	}()
	select {
	case g.events <- c03Event{arrival: a}:
	case <-g.quit:
		return nil, errors.New("verif: harness torn down")
	}
	select {
	case r := <-a.reply:
		return r.smpls, r.err
	case <-g.quit:
		return nil, errors.New("verif: harness torn down")
	}
}

func (g *c03Getter) overlap() string {
	g.mu.Lock()
	defer g.mu.Unlock()
	if len(g.overlaps) == 0 {
		return ""
	}
	return g.overlaps[0]
}

func (g *c03Getter) GetEDS(context.Context, *header.ExtendedHeader) (*rsmt2d.ExtendedDataSquare, error) {
	panic("verif: light availability must only use GetSamples")
}

func (g *c03Getter) GetRow(context.Context, *header.ExtendedHeader, int) (shwap.Row, error) {
	panic("verif: light availability must only use GetSamples")
}

func (g *c03Getter) GetNamespaceData(context.Context, *header.ExtendedHeader, libshare.Namespace) (shwap.NamespaceData, error) {
	panic("verif: light availability must only use GetSamples")
}

func (g *c03Getter) GetRangeNamespaceData(context.Context, *header.ExtendedHeader, int, int) (shwap.RangeNamespaceData, error) {
	panic("verif: light availability must only use GetSamples")
}

// ---------------------------------------------------------------------------------------------
// model

// c03State is what the model knows about one data root: owed == nil means "never checked / no
// record" (the next request fixes the owed set).
type c03State struct {
	owed, done c03Set
}

func (s c03State) clone() c03State { return c03State{owed: s.owed.clone(), done: s.done.clone()} }

func (s c03State) complete() bool { return s.owed != nil && len(s.owed.minus(s.done)) == 0 }

type c03Root struct {
	w       int
	st      c03State
	alt     *c03State // second acceptable state (only after a crash: a fresh draw)
	flushed c03State  // what reached the base datastore at the last graceful Close
	failed  bool      // some attempt left an owed coordinate unserved
	checked bool      // the getter was asked at least once for this root
}

type c03Height struct {
	height uint64
	kind   string // "normal", "empty", "outside"
	hdr    *header.ExtendedHeader
	sq     *vk.Square
	root   *c03Root
}

type c03Call struct {
	id       int
	h        *c03Height
	cancel   context.CancelFunc
	parked   *c03Arrival
	returned bool
	touched  bool
	prune    bool
	err      error
}

type c03Outcome struct {
	form   string // what the getter returns
	subset string // which of the requested coordinates (sorted) it serves
	mask   uint64
	pick   int
	wrap   bool
}

func (o c03Outcome) String() string {
	return fmt.Sprintf("%s/%s/%x/%d", o.form, o.subset, o.mask, o.pick)
}

var (
	c03Forms = []string{
		"slice", "slice", "slice", "slice", "slice", "slice",
		"slice+err", "slice+err", "slice+err",
		"nil+err", "nil+err",
		"nil+nil", "empty+err",
		"slice+deadline",
		"cancel+slice", "cancel+slice",
		"cancel+nil",
	}
	c03Subsets = []string{"all", "all", "allButOne", "allButOne", "mask", "mask", "mask", "onlyOne", "none"}
)

func c03GenOutcome(t *rapid.T, label string) c03Outcome {
	return c03Outcome{
		form:   rapid.SampledFrom(c03Forms).Draw(t, label+".form"),
		subset: rapid.SampledFrom(c03Subsets).Draw(t, label+".subset"),
		mask:   rapid.Uint64().Draw(t, label+".mask"),
		pick:   rapid.IntRange(0, 63).Draw(t, label+".pick"),
		wrap:   rapid.Bool().Draw(t, label+".wrap"),
	}
}

// served reports, by position in the sorted request, which coordinates the getter serves.
func (o c03Outcome) served(n int) []bool {
	out := make([]bool, n)
	for i := range out {
		switch o.subset {
		case "all":
			out[i] = true
		case "allButOne":
			out[i] = i != o.pick%n
		case "onlyOne":
			out[i] = i == o.pick%n
		case "mask":
			out[i] = o.mask>>(uint(i)%64)&1 == 1
		}
	}
	return out
}

type c03Machine struct {
	n       int
	base    datastore.Batching
	bs      blockstore.Blockstore
	getter  *c03Getter
	la      *ShareAvailability
	normal  []*c03Height
	all     []*c03Height
	live    []*c03Call
	calls   map[int]*c03Call
	nextID  int
	wg      sync.WaitGroup
	log     []string
	labels  map[string]bool
	nt      bool
	counted map[string]int64
}

func (m *c03Machine) label(l string) { m.labels[l] = true }

func (m *c03Machine) logf(format string, a ...any) { m.log = append(m.log, fmt.Sprintf(format, a...)) }

func (m *c03Machine) newInstance() {
	m.la = NewShareAvailability(m.getter, m.base, m.bs, WithSampleAmount(uint(m.n)))
}

func c03Header(height uint64, ts time.Time, roots *share.AxisRoots) *header.ExtendedHeader {
	return &header.ExtendedHeader{
		RawHeader: header.RawHeader{Height: int64(height), Time: ts},
		DAH:       roots,
	}
}

func c03CopyHeader(h *header.ExtendedHeader) *header.ExtendedHeader {
	cp := func(in [][]byte) [][]byte {
		out := make([][]byte, len(in))
		for i := range in {
			out[i] = append([]byte(nil), in[i]...)
		}
		return out
	}
	return &header.ExtendedHeader{
		RawHeader: h.RawHeader,
		DAH:       &share.AxisRoots{RowRoots: cp(h.DAH.RowRoots), ColumnRoots: cp(h.DAH.ColumnRoots)},
	}
}

func newC03Machine(t *rapid.T) *c03Machine {
	m := &c03Machine{
		n:       rapid.SampledFrom([]int{1, 2, 3, 4, 5, 7, 15, 16, 16, 17, 25, 40}).Draw(t, "sampleAmount"),
		base:    ds_sync.MutexWrap(datastore.NewMapDatastore()),
		bs:      blockstore.NewBlockstore(ds_sync.MutexWrap(datastore.NewMapDatastore())),
		getter:  newC03Getter(),
		calls:   map[int]*c03Call{},
		labels:  map[string]bool{},
		counted: map[string]int64{},
	}
	odsPool := []int{1, 1, 2, 2, 2, 4, 4, 8}
	if vk.Thorough() {
		odsPool = append(odsPool, 8, 16)
	} else if rapid.IntRange(0, 9).Draw(t, "wide") == 9 {
		odsPool = []int{16, 16, 16, 16, 16, 16, 16, 16} // same length: keeps the draw sequence aligned for the shrinker
	}
	height := uint64(rapid.IntRange(1, 1000).Draw(t, "baseHeight"))
	now := time.Now() // only used to place generated header times; never read by an oracle
	seen := map[string]bool{}
	nh := rapid.IntRange(1, 3).Draw(t, "heights")
	for i := 0; i < nh; i++ {
		sq := vk.GenSquare(t, fmt.Sprintf("sq%d", i), vk.SquareOpts{ODS: odsPool, MaxRuns: 4})
		key := sq.Roots.String()
		if seen[key] || share.DataHash(sq.Roots.Hash()).IsEmptyEDS() {
			continue
		}
		seen[key] = true
		// inside the 7-day window, at least a day away from its boundary
		age := time.Duration(rapid.IntRange(0, 6*24*60).Draw(t, fmt.Sprintf("age%d", i))) * time.Minute
		h := &c03Height{height: height, kind: "normal", sq: sq, hdr: c03Header(height, now.Add(-age), sq.Roots), root: &c03Root{w: sq.Width()}}
		m.normal = append(m.normal, h)
		m.all = append(m.all, h)
		height += uint64(rapid.IntRange(1, 3).Draw(t, fmt.Sprintf("gap%d", i)))
		m.label(fmt.Sprintf("width=%d", sq.Width()))
		if m.n >= sq.Width()*sq.Width() {
			m.label("samples>=area")
		} else {
			m.label("samples<area")
		}
	}
	// the empty block and a non-empty block outside the window
	m.all = append(m.all, &c03Height{height: height, kind: "empty", hdr: c03Header(height, now.Add(-time.Hour), share.EmptyEDSRoots())})
	height++
	// (its own synthetic data root: no two heights share a non-empty root; the getter must never
	// be asked about it, so no square is needed)
	outAge := 7*24*time.Hour + time.Duration(rapid.IntRange(60, 60*24*30).Draw(t, "outsideAge"))*time.Minute
	m.all = append(m.all, &c03Height{height: height, kind: "outside", hdr: c03Header(height, now.Add(-outAge), c03SyntheticRoots(4)), root: &c03Root{w: 4}})
	m.newInstance()
	m.logf("n=%d heights=%d", m.n, len(m.normal))
	for _, h := range m.normal {
		m.logf("h%d %s", h.height, h.sq.Desc())
	}
	return m
}

// cleanup releases everything that may still be parked (only after a failure) and waits for the
// goroutines of the case.
func (m *c03Machine) cleanup() {
	close(m.getter.quit)
	for _, c := range m.calls {
		c.cancel()
	}
	done := make(chan struct{})
	go func() { m.wg.Wait(); close(done) }()
	select {
	case <-done:
	case <-time.After(c03Hang):
		fmt.Println("C03: a goroutine of the failed case is still running inside the code under test")
	}
}

// ---------------------------------------------------------------------------------------------
// running calls

func (m *c03Machine) start(h *c03Height, deadline bool, prune bool) *c03Call {
	m.nextID++
	c := &c03Call{id: m.nextID, h: h, prune: prune}
	ctx := context.WithValue(context.Background(), c03CallKey{}, c.id)
	if deadline {
		// far away: exercises the deadline-shortening path without ever firing
		ctx, c.cancel = context.WithTimeout(ctx, time.Hour)
	} else {
		ctx, c.cancel = context.WithCancel(ctx)
	}
	m.calls[c.id] = c
	m.live = append(m.live, c)
	la := m.la
	m.wg.Add(1)
	go func() {
		defer m.wg.Done()
		r := &c03Return{callID: c.id}
		func() {
			defer func() { r.panicked = recover() }()
			// every caller holds its own, separately loaded header object (DASer, RPC, pruner):
			// equal content, different pointers
			hdr := c03CopyHeader(h.hdr)
			if prune {
				r.err = la.Prune(ctx, hdr)
			} else {
				r.err = la.SharesAvailable(ctx, hdr)
			}
		}()
		select {
		case m.getter.events <- c03Event{ret: r}:
		case <-m.getter.quit:
		}
	}()
	return c
}

// stable: every call that has not returned is either parked in the getter or shares its height
// with a parked call (then it is waiting for the height's session).
func (m *c03Machine) stable(mustReturn *c03Call) bool {
	if mustReturn != nil && !mustReturn.returned {
		return false
	}
	parked := map[uint64]bool{}
	for _, c := range m.live {
		if !c.returned && c.parked != nil {
			parked[c.h.height] = true
		}
	}
	for _, c := range m.live {
		if !c.returned && !parked[c.h.height] {
			return false
		}
	}
	return true
}

func (m *c03Machine) settle(t *rapid.T, mustReturn *c03Call) { m.settleWithin(t, mustReturn, 0) }

// settleWithin is settle with an optional soft bound: when soft > 0 and mustReturn has not
// returned within it, false is returned instead of a failure (used where the property does not
// promise a prompt return).
func (m *c03Machine) settleWithin(t *rapid.T, mustReturn *c03Call, soft time.Duration) bool {
	bound := c03Hang
	if soft > 0 {
		bound = soft
	}
	timer := time.NewTimer(bound)
	defer timer.Stop()
	for {
		// one call site for onEvent: rapid compares tracebacks when it replays a failure
		var (
			ev   c03Event
			have bool
		)
		select {
		case ev = <-m.getter.events:
			have = true
		default:
		}
		if !have {
			if m.stable(mustReturn) {
				return true
			}
			select {
			case ev = <-m.getter.events:
				have = true
			case <-timer.C:
			}
		}
		if have {
			m.onEvent(t, ev)
			continue
		}
		{
			if soft > 0 {
				return false
			}
			var stuck []string
			stuckHeights := map[uint64]bool{}
			for _, c := range m.live {
				if !c.returned && c.parked == nil {
					stuck = append(stuck, fmt.Sprintf("#%d(height %d)", c.id, c.h.height))
					stuckHeights[c.h.height] = true
				}
			}
			hs := make([]string, 0, len(stuckHeights))
			for _, h := range m.all {
				if stuckHeights[h.height] {
					hs = append(hs, fmt.Sprint(h.height))
				}
			}
			m.fail(t, fmt.Sprintf("C03/every-call-returns: expected every call to return or to reach the getter; after %v call(s) for height(s) %s did neither "+
				"although no other call for their height is inside the getter", c03Hang, strings.Join(hs, ",")), "stuck calls %s", strings.Join(stuck, ", "))
		}
	}
}

// grace gives calls that are expected to wait for a session a moment to show up in the getter if
// the session does not hold them. It only adds sensitivity: an overlap is detected inside the
// getter whenever it happens.
func (m *c03Machine) grace(t *rapid.T) {
	time.Sleep(500 * time.Microsecond)
	m.settle(t, nil)
	if o := m.getter.overlap(); o != "" {
		m.fail(t, "C03/session-exclusion: expected concurrent calls for one height to be serialised by the height's session; two calls for one height were inside the getter at the same time", "%s", o)
	}
}

func (m *c03Machine) onEvent(t *rapid.T, ev c03Event) {
	if ev.arrival != nil {
		m.onArrival(t, ev.arrival)
	} else {
		m.onReturn(t, ev.ret)
	}
}

func (m *c03Machine) history() string { return "  " + strings.Join(m.log, "\n  ") }

// fail reports a violation. rapid shrinks (and replays) a failure only if the message is
// identical whenever the same draws are replayed. The coordinates (crypto/rand inside the code
// under test) and the call ids (which of several simultaneously started calls wins the session)
// are not replay-stable, so they go to the log of the failing run, and the message proper holds
// only replay-stable facts: invariant id, height, width, sample amount, what was expected and
// what kind of deviation was observed.
func (m *c03Machine) fail(t *rapid.T, stable string, detailFormat string, a ...any) {
	t.Helper()
	t.Logf("%s\n  observed: %s\n  history:\n%s", stable, fmt.Sprintf(detailFormat, a...), m.history())
	t.Fatalf("%s [observed coordinates and the history are in the log of the failing run]", stable)
}

// consistent reports whether a getter request is what state s allows.
func (m *c03Machine) consistent(s c03State, w int, req []shwap.SampleCoords) string {
	rs := c03SetOf(req)
	if s.owed == nil {
		want := min(m.n, w*w)
		if len(req) != want {
			return fmt.Sprintf("first request for this block: expected min(sample amount %d, area %d) = %d coordinates, the getter was asked for %d: %s",
				m.n, w*w, want, len(req), c03Fmt(c03Sorted(req)))
		}
		return ""
	}
	pending := s.owed.minus(s.done)
	var missing []shwap.SampleCoords
	for _, c := range pending {
		if !rs.has(c) {
			missing = append(missing, c)
		}
	}
	extra := rs.minus(s.owed)
	if len(missing) > 0 || len(extra) > 0 {
		return fmt.Sprintf("set drawn at the first check %s, served so far %s, still pending %s; this request asked for %s: "+
			"pending coordinates not re-requested %s, coordinates that were never part of the set %s",
			c03Fmt(s.owed.sorted()), c03Fmt(s.done.sorted()), c03Fmt(pending), c03Fmt(c03Sorted(req)), c03Fmt(missing), c03Fmt(extra))
	}
	return ""
}

func (m *c03Machine) onArrival(t *rapid.T, a *c03Arrival) {
	c := m.calls[a.callID]
	if c == nil {
		t.Fatalf("VERIF-INFRA: getter call without a harness call id")
	}
	c.parked = a
	c.touched = true
	if o := m.getter.overlap(); o != "" {
		m.fail(t, "C03/session-exclusion: expected concurrent calls for one height to be serialised by the height's session; two calls for one height were inside the getter at the same time", "%s", o)
	}
	h := c.h
	if h.kind != "normal" || c.prune {
		m.fail(t, fmt.Sprintf("C03/untouched: expected no getter request for %s (height %d); the getter was asked for %d coordinate(s)",
			map[bool]string{true: "Prune", false: "a call for the " + h.kind + " block"}[c.prune], h.height, len(a.coords)), "%s", c03Fmt(c03Sorted(a.coords)))
	}
	r := h.root
	w := r.w
	seen := c03Set{}
	for _, co := range a.coords {
		if co.Row < 0 || co.Col < 0 || co.Row >= w || co.Col >= w {
			m.fail(t, fmt.Sprintf("C03/first-request: expected coordinates inside the %dx%d extended square; a request for height %d holds a coordinate outside it",
				w, w, h.height), "(%d:%d) in %s", co.Row, co.Col, c03Fmt(c03Sorted(a.coords)))
		}
		if seen.has(co) {
			m.fail(t, fmt.Sprintf("C03/first-request: expected distinct coordinates; one request for height %d holds a coordinate twice", h.height),
				"(%d:%d) in %s", co.Row, co.Col, c03Fmt(c03Sorted(a.coords)))
		}
		seen[co] = struct{}{}
	}
	if len(a.coords) == 0 {
		m.fail(t, fmt.Sprintf("C03/same-coordinates: expected a request for the pending coordinates; the getter was asked for zero coordinates (height %d)", h.height), "-")
	}
	why := m.consistent(r.st, w, a.coords)
	if why != "" && r.alt != nil {
		if m.consistent(*r.alt, w, a.coords) == "" {
			// after a crash: the record did not survive / was ignored; a fresh set was drawn
			r.st = r.alt.clone()
			m.counted["fresh_draw_after_crash_despite_record"]++
			why = ""
		}
	}
	if why != "" {
		if r.st.owed == nil {
			m.fail(t, fmt.Sprintf("C03/first-request: height %d (width %d, sample amount %d): expected the first request for a block to ask for min(sample amount, area) = %d coordinates; it asked for %d",
				h.height, w, m.n, min(m.n, w*w), len(a.coords)), "%s", why)
		}
		m.fail(t, fmt.Sprintf("C03/same-coordinates: height %d (width %d, sample amount %d): expected the request to hold every coordinate of the set drawn at the first check "+
			"that no call has served yet and nothing outside that set (%d of %d still pending); the getter was asked for %d coordinate(s) that do not satisfy this",
			h.height, w, m.n, len(r.st.owed.minus(r.st.done)), len(r.st.owed), len(a.coords)), "%s", why)
	}
	r.alt = nil
	if r.st.owed == nil {
		r.st = c03State{owed: c03SetOf(a.coords), done: c03Set{}}
		m.logf("  #%d h%d first request: %d coordinates", c.id, h.height, len(a.coords))
		quad := map[int]bool{}
		for _, co := range a.coords {
			quad[2*c03b2i(co.Row >= w/2)+c03b2i(co.Col >= w/2)] = true
		}
		m.counted[fmt.Sprintf("first_draws_hitting_%d_quadrants", len(quad))]++
	} else {
		over := 0
		for _, co := range a.coords {
			if r.st.done.has(co) {
				over++
			}
		}
		if over > 0 {
			m.counted["rerequested_served"] += int64(over)
		}
		m.logf("  #%d h%d request: %d of %d owed", c.id, h.height, len(a.coords), len(r.st.owed))
	}
	if r.failed {
		m.nt = true
		m.label("retry-after-failed-attempt")
	}
	r.checked = true
}

func c03b2i(b bool) int {
	if b {
		return 1
	}
	return 0
}

func (m *c03Machine) onReturn(t *rapid.T, ret *c03Return) {
	c := m.calls[ret.callID]
	c.returned, c.err, c.parked = true, ret.err, nil
	what := "SharesAvailable"
	if c.prune {
		what = "Prune"
	}
	if ret.panicked != nil {
		m.fail(t, fmt.Sprintf("C03: expected %s for height %d to return; it panicked", what, c.h.height), "%v", ret.panicked)
	}
	m.logf("  #%d h%d %s -> %v", c.id, c.h.height, what, ret.err)
	if c.prune || c.h.kind != "normal" {
		return
	}
	r := c.h.root
	if ret.err == nil {
		switch {
		case r.st.complete():
			r.alt = nil
		case r.alt != nil && r.alt.complete():
			r.st, r.alt = r.alt.clone(), nil
		default:
			pending := "the whole set (no coordinate was ever requested)"
			if r.st.owed != nil {
				pending = c03Fmt(r.st.owed.minus(r.st.done))
			}
			npend, nowed := -1, -1
			if r.st.owed != nil {
				npend, nowed = len(r.st.owed.minus(r.st.done)), len(r.st.owed)
			}
			m.fail(t, fmt.Sprintf("C03/whole-sample-set: height %d (width %d, sample amount %d): expected an error because %d of the %d coordinates drawn at the first check "+
				"were never served by the getter (-1: no coordinate was ever requested); SharesAvailable returned nil", c.h.height, r.w, m.n, npend, nowed),
				"set drawn at the first check %s, coordinates served by the getter so far %s, never served: %s",
				c03Fmt(r.st.owed.sorted()), c03Fmt(r.st.done.sorted()), pending)
		}
		if r.failed {
			m.label("available-after-retry")
		}
		m.label("verdict=available")
	} else {
		m.label("verdict=error")
	}
}

// sample builds the valid sample of the generated square at co (row or column proof).
func (m *c03Machine) sample(t *rapid.T, h *c03Height, co shwap.SampleCoords, col bool) shwap.Sample {
	var (
		s   shwap.Sample
		err error
	)
	if col {
		s, err = shwap.SampleFromShares(h.sq.ExtendedColShares(co.Col), rsmt2d.Col, shwap.SampleCoords{Row: co.Col, Col: co.Row})
	} else {
		s, err = shwap.SampleFromShares(h.sq.ExtendedRowShares(co.Row), rsmt2d.Row, co)
	}
	if err == nil {
		err = s.Verify(h.sq.Roots, co.Row, co.Col)
	}
	if err != nil || string(s.ToBytes()) != string(h.sq.RefShare(co.Row, co.Col)) {
		t.Fatalf("VERIF-INFRA: harness could not build a valid sample for (%d:%d): %v", co.Row, co.Col, err)
	}
	return s
}

var errC03Unavailable = errors.New("verif: peers did not serve every sample")

// release answers the parked getter call of c with outcome o and updates the model with the
// coordinates actually served.
func (m *c03Machine) release(t *rapid.T, c *c03Call, o c03Outcome) {
	a := c.parked
	r := c.h.root
	req := c03Sorted(a.coords)
	pick := o.served(len(req))
	servedSet := c03Set{}
	for i, co := range req {
		if pick[i] {
			servedSet[co] = struct{}{}
		}
	}
	var rep c03Reply
	form := o.form
	withSlice := strings.Contains(form, "slice")
	if withSlice {
		rep.smpls = make([]shwap.Sample, len(a.coords))
		for i, co := range a.coords {
			if servedSet.has(co) {
				rep.smpls[i] = m.sample(t, c.h, co, (o.mask>>(uint(i)%64+7))&1 == 1)
			}
		}
	} else {
		servedSet = c03Set{}
		if form == "empty+err" {
			rep.smpls = []shwap.Sample{}
		}
	}
	switch form {
	case "slice", "nil+nil":
	case "slice+err", "nil+err", "empty+err":
		rep.err = errC03Unavailable
	case "slice+deadline":
		rep.err = context.DeadlineExceeded
	case "cancel+slice", "cancel+nil":
		c.cancel()
		rep.err = context.Canceled
		m.label("has-cancel")
	}
	if rep.err != nil && o.wrap {
		rep.err = fmt.Errorf("verif getter: %w", rep.err)
	}
	// classes
	switch {
	case !withSlice:
		m.label("outcome=nothing-at-all")
		if len(r.st.done) == 0 {
			m.label("outcome=nothing-before-any-progress")
		}
	case len(servedSet) == len(req):
		m.label("outcome=all-served")
	case len(servedSet) == 0:
		m.label("outcome=slice-of-empty-samples")
	default:
		m.label("outcome=partial")
	}
	m.label("form=" + form)
	if rep.err != nil && withSlice && len(servedSet) == len(req) {
		m.label("outcome=all-served-with-error")
	}
	if rep.err == nil && withSlice && len(servedSet) < len(req) {
		m.label("outcome=misses-without-error")
	}
	// model: done grows only by what this call serves
	for co := range servedSet {
		r.st.done[co] = struct{}{}
	}
	if len(servedSet) < len(req) {
		r.failed = true
	}
	m.logf("  #%d h%d getter answers %s: %d of %d served", c.id, c.h.height, form, len(servedSet), len(req))
	c.parked = nil
	a.reply <- rep
}

// ---------------------------------------------------------------------------------------------
// persisted state

func (m *c03Machine) stored(t *rapid.T, h *c03Height) *SamplingResult {
	m.la.dsLk.RLock()
	data, err := m.la.ds.Get(context.Background(), datastoreKeyForRoot(h.hdr.DAH))
	m.la.dsLk.RUnlock()
	if errors.Is(err, datastore.ErrNotFound) {
		return nil
	}
	if err != nil {
		t.Fatalf("VERIF-INFRA: reading the stored sampling result: %v", err)
	}
	var res SamplingResult
	if err := json.Unmarshal(data, &res); err != nil {
		m.fail(t, fmt.Sprintf("C03/persisted-result: height %d: expected a decodable stored sampling result", h.height), "%v (%q)", err, data)
	}
	return &res
}

func c03PersistOK(s c03State, rec *SamplingResult) string {
	if rec == nil {
		return ""
	}
	if s.owed == nil {
		if len(rec.Available) > 0 {
			return "it lists coordinates as available although no call served any"
		}
		return ""
	}
	av, rem := c03SetOf(rec.Available), c03SetOf(rec.Remaining)
	if len(av) != len(rec.Available) || len(rem) != len(rec.Remaining) {
		return "it holds a coordinate twice"
	}
	if x := av.minus(s.done); len(x) > 0 {
		return fmt.Sprintf("it lists as available %s, which no call served", c03Fmt(x))
	}
	for _, co := range s.owed.minus(s.done) {
		if !rem.has(co) {
			return fmt.Sprintf("pending coordinate (%d:%d) is not kept as remaining", co.Row, co.Col)
		}
	}
	if x := av.minus(s.owed); len(x) > 0 {
		return fmt.Sprintf("it holds %s, not part of the set drawn at the first check", c03Fmt(x))
	}
	if x := rem.minus(s.owed); len(x) > 0 {
		return fmt.Sprintf("it holds %s, not part of the set drawn at the first check", c03Fmt(x))
	}
	for co := range av {
		if rem.has(co) {
			return fmt.Sprintf("(%d:%d) is both available and remaining", co.Row, co.Col)
		}
	}
	return ""
}

func (m *c03Machine) checkPersisted(t *rapid.T) {
	for _, h := range m.normal {
		r := h.root
		rec := m.stored(t, h)
		why := c03PersistOK(r.st, rec)
		if why != "" && r.alt != nil && c03PersistOK(*r.alt, rec) == "" {
			why = ""
		}
		if why != "" {
			m.fail(t, fmt.Sprintf("C03/persisted-result: height %d (width %d, sample amount %d): expected the stored sampling result to list as available only coordinates a call served, "+
				"to keep every unserved coordinate of the first-check set as remaining and to hold nothing else; it does not", h.height, r.w, m.n),
				"stored result {available %s remaining %s}: %s; model: set drawn at first check %s, served %s",
				c03Fmt(c03Sorted(rec.Available)), c03Fmt(c03Sorted(rec.Remaining)), why, c03Fmt(r.st.owed.sorted()), c03Fmt(r.st.done.sorted()))
		}
		if rec == nil && r.st.owed != nil && r.alt == nil {
			if pending := r.st.owed.minus(r.st.done); len(pending) > 0 {
				m.fail(t, fmt.Sprintf("C03/persisted-result: height %d (width %d, sample amount %d): expected a stored sampling result that keeps the %d unserved coordinate(s) of the set drawn at the first check "+
					"as remaining (they must stay pending across retries and restarts); nothing is stored for this block after its call returned", h.height, r.w, m.n, len(pending)),
					"set drawn at first check %s, served %s, pending %s", c03Fmt(r.st.owed.sorted()), c03Fmt(r.st.done.sorted()), c03Fmt(pending))
			}
			m.counted["complete_root_without_stored_result"]++
		}
		if rec != nil && r.st.owed != nil && len(rec.Available) < len(r.st.done) {
			m.counted["served_but_not_stored_as_available"]++
		}
	}
}

// ---------------------------------------------------------------------------------------------
// actions

func (m *c03Machine) finishAction(t *rapid.T) {
	for _, c := range m.live {
		if !c.returned {
			t.Fatalf("VERIF-INFRA: action ended with call #%d in flight", c.id)
		}
	}
	m.live = m.live[:0]
	if o := m.getter.overlap(); o != "" {
		m.fail(t, "C03/session-exclusion: expected concurrent calls for one height to be serialised by the height's session; two calls for one height were inside the getter at the same time", "%s", o)
	}
}

func (m *c03Machine) pickHeight(t *rapid.T, label string) *c03Height {
	// mostly the in-window non-empty blocks
	if rapid.IntRange(0, 9).Draw(t, label+".special") == 0 {
		return m.all[len(m.normal)+rapid.IntRange(0, 1).Draw(t, label+".which")]
	}
	return m.normal[rapid.IntRange(0, len(m.normal)-1).Draw(t, label+".h")]
}

func (m *c03Machine) actCall(t *rapid.T) {
	h := m.pickHeight(t, "call")
	deadline := rapid.IntRange(0, 3).Draw(t, "call.deadlineCtx") == 3
	o := c03GenOutcome(t, "call.outcome")
	m.logf("call h%d(%s) deadlineCtx=%v outcome=%s", h.height, h.kind, deadline, o)
	if h.kind != "normal" {
		m.label("call-" + h.kind + "-block")
	}
	if deadline {
		m.label("ctx-with-deadline")
	}
	before := m.getter.entries
	c := m.start(h, deadline, false)
	m.settle(t, nil)
	if c.parked != nil {
		m.release(t, c, o)
		m.settle(t, c)
	}
	if h.kind != "normal" && m.getter.entries != before {
		m.fail(t, fmt.Sprintf("C03/untouched: expected no getter request for a call for the %s block (height %d); the getter was asked", h.kind, h.height), "-")
	}
	m.finishAction(t)
}

func (m *c03Machine) actConcurrent(t *rapid.T) {
	k := rapid.IntRange(2, 4).Draw(t, "conc.k")
	together := rapid.Bool().Draw(t, "conc.startTogether")
	first := rapid.IntRange(0, len(m.normal)-1).Draw(t, "conc.h0")
	hs := make([]*c03Height, k)
	for i := range hs {
		hs[i] = m.normal[first]
		if i > 0 && rapid.IntRange(0, 2).Draw(t, "conc.other") == 0 {
			hs[i] = m.normal[rapid.IntRange(0, len(m.normal)-1).Draw(t, "conc.h")]
		}
	}
	desc := make([]string, k)
	perHeight := map[uint64]int{}
	for i, h := range hs {
		desc[i] = fmt.Sprintf("h%d", h.height)
		perHeight[h.height]++
	}
	m.logf("concurrent %s together=%v", strings.Join(desc, ","), together)
	same, different := false, len(perHeight) > 1
	for _, n := range perHeight {
		if n > 1 {
			same = true
		}
	}
	if same {
		m.label("has-concurrent-same-height")
	}
	if different {
		m.label("has-concurrent-different-heights")
	}
	for _, h := range hs {
		m.start(h, false, false)
		if !together {
			m.settle(t, nil)
		}
	}
	m.settle(t, nil)
	if same {
		m.grace(t)
	}
	for step := 0; ; step++ {
		var parked, waiting []*c03Call
		for _, c := range m.live {
			switch {
			case c.returned:
			case c.parked != nil:
				parked = append(parked, c)
			default:
				waiting = append(waiting, c)
			}
		}
		if len(parked)+len(waiting) == 0 {
			break
		}
		if len(parked) == 0 {
			t.Fatalf("VERIF-INFRA: waiting calls without a parked one after settle")
		}
		sort.Slice(parked, func(i, j int) bool { return parked[i].h.height < parked[j].h.height })
		sort.Slice(waiting, func(i, j int) bool {
			if waiting[i].h.height != waiting[j].h.height {
				return waiting[i].h.height < waiting[j].h.height
			}
			return waiting[i].id < waiting[j].id
		})
		if len(waiting) > 0 && rapid.IntRange(0, 3).Draw(t, "conc.cancelWaiter") == 0 {
			// cancel a call that waits for the session of its height: it must return
			hsW := []uint64{}
			for _, c := range waiting {
				if len(hsW) == 0 || hsW[len(hsW)-1] != c.h.height {
					hsW = append(hsW, c.h.height)
				}
			}
			hh := hsW[rapid.IntRange(0, len(hsW)-1).Draw(t, "conc.cancelHeight")]
			for _, c := range waiting {
				if c.h.height == hh {
					m.logf("  cancel a call waiting for the session of h%d", hh)
					m.label("has-cancel")
					m.label("cancel-while-waiting-for-session")
					c.cancel()
					// the real code returns at once; the property does not promise it, so a
					// call that keeps waiting is only counted (it must still return in the end)
					if !m.settleWithin(t, c, 2*time.Second) {
						m.counted["cancelled_waiter_kept_waiting"]++
					}
					break
				}
			}
			continue
		}
		c := parked[rapid.IntRange(0, len(parked)-1).Draw(t, "conc.release")]
		o := c03GenOutcome(t, "conc.outcome")
		m.release(t, c, o)
		m.settle(t, c)
		if len(waiting) > 0 {
			m.grace(t)
		}
	}
	m.finishAction(t)
}

func (m *c03Machine) actRestart(t *rapid.T, graceful bool) {
	if graceful {
		m.logf("restartGraceful")
		m.label("has-restart")
		if err := m.la.Close(context.Background()); err != nil {
			t.Fatalf("VERIF-INFRA: Close over an in-memory datastore failed: %v", err)
		}
		for _, h := range m.normal {
			if h.root.alt == nil {
				h.root.flushed = h.root.st.clone()
			}
			if h.root.failed && h.root.st.owed != nil && !h.root.st.complete() {
				m.label("restart-with-pending-coordinates")
			}
		}
	} else {
		m.logf("crash")
		m.label("has-crash")
		for _, h := range m.normal {
			r := h.root
			r.st, r.alt = r.flushed.clone(), nil
			if r.st.owed != nil {
				r.alt = &c03State{}
			}
		}
	}
	m.newInstance()
}

func (m *c03Machine) actPrune(t *rapid.T) {
	h := m.all[rapid.IntRange(0, len(m.all)-1).Draw(t, "prune.h")]
	m.logf("prune h%d(%s)", h.height, h.kind)
	m.label("has-prune")
	c := m.start(h, false, true)
	m.settle(t, c)
	m.finishAction(t)
	if h.kind != "normal" {
		return
	}
	// what Prune leaves behind is read back: either the record is gone (the next check starts
	// over) or the old state still stands
	r := h.root
	if rec := m.stored(t, h); rec == nil {
		r.st, r.alt, r.failed = c03State{}, nil, false
	}
}

// ---------------------------------------------------------------------------------------------

// TestVerifC03_Machine drives generated histories of calls, getter outcomes, concurrent calls,
// restarts, crashes and prunes against the real ShareAvailability and the reference model.
func TestVerifC03_Machine(t *testing.T) {
	defer vk.Flush()
	os.Unsetenv("CELESTIA_OVERRIDE_AVAILABILITY_WINDOW")
	rapid.Check(t, func(t *rapid.T) {
		m := newC03Machine(t)
		defer m.cleanup()
		t.Repeat(map[string]func(*rapid.T){
			"call":            m.actCall,
			"call2":           m.actCall,
			"call3":           m.actCall,
			"concurrent":      m.actConcurrent,
			"restartGraceful": func(t *rapid.T) { m.actRestart(t, true) },
			"crash":           func(t *rapid.T) { m.actRestart(t, false) },
			"prune":           m.actPrune,
			"":                m.checkPersisted,
		})
		labels := make([]string, 0, len(m.labels))
		for l := range m.labels {
			labels = append(labels, l)
		}
		sort.Strings(labels)
		for k, v := range m.counted {
			vk.Count(k, v)
		}
		vk.Count("getter_requests", int64(m.getter.entries))
		vk.Count("calls", int64(m.nextID))
		hist := strings.Join(m.log, "\n")
		vk.Record(hist, labels, m.nt, func() any { return m.log })
	})
}
