package light

// C03 — "drawn unpredictably from the whole extended square when the block was first checked".
// Harness file of /verif (injected by overlay; not part of celestia-node).
//
// What a test can decide about unpredictability is spread and non-constancy: many FRESH
// instances (own datastore each) are asked about a block once; the coordinates of that first
// request are read from the getter. No harness randomness is involved: the only random source is
// the one of the code under test, so the checks below are statistical and their thresholds are
// chosen so that the probability of a false alarm of the whole test is far below 1e-12 when the
// coordinates are uniform:
//
//   every-cell   width <= 8: every cell is hit. P(miss) <= cells * (1-n/cells)^draws <= 64*exp(-62) < 1e-25.
//   quadrants    every quadrant is hit.          P(miss) <= 4 * 0.75^(draws*1)  (draws >= 400)   < 1e-49.
//   not-constant draws are not all identical.    P <= (1/C(area,n))^(draws-1) <= 4^-399.
//   no-repeat    width >= 16, n >= 8: no two draws are the same set. P <= draws²/2 / C(256,8) with
//                C(256,8) ~ 4.1e14 is NOT small enough, so the check is applied only where
//                draws²/2 / C(area,n) < 1e-15 (computed below with a lower bound of C).
//   chi-square   Pearson statistic of the hit counts per cell / row / column / quadrant / 8x8 block
//                against the uniform expectation, only where the expected count per class is
//                >= 20. Threshold df + 1.2*(2*sqrt(df*x) + 2x) with x = 40: for a chi-square
//                variable the Laurent–Massart bound gives P(X >= df + 2*sqrt(df*x) + 2x) <= exp(-x)
//                = 4e-18; the factor 1.2 and the fact that coordinates of one draw are distinct
//                (negative dependence: the statistic is stochastically smaller than the multinomial
//                one) leave orders of magnitude of room for the approximation error of Pearson's
//                statistic. About 60 such checks per run.
//
// A grossly biased source (half of the square, one quadrant, modulo bias of 20 %, a PRNG re-seeded
// identically per call) fails these by a wide margin; a cryptographically weak but well spread
// source passes (stated limit of the technique).

import (
	"context"
	"encoding/json"
	"errors"
	"fmt"
	"math"
	"os"
	"path/filepath"
	"sort"
	"strings"
	"testing"
	"time"

	"github.com/ipfs/go-datastore"

	libshare "github.com/celestiaorg/go-square/v4/share"
	"github.com/celestiaorg/nmt"
	"github.com/celestiaorg/rsmt2d"

	"github.com/celestiaorg/celestia-node/header"
	vk "github.com/celestiaorg/celestia-node/internal/verifkit"
	"github.com/celestiaorg/celestia-node/share"
	"github.com/celestiaorg/celestia-node/share/shwap"
)

// c03Recorder is a getter that records the coordinates it is asked for and answers with fn.
type c03Recorder struct {
	asked [][]shwap.SampleCoords
	fn    func(idxs []shwap.SampleCoords) ([]shwap.Sample, error)
}

func (g *c03Recorder) GetSamples(_ context.Context, _ *header.ExtendedHeader, idxs []shwap.SampleCoords) ([]shwap.Sample, error) {
	g.asked = append(g.asked, append([]shwap.SampleCoords(nil), idxs...))
	return g.fn(idxs)
}

func (g *c03Recorder) GetEDS(context.Context, *header.ExtendedHeader) (*rsmt2d.ExtendedDataSquare, error) {
	panic("verif: unexpected")
}

func (g *c03Recorder) GetRow(context.Context, *header.ExtendedHeader, int) (shwap.Row, error) {
	panic("verif: unexpected")
}

func (g *c03Recorder) GetNamespaceData(context.Context, *header.ExtendedHeader, libshare.Namespace) (shwap.NamespaceData, error) {
	panic("verif: unexpected")
}

func (g *c03Recorder) GetRangeNamespaceData(context.Context, *header.ExtendedHeader, int, int) (shwap.RangeNamespaceData, error) {
	panic("verif: unexpected")
}

// c03SyntheticRoots builds a data availability header of the given width; only its width and its
// hash matter to the light availability.
func c03SyntheticRoots(w int) *share.AxisRoots {
	mk := func(tag byte) [][]byte {
		out := make([][]byte, w)
		for i := range out {
			b := make([]byte, share.AxisRootSize)
			for j := range b {
				b[j] = byte(i*31+j*7) ^ tag
			}
			out[i] = b
		}
		return out
	}
	r := &share.AxisRoots{RowRoots: mk(0x5A), ColumnRoots: mk(0xA5)}
	r.Hash()
	return r
}

type c03DistConfig struct{ w, n, draws int }

func c03ChiBound(df int) float64 {
	const x = 40.0
	return float64(df) + 1.2*(2*math.Sqrt(float64(df)*x)+2*x)
}

// c03LogChoose returns ln C(a, n).
func c03LogChoose(a, n int) float64 {
	la, _ := math.Lgamma(float64(a + 1))
	ln, _ := math.Lgamma(float64(n + 1))
	lan, _ := math.Lgamma(float64(a - n + 1))
	return la - ln - lan
}

func c03Chi(counts []int, total int) (stat float64, expected float64) {
	expected = float64(total) / float64(len(counts))
	for _, c := range counts {
		d := float64(c) - expected
		stat += d * d / expected
	}
	return stat, expected
}

func TestVerifC03_Distribution(t *testing.T) {
	defer vk.Flush()
	os.Unsetenv("CELESTIA_OVERRIDE_AVAILABILITY_WINDOW")
	configs := []c03DistConfig{
		{2, 1, 1000}, {2, 2, 1000}, {4, 1, 2000}, {4, 5, 2000}, {8, 1, 6000}, {8, 16, 2000},
		{16, 1, 6000}, {16, 16, 4000}, {32, 16, 4000}, {32, 40, 2000}, {64, 16, 4000}, {128, 16, 3000},
		{256, 16, 3000}, {1024, 16, 2000},
	}
	if vk.Thorough() {
		for i := range configs {
			configs[i].draws *= 5
		}
	}
	var failures []string
	report := map[string]any{}
	for _, cfg := range configs {
		w, area := cfg.w, cfg.w*cfg.w
		want := min(cfg.n, area)
		roots := c03SyntheticRoots(w)
		hdr := c03Header(7, time.Now().Add(-time.Hour), roots)
		cells := make([]int, area)
		distinct := map[string]int{}
		name := fmt.Sprintf("width=%d n=%d draws=%d", w, cfg.n, cfg.draws)
		bad := func(format string, a ...any) {
			failures = append(failures, "C03/distribution "+name+": "+fmt.Sprintf(format, a...))
		}
		malformed := false
		for i := 0; i < cfg.draws && !malformed; i++ {
			rec := &c03Recorder{fn: func([]shwap.SampleCoords) ([]shwap.Sample, error) { return nil, errors.New("unavailable") }}
			la := NewShareAvailability(rec, datastore.NewMapDatastore(), nil, WithSampleAmount(uint(cfg.n)))
			err := la.SharesAvailable(context.Background(), hdr)
			if err == nil || len(rec.asked) != 1 {
				bad("fresh instance: expected one getter request and an error, got %d request(s) and err=%v", len(rec.asked), err)
				malformed = true
				break
			}
			req := c03Sorted(rec.asked[0])
			if len(req) != want || len(c03SetOf(req)) != want {
				bad("expected %d distinct coordinates in the first request, got %s", want, c03Fmt(req))
				malformed = true
				break
			}
			var key strings.Builder
			for _, c := range req {
				if c.Row < 0 || c.Col < 0 || c.Row >= w || c.Col >= w {
					bad("coordinate (%d:%d) outside the square", c.Row, c.Col)
					malformed = true
					break
				}
				cells[c.Row*w+c.Col]++
				fmt.Fprintf(&key, "%d:%d ", c.Row, c.Col)
			}
			distinct[key.String()]++
			vk.RecordHash(vk.Hash64("dist", w, cfg.n, key.String()), []string{fmt.Sprintf("dist:width=%d", w)}, true, nil)
		}
		if malformed {
			continue
		}
		total := cfg.draws * want
		rows, cols, quads := make([]int, w), make([]int, w), make([]int, 4)
		blk := 1
		if w >= 16 {
			blk = w / 8
		}
		blocks := make([]int, (w/blk)*(w/blk))
		missed := 0
		for i, c := range cells {
			r, cl := i/w, i%w
			rows[r] += c
			cols[cl] += c
			quads[2*c03b2i(r >= w/2)+c03b2i(cl >= w/2)] += c
			blocks[(r/blk)*(w/blk)+cl/blk] += c
			if c == 0 {
				missed++
			}
		}
		stats := map[string]any{"distinct_draws": len(distinct), "cells_never_hit": missed}
		if w <= 8 && missed > 0 {
			bad("expected every one of the %d cells to be drawn at least once over %d first requests; %d cell(s) never were (hits per cell %v)", area, cfg.draws, missed, cells)
		}
		for q, c := range quads {
			if c == 0 {
				bad("expected every quadrant to be drawn from; quadrant %d never was (hits per quadrant %v)", q, quads)
			}
		}
		logSubsets := c03LogChoose(area, want)
		if logSubsets > 0 && len(distinct) == 1 {
			bad("all %d fresh instances drew the same coordinates %s", cfg.draws, strings.TrimSpace(func() string {
				for k := range distinct {
					return k
				}
				return ""
			}()))
		}
		// P(some pair of draws coincides) <= draws²/2 / C(area, n)
		if w >= 16 && 2*math.Log(float64(cfg.draws))-math.Ln2-logSubsets < math.Log(1e-15) {
			if len(distinct) != cfg.draws {
				bad("expected no two fresh instances to draw the same set (C(%d,%d) possibilities); %d of %d draws repeated an earlier one", area, want, cfg.draws-len(distinct), cfg.draws)
			}
			stats["no_repeat_checked"] = true
		}
		for _, g := range []struct {
			name   string
			counts []int
		}{{"cell", cells}, {"row", rows}, {"column", cols}, {"quadrant", quads}, {"block", blocks}} {
			if len(g.counts) < 2 || (g.name == "block" && blk == 1) {
				continue
			}
			stat, exp := c03Chi(g.counts, total)
			if exp < 20 {
				continue
			}
			bound := c03ChiBound(len(g.counts) - 1)
			stats["chi_"+g.name] = fmt.Sprintf("%.1f (df %d, bound %.1f, expected/class %.1f)", stat, len(g.counts)-1, bound, exp)
			vk.Count("chi_square_checks", 1)
			if stat > bound {
				bad("hits per %s are not uniform: chi-square %.1f with %d degrees of freedom exceeds %.1f (false-alarm probability < 1e-15); expected %.1f per %s, min %d max %d",
					g.name, stat, len(g.counts)-1, bound, exp, g.name, c03Min(g.counts), c03Max(g.counts))
			}
		}
		report[name] = stats
		vk.Count("fresh_instances", int64(cfg.draws))
	}
	vk.Note("C03 distribution: %d configurations", len(configs))
	if len(failures) > 0 {
		report["failures"] = failures
		if dir := os.Getenv("VERIF_REPLAY_DIR"); dir != "" {
			data, _ := json.MarshalIndent(report, "", " ")
			_ = os.WriteFile(filepath.Join(dir, "c03_distribution.json"), data, 0o644)
		}
		sort.Strings(failures)
		t.Fatalf("VERIF-VIOLATION\n%s", strings.Join(failures, "\n"))
	}
	if os.Getenv("VERIF_C03_PRINT") != "" {
		data, _ := json.MarshalIndent(report, "", " ")
		fmt.Println(string(data))
	}
}

func c03Min(xs []int) int {
	m := xs[0]
	for _, x := range xs {
		m = min(m, x)
	}
	return m
}

func c03Max(xs []int) int {
	m := xs[0]
	for _, x := range xs {
		m = max(m, x)
	}
	return m
}

// TestVerifC03_ObserveUnverifiedSamples is an observation, not an oracle: it records whether the
// availability layer re-verifies what the getter hands it. C03 says "retrieved with a valid
// proof" and the getter contract promises verified samples, so a layer that trusts the getter
// does not violate C03; the outcome is only written to the statistics (counter
// observation_unverified_sample_accepted / _rejected). The test never fails on it.
func TestVerifC03_ObserveUnverifiedSamples(t *testing.T) {
	defer vk.Flush()
	os.Unsetenv("CELESTIA_OVERRIDE_AVAILABILITY_WINDOW")
	roots := c03SyntheticRoots(8)
	hdr := c03Header(9, time.Now().Add(-time.Hour), roots)
	rec := &c03Recorder{fn: func(idxs []shwap.SampleCoords) ([]shwap.Sample, error) {
		out := make([]shwap.Sample, len(idxs))
		for i := range out {
			out[i] = shwap.Sample{Proof: &nmt.Proof{}} // no share, empty proof: proves nothing
		}
		return out, nil
	}}
	la := NewShareAvailability(rec, datastore.NewMapDatastore(), nil, WithSampleAmount(4))
	err := la.SharesAvailable(context.Background(), hdr)
	if err == nil {
		vk.Count("observation_unverified_sample_accepted", 1)
		vk.Note("observation (not a C03 violation): SharesAvailable accepts any non-empty Sample from the getter without verifying it against the header (relies on the getter contract)")
	} else {
		vk.Count("observation_unverified_sample_rejected", 1)
	}
	vk.Record("observe-unverified", []string{"observation"}, false, nil)
}

// TestVerifC03_WitnessRetryAfterNothing is a fixed regression witness (no generated input) of the
// defect the machine found: the first check of a block is answered with nothing at all (nil slice
// and an error — what CascadeGetter returns on every failure); the retry, and a retry after a
// graceful restart, must ask for the same coordinates. Width 32 and 16 samples: a fresh draw
// coincides with the first one with probability 1/C(1024,16) < 1e-34.
func TestVerifC03_WitnessRetryAfterNothing(t *testing.T) {
	defer vk.Flush()
	os.Unsetenv("CELESTIA_OVERRIDE_AVAILABILITY_WINDOW")
	for _, restart := range []bool{false, true} {
		roots := c03SyntheticRoots(32)
		hdr := c03Header(11, time.Now().Add(-time.Hour), roots)
		rec := &c03Recorder{fn: func([]shwap.SampleCoords) ([]shwap.Sample, error) { return nil, errors.New("all getters failed") }}
		ds := datastore.NewMapDatastore()
		la := NewShareAvailability(rec, ds, nil)
		if err := la.SharesAvailable(context.Background(), hdr); err == nil {
			t.Fatalf("C03/whole-sample-set: SharesAvailable returned nil although the getter served nothing")
		}
		if restart {
			if err := la.Close(context.Background()); err != nil {
				t.Fatalf("VERIF-INFRA: Close: %v", err)
			}
			la = NewShareAvailability(rec, ds, nil)
		}
		if err := la.SharesAvailable(context.Background(), hdr); err == nil {
			t.Fatalf("C03/whole-sample-set: SharesAvailable returned nil although the getter served nothing")
		}
		vk.Record(fmt.Sprintf("witness restart=%v", restart), []string{"witness"}, true, nil)
		if len(rec.asked) != 2 {
			t.Fatalf("C03/same-coordinates: expected two getter requests, got %d", len(rec.asked))
		}
		first, second := c03Sorted(rec.asked[0]), c03Sorted(rec.asked[1])
		if c03Fmt(first) != c03Fmt(second) || len(first) != len(second) {
			if dir := os.Getenv("VERIF_REPLAY_DIR"); dir != "" {
				_ = os.WriteFile(filepath.Join(dir, "c03_witness.txt"), []byte(fmt.Sprintf("restart=%v\nfirst  %s\nsecond %s\n", restart, c03Fmt(first), c03Fmt(second))), 0o644)
			}
			t.Fatalf("VERIF-VIOLATION C03/same-coordinates (width 32, 16 samples, graceful restart in between: %v): the first check asked the getter for %s and got nothing; "+
				"expected the retry to ask for the same coordinates, it asked for %s", restart, c03Fmt(first), c03Fmt(second))
		}
	}
}
