package pruner

// C14 — differential check of the harness' fake header store (c14Store) against the real
// go-header store on the same chain: the pruner state machine is only as good as the fake's
// faithfulness to the libhead.Store contract (exclusive GetRangeByHeight bounds, not-found
// below the tail, on-delete callbacks in ascending order while the header is still readable, a
// failing callback stops the deletion and becomes the new tail).
// Harness file of /verif (injected by overlay; not part of celestia-node).

import (
	"context"
	"errors"
	"fmt"
	"testing"
	"time"

	"github.com/ipfs/go-datastore"
	dssync "github.com/ipfs/go-datastore/sync"
	"pgregory.net/rapid"

	libhead "github.com/celestiaorg/go-header"
	hstore "github.com/celestiaorg/go-header/store"

	"github.com/celestiaorg/celestia-node/header"
	"github.com/celestiaorg/celestia-node/header/headertest"
	vk "github.com/celestiaorg/celestia-node/internal/verifkit"
)

type c14DelRec struct {
	height   uint64
	readable bool
}

func c14Heights(hs []*header.ExtendedHeader) []uint64 {
	out := make([]uint64, len(hs))
	for i, h := range hs {
		out[i] = h.Height()
	}
	return out
}

func TestVerifC14_FakeStoreContract(t *testing.T) {
	defer vk.Flush()
	rapid.Check(t, func(rt *rapid.T) {
		ctx, cancel := context.WithTimeout(context.Background(), 60*time.Second)
		defer cancel()

		n := rapid.IntRange(3, 40).Draw(rt, "headers")
		suite := headertest.NewTestSuite(t, headertest.WithValidators(1),
			headertest.WithStartTime(time.Date(2025, 1, 1, 0, 0, 0, 0, time.UTC)), headertest.WithBlockTime(time.Second))
		// batch size 1: every appended header is on disk at once (headers still in the pending batch
		// are invisible to DeleteRange of the real store)
		real, err := hstore.NewStore[*header.ExtendedHeader](dssync.MutexWrap(datastore.NewMapDatastore()), hstore.WithWriteBatchSize(1))
		if err != nil {
			rt.Fatalf("VERIF-INFRA: %v", err)
		}
		if err := real.Start(ctx); err != nil {
			rt.Fatalf("VERIF-INFRA: %v", err)
		}
		defer real.Stop(ctx) //nolint:errcheck
		fake := newC14Store()
		for i := 0; i < n; i++ {
			headertest.WithBlockTime(time.Duration(rapid.IntRange(1, 20_000).Draw(rt, "gapMs")) * time.Millisecond)(suite)
			h := suite.NextHeader()
			if err := real.Append(ctx, h); err != nil {
				rt.Fatalf("VERIF-INFRA: append: %v", err)
			}
			fake.appendHeader(h)
		}
		if err := real.Sync(ctx); err != nil {
			rt.Fatalf("VERIF-INFRA: sync: %v", err)
		}
		desc := fmt.Sprintf("n=%d", n)

		compare := func(phase string) {
			rh, rerr := real.Head(ctx)
			fh, ferr := fake.Head(ctx)
			if (rerr != nil) != (ferr != nil) || (rerr == nil && rh.Height() != fh.Height()) {
				rt.Fatalf("C14-fake(%s): Head differs: real (%v,%v) fake (%v,%v)", phase, rh, rerr, fh, ferr)
			}
			rtl, rerr := real.Tail(ctx)
			ftl, ferr := fake.Tail(context.WithValue(ctx, c14MineKey{}, true))
			if (rerr != nil) != (ferr != nil) || (rerr == nil && rtl.Height() != ftl.Height()) {
				rt.Fatalf("C14-fake(%s): Tail differs: real (%v,%v) fake (%v,%v)", phase, rtl, rerr, ftl, ferr)
			}
			head := rh.Height()
			for h := uint64(0); h <= head; h++ {
				r, rerr := real.GetByHeight(ctx, h)
				f, ferr := fake.GetByHeight(ctx, h)
				if (rerr != nil) != (ferr != nil) || (rerr == nil && (r.Height() != f.Height() || !r.Time().Equal(f.Time()))) {
					rt.Fatalf("C14-fake(%s): GetByHeight(%d) differs: real err %v, fake err %v", phase, h, rerr, ferr)
				}
				if rerr != nil && h > 0 && errors.Is(rerr, libhead.ErrNotFound) != errors.Is(ferr, libhead.ErrNotFound) {
					rt.Fatalf("C14-fake(%s): GetByHeight(%d) error kinds differ: real %v, fake %v", phase, h, rerr, ferr)
				}
			}
			for i := 0; i < 12; i++ {
				from := rapid.Uint64Range(rtl.Height(), head).Draw(rt, "rangeFrom")
				to := rapid.Uint64Range(from, head+1).Draw(rt, "rangeTo") // to-1 <= head: the real store never has to wait
				fromH, _ := fake.GetByHeight(ctx, from)
				r, rerr := real.GetRangeByHeight(ctx, fromH, to)
				f, ferr := fake.GetRangeByHeight(ctx, fromH, to)
				if (rerr != nil) != (ferr != nil) || fmt.Sprint(c14Heights(r)) != fmt.Sprint(c14Heights(f)) {
					rt.Fatalf("C14-fake(%s): GetRangeByHeight(from %d, to %d) differs: real %v err %v, fake %v err %v",
						phase, from, to, c14Heights(r), rerr, c14Heights(f), ferr)
				}
			}
		}
		compare("initial")

		rounds := rapid.IntRange(1, 3).Draw(rt, "deleteRounds")
		for round := 0; round < rounds; round++ {
			tl, _ := real.Tail(ctx)
			hd, _ := real.Head(ctx)
			if tl.Height() >= hd.Height() {
				break
			}
			to := rapid.Uint64Range(tl.Height()+1, hd.Height()).Draw(rt, "deleteTo")
			failAt := uint64(0)
			if rapid.IntRange(0, 2).Draw(rt, "failing") == 0 {
				failAt = rapid.Uint64Range(tl.Height(), to-1).Draw(rt, "failAt")
			}
			desc += fmt.Sprintf(" del[%d:%d)fail@%d", tl.Height(), to, failAt)
			var realRec, fakeRec []c14DelRec
			mk := func(st libhead.Store[*header.ExtendedHeader], rec *[]c14DelRec, armed *bool) func(context.Context, uint64) error {
				return func(ctx context.Context, h uint64) error {
					if !*armed {
						return nil
					}
					_, err := st.GetByHeight(ctx, h)
					*rec = append(*rec, c14DelRec{h, err == nil})
					if h == failAt {
						return errors.New("c14: generated on-delete failure")
					}
					return nil
				}
			}
			armed := true
			real.OnDelete(mk(real, &realRec, &armed))
			fake.OnDelete(mk(fake, &fakeRec, &armed))
			rerr := real.DeleteRange(ctx, tl.Height(), to)
			ferr := fake.DeleteRange(ctx, tl.Height(), to)
			armed = false // handlers cannot be unregistered; later rounds add their own
			if (rerr != nil) != (ferr != nil) {
				rt.Fatalf("C14-fake: DeleteRange(%d,%d) fail@%d: real err %v, fake err %v", tl.Height(), to, failAt, rerr, ferr)
			}
			if fmt.Sprint(realRec) != fmt.Sprint(fakeRec) {
				rt.Fatalf("C14-fake: on-delete callbacks differ for DeleteRange(%d,%d) fail@%d: real %v, fake %v", tl.Height(), to, failAt, realRec, fakeRec)
			}
			for _, r := range realRec {
				if !r.readable {
					rt.Fatalf("C14-fake: the real store's header %d was not readable inside its on-delete callback (contract assumption of the harness)", r.height)
				}
			}
			compare(fmt.Sprintf("after delete round %d", round))
		}
		vk.Record(desc, []string{fmt.Sprintf("rounds=%d", rounds)}, true, func() any { return desc })
	})
}
