package pruner

import (
	"fmt"
	"testing"
)

func TestC14Dbg(t *testing.T) {
	w := c14Witnesses()[3]
	err := w.run()
	fmt.Println("ERR", err)
}
