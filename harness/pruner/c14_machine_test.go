package pruner

// C14 — pruning removes only data older than the availability window, and all of it.
// Harness file of /verif (injected by overlay; not part of celestia-node).
//
// A rapid state machine drives the real pruner.Service (real Start/Stop, real prune(), real
// pruneOnHeaderDelete, real checkpoint persistence in a map datastore) against
//   - a fake header store honouring the libhead.Store contract the pruner relies on
//     (Head, Tail, GetByHeight, GetRangeByHeight with exclusive bounds, OnDelete callbacks that
//     run before the header disappears and stop the deletion when they fail),
//   - a fake Pruner that records every call, decides success/failure from a generated failure
//     pattern and is the observation point of the oracles.
//
// Oracles (reference = the generated chain, never the service's own bookkeeping):
//   S  no header newer than cutoff(head at call time) = head.Time - window is passed to Prune
//      (equality is not judged);
//   M  the persisted and the in-memory LastPrunedHeight never decrease, across cycles, graceful
//      restarts and crashes;
//   T  one prune() issues at most 3*(#old headers + #failed heights)+3 Prune calls (each height
//      is attempted at most once as a retry and at most twice in batches); beyond that the
//      harness cancels the service context and reports non-termination;
//   L  after healFailures and ceil(#old/cap)+2 further cycles every header after the pruner's
//      starting point with Time < cutoff - blockTime was pruned successfully at least once or is
//      in the failed set the service retries from.

import (
	"context"
	"errors"
	"fmt"
	"os"
	"sort"
	"strings"
	"sync"
	"testing"
	"time"

	"github.com/cometbft/cometbft/types"
	"github.com/ipfs/go-datastore"
	"github.com/ipfs/go-datastore/namespace"
	dssync "github.com/ipfs/go-datastore/sync"
	logging "github.com/ipfs/go-log/v2"
	"pgregory.net/rapid"

	libhead "github.com/celestiaorg/go-header"

	"github.com/celestiaorg/celestia-node/header"
	vk "github.com/celestiaorg/celestia-node/internal/verifkit"
	"github.com/celestiaorg/celestia-node/share"
)

func init() {
	// one "pruning round finished" line per cycle would swamp the shard logs
	_ = logging.SetLogLevel("pruner/service", "fatal")
	_ = logging.SetLogLevel("header/store", "fatal") // the real store of the contract check
}

// Signatures of the violation shapes this harness can tell apart (known-finding mechanism).
const (
	c14SigAllFail   = "C14:full-batch-of-failures-never-terminates"
	c14SigOvertake  = "C14:tail-overtake-skips-new-tail"
	c14SigUnordered = "C14:unordered-on-delete-skips-lower-height"
	c14SigFailDrop  = "C14:failed-height-dropped-on-header-delete"
)

// watchdog for waits on goroutines of the code under test. A cycle over a few hundred in-memory
// headers takes well under a millisecond; 60 s is five orders of magnitude above that.
const c14Watchdog = 60 * time.Second

type c14Viol struct{ inv, sig, msg string }

func (v *c14Viol) Error() string {
	s := "C14-" + v.inv + " violated"
	if v.sig != "" {
		s += " [" + v.sig + "]"
	}
	return s + ": " + v.msg
}

// ------------------------------------------------------------------------------------------
// fake header store

type (
	c14MineKey struct{} // context created by the harness (Start/Stop)
	c14DelKey  struct{} // context handed to on-delete callbacks
)

type c14Store struct {
	mu       sync.Mutex
	headers  map[uint64]*header.ExtendedHeader
	head     *header.ExtendedHeader
	tail     *header.ExtendedHeader
	onDelete []func(context.Context, uint64) error

	getCalls int           // GetByHeight + GetRangeByHeight calls (T diagnostics)
	beyond   int           // GetByHeight above the head (the real store would block)
	runTail  chan struct{} // closed by the first Tail() call not made by the harness
}

var _ libhead.Store[*header.ExtendedHeader] = (*c14Store)(nil)

func newC14Store() *c14Store {
	return &c14Store{headers: map[uint64]*header.ExtendedHeader{}}
}

func (s *c14Store) appendHeader(h *header.ExtendedHeader) {
	s.mu.Lock()
	defer s.mu.Unlock()
	s.headers[h.Height()] = h
	s.head = h
	if s.tail == nil {
		s.tail = h
	}
}

func (s *c14Store) Head(context.Context, ...libhead.HeadOption[*header.ExtendedHeader]) (*header.ExtendedHeader, error) {
	s.mu.Lock()
	defer s.mu.Unlock()
	if s.head == nil {
		return nil, libhead.ErrEmptyStore
	}
	return s.head, nil
}

func (s *c14Store) Tail(ctx context.Context) (*header.ExtendedHeader, error) {
	s.mu.Lock()
	defer s.mu.Unlock()
	if ctx.Value(c14MineKey{}) == nil && s.runTail != nil {
		close(s.runTail)
		s.runTail = nil
	}
	if s.tail == nil {
		return nil, libhead.ErrEmptyStore
	}
	return s.tail, nil
}

func (s *c14Store) Height() uint64 {
	s.mu.Lock()
	defer s.mu.Unlock()
	return s.head.Height()
}

func (s *c14Store) Get(_ context.Context, hash libhead.Hash) (*header.ExtendedHeader, error) {
	s.mu.Lock()
	defer s.mu.Unlock()
	for _, h := range s.headers {
		if string(h.Hash()) == string(hash) {
			return h, nil
		}
	}
	return nil, libhead.ErrNotFound
}

func (s *c14Store) Has(ctx context.Context, hash libhead.Hash) (bool, error) {
	_, err := s.Get(ctx, hash)
	return err == nil, nil
}

func (s *c14Store) HasAt(_ context.Context, height uint64) bool {
	s.mu.Lock()
	defer s.mu.Unlock()
	return height != 0 && s.head.Height() >= height && height >= s.tail.Height()
}

func (s *c14Store) getLocked(height uint64) (*header.ExtendedHeader, error) {
	if height == 0 {
		return nil, errors.New("header/store: height must be bigger than zero")
	}
	if h, ok := s.headers[height]; ok {
		return h, nil
	}
	// the tail pointer of the real store keeps serving the tail header until it is moved
	if s.tail != nil && s.tail.Height() == height {
		return s.tail, nil
	}
	if s.head != nil && height > s.head.Height() {
		// the real store would wait for the height to be published; a caller holding the
		// checkpoint lock must not do that, the fake answers at once and counts it
		s.beyond++
	}
	return nil, fmt.Errorf("height %d: %w", height, libhead.ErrNotFound)
}

func (s *c14Store) GetByHeight(_ context.Context, height uint64) (*header.ExtendedHeader, error) {
	s.mu.Lock()
	defer s.mu.Unlock()
	s.getCalls++
	return s.getLocked(height)
}

// GetRangeByHeight returns (from.Height() : to), both bounds exclusive, complete or an error
// (what the real store does; it never returns a shortened prefix).
func (s *c14Store) GetRangeByHeight(_ context.Context, from *header.ExtendedHeader, to uint64) ([]*header.ExtendedHeader, error) {
	s.mu.Lock()
	defer s.mu.Unlock()
	s.getCalls++
	return s.rangeLocked(from.Height()+1, to)
}

func (s *c14Store) GetRange(_ context.Context, from, to uint64) ([]*header.ExtendedHeader, error) {
	s.mu.Lock()
	defer s.mu.Unlock()
	s.getCalls++
	return s.rangeLocked(from, to)
}

func (s *c14Store) rangeLocked(from, to uint64) ([]*header.ExtendedHeader, error) {
	if from >= to {
		return nil, fmt.Errorf("header/store: invalid range(%d,%d)", from, to)
	}
	out := make([]*header.ExtendedHeader, 0, to-from)
	for h := from; h < to; h++ {
		eh, err := s.getLocked(h)
		if err != nil {
			return nil, err
		}
		out = append(out, eh)
	}
	return out, nil
}

func (s *c14Store) Append(_ context.Context, hs ...*header.ExtendedHeader) error {
	for _, h := range hs {
		s.appendHeader(h)
	}
	return nil
}

func (s *c14Store) OnDelete(fn func(context.Context, uint64) error) {
	s.mu.Lock()
	defer s.mu.Unlock()
	s.onDelete = append(s.onDelete, fn)
}

func (s *c14Store) clearHandlers() {
	s.mu.Lock()
	defer s.mu.Unlock()
	s.onDelete = nil
}

// DeleteRange is the sequential path of the real store for a tail-moving range.
func (s *c14Store) DeleteRange(ctx context.Context, from, to uint64) error {
	s.mu.Lock()
	tail, head := s.tail.Height(), s.head.Height()
	s.mu.Unlock()
	if from != tail || to <= from || to > head {
		return fmt.Errorf("c14Store: unsupported delete range [%d:%d) with tail %d head %d", from, to, tail, head)
	}
	order := make([]uint64, 0, to-from)
	for h := from; h < to; h++ {
		order = append(order, h)
	}
	_, err := s.advance(ctx, to, order, true)
	return err
}

// advance deletes the heights of order (a permutation of [tail, to)) the way the real store
// does: per height all on-delete handlers run first and the header stays readable for them; a
// failing handler stops the deletion and the failing height becomes the new tail. With
// deferred=true the headers disappear only when the whole range is done (the real store deletes
// through a write batch that is committed at the end), otherwise one by one (equally within the
// contract). The tail pointer moves at the end in both modes.
func (s *c14Store) advance(ctx context.Context, to uint64, order []uint64, deferred bool) (stoppedAt uint64, err error) {
	s.mu.Lock()
	handlers := append([]func(context.Context, uint64) error(nil), s.onDelete...)
	s.mu.Unlock()
	ctx = context.WithValue(ctx, c14DelKey{}, true)

	newTail := to
	var gone []uint64
loop:
	for _, h := range order {
		for _, fn := range handlers {
			if err = fn(ctx, h); err != nil {
				newTail = h
				err = fmt.Errorf("on delete handler for %d: %w", h, err)
				break loop
			}
		}
		if deferred {
			gone = append(gone, h)
		} else {
			s.mu.Lock()
			delete(s.headers, h)
			s.mu.Unlock()
		}
	}
	s.mu.Lock()
	defer s.mu.Unlock()
	for _, h := range gone {
		delete(s.headers, h)
	}
	nt, ok := s.headers[newTail]
	if !ok {
		return newTail, fmt.Errorf("VERIF-INFRA: c14Store: new tail %d is not in the store (%v)", newTail, err)
	}
	s.tail = nt
	return newTail, err
}

func (s *c14Store) snapshot() (tail, head *header.ExtendedHeader) {
	s.mu.Lock()
	defer s.mu.Unlock()
	return s.tail, s.head
}

// ------------------------------------------------------------------------------------------
// failure pattern and fake Pruner

type c14Fail struct {
	kind     string // none | all | pct | run | transient
	seed     uint64
	pct      int
	from, to uint64 // run: heights in [from,to] fail
	n        int    // transient: the first n attempts on a selected height fail
	attempts map[uint64]int
}

func (f *c14Fail) String() string {
	switch f.kind {
	case "pct":
		return fmt.Sprintf("pct(%d%%,seed=%d)", f.pct, f.seed)
	case "run":
		return fmt.Sprintf("run[%d..%d]", f.from, f.to)
	case "transient":
		return fmt.Sprintf("transient(n=%d,%d%%,seed=%d)", f.n, f.pct, f.seed)
	}
	return f.kind
}

func (f *c14Fail) selected(h uint64) bool {
	return int(vk.Hash64("c14fail", f.seed, h)%100) < f.pct
}

func (f *c14Fail) fails(h uint64) bool {
	switch f.kind {
	case "all":
		return true
	case "pct":
		return f.selected(h)
	case "run":
		return h >= f.from && h <= f.to
	case "transient":
		if !f.selected(h) {
			return false
		}
		f.attempts[h]++
		return f.attempts[h] <= f.n
	}
	return false
}

type c14Call struct {
	height uint64
	ok     bool
	onDel  bool
	cycle  int // sequence number of the cycle the call belongs to (0 = outside a cycle)
}

type c14Gate struct {
	paused  chan struct{}
	release chan struct{}
}

type c14Crash struct{}

type c14Pruner struct {
	m  *c14Machine
	mu sync.Mutex

	fail     c14Fail
	prunedOK map[uint64]int      // height -> successful Prune calls
	failed   map[uint64]struct{} // heights whose last Prune call failed
	calls    []c14Call
	safety   *c14Viol // first S violation

	armed      bool
	cycleSeq   int
	cycleCalls int
	limit      int
	overrun    bool
	crashAt    int // panic with c14Crash on this cycle call (0 = never)
	failRun    int // consecutive failed Prune calls within the current cycle

	gate *c14Gate // pauses the next on-delete Prune call
}

func (p *c14Pruner) Prune(ctx context.Context, eh *header.ExtendedHeader) error {
	onDel := ctx.Value(c14DelKey{}) != nil
	if onDel {
		p.mu.Lock()
		g := p.gate
		p.gate = nil
		p.mu.Unlock()
		if g != nil {
			close(g.paused)
			<-g.release
		}
	}

	p.mu.Lock()
	defer p.mu.Unlock()
	m := p.m
	h := eh.Height()

	// S: the reference is the generated chain and the head at the time of the call
	_, head := m.hs.snapshot()
	cutoff := head.Time().Add(-m.window)
	if p.safety == nil {
		switch ref, ok := m.chain[h]; {
		case !ok || ref != eh:
			p.safety = &c14Viol{inv: "S", msg: fmt.Sprintf(
				"Prune was called with a header at height %d that is not the header the store holds at that height", h)}
		case eh.Time().After(cutoff):
			p.safety = &c14Viol{inv: "S", msg: fmt.Sprintf(
				"Prune(height %d, time %s) while head is %d at %s and window %s: cutoff is %s, the block is %s inside the window (ondelete=%v)",
				h, m.rel(eh.Time()), head.Height(), m.rel(head.Time()), m.window, m.rel(cutoff), eh.Time().Sub(cutoff), onDel)}
		}
	}

	seq := 0
	if p.armed && !onDel {
		seq = p.cycleSeq
		p.cycleCalls++
		if p.cycleCalls > p.limit && !p.overrun {
			p.overrun = true
			m.svc.cancel() // the only way out of prune()'s loop
		}
		if p.crashAt != 0 && p.cycleCalls == p.crashAt {
			p.crashAt = 0
			panic(c14Crash{})
		}
	}

	ok := !p.fail.fails(h)
	if seq != 0 {
		// known-finding guard: while the non-terminating shape is listed as open, no cycle is
		// allowed to see a batch without progress: cap consecutive failures, or cap-1 of them
		// behind the always re-included first header - the (cap-1)-th failure in a row is healed
		if !ok && !m.noGuards && p.failRun >= m.p.Cap-2 && vk.KnownOpen(c14SigAllFail) {
			vk.Excluded(c14SigAllFail)
			ok = true
		}
		if ok {
			p.failRun = 0
		} else {
			p.failRun++
		}
	}
	p.calls = append(p.calls, c14Call{height: h, ok: ok, onDel: onDel, cycle: seq})
	if !ok {
		p.failed[h] = struct{}{}
		m.anyFailure = true
		return fmt.Errorf("c14: generated prune failure at height %d", h)
	}
	delete(p.failed, h)
	p.prunedOK[h]++
	return nil
}

// ------------------------------------------------------------------------------------------
// machine

type c14Params struct {
	BlockTime time.Duration
	Window    time.Duration
	Cap       int
	StartH    uint64
	Ratio     float64 // typical actual block time / configured block time
	MaxChain  int
}

type c14Machine struct {
	p     c14Params
	base  time.Time
	hs    *c14Store
	pr    *c14Pruner
	ds    datastore.Batching
	svc   *Service
	chain map[uint64]*header.ExtendedHeader // every header ever appended

	window   time.Duration
	noGuards bool // fixed witnesses: known-finding exemptions off

	startTail     uint64 // the pruner's starting point: tail when the checkpoint was initialised
	lastPersisted uint64
	lastMem       uint64

	// bookkeeping for shapes, labels, description
	log          []string
	labels       map[string]struct{}
	anyFailure   bool
	tailAdvances int
	overtaken    map[uint64]struct{} // heights that became the tail while above the checkpoint
	unordered    map[uint64]struct{} // heights deleted through an unordered advance
	dropFailed   map[uint64]struct{} // heights deleted while their last prune attempt had failed
	gaps         []time.Duration
	oldCap       int
}

func (m *c14Machine) rel(t time.Time) string { return "T+" + t.Sub(m.base).String() }

func (m *c14Machine) label(l string) { m.labels[l] = struct{}{} }

func (m *c14Machine) logf(format string, a ...any) { m.log = append(m.log, fmt.Sprintf(format, a...)) }

func newC14Machine(p c14Params) *c14Machine {
	m := &c14Machine{
		p:          p,
		base:       time.Date(2025, 1, 1, 0, 0, 0, 0, time.UTC),
		hs:         newC14Store(),
		ds:         dssync.MutexWrap(datastore.NewMapDatastore()),
		chain:      map[uint64]*header.ExtendedHeader{},
		window:     p.Window,
		labels:     map[string]struct{}{},
		overtaken:  map[uint64]struct{}{},
		unordered:  map[uint64]struct{}{},
		dropFailed: map[uint64]struct{}{},
	}
	m.pr = &c14Pruner{m: m, fail: c14Fail{kind: "none"}, prunedOK: map[uint64]int{}, failed: map[uint64]struct{}{}}
	m.oldCap = maxHeadersPerLoop
	maxHeadersPerLoop = p.Cap
	return m
}

// close stops whatever is still running and restores the package variable.
func (m *c14Machine) close() {
	if m.svc != nil {
		m.kill()
	}
	maxHeadersPerLoop = m.oldCap
}

var c14Roots = share.EmptyEDSRoots()

// appendOne adds a header gap after the current head (or at base time for the first one).
func (m *c14Machine) appendOne(gap time.Duration) {
	_, head := m.hs.snapshot()
	height, ts := m.p.StartH, m.base
	if head != nil {
		height, ts = head.Height()+1, head.Time().Add(gap)
		m.gaps = append(m.gaps, gap)
	}
	eh := &header.ExtendedHeader{
		RawHeader: header.RawHeader{ChainID: "c14", Height: int64(height), Time: ts},
		Commit:    &types.Commit{Height: int64(height), BlockID: types.BlockID{Hash: []byte(fmt.Sprintf("c14-%020d", height))}},
		DAH:       c14Roots,
	}
	m.chain[height] = eh
	m.hs.appendHeader(eh)
}

func (m *c14Machine) readPersisted() (*checkpoint, error) {
	return getCheckpoint(context.Background(), namespace.Wrap(m.ds, storePrefix))
}

func (m *c14Machine) memCheckpoint() (uint64, int) {
	m.svc.checkpointMu.Lock()
	defer m.svc.checkpointMu.Unlock()
	if m.svc.checkpoint == nil {
		return 0, 0
	}
	return m.svc.checkpoint.LastPrunedHeight, len(m.svc.checkpoint.FailedHeaders)
}

// cycleBudget arms the T oracle for the next prune().
func (m *c14Machine) cycleBudget() (old, limit int) {
	m.hs.mu.Lock()
	head := m.hs.head
	cutoff := head.Time().Add(-m.window)
	for _, h := range m.hs.headers {
		if !h.Time().After(cutoff) {
			old++
		}
	}
	m.hs.mu.Unlock()
	m.pr.mu.Lock()
	defer m.pr.mu.Unlock()
	limit = 3*(old+len(m.pr.failed)) + 3
	m.pr.armed, m.pr.cycleCalls, m.pr.limit, m.pr.overrun, m.pr.failRun = true, 0, limit, false, 0
	m.pr.cycleSeq++
	if old > m.p.Cap {
		m.label("batch-cap-hit")
	}
	return old, limit
}

// cycleVerdict disarms the T oracle and judges the cycle that just ended.
func (m *c14Machine) cycleVerdict(old, limit int) error {
	m.pr.mu.Lock()
	defer m.pr.mu.Unlock()
	m.pr.armed = false
	seq := m.pr.cycleSeq
	// label: a full batch in which every prune failed
	run, maxRun := 0, 0
	for _, c := range m.pr.calls {
		if c.cycle != seq {
			continue
		}
		if c.ok {
			run = 0
		} else {
			run++
			maxRun = max(maxRun, run)
		}
	}
	if maxRun >= m.p.Cap {
		m.label("all-fail-batch")
	}
	if m.pr.overrun {
		return &c14Viol{inv: "T", sig: c14SigAllFail, msg: fmt.Sprintf(
			"one prune() issued more than %d Prune calls (bound 3*(%d old headers + failed heights)+3) and only ended when the harness cancelled the service context; "+
				"cap=%d, failure pattern %s, last calls: %s", limit, old, m.p.Cap, m.pr.fail.String(), m.lastCalls(12))}
	}
	return nil
}

func (m *c14Machine) lastCalls(n int) string {
	c := m.pr.calls
	if len(c) > n {
		c = c[len(c)-n:]
	}
	var b strings.Builder
	for _, x := range c {
		r := "ok"
		if !x.ok {
			r = "FAIL"
		}
		fmt.Fprintf(&b, "%d:%s ", x.height, r)
	}
	return b.String()
}

func c14Wait(ch <-chan struct{}, what string) error {
	select {
	case <-ch:
		return nil
	case <-time.After(c14Watchdog):
		return &c14Viol{inv: "T", msg: fmt.Sprintf("VERIF-VIOLATION: %s did not finish within %s (work is in-memory and sub-millisecond)", what, c14Watchdog)}
	}
}

// start constructs a Service over the persisted datastore, like a node start: handlers of the
// previous process are gone, NewService registers the new one, Start loads the checkpoint and
// runs the first cycle at once (the ticker never fires again within a test).
func (m *c14Machine) start() error {
	m.hs.clearHandlers()
	svc, err := NewService(m.pr, m.window, m.hs, m.ds, m.p.BlockTime, WithPruneCycle(1000*time.Hour))
	if err != nil {
		return fmt.Errorf("VERIF-INFRA: NewService: %w", err)
	}
	m.svc = svc
	first := m.startTail == 0
	if first {
		tail, _ := m.hs.snapshot()
		m.startTail = tail.Height()
	}
	runTail := make(chan struct{})
	m.hs.mu.Lock()
	m.hs.runTail = runTail
	m.hs.mu.Unlock()

	old, limit := m.cycleBudget()
	ctx := context.WithValue(context.Background(), c14MineKey{}, true)
	if err := svc.Start(ctx); err != nil {
		return &c14Viol{inv: "M", msg: fmt.Sprintf("Start failed on a datastore written by the service itself: %v", err)}
	}
	// the run goroutine's first prune(): it has begun once Tail() was asked without our marker,
	// and it holds checkpointMu until it returns
	if err := c14Wait(runTail, "first pruning cycle after Start"); err != nil {
		return err
	}
	done := make(chan struct{})
	go func() {
		svc.checkpointMu.Lock()
		svc.checkpointMu.Unlock() //nolint:staticcheck
		close(done)
	}()
	if err := c14Wait(done, "first pruning cycle after Start"); err != nil {
		return err
	}
	if err := m.cycleVerdict(old, limit); err != nil {
		return err
	}
	return m.afterAction(true)
}

// stop is a graceful shutdown (persists the checkpoint).
func (m *c14Machine) stop() error {
	ctx, cancel := context.WithTimeout(context.WithValue(context.Background(), c14MineKey{}, true), c14Watchdog)
	defer cancel()
	memBefore, _ := m.memCheckpoint()
	if err := m.svc.Stop(ctx); err != nil {
		return &c14Viol{inv: "T", msg: fmt.Sprintf("VERIF-VIOLATION: Stop: %v", err)}
	}
	m.svc = nil
	cp, err := m.readPersisted()
	if err != nil {
		return &c14Viol{inv: "M", msg: fmt.Sprintf("no readable checkpoint after a graceful stop: %v", err)}
	}
	if cp.LastPrunedHeight < memBefore || cp.LastPrunedHeight < m.lastPersisted {
		return &c14Viol{inv: "M", msg: fmt.Sprintf(
			"graceful stop persisted LastPrunedHeight %d although the service had reached %d (persisted before: %d)",
			cp.LastPrunedHeight, memBefore, m.lastPersisted)}
	}
	m.lastPersisted = cp.LastPrunedHeight
	return nil
}

// kill ends the process without persisting anything (the run goroutine does not write).
func (m *c14Machine) kill() {
	m.svc.cancel()
	<-m.svc.doneCh
	m.svc = nil
}

// cycle runs one real prune() on the caller's goroutine. crashAt > 0 makes the crashAt-th Prune
// call of the cycle panic (a process crash at that point); the harness then discards the service.
func (m *c14Machine) cycle(crashAt int) (crashed bool, err error) {
	old, limit := m.cycleBudget()
	m.pr.mu.Lock()
	m.pr.crashAt = crashAt
	m.pr.mu.Unlock()
	func() {
		defer func() {
			if r := recover(); r != nil {
				if _, ok := r.(c14Crash); !ok {
					panic(r)
				}
				crashed = true
			}
		}()
		m.svc.prune(m.svc.ctx)
	}()
	m.pr.mu.Lock()
	m.pr.crashAt = 0
	m.pr.mu.Unlock()
	if err := m.cycleVerdict(old, limit); err != nil {
		return crashed, err
	}
	if crashed {
		m.kill()
		return true, m.start()
	}
	return false, m.afterAction(false)
}

// afterAction evaluates S and M.
func (m *c14Machine) afterAction(restarted bool) error {
	m.pr.mu.Lock()
	sv := m.pr.safety
	m.pr.mu.Unlock()
	if sv != nil {
		return sv
	}
	m.hs.mu.Lock()
	beyond := m.hs.beyond
	m.hs.beyond = 0
	m.hs.mu.Unlock()
	if beyond > 0 {
		vk.Count("c14_getbyheight_beyond_head", int64(beyond))
	}
	cp, err := m.readPersisted()
	if err != nil {
		return &c14Viol{inv: "M", msg: fmt.Sprintf("persisted checkpoint unreadable: %v", err)}
	}
	prevPersisted := m.lastPersisted
	if cp.LastPrunedHeight < prevPersisted {
		return &c14Viol{inv: "M", msg: fmt.Sprintf(
			"persisted LastPrunedHeight moved backwards: %d -> %d", prevPersisted, cp.LastPrunedHeight)}
	}
	m.lastPersisted = cp.LastPrunedHeight
	mem, _ := m.memCheckpoint()
	if restarted {
		// a crash may lose progress that was never persisted, nothing more (a graceful stop has
		// already been checked to persist everything the service had reached)
		if mem < prevPersisted {
			return &c14Viol{inv: "M", msg: fmt.Sprintf(
				"checkpoint did not survive the restart: LastPrunedHeight %d was persisted, the new service resumed at %d", prevPersisted, mem)}
		}
	} else if mem < m.lastMem {
		return &c14Viol{inv: "M", msg: fmt.Sprintf(
			"in-memory LastPrunedHeight moved backwards: %d -> %d (persisted %d)", m.lastMem, mem, m.lastPersisted)}
	}
	m.lastMem = mem
	return nil
}

// maxTailTarget is the highest height the header store's tail may move to: everything below it
// is strictly older than cutoff(head) (Syncer.PruningWindow >= pruner window), and the head stays.
func (m *c14Machine) maxTailTarget() (tail, maxTo uint64) {
	t, head := m.hs.snapshot()
	cutoff := head.Time().Add(-m.window)
	maxTo = t.Height()
	for maxTo < head.Height() && m.chain[maxTo].Time().Before(cutoff) {
		maxTo++
	}
	return t.Height(), maxTo
}

// advanceTail moves the header-store tail to `to`, firing the on-delete callbacks. order is the
// callback order (nil = ascending). duringCycle pauses the first callback that reaches
// Pruner.Prune, runs a full cycle meanwhile, then lets the deletion finish.
func (m *c14Machine) advanceTail(to uint64, order []uint64, deferred, duringCycle bool) error {
	tail, maxTo := m.maxTailTarget()
	if to <= tail || to > maxTo {
		return fmt.Errorf("VERIF-INFRA: advanceTail(%d) outside (%d,%d]", to, tail, maxTo)
	}
	unordered := order != nil
	if order == nil {
		for h := tail; h < to; h++ {
			order = append(order, h)
		}
	}
	memBefore, _ := m.memCheckpoint()
	m.pr.mu.Lock()
	failedBefore := make(map[uint64]struct{}, len(m.pr.failed))
	for h := range m.pr.failed {
		failedBefore[h] = struct{}{}
	}
	m.pr.mu.Unlock()

	var (
		stopped uint64
		delErr  error
	)
	ctx := context.WithValue(context.Background(), c14MineKey{}, true)
	if !duringCycle {
		stopped, delErr = m.hs.advance(ctx, to, order, deferred)
	} else {
		g := &c14Gate{paused: make(chan struct{}), release: make(chan struct{})}
		m.pr.mu.Lock()
		m.pr.gate = g
		m.pr.mu.Unlock()
		done := make(chan struct{})
		go func() {
			defer close(done)
			stopped, delErr = m.hs.advance(ctx, to, order, deferred)
		}()
		select {
		case <-g.paused:
			m.label("delete-during-cycle")
			_, cerr := m.cycle(0)
			close(g.release)
			if werr := c14Wait(done, "header deletion concurrent with a cycle"); werr != nil {
				return werr
			}
			if cerr != nil {
				return cerr
			}
		case <-done:
			// no callback reached Prune: every height was already covered by the checkpoint
			m.pr.mu.Lock()
			m.pr.gate = nil
			m.pr.mu.Unlock()
		case <-time.After(c14Watchdog):
			return &c14Viol{inv: "T", msg: "VERIF-VIOLATION: header deletion neither reached Prune nor finished within the watchdog"}
		}
	}
	if delErr != nil && strings.Contains(delErr.Error(), "VERIF-INFRA") {
		return delErr
	}
	if unordered && delErr != nil {
		return fmt.Errorf("VERIF-INFRA: unordered advance is only generated while no prune can fail, got %v", delErr)
	}
	m.tailAdvances++
	// shape bookkeeping (labels and signatures only; the oracle is L)
	for _, h := range order {
		if h >= stopped {
			continue
		}
		if unordered {
			m.unordered[h] = struct{}{}
		}
		if _, f := failedBefore[h]; f {
			m.dropFailed[h] = struct{}{}
		}
	}
	m.pr.mu.Lock()
	for h := range m.pr.failed { // failed during a concurrent cycle, then deleted
		if h < stopped && h >= tail {
			m.dropFailed[h] = struct{}{}
		}
	}
	m.pr.mu.Unlock()
	if stopped > memBefore {
		m.label("tail-overtakes-pruner")
		m.overtaken[stopped] = struct{}{}
	}
	return m.afterAction(false)
}

// drain heals all failures, runs the bounded number of cycles and evaluates L.
func (m *c14Machine) drain() error {
	m.pr.mu.Lock()
	m.pr.fail = c14Fail{kind: "none"}
	m.pr.mu.Unlock()
	_, head := m.hs.snapshot()
	cutoff := head.Time().Add(-m.window)
	old := 0
	for h := m.startTail + 1; h <= head.Height(); h++ {
		if !m.chain[h].Time().After(cutoff) {
			old++
		}
	}
	cycles := (old+m.p.Cap-1)/m.p.Cap + 2
	for i := 0; i < cycles; i++ {
		if _, err := m.cycle(0); err != nil {
			return err
		}
	}
	return m.checkL()
}

func (m *c14Machine) checkL() error {
	_, head := m.hs.snapshot()
	cutoff := head.Time().Add(-m.window)
	bound := cutoff.Add(-m.p.BlockTime)
	cp, err := m.readPersisted()
	if err != nil {
		return &c14Viol{inv: "M", msg: fmt.Sprintf("persisted checkpoint unreadable: %v", err)}
	}
	m.hs.mu.Lock()
	stored := make(map[uint64]struct{}, len(m.hs.headers))
	for h := range m.hs.headers {
		stored[h] = struct{}{}
	}
	m.hs.mu.Unlock()
	// "recorded as failed and retried": the set the live service retries from (the persisted copy
	// may be stale in either direction until the next batch or Stop)
	m.svc.checkpointMu.Lock()
	live := make(map[uint64]struct{}, len(m.svc.checkpoint.FailedHeaders))
	for h := range m.svc.checkpoint.FailedHeaders {
		live[h] = struct{}{}
	}
	m.svc.checkpointMu.Unlock()
	m.pr.mu.Lock()
	defer m.pr.mu.Unlock()
	var missing []uint64
	for h := m.startTail + 1; h <= head.Height(); h++ {
		if !m.chain[h].Time().Before(bound) {
			break
		}
		if m.pr.prunedOK[h] > 0 {
			continue
		}
		if _, ok := live[h]; ok {
			// recorded as failed: fine if it can no longer be retried (header gone), but a stored
			// header must have been retried - and, failures being healed, pruned - by now
			if _, st := stored[h]; st {
				return &c14Viol{inv: "L", msg: fmt.Sprintf(
					"height %d is recorded as failed and its header is stored, but none of the cycles after healing pruned it: failed heights are not retried (failed set %v)",
					h, c14Keys(live))}
			}
			continue
		}
		missing = append(missing, h)
	}
	if len(missing) == 0 {
		return nil
	}
	// classify by the first height that is not the shape of an open known finding
	var report *c14Viol
	for _, h := range missing {
		sig, why := "", "it was neither deleted from the header store nor covered by a failure"
		if _, ok := m.dropFailed[h]; ok {
			sig, why = c14SigFailDrop, "its last prune attempt had failed and then its header was deleted: the height was dropped from the failed set without a retry"
		} else if _, ok := m.overtaken[h]; ok {
			sig, why = c14SigOvertake, "it became the header-store tail while above the checkpoint: the cycle recorded it as last pruned without pruning it"
		} else if _, ok := m.unordered[h]; ok {
			sig, why = c14SigUnordered, "its on-delete callback ran after the callback of a higher height had raised the checkpoint"
		}
		if sig != "" && !m.noGuards && vk.KnownOpen(sig) {
			vk.Excluded(sig)
			continue
		}
		_, inStore := stored[h]
		report = &c14Viol{inv: "L", sig: sig, msg: fmt.Sprintf(
			"height %d (time %s) lies after the starting point %d and is older than cutoff-blockTime (%s; head %d at %s, window %s, blockTime %s) "+
				"but after healing and the bounded number of cycles it was never pruned successfully and is not in the service's failed set %v "+
				"(LastPrunedHeight %d, header still stored: %v): %s; all such heights: %v",
			h, m.rel(m.chain[h].Time()), m.startTail, m.rel(bound), head.Height(), m.rel(head.Time()), m.window, m.p.BlockTime,
			c14Keys(live), cp.LastPrunedHeight, inStore, why, missing)}
		break
	}
	if report == nil {
		return nil
	}
	return report
}

func c14Keys(m map[uint64]struct{}) []uint64 {
	out := make([]uint64, 0, len(m))
	for k := range m {
		out = append(out, k)
	}
	sort.Slice(out, func(i, j int) bool { return out[i] < out[j] })
	return out
}

// ------------------------------------------------------------------------------------------
// generated histories

func c14GenGap(t *rapid.T, p c14Params) time.Duration {
	bt := float64(p.BlockTime)
	var g float64
	switch k := rapid.IntRange(0, 19).Draw(t, "gapkind"); {
	case k == 0: // long gap (chain halt)
		g = bt * float64(rapid.IntRange(5, 60).Draw(t, "halt"))
	case k == 1: // burst
		g = bt * 0.05
	case k <= 4: // exactly the estimate
		g = bt
	default:
		g = bt * p.Ratio * (0.5 + float64(rapid.IntRange(0, 100).Draw(t, "jitter"))/100)
	}
	d := time.Duration(g).Truncate(time.Millisecond)
	if d < time.Millisecond {
		d = time.Millisecond
	}
	return d
}

func c14GenFail(t *rapid.T, m *c14Machine) c14Fail {
	tail, head := m.hs.snapshot()
	switch rapid.SampledFrom([]string{"none", "none", "all", "pct", "pct", "run", "run", "transient"}).Draw(t, "failkind") {
	case "all":
		return c14Fail{kind: "all"}
	case "pct":
		return c14Fail{kind: "pct", seed: rapid.Uint64Range(0, 1<<20).Draw(t, "failseed"), pct: rapid.IntRange(5, 80).Draw(t, "failpct")}
	case "run":
		from := rapid.Uint64Range(tail.Height(), head.Height()).Draw(t, "runfrom")
		return c14Fail{kind: "run", from: from, to: from + uint64(rapid.IntRange(0, 2*m.p.Cap+2).Draw(t, "runlen"))}
	case "transient":
		return c14Fail{kind: "transient", seed: rapid.Uint64Range(0, 1<<20).Draw(t, "failseed"),
			pct: rapid.SampledFrom([]int{20, 50, 100}).Draw(t, "failpct"), n: rapid.IntRange(1, 3).Draw(t, "failn"), attempts: map[uint64]int{}}
	}
	return c14Fail{kind: "none"}
}

func c14Fatal(t *rapid.T, err error) {
	if err != nil {
		t.Fatalf("%v", err)
	}
}

func TestVerifC14_Machine(t *testing.T) {
	defer vk.Flush()
	maxChain, maxInit := 120, 60
	if vk.Thorough() {
		maxChain, maxInit = 300, 150
	}
	rapid.Check(t, func(t *rapid.T) {
		btMs := rapid.SampledFrom([]int{500, 1000, 6000, 6000, 12000}).Draw(t, "blockTimeMs")
		p := c14Params{
			BlockTime: time.Duration(btMs) * time.Millisecond,
			Cap:       rapid.SampledFrom([]int{2, 3, 4, 5, 6, 8, 512}).Draw(t, "cap"),
			StartH:    rapid.SampledFrom([]uint64{1, 1, 2, 37, 100_000}).Draw(t, "startHeight"),
			Ratio:     rapid.SampledFrom([]float64{0.2, 0.5, 0.9, 1, 1.1, 2, 5}).Draw(t, "ratio"),
			MaxChain:  maxChain,
		}
		// window of 3..40 configured block times, plus a sub-block-time remainder
		p.Window = time.Duration(rapid.IntRange(3, 40).Draw(t, "windowBlocks"))*p.BlockTime +
			time.Duration(rapid.IntRange(0, btMs-1).Draw(t, "windowRemMs"))*time.Millisecond
		m := newC14Machine(p)
		t.Cleanup(m.close)

		n0 := rapid.IntRange(5, maxInit).Draw(t, "initialHeaders")
		m.appendOne(0)
		for i := 1; i < n0; i++ {
			m.appendOne(c14GenGap(t, p))
		}
		m.pr.fail = c14GenFail(t, m)
		m.logf("init start=%d n=%d bt=%s window=%s cap=%d ratio=%.1f fail=%s", p.StartH, n0, p.BlockTime, p.Window, p.Cap, p.Ratio, m.pr.fail.String())
		c14Fatal(t, m.start())

		t.Repeat(map[string]func(*rapid.T){
			"appendHeaders": func(t *rapid.T) {
				if len(m.chain) >= p.MaxChain {
					t.Skip("chain is long enough")
				}
				k := rapid.IntRange(1, 20).Draw(t, "k")
				for i := 0; i < k && len(m.chain) < p.MaxChain; i++ {
					m.appendOne(c14GenGap(t, p))
				}
				m.logf("append %d", k)
			},
			"cycle": func(t *rapid.T) {
				crashAt := 0
				if rapid.IntRange(0, 7).Draw(t, "crashMid") == 0 {
					crashAt = rapid.IntRange(1, 2*p.Cap+1).Draw(t, "crashAt")
				}
				crashed, err := m.cycle(crashAt)
				m.logf("cycle crashAt=%d crashed=%v", crashAt, crashed)
				if crashed {
					m.label("crash-mid-cycle")
				}
				c14Fatal(t, err)
			},
			"advanceTail": func(t *rapid.T) {
				tail, maxTo := m.maxTailTarget()
				if maxTo <= tail {
					t.Skip("nothing old enough below the head")
				}
				to := maxTo // the syncer moves the tail to the window boundary ...
				if rapid.IntRange(0, 2).Draw(t, "partial") == 0 {
					to = rapid.Uint64Range(tail+1, maxTo).Draw(t, "to") // ... or stops earlier
				}
				var order []uint64
				mode := "ordered"
				m.pr.mu.Lock()
				canFail := m.pr.fail.kind != "none"
				m.pr.mu.Unlock()
				if !canFail && to-tail >= 2 && rapid.IntRange(0, 3).Draw(t, "unordered") == 0 {
					// the parallel path of the real store (ranges >= 10000): callbacks complete out of
					// order; modelled as local swaps within a window of 8 heights
					mode = "unordered"
					for h := tail; h < to; h++ {
						order = append(order, h)
					}
					swaps := rapid.IntRange(1, 4).Draw(t, "swaps")
					for i := 0; i < swaps; i++ {
						a := rapid.IntRange(0, len(order)-2).Draw(t, "swapAt")
						b := min(len(order)-1, a+rapid.IntRange(1, 7).Draw(t, "swapDist"))
						order[a], order[b] = order[b], order[a]
					}
					m.label("ondelete=unordered")
				}
				deferred := rapid.Bool().Draw(t, "deferredDelete")
				during := mode == "ordered" && rapid.IntRange(0, 2).Draw(t, "duringCycle") == 0
				m.logf("advanceTail %d->%d %s deferred=%v duringCycle=%v order=%v", tail, to, mode, deferred, during, order)
				c14Fatal(t, m.advanceTail(to, order, deferred || during, during))
			},
			"restartGraceful": func(t *rapid.T) {
				m.logf("restartGraceful")
				m.label("restart=graceful")
				c14Fatal(t, m.stop())
				c14Fatal(t, m.start())
			},
			"crash": func(t *rapid.T) {
				m.logf("crash")
				m.label("restart=crash")
				m.kill()
				c14Fatal(t, m.start())
			},
			"setFailures": func(t *rapid.T) {
				f := c14GenFail(t, m)
				m.pr.mu.Lock()
				m.pr.fail = f
				m.pr.mu.Unlock()
				m.logf("setFailures %s", f.String())
			},
			"healAndDrain": func(t *rapid.T) {
				m.logf("healAndDrain")
				c14Fatal(t, m.drain())
			},
		})

		// every history ends with the bounded-completeness check
		m.logf("final drain")
		c14Fatal(t, m.drain())
		m.record()
	})
}

// record reports the finished history to the statistics.
func (m *c14Machine) record() {
	labels := []string{fmt.Sprintf("cap=%d", m.p.Cap), fmt.Sprintf("ratio=%.1f", m.p.Ratio), fmt.Sprintf("start=%d", m.p.StartH)}
	for l := range m.labels {
		labels = append(labels, l)
	}
	sort.Strings(labels[3:])
	if m.anyFailure {
		labels = append(labels, "failures=yes")
	}
	if m.tailAdvances > 0 {
		labels = append(labels, "tail-advance=yes")
	}
	// "actual block time != configured estimate": the median gap is off by more than 20 %
	off := false
	if len(m.gaps) > 0 {
		g := append([]time.Duration(nil), m.gaps...)
		sort.Slice(g, func(i, j int) bool { return g[i] < g[j] })
		med := float64(g[len(g)/2])
		off = med < 0.8*float64(m.p.BlockTime) || med > 1.2*float64(m.p.BlockTime)
	}
	if off {
		labels = append(labels, "blocktime=off-estimate")
	} else {
		labels = append(labels, "blocktime=on-estimate")
	}
	nontrivial := off && (m.anyFailure || m.tailAdvances > 0)
	var times strings.Builder
	for h := m.p.StartH; ; h++ {
		eh, ok := m.chain[h]
		if !ok {
			break
		}
		fmt.Fprintf(&times, "%d,", eh.Time().Sub(m.base)/time.Millisecond)
	}
	desc := strings.Join(m.log, ";") + "|" + times.String()
	vk.Record(desc, labels, nontrivial, func() any {
		return map[string]any{"history": m.log, "headers": len(m.chain), "prune_calls": len(m.pr.calls)}
	})
	vk.Count("c14_prune_calls", int64(len(m.pr.calls)))
	vk.Count("c14_cycles", int64(m.pr.cycleSeq))
}

// ------------------------------------------------------------------------------------------
// fixed witnesses of the shapes found by the machine (regression cases; known-finding proofs)

func c14Uniform(p c14Params, n int) *c14Machine {
	m := newC14Machine(p)
	m.noGuards = true
	m.appendOne(0)
	for i := 1; i < n; i++ {
		m.appendOne(p.BlockTime)
	}
	return m
}

func (m *c14Machine) appendUniform(n int) {
	for i := 0; i < n; i++ {
		m.appendOne(m.p.BlockTime)
	}
}

type c14Witness struct {
	sig  string
	what string
	run  func() error
}

func c14Witnesses() []c14Witness {
	base := c14Params{BlockTime: 6 * time.Second, Window: 60 * time.Second, Cap: 4, StartH: 1, Ratio: 1, MaxChain: 1000}
	return []c14Witness{
		{c14SigAllFail, "cap 4, 40 headers 6 s apart, window 60 s, every Prune fails: the first cycle never ends", func() error {
			m := c14Uniform(base, 40)
			defer m.close()
			m.pr.fail = c14Fail{kind: "all"}
			return m.start()
		}},
		{c14SigOvertake, "pruner at 30, head grows to 60, header-store tail moves 1->50 (callbacks prune 31..49), next cycle records 50 as pruned without pruning it", func() error {
			m := c14Uniform(base, 40)
			defer m.close()
			if err := m.start(); err != nil { // prunes 1..30 (cutoff = T+174s)
				return err
			}
			m.appendUniform(20)
			_, maxTo := m.maxTailTarget()
			if err := m.advanceTail(maxTo, nil, true, false); err != nil {
				return err
			}
			if _, err := m.cycle(0); err != nil {
				return err
			}
			m.appendUniform(30)
			return m.drain()
		}},
		{c14SigUnordered, "pruner at 30, header-store tail moves 1->50 with the callbacks of 40 and 41 swapped: 40 is skipped", func() error {
			m := c14Uniform(base, 40)
			defer m.close()
			if err := m.start(); err != nil {
				return err
			}
			m.appendUniform(20)
			tail, maxTo := m.maxTailTarget()
			var order []uint64
			for h := tail; h < maxTo; h++ {
				order = append(order, h)
			}
			i := 40 - int(tail)
			order[i], order[i+1] = order[i+1], order[i]
			if err := m.advanceTail(maxTo, order, true, false); err != nil {
				return err
			}
			m.appendUniform(30)
			return m.drain()
		}},
		{c14SigFailDrop, "height 20 fails in the cycle and is recorded as failed, the header store then deletes 1..29: 20 is dropped from the failed set unpruned", func() error {
			m := c14Uniform(base, 40)
			defer m.close()
			m.pr.fail = c14Fail{kind: "run", from: 20, to: 20}
			if err := m.start(); err != nil {
				return err
			}
			_, maxTo := m.maxTailTarget()
			if err := m.advanceTail(maxTo, nil, true, false); err != nil {
				return err
			}
			return m.drain()
		}},
	}
}

// TestVerifC14_Witnesses replays the fixed witnesses. A witness that fails is a violation unless
// its signature is listed as an open known finding (then it only proves the finding is present).
func TestVerifC14_Witnesses(t *testing.T) {
	defer vk.Flush()
	for _, w := range c14Witnesses() {
		err := w.run()
		vk.Record("witness "+w.sig, []string{"witness"}, true, nil)
		if err == nil {
			continue
		}
		var v *c14Viol
		if errors.As(err, &v) && v.sig == w.sig && vk.KnownOpen(w.sig) {
			vk.FindingPresent(w.sig, w.what+" -- "+err.Error())
			continue
		}
		if dir := os.Getenv("VERIF_REPLAY_DIR"); dir != "" {
			name := strings.NewReplacer(":", "_", "/", "_").Replace(w.sig)
			_ = os.WriteFile(dir+"/witness-"+name+".txt", []byte(w.what+"\n"+err.Error()+"\n"), 0o644)
		}
		t.Errorf("witness %s (%s): %v", w.sig, w.what, err)
	}
}
