package das

// C04 — the DASer never loses a height;  C13 — progress and bounds.
// Harness file of /verif (injected by overlay; not part of celestia-node).
//
// One model-based state machine over the real DASer (NewDASer/Start/Stop, samplingCoordinator,
// worker, checkpointStore, subscriber). Every source of nondeterminism is a fake owned by the
// harness (see c04_c13_fakes_test.go): each SharesAvailable call parks until the harness releases
// it with a generated outcome, heads are emitted one at a time through a fake subscription, the
// background checkpoint ticker is disabled and replayed as an action, back-off expiry is an
// action (the harness rewrites failed[h].after while it holds the coordinator paused through
// the coordinator's own waitCh mechanism, exactly as stats() does).
//
// Quiescence is decided from observations taken while the coordinator is paused in its select:
// quiescent <=> every existing worker goroutine is parked inside the fake AND two consecutive
// observations (with one coordinator loop iteration between them) are identical. No sleep is a
// correctness signal; the only deadlines are 60 s guards that end the run as VERIF-INFRA.
//
// The model is independent of the implementation: the set of heights for which SharesAvailable
// returned success / outside-window (taken from what the harness itself released), the heights
// known to the DASer (header store head at start + heads emitted) and its starting point.
//
//   TestVerifC04_NeverLosesHeight   asserts I1 I2 I3 I4   (C13 defects are tolerated, not judged)
//   TestVerifC13_ProgressAndBounds  asserts B1 B2 B3 B4 B5 L1 (C04 defects are not judged)
//
// VERIF_DAS_ONLY=I3,B2 (optional) restricts the asserted invariants (diagnosis only).

import (
	"context"
	"encoding/json"
	"errors"
	"flag"
	"fmt"
	"os"
	"regexp"
	"runtime"
	"sort"
	"strings"
	"sync"
	"testing"
	"time"

	"github.com/ipfs/go-datastore"
	ds_sync "github.com/ipfs/go-datastore/sync"
	logging "github.com/ipfs/go-log/v2"
	"pgregory.net/rapid"

	vk "github.com/celestiaorg/celestia-node/internal/verifkit"
	"github.com/celestiaorg/celestia-node/share"
	"github.com/celestiaorg/celestia-node/share/availability"
)

const vfWait = 60 * time.Second // guard for every wait of the harness; expiry = VERIF-INFRA

func TestVerifC04_NeverLosesHeight(t *testing.T) {
	defer vk.Flush()
	vfPrepare(t)
	rapid.Check(t, func(t *rapid.T) { vfRunMachine(t, "C04") })
}

func TestVerifC13_ProgressAndBounds(t *testing.T) {
	defer vk.Flush()
	vfPrepare(t)
	rapid.Check(t, func(t *rapid.T) { vfRunMachine(t, "C13") })
}

var vfStepsRe = regexp.MustCompile(`rapid\.steps=(\d+)`)

// vfPrepare silences the das logger and, when a saved counterexample is replayed
// (bin/check --replay sets VERIF_REPLAY_FILE), restores the -rapid.steps value of the run that
// produced it: rapid interprets the recorded bit stream of Repeat relative to that value, and
// the replay command of the driver does not pass it.
func vfPrepare(t *testing.T) {
	_ = logging.SetLogLevel("das", "fatal")
	if f := os.Getenv("VERIF_REPLAY_FILE"); f != "" {
		data, err := os.ReadFile(f)
		if err != nil {
			t.Fatalf("VERIF-INFRA: replay file: %v", err)
		}
		if mm := vfStepsRe.FindSubmatch(data); mm != nil {
			if err := flag.Set("rapid.steps", string(mm[1])); err != nil {
				t.Fatalf("VERIF-INFRA: cannot set rapid.steps: %v", err)
			}
		}
	}
}

func vfRapidSteps() string {
	if f := flag.Lookup("rapid.steps"); f != nil {
		return f.Value.String()
	}
	return "?"
}

// vfSigRetryCountReset: signature of the finding "a catch-up/recent job that reports a height as
// failed restarts the height's retry attempt count from 1" (see TestVerifC13_RetryCountWitness).
const vfSigRetryCountReset = "C13:retry-count-reset-by-catchup-job-failure"

// TestVerifC13_RetryCountWitness is the fixed witness of vfSigRetryCountReset at the level of the
// coordinator state: height 3 has failed twice (as a checkpoint hands it over), the resumed
// catch-up job [3..4] fails it a third time. B4: the attempt count must not go down.
func TestVerifC13_RetryCountWitness(t *testing.T) {
	defer vk.Flush()
	_ = logging.SetLogLevel("das", "fatal")
	s := newCoordinatorState(Parameters{SamplingRange: 2, ConcurrencyLimit: 1})
	s.resumeFromCheckpoint(checkpoint{SampleFrom: 5, NetworkHead: 4, Failed: map[uint64]int{3: 2},
		Workers: []workerCheckpoint{{From: 3, To: 4, JobType: catchupJob}}})
	j := s.newJob(catchupJob, 3, 4)
	s.putInProgress(j.id, func() workerState { return workerState{} })
	before := s.failed[3].count
	s.handleResult(result{job: j, failed: map[uint64]int{3: 1}})
	after := s.failed[3].count
	vk.Record("witness retry-count-reset", []string{"witness"}, true, nil)
	if after >= before {
		return
	}
	what := fmt.Sprintf("C13/B4 retry attempt count of height 3 decreased from %d to %d: checkpoint {Failed:{3:x2} Workers:[catchup[3..4]]} resumed, the catch-up job fails height 3 again", before, after)
	if vk.KnownOpen(vfSigRetryCountReset) {
		vk.FindingPresent(vfSigRetryCountReset, what)
		return
	}
	t.Fatalf("%s", what)
}

// ---------------------------------------------------------------------------------------------

type vfObs struct {
	stats       SamplingStats
	next        uint64
	networkHead uint64
	failed      map[uint64]retryAttempt
	inRetry     map[uint64]retryAttempt
	nInProgress int
	done        bool
	waitErr     error // WaitCatchUp with an already cancelled context
	alive       int   // worker goroutines that exist
	parked      []*vfCall
	fp          string
}

func (o *vfObs) leaked() int { return o.nInProgress - o.alive }

func (o *vfObs) String() string {
	return fmt.Sprintf("next=%d networkHead=%d failed=%s inRetry=%s workers=%s parked=%s statsFailed=%v sampledChainHead=%d catchUpDone=%v",
		o.next, o.networkHead, vfAttempts(o.failed), vfAttempts(o.inRetry), vfWorkers(o.stats.Workers), vfParked(o.parked),
		vfSortedCounts(o.stats.Failed), o.stats.SampledChainHead, o.done)
}

type vfMachine struct {
	focus string
	only  map[string]bool

	// configuration
	srange    uint64
	limit     int
	boInitial time.Duration
	boMult    int
	boMax     int
	savedBo   [3]any

	da    *vfDA
	store *vfStore
	hsub  *vfSubscriber
	ds    *vfDS
	d     *DASer

	running bool

	// model
	start   uint64
	netHead uint64
	ok      map[uint64]bool // SharesAvailable returned nil (or sampled before the seeded checkpoint)
	skipped map[uint64]bool // SharesAvailable returned ErrOutsideSamplingWindow
	errEver map[uint64]bool // some call for the height returned an error (or the seed lists it failed)

	lastCount     map[uint64]int
	sawEntry      map[uint64]retryAttempt
	justRestarted bool
	bgPrev        uint64
	putTag        string
	pending       string // violation noticed inside the datastore Put hook
	prev          *vfObs
	stepT0        time.Time
	capHit        bool

	history []string
	labels  map[string]bool
	desc    []string
}

func (m *vfMachine) on(id string) bool {
	prop := "C13"
	if id[0] == 'I' {
		prop = "C04"
	}
	if prop != m.focus {
		return false
	}
	return len(m.only) == 0 || m.only[id]
}

func (m *vfMachine) logf(t *rapid.T, format string, a ...any) {
	s := fmt.Sprintf(format, a...)
	m.history = append(m.history, s)
	t.Logf("%s", s)
}

func (m *vfMachine) act(t *rapid.T, format string, a ...any) {
	s := fmt.Sprintf(format, a...)
	m.desc = append(m.desc, s)
	m.logf(t, "%02d %s", len(m.desc), s)
}

func (m *vfMachine) params() string {
	return fmt.Sprintf("range=%d limit=%d backoff=(%v x%d, %d steps)", m.srange, m.limit, m.boInitial, m.boMult, m.boMax)
}

// fail reports a violation of the property; msg starts with the invariant id.
func (m *vfMachine) fail(t *rapid.T, format string, a ...any) {
	t.Helper()
	h := m.history
	if len(h) > 120 {
		h = h[len(h)-120:]
	}
	t.Fatalf("%s\n  [%s]\n  history:\n    %s", fmt.Sprintf(format, a...), m.params(), strings.Join(h, "\n    "))
}

func (m *vfMachine) infra(t *rapid.T, format string, a ...any) {
	t.Helper()
	buf := make([]byte, 1<<18)
	n := runtime.Stack(buf, true)
	t.Fatalf("VERIF-INFRA: %s\n  history:\n    %s\n%s", fmt.Sprintf(format, a...), strings.Join(m.history, "\n    "), buf[:n])
}

// ---------------------------------------------------------------------------------------------
// set-up / tear-down

func vfRunMachine(t *rapid.T, focus string) {
	m := &vfMachine{
		focus: focus, only: map[string]bool{},
		ok: map[uint64]bool{}, skipped: map[uint64]bool{}, errEver: map[uint64]bool{},
		lastCount: map[uint64]int{}, sawEntry: map[uint64]retryAttempt{}, labels: map[string]bool{},
	}
	for _, id := range strings.Split(os.Getenv("VERIF_DAS_ONLY"), ",") {
		if id = strings.TrimSpace(id); id != "" {
			m.only[id] = true
		}
	}
	defer m.teardown(t)
	m.setup(t)

	actions := map[string]func(*rapid.T){
		"":              m.check,
		"head_a":        m.actNewHead,
		"head_b":        m.actNewHead,
		"head_c":        m.actNewHead,
		"release_a":     m.actRelease,
		"release_b":     m.actRelease,
		"release_c":     m.actRelease,
		"release_d":     m.actRelease,
		"release_e":     m.actRelease,
		"expireBackoff": m.actExpireBackoff,
		"stats":         m.actStats,
		"bgCheckpoint":  m.actBackgroundCheckpoint,
		"stopRestart":   m.actStopRestart,
		"crashRestart":  m.actCrashRestart,
		"drain":         m.actDrain,
	}
	t.Repeat(actions)
	m.finish(t)
	if m.running {
		m.act(t, "final stop (graceful)")
		m.halt(t, true)
		m.flushPending(t)
	}

	labels := []string{}
	for l := range m.labels {
		labels = append(labels, l)
	}
	sort.Strings(labels)
	nontrivial := m.labels["stop-with-inflight"] || m.labels["crash-with-inflight"] || m.labels["failure-then-retry"]
	desc := m.focus + " " + m.params() + " | " + strings.Join(m.desc, " ; ")
	// the first label is the sample class of verifkit
	class := "plain"
	switch {
	case m.labels["crash-with-inflight"]:
		class = "class=crash-with-inflight"
	case m.labels["stop-with-inflight"]:
		class = "class=stop-with-inflight"
	case m.labels["failure-then-retry"]:
		class = "class=failure-then-retry"
	default:
		class = "class=other"
	}
	vk.Record(desc, append([]string{class}, labels...), nontrivial, func() any { return desc })
	vk.Count("actions", int64(len(m.desc)))
	vk.Count("sampling_calls", int64(m.da.calls))
	vk.Count("sampling_calls_cancelled_by_stop", int64(m.da.cancelled))
	vk.Count("getter_requests_outside_store", int64(m.store.outOfRange))
}

func (m *vfMachine) setup(t *rapid.T) {
	m.srange = uint64(rapid.IntRange(1, 5).Draw(t, "samplingRange"))
	m.limit = rapid.IntRange(1, 4).Draw(t, "concurrencyLimit")
	m.boInitial = time.Duration(rapid.IntRange(1, 3).Draw(t, "backoffInitialHours")) * time.Hour
	m.boMult = rapid.IntRange(1, 4).Draw(t, "backoffMultiplier")
	m.boMax = rapid.IntRange(1, 4).Draw(t, "backoffSteps")
	m.savedBo = [3]any{defaultBackoffInitialInterval, defaultBackoffMultiplier, defaultBackoffMaxRetryCount}
	defaultBackoffInitialInterval, defaultBackoffMultiplier, defaultBackoffMaxRetryCount = m.boInitial, m.boMult, m.boMax

	tail := uint64(rapid.IntRange(1, 3).Draw(t, "tail"))
	head := tail + uint64(rapid.IntRange(0, 10).Draw(t, "storeHeadAboveTail"))
	m.da = newVfDA()
	m.store = newVfStore(tail, head)
	m.hsub = &vfSubscriber{}
	m.ds = &vfDS{Datastore: ds_sync.MutexWrap(datastore.NewMapDatastore()), onPut: m.onPut}
	m.start, m.netHead = tail, head
	m.labels[fmt.Sprintf("limit=%d", m.limit)] = true
	m.labels[fmt.Sprintf("range=%d", m.srange)] = true
	t.Logf("[replay needs rapid.steps=%s]", vfRapidSteps())

	if rapid.IntRange(0, 4).Draw(t, "startKind") >= 3 {
		// mid-chain: a checkpoint as an earlier run of the DASer would have left it
		cp := checkpoint{Failed: map[uint64]int{}}
		cp.SampleFrom = tail + uint64(rapid.IntRange(0, int(head-tail)+1).Draw(t, "seedSampleFrom"))
		lo := cp.SampleFrom - 1
		if lo < tail {
			lo = tail
		}
		cp.NetworkHead = lo + uint64(rapid.IntRange(0, int(head-lo)).Draw(t, "seedNetworkHead"))
		workers := 0
		for h := tail; h < cp.SampleFrom; h++ {
			switch k := rapid.IntRange(0, 7).Draw(t, fmt.Sprintf("seedHeight%d", h)); {
			case k == 0 || k == 1:
				cp.Failed[h] = rapid.IntRange(1, 6).Draw(t, "seedFailedCount")
				m.errEver[h] = true
				m.lastCount[h] = cp.Failed[h]
			case k == 2 && workers < m.limit:
				to := h + uint64(rapid.IntRange(0, int(m.srange)-1).Draw(t, "seedWorkerLen"))
				if to >= cp.SampleFrom {
					to = cp.SampleFrom - 1
				}
				cp.Workers = append(cp.Workers, workerCheckpoint{From: h, To: to, JobType: catchupJob})
				workers++
				h = to
			default:
				m.ok[h] = true
			}
		}
		// a newest-head job samples the announced head alone, also while the catch-up cursor is still
		// below it: its failures are recorded for heights at or above SampleFrom, which a catch-up job
		// will cover again (and which a retry job may be sampling at the same time)
		for h := cp.SampleFrom; h <= cp.NetworkHead; h++ {
			if rapid.IntRange(0, 5).Draw(t, fmt.Sprintf("seedAhead%d", h)) == 0 {
				cp.Failed[h] = rapid.IntRange(1, 6).Draw(t, "seedFailedCount")
				m.errEver[h] = true
				m.lastCount[h] = cp.Failed[h]
				m.labels["start=midchain-failed-ahead-of-cursor"] = true
			}
		}
		m.putTag = "seed"
		cs := newCheckpointStore(m.ds)
		if err := cs.store(context.Background(), cp); err != nil {
			m.infra(t, "seeding the checkpoint: %v", err)
		}
		m.labels["start=midchain"] = true
		if len(cp.Failed) > 0 {
			m.labels["start=midchain-with-failed"] = true
		}
		m.act(t, "seed checkpoint %s tail=%d storeHead=%d", vfCheckpoint(cp), tail, head)
	} else {
		m.labels["start=fresh"] = true
		m.act(t, "fresh start tail=%d storeHead=%d", tail, head)
	}
	m.stepT0 = time.Now()
	m.startDASer(t)
}

func (m *vfMachine) startDASer(t *rapid.T) {
	d, err := NewDASer(m.da, m.hsub, m.store, m.ds,
		WithSamplingRange(m.srange), WithConcurrencyLimit(m.limit),
		WithBackgroundStoreInterval(0), // the ticker is replayed by the bgCheckpoint action
		WithSampleTimeout(time.Hour))
	if err != nil {
		m.infra(t, "NewDASer: %v", err)
	}
	ctx, cancel := context.WithTimeout(context.Background(), vfWait)
	defer cancel()
	if err := d.Start(ctx); err != nil {
		m.infra(t, "Start: %v", err)
	}
	m.d = d
	m.running = true
	m.bgPrev = 0
	m.prev = nil
	m.justRestarted = true
	m.sawEntry = map[uint64]retryAttempt{}
	tail, head := m.store.bounds()
	if tail > m.start {
		m.start = tail
	}
	if head > m.netHead {
		m.netHead = head
	}
}

// halt ends the running DASer: graceful = the real Stop sequence; otherwise a crash (everything
// is cancelled, only what the datastore already holds survives).
func (m *vfMachine) halt(t *rapid.T, graceful bool) {
	if !m.running {
		return
	}
	ctx, cancel := context.WithTimeout(context.Background(), vfWait)
	defer cancel()
	d := m.d
	if graceful {
		m.putTag = "Stop"
		if err := d.Stop(ctx); err != nil {
			m.infra(t, "Stop: %v", err)
		}
	} else {
		d.cancel()
		if err := d.sampler.wait(ctx); err != nil {
			m.infra(t, "crash: %v", err)
		}
		if err := d.store.wait(ctx); err != nil {
			m.infra(t, "crash: %v", err)
		}
		if err := d.subscriber.wait(ctx); err != nil {
			m.infra(t, "crash: %v", err)
		}
	}
	m.running = false
	// workersWg.Done() runs just before a worker goroutine ends: give the last ones their few
	// nanoseconds to disappear
	for deadline := time.Now().Add(vfWait); vfCountWorkerGoroutines() != 0; {
		if time.Now().After(deadline) {
			m.infra(t, "%d worker goroutine(s) survived the stop of the DASer", vfCountWorkerGoroutines())
		}
		time.Sleep(20 * time.Microsecond)
	}
	if n := len(m.da.snapshot()); n != 0 {
		m.infra(t, "%d sampling call(s) still parked after the stop of the DASer", n)
	}
}

func (m *vfMachine) teardown(t *rapid.T) {
	if m.savedBo[0] != nil {
		defaultBackoffInitialInterval = m.savedBo[0].(time.Duration)
		defaultBackoffMultiplier = m.savedBo[1].(int)
		defaultBackoffMaxRetryCount = m.savedBo[2].(int)
	}
	if m.running && m.d != nil && m.d.cancel != nil {
		// never fails the case from here (a failure may already be on its way up)
		ctx, cancel := context.WithTimeout(context.Background(), vfWait)
		defer cancel()
		m.d.cancel()
		e1 := m.d.sampler.wait(ctx)
		e2 := m.d.store.wait(ctx)
		e3 := m.d.subscriber.wait(ctx)
		if e1 != nil || e2 != nil || e3 != nil {
			fmt.Printf("VERIF-INFRA: teardown could not stop the DASer: %v %v %v\n", e1, e2, e3)
		}
		m.running = false
	}
}

// ---------------------------------------------------------------------------------------------
// observation and quiescence

// observe pauses the coordinator in its select (the mechanism stats() uses), copies what the
// oracles need and lets it continue.
func (m *vfMachine) observe(t *rapid.T) *vfObs {
	sc := m.d.sampler
	var wg sync.WaitGroup
	wg.Add(1)
	timer := time.NewTimer(vfWait)
	select {
	case sc.waitCh <- &wg:
		timer.Stop()
	case <-timer.C:
		m.infra(t, "coordinator did not reach its select within %v", vfWait)
	}
	o := &vfObs{}
	func() {
		defer wg.Done()
		s := &sc.state
		o.stats = s.unsafeStats()
		o.next, o.networkHead = s.next, s.networkHead
		o.failed = make(map[uint64]retryAttempt, len(s.failed))
		for h, a := range s.failed {
			o.failed[h] = a
		}
		o.inRetry = make(map[uint64]retryAttempt, len(s.inRetry))
		for h, a := range s.inRetry {
			o.inRetry[h] = a
		}
		o.nInProgress = len(s.inProgress)
		o.done = s.catchUpDone.Load()
		cctx, cancel := context.WithCancel(context.Background())
		cancel()
		o.waitErr = m.d.WaitCatchUp(cctx)
		o.alive = vfCountWorkerGoroutines()
		o.parked = m.da.snapshot()
	}()
	sort.Slice(o.stats.Workers, func(i, j int) bool {
		a, b := o.stats.Workers[i], o.stats.Workers[j]
		if a.From != b.From {
			return a.From < b.From
		}
		if a.To != b.To {
			return a.To < b.To
		}
		if a.JobType != b.JobType {
			return a.JobType < b.JobType
		}
		return a.Curr < b.Curr
	})
	ids := make([]int, 0, len(o.parked))
	for _, c := range o.parked {
		ids = append(ids, c.id)
	}
	o.fp = fmt.Sprintf("%d|%d|%s|%s|%s|%v|%v|%d", o.next, o.networkHead, vfAttempts(o.failed), vfAttempts(o.inRetry),
		vfWorkers(o.stats.Workers), ids, o.done, o.nInProgress)
	return o
}

// settle waits until the DASer is quiescent and returns the observation of that state.
func (m *vfMachine) settle(t *rapid.T) *vfObs {
	deadline := time.Now().Add(vfWait)
	var prev *vfObs
	for i := 0; ; i++ {
		o := m.observe(t)
		parkedAll := o.alive == len(o.parked)
		if parkedAll && prev != nil && prev.fp == o.fp {
			return o
		}
		if parkedAll {
			prev = o
		} else {
			prev = nil
		}
		if i < 10 {
			runtime.Gosched()
		} else {
			d := time.Duration(i) * 20 * time.Microsecond
			if d > 2*time.Millisecond {
				d = 2 * time.Millisecond
			}
			time.Sleep(d)
		}
		if time.Now().After(deadline) {
			m.infra(t, "no quiescence within %v: %s alive=%d", vfWait, o, o.alive)
		}
	}
}

// withPaused runs fn while the coordinator is held in its select.
func (m *vfMachine) withPaused(t *rapid.T, fn func(s *coordinatorState)) {
	sc := m.d.sampler
	var wg sync.WaitGroup
	wg.Add(1)
	timer := time.NewTimer(vfWait)
	select {
	case sc.waitCh <- &wg:
		timer.Stop()
	case <-timer.C:
		m.infra(t, "coordinator did not reach its select within %v", vfWait)
	}
	defer wg.Done()
	fn(&sc.state)
}

// ---------------------------------------------------------------------------------------------
// model helpers

func (m *vfMachine) sampled(h uint64) bool { return m.ok[h] || m.skipped[h] }

// notOK lists the known heights that have not been successfully sampled (nor skipped).
func (m *vfMachine) notOK() []uint64 {
	var out []uint64
	for h := m.start; h <= m.netHead; h++ {
		if !m.sampled(h) {
			out = append(out, h)
		}
	}
	return out
}

func (m *vfMachine) interval(count int) time.Duration {
	if count < 1 {
		return 0
	}
	if count > m.boMax {
		count = m.boMax
	}
	iv := m.boInitial
	for i := 1; i < count; i++ {
		iv *= time.Duration(m.boMult)
	}
	return iv
}

func vfCheckpointCovers(cp checkpoint, h uint64) bool {
	if h >= cp.SampleFrom {
		return true
	}
	if _, ok := cp.Failed[h]; ok {
		return true
	}
	for _, w := range cp.Workers {
		if w.From <= h && h <= w.To {
			return true
		}
	}
	return false
}

// onPut sees every value that reaches the datastore (I3).
func (m *vfMachine) onPut(key datastore.Key, value []byte) {
	if !strings.HasSuffix(key.String(), checkpointKey.String()) {
		return
	}
	if m.putTag == "seed" {
		m.putTag = ""
		return
	}
	vk.Count("checkpoints_persisted", 1)
	var cp checkpoint
	if err := json.Unmarshal(value, &cp); err != nil {
		m.pending = fmt.Sprintf("C04/I3 persisted checkpoint does not decode: %v (%q)", err, value)
		return
	}
	m.history = append(m.history, fmt.Sprintf("   persisted by %s: %s", m.putTag, vfCheckpoint(cp)))
	if !m.on("I3") || m.pending != "" {
		return
	}
	for _, h := range m.notOK() {
		if !vfCheckpointCovers(cp, h) {
			state := "(none)"
			if m.prev != nil {
				state = m.prev.String()
			}
			m.pending = fmt.Sprintf("C04/I3 checkpoint does not cover height %d: persisted by %s: %s while heights %v were not yet successfully sampled; state before: %s",
				h, m.putTag, vfCheckpoint(cp), m.notOK(), state)
			return
		}
	}
}

func (m *vfMachine) flushPending(t *rapid.T) {
	if m.pending != "" {
		p := m.pending
		m.pending = ""
		m.fail(t, "%s", p)
	}
}

// ---------------------------------------------------------------------------------------------
// invariants, evaluated on every quiescent state

func (m *vfMachine) check(t *rapid.T) {
	m.flushPending(t)
	if !m.running {
		return
	}
	o := m.settle(t)
	t1 := time.Now()
	if m.focus == "C04" {
		m.checkC04(t, o)
	} else {
		m.checkC13(t, o, t1)
	}
	// class labels
	for _, w := range o.stats.Workers {
		if w.JobType == retryJob && m.errEver[w.From] {
			m.labels["failure-then-retry"] = true
		}
	}
	if o.leaked() > 0 {
		m.labels["worker-slot-leaked"] = true
	}
	if m.justRestarted && len(o.parked) == 0 && o.nInProgress == 0 && len(o.stats.Failed) == 0 && o.next > o.networkHead {
		m.labels["restart-with-nothing-to-do"] = true
	}
	m.justRestarted = false
	m.prev = o
}

func (m *vfMachine) checkC04(t *rapid.T, o *vfObs) {
	missing := m.notOK()
	if m.on("I1") {
		for _, h := range missing {
			covered := h >= o.next && h <= o.networkHead
			if _, ok := o.failed[h]; ok {
				covered = true
			}
			if _, ok := o.inRetry[h]; ok {
				covered = true
			}
			if _, ok := o.stats.Failed[h]; ok {
				covered = true
			}
			for _, w := range o.stats.Workers {
				if w.Curr <= h && h <= w.To {
					covered = true
				}
			}
			if !covered {
				m.fail(t, "C04/I1 height %d is neither sampled, being sampled, queued nor failed: %s (start=%d known head=%d)",
					h, o, m.start, m.netHead)
			}
		}
	}
	if m.on("I2") {
		if len(missing) > 0 && o.stats.SampledChainHead >= missing[0] {
			m.fail(t, "C04/I2 SampledChainHead=%d but height %d has not been sampled: %s", o.stats.SampledChainHead, missing[0], o)
		}
		if o.stats.SampledChainHead > m.netHead {
			m.fail(t, "C04/I2 SampledChainHead=%d is above the newest known head %d: %s", o.stats.SampledChainHead, m.netHead, o)
		}
	}
}

func (m *vfMachine) checkC13(t *rapid.T, o *vfObs, t1 time.Time) {
	if m.on("B3") && o.leaked() > 0 {
		m.fail(t, "C13/B3 %d sampling job(s) ended without reporting a result while the DASer keeps running (slot never freed): %d in Workers, %d worker goroutine(s) exist: %s",
			o.leaked(), o.nInProgress, o.alive, o)
	}
	if m.on("B1") {
		bounded, total := 0, len(o.stats.Workers)
		for _, w := range o.stats.Workers {
			if w.JobType != recentJob {
				bounded++
			}
		}
		if bounded > m.limit {
			m.fail(t, "C13/B1 %d catch-up/retry workers run concurrently, limit is %d: %s", bounded, m.limit, o)
		}
		if total > 2*m.limit || len(o.parked) > 2*m.limit {
			m.fail(t, "C13/B1 %d workers (%d sampling calls) run concurrently, limit including newest-head work is %d: %s",
				total, len(o.parked), 2*m.limit, o)
		}
	}
	if m.on("B2") {
		nothingLeft := len(o.parked) == 0 && o.nInProgress == 0 && len(o.stats.Failed) == 0 &&
			len(o.failed) == 0 && len(o.inRetry) == 0 && o.next > o.networkHead
		if o.done != nothingLeft || o.stats.CatchUpDone != nothingLeft {
			m.fail(t, "C13/B2 CatchUpDone=%v (stats: %v) although nothing queued/in flight/failed=%v: %s",
				o.done, o.stats.CatchUpDone, nothingLeft, o)
		}
		if (o.waitErr == nil) != nothingLeft {
			m.fail(t, "C13/B2 WaitCatchUp returned %v although nothing queued/in flight/failed=%v: %s", o.waitErr, nothingLeft, o)
		}
	}
	// attempt count of a height = the larger of its entries in failed and inRetry (a height can be in
	// both: retry job in flight while another job reported it failed again)
	count := map[uint64]int{}
	for h, e := range o.failed {
		count[h] = e.count
	}
	for h, e := range o.inRetry {
		if e.count > count[h] {
			count[h] = e.count
		}
	}
	if m.on("B4") {
		for _, h := range vfKeys(count) {
			if c, ok := m.lastCount[h]; ok && count[h] < c {
				if count[h] == 1 && vk.KnownOpen(vfSigRetryCountReset) {
					// shape of the known finding: a catch-up/recent job reported the height failed and
					// the count started again from 1
					vk.Excluded(vfSigRetryCountReset)
				} else {
					m.fail(t, "C13/B4 retry attempt count of height %d decreased from %d to %d although the height never stopped being failed: %s", h, c, count[h], o)
				}
			}
			if count[h] > m.boMax {
				m.labels["backoff-saturated"] = true
			}
		}
		for _, h := range vfKeys(o.failed) {
			e := o.failed[h]
			if prev, seen := m.sawEntry[h]; !seen || prev != e {
				// a new back-off entry: it was written during this step, at some instant in [stepT0, t1]
				written := e.after.Add(-m.interval(e.count))
				what := fmt.Sprintf("back-off table gives %v for attempt %d", m.interval(e.count), e.count)
				if m.justRestarted {
					written = e.after // resumed retries start without back-off delay
					what = "resumed from the checkpoint: no delay"
				}
				if written.Before(m.stepT0) || written.After(t1) {
					m.fail(t, "C13/B4 height %d: next retry is not scheduled as the back-off table says (attempt %d; %s): %s",
						h, e.count, what, o)
				}
			}
		}
	}
	// bookkeeping for B4 (always, so that VERIF_DAS_ONLY does not change the model)
	for h := range m.sawEntry {
		if _, ok := o.failed[h]; !ok {
			delete(m.sawEntry, h)
		}
	}
	for h, e := range o.failed {
		m.sawEntry[h] = e
	}
	// the count of a height starts again only after the height has left both sets (it was sampled);
	// a successful sample by one job while another job's failure keeps the height failed does not
	// restart it
	for h := range m.lastCount {
		if _, still := count[h]; !still {
			delete(m.lastCount, h)
		}
	}
	for h, c := range count {
		m.lastCount[h] = c
	}
	if m.on("B5") {
		if o.stats.NetworkHead != m.netHead {
			m.fail(t, "C13/B5 stats.NetworkHead=%d, newest head the DASer has learned is %d: %s", o.stats.NetworkHead, m.netHead, o)
		}
		if o.stats.Concurrency != len(o.stats.Workers) || len(o.stats.Workers) != len(o.parked)+o.leaked() {
			m.fail(t, "C13/B5 stats.Concurrency=%d, %d workers listed, %d sampling calls actually running: %s",
				o.stats.Concurrency, len(o.stats.Workers), len(o.parked), o)
		}
		for _, c := range o.parked {
			in := false
			for _, w := range o.stats.Workers {
				if w.From <= c.height && c.height <= w.To {
					in = true
				}
			}
			if !in {
				m.fail(t, "C13/B5 height %d is being sampled but no listed worker has it in its range: %s", c.height, o)
			}
		}
		for _, h := range vfKeys(o.stats.Failed) {
			if !m.errEver[h] {
				m.fail(t, "C13/B5 stats.Failed lists height %d which never failed: %s", h, o)
			}
		}
		for h := m.start; h <= o.stats.CatchupHead; h++ {
			submitted := m.da.wasCalled(h) || m.sampled(h) || m.errEver[h]
			for _, w := range o.stats.Workers {
				if w.From <= h && h <= w.To {
					submitted = true
				}
			}
			if !submitted {
				m.fail(t, "C13/B5 stats.CatchupHead=%d but height %d was never handed to a sampling worker: %s", o.stats.CatchupHead, h, o)
			}
		}
	}
}

// ---------------------------------------------------------------------------------------------
// actions

func (m *vfMachine) begin(t *rapid.T) {
	if !m.running {
		t.Skip("DASer is down")
	}
	m.stepT0 = time.Now()
}

func (m *vfMachine) actNewHead(t *rapid.T) {
	m.begin(t)
	var h uint64
	kind := rapid.SampledFrom([]string{"next", "next", "next", "skip", "duplicate", "stale"}).Draw(t, "headKind")
	switch kind {
	case "next":
		h = m.netHead + 1
	case "skip":
		h = m.netHead + uint64(rapid.IntRange(2, 6).Draw(t, "skipBy"))
	case "duplicate":
		h = m.netHead
	case "stale":
		if m.netHead < 2 {
			t.Skip("no stale height")
		}
		h = uint64(rapid.IntRange(1, int(m.netHead)-1).Draw(t, "staleHeight"))
	}
	m.labels[kind+"-head"] = true
	m.act(t, "newHead(%d) %s", h, kind)
	m.store.extendTo(h)
	if h > m.netHead {
		m.netHead = h
	}
	sub := m.hsub.current()
	timer := time.NewTimer(vfWait)
	defer timer.Stop()
	sub.mu.Lock()
	sub.sent++
	sub.mu.Unlock()
	select {
	case sub.ch <- vfMakeHeader(h):
	case <-timer.C:
		m.infra(t, "subscriber did not take the new head within %v", vfWait)
	}
	for i := 0; !sub.delivered(); i++ {
		if i < 10 {
			runtime.Gosched()
		} else {
			time.Sleep(50 * time.Microsecond)
		}
		select {
		case <-timer.C:
			m.infra(t, "coordinator did not take the new head within %v", vfWait)
		default:
		}
	}
}

var vfOutcomes = []string{"ok", "ok", "ok", "ok", "ok", "ok", "error", "error", "deadline", "outside-window", "foreign-cancel"}

var vfOutcomesAfterFailure = []string{"ok", "ok", "error", "error", "error", "deadline", "foreign-cancel"}

func (m *vfMachine) actRelease(t *rapid.T) {
	m.begin(t)
	parked := m.da.snapshot()
	if len(parked) == 0 {
		t.Skip("nothing in flight")
	}
	c := parked[rapid.IntRange(0, len(parked)-1).Draw(t, "call")]
	outs := vfOutcomes
	if m.errEver[c.height] && !m.sampled(c.height) {
		outs = vfOutcomesAfterFailure // heights that failed tend to fail again: drives the back-off table
	}
	outcome := rapid.SampledFrom(outs).Draw(t, "outcome")
	m.act(t, "release(h=%d, %s)", c.height, outcome)
	m.release(t, c, outcome)
}

func (m *vfMachine) release(t *rapid.T, c *vfCall, outcome string) {
	var err error
	switch outcome {
	case "ok":
	case "error":
		err = share.ErrNotAvailable
	case "deadline":
		err = fmt.Errorf("vf: sampling timed out: %w", context.DeadlineExceeded)
	case "outside-window":
		err = availability.ErrOutsideSamplingWindow
	case "foreign-cancel":
		// an error that looks like cancellation although neither the DASer nor the call's own
		// context is cancelled (a peer session / request context of a lower layer was)
		err = fmt.Errorf("vf: request to peer aborted: %w", context.Canceled)
	}
	if !m.da.release(c, err) {
		m.infra(t, "parked call for height %d was cancelled while the DASer is running", c.height)
	}
	switch {
	case err == nil:
		m.ok[c.height] = true
	case errors.Is(err, availability.ErrOutsideSamplingWindow):
		m.skipped[c.height] = true
		m.labels["outside-window"] = true
	default:
		m.errEver[c.height] = true
		m.labels["outcome="+outcome] = true
		if outcome == "foreign-cancel" {
			m.labels["foreign-cancel-outcome"] = true
		}
	}
}

func (m *vfMachine) actExpireBackoff(t *rapid.T) {
	m.begin(t)
	if m.prev == nil {
		t.Skip("no observation yet")
	}
	now := time.Now()
	var cand []uint64
	for _, h := range vfKeys(m.prev.failed) {
		if m.prev.failed[h].after.After(now) {
			cand = append(cand, h)
		}
	}
	if len(cand) == 0 {
		t.Skip("no back-off pending")
	}
	h := cand[rapid.IntRange(0, len(cand)-1).Draw(t, "failedHeight")]
	m.act(t, "expireBackoff(%d)", h)
	m.expire(t, []uint64{h})
	m.labels["backoff-expired"] = true
}

// expire makes the back-off of the given failed heights (all if nil) elapse.
func (m *vfMachine) expire(t *rapid.T, hs []uint64) {
	m.withPaused(t, func(s *coordinatorState) {
		past := time.Now().Add(-time.Second)
		if hs == nil {
			for h := range s.failed {
				hs = append(hs, h)
			}
		}
		for _, h := range hs {
			if a, ok := s.failed[h]; ok && !a.after.Before(past) {
				a.after = past
				s.failed[h] = a
				m.sawEntry[h] = a
			}
		}
	})
}

func (m *vfMachine) actStats(t *rapid.T) {
	m.begin(t)
	m.act(t, "stats")
	ctx, cancel := context.WithTimeout(context.Background(), vfWait)
	defer cancel()
	if _, err := m.d.SamplingStats(ctx); err != nil {
		m.infra(t, "SamplingStats: %v", err)
	}
}

// actBackgroundCheckpoint does what one tick of checkpointStore.runBackgroundStore does.
func (m *vfMachine) actBackgroundCheckpoint(t *rapid.T) {
	m.begin(t)
	ctx, cancel := context.WithTimeout(context.Background(), vfWait)
	defer cancel()
	cp, err := m.d.sampler.getCheckpoint(ctx)
	if err != nil {
		m.infra(t, "getCheckpoint: %v", err)
	}
	m.labels["bg-checkpoint"] = true
	m.noteInflightAtCheckpoint()
	if cp.SampleFrom > m.bgPrev {
		m.act(t, "backgroundCheckpoint (stored)")
		m.putTag = "background store"
		if err := m.d.store.store(ctx, cp); err != nil {
			m.infra(t, "store: %v", err)
		}
		m.bgPrev = cp.SampleFrom
	} else {
		m.act(t, "backgroundCheckpoint (not stored: SampleFrom did not advance)")
	}
	m.flushPending(t)
}

func (m *vfMachine) noteInflightAtCheckpoint() {
	if m.prev == nil {
		return
	}
	for _, w := range m.prev.stats.Workers {
		m.labels["checkpoint-with-"+string(w.JobType)+"-job-in-flight"] = true
		if w.JobType == recentJob {
			m.labels["recent-job-in-flight-at-checkpoint"] = true
		}
	}
}

func (m *vfMachine) actStopRestart(t *rapid.T) {
	m.begin(t)
	m.stopStart(t, true)
}

func (m *vfMachine) actCrashRestart(t *rapid.T) {
	m.begin(t)
	m.stopStart(t, false)
}

func (m *vfMachine) stopStart(t *rapid.T, graceful bool) {
	inflight := len(m.da.snapshot()) > 0
	if graceful {
		m.act(t, "stop (graceful)")
		if inflight {
			m.labels["stop-with-inflight"] = true
		}
		m.noteInflightAtCheckpoint()
	} else {
		m.act(t, "crash")
		if inflight {
			m.labels["crash-with-inflight"] = true
		}
		// attempt counts that were not persisted are legitimately lost
		m.lastCount = map[uint64]int{}
	}
	m.halt(t, graceful)
	m.flushPending(t)

	tail, head := m.store.bounds()
	if adv := rapid.SampledFrom([]int{0, 0, 0, 0, 1, 2, 4}).Draw(t, "headAdvanceWhileDown"); adv > 0 {
		head += uint64(adv)
		m.store.extendTo(head)
		m.labels["head-advanced-while-down"] = true
	}
	if adv := rapid.SampledFrom([]int{0, 0, 0, 0, 0, 1, 2, 3}).Draw(t, "tailAdvanceWhileDown"); adv > 0 && tail+uint64(adv) <= head {
		tail += uint64(adv)
		m.store.advanceTail(tail)
		m.labels["tail-advanced-while-down"] = true
	}
	m.act(t, "restart tail=%d storeHead=%d", tail, head)
	m.stepT0 = time.Now()
	m.startDASer(t)
}

func (m *vfMachine) actDrain(t *rapid.T) {
	m.begin(t)
	m.act(t, "drain")
	m.drain(t)
	m.labels["drain-action"] = true
}

// drain is the fair continuation: every back-off elapses, every sampling call succeeds, until
// nothing is in flight any more. L1: that needs at most 3*(pending heights + failed) + 10 releases
// and ends with catch-up done.
func (m *vfMachine) drain(t *rapid.T) {
	m.check(t)
	o := m.prev
	pending := map[uint64]bool{}
	for h := m.start; h <= m.netHead; h++ {
		if !m.sampled(h) || (h >= o.next && h <= o.networkHead) {
			pending[h] = true
		}
		for _, w := range o.stats.Workers {
			if w.Curr <= h && h <= w.To {
				pending[h] = true
			}
		}
	}
	bound := 3*(len(pending)+len(o.stats.Failed)) + 10
	releases := 0
	for {
		m.check(t)
		o = m.prev
		if vfBackoffPending(o) {
			// (a result that arrives after the previous expiry may have added an entry)
			m.expire(t, nil)
			continue
		}
		if len(o.parked) == 0 {
			break
		}
		c := o.parked[0]
		m.logf(t, "   drain: release(h=%d, ok)", c.height)
		m.stepT0 = time.Now()
		m.release(t, c, "ok")
		releases++
		if releases > bound {
			if m.on("L1") {
				m.fail(t, "C13/L1 fair continuation did not finish within %d successful sampling calls (%d pending heights, %d failed when it began): %s",
					bound, len(pending), len(o.stats.Failed), o)
			}
			m.capHit = true
			vk.Count("drain_bound_hit_not_judged", 1)
			return
		}
	}
	vk.Count("drain_releases", int64(releases))
	if m.on("L1") && !o.done {
		m.fail(t, "C13/L1 fair continuation stalled after %d successful sampling calls: nothing in flight, no back-off pending, yet catch-up is not done: %s",
			releases, o)
	}
}

func vfBackoffPending(o *vfObs) bool {
	now := time.Now() // entries are either >= 1 h ahead or in the past: no boundary case
	for _, a := range o.failed {
		if a.after.After(now) {
			return true
		}
	}
	return false
}

// finish: fair continuation at the end of every sequence, then the end-to-end oracle of C04.
func (m *vfMachine) finish(t *rapid.T) {
	m.flushPending(t)
	if !m.running {
		return
	}
	m.logf(t, "-- end of generated sequence: drain")
	m.drain(t)
	if m.focus != "C04" {
		// C13, first clause: "as long as blocks can be sampled the DASer eventually samples every
		// known height" - after the fair continuation nothing may be left unsampled (a worker that
		// vanished without reporting is judged by B3, not here)
		if missing := m.notOK(); m.on("L2") && len(missing) > 0 && m.prev.leaked() == 0 && !m.capHit {
			m.fail(t, "C13/L2 height(s) %v were never successfully sampled although every sampling call succeeded until catch-up was reported done: %s (start=%d known head=%d)",
				missing, m.prev, m.start, m.netHead)
		}
		return
	}
	if len(m.notOK()) > 0 && m.prev.leaked() > 0 && !m.capHit {
		// a worker that vanished without reporting (judged by C13/B3, not here) still holds its
		// heights as "being sampled"; they must come back with the next restart
		m.logf(t, "-- heights %v are held by a vanished worker: graceful restart and drain", m.notOK())
		m.labels["vanished-worker-resolved-by-restart"] = true
		m.stepT0 = time.Now()
		m.stopStart(t, true)
		m.drain(t)
	}
	if missing := m.notOK(); m.on("I4") && len(missing) > 0 && !m.capHit {
		m.fail(t, "C04/I4 height(s) %v were never successfully sampled although every sampling call succeeded until nothing was left in flight: %s (start=%d known head=%d)",
			missing, m.prev, m.start, m.netHead)
	}
}

// ---------------------------------------------------------------------------------------------
// formatting

func vfKeys[V any](mp map[uint64]V) []uint64 {
	out := make([]uint64, 0, len(mp))
	for h := range mp {
		out = append(out, h)
	}
	sort.Slice(out, func(i, j int) bool { return out[i] < out[j] })
	return out
}

func vfAttempts(mp map[uint64]retryAttempt) string {
	parts := []string{}
	for _, h := range vfKeys(mp) {
		parts = append(parts, fmt.Sprintf("%d:x%d", h, mp[h].count))
	}
	return "{" + strings.Join(parts, " ") + "}"
}

func vfSortedCounts(mp map[uint64]int) string {
	parts := []string{}
	for _, h := range vfKeys(mp) {
		parts = append(parts, fmt.Sprintf("%d:x%d", h, mp[h]))
	}
	return "{" + strings.Join(parts, " ") + "}"
}

func vfWorkers(ws []WorkerStats) string {
	parts := []string{}
	for _, w := range ws {
		parts = append(parts, fmt.Sprintf("%s[%d..%d]@%d", w.JobType, w.From, w.To, w.Curr))
	}
	return "[" + strings.Join(parts, " ") + "]"
}

func vfParked(cs []*vfCall) string {
	parts := []string{}
	for _, c := range cs {
		parts = append(parts, fmt.Sprint(c.height))
	}
	return "[" + strings.Join(parts, " ") + "]"
}

func vfCheckpoint(cp checkpoint) string {
	ws := []string{} // canonical order: the order in the checkpoint is map iteration order
	wk := append([]workerCheckpoint(nil), cp.Workers...)
	sort.Slice(wk, func(i, j int) bool {
		if wk[i].From != wk[j].From {
			return wk[i].From < wk[j].From
		}
		if wk[i].To != wk[j].To {
			return wk[i].To < wk[j].To
		}
		return wk[i].JobType < wk[j].JobType
	})
	for _, w := range wk {
		ws = append(ws, fmt.Sprintf("%s[%d..%d]", w.JobType, w.From, w.To))
	}
	return fmt.Sprintf("{SampleFrom:%d NetworkHead:%d Failed:%s Workers:[%s]}", cp.SampleFrom, cp.NetworkHead,
		vfSortedCounts(cp.Failed), strings.Join(ws, " "))
}
