package das

// C04 / C13 — fakes owned by the harness (injected by overlay; not part of celestia-node).
//
// Every blocking point of the DASer is one of these fakes, so the harness owns the schedule:
//   * vfDA          share.Availability whose SharesAvailable parks until the harness releases it
//   * vfStore       in-memory libhead.Store (tail, head, cheap headers)
//   * vfSubscriber  libhead.Subscriber whose subscription hands out exactly the headers the harness emits
//   * vfDS          datastore wrapper that shows every checkpoint value that reaches the datastore

import (
	"bytes"
	"context"
	"errors"
	"runtime"
	"sort"
	"sync"

	"github.com/cometbft/cometbft/types"
	"github.com/ipfs/go-datastore"

	libhead "github.com/celestiaorg/go-header"

	"github.com/celestiaorg/celestia-node/header"
	"github.com/celestiaorg/celestia-node/share"
)

func vfMakeHeader(height uint64) *header.ExtendedHeader {
	h := &header.ExtendedHeader{
		Commit:    &types.Commit{},
		RawHeader: header.RawHeader{Height: int64(height)},
		DAH:       &share.AxisRoots{RowRoots: make([][]byte, 0)},
	}
	// A stored header has been validated, so the DAH's lazily cached hash is already filled in.
	// Without this, two workers logging the same shared header race inside celestia-app's
	// DataAvailabilityHeader.Hash (a dependency's unsynchronised cache, not the DASer's state).
	_ = h.DAH.Hash()
	return h
}

// ---------------------------------------------------------------------------------------------
// availability

// vfCall is one SharesAvailable call parked inside the fake.
type vfCall struct {
	id     int
	height uint64
	hdr    *header.ExtendedHeader
	ctx    context.Context
	rel    chan error
}

type vfDA struct {
	mu         sync.Mutex
	nextID     int
	parked     map[int]*vfCall
	calledEver map[uint64]bool // heights ever handed to SharesAvailable
	calls      int
	cancelled  int // calls that ended because their own context was done
}

func newVfDA() *vfDA {
	return &vfDA{parked: map[int]*vfCall{}, calledEver: map[uint64]bool{}}
}

// SharesAvailable parks until the harness releases the call with an outcome, or until the
// call's context is done (what every real implementation does when the DASer stops).
func (f *vfDA) SharesAvailable(ctx context.Context, h *header.ExtendedHeader) error {
	f.mu.Lock()
	f.nextID++
	f.calls++
	c := &vfCall{id: f.nextID, height: h.Height(), hdr: h, ctx: ctx, rel: make(chan error)}
	f.parked[c.id] = c
	f.calledEver[c.height] = true
	f.mu.Unlock()
	select {
	case err := <-c.rel:
		return err
	case <-ctx.Done():
		f.mu.Lock()
		delete(f.parked, c.id)
		f.cancelled++
		f.mu.Unlock()
		return ctx.Err()
	}
}

// release hands the outcome to the parked call; when it returns true the call is returning err.
func (f *vfDA) release(c *vfCall, err error) bool {
	select {
	case c.rel <- err:
		f.mu.Lock()
		delete(f.parked, c.id)
		f.mu.Unlock()
		return true
	case <-c.ctx.Done():
		return false
	}
}

// snapshot returns the parked calls ordered by (height, id).
func (f *vfDA) snapshot() []*vfCall {
	f.mu.Lock()
	out := make([]*vfCall, 0, len(f.parked))
	for _, c := range f.parked {
		out = append(out, c)
	}
	f.mu.Unlock()
	sort.Slice(out, func(i, j int) bool {
		if out[i].height != out[j].height {
			return out[i].height < out[j].height
		}
		return out[i].id < out[j].id
	})
	return out
}

func (f *vfDA) wasCalled(h uint64) bool {
	f.mu.Lock()
	defer f.mu.Unlock()
	return f.calledEver[h]
}

// ---------------------------------------------------------------------------------------------
// header store

type vfStore struct {
	mu         sync.Mutex
	tail, head uint64
	hdrs       map[uint64]*header.ExtendedHeader
	outOfRange int
}

func newVfStore(tail, head uint64) *vfStore {
	s := &vfStore{tail: tail, head: tail, hdrs: map[uint64]*header.ExtendedHeader{}}
	s.hdrs[tail] = vfMakeHeader(tail)
	s.extendTo(head)
	return s
}

// extendTo makes every height up to head available (what the syncer does before/while the
// subscription hands the new head to its subscribers).
func (s *vfStore) extendTo(head uint64) {
	s.mu.Lock()
	defer s.mu.Unlock()
	for h := s.head + 1; h <= head; h++ {
		s.hdrs[h] = vfMakeHeader(h)
	}
	if head > s.head {
		s.head = head
	}
}

// advanceTail prunes headers below the new tail.
func (s *vfStore) advanceTail(tail uint64) {
	s.mu.Lock()
	defer s.mu.Unlock()
	if tail > s.head {
		tail = s.head
	}
	for h := s.tail; h < tail; h++ {
		delete(s.hdrs, h)
	}
	if tail > s.tail {
		s.tail = tail
	}
}

func (s *vfStore) bounds() (tail, head uint64) {
	s.mu.Lock()
	defer s.mu.Unlock()
	return s.tail, s.head
}

func (s *vfStore) Head(context.Context, ...libhead.HeadOption[*header.ExtendedHeader]) (*header.ExtendedHeader, error) {
	s.mu.Lock()
	defer s.mu.Unlock()
	return s.hdrs[s.head], nil
}

func (s *vfStore) Tail(context.Context) (*header.ExtendedHeader, error) {
	s.mu.Lock()
	defer s.mu.Unlock()
	return s.hdrs[s.tail], nil
}

func (s *vfStore) GetByHeight(_ context.Context, height uint64) (*header.ExtendedHeader, error) {
	s.mu.Lock()
	defer s.mu.Unlock()
	h, ok := s.hdrs[height]
	if !ok {
		s.outOfRange++
		return nil, libhead.ErrNotFound
	}
	return h, nil
}

func (s *vfStore) Height() uint64 {
	s.mu.Lock()
	defer s.mu.Unlock()
	return s.head
}

func (s *vfStore) HasAt(_ context.Context, height uint64) bool {
	s.mu.Lock()
	defer s.mu.Unlock()
	_, ok := s.hdrs[height]
	return ok
}

var errVfNotUsed = errors.New("vf: method not used by the DASer")

func (s *vfStore) Get(context.Context, libhead.Hash) (*header.ExtendedHeader, error) {
	return nil, errVfNotUsed
}

func (s *vfStore) GetRangeByHeight(context.Context, *header.ExtendedHeader, uint64) ([]*header.ExtendedHeader, error) {
	return nil, errVfNotUsed
}
func (s *vfStore) Has(context.Context, libhead.Hash) (bool, error)         { return false, errVfNotUsed }
func (s *vfStore) Append(context.Context, ...*header.ExtendedHeader) error { return errVfNotUsed }
func (s *vfStore) GetRange(context.Context, uint64, uint64) ([]*header.ExtendedHeader, error) {
	return nil, errVfNotUsed
}
func (s *vfStore) DeleteRange(context.Context, uint64, uint64) error       { return errVfNotUsed }
func (s *vfStore) OnDelete(func(ctx context.Context, height uint64) error) {}

// ---------------------------------------------------------------------------------------------
// subscription

type vfSubscription struct {
	ch    chan *header.ExtendedHeader
	mu    sync.Mutex
	waits int // NextHeader calls entered
	sent  int // headers handed out
}

func (s *vfSubscription) NextHeader(ctx context.Context) (*header.ExtendedHeader, error) {
	s.mu.Lock()
	s.waits++
	s.mu.Unlock()
	select {
	case h := <-s.ch:
		return h, nil
	case <-ctx.Done():
		return nil, ctx.Err()
	}
}

func (s *vfSubscription) Cancel() {}

// delivered: the subscriber asked for the next header after every header handed out so far,
// i.e. its emit callback (samplingCoordinator.listen) has returned for all of them.
func (s *vfSubscription) delivered() bool {
	s.mu.Lock()
	defer s.mu.Unlock()
	return s.waits >= s.sent+1
}

type vfSubscriber struct {
	mu  sync.Mutex
	cur *vfSubscription
}

func (s *vfSubscriber) Subscribe() (libhead.Subscription[*header.ExtendedHeader], error) {
	s.mu.Lock()
	defer s.mu.Unlock()
	s.cur = &vfSubscription{ch: make(chan *header.ExtendedHeader)}
	return s.cur, nil
}

func (s *vfSubscriber) SetVerifier(func(context.Context, *header.ExtendedHeader) error) error {
	return nil
}

func (s *vfSubscriber) current() *vfSubscription {
	s.mu.Lock()
	defer s.mu.Unlock()
	return s.cur
}

// ---------------------------------------------------------------------------------------------
// datastore

type vfDS struct {
	datastore.Datastore
	onPut func(key datastore.Key, value []byte)
}

func (d *vfDS) Put(ctx context.Context, key datastore.Key, value []byte) error {
	if d.onPut != nil {
		d.onPut(key, value)
	}
	return d.Datastore.Put(ctx, key, value)
}

// ---------------------------------------------------------------------------------------------
// worker goroutines

var vfWorkerCreatedBy = []byte("created by github.com/celestiaorg/celestia-node/das.(*samplingCoordinator).runWorker")

var vfStackBuf = make([]byte, 1<<20)

// vfCountWorkerGoroutines counts the goroutines started by samplingCoordinator.runWorker that
// still exist (running, runnable, blocked or not yet scheduled). Only one DASer exists at a time
// in the harness, and every stop/crash waits for the coordinator (which waits for its workers).
func vfCountWorkerGoroutines() int {
	for {
		n := runtime.Stack(vfStackBuf, true)
		if n < len(vfStackBuf) {
			return bytes.Count(vfStackBuf[:n], vfWorkerCreatedBy)
		}
		vfStackBuf = make([]byte, 2*len(vfStackBuf))
	}
}
