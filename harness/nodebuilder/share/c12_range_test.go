package share

// C12 — proofs handed to clients verify, and only for what they claim (share module part):
// module.GetRange -> newGetRangeResult -> GetRangeResult.Verify.
// Harness file of /verif (injected by overlay; not part of celestia-node).

import (
	"bytes"
	"context"
	"crypto/sha256"
	"encoding/json"
	"errors"
	"fmt"
	"strings"
	"testing"

	"github.com/cometbft/cometbft/crypto/merkle"
	tmbytes "github.com/cometbft/cometbft/libs/bytes"
	tmproto "github.com/cometbft/cometbft/proto/tendermint/types"
	"github.com/cometbft/cometbft/types"
	"pgregory.net/rapid"

	libshare "github.com/celestiaorg/go-square/v4/share"

	"github.com/celestiaorg/celestia-node/header"
	vk "github.com/celestiaorg/celestia-node/internal/verifkit"
	headerServ "github.com/celestiaorg/celestia-node/nodebuilder/header"
	"github.com/celestiaorg/celestia-node/share/eds"
	"github.com/celestiaorg/celestia-node/share/shwap"
)

// ---- wiring: the real module over an in-memory square ----

type c12HS struct {
	headerServ.Module // unused methods panic on the nil interface: GetRange only needs GetByHeight
	hdrs              map[uint64]*header.ExtendedHeader
}

func (h *c12HS) GetByHeight(_ context.Context, height uint64) (*header.ExtendedHeader, error) {
	hd, ok := h.hdrs[height]
	if !ok {
		return nil, errors.New("c12: header not found")
	}
	return hd, nil
}

type c12RangeGetter struct {
	shwap.Getter
	sqs map[uint64]*vk.Square
}

// GetRangeNamespaceData answers like the store-backed getter: the accessor's RangeNamespaceData.
func (g *c12RangeGetter) GetRangeNamespaceData(ctx context.Context, h *header.ExtendedHeader, from, to int) (shwap.RangeNamespaceData, error) {
	sq, ok := g.sqs[h.Height()]
	if !ok {
		return shwap.RangeNamespaceData{}, shwap.ErrNotFound
	}
	return (&eds.Rsmt2D{ExtendedDataSquare: sq.EDS}).RangeNamespaceData(ctx, from, to)
}

func c12Module(sqs map[uint64]*vk.Square) module {
	hs := &c12HS{hdrs: map[uint64]*header.ExtendedHeader{}}
	for h, sq := range sqs {
		eh := &header.ExtendedHeader{DAH: sq.Roots}
		eh.RawHeader.Height = int64(h)
		eh.RawHeader.DataHash = sq.Roots.Hash()
		hs.hdrs[h] = eh
	}
	return module{getter: &c12RangeGetter{sqs: sqs}, hs: hs}
}

// ---- reference ----

func c12AxisRoot(sq *vk.Square, idx int) []byte {
	w := sq.Width()
	if idx < w {
		return sq.Roots.RowRoots[idx]
	}
	return sq.Roots.ColumnRoots[idx-w]
}

func c12AxisCell(sq *vk.Square, idx, k int) (cell []byte, inODS bool) {
	w := sq.Width()
	if idx < w {
		return sq.Ref[idx][k], idx < sq.ODS && k < sq.ODS
	}
	return sq.Ref[k][idx-w], k < sq.ODS && idx-w < sq.ODS
}

// c12RangeClaimHolds decides from the reference square whether what a range result states is true
// under dataRoot: the shares handed out are exactly the proof's data, every listed row root is the
// committed root of the axis its merkle proof points at, and the data are exactly the cells of
// those axes at the stated leaf ranges, all in the stated namespace.
func c12RangeClaimHolds(sq *vk.Square, r *GetRangeResult, dataRoot []byte) (bool, string) {
	if !bytes.Equal(dataRoot, sq.Roots.Hash()) {
		return false, "data root is not the block's"
	}
	if r.Proof == nil {
		return false, "no proof"
	}
	p := r.Proof
	n := len(p.ShareProofs)
	if n == 0 || len(p.RowProof.RowRoots) != n || len(p.RowProof.Proofs) != n {
		return false, "component counts differ"
	}
	if len(r.Shares) != len(p.Data) {
		return false, fmt.Sprintf("%d shares handed out, proof proves %d", len(r.Shares), len(p.Data))
	}
	for i, sh := range r.Shares {
		if !bytes.Equal(sh.ToBytes(), p.Data[i]) {
			return false, fmt.Sprintf("share %d differs from the proven data", i)
		}
	}
	if p.NamespaceVersion > 255 {
		return false, "namespace version out of range"
	}
	nsBytes := append([]byte{byte(p.NamespaceVersion)}, p.NamespaceID...)
	cursor := 0
	for i, sp := range p.ShareProofs {
		if sp == nil || p.RowProof.Proofs[i] == nil {
			return false, "nil component"
		}
		if sp.Start < 0 || sp.End <= sp.Start || int(sp.End) > sq.Width() {
			return false, "leaf range outside the row"
		}
		idx := p.RowProof.Proofs[i].Index
		if idx < 0 || idx >= int64(2*sq.Width()) {
			return false, "row proof index outside the root list"
		}
		if !bytes.Equal(p.RowProof.RowRoots[i], c12AxisRoot(sq, int(idx))) {
			return false, "row root is not the committed root at the proof's index"
		}
		for k := int(sp.Start); k < int(sp.End); k++ {
			if cursor >= len(p.Data) {
				return false, "proof ranges cover more shares than the data"
			}
			cell, inODS := c12AxisCell(sq, int(idx), k)
			if !bytes.Equal(cell, p.Data[cursor]) {
				return false, fmt.Sprintf("data %d is not the committed share at axis %d position %d", cursor, idx, k)
			}
			want := libshare.ParitySharesNamespace.Bytes()
			if inODS {
				want = cell[:libshare.NamespaceSize]
			}
			if !bytes.Equal(want, nsBytes) {
				return false, "stated namespace is not the namespace of the proven share"
			}
			cursor++
		}
	}
	if cursor != len(p.Data) {
		return false, "proof ranges cover fewer shares than the data"
	}
	return true, ""
}

// ---- copies, description ----

func c12CloneResult(r *GetRangeResult) *GetRangeResult {
	out := &GetRangeResult{Shares: append([]libshare.Share(nil), r.Shares...)}
	if r.Shares == nil {
		out.Shares = nil
	}
	if r.Proof == nil {
		return out
	}
	p := r.Proof
	cp := &types.ShareProof{
		Data:             vk.C12CloneBytes(p.Data),
		NamespaceID:      append([]byte(nil), p.NamespaceID...),
		NamespaceVersion: p.NamespaceVersion,
	}
	for _, sp := range p.ShareProofs {
		if sp == nil {
			cp.ShareProofs = append(cp.ShareProofs, nil)
			continue
		}
		cp.ShareProofs = append(cp.ShareProofs, &tmproto.NMTProof{Start: sp.Start, End: sp.End, Nodes: vk.C12CloneBytes(sp.Nodes), LeafHash: append([]byte(nil), sp.LeafHash...)})
	}
	for _, rr := range p.RowProof.RowRoots {
		cp.RowProof.RowRoots = append(cp.RowProof.RowRoots, append(tmbytes.HexBytes(nil), rr...))
	}
	for _, mp := range p.RowProof.Proofs {
		if mp == nil {
			cp.RowProof.Proofs = append(cp.RowProof.Proofs, nil)
			continue
		}
		cp.RowProof.Proofs = append(cp.RowProof.Proofs, &merkle.Proof{Total: mp.Total, Index: mp.Index, LeafHash: append([]byte(nil), mp.LeafHash...), Aunts: vk.C12CloneBytes(mp.Aunts)})
	}
	cp.RowProof.StartRow, cp.RowProof.EndRow = p.RowProof.StartRow, p.RowProof.EndRow
	out.Proof = cp
	return out
}

func c12DescribeResult(r *GetRangeResult) string {
	var b strings.Builder
	fmt.Fprintf(&b, "{shares=%d ", len(r.Shares))
	if r.Proof == nil {
		b.WriteString("proof=nil}")
		return b.String()
	}
	p := r.Proof
	fmt.Fprintf(&b, "data=%d ns=%d/%x rows=[%d,%d] rowRoots=%d rowProofs=[", len(p.Data), p.NamespaceVersion, p.NamespaceID, p.RowProof.StartRow, p.RowProof.EndRow, len(p.RowProof.RowRoots))
	for _, mp := range p.RowProof.Proofs {
		if mp == nil {
			b.WriteString("nil ")
			continue
		}
		fmt.Fprintf(&b, "(idx=%d total=%d aunts=%d) ", mp.Index, mp.Total, len(mp.Aunts))
	}
	b.WriteString("] shareProofs=[")
	for _, sp := range p.ShareProofs {
		if sp == nil {
			b.WriteString("nil ")
			continue
		}
		fmt.Fprintf(&b, "([%d,%d) nodes=%d) ", sp.Start, sp.End, len(sp.Nodes))
	}
	b.WriteString("]}")
	return b.String()
}

func c12RawToHex(xs [][]byte) []tmbytes.HexBytes {
	if xs == nil {
		return nil
	}
	out := make([]tmbytes.HexBytes, len(xs))
	for i, x := range xs {
		out[i] = x
	}
	return out
}

func c12HexToRaw(xs []tmbytes.HexBytes) [][]byte {
	if xs == nil {
		return nil
	}
	out := make([][]byte, len(xs))
	for i, x := range xs {
		out[i] = x
	}
	return out
}

func c12SharesFromBytes(xs [][]byte) ([]libshare.Share, bool) {
	out := make([]libshare.Share, 0, len(xs))
	for _, x := range xs {
		sh, err := libshare.NewShare(x)
		if err != nil {
			return nil, false
		}
		out = append(out, sh)
	}
	return out, true
}

func c12VerifyResult(r *GetRangeResult, root []byte) (err error, panicked any) {
	defer func() {
		if rec := recover(); rec != nil {
			panicked = rec
		}
	}()
	return r.Verify(root), nil
}

// ---- tampering ----

// c12TamperResult applies one tampering to a copy of a result. donor is the result of another
// range (same or another square; may be nil), otherRoot a different square's data root.
func c12TamperResult(t *rapid.T, honest *GetRangeResult, root []byte, donor *GetRangeResult, otherRoot []byte) (*GetRangeResult, []byte, string) {
	r := c12CloneResult(honest)
	root = append([]byte(nil), root...)
	if donor == nil || donor.Proof == nil {
		donor = &GetRangeResult{Proof: &types.ShareProof{}}
	}
	group := rapid.SampledFrom([]string{
		"shares", "shares", "shares", "data", "data", "shares+data", "sp-list", "sp-range", "sp-nodes", "row-roots", "row-proofs-list",
		"row-proof-fields", "row-aunts", "rows-startend", "ns-field", "data-root", "proof-nil", "donor-proof", "donor-shares",
	}).Draw(t, "group")
	p := r.Proof
	usableSP := p != nil && len(p.ShareProofs) > 0
	usableRP := p != nil && len(p.RowProof.Proofs) > 0
	if p != nil {
		for _, x := range p.ShareProofs {
			usableSP = usableSP && x != nil
		}
		for _, x := range p.RowProof.Proofs {
			usableRP = usableRP && x != nil
		}
	}
	switch {
	case p == nil && group != "shares" && group != "data-root":
		group = "shares"
	case !usableSP && (group == "sp-list" || group == "sp-range" || group == "sp-nodes"):
		group = "shares"
	case !usableRP && (group == "row-proofs-list" || group == "row-proof-fields" || group == "row-aunts"):
		group = "shares"
	case group == "data-root" && len(root) < 2:
		group = "shares"
	}
	op := ""
	tamperShares := func(label string, xs [][]byte, donorXs [][]byte) ([][]byte, string) {
		// the shapes the property names first: trimmed to a prefix (even to nothing), padded
		switch k := rapid.SampledFrom([]string{"trim-prefix", "trim-to-zero", "trim-front", "pad-dup", "pad-donor", "list"}).Draw(t, label+".k"); k {
		case "trim-prefix":
			if len(xs) > 1 {
				return xs[:rapid.IntRange(1, len(xs)-1).Draw(t, label+".n")], k
			}
			return xs[:0], "trim-to-zero"
		case "trim-to-zero":
			if rapid.Bool().Draw(t, label+".nil") {
				return nil, k
			}
			return xs[:0], k
		case "trim-front":
			if len(xs) > 0 {
				return xs[1:], k
			}
			return xs, k
		case "pad-dup":
			if len(xs) > 0 {
				return append(xs, append([]byte(nil), xs[len(xs)-1]...)), k
			}
			return xs, k
		case "pad-donor":
			if len(donorXs) > 0 {
				return append(xs, append([]byte(nil), donorXs[rapid.IntRange(0, len(donorXs)-1).Draw(t, label+".d")]...)), k
			}
			tp := libshare.TailPaddingShare()
			return append(xs, tp.ToBytes()), k
		default:
			return vk.C12MutList(t, label+".l", xs, donorXs)
		}
	}
	setShares := func(raw [][]byte) bool {
		shs, ok := c12SharesFromBytes(raw)
		if ok {
			r.Shares = shs
			if raw == nil {
				r.Shares = nil
			}
		}
		return ok
	}
	var donorShares [][]byte
	for _, s := range donor.Shares {
		donorShares = append(donorShares, s.ToBytes())
	}
	pickSP := func() int { return rapid.IntRange(0, len(p.ShareProofs)-1).Draw(t, "sp.i") }
	pickRP := func() int { return rapid.IntRange(0, len(p.RowProof.Proofs)-1).Draw(t, "rp.i") }
	switch group {
	case "shares":
		raw, k := tamperShares("sh", libshare.ToBytes(r.Shares), donorShares)
		op = k
		if !setShares(raw) {
			// a malformed share cannot be represented as libshare.Share: trim instead
			if len(r.Shares) > 0 {
				r.Shares = r.Shares[:len(r.Shares)-1]
			}
			op = "trim-last"
		}
	case "data":
		p.Data, op = tamperShares("da", p.Data, donor.Proof.Data)
	case "shares+data":
		// both trimmed / padded the same way: the pair stays consistent, the proofs do not
		raw, k := tamperShares("sd", vk.C12CloneBytes(p.Data), donor.Proof.Data)
		op = k
		if setShares(raw) {
			p.Data = vk.C12CloneBytes(raw)
		} else {
			p.Data = raw
			op += "-data-only"
		}
	case "sp-list":
		op = rapid.SampledFrom([]string{"append-dup", "append-donor", "drop-first", "drop-last", "swap", "nil-elem", "empty"}).Draw(t, "sp.op")
		switch op {
		case "append-dup":
			p.ShareProofs = append(p.ShareProofs, c12CloneResult(honest).Proof.ShareProofs[len(honest.Proof.ShareProofs)-1])
		case "append-donor":
			if len(donor.Proof.ShareProofs) > 0 {
				p.ShareProofs = append(p.ShareProofs, c12CloneResult(donor).Proof.ShareProofs[0])
			} else {
				p.ShareProofs = append(p.ShareProofs, nil)
			}
		case "drop-first":
			p.ShareProofs = p.ShareProofs[1:]
		case "drop-last":
			p.ShareProofs = p.ShareProofs[:len(p.ShareProofs)-1]
		case "swap":
			i, j := pickSP(), rapid.IntRange(0, len(p.ShareProofs)-1).Draw(t, "sp.j")
			p.ShareProofs[i], p.ShareProofs[j] = p.ShareProofs[j], p.ShareProofs[i]
		case "nil-elem":
			p.ShareProofs[pickSP()] = nil
		case "empty":
			p.ShareProofs = nil
		}
	case "sp-range":
		sp := p.ShareProofs[pickSP()]
		op = rapid.SampledFrom([]string{"start-1", "start+1", "end-1", "end+1", "shift+1", "shift-1", "empty", "inverted", "negative", "huge", "wrap"}).Draw(t, "spr.op")
		switch op {
		case "start-1":
			sp.Start--
		case "start+1":
			sp.Start++
		case "end-1":
			sp.End--
		case "end+1":
			sp.End++
		case "shift+1":
			sp.Start, sp.End = sp.Start+1, sp.End+1
		case "shift-1":
			sp.Start, sp.End = sp.Start-1, sp.End-1
		case "empty":
			sp.End = sp.Start
		case "inverted":
			sp.Start, sp.End = sp.End, sp.Start
		case "negative":
			sp.Start, sp.End = -sp.End, -sp.Start
		case "huge":
			sp.End = 1<<31 - 1
		case "wrap":
			sp.Start, sp.End = -(1 << 31), sp.End
		}
	case "sp-nodes":
		sp := p.ShareProofs[pickSP()]
		var dn [][]byte
		if len(donor.Proof.ShareProofs) > 0 && donor.Proof.ShareProofs[0] != nil {
			dn = donor.Proof.ShareProofs[0].Nodes
		}
		if rapid.IntRange(0, 5).Draw(t, "spn.leafhash") == 0 {
			sp.LeafHash, op = rapid.SliceOfN(rapid.Byte(), 1, 90).Draw(t, "spn.lh"), "leafhash"
		} else {
			sp.Nodes, op = vk.C12MutList(t, "spn", sp.Nodes, dn)
		}
	case "row-roots":
		var raw [][]byte
		raw, op = vk.C12MutList(t, "rr", c12HexToRaw(p.RowProof.RowRoots), c12HexToRaw(donor.Proof.RowProof.RowRoots))
		p.RowProof.RowRoots = c12RawToHex(raw)
	case "row-proofs-list":
		op = rapid.SampledFrom([]string{"append-dup", "append-donor", "drop-first", "drop-last", "swap", "nil-elem", "empty"}).Draw(t, "rp.op")
		switch op {
		case "append-dup":
			p.RowProof.Proofs = append(p.RowProof.Proofs, c12CloneResult(honest).Proof.RowProof.Proofs[len(honest.Proof.RowProof.Proofs)-1])
		case "append-donor":
			if len(donor.Proof.RowProof.Proofs) > 0 {
				p.RowProof.Proofs = append(p.RowProof.Proofs, c12CloneResult(donor).Proof.RowProof.Proofs[0])
			} else {
				p.RowProof.Proofs = append(p.RowProof.Proofs, nil)
			}
		case "drop-first":
			p.RowProof.Proofs = p.RowProof.Proofs[1:]
		case "drop-last":
			p.RowProof.Proofs = p.RowProof.Proofs[:len(p.RowProof.Proofs)-1]
		case "swap":
			i, j := pickRP(), rapid.IntRange(0, len(p.RowProof.Proofs)-1).Draw(t, "rp.j")
			p.RowProof.Proofs[i], p.RowProof.Proofs[j] = p.RowProof.Proofs[j], p.RowProof.Proofs[i]
		case "nil-elem":
			p.RowProof.Proofs[pickRP()] = nil
		case "empty":
			p.RowProof.Proofs = nil
		}
	case "row-proof-fields":
		mp := p.RowProof.Proofs[pickRP()]
		op = rapid.SampledFrom([]string{"index+1", "index-1", "index-neg", "total+1", "total-1", "total-neg", "total-huge", "leafhash-flip", "leafhash-nil", "leafhash-short"}).Draw(t, "rpf.op")
		switch op {
		case "index+1":
			mp.Index++
		case "index-1":
			mp.Index--
		case "index-neg":
			mp.Index = -mp.Index - 1
		case "total+1":
			mp.Total++
		case "total-1":
			mp.Total--
		case "total-neg":
			mp.Total = -mp.Total
		case "total-huge":
			mp.Total = 1 << 62
		case "leafhash-flip":
			if len(mp.LeafHash) > 0 {
				mp.LeafHash[rapid.IntRange(0, len(mp.LeafHash)-1).Draw(t, "rpf.pos")] ^= 0x10
			}
		case "leafhash-nil":
			mp.LeafHash = nil
		case "leafhash-short":
			mp.LeafHash = mp.LeafHash[:len(mp.LeafHash)/2]
		}
	case "row-aunts":
		mp := p.RowProof.Proofs[pickRP()]
		var da [][]byte
		if len(donor.Proof.RowProof.Proofs) > 0 && donor.Proof.RowProof.Proofs[0] != nil {
			da = donor.Proof.RowProof.Proofs[0].Aunts
		}
		mp.Aunts, op = vk.C12MutList(t, "aunts", mp.Aunts, da)
	case "rows-startend":
		op = rapid.SampledFrom([]string{"widen-end", "widen-start", "narrow-end", "narrow-start", "shift+1", "shift-1", "max"}).Draw(t, "se.op")
		switch op {
		case "widen-end":
			p.RowProof.EndRow++
		case "widen-start":
			p.RowProof.StartRow--
		case "narrow-end":
			p.RowProof.EndRow--
		case "narrow-start":
			p.RowProof.StartRow++
		case "shift+1":
			p.RowProof.StartRow, p.RowProof.EndRow = p.RowProof.StartRow+1, p.RowProof.EndRow+1
		case "shift-1":
			p.RowProof.StartRow, p.RowProof.EndRow = p.RowProof.StartRow-1, p.RowProof.EndRow-1
		case "max":
			p.RowProof.StartRow, p.RowProof.EndRow = 0, ^uint32(0)
		}
	case "ns-field":
		op = rapid.SampledFrom([]string{"id-flip", "id-nil", "id-donor", "version", "version-big"}).Draw(t, "nsf.op")
		switch op {
		case "id-flip":
			if len(p.NamespaceID) > 0 {
				p.NamespaceID[len(p.NamespaceID)-1] ^= 0x01
			}
		case "id-nil":
			p.NamespaceID = nil
		case "id-donor":
			p.NamespaceID = append([]byte(nil), donor.Proof.NamespaceID...)
		case "version":
			p.NamespaceVersion ^= 0xFF
		case "version-big":
			p.NamespaceVersion += 256
		}
	case "data-root":
		op = rapid.SampledFrom([]string{"other-square", "random", "flip", "truncate", "nil", "row-root"}).Draw(t, "root.op")
		switch op {
		case "other-square":
			if len(otherRoot) > 0 && !bytes.Equal(otherRoot, root) {
				root = append([]byte(nil), otherRoot...)
			} else {
				h := sha256.Sum256(root)
				root, op = h[:], "hash-of-root"
			}
		case "random":
			root = rapid.SliceOfN(rapid.Byte(), 32, 32).Draw(t, "root.rnd")
		case "flip":
			root[rapid.IntRange(0, len(root)-1).Draw(t, "root.pos")] ^= 1 << uint(rapid.IntRange(0, 7).Draw(t, "root.bit"))
		case "truncate":
			root = root[:rapid.IntRange(1, len(root)-1).Draw(t, "root.cut")]
		case "nil":
			root = nil
		case "row-root":
			if p != nil && len(p.RowProof.RowRoots) > 0 {
				root = append([]byte(nil), p.RowProof.RowRoots[0]...)
			} else {
				root = nil
			}
		}
	case "proof-nil":
		r.Proof, op = nil, "nil"
	case "donor-proof":
		r.Proof, op = c12CloneResult(donor).Proof, "other-range-proof-own-shares"
	case "donor-shares":
		r.Shares, op = append([]libshare.Share(nil), donor.Shares...), "other-range-shares-own-proof"
	}
	return r, root, group + "/" + op
}

// ---- generation of ranges ----

type c12Range struct {
	start, end int
	kind       string
}

// c12GenRange draws [start,end) inside one namespace stretch of the ODS, biased to row borders.
func c12GenRange(t *rapid.T, label string, sq *vk.Square) c12Range {
	area := sq.ODS * sq.ODS
	idx := rapid.IntRange(0, area-1).Draw(t, label+".anchor")
	from, to := sq.NSStretch(idx)
	var cands []int
	for _, v := range []int{from, to, idx, idx + 1, (idx / sq.ODS) * sq.ODS, (idx/sq.ODS + 1) * sq.ODS} {
		if v >= from && v <= to {
			cands = append(cands, v)
		}
	}
	pick := func(l string) int {
		if rapid.IntRange(0, 2).Draw(t, label+l+".free") == 0 {
			return rapid.IntRange(from, to).Draw(t, label+l)
		}
		return rapid.SampledFrom(cands).Draw(t, label+l+".cand")
	}
	a, b := pick(".a"), pick(".b")
	if a > b {
		a, b = b, a
	}
	if a == b {
		if b < to {
			b++
		} else {
			a--
		}
	}
	rows := (b-1)/sq.ODS - a/sq.ODS + 1
	kind := "rows=1"
	if rows == 2 {
		kind = "rows=2"
	} else if rows > 2 {
		kind = "rows=3+"
	}
	return c12Range{start: a, end: b, kind: kind}
}

func c12CheckHonestRange(t *rapid.T, sq *vk.Square, rg c12Range, res *GetRangeResult) {
	root := sq.Roots.Hash()
	ods := sq.ODS
	if len(res.Shares) != rg.end-rg.start {
		t.Fatalf("C12 range: GetRange[%d,%d) returned %d shares; square %s", rg.start, rg.end, len(res.Shares), sq.Desc())
	}
	for i, sh := range res.Shares {
		k := rg.start + i
		if !bytes.Equal(sh.ToBytes(), sq.Ref[k/ods][k%ods]) {
			t.Fatalf("C12 range: GetRange[%d,%d) share %d is not the committed share at ODS index %d; square %s", rg.start, rg.end, i, k, sq.Desc())
		}
	}
	if err, pan := c12VerifyResult(res, root); err != nil || pan != nil {
		t.Fatalf("C12 range: the node's own result for [%d,%d) (ods %d) must verify against the block's data root; got err=%v panic=%v; result %s; square %s",
			rg.start, rg.end, ods, err, pan, c12DescribeResult(res), sq.Desc())
	}
	if ok, why := c12RangeClaimHolds(sq, res, root); !ok {
		t.Fatalf("C12 range: the node's own result for [%d,%d) does not state a true claim about the square (%s); result %s; square %s",
			rg.start, rg.end, why, c12DescribeResult(res), sq.Desc())
	}
	// the proof is for exactly the requested range
	r0, r1 := rg.start/ods, (rg.end-1)/ods
	p := res.Proof
	if int(p.RowProof.StartRow) != r0 || int(p.RowProof.EndRow) != r1 || len(p.ShareProofs) != r1-r0+1 {
		t.Fatalf("C12 range: proof for [%d,%d) (ods %d) covers rows [%d,%d] with %d share proofs, want rows [%d,%d]; %s",
			rg.start, rg.end, ods, p.RowProof.StartRow, p.RowProof.EndRow, len(p.ShareProofs), r0, r1, c12DescribeResult(res))
	}
	for i, sp := range p.ShareProofs {
		ws, we := 0, ods
		if i == 0 {
			ws = rg.start % ods
		}
		if i == r1-r0 {
			we = (rg.end-1)%ods + 1
		}
		if int(sp.Start) != ws || int(sp.End) != we || p.RowProof.Proofs[i].Index != int64(r0+i) {
			t.Fatalf("C12 range: proof for [%d,%d) (ods %d): row %d proves columns [%d,%d) under root index %d, want [%d,%d) under %d; %s",
				rg.start, rg.end, ods, r0+i, sp.Start, sp.End, p.RowProof.Proofs[i].Index, ws, we, r0+i, c12DescribeResult(res))
		}
	}
}

func c12JudgeTamperedRange(t *rapid.T, sq *vk.Square, rg c12Range, r *GetRangeResult, root []byte, kind string) {
	err, pan := c12VerifyResult(r, root)
	outcome := "rejected"
	if pan != nil {
		outcome = "panic"
	} else if err == nil {
		outcome = "accepted"
	}
	grp := kind
	if i := strings.IndexByte(kind, '/'); i >= 0 {
		grp = kind[:i]
	}
	// structural step: counts consistent (what ShareProof.Validate checks before any hashing)
	structural := r.Proof != nil && len(r.Proof.ShareProofs) == len(r.Proof.RowProof.RowRoots) &&
		len(r.Proof.RowProof.Proofs) == len(r.Proof.RowProof.RowRoots) && len(r.Proof.RowProof.RowRoots) > 0
	labels := []string{"range-tamper=" + grp, "range-outcome=" + outcome, rg.kind, fmt.Sprintf("ods=%d", sq.ODS)}
	if structural {
		labels = append(labels, "range-structural=pass")
	}
	vk.Record(fmt.Sprintf("%s [%d,%d) %s %s root=%x", sq.Desc(), rg.start, rg.end, kind, c12DescribeResult(r), root), labels, structural, func() any {
		return map[string]any{"square": sq.Desc(), "range": []int{rg.start, rg.end}, "tamper": kind, "result": c12DescribeResult(r), "outcome": outcome}
	})
	if pan != nil {
		t.Fatalf("C12 range: Verify must report malformed input as an error, but it panicked (%v) on tampering %q of the result for [%d,%d) (ods %d): %s",
			pan, kind, rg.start, rg.end, sq.ODS, c12DescribeResult(r))
	}
	if err == nil {
		if ok, why := c12RangeClaimHolds(sq, r, root); !ok {
			t.Fatalf("C12 range: Verify accepted a tampered result (%q, range [%d,%d), ods %d) whose claim does not hold for the reference square (%s): %s root=%x; square %s",
				kind, rg.start, rg.end, sq.ODS, why, c12DescribeResult(r), root, sq.Desc())
		}
		vk.Count("range_tampered_accepted_semantically_equal", 1)
		vk.Count("range_accepted_equal:"+grp, 1)
	}
}

// TestVerifC12_Range: for ranges inside one namespace the module's GetRange returns exactly the
// committed shares with a proof that verifies against the data root and is for that range; no
// tampered result / root verifies unless what it states is true for the reference square; never
// a panic.
func TestVerifC12_Range(t *testing.T) {
	defer vk.Flush()
	ctx := context.Background()
	sizes := []int{2, 2, 4, 4, 4, 8, 8, 16}
	if vk.Thorough() {
		sizes = append(sizes, 16, 32)
	}
	rapid.Check(t, func(t *rapid.T) {
		sq := vk.GenSquare(t, "sq", vk.SquareOpts{ODS: sizes, AllowEmpty: true})
		sqs := map[uint64]*vk.Square{3: sq}
		var other *vk.Square
		if rapid.IntRange(0, 2).Draw(t, "withOther") == 0 {
			if rapid.Bool().Draw(t, "sibling") {
				other = vk.GenSibling(t, "sib", sq)
			} else {
				other = vk.GenSquare(t, "oth", vk.SquareOpts{ODS: sizes})
			}
			sqs[4] = other
		}
		m := c12Module(sqs)
		rg := c12GenRange(t, "rg", sq)
		res, err := m.GetRange(ctx, 3, rg.start, rg.end)
		if err != nil || res == nil {
			t.Fatalf("C12 range: GetRange refused a range inside one namespace: [%d,%d) (ods %d): %v; square %s", rg.start, rg.end, sq.ODS, err, sq.Desc())
		}
		c12CheckHonestRange(t, sq, rg, res)
		vk.Record(fmt.Sprintf("%s honest [%d,%d)", sq.Desc(), rg.start, rg.end),
			[]string{"kind=honest-range", rg.kind, fmt.Sprintf("ods=%d", sq.ODS)}, rg.kind != "rows=1", func() any {
				return map[string]any{"square": sq.Desc(), "range": []int{rg.start, rg.end}, "result": c12DescribeResult(res)}
			})
		root := sq.Roots.Hash()

		// JSON round trip keeps it valid
		js, err := json.Marshal(res)
		if err != nil {
			t.Fatalf("C12 range: honest result does not marshal: %v", err)
		}
		var back GetRangeResult
		if err := json.Unmarshal(js, &back); err != nil {
			t.Fatalf("C12 range: honest result does not survive its own JSON form: %v", err)
		}
		if err, pan := c12VerifyResult(&back, root); err != nil || pan != nil {
			t.Fatalf("C12 range: honest result decoded from its JSON form no longer verifies: err=%v panic=%v", err, pan)
		}

		// donor: another range of the same square, or a range of the other square
		var donor *GetRangeResult
		var otherRoot []byte
		if other != nil {
			otherRoot = other.Roots.Hash()
		}
		if other != nil && rapid.Bool().Draw(t, "donorFromOther") {
			drg := c12GenRange(t, "drg", other)
			donor, err = m.GetRange(ctx, 4, drg.start, drg.end)
		} else {
			drg := c12GenRange(t, "drg", sq)
			donor, err = m.GetRange(ctx, 3, drg.start, drg.end)
		}
		if err != nil {
			t.Fatalf("C12 range: GetRange refused the donor range: %v", err)
		}
		if otherRoot != nil && !bytes.Equal(otherRoot, root) {
			if err, pan := c12VerifyResult(res, otherRoot); err == nil || pan != nil {
				t.Fatalf("C12 range: result for [%d,%d) verified against the data root of another square (err=%v panic=%v)", rg.start, rg.end, err, pan)
			}
		}

		nt := rapid.IntRange(2, 5).Draw(t, "ntamper")
		for k := 0; k < nt; k++ {
			if rapid.IntRange(0, 7).Draw(t, "viaJSON") == 0 {
				mut, mk := vk.C12MutateJSON(t, "json", js)
				var dec GetRangeResult
				if err := c12DecodeResult(mut, &dec); err != nil {
					vk.Record(fmt.Sprintf("%s json %x", sq.Desc(), mut), []string{"range-tamper=json", "json=undecodable"}, false, nil)
					continue
				}
				c12JudgeTamperedRange(t, sq, rg, &dec, root, "json/"+mk)
				continue
			}
			tr, troot, kind := c12TamperResult(t, res, root, donor, otherRoot)
			if rapid.IntRange(0, 4).Draw(t, "second") == 0 {
				tr2, troot2, kind2 := c12TamperResult(t, tr, troot, donor, otherRoot)
				tr, troot, kind = tr2, troot2, kind+"+"+kind2
			}
			c12JudgeTamperedRange(t, sq, rg, tr, troot, kind)
		}
	})
}

func c12DecodeResult(data []byte, into *GetRangeResult) (err error) {
	defer func() {
		if r := recover(); r != nil {
			panic(fmt.Sprintf("C12 range: UnmarshalJSON panicked on %q: %v", data, r))
		}
	}()
	return into.UnmarshalJSON(data)
}

// TestVerifC12_RangeRefusals: requests that are not a range inside one namespace of the square are
// refused with an error or answered correctly, never with a panic and never with data that does
// not verify.
func TestVerifC12_RangeRefusals(t *testing.T) {
	defer vk.Flush()
	ctx := context.Background()
	rapid.Check(t, func(t *rapid.T) {
		sq := vk.GenSquare(t, "sq", vk.SquareOpts{ODS: []int{1, 2, 4, 8}, AllowEmpty: true})
		m := c12Module(map[uint64]*vk.Square{3: sq})
		area := sq.ODS * sq.ODS
		kind := rapid.SampledFrom([]string{"negative", "inverted", "empty", "beyond", "cross-namespace", "unknown-height"}).Draw(t, "kind")
		var start, end int
		height := uint64(3)
		switch kind {
		case "negative":
			start, end = -rapid.IntRange(1, 5).Draw(t, "s"), rapid.IntRange(0, area).Draw(t, "e")
		case "inverted":
			end = rapid.IntRange(0, area-1).Draw(t, "e")
			start = rapid.IntRange(end, area).Draw(t, "s")
		case "empty":
			start = rapid.IntRange(0, area).Draw(t, "s")
			end = start
		case "beyond":
			start = rapid.IntRange(0, area).Draw(t, "s")
			end = rapid.IntRange(area+1, 4*area+4).Draw(t, "e")
		case "cross-namespace":
			start = rapid.IntRange(0, area-1).Draw(t, "s")
			_, to := sq.NSStretch(start)
			if to >= area {
				kind, end = "within", to
			} else {
				end = rapid.IntRange(to+1, area).Draw(t, "e")
			}
		case "unknown-height":
			height, start, end = 9, 0, 1
		}
		var res *GetRangeResult
		var err error
		var pan any
		func() {
			defer func() {
				if r := recover(); r != nil {
					pan = r
				}
			}()
			res, err = m.GetRange(ctx, height, start, end)
		}()
		outcome := "refused"
		if pan != nil {
			outcome = "panic"
		} else if err == nil {
			outcome = "served"
		}
		vk.Record(fmt.Sprintf("%s %s [%d,%d)", sq.Desc(), kind, start, end), []string{"range-request=" + kind, "range-request-outcome=" + outcome}, kind == "cross-namespace" || kind == "beyond", nil)
		if pan != nil {
			t.Fatalf("C12 range: GetRange panicked (%v) on request %s [%d,%d) (ods %d); square %s", pan, kind, start, end, sq.ODS, sq.Desc())
		}
		switch kind {
		case "negative", "inverted", "empty", "beyond", "unknown-height":
			if err == nil {
				t.Fatalf("C12 range: GetRange served the out-of-range request %s [%d,%d) (ods %d) instead of refusing it", kind, start, end, sq.ODS)
			}
		default:
			if err == nil {
				// whatever is served must verify and state the truth
				if verr, vpan := c12VerifyResult(res, sq.Roots.Hash()); verr != nil || vpan != nil {
					t.Fatalf("C12 range: GetRange served %s [%d,%d) with a result that does not verify: err=%v panic=%v", kind, start, end, verr, vpan)
				}
				if ok, why := c12RangeClaimHolds(sq, res, sq.Roots.Hash()); !ok {
					t.Fatalf("C12 range: GetRange served %s [%d,%d) with a result whose claim does not hold (%s)", kind, start, end, why)
				}
			}
		}
	})
}

// ---- native fuzz target (thorough tier): JSON decoder feeding GetRangeResult.Verify ----

func FuzzVerifC12_RangeResultJSON(f *testing.F) {
	sq := c12FixedSquare()
	m := c12Module(map[uint64]*vk.Square{3: sq})
	root := sq.Roots.Hash()
	for _, rg := range [][2]int{{2, 9}, {3, 4}, {9, 14}, {4, 8}, {0, 2}} {
		res, err := m.GetRange(context.Background(), 3, rg[0], rg[1])
		if err != nil {
			f.Fatalf("VERIF-INFRA: %v", err)
		}
		js, _ := json.Marshal(res)
		f.Add(js)
	}
	f.Add([]byte(`{"Shares":[],"Proof":null}`))
	f.Add([]byte(`{"Shares":null,"Proof":{"data":[],"share_proofs":[null],"namespace_id":"","row_proof":{"row_roots":[""],"proofs":[null],"start_row":0,"end_row":0},"namespace_version":0}}`))
	f.Fuzz(func(t *testing.T, data []byte) {
		var r GetRangeResult
		if err := r.UnmarshalJSON(data); err != nil {
			return
		}
		err, pan := c12VerifyResult(&r, root)
		if pan != nil {
			t.Fatalf("C12 range: Verify panicked (%v) on decoded JSON %q", pan, data)
		}
		if err == nil {
			if ok, why := c12RangeClaimHolds(sq, &r, root); !ok {
				t.Fatalf("C12 range: Verify accepted a decoded result whose claim does not hold (%s): %q", why, data)
			}
		}
	})
}
