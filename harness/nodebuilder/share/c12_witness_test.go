package share

// C12 — fixed witnesses of the defects the generated checks found in GetRangeResult.Verify
// (regression cases; they pass on a tree that carries the fixes). Harness file of /verif.

import (
	"bytes"
	"context"
	"encoding/json"
	"fmt"
	"os"
	"path/filepath"
	"strings"
	"testing"

	libshare "github.com/celestiaorg/go-square/v4/share"

	vk "github.com/celestiaorg/celestia-node/internal/verifkit"
)

func c12FixedSquare() *vk.Square {
	runs := []vk.Run{
		{NS: libshare.TxNamespace, Start: 0, Len: 2},
		{NS: vk.BlobNS(0), Start: 2, Len: 7, Pad: 1},
		{NS: vk.BlobNS(2), Start: 9, Len: 5},
	}
	return vk.BuildSquare(4, 2, runs, 12)
}

func TestVerifC12_RangeWitnesses(t *testing.T) {
	defer vk.Flush()
	sq := c12FixedSquare()
	m := c12Module(map[uint64]*vk.Square{3: sq})
	root := sq.Roots.Hash()
	var failures []string
	fail := func(format string, a ...any) { failures = append(failures, fmt.Sprintf(format, a...)) }
	for _, rg := range [][2]int{{2, 9}, {3, 4}, {9, 14}, {4, 8}} {
		res, err := m.GetRange(context.Background(), 3, rg[0], rg[1])
		if err != nil {
			t.Fatalf("VERIF-INFRA: GetRange: %v", err)
		}
		if verr, pan := c12VerifyResult(res, root); verr != nil || pan != nil {
			fail("C12 range: own result for [%d,%d) does not verify: err=%v panic=%v", rg[0], rg[1], verr, pan)
		}
		mk := func(f func(r *GetRangeResult)) *GetRangeResult { r := c12CloneResult(res); f(r); return r }
		cases := map[string]*GetRangeResult{
			"shares trimmed to a prefix": mk(func(r *GetRangeResult) { r.Shares = r.Shares[:len(r.Shares)/2] }),
			"zero shares":                mk(func(r *GetRangeResult) { r.Shares = nil }),
			"shares padded":              mk(func(r *GetRangeResult) { r.Shares = append(r.Shares, r.Shares[0]) }),
			"proof data trimmed":         mk(func(r *GetRangeResult) { r.Proof.Data = r.Proof.Data[:len(r.Proof.Data)-1] }),
			"proof missing":              mk(func(r *GetRangeResult) { r.Proof = nil }),
			"nil share proof":            mk(func(r *GetRangeResult) { r.Proof.ShareProofs[0] = nil }),
			"nil row proof":              mk(func(r *GetRangeResult) { r.Proof.RowProof.Proofs[0] = nil }),
		}
		js, _ := json.Marshal(res)
		i := bytes.Index(js, []byte(`"share_proofs":[{`))
		if i < 0 {
			t.Fatalf("VERIF-INFRA: unexpected JSON form %s", js)
		}
		j := i + bytes.IndexByte(js[i:], '}')
		mut := append(append(append([]byte(nil), js[:i+len(`"share_proofs":[`)]...), []byte("null")...), js[j+1:]...)
		var dec GetRangeResult
		if err := json.Unmarshal(mut, &dec); err != nil {
			t.Fatalf("VERIF-INFRA: JSON witness does not decode: %v (%s)", err, mut)
		}
		cases["JSON null share proof"] = &dec
		for name, r := range cases {
			verr, pan := c12VerifyResult(r, root)
			vk.Record(fmt.Sprintf("witness range %s [%d,%d)", name, rg[0], rg[1]), []string{"witness=range"}, true, nil)
			switch {
			case pan != nil:
				fail("C12 range: Verify panicked (%v) on the result for [%d,%d) with %s: %s", pan, rg[0], rg[1], name, c12DescribeResult(r))
			case verr == nil:
				fail("C12 range: Verify accepted the result for [%d,%d) with %s: %s", rg[0], rg[1], name, c12DescribeResult(r))
			}
		}
	}
	if len(failures) > 0 {
		if dir := os.Getenv("VERIF_REPLAY_DIR"); dir != "" {
			_ = os.WriteFile(filepath.Join(dir, "c12-range-witnesses.txt"), []byte(strings.Join(failures, "\n")+"\n"), 0o644)
		}
		t.Fatalf("%d fixed witness(es) fail:\n%s", len(failures), strings.Join(failures, "\n"))
	}
}
