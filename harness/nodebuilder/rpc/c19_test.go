package rpc

// C19 — RPC methods are reachable only with the permission they require.
// Harness file of /verif (injected by overlay; not part of celestia-node).
//
// The real rpc.Server is built by the real constructor `server(cfg, signer, verifier)` and the
// modules are registered by the real `registerEndpoints`. The *services* are reflection-built
// stubs: an `API` struct of every module whose `Internal` func fields are recorders that mark
// "reached(method)" and return a sentinel error (so no zero-value result has to survive JSON).
// The explored method set is read from api/rpc/client.Modules (namespace -> Internal struct), the
// declared permission of a method from its `perm` struct tag — a new method, a new module or a
// changed tag changes the explored matrix without touching this file.
//
// Oracle (model, independent of the server):
//
//	reached(method, cred, mode) <=> mode has auth disabled
//	                               OR (cred is a valid token AND declared perm IN token's list)
//	                               OR (no credential at all AND declared perm == "public")
//
// "reached" is observed at the stub, never inferred from the error text.

import (
	"bytes"
	"context"
	"encoding/base64"
	"encoding/json"
	"errors"
	"fmt"
	"io"
	"net/http"
	"os"
	"path/filepath"
	"reflect"
	"regexp"
	"sort"
	"strings"
	"sync"
	"testing"
	"time"

	"cosmossdk.io/math"
	sdk "github.com/cosmos/cosmos-sdk/types"
	"github.com/cristalhq/jwt/v5"
	"github.com/filecoin-project/go-jsonrpc"
	"github.com/filecoin-project/go-jsonrpc/auth"
	logging "github.com/ipfs/go-log/v2"
	"github.com/libp2p/go-libp2p/core/crypto"
	"github.com/libp2p/go-libp2p/core/peer"
	"pgregory.net/rapid"

	libshare "github.com/celestiaorg/go-square/v4/share"

	apirpc "github.com/celestiaorg/celestia-node/api/rpc"
	"github.com/celestiaorg/celestia-node/api/rpc/client"
	"github.com/celestiaorg/celestia-node/api/rpc/perms"
	vk "github.com/celestiaorg/celestia-node/internal/verifkit"
	"github.com/celestiaorg/celestia-node/libs/authtoken"
	"github.com/celestiaorg/celestia-node/nodebuilder/blob"
	"github.com/celestiaorg/celestia-node/nodebuilder/blobstream"
	"github.com/celestiaorg/celestia-node/nodebuilder/das"
	"github.com/celestiaorg/celestia-node/nodebuilder/header"
	"github.com/celestiaorg/celestia-node/nodebuilder/node"
	"github.com/celestiaorg/celestia-node/nodebuilder/p2p"
	"github.com/celestiaorg/celestia-node/nodebuilder/share"
	"github.com/celestiaorg/celestia-node/nodebuilder/state"
	nodestate "github.com/celestiaorg/celestia-node/state"
)

// ---------------------------------------------------------------------------------------------
// method enumeration (from the client's module map and the struct tags)

type c19Method struct {
	NS       string       // JSON-RPC namespace as the client uses it
	Field    string       // name of the func field in Internal == method name
	Perm     string       // declared `perm` tag
	internal reflect.Type // type of the module's Internal struct
	ftyp     reflect.Type
	chanOut  bool // returns a channel: only callable over websocket
}

func (m c19Method) Name() string { return m.NS + "." + m.Field }

var c19CtxType = reflect.TypeOf((*context.Context)(nil)).Elem()
var c19ErrType = reflect.TypeOf((*error)(nil)).Elem()

// c19Methods enumerates every method of every module the client knows, sorted by namespace, in
// struct order within a namespace.
func c19Methods() ([]c19Method, map[reflect.Type]string, error) {
	nss := make([]string, 0, len(client.Modules))
	for ns := range client.Modules {
		nss = append(nss, ns)
	}
	sort.Strings(nss)
	var out []c19Method
	byInternal := map[reflect.Type]string{}
	for _, ns := range nss {
		pt := reflect.TypeOf(client.Modules[ns])
		if pt.Kind() != reflect.Ptr || pt.Elem().Kind() != reflect.Struct {
			return nil, nil, fmt.Errorf("client.Modules[%q] is %v, expected pointer to an Internal struct", ns, pt)
		}
		it := pt.Elem()
		if prev, dup := byInternal[it]; dup {
			return nil, nil, fmt.Errorf("namespaces %q and %q share one Internal struct type", prev, ns)
		}
		byInternal[it] = ns
		for i := 0; i < it.NumField(); i++ {
			f := it.Field(i)
			if f.Type.Kind() != reflect.Func {
				return nil, nil, fmt.Errorf("%s.%s is not a func field", ns, f.Name)
			}
			if f.Type.NumIn() == 0 || f.Type.In(0) != c19CtxType {
				return nil, nil, fmt.Errorf("%s.%s does not take a context first", ns, f.Name)
			}
			no := f.Type.NumOut()
			if no == 0 || no > 2 || f.Type.Out(no-1) != c19ErrType {
				return nil, nil, fmt.Errorf("%s.%s: unsupported result list %v", ns, f.Name, f.Type)
			}
			out = append(out, c19Method{
				NS: ns, Field: f.Name, Perm: f.Tag.Get("perm"), internal: it, ftyp: f.Type,
				chanOut: no == 2 && f.Type.Out(0).Kind() == reflect.Chan,
			})
		}
	}
	return out, byInternal, nil
}

// ---------------------------------------------------------------------------------------------
// stub services

type c19Recorder struct {
	mu   sync.Mutex
	hits []string
}

func (r *c19Recorder) hit(name string) {
	r.mu.Lock()
	r.hits = append(r.hits, name)
	r.mu.Unlock()
}

func (r *c19Recorder) take() []string {
	r.mu.Lock()
	h := r.hits
	r.hits = nil
	r.mu.Unlock()
	return h
}

const c19Sentinel = "verif-c19-stub-reached"

// c19Fill sets every func field of api.Internal to a recorder.
func c19Fill(api any, byInternal map[reflect.Type]string, rec *c19Recorder) {
	iv := reflect.ValueOf(api).Elem().FieldByName("Internal")
	it := iv.Type()
	ns, ok := byInternal[it]
	if !ok {
		ns = "?" + it.String()
	}
	for i := 0; i < it.NumField(); i++ {
		f := it.Field(i)
		name := ns + "." + f.Name
		ftyp := f.Type
		iv.Field(i).Set(reflect.MakeFunc(ftyp, func([]reflect.Value) []reflect.Value {
			rec.hit(name)
			res := make([]reflect.Value, ftyp.NumOut())
			for o := range res {
				res[o] = reflect.Zero(ftyp.Out(o))
			}
			err := errors.New(c19Sentinel + ":" + name)
			res[len(res)-1] = reflect.ValueOf(&err).Elem()
			return res
		}))
	}
}

// ---------------------------------------------------------------------------------------------
// servers (auth modes)

type c19Mode struct {
	Name         string
	AuthDisabled bool
	cors         bool
	metrics      bool
	transports   []string
}

var c19Modes = []c19Mode{
	{Name: "enabled", transports: []string{"http", "ws"}},
	{Name: "disabled", AuthDisabled: true, transports: []string{"http", "ws"}},
	{Name: "enabled+cors", cors: true, transports: []string{"http"}},
	{Name: "enabled+metrics", metrics: true, transports: []string{"http"}},
}

type c19Server struct {
	mode  c19Mode
	addr  string
	rec   *c19Recorder
	extra []string // methods exposed by an API struct that have no Internal field (no perm tag)
}

type c19Keys struct {
	key      []byte
	signer   jwt.Signer
	verifier jwt.Verifier
}

func c19NewKeys(fill byte) (c19Keys, error) {
	k := c19Keys{key: bytes.Repeat([]byte{fill}, 32)}
	var err error
	if k.signer, err = jwt.NewSignerHS(jwt.HS256, k.key); err != nil {
		return k, err
	}
	k.verifier, err = jwt.NewVerifierHS(jwt.HS256, k.key)
	return k, err
}

// c19Start builds the server with the real constructor, registers stub modules with the real
// registerEndpoints and starts it on a free loopback port.
func c19Start(t testing.TB, mode c19Mode, keys c19Keys, byInternal map[reflect.Type]string) *c19Server {
	cfg := DefaultConfig()
	cfg.Address = "127.0.0.1"
	cfg.Port = "0"
	cfg.SkipAuth = mode.AuthDisabled
	if mode.cors {
		cfg.CORS = CORSConfig{
			Enabled:        true,
			AllowedOrigins: []string{"https://example.com"},
			AllowedMethods: defaultAllowedMethods,
			AllowedHeaders: defaultAllowedHeaders,
		}
	}
	srv := server(&cfg, keys.signer, keys.verifier)
	if mode.metrics {
		if err := WithMetrics(srv); err != nil {
			c19Infra(t, "WithMetrics failed: %v", err)
		}
	}
	s := &c19Server{mode: mode, rec: &c19Recorder{}}
	stState, stShare, stHeader, stDas := &state.API{}, &share.API{}, &header.API{}, &das.API{}
	stP2P, stNode, stBlob, stBlobstream := &p2p.API{}, &node.API{}, &blob.API{}, &blobstream.API{}
	for _, api := range []any{stState, stShare, stHeader, stDas, stP2P, stNode, stBlob, stBlobstream} {
		c19Fill(api, byInternal, s.rec)
		// server-side surface = method set of the API struct; anything beyond the Internal fields
		// would be exposed without a declared permission
		at := reflect.TypeOf(api)
		it := at.Elem().Field(0).Type
		if f, ok := at.Elem().FieldByName("Internal"); ok {
			it = f.Type
		}
		ns := byInternal[it]
		for i := 0; i < at.NumMethod(); i++ {
			if _, ok := it.FieldByName(at.Method(i).Name); !ok {
				s.extra = append(s.extra, ns+"."+at.Method(i).Name)
			}
		}
	}
	registerEndpoints(stState, stShare, stHeader, stDas, stP2P, stNode, stBlob, stBlobstream, srv)
	ctx, cancel := context.WithTimeout(context.Background(), 10*time.Second)
	defer cancel()
	if err := srv.Start(ctx); err != nil {
		c19Infra(t, "server start (%s): %v", mode.Name, err)
	}
	t.Cleanup(func() {
		ctx, cancel := context.WithTimeout(context.Background(), 5*time.Second)
		defer cancel()
		_ = srv.Stop(ctx)
	})
	s.addr = srv.ListenAddr()
	if s.addr == "" {
		c19Infra(t, "server (%s) has no listen address", mode.Name)
	}
	return s
}

var _ *apirpc.Server // the server type under test

func c19Infra(t testing.TB, format string, a ...any) {
	t.Helper()
	msg := fmt.Sprintf(format, a...)
	fmt.Println("VERIF-INFRA C19: " + msg)
	t.Fatalf("VERIF-INFRA C19: %s", msg)
}

// ---------------------------------------------------------------------------------------------
// credentials

type c19Cred struct {
	Name string
	// how it is presented
	header http.Header // nil: no Authorization header
	query  string      // non-empty: presented as ?token=<query>
	bearer string      // non-empty: header is exactly "Bearer <bearer>" -> the real client.NewClient is used
	// model
	Presented bool     // some credential is presented (false only for "none")
	Valid     bool     // well-formed, signed with the server's key, not expired
	Perms     []string // permission list carried by the token (meaningful if Valid)
	UpperOnly bool     // presentation the property is silent about: only "reached => permitted" is asserted
}

func c19StrPerms(p []auth.Permission) []string {
	out := make([]string, len(p))
	for i, x := range p {
		out[i] = string(x)
	}
	return out
}

func c19B64(b []byte) string { return base64.RawURLEncoding.EncodeToString(b) }

// c19RawToken assembles header.claims.signature by hand (for claims the builder would refuse).
func c19RawToken(hdr, claims []byte, sign func(payload []byte) []byte) string {
	payload := c19B64(hdr) + "." + c19B64(claims)
	return payload + "." + c19B64(sign([]byte(payload)))
}

func c19Creds(srvKeys, otherKeys c19Keys) ([]c19Cred, error) {
	var creds []c19Cred
	var firstErr error
	note := func(err error) {
		if err != nil && firstErr == nil {
			firstErr = err
		}
	}
	bearer := func(name, tok string, valid bool, p []auth.Permission) {
		creds = append(creds, c19Cred{Name: name, bearer: tok, Presented: true, Valid: valid, Perms: c19StrPerms(p),
			header: http.Header{perms.AuthKey: []string{"Bearer " + tok}}})
	}
	// tokens minted the way the node mints them (node.AuthNew -> authtoken.NewSignedJWT; cmd auth -> perms.NewTokenWithPerms)
	mint := func(k c19Keys, p []auth.Permission, ttl time.Duration) string {
		tok, err := authtoken.NewSignedJWT(k.signer, p, ttl)
		note(err)
		return tok
	}
	build := func(k c19Keys, payload *perms.JWTPayload) string {
		tok, err := jwt.NewBuilder(k.signer).Build(payload)
		note(err)
		if err != nil {
			return ""
		}
		return tok.String()
	}
	hsSign := func(s jwt.Signer) func([]byte) []byte {
		return func(p []byte) []byte {
			sig, err := s.Sign(p)
			note(err)
			return sig
		}
	}
	nonce := bytes.Repeat([]byte{7}, 32)
	hs256Header := []byte(`{"alg":"HS256","typ":"JWT"}`)

	creds = append(creds, c19Cred{Name: "none"})
	creds = append(creds, c19Cred{Name: "none-empty-authorization-header", header: http.Header{perms.AuthKey: []string{""}}})

	legacy, err := perms.NewTokenWithPerms(srvKeys.signer, perms.ReadPerms)
	note(err)
	bearer("public", mint(srvKeys, perms.DefaultPerms, 0), true, []auth.Permission{"public"})
	bearer("read", mint(srvKeys, perms.ReadPerms, 0), true, []auth.Permission{"public", "read"})
	bearer("read-legacy-mint", string(legacy), true, []auth.Permission{"public", "read"})
	bearer("read+write", mint(srvKeys, perms.ReadWritePerms, 0), true, []auth.Permission{"public", "read", "write"})
	bearer("admin", mint(srvKeys, perms.AllPerms, 0), true, []auth.Permission{"public", "read", "write", "admin"})
	bearer("only-admin", mint(srvKeys, []auth.Permission{"admin"}, 0), true, []auth.Permission{"admin"})
	bearer("only-write", mint(srvKeys, []auth.Permission{"write"}, 0), true, []auth.Permission{"write"})
	bearer("only-read", mint(srvKeys, []auth.Permission{"read"}, 0), true, []auth.Permission{"read"})
	bearer("write+admin", mint(srvKeys, []auth.Permission{"admin", "write"}, 0), true, []auth.Permission{"admin", "write"})
	bearer("empty-list", mint(srvKeys, []auth.Permission{}, 0), true, nil)
	bearer("nil-list", mint(srvKeys, nil, 0), true, nil)
	unknown := []auth.Permission{"sudo", "root", "Admin", "READ", " admin", "admin ", "*", ""}
	bearer("unknown-perms", mint(srvKeys, unknown, 0), true, unknown)

	// expiry: far from the current time in both directions, so the wall clock cannot matter
	all := perms.AllPerms
	bearer("admin-ttl-1h", mint(srvKeys, all, time.Hour), true, all)
	bearer("admin-expires-2100", build(srvKeys, &perms.JWTPayload{Allow: all, Nonce: nonce,
		ExpiresAt: time.Date(2100, 1, 1, 0, 0, 0, 0, time.UTC)}), true, all)
	bearer("expired-1h-ago", mint(srvKeys, all, -time.Hour), false, all)
	bearer("expired-2001", build(srvKeys, &perms.JWTPayload{Allow: all, Nonce: nonce,
		ExpiresAt: time.Date(2001, 1, 1, 0, 0, 0, 0, time.UTC)}), false, all)
	bearer("expired-2001-other-zone", build(srvKeys, &perms.JWTPayload{Allow: all, Nonce: nonce,
		ExpiresAt: time.Date(2001, 1, 1, 0, 0, 0, 0, time.FixedZone("x", 14*3600))}), false, all)

	// wrong signer / tampering / algorithm games
	adminTok := mint(srvKeys, all, 0)
	readTok := mint(srvKeys, perms.ReadPerms, 0)
	bearer("wrongkey-admin", mint(otherKeys, all, 0), false, all)
	bearer("wrongkey-read", mint(otherKeys, perms.ReadPerms, 0), false, perms.ReadPerms)
	if rp, ap := strings.Split(readTok, "."), strings.Split(adminTok, "."); len(rp) == 3 && len(ap) == 3 {
		bearer("tampered-payload", rp[0]+"."+ap[1]+"."+rp[2], false, all) // admin claims, read token's signature
		sig, err := base64.RawURLEncoding.DecodeString(ap[2])
		note(err)
		if len(sig) > 0 {
			sig[0] ^= 0x01
		}
		bearer("tampered-signature", ap[0]+"."+ap[1]+"."+c19B64(sig), false, all)
		bearer("truncated-signature", ap[0]+"."+ap[1]+"."+ap[2][:len(ap[2])/2], false, all)
		bearer("no-signature", ap[0]+"."+ap[1]+".", false, all)
		bearer("two-parts", ap[0]+"."+ap[1], false, all)
		bearer("trailing-garbage", adminTok+".x", false, all)
	} else {
		note(fmt.Errorf("minted token does not have three parts"))
	}
	adminClaims, err := json.Marshal(&perms.JWTPayload{Allow: all, Nonce: nonce})
	note(err)
	bearer("alg-none", c19RawToken([]byte(`{"alg":"none","typ":"JWT"}`), adminClaims, func([]byte) []byte { return nil }), false, all)
	bearer("alg-none-with-hs256-signature", c19RawToken([]byte(`{"alg":"none","typ":"JWT"}`), adminClaims, hsSign(srvKeys.signer)), false, all)
	if hs384, err := jwt.NewSignerHS(jwt.HS384, srvKeys.key); err == nil {
		tok, err := jwt.NewBuilder(hs384).Build(&perms.JWTPayload{Allow: all, Nonce: nonce})
		note(err)
		if err == nil {
			bearer("alg-hs384-same-key", tok.String(), false, all)
		}
	} else {
		note(err)
	}
	// correctly signed, but the claims are not a permission list
	bearer("signed-claims-allow-is-string", c19RawToken(hs256Header, []byte(`{"Allow":"admin"}`), hsSign(srvKeys.signer)), false, nil)
	bearer("signed-claims-not-json", c19RawToken(hs256Header, []byte(`admin`), hsSign(srvKeys.signer)), false, nil)
	bearer("signed-claims-bad-expiry", c19RawToken(hs256Header, []byte(`{"Allow":["public","read","write","admin"],"ExpiresAt":"never"}`),
		hsSign(srvKeys.signer)), false, nil)

	bearer("garbage", "garbage-not-a-jwt", false, nil)
	bearer("garbage-three-parts", "aaaa.bbbb.cccc", false, nil)
	bearer("garbage-perm-name", "admin", false, nil)

	// header shapes the real client cannot produce
	creds = append(creds, c19Cred{Name: "empty-bearer", Presented: true, header: http.Header{perms.AuthKey: []string{"Bearer "}}})
	creds = append(creds, c19Cred{Name: "basic-scheme", Presented: true,
		header: http.Header{perms.AuthKey: []string{"Basic " + base64.StdEncoding.EncodeToString([]byte("admin:admin"))}}})
	// a valid token without the "Bearer " prefix: the property does not say whether that presentation
	// must work, only that it cannot grant more than the token carries
	creds = append(creds, c19Cred{Name: "read-without-bearer-prefix", Presented: true, Valid: true, UpperOnly: true,
		Perms: c19StrPerms(perms.ReadPerms), header: http.Header{perms.AuthKey: []string{readTok}}})

	// second channel of the auth handler: ?token=
	q := func(name, tok string, valid bool, p []auth.Permission) {
		creds = append(creds, c19Cred{Name: name, query: tok, Presented: true, Valid: valid, Perms: c19StrPerms(p)})
	}
	q("query-admin", adminTok, true, all)
	q("query-read", readTok, true, perms.ReadPerms)
	q("query-only-write", mint(srvKeys, []auth.Permission{"write"}, 0), true, []auth.Permission{"write"})
	q("query-expired", mint(srvKeys, all, -time.Hour), false, all)
	q("query-wrongkey", mint(otherKeys, all, 0), false, all)
	q("query-garbage", "garbage", false, nil)
	q("query-bearer-prefixed", "Bearer "+adminTok, false, nil) // "Bearer Bearer <tok>" after the handler's rewrite
	return creds, firstErr
}

// c19Expected is the model.
func c19Expected(m c19Method, c c19Cred, mode c19Mode) bool {
	if mode.AuthDisabled {
		return true
	}
	return c19Permitted(m, c)
}

// c19Permitted: does the credential itself grant the declared permission (auth enabled)?
func c19Permitted(m c19Method, c c19Cred) bool {
	if !c.Presented {
		return m.Perm == "public"
	}
	if !c.Valid {
		return false
	}
	for _, p := range c.Perms {
		if p == m.Perm {
			return true
		}
	}
	return false
}

// ---------------------------------------------------------------------------------------------
// client side

type c19Conn struct {
	cl      *client.Client
	closers []func()
	dialErr error
}

func (c *c19Conn) Close() {
	for _, f := range c.closers {
		f()
	}
}

func c19URL(transport, addr string, cred c19Cred) string {
	u := transport + "://" + addr
	if cred.query != "" {
		u += "/?token=" + strings.ReplaceAll(cred.query, " ", "%20")
	}
	return u
}

// c19Dial connects every namespace (only, when non-empty). Credentials that are a plain bearer token go
// through the real client.NewClient; other presentations use go-jsonrpc directly the way
// client.newClient does.
func c19Dial(ctx context.Context, transport, addr string, cred c19Cred, byInternal map[reflect.Type]string, only string) *c19Conn {
	url := c19URL(transport, addr, cred)
	if only == "" && cred.query == "" && (cred.bearer != "" || cred.header == nil) {
		cl, err := client.NewClient(ctx, url, cred.bearer)
		if err != nil {
			return &c19Conn{dialErr: err}
		}
		return &c19Conn{cl: cl, closers: []func(){cl.Close}}
	}
	conn := &c19Conn{cl: new(client.Client)}
	cv := reflect.ValueOf(conn.cl).Elem()
	for i := 0; i < cv.NumField(); i++ {
		if !cv.Type().Field(i).IsExported() || cv.Field(i).Kind() != reflect.Struct {
			continue
		}
		iv := cv.Field(i).FieldByName("Internal")
		if !iv.IsValid() {
			continue
		}
		ns, ok := byInternal[iv.Type()]
		if !ok || (only != "" && ns != only) {
			continue
		}
		closer, err := jsonrpc.NewClient(ctx, url, ns, iv.Addr().Interface(), cred.header)
		if err != nil {
			conn.Close()
			return &c19Conn{dialErr: err}
		}
		conn.closers = append(conn.closers, closer)
	}
	return conn
}

func c19ClientFunc(cl *client.Client, m c19Method) reflect.Value {
	cv := reflect.ValueOf(cl).Elem()
	for i := 0; i < cv.NumField(); i++ {
		if !cv.Type().Field(i).IsExported() || cv.Field(i).Kind() != reflect.Struct {
			continue
		}
		iv := cv.Field(i).FieldByName("Internal")
		if iv.IsValid() && iv.Type() == m.internal {
			return iv.FieldByName(m.Field)
		}
	}
	return reflect.Value{}
}

var c19PeerID = func() peer.ID {
	_, pub, err := crypto.GenerateEd25519Key(bytes.NewReader(bytes.Repeat([]byte{1}, 64)))
	if err != nil {
		panic(err)
	}
	id, err := peer.IDFromPublicKey(pub)
	if err != nil {
		panic(err)
	}
	return id
}()

var c19ArgOverrides = map[reflect.Type]func() any{
	reflect.TypeOf(libshare.Namespace{}): func() any { return libshare.MustNewV0Namespace(bytes.Repeat([]byte{0x42}, 10)) },
	reflect.TypeOf(peer.ID("")):          func() any { return c19PeerID },
	reflect.TypeOf(peer.AddrInfo{}):      func() any { return peer.AddrInfo{ID: c19PeerID} },
	reflect.TypeOf(nodestate.Address{}): func() any {
		return nodestate.Address{Address: sdk.AccAddress(bytes.Repeat([]byte{3}, 20))}
	},
	reflect.TypeOf(sdk.AccAddress{}): func() any { return sdk.AccAddress(bytes.Repeat([]byte{4}, 20)) },
	reflect.TypeOf(sdk.ValAddress{}): func() any { return sdk.ValAddress(bytes.Repeat([]byte{5}, 20)) },
	reflect.TypeOf(math.Int{}):       func() any { return math.NewInt(1) },
	reflect.TypeOf([]libshare.Namespace{}): func() any {
		return []libshare.Namespace{libshare.MustNewV0Namespace(bytes.Repeat([]byte{0x42}, 10))}
	},
}

// c19Args builds one argument list per method: zero values, except for types whose zero value does
// not survive the JSON round trip to the server.
func c19Args(ctx context.Context, m c19Method) []reflect.Value {
	args := []reflect.Value{reflect.ValueOf(ctx)}
	for i := 1; i < m.ftyp.NumIn(); i++ {
		t := m.ftyp.In(i)
		if mk, ok := c19ArgOverrides[t]; ok {
			args = append(args, reflect.ValueOf(mk()).Convert(t))
		} else {
			args = append(args, reflect.Zero(t))
		}
	}
	return args
}

type c19Outcome struct {
	Reached bool   // the stub of exactly this method fired
	Client  string // what the caller saw: "stub" | "missing-permission" | "http-401" | "dial-refused" | "other"
	Detail  string
	infra   string // non-empty: harness cannot judge this cell
}

func c19ClassifyErr(err error) string {
	if err == nil {
		return "no-error"
	}
	s := err.Error()
	switch {
	case strings.Contains(s, c19Sentinel):
		return "stub"
	case strings.Contains(s, "missing permission to invoke"):
		return "missing-permission"
	case strings.Contains(s, "http status 401"):
		return "http-401"
	case strings.Contains(s, "bad handshake"):
		return "dial-refused"
	}
	return "other"
}

// c19Call performs one call and reports what the stub saw.
func c19Call(srv *c19Server, conn *c19Conn, m c19Method) c19Outcome {
	srv.rec.take()
	if conn.dialErr != nil {
		return c19Outcome{Client: c19ClassifyErr(conn.dialErr), Detail: conn.dialErr.Error()}
	}
	fn := c19ClientFunc(conn.cl, m)
	if !fn.IsValid() || fn.IsNil() {
		return c19Outcome{Client: "other", infra: "client has no function for " + m.Name()}
	}
	ctx, cancel := context.WithTimeout(context.Background(), 20*time.Second)
	defer cancel()
	var res []reflect.Value
	var panicked any
	func() {
		defer func() { panicked = recover() }()
		res = fn.Call(c19Args(ctx, m))
	}()
	hits := srv.rec.take()
	out := c19Outcome{}
	if panicked != nil {
		out.infra = fmt.Sprintf("client call panicked: %v", panicked)
		out.Client = "other"
		return out
	}
	var err error
	if e, ok := res[len(res)-1].Interface().(error); ok {
		err = e
	}
	out.Client = c19ClassifyErr(err)
	if err != nil {
		out.Detail = err.Error()
	}
	for _, h := range hits {
		if h == m.Name() {
			out.Reached = true
		} else {
			out.infra = fmt.Sprintf("call of %s fired the stub of %s", m.Name(), h)
		}
	}
	if len(hits) > 1 {
		out.infra = fmt.Sprintf("call of %s fired %d stubs: %v", m.Name(), len(hits), hits)
	}
	if out.infra == "" && out.Reached != (out.Client == "stub") {
		out.infra = fmt.Sprintf("stub fired=%v but the caller saw %q (%s)", out.Reached, out.Client, out.Detail)
	}
	return out
}

// ---------------------------------------------------------------------------------------------
// matrix

type c19Cell struct {
	Property   string   `json:"property"`
	Method     string   `json:"method"`
	Declared   string   `json:"declared_perm"`
	Cred       string   `json:"credential_class"`
	CredValid  bool     `json:"credential_valid"`
	CredPerms  []string `json:"credential_perms"`
	Mode       string   `json:"auth_mode"`
	Transport  string   `json:"transport"`
	Expected   bool     `json:"expected_reached"`
	Observed   bool     `json:"observed_reached"`
	ClientSaw  string   `json:"client_saw"`
	ClientErr  string   `json:"client_error"`
	Violation  string   `json:"violation"`
	ReplayHint string   `json:"replay,omitempty"`
}

type c19Fixture struct {
	methods    []c19Method
	byInternal map[reflect.Type]string
	servers    map[string]*c19Server
	creds      []c19Cred
}

func c19Quiet() {
	// every refused call logs a warning in go-jsonrpc / its auth handler; keep the shard log readable
	for _, l := range []string{"rpc", "auth"} {
		_ = logging.SetLogLevel(l, "fatal")
	}
}

func c19Setup(t testing.TB, modes []c19Mode) *c19Fixture {
	c19Quiet()
	methods, byInternal, err := c19Methods()
	if err != nil {
		c19Infra(t, "cannot enumerate the API: %v", err)
	}
	if len(methods) == 0 {
		c19Infra(t, "no API methods found")
	}
	srvKeys, err := c19NewKeys(0x11)
	if err != nil {
		c19Infra(t, "keys: %v", err)
	}
	otherKeys, err := c19NewKeys(0x22)
	if err != nil {
		c19Infra(t, "keys: %v", err)
	}
	creds, err := c19Creds(srvKeys, otherKeys)
	if err != nil {
		c19Infra(t, "building credentials: %v", err)
	}
	fx := &c19Fixture{methods: methods, byInternal: byInternal, servers: map[string]*c19Server{}, creds: creds}
	for _, mode := range modes {
		fx.servers[mode.Name] = c19Start(t, mode, srvKeys, byInternal)
	}
	return fx
}

func (fx *c19Fixture) cred(name string) (c19Cred, bool) {
	for _, c := range fx.creds {
		if c.Name == name {
			return c, true
		}
	}
	return c19Cred{}, false
}

// c19Judge compares one observed cell with the model. Returns "" or the violation text.
func c19Judge(m c19Method, c c19Cred, mode c19Mode, transport string, o c19Outcome) (cell c19Cell, infra string) {
	exp := c19Expected(m, c, mode)
	cell = c19Cell{
		Property: "C19", Method: m.Name(), Declared: m.Perm, Cred: c.Name, CredValid: c.Valid, CredPerms: c.Perms,
		Mode: mode.Name, Transport: transport, Expected: exp, Observed: o.Reached, ClientSaw: o.Client, ClientErr: o.Detail,
	}
	if o.infra != "" {
		return cell, o.infra
	}
	what := fmt.Sprintf("method %s (declared perm %q), credential %q (presented=%v valid=%v perms=%v), auth %s, %s",
		m.Name(), m.Perm, c.Name, c.Presented, c.Valid, c.Perms, mode.Name, transport)
	switch {
	case !mode.AuthDisabled && c.Presented && !c.Valid && m.Perm == "public":
		// "expired, malformed or wrongly signed tokens grant nothing": whether a caller holding such a
		// token is refused outright or treated like a caller without a token (who reaches public methods)
		// is not stated; nothing is asserted for this cell
		vk.Count("unasserted_invalid_token_on_public_method", 1)
	case o.Reached && !exp:
		cell.Violation = fmt.Sprintf("C19: %s: expected the call to be refused, observed the module implementation being reached", what)
	case !o.Reached && exp && c.UpperOnly && !mode.AuthDisabled:
		// presentation the property is silent about: refusing is fine
	case !o.Reached && exp:
		switch o.Client {
		case "missing-permission", "http-401", "dial-refused":
			cell.Violation = fmt.Sprintf("C19: %s: expected the call to reach the module, observed a refusal (%s: %s)",
				what, o.Client, o.Detail)
		default:
			return cell, fmt.Sprintf("%s: expected reached, not reached for a reason unrelated to authorization: %s", what, o.Detail)
		}
	}
	return cell, ""
}

func c19WriteReplay(cell c19Cell, idx int) string {
	dir := os.Getenv("VERIF_REPLAY_DIR")
	if dir == "" {
		return ""
	}
	clean := regexp.MustCompile(`[^A-Za-z0-9_.+-]`).ReplaceAllString
	fn := fmt.Sprintf("cell-%04d-%s-%s-%s-%s.json", idx, clean(cell.Method, "_"), clean(cell.Cred, "_"), clean(cell.Mode, "_"), cell.Transport)
	p := filepath.Join(dir, fn)
	data, _ := json.MarshalIndent(cell, "", " ")
	if err := os.WriteFile(p, append(data, '\n'), 0o644); err != nil {
		return ""
	}
	return p
}

const c19MaxReplayFiles = 25

// c19ReplayCell returns the cell named by VERIF_REPLAY_FILE, if that is a C19 cell file.
func c19ReplayCell() (*c19Cell, error) {
	p := os.Getenv("VERIF_REPLAY_FILE")
	if p == "" || !strings.HasSuffix(p, ".json") {
		return nil, nil
	}
	data, err := os.ReadFile(p)
	if err != nil {
		return nil, err
	}
	var cell c19Cell
	if err := json.Unmarshal(data, &cell); err != nil {
		return nil, err
	}
	if cell.Property != "C19" || cell.Method == "" {
		return nil, fmt.Errorf("%s is not a C19 cell file", p)
	}
	return &cell, nil
}

// TestVerifC19_Matrix enumerates method x credential class x auth mode x transport.
func TestVerifC19_Matrix(t *testing.T) {
	defer vk.Flush()
	only, err := c19ReplayCell()
	if err != nil {
		c19Infra(t, "replay file: %v", err)
	}
	fx := c19Setup(t, c19Modes)
	vk.Count("methods", int64(len(fx.methods)))
	vk.Count("credential_classes", int64(len(fx.creds)))

	// 0. every declared permission is one of the four known levels (otherwise the model has no meaning)
	for _, m := range fx.methods {
		switch m.Perm {
		case "public", "read", "write", "admin":
		default:
			t.Errorf("C19: method %s declares permission %q; expected one of public/read/write/admin", m.Name(), m.Perm)
		}
	}

	// 1. reachability: an admin token must reach every method in every mode/transport, else the
	// matrix below would be vacuous for that method (coverage gap, not a violation)
	admin, _ := fx.cred("admin")
	reachable := map[string]bool{} // mode|transport|method
	var gaps []string
	for _, mode := range c19Modes {
		srv := fx.servers[mode.Name]
		for _, tr := range mode.transports {
			conn := c19Dial(context.Background(), tr, srv.addr, admin, fx.byInternal, "")
			for _, m := range fx.methods {
				if m.chanOut && tr != "ws" {
					vk.Count("skipped_channel_method_over_http", 1)
					continue
				}
				if only != nil && only.Method != m.Name() {
					continue
				}
				o := c19Call(srv, conn, m)
				refusedForAuth := o.infra == "" && (o.Client == "missing-permission" || o.Client == "http-401" || o.Client == "dial-refused")
				if (o.Reached && o.infra == "") || refusedForAuth {
					// an authorization refusal of the admin token is not a gap: the matrix below judges that cell
					reachable[mode.Name+"|"+tr+"|"+m.Name()] = true
				} else {
					gaps = append(gaps, fmt.Sprintf("%s over %s, auth %s: client saw %s %s %s", m.Name(), tr, mode.Name, o.Client, o.Detail, o.infra))
				}
			}
			conn.Close()
		}
	}
	if len(gaps) > 0 {
		// with auth enabled an admin token that cannot reach a method is either a harness gap (argument
		// factory, registration) or a server defect; an unreachable method in the auth-disabled mode as well
		// points to the harness. Either way the matrix would be incomplete: inconclusive.
		sort.Strings(gaps)
		for _, g := range gaps {
			fmt.Println("VERIF-INFRA C19: coverage gap: admin token does not reach " + g)
		}
		t.Fatalf("VERIF-INFRA C19: %d method/transport combinations are not reachable even with an admin token", len(gaps))
	}

	// 2. the matrix
	violations := 0
	judged := 0
	var infra []string
	byKind := map[string]int{}
	for _, mode := range c19Modes {
		srv := fx.servers[mode.Name]
		for _, tr := range mode.transports {
			for _, cred := range fx.creds {
				if only != nil && (only.Cred != cred.Name || only.Mode != mode.Name || only.Transport != tr) {
					continue
				}
				conn := c19Dial(context.Background(), tr, srv.addr, cred, fx.byInternal, "")
				for _, m := range fx.methods {
					if (m.chanOut && tr != "ws") || (only != nil && only.Method != m.Name()) {
						continue
					}
					o := c19Call(srv, conn, m)
					cell, inf := c19Judge(m, cred, mode, tr, o)
					judged++
					permitted := c19Permitted(m, cred)
					nontrivial := cred.Presented && !permitted
					klass := "invalid-token"
					switch {
					case !cred.Presented:
						klass = "no-credential"
					case cred.Valid && permitted:
						klass = "sufficient-token"
					case cred.Valid:
						klass = "insufficient-token"
					}
					labels := []string{"cred=" + cred.Name, "mode=" + mode.Name, "transport=" + tr, "perm=" + m.Perm,
						"class=" + klass, "module=" + m.NS, fmt.Sprintf("expected_reached=%v", cell.Expected), "client_saw=" + o.Client}
					vk.Record(strings.Join([]string{m.Name(), cred.Name, mode.Name, tr}, "|"), labels, nontrivial,
						func() any { return cell })
					if inf != "" {
						infra = append(infra, inf)
						continue
					}
					if cell.Violation != "" {
						violations++
						byKind[fmt.Sprintf("cred=%s mode=%s expected=%v observed=%v", cred.Name, mode.Name, cell.Expected, cell.Observed)]++
						if violations <= c19MaxReplayFiles {
							p := c19WriteReplay(cell, violations)
							t.Errorf("%s [replay file %s]", cell.Violation, p)
						}
					}
				}
				conn.Close()
			}
		}
	}

	if only != nil && judged != 1 {
		c19Infra(t, "replay: cell (%s, %s, %s, %s) matches %d cells of the current matrix (renamed method or credential class?)",
			only.Method, only.Cred, only.Mode, only.Transport, judged)
	}

	// 3. methods exposed by an API struct without an Internal field: nothing declares their permission,
	// the permissioned proxy cannot guard them
	for _, mode := range c19Modes {
		if mode.AuthDisabled || only != nil {
			continue
		}
		srv := fx.servers[mode.Name]
		for _, name := range srv.extra {
			vk.Count("undeclared_methods_probed", 1)
			code, body, err := c19RawCall(srv.addr, name, "")
			if err != nil {
				infra = append(infra, fmt.Sprintf("raw call of %s: %v", name, err))
				continue
			}
			refused := code == 401 || strings.Contains(body, "missing permission") || strings.Contains(body, "not found")
			if !refused {
				violations++
				t.Errorf("C19: method %s is served by the RPC server (auth %s) but declares no permission (no Internal field): "+
					"expected a refusal without a token, observed HTTP %d %s", name, mode.Name, code, body)
			}
		}
	}

	if len(infra) > 0 {
		for _, s := range infra {
			fmt.Println("VERIF-INFRA C19: " + s)
		}
		if violations == 0 {
			t.Fatalf("VERIF-INFRA C19: %d cells could not be judged", len(infra))
		}
	}
	if violations > 0 {
		kinds := make([]string, 0, len(byKind))
		for k, n := range byKind {
			kinds = append(kinds, fmt.Sprintf("%s: %d cells", k, n))
		}
		sort.Strings(kinds)
		t.Fatalf("C19: %d matrix cells violate the property:\n  %s", violations, strings.Join(kinds, "\n  "))
	}
}

// c19RawCall posts a hand-written JSON-RPC request.
func c19RawCall(addr, method, bearer string) (int, string, error) {
	body := fmt.Sprintf(`{"jsonrpc":"2.0","id":1,"method":%q,"params":[]}`, method)
	req, err := http.NewRequest(http.MethodPost, "http://"+addr, strings.NewReader(body))
	if err != nil {
		return 0, "", err
	}
	req.Header.Set("Content-Type", "application/json")
	if bearer != "" {
		req.Header.Set(perms.AuthKey, "Bearer "+bearer)
	}
	resp, err := http.DefaultClient.Do(req)
	if err != nil {
		return 0, "", err
	}
	defer resp.Body.Close()
	b, _ := io.ReadAll(io.LimitReader(resp.Body, 4096))
	return resp.StatusCode, string(b), nil
}

// ---------------------------------------------------------------------------------------------
// sampled part: random permission lists

var c19PermPool = []string{"public", "read", "write", "admin", "sudo", "Admin", "READ", "", "*", "all", "read,write", "admin "}

// TestVerifC19_RandomPermSubsets draws (method, permission list, expiry, channel, transport, mode).
// The servers are shared by all cases of the run: they hold no state a call could change (the
// stubs only record), the recorder is drained before every call.
func TestVerifC19_RandomPermSubsets(t *testing.T) {
	defer vk.Flush()
	modes := c19Modes[:2]
	fx := c19Setup(t, modes)
	srvKeys, _ := c19NewKeys(0x11)
	otherKeys, _ := c19NewKeys(0x22)
	names := make([]string, len(fx.methods))
	for i, m := range fx.methods {
		names[i] = m.Name()
	}
	rapid.Check(t, func(rt *rapid.T) {
		mi := rapid.IntRange(0, len(fx.methods)-1).Draw(rt, "method")
		m := fx.methods[mi]
		rt.Logf("method %s declared perm %q", m.Name(), m.Perm)
		var list []auth.Permission
		n := rapid.IntRange(0, 5).Draw(rt, "nperms")
		for i := 0; i < n; i++ {
			// the four real levels are drawn more often than the look-alikes
			if rapid.IntRange(0, 3).Draw(rt, "odd") < 3 {
				list = append(list, auth.Permission(c19PermPool[rapid.IntRange(0, 3).Draw(rt, "perm")]))
			} else {
				list = append(list, auth.Permission(rapid.SampledFrom(c19PermPool).Draw(rt, "oddperm")))
			}
		}
		validity := rapid.SampledFrom([]string{"valid", "valid", "valid", "valid-ttl", "expired", "wrongkey"}).Draw(rt, "validity")
		channel := rapid.SampledFrom([]string{"header", "query"}).Draw(rt, "channel")
		mode := modes[rapid.IntRange(0, 1).Draw(rt, "mode")]
		transport := "http"
		if m.chanOut || rapid.IntRange(0, 3).Draw(rt, "ws") == 3 {
			transport = "ws"
		}
		keys, ttl, valid := srvKeys, time.Duration(0), true
		switch validity {
		case "valid-ttl":
			ttl = 24 * time.Hour
		case "expired":
			ttl, valid = -24*time.Hour, false
		case "wrongkey":
			keys, valid = otherKeys, false
		}
		tok, err := authtoken.NewSignedJWT(keys.signer, list, ttl)
		if err != nil {
			rt.Fatalf("VERIF-INFRA C19: minting a token: %v", err)
		}
		cred := c19Cred{Name: "random:" + validity + ":" + channel, Presented: true, Valid: valid, Perms: c19StrPerms(list)}
		if channel == "header" {
			cred.header = http.Header{perms.AuthKey: []string{"Bearer " + tok}}
		} else {
			cred.query = tok
		}
		srv := fx.servers[mode.Name]
		conn := c19Dial(context.Background(), transport, srv.addr, cred, fx.byInternal, m.NS)
		defer conn.Close()
		o := c19Call(srv, conn, m)
		cell, inf := c19Judge(m, cred, mode, transport, o)
		permitted := c19Permitted(m, cred)
		sorted := append([]string(nil), cred.Perms...)
		sort.Strings(sorted)
		vk.Record(fmt.Sprintf("%s|%q|%s|%s|%s|%s", m.Name(), sorted, validity, channel, mode.Name, transport),
			[]string{"validity=" + validity, "channel=" + channel, "mode=" + mode.Name, "transport=" + transport, "perm=" + m.Perm,
				fmt.Sprintf("permitted=%v", permitted), fmt.Sprintf("nperms=%d", len(list))},
			!permitted, func() any { return cell })
		if inf != "" {
			fmt.Println("VERIF-INFRA C19: " + inf)
			rt.Fatalf("VERIF-INFRA C19: %s", inf)
		}
		if cell.Violation != "" {
			rt.Fatalf("%s", cell.Violation)
		}
	})
}

// ---------------------------------------------------------------------------------------------
// policy half: which level a method must at least carry

// c19Effects classifies methods by the effects the property names. A human judgement, frozen here.
var c19Effects = map[string]string{
	// move funds (every one of them signs and broadcasts a transaction paid from the node's account)
	"state.Transfer":                  "moves-funds",
	"state.Delegate":                  "moves-funds",
	"state.Undelegate":                "moves-funds",
	"state.BeginRedelegate":           "moves-funds",
	"state.CancelUnbondingDelegation": "moves-funds",
	"state.WithdrawDelegatorReward":   "moves-funds",
	"state.GrantFee":                  "moves-funds",
	"state.RevokeGrantFee":            "moves-funds",
	// submit data
	"state.SubmitPayForBlob": "submits-data",
	"blob.Submit":            "submits-data",
	// mint or verify credentials
	"node.AuthNew":           "credentials",
	"node.AuthNewWithExpiry": "credentials",
	"node.AuthVerify":        "credentials",
	// reveal node identity or peers
	"p2p.Info":             "reveals-identity-or-peers",
	"p2p.Peers":            "reveals-identity-or-peers",
	"p2p.PeerInfo":         "reveals-identity-or-peers",
	"p2p.Connectedness":    "reveals-identity-or-peers",
	"p2p.ListBlockedPeers": "reveals-identity-or-peers",
	"p2p.PubSubPeers":      "reveals-identity-or-peers",
	"p2p.ConnectionState":  "reveals-identity-or-peers",
	// reconfigure the node
	"node.LogLevelSet": "reconfigures",
	"p2p.Connect":      "reconfigures",
	"p2p.ClosePeer":    "reconfigures",
	"p2p.BlockPeer":    "reconfigures",
	"p2p.UnblockPeer":  "reconfigures",
	"p2p.Protect":      "reconfigures",
	"p2p.Unprotect":    "reconfigures",
}

// name patterns for methods the table does not know (DESIGN C19): whole CamelCase words
var c19EffectWords = map[string]bool{
	"Submit": true, "Transfer": true, "Delegate": true, "Undelegate": true, "Redelegate": true, "Cancel": true, "Grant": true,
	"Revoke": true, "Withdraw": true, "Auth": true, "Block": true, "Unblock": true, "Protect": true, "Unprotect": true,
	"Connect": true, "Close": true, "Set": true,
}

// names starting with one of these only read
var c19ReadVerbs = map[string]bool{"Get": true, "Query": true, "Is": true, "Has": true, "List": true, "Wait": true}

var c19WordRe = regexp.MustCompile(`[A-Z][a-z0-9]*|[a-z0-9]+`)

func c19PatternHit(field string) string {
	words := c19WordRe.FindAllString(field, -1)
	if len(words) > 0 && c19ReadVerbs[words[0]] {
		return ""
	}
	for _, w := range words {
		if c19EffectWords[w] {
			return w
		}
	}
	return ""
}

// TestVerifC19_Policy: methods that move funds, submit data, mint or verify credentials, reveal
// node identity or peers, or reconfigure the node require write or admin permission.
func TestVerifC19_Policy(t *testing.T) {
	defer vk.Flush()
	methods, _, err := c19Methods()
	if err != nil {
		c19Infra(t, "cannot enumerate the API: %v", err)
	}
	seen := map[string]bool{}
	bad := 0
	for _, m := range methods {
		seen[m.Name()] = true
		effect, inTable := c19Effects[m.Name()]
		src := "table"
		if !inTable {
			if w := c19PatternHit(m.Field); w != "" {
				effect, src = "name-pattern:"+w, "pattern"
			}
		}
		sensitive := effect != ""
		if !sensitive {
			effect, src = "none", "none"
		}
		strong := m.Perm == "write" || m.Perm == "admin"
		cell := map[string]any{"method": m.Name(), "declared_perm": m.Perm, "effect": effect, "classified_by": src}
		vk.Record("policy|"+m.Name(), []string{"effect=" + effect, "perm=" + m.Perm, "classified_by=" + src}, sensitive,
			func() any { return cell })
		if sensitive && !strong {
			bad++
			cell["violation"] = true
			if dir := os.Getenv("VERIF_REPLAY_DIR"); dir != "" {
				data, _ := json.MarshalIndent(cell, "", " ")
				_ = os.WriteFile(filepath.Join(dir, "policy-"+m.Name()+".json"), append(data, '\n'), 0o644)
			}
			t.Errorf("C19: method %s has effect %q (classified by %s): expected declared permission write or admin, observed %q",
				m.Name(), effect, src, m.Perm)
		}
	}
	for name := range c19Effects {
		if !seen[name] {
			vk.Note("C19 policy table names %s, which the API no longer has", name)
			t.Logf("note: policy table entry %s no longer exists in the API", name)
		}
	}
	if bad > 0 {
		t.Fatalf("C19: %d methods with a guarded effect are declared below write", bad)
	}
}

// ---------------------------------------------------------------------------------------------
// a token must stop working when it expires, also when it was used successfully before
//
// The matrix only presents tokens that are already expired when first seen. Here a short-lived
// token is used while valid and again after its expiry, on a fresh connection and on the HTTP
// connection that already carried the successful call. Wall clock: the token lives c19ShortTTL;
// the second use happens at least 400 ms after the expiry instant (JWT expiry has no finer
// semantics than "after ExpiresAt"). If the machine is so slow that the first use already comes
// after the expiry the cell is recorded as inconclusive, never raised.

const c19ShortTTL = 2 * time.Second

func TestVerifC19_ExpiryAfterUse(t *testing.T) {
	defer vk.Flush()
	modes := c19Modes[:1] // authentication enabled
	fx := c19Setup(t, modes)
	srvKeys, _ := c19NewKeys(0x11)
	mode := modes[0]
	srv := fx.servers[mode.Name]
	all := []auth.Permission{"public", "read", "write", "admin"}
	// one method per declared level (the first of each that is not channel-returning)
	picked := map[string]c19Method{}
	for _, m := range fx.methods {
		if _, ok := picked[m.Perm]; !ok && !m.chanOut {
			picked[m.Perm] = m
		}
	}
	for _, channel := range []string{"header", "query"} {
		for _, lvl := range []string{"read", "write", "admin"} {
			m, ok := picked[lvl]
			if !ok {
				continue
			}
			minted := time.Now()
			tok, err := authtoken.NewSignedJWT(srvKeys.signer, all, c19ShortTTL)
			if err != nil {
				t.Fatalf("VERIF-INFRA C19: minting a token: %v", err)
			}
			cred := c19Cred{Name: "short-lived:" + channel, Presented: true, Valid: true, Perms: c19StrPerms(all)}
			if channel == "header" {
				cred.header = http.Header{perms.AuthKey: []string{"Bearer " + tok}}
			} else {
				cred.query = tok
			}
			conn := c19Dial(context.Background(), "http", srv.addr, cred, fx.byInternal, m.NS)
			first := c19Call(srv, conn, m)
			usedAt := time.Now()
			desc := fmt.Sprintf("%s|short-lived|%s", m.Name(), channel)
			if !first.Reached {
				if usedAt.Sub(minted) >= c19ShortTTL {
					vk.Record(desc, []string{"expiry-after-use=inconclusive-too-slow"}, false, nil)
					conn.Close()
					continue
				}
				conn.Close()
				t.Fatalf("C19: method %s with a valid all-permission token (ttl %v, %v old): expected the call to reach the module, observed %s: %s",
					m.Name(), c19ShortTTL, usedAt.Sub(minted), first.Client, first.Detail)
			}
			time.Sleep(time.Until(minted.Add(c19ShortTTL + 400*time.Millisecond)))
			expired := cred
			expired.Valid = false
			expired.Name = "short-lived-after-expiry:" + channel
			for _, how := range []string{"same-connection", "new-connection"} {
				c := conn
				if how == "new-connection" {
					c = c19Dial(context.Background(), "http", srv.addr, expired, fx.byInternal, m.NS)
				}
				o := c19Call(srv, c, m)
				cell, _ := c19Judge(m, expired, mode, "http", o)
				vk.Record(desc+"|"+how, []string{"expiry-after-use=" + how, "perm=" + m.Perm, "channel=" + channel}, true, func() any { return cell })
				if o.Reached {
					cell.Violation = fmt.Sprintf("C19: method %s (declared perm %q): a token that expired %v ago still reaches the module on a %s after it was used successfully while valid (token via %s); expected a refusal",
						m.Name(), m.Perm, time.Since(minted.Add(c19ShortTTL)).Round(time.Millisecond), how, channel)
					path := c19WriteReplay(cell, 9000)
					t.Fatalf("%s\nreplay: %s", cell.Violation, path)
				}
				if how == "new-connection" {
					c.Close()
				}
			}
			conn.Close()
		}
	}
}
