package blobstream

// C12 — proofs handed to clients verify, and only for what they claim (blobstream part):
// data-root tuple root and per-height inclusion proof over a generated header chain.
// Harness file of /verif (injected by overlay; not part of celestia-node).

import (
	"bytes"
	"context"
	"crypto/sha256"
	"encoding/binary"
	"fmt"
	"testing"

	"github.com/cometbft/cometbft/crypto/merkle"
	"pgregory.net/rapid"

	libhead "github.com/celestiaorg/go-header"

	"github.com/celestiaorg/celestia-node/header"
	vk "github.com/celestiaorg/celestia-node/internal/verifkit"
)

// ---- generated chain behind a getter that honours the header store's contract ----

type c12Chain struct {
	tail, head uint64
	roots      map[uint64][]byte // short chains: explicit data roots
	seed       uint64            // long chains: data root = sha256(seed, height)
}

func (c *c12Chain) dataRoot(h uint64) []byte {
	if r, ok := c.roots[h]; ok {
		return r
	}
	var b [16]byte
	binary.BigEndian.PutUint64(b[:8], c.seed)
	binary.BigEndian.PutUint64(b[8:], h)
	s := sha256.Sum256(b[:])
	return s[:]
}

func (c *c12Chain) hdr(h uint64) *header.ExtendedHeader {
	eh := &header.ExtendedHeader{}
	eh.RawHeader.Height = int64(h)
	eh.RawHeader.DataHash = append([]byte(nil), c.dataRoot(h)...)
	return eh
}

func (c *c12Chain) Desc() string {
	return fmt.Sprintf("chain[%d..%d] seed=%d explicit=%d", c.tail, c.head, c.seed, len(c.roots))
}

// c12Getter is the libhead.Getter the service reads from. It follows the header store:
// GetByHeight fails outside [tail, head]; GetRangeByHeight(from, to) returns exactly the headers
// (from.Height, to) — i.e. from.Height()+1 .. to-1 — and fails for an empty or unavailable range.
type c12Getter struct {
	c     *c12Chain
	calls int
}

var _ libhead.Getter[*header.ExtendedHeader] = (*c12Getter)(nil)

func (g *c12Getter) Head(context.Context, ...libhead.HeadOption[*header.ExtendedHeader]) (*header.ExtendedHeader, error) {
	return g.c.hdr(g.c.head), nil
}

func (g *c12Getter) Get(context.Context, libhead.Hash) (*header.ExtendedHeader, error) {
	return nil, libhead.ErrNotFound
}

func (g *c12Getter) GetByHeight(_ context.Context, h uint64) (*header.ExtendedHeader, error) {
	g.calls++
	if h < g.c.tail || h > g.c.head {
		return nil, libhead.ErrNotFound
	}
	return g.c.hdr(h), nil
}

func (g *c12Getter) GetRangeByHeight(_ context.Context, from *header.ExtendedHeader, to uint64) ([]*header.ExtendedHeader, error) {
	g.calls++
	first := from.Height() + 1
	if first >= to {
		return nil, fmt.Errorf("header/store: invalid range(%d,%d)", first, to)
	}
	if first < g.c.tail || to-1 > g.c.head {
		return nil, libhead.ErrNotFound
	}
	out := make([]*header.ExtendedHeader, 0, to-first)
	for h := first; h < to; h++ {
		out = append(out, g.c.hdr(h))
	}
	return out, nil
}

// ---- independent reference: ABI tuple encoding and RFC-6962 merkle root ----

func c12RefTuple(height uint64, dataRoot []byte) []byte {
	out := make([]byte, 64)
	binary.BigEndian.PutUint64(out[24:32], height) // uint256, big endian
	copy(out[32:], dataRoot)
	return out
}

func c12RefLeaf(b []byte) []byte {
	h := sha256.Sum256(append([]byte{0}, b...))
	return h[:]
}

func c12RefRoot(leaves [][]byte) []byte {
	switch len(leaves) {
	case 0:
		h := sha256.Sum256(nil)
		return h[:]
	case 1:
		return c12RefLeaf(leaves[0])
	}
	k := 1
	for k*2 < len(leaves) {
		k *= 2
	}
	l, r := c12RefRoot(leaves[:k]), c12RefRoot(leaves[k:])
	h := sha256.Sum256(append(append([]byte{1}, l...), r...))
	return h[:]
}

func (c *c12Chain) refRoot(start, end uint64) []byte {
	leaves := make([][]byte, 0, end-start)
	for h := start; h < end; h++ {
		leaves = append(leaves, c12RefTuple(h, c.dataRoot(h)))
	}
	return c12RefRoot(leaves)
}

// ---- generators ----

func c12GenChain(t *rapid.T) *c12Chain {
	c := &c12Chain{roots: map[uint64][]byte{}}
	c.seed = rapid.Uint64().Draw(t, "chain.seed")
	if rapid.IntRange(0, 11).Draw(t, "chain.long") == 0 {
		// a chain longer than the service's block limit; data roots derived from the seed
		c.tail = 1
		c.head = uint64(dataRootTupleRootBlocksLimit + rapid.IntRange(1, 60).Draw(t, "chain.extra"))
		return c
	}
	n := rapid.IntRange(3, 40).Draw(t, "chain.len")
	c.tail = uint64(rapid.SampledFrom([]int{1, 1, 1, 2, 5, 255, 256, 65535, 1 << 32}).Draw(t, "chain.tail"))
	c.head = c.tail + uint64(n) - 1
	pool := [][]byte{}
	for i := 0; i < 3; i++ {
		pool = append(pool, rapid.SliceOfN(rapid.Byte(), 32, 32).Draw(t, "chain.pool"))
	}
	for h := c.tail; h <= c.head; h++ {
		if rapid.IntRange(0, 3).Draw(t, "chain.dup") == 0 {
			// equal data roots at different heights (e.g. empty blocks)
			c.roots[h] = pool[rapid.IntRange(0, 2).Draw(t, "chain.poolidx")]
		}
	}
	return c
}

type c12Req struct {
	height, start, end uint64
	kind               string
	valid              bool // by the documented rules: start>=1, start<end, end-start<=limit, [start,end) inside the stored chain, start<=height<end
}

func c12GenReq(t *rapid.T, c *c12Chain) c12Req {
	kind := rapid.SampledFrom([]string{
		"valid", "valid", "valid", "valid", "valid", "valid", "whole", "single",
		"start-zero", "inverted", "empty", "end-beyond-head", "start-below-tail", "height-below", "height-at-end", "height-above", "too-long", "max-long",
	}).Draw(t, "req.kind")
	long := c.head-c.tail+1 > dataRootTupleRootBlocksLimit
	lo, hi := c.tail, c.head+1 // valid ranges are [start,end) with lo <= start < end <= hi
	r := c12Req{kind: kind}
	inRange := func(a, b uint64, l string) uint64 {
		return a + uint64(rapid.Uint64Range(0, b-a).Draw(t, l))
	}
	genValid := func() {
		r.start = inRange(lo, hi-1, "req.start")
		maxEnd := hi
		if maxEnd-r.start > 60 {
			maxEnd = r.start + 60
		}
		if maxEnd < r.start+2 {
			r.start = lo
			r.end = min(hi, lo+60)
		} else {
			r.end = inRange(r.start+2, maxEnd, "req.end")
		}
		r.height = inRange(r.start, r.end-1, "req.height")
		r.valid = true
	}
	switch kind {
	case "valid":
		genValid()
	case "whole":
		r.start, r.end = lo, min(hi, lo+dataRootTupleRootBlocksLimit)
		r.height = rapid.SampledFrom([]uint64{r.start, r.end - 1, r.start + (r.end-r.start)/2}).Draw(t, "req.hpos")
		r.valid = true
	case "single":
		r.start = inRange(lo, hi-1, "req.start")
		r.end, r.height, r.valid = r.start+1, r.start, true
	case "start-zero":
		r.start, r.end, r.height = 0, inRange(1, hi, "req.end"), 1
		if r.end > 0 {
			r.height = r.end - 1
		}
	case "inverted":
		genValid()
		r.start, r.end, r.valid = r.end, r.start, false
	case "empty":
		genValid()
		r.end, r.height, r.valid = r.start, r.start, false
	case "end-beyond-head":
		genValid()
		r.end, r.valid = hi+uint64(rapid.IntRange(1, 5).Draw(t, "req.beyond")), false
	case "start-below-tail":
		if lo <= 1 {
			r.kind = "start-zero"
			r.start, r.end, r.height = 0, min(hi, 3), 1
		} else {
			genValid()
			r.start = lo - uint64(rapid.IntRange(1, int(min(lo-1, 3))).Draw(t, "req.below"))
			r.height, r.valid = r.start, false
			if r.end-r.start > dataRootTupleRootBlocksLimit {
				r.end = r.start + 2
			}
		}
	case "height-below":
		genValid()
		if r.start == 0 {
			r.height = 0
		} else {
			r.height = r.start - 1
		}
		r.valid = false
	case "height-at-end":
		genValid()
		r.height, r.valid = r.end, false
	case "height-above":
		genValid()
		r.height, r.valid = r.end+uint64(rapid.IntRange(1, 1000).Draw(t, "req.above")), false
	case "too-long":
		if !long {
			genValid()
			r.kind = "valid"
		} else {
			r.start = inRange(lo, hi-dataRootTupleRootBlocksLimit-1, "req.start")
			r.end = r.start + dataRootTupleRootBlocksLimit + 1 + inRange(0, hi-(r.start+dataRootTupleRootBlocksLimit+1), "req.more")
			r.height = r.start
		}
	case "max-long":
		if !long {
			genValid()
			r.kind = "valid"
		} else {
			r.start = inRange(lo, hi-dataRootTupleRootBlocksLimit, "req.start")
			r.end = r.start + dataRootTupleRootBlocksLimit
			r.height = rapid.SampledFrom([]uint64{r.start, r.end - 1, r.start + 4097}).Draw(t, "req.hpos")
			r.valid = true
		}
	}
	return r
}

func c12Call[T any](f func() (T, error)) (v T, err error, panicked any) {
	defer func() {
		if r := recover(); r != nil {
			panicked = r
		}
	}()
	v, err = f()
	return v, err, nil
}

func c12VerifyTuple(p *merkle.Proof, root, tuple []byte) (err error, panicked any) {
	defer func() {
		if r := recover(); r != nil {
			panicked = r
		}
	}()
	return p.Verify(root, tuple), nil
}

// TestVerifC12_Tuple: over a generated header chain the tuple root of a valid range equals the
// independently computed merkle root of the ABI-encoded (height, dataRoot) tuples; the inclusion
// proof of a height verifies with cometbft's verifier for exactly that tuple and for no other
// height / data root / range root; tampered proofs are refused unless the statement is still true;
// requests outside the documented limits are refused; nothing panics.
func TestVerifC12_Tuple(t *testing.T) {
	defer vk.Flush()
	ctx := context.Background()
	rapid.Check(t, func(t *rapid.T) {
		c := c12GenChain(t)
		svc := &Service{headerGetter: &c12Getter{c: c}}
		req := c12GenReq(t, c)
		long := "chain=short"
		if c.head-c.tail+1 > dataRootTupleRootBlocksLimit {
			long = "chain=long"
		}
		desc := fmt.Sprintf("%s %s h=%d [%d,%d)", c.Desc(), req.kind, req.height, req.start, req.end)

		root, rerr, rpan := c12Call(func() (DataRootTupleRoot, error) { return svc.GetDataRootTupleRoot(ctx, req.start, req.end) })
		proof, perr, ppan := c12Call(func() (*DataRootTupleInclusionProof, error) {
			return svc.GetDataRootTupleInclusionProof(ctx, req.height, req.start, req.end)
		})
		if rpan != nil || ppan != nil {
			t.Fatalf("C12 tuple: the service panicked (root: %v, proof: %v) on request %s", rpan, ppan, desc)
		}
		rangeValid := req.start >= 1 && req.start < req.end && req.end-req.start <= dataRootTupleRootBlocksLimit &&
			req.start >= c.tail && req.end <= c.head+1
		if rangeValid != (req.valid || req.kind == "height-below" || req.kind == "height-at-end" || req.kind == "height-above") {
			t.Fatalf("VERIF-INFRA: request generator and validity rule disagree on %s", desc)
		}
		outcome := "served"
		if perr != nil {
			outcome = "refused"
		}
		vk.Record(desc, []string{"tuple-request=" + req.kind, "tuple-outcome=" + outcome, long}, req.valid && req.end-req.start >= 2, func() any {
			return map[string]any{"chain": c.Desc(), "request": req.kind, "height": req.height, "start": req.start, "end": req.end, "outcome": outcome}
		})
		if !rangeValid {
			if rerr == nil {
				t.Fatalf("C12 tuple: GetDataRootTupleRoot served the out-of-range request %s (root %x) instead of refusing it", desc, []byte(root))
			}
		}
		if !req.valid {
			if perr == nil {
				t.Fatalf("C12 tuple: GetDataRootTupleInclusionProof served the out-of-range request %s instead of refusing it", desc)
			}
			return
		}
		if req.end-req.start == 1 && (rerr != nil || perr != nil) {
			// A one-height range is refused by the header store's range getter (empty (from,to) range).
			// The property speaks about proofs that are produced; a refusal is counted, not flagged.
			vk.Count("tuple_single_height_range_refused", 1)
			return
		}
		if rerr != nil || perr != nil {
			t.Fatalf("C12 tuple: the service refused the valid request %s: root err=%v, proof err=%v", desc, rerr, perr)
		}
		want := c.refRoot(req.start, req.end)
		if !bytes.Equal(root, want) {
			t.Fatalf("C12 tuple: tuple root of [%d,%d) is %x, the merkle root of the encoded (height,dataRoot) tuples is %x; %s", req.start, req.end, []byte(root), want, c.Desc())
		}
		mp := (*merkle.Proof)(proof)
		tuple := c12RefTuple(req.height, c.dataRoot(req.height))
		if err, pan := c12VerifyTuple(mp, root, tuple); err != nil || pan != nil {
			t.Fatalf("C12 tuple: inclusion proof of height %d in [%d,%d) does not verify against the tuple root for encode(height,dataRoot): err=%v panic=%v; proof idx=%d total=%d aunts=%d; %s",
				req.height, req.start, req.end, err, pan, mp.Index, mp.Total, len(mp.Aunts), c.Desc())
		}
		if mp.Index != int64(req.height-req.start) || mp.Total != int64(req.end-req.start) {
			t.Fatalf("C12 tuple: inclusion proof of height %d in [%d,%d) is for leaf %d of %d", req.height, req.start, req.end, mp.Index, mp.Total)
		}
		// ... and only for that tuple
		for h := req.start; h < req.end && h < req.start+64; h++ {
			if h == req.height {
				continue
			}
			if err, pan := c12VerifyTuple(mp, root, c12RefTuple(h, c.dataRoot(h))); err == nil || pan != nil {
				t.Fatalf("C12 tuple: proof of height %d in [%d,%d) also verifies the tuple of height %d (panic=%v)", req.height, req.start, req.end, h, pan)
			}
		}
		other := append([]byte(nil), c.dataRoot(req.height)...)
		other[rapid.IntRange(0, 31).Draw(t, "flip.pos")] ^= 1 << uint(rapid.IntRange(0, 7).Draw(t, "flip.bit"))
		if err, pan := c12VerifyTuple(mp, root, c12RefTuple(req.height, other)); err == nil || pan != nil {
			t.Fatalf("C12 tuple: proof of height %d verifies a different data root (panic=%v)", req.height, pan)
		}

		// tampering
		nt := rapid.IntRange(1, 4).Draw(t, "ntamper")
		for k := 0; k < nt; k++ {
			tp := &merkle.Proof{Total: mp.Total, Index: mp.Index, LeafHash: append([]byte(nil), mp.LeafHash...), Aunts: vk.C12CloneBytes(mp.Aunts)}
			troot := append([]byte(nil), root...)
			ttuple := append([]byte(nil), tuple...)
			claimStart, claimEnd := req.start, req.end
			kind := rapid.SampledFrom([]string{"aunts", "aunts", "index", "total", "leafhash", "tuple-height", "tuple-root", "tuple-len", "other-range-root", "other-height-proof", "random-root"}).Draw(t, "tamper")
			switch kind {
			case "aunts":
				var donor [][]byte
				donor = append(donor, root, mp.LeafHash)
				var op string
				tp.Aunts, op = vk.C12MutList(t, "aunts", tp.Aunts, donor)
				kind += "/" + op
			case "index":
				tp.Index += int64(rapid.SampledFrom([]int{-1, 1, 2, -2}).Draw(t, "index.d"))
			case "total":
				tp.Total += int64(rapid.SampledFrom([]int{-1, 1, 2, 1 << 20}).Draw(t, "total.d"))
			case "leafhash":
				if rapid.Bool().Draw(t, "lh.nil") {
					tp.LeafHash = nil
				} else {
					tp.LeafHash[rapid.IntRange(0, len(tp.LeafHash)-1).Draw(t, "lh.pos")] ^= 0x40
				}
			case "tuple-height":
				d := rapid.SampledFrom([]uint64{1, ^uint64(0), 256, 1 << 32}).Draw(t, "th.d")
				ttuple = c12RefTuple(req.height+d, c.dataRoot(req.height))
			case "tuple-root":
				ttuple = c12RefTuple(req.height, c.dataRoot(req.start+(req.height-req.start+1)%(req.end-req.start)))
			case "tuple-len":
				if rapid.Bool().Draw(t, "tl.short") {
					ttuple = ttuple[:rapid.IntRange(0, 63).Draw(t, "tl.n")]
				} else {
					ttuple = append(ttuple, 0)
				}
			case "other-range-root":
				// the root of a neighbouring valid range
				if req.end-req.start >= 3 {
					claimStart, claimEnd = req.start, req.end-1
					if rapid.Bool().Draw(t, "orr.front") {
						claimStart, claimEnd = req.start+1, req.end
					}
					troot = c.refRoot(claimStart, claimEnd)
				} else {
					s := sha256.Sum256(troot)
					troot = s[:]
				}
			case "other-height-proof":
				oh := req.start + (req.height-req.start+1)%(req.end-req.start)
				op, err := svc.GetDataRootTupleInclusionProof(ctx, oh, req.start, req.end)
				if err != nil {
					t.Fatalf("C12 tuple: the service refused height %d of the valid range [%d,%d): %v", oh, req.start, req.end, err)
				}
				tp = (*merkle.Proof)(op)
			case "random-root":
				troot = rapid.SliceOfN(rapid.Byte(), 32, 32).Draw(t, "rr")
			}
			err, pan := c12VerifyTuple(tp, troot, ttuple)
			out := "rejected"
			if pan != nil {
				out = "panic"
			} else if err == nil {
				out = "accepted"
			}
			grp := kind
			if i := bytes.IndexByte([]byte(kind), '/'); i >= 0 {
				grp = kind[:i]
			}
			vk.Record(fmt.Sprintf("%s tamper=%s idx=%d total=%d aunts=%x root=%x tuple=%x", desc, kind, tp.Index, tp.Total, tp.Aunts, troot, ttuple),
				[]string{"tuple-tamper=" + grp, "tuple-tamper-outcome=" + out}, true, nil)
			if pan != nil {
				t.Fatalf("C12 tuple: the merkle verifier panicked (%v) on tampering %q of the proof of height %d in [%d,%d)", pan, kind, req.height, req.start, req.end)
			}
			if err == nil {
				// accepted: the statement must be true — under that root the leaf at the proof's index is that tuple
				holds := bytes.Equal(troot, c.refRoot(claimStart, claimEnd)) && tp.Index >= 0 && uint64(tp.Index) < claimEnd-claimStart &&
					bytes.Equal(ttuple, c12RefTuple(claimStart+uint64(tp.Index), c.dataRoot(claimStart+uint64(tp.Index))))
				if !holds {
					t.Fatalf("C12 tuple: tampered proof (%q) of height %d in [%d,%d) verifies although the tuple %x is not leaf %d under root %x; %s",
						kind, req.height, req.start, req.end, ttuple, tp.Index, troot, c.Desc())
				}
				vk.Count("tuple_tampered_accepted_semantically_equal", 1)
			}
		}
	})
}
