//go:build verif

package node

// C19 (node secret): the RPC server, AuthNew and AuthVerify all work with the signer/verifier that
// jwtSignerAndVerifier derives from the secret in the node's keystore. "Wrongly signed tokens grant
// nothing" therefore depends on that pair really being bound to the stored secret: a token is
// honoured exactly if it was signed with the secret on disk (what `celestia <type> auth <level>`
// does from another process), on the first start (secret generated) and on every restart (secret
// loaded). Oracle: HS256 tokens built here with crypto/hmac, independent of the JWT library.

import (
	"bytes"
	"crypto/hmac"
	"crypto/sha256"
	"encoding/base64"
	"encoding/json"
	"fmt"
	"os"
	"reflect"
	"testing"

	"github.com/filecoin-project/go-jsonrpc/auth"
	"pgregory.net/rapid"

	vk "github.com/celestiaorg/celestia-node/internal/verifkit"
	"github.com/celestiaorg/celestia-node/libs/authtoken"
	"github.com/celestiaorg/celestia-node/libs/keystore"
)

func c19RefToken(key []byte, payload []byte) string {
	enc := base64.RawURLEncoding
	head := enc.EncodeToString([]byte(`{"alg":"HS256","typ":"JWT"}`))
	body := head + "." + enc.EncodeToString(payload)
	mac := hmac.New(sha256.New, key)
	mac.Write([]byte(body))
	return body + "." + enc.EncodeToString(mac.Sum(nil))
}

// c19RefVerify checks an HS256 token against key and returns its payload.
func c19RefVerify(key []byte, token string) ([]byte, bool) {
	parts := bytes.Split([]byte(token), []byte("."))
	if len(parts) != 3 {
		return nil, false
	}
	mac := hmac.New(sha256.New, key)
	mac.Write([]byte(string(parts[0]) + "." + string(parts[1])))
	sig, err := base64.RawURLEncoding.DecodeString(string(parts[2]))
	if err != nil || !hmac.Equal(sig, mac.Sum(nil)) {
		return nil, false
	}
	pl, err := base64.RawURLEncoding.DecodeString(string(parts[1]))
	return pl, err == nil
}

// HMAC pads keys shorter than the block size with zeros: such keys are the same key.
func c19SameHMACKey(a, b []byte) bool {
	pad := func(k []byte) []byte {
		if len(k) > 64 {
			h := sha256.Sum256(k)
			k = h[:]
		}
		out := make([]byte, 64)
		copy(out, k)
		return out
	}
	return bytes.Equal(pad(a), pad(b))
}

func TestVerifC19_NodeSecret(t *testing.T) {
	defer vk.Flush()
	levels := []auth.Permission{"public", "read", "write", "admin"}
	rapid.Check(t, func(t *rapid.T) {
		dir, err := os.MkdirTemp("", "c19secret")
		if err != nil {
			t.Fatalf("VERIF-INFRA: %v", err)
		}
		defer os.RemoveAll(dir)
		open := func() keystore.Keystore {
			ks, err := keystore.NewFSKeystore(dir, nil)
			if err != nil {
				t.Fatalf("VERIF-INFRA: keystore: %v", err)
			}
			return ks
		}
		var want []byte // the secret the node must be bound to (nil: generated on first start)
		start := "generated"
		if rapid.Bool().Draw(t, "presetSecret") {
			want = rapid.SliceOfN(rapid.Byte(), 16, 64).Draw(t, "secret")
			want[0] |= 1 // never the all-zero key
			if err := open().Put(SecretName, keystore.PrivKey{Body: bytes.Clone(want)}); err != nil {
				t.Fatalf("VERIF-INFRA: put secret: %v", err)
			}
			start = "preset"
		}
		starts := rapid.IntRange(1, 3).Draw(t, "starts")
		for s := 0; s < starts; s++ {
			signer, verifier, err := jwtSignerAndVerifier(open())
			if err != nil {
				t.Fatalf("C19: jwtSignerAndVerifier failed on start %d: %v", s, err)
			}
			// what another process (the auth command) reads from disk
			onDisk, err := open().Get(SecretName)
			if err != nil || len(onDisk.Body) == 0 {
				t.Fatalf("C19: no secret in the keystore after start %d: %v", s, err)
			}
			if want == nil {
				want = bytes.Clone(onDisk.Body)
				if c19SameHMACKey(want, nil) {
					t.Fatalf("C19: the generated secret is the all-zero key")
				}
			} else if !bytes.Equal(onDisk.Body, want) {
				t.Fatalf("C19: the stored secret changed across start %d (%s)", s, start)
			}

			nperm := rapid.IntRange(0, 3).Draw(t, "nperm")
			allow := make([]auth.Permission, 0, nperm)
			for i := 0; i < nperm; i++ {
				allow = append(allow, rapid.SampledFrom(levels).Draw(t, "perm"))
			}
			payload, _ := json.Marshal(map[string]any{"Allow": allow, "Nonce": []byte{1, 2, 3}, "ExpiresAt": "0001-01-01T00:00:00Z"})

			// tokens signed elsewhere, judged by the node's verifier
			nkeys := rapid.IntRange(1, 4).Draw(t, "nkeys")
			for i := 0; i < nkeys; i++ {
				class := rapid.SampledFrom([]string{"stored", "stored", "zero", "zero-32", "empty", "random", "bitflip", "truncated"}).Draw(t, "keyclass")
				var key []byte
				switch class {
				case "stored":
					key = bytes.Clone(want)
				case "zero":
					key = make([]byte, len(want))
				case "zero-32":
					key = make([]byte, 32)
				case "empty":
					key = []byte{}
				case "random":
					key = rapid.SliceOfN(rapid.Byte(), 1, 64).Draw(t, "otherkey")
				case "bitflip":
					key = bytes.Clone(want)
					key[rapid.IntRange(0, len(key)-1).Draw(t, "flipbyte")] ^= 1 << rapid.IntRange(0, 7).Draw(t, "flipbit")
				case "truncated":
					key = bytes.Clone(want[:rapid.IntRange(1, len(want)-1).Draw(t, "keep")])
				}
				same := c19SameHMACKey(key, want)
				got, verr := authtoken.ExtractSignedPermissions(verifier, c19RefToken(key, payload))
				desc := fmt.Sprintf("node-secret|%s|start%d|%s|same=%v|perms=%v", start, s, class, same, allow)
				vk.Record(desc, []string{"secret=" + start, fmt.Sprintf("start=%d", s), "foreign-key=" + class, fmt.Sprintf("same-key=%v", same)},
					!same, func() any { return map[string]any{"secret": start, "start": s, "signed_with": class, "honoured": verr == nil, "perms": allow} })
				switch {
				case same && verr != nil:
					t.Fatalf("C19: start %d (%s secret): a token signed with the secret stored in the keystore is refused by the node's verifier: %v", s, start, verr)
				case same && !(len(got) == 0 && len(allow) == 0) && !reflect.DeepEqual(got, allow):
					t.Fatalf("C19: start %d: permissions of a correctly signed token: got %v, signed %v", s, got, allow)
				case !same && verr == nil:
					t.Fatalf("C19: start %d (%s secret): a token signed with another key (%s, %d bytes) is honoured by the node's verifier with permissions %v",
						s, start, class, len(key), got)
				}
			}

			// tokens minted by the node, judged by the reference with the secret on disk
			tok, err := authtoken.NewSignedJWT(signer, allow, 0)
			if err != nil {
				t.Fatalf("C19: start %d: minting a token failed: %v", s, err)
			}
			if _, ok := c19RefVerify(want, tok); !ok {
				t.Fatalf("C19: start %d (%s secret): a token minted by the node is not signed with the secret stored in the keystore", s, start)
			}
			if _, ok := c19RefVerify(make([]byte, 32), tok); ok {
				t.Fatalf("C19: start %d (%s secret): a token minted by the node verifies under the all-zero key", s, start)
			}
			if got, verr := authtoken.ExtractSignedPermissions(verifier, tok); verr != nil || (len(allow) > 0 && !reflect.DeepEqual(got, allow)) {
				t.Fatalf("C19: start %d: the node does not honour its own token: %v (got %v, want %v)", s, verr, got, allow)
			}
			vk.Record(fmt.Sprintf("node-secret|mint|%s|start%d|perms=%v", start, s, allow),
				[]string{"secret=" + start, fmt.Sprintf("start=%d", s), "minted-by-node"}, s > 0 || start == "preset", nil)
		}
	})
}
