package header

// C20 (header feed half) — the feed a blob subscription reads from hands on every header of the
// underlying subscription once, in order, and ends only with its caller or its source.
// Harness file of /verif (injected by overlay; not part of celestia-node).
//
// The real Service.Subscribe runs over a scripted libhead.Subscriber: the harness decides when a
// header becomes available, when the consumer reads, when the caller cancels and when the
// underlying subscription breaks. Oracle (holds under every schedule): what the consumer has read
// is always a contiguous prefix of what the subscription handed out - no gap, duplicate or
// reordering, however far the consumer lags; the channel closes only after a cancel or a broken
// subscription, then within a generous bound, and the underlying subscription is cancelled.

import (
	"context"
	"errors"
	"fmt"
	"strings"
	"sync"
	"testing"
	"time"

	"pgregory.net/rapid"

	libhead "github.com/celestiaorg/go-header"

	"github.com/celestiaorg/celestia-node/header"
	vk "github.com/celestiaorg/celestia-node/internal/verifkit"
)

type c20Sub struct {
	mu        sync.Mutex
	queue     []*header.ExtendedHeader
	wake      chan struct{}
	broken    bool
	taken     int
	waiting   int
	cancelled int
}

func (s *c20Sub) Subscribe() (libhead.Subscription[*header.ExtendedHeader], error) { return s, nil }

func (s *c20Sub) SetVerifier(func(context.Context, *header.ExtendedHeader) error) error { return nil }

func (s *c20Sub) signal() {
	select {
	case s.wake <- struct{}{}:
	default:
	}
}

func (s *c20Sub) NextHeader(ctx context.Context) (*header.ExtendedHeader, error) {
	for {
		s.mu.Lock()
		if len(s.queue) > 0 {
			h := s.queue[0]
			s.queue = s.queue[1:]
			s.taken++
			s.mu.Unlock()
			return h, nil
		}
		if s.broken {
			s.mu.Unlock()
			return nil, errors.New("c20: subscription broken")
		}
		s.waiting++
		s.mu.Unlock()
		select {
		case <-s.wake:
		case <-ctx.Done():
			s.mu.Lock()
			s.waiting--
			s.mu.Unlock()
			return nil, ctx.Err()
		}
		s.mu.Lock()
		s.waiting--
		s.mu.Unlock()
	}
}

func (s *c20Sub) Cancel() {
	s.mu.Lock()
	s.cancelled++
	s.mu.Unlock()
}

func (s *c20Sub) snapshot() (queued, taken, waiting, cancelled int) {
	s.mu.Lock()
	defer s.mu.Unlock()
	return len(s.queue), s.taken, s.waiting, s.cancelled
}

func TestVerifC20_HeaderFeed(t *testing.T) {
	defer vk.Flush()
	rapid.Check(t, c20FeedCase)
}

func c20FeedCase(t *rapid.T) {
	sub := &c20Sub{wake: make(chan struct{}, 1)}
	svc := &Service{sub: sub}
	ctx, cancel := context.WithCancel(context.Background())
	defer cancel()
	ch, err := svc.Subscribe(ctx)
	if err != nil {
		t.Fatalf("VERIF-INFRA: Subscribe: %v", err)
	}
	const bound = 10 * time.Second

	published, read := 0, 0
	ended := "" // "", "cancel", "break"
	closedSeen := false
	maxBacklog := 0
	var log_ strings.Builder

	// settle lets the forwarding goroutine run until it is parked (in NextHeader with an empty
	// queue, or in its send); only the explored schedule depends on it, never the verdict
	settle := func() {
		last, stable := -1, 0
		for i := 0; i < 400 && stable < 3; i++ {
			q, taken, waiting, _ := sub.snapshot()
			if q == 0 && waiting > 0 {
				return
			}
			if taken == last {
				stable++
			} else {
				last, stable = taken, 0
			}
			time.Sleep(50 * time.Microsecond)
		}
	}
	// readOne takes the next header off the feed; ok=false: the channel is closed
	readOne := func(where string, wait time.Duration) (h *header.ExtendedHeader, ok, timeout bool) {
		select {
		case h, ok = <-ch:
			return h, ok, false
		case <-time.After(wait):
			return nil, false, true
		}
	}
	judge := func(where string, h *header.ExtendedHeader) {
		read++
		if h == nil || h.Height() != uint64(read) {
			got := "nil"
			if h != nil {
				got = fmt.Sprint(h.Height())
			}
			t.Fatalf("C20 feed %s: the feed delivered header %s where header %d is due (published 1..%d, %d read before; history %s)",
				where, got, read, published, read-1, log_.String())
		}
	}

	steps := rapid.IntRange(4, 40).Draw(t, "steps")
	for step := 0; step < steps && !closedSeen; step++ {
		acts := []string{"publish", "publish", "burst", "consume", "consume", "drain"}
		if ended == "" {
			acts = append(acts, "cancel", "break")
		}
		act := rapid.SampledFrom(acts).Draw(t, "act")
		where := fmt.Sprintf("step %d (%s)", step, act)
		switch act {
		case "publish", "burst":
			k := 1
			if act == "burst" {
				k = rapid.IntRange(2, 24).Draw(t, "burst")
			}
			if ended == "break" {
				k = 0 // a broken subscription hands out nothing more
			}
			for i := 0; i < k; i++ {
				published++
				h := &header.ExtendedHeader{}
				h.RawHeader.Height = int64(published)
				sub.mu.Lock()
				sub.queue = append(sub.queue, h)
				sub.mu.Unlock()
				sub.signal()
				if rapid.Bool().Draw(t, "settleBetween") {
					settle()
				}
			}
			settle()
			maxBacklog = max(maxBacklog, published-read)
			fmt.Fprintf(&log_, "pub%d ", k)
		case "consume", "drain":
			k := rapid.IntRange(1, 4).Draw(t, "consume")
			if act == "drain" {
				k = published - read
			}
			k = min(k, published-read)
			for i := 0; i < k; i++ {
				h, ok, timeout := readOne(where, bound)
				if timeout {
					if ended != "" {
						// after the end the feed owes nothing more; it must close (checked below)
						break
					}
					t.Fatalf("C20 feed %s: header %d was handed to the feed but did not arrive within %s (published 1..%d; history %s)",
						where, read+1, bound, published, log_.String())
				}
				if !ok {
					if ended == "" {
						t.Fatalf("C20 feed %s: the feed closed although nobody cancelled and the subscription is alive (history %s)", where, log_.String())
					}
					closedSeen = true
					break
				}
				judge(where, h)
			}
			fmt.Fprintf(&log_, "read%d ", k)
		case "cancel":
			cancel()
			ended = "cancel"
			log_.WriteString("cancel ")
		case "break":
			sub.mu.Lock()
			sub.broken = true
			sub.mu.Unlock()
			sub.signal()
			ended = "break"
			log_.WriteString("break ")
		}
	}

	// end of the history: end the stream if it is still alive, then it must close within the bound;
	// whatever still arrives continues the sequence
	if ended == "" {
		cancel()
		ended = "cancel"
	}
	deadline := time.Now().Add(bound)
	for !closedSeen {
		h, ok, timeout := readOne("end of history", time.Until(deadline))
		switch {
		case timeout:
			t.Fatalf("C20 feed: the feed did not close within %s after %s (history %s)", bound, ended, log_.String())
		case !ok:
			closedSeen = true
		default:
			judge("end of history", h)
		}
	}
	if ended == "break" && read != published {
		// a broken source ends the feed after everything it handed out before breaking
		_, taken, _, _ := sub.snapshot()
		if read < taken {
			t.Fatalf("C20 feed: the subscription handed out %d headers before it broke, the feed delivered %d and closed (history %s)", taken, read, log_.String())
		}
	}
	for i := 0; ; i++ {
		if _, _, _, c := sub.snapshot(); c > 0 {
			break
		}
		if i > 2000 {
			t.Fatalf("C20 feed: the feed closed but the underlying subscription was never cancelled (history %s)", log_.String())
		}
		time.Sleep(time.Millisecond)
	}

	lab := []string{"feed", "end=" + ended}
	if maxBacklog >= 2 {
		lab = append(lab, "feed:lagging-consumer")
	}
	if maxBacklog >= 9 {
		lab = append(lab, "feed:backlog>=9")
	}
	if maxBacklog >= 17 {
		lab = append(lab, "feed:backlog>=17")
	}
	d := "feed " + log_.String()
	vk.Record(d, lab, maxBacklog >= 2, func() any { return d })
	vk.Count("c20_feed_headers", int64(published))
}
