package pruner

// C14 (mode conversion) — the node's own start hook (convertToPruned: detectFirstRun +
// ConvertFromArchivalToPruned + ResetCheckpoint) over sequences of node starts in archival and
// pruned mode, with a real pruner.Service making progress between them.
// Harness file of /verif (injected by overlay; not part of celestia-node).
//
// Reference model: recorded mode in {none, archival, pruned}. Oracles:
//   C1  a node that has run pruned never starts as archival again (ErrDisallowRevertToArchival),
//       however many restarts lie in between;
//   C2  the checkpoint is reset (LastPruned back to the header-store tail) exactly when an
//       archival node starts pruned for the first time - at most once per node life;
//   C3  apart from that reset LastPruned never decreases across restarts.

import (
	"context"
	"errors"
	"fmt"
	"sync"
	"testing"
	"time"

	"github.com/cometbft/cometbft/types"
	"github.com/ipfs/go-datastore"
	"github.com/ipfs/go-datastore/namespace"
	dssync "github.com/ipfs/go-datastore/sync"
	logging "github.com/ipfs/go-log/v2"
	"go.uber.org/fx"
	"pgregory.net/rapid"

	gohdrtest "github.com/celestiaorg/go-header/headertest"

	"github.com/celestiaorg/celestia-node/header"
	vk "github.com/celestiaorg/celestia-node/internal/verifkit"
	"github.com/celestiaorg/celestia-node/pruner"
	"github.com/celestiaorg/celestia-node/share"
	fullavail "github.com/celestiaorg/celestia-node/share/availability/full"
)

func init() {
	_ = logging.SetLogLevel("pruner/service", "fatal")
}

type c14Gen struct {
	next uint64
	ts   time.Time
}

var c14Roots = share.EmptyEDSRoots()

func (g *c14Gen) NextHeader() *header.ExtendedHeader {
	g.next++
	g.ts = g.ts.Add(10 * time.Second)
	return &header.ExtendedHeader{
		RawHeader: header.RawHeader{ChainID: "c14", Height: int64(g.next), Time: g.ts},
		Commit:    &types.Commit{Height: int64(g.next), BlockID: types.BlockID{Hash: []byte(fmt.Sprintf("c14-%020d", g.next))}},
		DAH:       c14Roots,
	}
}

type c14MineKey struct{}

// c14HS is go-header's mock store plus a signal for "the service's run loop began its cycle".
type c14HS struct {
	*gohdrtest.Store[*header.ExtendedHeader]
	mu      sync.Mutex
	runTail chan struct{}
}

func (s *c14HS) Tail(ctx context.Context) (*header.ExtendedHeader, error) {
	s.mu.Lock()
	if ctx.Value(c14MineKey{}) == nil && s.runTail != nil {
		close(s.runTail)
		s.runTail = nil
	}
	s.mu.Unlock()
	return s.Store.Tail(ctx)
}

type c14NopPruner struct {
	mu    sync.Mutex
	calls int
}

func (p *c14NopPruner) Prune(context.Context, *header.ExtendedHeader) error {
	p.mu.Lock()
	p.calls++
	p.mu.Unlock()
	return nil
}

type c14Lifecycle struct{ hooks []fx.Hook }

func (l *c14Lifecycle) Append(h fx.Hook) { l.hooks = append(l.hooks, h) }

func TestVerifC14_ModeConversion(t *testing.T) {
	defer vk.Flush()
	mine := context.WithValue(context.Background(), c14MineKey{}, true)
	rapid.Check(t, func(t *rapid.T) {
		gen := &c14Gen{ts: time.Date(2025, 1, 1, 0, 0, 0, 0, time.UTC)}
		// a fresh node (nothing outside the 5-block window yet, LastPruned stays 1) or a node that
		// already pruned under an older version (no recorded mode, LastPruned > 1)
		n0 := rapid.IntRange(1, 6).Draw(t, "initialHeaders")
		if rapid.IntRange(0, 3).Draw(t, "migrating") == 0 {
			n0 = rapid.IntRange(8, 30).Draw(t, "initialHeadersOld")
		}
		hs := &c14HS{Store: gohdrtest.NewStore[*header.ExtendedHeader](nil, gen, n0)}
		var ds datastore.Batching = dssync.MutexWrap(datastore.NewMapDatastore())
		window := 50 * time.Second

		recorded := "none"
		resets := 0
		lastLP := uint64(0)
		nStarts := rapid.IntRange(1, 10).Draw(t, "starts")
		desc := ""
		labels := map[string]struct{}{}
		for i := 0; i < nStarts; i++ {
			isArchival := rapid.Bool().Draw(t, "archival")
			grow := 0
			if i > 0 { // the first start finds the store as generated above
				grow = rapid.IntRange(0, 12).Draw(t, "newHeaders")
			}
			for j := 0; j < grow; j++ {
				_ = hs.Append(mine, gen.NextHeader())
			}
			desc += fmt.Sprintf("start(archival=%v,+%d);", isArchival, grow)

			// what the node does on start: construct + Start the service, then run the start hook
			svc, err := pruner.NewService(&c14NopPruner{}, window, hs, ds, 10*time.Second, pruner.WithPruneCycle(1000*time.Hour))
			if err != nil {
				t.Fatalf("VERIF-INFRA: NewService: %v", err)
			}
			lc := &c14Lifecycle{}
			cfg := &Config{EnableService: !isArchival}
			if err := convertToPruned(lc, cfg, ds, svc); err != nil || len(lc.hooks) != 1 || lc.hooks[0].OnStart == nil {
				t.Fatalf("VERIF-INFRA: convertToPruned registered %d hooks, err %v", len(lc.hooks), err)
			}
			runTail := make(chan struct{})
			hs.mu.Lock()
			hs.runTail = runTail
			hs.mu.Unlock()
			if err := svc.Start(mine); err != nil {
				t.Fatalf("C14-C3: Start on the node's own datastore failed: %v", err)
			}
			select {
			case <-runTail:
			case <-time.After(60 * time.Second):
				t.Fatalf("VERIF-INFRA: the run loop did not begin its first cycle within 60 s")
			}
			// LastPruned takes the checkpoint lock, which the first cycle holds until it is done
			lpCycle, err := svc.LastPruned(mine)
			if err != nil {
				t.Fatalf("VERIF-INFRA: LastPruned: %v", err)
			}
			if lpCycle < lastLP {
				t.Fatalf("C14-C3: LastPruned went back from %d to %d across a restart without a mode conversion (history %s)", lastLP, lpCycle, desc)
			}
			hookErr := lc.hooks[0].OnStart(mine)
			lpAfter, err := svc.LastPruned(mine)
			if err != nil {
				t.Fatalf("VERIF-INFRA: LastPruned: %v", err)
			}
			tail, _ := hs.Store.Tail(mine)

			// reference model
			wantErr, wantReset := false, false
			switch {
			case recorded == "none" && isArchival && lpCycle > 1:
				wantErr = true // pruned before on an older version: cannot become archival
				labels["first-run-refused"] = struct{}{}
			case recorded == "none":
				recorded = map[bool]string{true: "archival", false: "pruned"}[isArchival]
			case recorded == "pruned" && isArchival:
				wantErr = true
				labels["revert-refused"] = struct{}{}
			case recorded == "archival" && !isArchival:
				recorded, wantReset = "pruned", true
				labels["converted"] = struct{}{}
			}
			if wantErr != (hookErr != nil) || (wantErr && !errors.Is(hookErr, fullavail.ErrDisallowRevertToArchival)) {
				t.Fatalf("C14-C1: start %d (archival=%v, recorded mode before: see history) returned %v; expected refusal=%v (history %s)",
					i, isArchival, hookErr, wantErr, desc)
			}
			if wantReset {
				resets++
				if lpAfter != tail.Height() {
					t.Fatalf("C14-C2: first pruned start of an archival node must reset the checkpoint to the tail %d, LastPruned is %d (history %s)",
						tail.Height(), lpAfter, desc)
				}
			} else if lpAfter != lpCycle {
				t.Fatalf("C14-C2: LastPruned changed from %d to %d in a start hook that must not convert (history %s)", lpCycle, lpAfter, desc)
			}
			got, gerr := namespace.Wrap(ds, storePrefix).Get(mine, previousModeKey)
			if recorded == "none" {
				if gerr == nil {
					t.Fatalf("C14-C1: a refused first start recorded mode %q", got)
				}
			} else if gerr != nil || string(got) != recorded {
				t.Fatalf("C14-C1: recorded mode is %q (%v), expected %q (history %s)", got, gerr, recorded, desc)
			}
			lastLP = lpAfter
			if lpCycle > 1 {
				labels["pruner-progressed"] = struct{}{}
			}
			stopCtx, cancel := context.WithTimeout(mine, 60*time.Second)
			err = svc.Stop(stopCtx)
			cancel()
			if err != nil {
				t.Fatalf("VERIF-INFRA: Stop: %v", err)
			}
		}
		if resets > 1 {
			t.Fatalf("C14-C2: the checkpoint was reset %d times (history %s)", resets, desc)
		}
		ls := []string{"final=" + recorded}
		for l := range labels {
			ls = append(ls, l)
		}
		_, converted := labels["converted"]
		vk.Record(desc, ls, converted || len(labels) > 1, func() any { return desc })
	})
}
