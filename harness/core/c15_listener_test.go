package core

// C15 (consensus ingest path) — a bridge node stores exactly the block it announces.
// Harness file of /verif (injected by overlay; not part of celestia-node).
//
// The real Listener (NewListener, handleNewBlockEvent, handleNewSignedBlock, storeEDS) runs over a
// real store.Store, the real header.MakeExtendedHeader and the real MultiSource fan-in
// (newMultiSource.Verify / SubscribeNewBlockEvent / GetSignedBlockFrom / IsSyncingFrom) whose
// leaves are 1-3 scripted block sources. Every announcement travels source channel -> fan-in ->
// handleNewBlockEvent, one at a time, exactly as Listener.listen does it.
//
// Reference: the generated chain (transactions -> da.ConstructEDS once, kept as plain bytes) and a
// model of which heights have been ingested; the store is compared with the model after every
// event and, at the end of the script, once more through a freshly opened store (disk state).

import (
	"bytes"
	"context"
	"encoding/binary"
	"errors"
	"fmt"
	"math/rand/v2"
	"os"
	"path/filepath"
	"strings"
	"testing"
	"time"

	"github.com/cometbft/cometbft/crypto/ed25519"
	"github.com/cometbft/cometbft/crypto/tmhash"
	cmtversion "github.com/cometbft/cometbft/proto/tendermint/version"
	"github.com/cometbft/cometbft/types"
	pubsub "github.com/libp2p/go-libp2p-pubsub"
	"pgregory.net/rapid"

	"github.com/celestiaorg/celestia-app/v9/pkg/appconsts"
	"github.com/celestiaorg/celestia-app/v9/pkg/da"
	libshare "github.com/celestiaorg/go-square/v4/share"
	squaretx "github.com/celestiaorg/go-square/v4/tx"

	"github.com/celestiaorg/celestia-node/header"
	vk "github.com/celestiaorg/celestia-node/internal/verifkit"
	"github.com/celestiaorg/celestia-node/internal/verifkit/c15kit"
	"github.com/celestiaorg/celestia-node/nodebuilder/p2p"
	"github.com/celestiaorg/celestia-node/share"
	"github.com/celestiaorg/celestia-node/share/availability"
	"github.com/celestiaorg/celestia-node/share/shwap/p2p/shrex/shrexsub"
	"github.com/celestiaorg/celestia-node/store"
)

const c15ChainID = "c15-chain"

// ---------------------------------------------------------------------------------------------
// generated chain

type c15Block struct {
	idx      int
	height   int64
	hdr      types.Header
	commit   *types.Commit
	vals     *types.ValidatorSet
	txs      types.Txs
	ref      [][][]byte // the block's own extended square, plain bytes
	roots    *share.AxisRoots
	dataHash []byte
	empty    bool
	inside   bool // timestamp inside the availability window
	ods      int
	nTx      int
	blobs    []int // blob sizes
	desc     string
}

type c15Vals struct {
	set   *types.ValidatorSet
	privs map[string]ed25519.PrivKey // by validator address
}

func c15GenVals(t *rapid.T) *c15Vals {
	n := rapid.IntRange(1, 4).Draw(t, "validators")
	seed := rapid.Uint64().Draw(t, "valseed")
	vals := make([]*types.Validator, n)
	privs := map[string]ed25519.PrivKey{}
	for i := 0; i < n; i++ {
		var s [16]byte
		binary.LittleEndian.PutUint64(s[:], seed)
		binary.LittleEndian.PutUint64(s[8:], uint64(i))
		priv := ed25519.GenPrivKeyFromSecret(s[:])
		power := int64(rapid.IntRange(1, 100).Draw(t, "power"))
		v := types.NewValidator(priv.PubKey(), power)
		vals[i] = v
		privs[string(v.Address)] = priv
	}
	return &c15Vals{set: types.NewValidatorSet(vals), privs: privs}
}

func (v *c15Vals) commit(h *types.Header, psh []byte) (*types.Commit, error) {
	bid := types.BlockID{Hash: h.Hash(), PartSetHeader: types.PartSetHeader{Total: 1, Hash: psh}}
	c := &types.Commit{Height: h.Height, Round: 0, BlockID: bid, Signatures: make([]types.CommitSig, len(v.set.Validators))}
	for i, val := range v.set.Validators {
		c.Signatures[i] = types.CommitSig{
			BlockIDFlag:      types.BlockIDFlagCommit,
			ValidatorAddress: val.Address,
			Timestamp:        h.Time,
		}
		sig, err := v.privs[string(val.Address)].Sign(c.VoteSignBytes(h.ChainID, int32(i)))
		if err != nil {
			return nil, err
		}
		c.Signatures[i].Signature = sig
	}
	return c, nil
}

func c15Bytes(rng *rand.Rand, n int) []byte {
	b := make([]byte, n)
	for i := range b {
		b[i] = byte(rng.Uint32())
	}
	return b
}

// c15GenTxs draws the transactions of one block: ordinary txs first, then BlobTxs (the order
// celestia-app produces and square.Construct demands). Every tx starts with the height and a
// counter so that no two heights of a chain carry the same non-empty data (as on a real chain,
// where txs are signed and sequenced).
func c15GenTxs(t *rapid.T, rng *rand.Rand, height int64, b *c15Block) {
	kind := rapid.SampledFrom([]string{"empty", "txs", "blobs", "mixed", "mixed"}).Draw(t, "content")
	if kind == "empty" {
		return
	}
	ctr := 0
	prefix := func() []byte {
		p := make([]byte, 12)
		binary.BigEndian.PutUint64(p, uint64(height))
		binary.BigEndian.PutUint32(p[8:], uint32(ctr))
		ctr++
		return p
	}
	if kind == "txs" || kind == "mixed" {
		n := rapid.IntRange(1, 4).Draw(t, "ntx")
		for i := 0; i < n; i++ {
			sz := rapid.SampledFrom([]int{1, 20, 200, 470, 600, 2500}).Draw(t, "txsize")
			b.txs = append(b.txs, append(prefix(), c15Bytes(rng, sz)...))
			b.nTx++
		}
	}
	if kind == "blobs" || kind == "mixed" {
		sizes := []int{1, 2, 477, 478, 479, 1000, 2000, 5000, 12000}
		if vk.Thorough() {
			sizes = append(sizes, 40000)
		}
		n := rapid.IntRange(1, 3).Draw(t, "nblobtx")
		for i := 0; i < n; i++ {
			nb := rapid.IntRange(1, 3).Draw(t, "nblobs")
			blobs := make([]*libshare.Blob, nb)
			for j := range blobs {
				ns := vk.BlobNS(rapid.IntRange(0, 5).Draw(t, "ns"))
				sz := rapid.SampledFrom(sizes).Draw(t, "blobsize")
				var err error
				if rapid.IntRange(0, 2).Draw(t, "sharever") == 0 {
					blobs[j], err = libshare.NewV1Blob(ns, c15Bytes(rng, sz), c15Bytes(rng, libshare.SignerSize))
				} else {
					blobs[j], err = libshare.NewV0Blob(ns, c15Bytes(rng, sz))
				}
				if err != nil {
					t.Fatalf("VERIF-INFRA: building a blob: %v", err)
				}
				b.blobs = append(b.blobs, sz)
			}
			inner := append(prefix(), c15Bytes(rng, 40+int(rng.Uint32()%200))...)
			btx, err := squaretx.MarshalBlobTx(inner, blobs...)
			if err != nil {
				t.Fatalf("VERIF-INFRA: MarshalBlobTx: %v", err)
			}
			b.txs = append(b.txs, btx)
		}
	}
}

// c15GenChain draws a chain of consistent blocks. Blocks [0,cut) are older than the window by at
// least 10 minutes, blocks [cut,n) are inside it with at least 10 minutes to spare.
func c15GenChain(t *rapid.T, window time.Duration, maxLen int) []*c15Block {
	n := rapid.IntRange(3, maxLen).Draw(t, "chainlen")
	h0 := rapid.SampledFrom([]int64{1, 2, 1000, 1 << 33}).Draw(t, "h0")
	cut := 0
	switch rapid.IntRange(0, 3).Draw(t, "cutkind") {
	case 0:
		cut = 0
	case 1:
		cut = n
	default:
		cut = rapid.IntRange(1, n-1).Draw(t, "cut")
	}
	vals := c15GenVals(t)
	seed := rapid.Uint64().Draw(t, "chainseed")
	rng := rand.New(rand.NewPCG(seed, 0xC15C15))
	const margin = 10 * time.Minute
	const gap = 6 * time.Second
	insideSlack := window - margin - time.Duration(n)*gap
	insideBase := time.Duration(rapid.Int64Range(0, int64(insideSlack)).Draw(t, "insideAge"))
	aheadOfClock := rapid.IntRange(0, 3).Draw(t, "aheadOfClock") == 0
	aheadBy := time.Duration(rapid.IntRange(1, 90).Draw(t, "aheadBySec")) * time.Second
	outsideExtra := time.Duration(rapid.Int64Range(0, int64(2*window)).Draw(t, "outsideAge"))
	now := time.Now().UTC()

	chain := make([]*c15Block, n)
	var prev *c15Block
	for i := 0; i < n; i++ {
		b := &c15Block{idx: i, height: h0 + int64(i), vals: vals.set, inside: i >= cut}
		c15GenTxs(t, rng, b.height, b)
		eds, err := da.ConstructEDS(b.txs.ToSliceOfBytes(), appconsts.Version, -1)
		if err != nil {
			t.Fatalf("VERIF-INFRA: generated transactions do not form a square: %v", err)
		}
		dah, err := da.NewDataAvailabilityHeader(eds)
		if err != nil {
			t.Fatalf("VERIF-INFRA: %v", err)
		}
		b.ref = c15kit.RefMatrix(eds)
		b.roots = &dah
		b.dataHash = dah.Hash()
		b.empty = share.DataHash(b.dataHash).IsEmptyEDS()
		b.ods = len(b.ref) / 2
		age := insideBase + time.Duration(n-i)*gap
		if !b.inside {
			age = window + margin + outsideExtra + time.Duration(n-i)*gap
		}
		if aheadOfClock && i == n-1 && b.inside {
			// the newest block is stamped ahead of this node's clock (ordinary clock skew between the
			// proposer and the bridge): it is as fresh as a block can be, i.e. inside the window
			age = -aheadBy
		}
		b.hdr = types.Header{
			Version:            cmtversion.Consensus{Block: 11, App: appconsts.Version},
			ChainID:            c15ChainID,
			Height:             b.height,
			Time:               now.Add(-age),
			DataHash:           b.dataHash,
			ValidatorsHash:     vals.set.Hash(),
			NextValidatorsHash: vals.set.Hash(),
			ConsensusHash:      c15Bytes(rng, 32),
			AppHash:            c15Bytes(rng, 32),
			LastResultsHash:    c15Bytes(rng, 32),
			EvidenceHash:       tmhash.Sum(nil),
			ProposerAddress:    vals.set.Validators[i%len(vals.set.Validators)].Address,
		}
		if prev != nil {
			b.hdr.LastBlockID = prev.commit.BlockID
			b.hdr.LastCommitHash = prev.commit.Hash()
		} else {
			b.hdr.LastBlockID = types.BlockID{Hash: c15Bytes(rng, 32), PartSetHeader: types.PartSetHeader{Total: 1, Hash: c15Bytes(rng, 32)}}
			b.hdr.LastCommitHash = c15Bytes(rng, 32)
		}
		b.commit, err = vals.commit(&b.hdr, c15Bytes(rng, 32))
		if err != nil {
			t.Fatalf("VERIF-INFRA: signing the commit: %v", err)
		}
		// the generated block must be what the property calls a consistent consensus block
		hcopy := b.hdr
		eh, err := header.MakeExtendedHeader(&hcopy, b.commit, b.vals, eds)
		if err != nil {
			t.Fatalf("VERIF-INFRA: MakeExtendedHeader on the generated block: %v", err)
		}
		if err := eh.Validate(); err != nil {
			t.Fatalf("VERIF-INFRA: the generated block is not a consistent block: %v", err)
		}
		b.desc = fmt.Sprintf("h=%d inside=%v ods=%d tx=%d blobs=%v", b.height, b.inside, b.ods, b.nTx, b.blobs)
		chain[i] = b
		prev = b
	}
	return chain
}

func (b *c15Block) signed() *SignedBlock {
	h := b.hdr
	txs := make(types.Txs, len(b.txs))
	for i, tx := range b.txs {
		txs[i] = append(types.Tx(nil), tx...)
	}
	return &SignedBlock{
		Header:       &h,
		Commit:       b.commit.Clone(),
		Data:         &types.Data{Txs: txs, SquareSize: uint64(b.ods)},
		ValidatorSet: b.vals,
	}
}

// ---------------------------------------------------------------------------------------------
// scripted leaves of the fan-in and recording broadcasters

var (
	errC15Fetch = errors.New("c15: injected fetch failure")
	errC15Sync  = errors.New("c15: injected sync-status failure")
)

type c15Source struct {
	ch     chan BlockEvent
	blocks map[int64]*c15Block

	// behaviour during the current event
	failFetch, failSync, syncing bool
	// observations during the current event
	fetchCalls, syncCalls   int
	fetchFailed, syncFailed bool
}

func (s *c15Source) arm(failFetch, failSync, syncing bool) {
	*s = c15Source{ch: s.ch, blocks: s.blocks, failFetch: failFetch, failSync: failSync, syncing: syncing}
}

func (s *c15Source) SubscribeNewBlockEvent(context.Context) (chan BlockEvent, error) { return s.ch, nil }

func (s *c15Source) GetSignedBlock(_ context.Context, height int64) (*SignedBlock, error) {
	s.fetchCalls++
	if s.failFetch {
		s.fetchFailed = true
		return nil, errC15Fetch
	}
	b, ok := s.blocks[height]
	if !ok {
		s.fetchFailed = true
		return nil, fmt.Errorf("c15: height %d is not on the generated chain", height)
	}
	return b.signed(), nil
}

func (s *c15Source) ChainID(context.Context) (string, error) { return c15ChainID, nil }

func (s *c15Source) IsSyncing(context.Context) (bool, error) {
	s.syncCalls++
	if s.failSync {
		s.syncFailed = true
		return false, errC15Sync
	}
	return s.syncing, nil
}

type c15HeaderCast struct{ got []*header.ExtendedHeader }

func (c *c15HeaderCast) Broadcast(_ context.Context, h *header.ExtendedHeader, _ ...pubsub.PubOpt) error {
	c.got = append(c.got, h)
	return nil
}

type c15HashCast struct{ got []shrexsub.Notification }

func (c *c15HashCast) broadcast(_ context.Context, n shrexsub.Notification) error {
	c.got = append(c.got, n)
	return nil
}

// ---------------------------------------------------------------------------------------------
// event script

type c15Event struct {
	src     int
	hi      int // index into the chain
	fault   string
	syncing bool
	kind    string
}

var c15Faults = []string{
	"none", "none", "none", "none", "none", "none",
	"fetch", "fetch", "sync", "sync",
	"store-open0", "store-open1", "store-open2", "store-link",
}

func c15GenScript(t *rapid.T, n, nsrc int) []c15Event {
	length := rapid.IntRange(n, 3*n+4).Draw(t, "events")
	cursor := make([]int, nsrc)
	var announced []int // chain indices announced so far, in order
	var faulted []int   // chain indices whose event carried a fault
	evs := make([]c15Event, 0, length)
	for len(evs) < length {
		e := c15Event{src: rapid.IntRange(0, nsrc-1).Draw(t, "src")}
		e.kind = rapid.SampledFrom([]string{"next", "next", "next", "next", "gap", "dup", "dup", "retry", "retry", "replay", "any"}).Draw(t, "evkind")
		switch {
		case e.kind == "dup" && len(announced) > 0:
			e.hi = announced[len(announced)-1-rapid.IntRange(0, min(3, len(announced)-1)).Draw(t, "dupback")]
		case e.kind == "retry" && len(faulted) > 0:
			e.hi = faulted[len(faulted)-1-rapid.IntRange(0, min(2, len(faulted)-1)).Draw(t, "retryback")]
		case e.kind == "replay":
			e.hi = rapid.IntRange(0, min(n-1, max(0, cursor[e.src]-2))).Draw(t, "replay")
		case e.kind == "any":
			e.hi = rapid.IntRange(0, n-1).Draw(t, "anyh")
		default:
			if e.kind == "gap" {
				cursor[e.src] = min(n, cursor[e.src]+rapid.IntRange(1, 2).Draw(t, "skip"))
			} else if e.kind != "next" {
				e.kind = "next"
			}
			if cursor[e.src] >= n {
				e.kind = "any"
				e.hi = rapid.IntRange(0, n-1).Draw(t, "wrap")
			} else {
				e.hi = cursor[e.src]
				cursor[e.src]++
			}
		}
		e.fault = rapid.SampledFrom(c15Faults).Draw(t, "fault")
		e.syncing = rapid.IntRange(0, 2).Draw(t, "syncing") == 0
		if e.fault != "none" {
			faulted = append(faulted, e.hi)
		}
		announced = append(announced, e.hi)
		evs = append(evs, e)
	}
	return evs
}

// ---------------------------------------------------------------------------------------------
// the check

func c15Infra(t *rapid.T, format string, a ...any) {
	t.Helper()
	t.Fatalf("VERIF-INFRA: "+format, a...)
}

func c15ProbeOnce(t *testing.T) {
	dir, err := os.MkdirTemp("", "c15probe")
	if err != nil {
		t.Fatalf("VERIF-INFRA: %v", err)
	}
	defer os.RemoveAll(dir)
	// warm up whatever opens descriptors lazily (store, logging, time zone) before any budget is set
	_ = time.Now().Local().String()
	st, err := store.NewStore(store.DefaultParameters(), dir)
	if err != nil {
		t.Fatalf("VERIF-INFRA: NewStore: %v", err)
	}
	sq := vk.BuildSquare(2, 0, []vk.Run{{NS: vk.BlobNS(0), Start: 0, Len: 4}}, 1)
	if err := st.PutODSQ4(context.Background(), sq.Roots, 1, sq.EDS); err != nil {
		t.Fatalf("VERIF-INFRA: warm-up put: %v", err)
	}
	log.Debugw("c15 warm-up")
	_ = st.Stop(context.Background())
	if err := c15kit.ProbeOpenBudget(dir); err != nil {
		t.Fatalf("VERIF-INFRA: the descriptor-budget fault injection does not work here: %v", err)
	}
}

func TestVerifC15_Listener(t *testing.T) {
	defer vk.Flush()
	c15ProbeOnce(t)
	maxLen := 10
	if vk.Thorough() {
		maxLen = 15
	}
	rapid.Check(t, func(t *rapid.T) { c15ListenerCase(t, maxLen) })
}

func c15ListenerCase(t *rapid.T, maxLen int) {
	archival := rapid.Bool().Draw(t, "archival")
	window := rapid.SampledFrom([]time.Duration{time.Hour, availability.StorageWindow, 30 * 24 * time.Hour}).Draw(t, "window")
	nsrc := rapid.IntRange(1, 3).Draw(t, "sources")
	chain := c15GenChain(t, window, maxLen)
	script := c15GenScript(t, len(chain), nsrc)
	coordSeed := rapid.Uint64().Draw(t, "coordseed")
	crng := rand.New(rand.NewPCG(coordSeed, 0xC0085))
	pick := func(_ string, lo, hi int) int { return lo + int(crng.Uint64()%uint64(hi-lo+1)) }

	base, err := os.MkdirTemp("", "c15listener")
	if err != nil {
		c15Infra(t, "%v", err)
	}
	defer os.RemoveAll(base)
	st, err := store.NewStore(store.DefaultParameters(), base)
	if err != nil {
		c15Infra(t, "NewStore: %v", err)
	}
	heightsDir := filepath.Join(base, "blocks", "heights")
	if fi, err := os.Stat(heightsDir); err != nil || !fi.IsDir() {
		c15Infra(t, "the store's height index is not at %s", heightsDir)
	}

	ctx, cancel := context.WithCancel(context.Background())
	byHeight := map[int64]*c15Block{}
	for _, b := range chain {
		byHeight[b.height] = b
	}
	srcs := make([]*c15Source, nsrc)
	tagged := make([]taggedSource, nsrc)
	for i := range srcs {
		srcs[i] = &c15Source{ch: make(chan BlockEvent), blocks: byHeight}
		tagged[i] = taggedSource{fetcher: srcs[i], addr: fmt.Sprintf("c15-src-%d", i)}
	}
	ms := newMultiSource(tagged...)
	hcast, ncast := &c15HeaderCast{}, &c15HashCast{}
	opts := []Option{WithChainID(p2p.Network(c15ChainID)), WithAvailabilityWindow(window)}
	if archival {
		opts = append(opts, WithArchivalMode())
	}
	cl, err := NewListener(hcast, ms, ncast.broadcast, header.MakeExtendedHeader, st, time.Second, opts...)
	if err != nil {
		c15Infra(t, "NewListener: %v", err)
	}
	if err := cl.fetcher.Verify(ctx, cl.chainID); err != nil {
		c15Infra(t, "fan-in Verify: %v", err)
	}
	out, err := cl.fetcher.SubscribeNewBlockEvent(ctx)
	if err != nil {
		c15Infra(t, "fan-in Subscribe: %v", err)
	}
	// no goroutine of the fan-in outlives the case
	defer func() {
		cancel()
		deadline := time.After(60 * time.Second)
		for {
			select {
			case _, ok := <-out:
				if !ok {
					return
				}
			case <-deadline:
				c15Infra(t, "the fan-in did not shut down within 60 s of cancellation")
			}
		}
	}()

	// model
	stored := make([]bool, len(chain))
	published := make([]int, len(chain))
	everFailed := make([]bool, len(chain))
	announcedBy := make([]map[int]bool, len(chain))
	for i := range announcedBy {
		announcedBy[i] = map[int]bool{}
	}
	labels := map[string]bool{}
	var log_ strings.Builder
	maxAnnounced := -1

	for step, e := range script {
		b := chain[e.hi]
		fault := e.fault
		if fault == "store-link" && stored[e.hi] {
			// taking the height index away would hide an ingested height from the dedup gate: that is
			// an artefact of the injection, not a fault a node can meet
			fault = "none"
		}
		if everFailed[e.hi] && !stored[e.hi] {
			labels["announce-after-failure"] = true
		}
		if e.hi < maxAnnounced {
			labels["out-of-order-announcement"] = true
		}
		if e.hi > maxAnnounced+1 {
			labels["gap"] = true
		}
		maxAnnounced = max(maxAnnounced, e.hi)
		announcedBy[e.hi][e.src] = true

		for i, s := range srcs {
			if i == e.src {
				s.arm(fault == "fetch", fault == "sync", e.syncing)
			} else {
				s.arm(false, false, false)
			}
		}
		// source -> fan-in -> listener
		var ev BlockEvent
		select {
		case srcs[e.src].ch <- BlockEvent{Height: b.height}:
		case <-time.After(60 * time.Second):
			c15Infra(t, "the fan-in did not take an announcement within 60 s")
		}
		select {
		case ev = <-out:
		case <-time.After(60 * time.Second):
			c15Infra(t, "the fan-in did not forward an announcement within 60 s")
		}
		if ev.Height != b.height {
			c15Infra(t, "announced height %d, the fan-in forwarded height %d", b.height, ev.Height)
		}
		if ev.addr != tagged[e.src].addr {
			// not a statement of the property; the oracle below works from what the sources observed
			vk.Count("c15_fanin_tagged_other_source", 1)
		}

		nh, nn := len(hcast.got), len(ncast.got)
		var herr error
		var panicked any
		run := func() {
			defer func() { panicked = recover() }()
			herr = cl.handleNewBlockEvent(ctx, ev)
		}
		var ferr error
		switch fault {
		case "store-open0":
			ferr = c15kit.WithOpenBudget(0, run)
		case "store-open1":
			ferr = c15kit.WithOpenBudget(1, run)
		case "store-open2":
			ferr = c15kit.WithOpenBudget(2, run)
		case "store-link":
			ferr = c15kit.WithoutDir(heightsDir, run)
		default:
			run()
		}
		if ferr != nil {
			c15Infra(t, "fault injection %s: %v", fault, ferr)
		}
		where := fmt.Sprintf("step %d: source %d announces height %d (%s; fault %s; archival=%v; already ingested=%v)",
			step, e.src, b.height, b.desc, fault, archival, stored[e.hi])
		if panicked != nil {
			t.Fatalf("C15 %s: handleNewBlockEvent panicked on a consistent block of the right chain: %v", where, panicked)
		}
		src := srcs[e.src]
		for i, s := range srcs {
			if i != e.src && s.fetchCalls+s.syncCalls != 0 {
				vk.Count("c15_other_source_consulted", 1) // not a statement of the property
			}
		}
		newHeaders, newNotes := hcast.got[nh:], ncast.got[nn:]
		has, herr2 := st.HasByHeight(ctx, uint64(b.height))
		if herr2 != nil {
			t.Fatalf("C15 %s: HasByHeight after the event: %v", where, herr2)
		}
		fmt.Fprintf(&log_, "%d:s%d:h%d:%s:%v", step, e.src, e.hi, fault, e.syncing)

		// whatever happened: nothing but this height may be announced, and with its own data hash
		for _, h := range newHeaders {
			if h.Height() != uint64(b.height) {
				t.Fatalf("C15 %s: a header of height %d was published", where, h.Height())
			}
		}
		for _, n := range newNotes {
			if n.Height != uint64(b.height) || !bytes.Equal(n.DataHash, b.dataHash) {
				t.Fatalf("C15 %s: data hash notification (height %d, hash %X) is not this block (hash %X)",
					where, n.Height, n.DataHash, b.dataHash)
			}
		}

		switch {
		case stored[e.hi]:
			// duplicate announcement of an ingested height
			labels["duplicate-of-ingested"] = true
			if !has {
				t.Fatalf("C15 %s: the height was ingested earlier and is gone from the store after a duplicate announcement (returned %v)", where, herr)
			}
			if len(newHeaders) != 0 || len(newNotes) != 0 {
				t.Fatalf("C15 %s: an already ingested and published height was published again (%d headers, %d hash notifications)",
					where, len(newHeaders), len(newNotes))
			}
			log_.WriteString(":dup;")

		case herr != nil || src.fetchFailed || src.syncFailed:
			// failed ingest
			if herr == nil {
				t.Fatalf("C15 %s: the ingest failed (fetch error delivered=%v, sync-status error delivered=%v) but handleNewBlockEvent reported success",
					where, src.fetchFailed, src.syncFailed)
			}
			if !src.fetchFailed && !src.syncFailed && !strings.HasPrefix(fault, "store-") {
				t.Fatalf("C15 %s: the block was obtained (fetch and sync status succeeded, no store fault) but the ingest failed: %v", where, herr)
			}
			if has {
				t.Fatalf("C15 %s: the ingest failed (%v) but the height is present in the store", where, herr)
			}
			if len(newHeaders) != 0 || len(newNotes) != 0 {
				t.Fatalf("C15 %s: the ingest failed (%v) but %d header(s) and %d data hash notification(s) were published",
					where, herr, len(newHeaders), len(newNotes))
			}
			if !b.empty {
				if hb, err := st.HasByHash(ctx, b.dataHash); err != nil || hb {
					t.Fatalf("C15 %s: the ingest failed (%v) but the store holds the block by hash (HasByHash = %v, %v)", where, herr, hb, err)
				}
				if hq, err := st.HasQ4ByHash(ctx, b.dataHash); err != nil || hq {
					t.Fatalf("C15 %s: the ingest failed (%v) but the store holds the block's parity quadrant (HasQ4ByHash = %v, %v)", where, herr, hq, err)
				}
			}
			everFailed[e.hi] = true
			switch {
			case src.fetchFailed:
				labels["fault=fetch:failed"] = true
			case src.syncFailed:
				labels["fault=sync:failed"] = true
			case fault == "store-link":
				labels["fault=store-link:failed"] = true
			default:
				labels["fault=store-open:failed"] = true
			}
			log_.WriteString(":failed;")

		case !archival && !b.inside:
			// pruned node, block outside the window: never stored
			labels["outside:pruned-dropped"] = true
			if has {
				t.Fatalf("C15 %s: a pruned node stored a block that is outside its availability window", where)
			}
			if !b.empty {
				if hb, err := st.HasByHash(ctx, b.dataHash); err != nil || hb {
					t.Fatalf("C15 %s: a pruned node holds a block outside its window by hash (HasByHash = %v, %v)", where, hb, err)
				}
			}
			published[e.hi] += len(newHeaders)
			log_.WriteString(":dropped;")

		default:
			// obtained block that must be kept
			if strings.HasPrefix(fault, "store-") {
				labels["fault=store:survived"] = true
			}
			if !has {
				t.Fatalf("C15 %s: the block was obtained and the ingest reported success, but the height is not in the store", where)
			}
			if b.inside && len(newHeaders) != 1 {
				t.Fatalf("C15 %s: a block ingested inside the window must be published once, %d headers were published", where, len(newHeaders))
			}
			if len(newHeaders) > 1 || len(newNotes) > 1 {
				t.Fatalf("C15 %s: published %d headers and %d data hash notifications for one ingest", where, len(newHeaders), len(newNotes))
			}
			roots := b.roots
			if len(newHeaders) == 1 {
				eh := newHeaders[0]
				if !bytes.Equal(eh.RawHeader.Hash(), b.hdr.Hash()) {
					t.Fatalf("C15 %s: the published extended header does not carry the block's header", where)
				}
				if eh.DAH == nil || !bytes.Equal(eh.DAH.Hash(), b.hdr.DataHash) {
					t.Fatalf("C15 %s: the published data availability header does not hash to the block's data hash %X", where, []byte(b.hdr.DataHash))
				}
				if !c15kit.RootsEqual(eh.DAH, b.roots) {
					t.Fatalf("C15 %s: the published data availability header is not the one of the block's own square", where)
				}
				roots = eh.DAH
			}
			acc, err := st.GetByHeight(ctx, uint64(b.height))
			if err != nil {
				t.Fatalf("C15 %s: GetByHeight after a successful ingest: %v", where, err)
			}
			err = c15kit.ReadCheck(ctx, acc, b.ref, roots, c15kit.QuadrantCoords(len(b.ref), pick))
			acc.Close()
			if err != nil {
				t.Fatalf("C15 %s: the stored block is not the announced block: %v", where, err)
			}
			if !b.empty {
				hq, err := st.HasQ4ByHash(ctx, b.dataHash)
				if err != nil {
					t.Fatalf("C15 %s: HasQ4ByHash: %v", where, err)
				}
				if b.inside && !hq {
					t.Fatalf("C15 %s: a block inside the window was stored without its parity quadrant", where)
				}
				if !b.inside && hq {
					t.Fatalf("C15 %s: an archival node stored the parity quadrant of a block outside the window", where)
				}
			}
			stored[e.hi] = true
			published[e.hi] += len(newHeaders)
			if everFailed[e.hi] {
				labels["ingested-after-failure"] = true
			}
			if b.inside {
				labels["inside:ingested"] = true
			} else {
				labels["outside:archival-stored"] = true
			}
			if b.empty {
				labels["empty-block-ingested"] = true
			}
			if len(b.blobs) > 0 {
				labels["blob-block-ingested"] = true
			}
			if e.syncing {
				labels["ingested-while-syncing"] = true
				if len(newNotes) != 0 {
					vk.Count("c15_hash_notified_while_syncing", 1)
				}
			}
			labels[fmt.Sprintf("ods=%d", b.ods)] = true
			log_.WriteString(":ok;")
		}
		if published[e.hi] > 1 {
			t.Fatalf("C15 %s: height %d has now been published %d times over the script", where, b.height, published[e.hi])
		}
	}

	// the disk state, through a freshly opened store
	if err := st.Stop(ctx); err != nil {
		c15Infra(t, "Stop: %v", err)
	}
	st2, err := store.NewStore(store.DefaultParameters(), base)
	if err != nil {
		t.Fatalf("C15: the store does not open again after the script: %v", err)
	}
	for i, b := range chain {
		has, err := st2.HasByHeight(ctx, uint64(b.height))
		if err != nil || has != stored[i] {
			t.Fatalf("C15 end of script (reopened store): HasByHeight(%d) = %v, %v; ingested per the event outcomes: %v (%s; archival=%v)",
				b.height, has, err, stored[i], b.desc, archival)
		}
		if !stored[i] {
			if !b.empty {
				if hb, err := st2.HasByHash(ctx, b.dataHash); err != nil || hb {
					t.Fatalf("C15 end of script (reopened store): height %d was never ingested but the store holds it by hash (%v, %v)", b.height, hb, err)
				}
			}
			continue
		}
		acc, err := st2.GetByHeight(ctx, uint64(b.height))
		if err != nil {
			t.Fatalf("C15 end of script (reopened store): GetByHeight(%d): %v", b.height, err)
		}
		err = c15kit.ReadCheck(ctx, acc, b.ref, b.roots, c15kit.QuadrantCoords(len(b.ref), pick))
		acc.Close()
		if err != nil {
			t.Fatalf("C15 end of script (reopened store): height %d (%s) on disk is not the announced block: %v", b.height, b.desc, err)
		}
		if !b.empty {
			hq, err := st2.HasQ4ByHash(ctx, b.dataHash)
			if err != nil || hq != b.inside {
				t.Fatalf("C15 end of script (reopened store): parity quadrant of height %d present = %v, %v; expected %v (inside window = %v, archival = %v)",
					b.height, hq, err, b.inside, b.inside, archival)
			}
		}
	}
	_ = st2.Stop(ctx)

	// statistics
	nontrivial := false
	for i := range chain {
		if len(announcedBy[i]) >= 2 {
			labels["height-from-2+-sources"] = true
			nontrivial = true
		}
	}
	if labels["announce-after-failure"] {
		nontrivial = true
	}
	lab := []string{fmt.Sprintf("sources=%d", nsrc), fmt.Sprintf("archival=%v", archival), "window=" + window.String(),
		fmt.Sprintf("chainlen=%d", len(chain))}
	for _, k := range []string{
		"announce-after-failure", "ingested-after-failure", "height-from-2+-sources", "duplicate-of-ingested",
		"out-of-order-announcement", "gap", "fault=fetch:failed", "fault=sync:failed", "fault=store-open:failed",
		"fault=store-link:failed", "fault=store:survived", "outside:pruned-dropped", "outside:archival-stored",
		"inside:ingested", "empty-block-ingested", "blob-block-ingested", "ingested-while-syncing",
		"ods=1", "ods=2", "ods=4", "ods=8", "ods=16", "ods=32",
	} {
		if labels[k] {
			lab = append(lab, k)
		}
	}
	var desc strings.Builder
	fmt.Fprintf(&desc, "archival=%v window=%s sources=%d |", archival, window, nsrc)
	for _, b := range chain {
		fmt.Fprintf(&desc, " [%s %X]", b.desc, b.dataHash[:4])
	}
	desc.WriteString(" | ")
	desc.WriteString(log_.String())
	d := desc.String()
	vk.Record(d, lab, nontrivial, func() any { return d })
	vk.Count("c15_listener_events", int64(len(script)))
}
