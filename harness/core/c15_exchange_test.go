package core

// C15 (header-sync ingest path) — a bridge node stores exactly the block it was asked to keep.
// Harness file of /verif (injected by overlay; not part of celestia-node).
//
// The real core.Exchange (GetByHeight, Get, Head, GetRangeByHeight, storeEDS) runs over the real
// BlockFetcher (GetSignedBlock, GetBlockByHash, GetBlockInfo, Commit, ValidatorSet, the two
// part-stream receivers and partsToBlock), a real store.Store and the real
// header.MakeExtendedHeader. Only the gRPC client below the fetcher is scripted: it serves the
// generated chain as protobuf blocks cut into 64 KiB parts (the consensus node's wire form) and
// fails at drawn points (refusing the stream, on the first part, in the middle of the parts, on
// the commit or validator-set query, or by serving another block for a hash).
//
// Reference: the generated chain and a model of which heights have been ingested; the store is
// compared with the model after every request and once more through a freshly opened store.

import (
	"bytes"
	"context"
	"errors"
	"fmt"
	"io"
	"math/rand/v2"
	"os"
	"path/filepath"
	"strings"
	"sync"
	"testing"
	"time"

	tmproto "github.com/cometbft/cometbft/proto/tendermint/types"
	coregrpc "github.com/cometbft/cometbft/rpc/grpc"
	"github.com/cometbft/cometbft/types"
	"github.com/gogo/protobuf/proto"
	"google.golang.org/grpc"
	"pgregory.net/rapid"

	libhead "github.com/celestiaorg/go-header"

	"github.com/celestiaorg/celestia-node/header"
	vk "github.com/celestiaorg/celestia-node/internal/verifkit"
	"github.com/celestiaorg/celestia-node/internal/verifkit/c15kit"
	"github.com/celestiaorg/celestia-node/share"
	"github.com/celestiaorg/celestia-node/share/availability"
	"github.com/celestiaorg/celestia-node/store"
)

var errC15RPC = errors.New("c15: injected gRPC failure")

// c15Wire is the wire form of one generated block.
type c15Wire struct {
	b      *c15Block
	parts  [][]byte // the protobuf block cut into parts
	commit *tmproto.Commit
	vals   *tmproto.ValidatorSet
}

func (w *c15Wire) valsProto() *tmproto.ValidatorSet {
	vp, err := w.b.vals.ToProto()
	if err != nil {
		panic("VERIF-INFRA: validator set to proto: " + err.Error())
	}
	return vp
}

func c15MakeWire(b, prev *c15Block) (*c15Wire, error) {
	pb := &tmproto.Block{Header: *b.hdr.ToProto()}
	txs := make([][]byte, len(b.txs))
	for i, tx := range b.txs {
		txs[i] = append([]byte(nil), tx...)
	}
	pb.Data = tmproto.Data{Txs: txs, SquareSize: uint64(b.ods), Hash: append([]byte(nil), b.dataHash...)}
	pb.LastCommit = prev.commit.ToProto()
	bz, err := proto.Marshal(pb)
	if err != nil {
		return nil, err
	}
	// the block must be what the consensus node would serve: it has to survive the decoder's
	// own validation (header, last commit, data hash, evidence hash)
	back := new(tmproto.Block)
	if err := proto.Unmarshal(bz, back); err != nil {
		return nil, err
	}
	if _, err := types.BlockFromProto(back); err != nil {
		return nil, fmt.Errorf("generated block does not pass BlockFromProto: %w", err)
	}
	w := &c15Wire{b: b, commit: b.commit.ToProto()}
	for off := 0; off < len(bz); off += int(types.BlockPartSizeBytes) {
		w.parts = append(w.parts, bz[off:min(off+int(types.BlockPartSizeBytes), len(bz))])
	}
	vp, err := b.vals.ToProto()
	if err != nil {
		return nil, err
	}
	w.vals = vp
	return w, nil
}

// c15API is the scripted consensus endpoint.
type c15API struct {
	mu       sync.Mutex
	byHeight map[int64]*c15Wire
	byHash   map[string]*c15Wire
	latest   int64
	// faults armed for the next request touching a height (consumed when hit)
	fault map[int64]string
	// what was delivered
	fetchFailed map[int64]bool
	served      map[int64]int
	swapHash    map[string]int64 // serve the block of this height for the hash
}

func (a *c15API) arm(h int64, f string) {
	a.mu.Lock()
	defer a.mu.Unlock()
	if f == "" || f == "none" {
		delete(a.fault, h)
		return
	}
	a.fault[h] = f
}

func (a *c15API) take(h int64, kinds ...string) string {
	f := a.fault[h]
	for _, k := range kinds {
		if f == k {
			delete(a.fault, h)
			a.fetchFailed[h] = true
			return f
		}
	}
	return ""
}

type c15PartStream struct {
	grpc.ClientStream
	w      *c15Wire
	failAt int // Recv number that fails (-1: none)
	i      int
}

func (s *c15PartStream) next() (*tmproto.Part, bool, error) {
	if s.i == s.failAt {
		return nil, false, errC15RPC
	}
	if s.i >= len(s.w.parts) {
		return nil, false, io.EOF
	}
	p := &tmproto.Part{Index: uint32(s.i), Bytes: append([]byte(nil), s.w.parts[s.i]...)}
	s.i++
	return p, s.i == len(s.w.parts), nil
}

type c15HeightStream struct{ c15PartStream }

func (s *c15HeightStream) Recv() (*coregrpc.BlockByHeightResponse, error) {
	first := s.i == 0
	p, last, err := s.next()
	if err != nil {
		return nil, err
	}
	r := &coregrpc.BlockByHeightResponse{BlockPart: p, IsLast: last}
	if first {
		r.Commit = s.w.b.commit.ToProto()
		r.ValidatorSet = s.w.valsProto()
	}
	return r, nil
}

type c15HashStream struct{ c15PartStream }

func (s *c15HashStream) Recv() (*coregrpc.BlockByHashResponse, error) {
	p, last, err := s.next()
	if err != nil {
		return nil, err
	}
	return &coregrpc.BlockByHashResponse{BlockPart: p, IsLast: last}, nil
}

func (a *c15API) stream(w *c15Wire) (c15PartStream, error) {
	h := w.b.height
	switch a.take(h, "open", "first", "mid") {
	case "open":
		return c15PartStream{}, errC15RPC
	case "first":
		return c15PartStream{w: w, failAt: 0}, nil
	case "mid":
		// a block of a single part has no middle: the stream breaks before its only part
		return c15PartStream{w: w, failAt: len(w.parts) / 2}, nil
	}
	a.served[h]++
	return c15PartStream{w: w, failAt: -1}, nil
}

func (a *c15API) BlockByHeight(_ context.Context, in *coregrpc.BlockByHeightRequest, _ ...grpc.CallOption) (coregrpc.BlockAPI_BlockByHeightClient, error) {
	a.mu.Lock()
	defer a.mu.Unlock()
	h := in.Height
	if h == 0 {
		h = a.latest
	}
	w, ok := a.byHeight[h]
	if !ok {
		return nil, fmt.Errorf("c15: height %d is not available", h)
	}
	ps, err := a.stream(w)
	if err != nil {
		return nil, err
	}
	return &c15HeightStream{ps}, nil
}

func (a *c15API) BlockByHash(_ context.Context, in *coregrpc.BlockByHashRequest, _ ...grpc.CallOption) (coregrpc.BlockAPI_BlockByHashClient, error) {
	a.mu.Lock()
	defer a.mu.Unlock()
	w, ok := a.byHash[string(in.Hash)]
	if h, swapped := a.swapHash[string(in.Hash)]; swapped {
		delete(a.swapHash, string(in.Hash))
		w, ok = a.byHeight[h], true
	}
	if !ok {
		return nil, fmt.Errorf("c15: no block with hash %X", in.Hash)
	}
	ps, err := a.stream(w)
	if err != nil {
		return nil, err
	}
	return &c15HashStream{ps}, nil
}

func (a *c15API) Commit(_ context.Context, in *coregrpc.CommitRequest, _ ...grpc.CallOption) (*coregrpc.CommitResponse, error) {
	a.mu.Lock()
	defer a.mu.Unlock()
	h := in.Height
	if h == 0 {
		h = a.latest
	}
	w, ok := a.byHeight[h]
	if !ok {
		return nil, fmt.Errorf("c15: height %d is not available", h)
	}
	if a.take(h, "commitrpc") != "" {
		return nil, errC15RPC
	}
	return &coregrpc.CommitResponse{Commit: w.b.commit.ToProto()}, nil
}

func (a *c15API) ValidatorSet(_ context.Context, in *coregrpc.ValidatorSetRequest, _ ...grpc.CallOption) (*coregrpc.ValidatorSetResponse, error) {
	a.mu.Lock()
	defer a.mu.Unlock()
	h := in.Height
	if h == 0 {
		h = a.latest
	}
	w, ok := a.byHeight[h]
	if !ok {
		return nil, fmt.Errorf("c15: height %d is not available", h)
	}
	if a.take(h, "valsetrpc") != "" {
		return nil, errC15RPC
	}
	return &coregrpc.ValidatorSetResponse{ValidatorSet: w.valsProto(), Height: h}, nil
}

func (a *c15API) SubscribeNewHeights(context.Context, *coregrpc.SubscribeNewHeightsRequest, ...grpc.CallOption) (coregrpc.BlockAPI_SubscribeNewHeightsClient, error) {
	return nil, errors.New("c15: not scripted")
}

func (a *c15API) Status(context.Context, *coregrpc.StatusRequest, ...grpc.CallOption) (*coregrpc.StatusResponse, error) {
	return nil, errors.New("c15: not scripted")
}

// c15P2P is the header-only fallback the exchange may be configured with.
type c15P2P struct {
	byHeight map[int64]*c15Block
	byHash   map[string]*c15Block
	latest   int64
	calls    int
}

func (p *c15P2P) eh(b *c15Block) (*header.ExtendedHeader, error) {
	if b == nil {
		return nil, errors.New("c15: header not found")
	}
	h := b.hdr
	return &header.ExtendedHeader{RawHeader: h, DAH: b.roots, Commit: b.commit.Clone(), ValidatorSet: b.vals}, nil
}

func (p *c15P2P) Head(context.Context, ...libhead.HeadOption[*header.ExtendedHeader]) (*header.ExtendedHeader, error) {
	p.calls++
	return p.eh(p.byHeight[p.latest])
}

func (p *c15P2P) Get(_ context.Context, hash libhead.Hash) (*header.ExtendedHeader, error) {
	p.calls++
	return p.eh(p.byHash[string(hash)])
}

func (p *c15P2P) GetByHeight(_ context.Context, h uint64) (*header.ExtendedHeader, error) {
	p.calls++
	return p.eh(p.byHeight[int64(h)])
}

func (p *c15P2P) GetRangeByHeight(context.Context, *header.ExtendedHeader, uint64) ([]*header.ExtendedHeader, error) {
	return nil, errors.New("c15: not scripted")
}

func TestVerifC15_Exchange(t *testing.T) {
	defer vk.Flush()
	c15ProbeOnce(t)
	maxLen := 9
	if vk.Thorough() {
		maxLen = 14
	}
	rapid.Check(t, func(t *rapid.T) { c15ExchangeCase(t, maxLen) })
}

func c15ExchangeCase(t *rapid.T, maxLen int) {
	archival := rapid.Bool().Draw(t, "archival")
	fallback := rapid.IntRange(0, 3).Draw(t, "fallback") == 0
	window := rapid.SampledFrom([]time.Duration{time.Hour, availability.StorageWindow, 30 * 24 * time.Hour}).Draw(t, "window")
	full := c15GenChain(t, window, maxLen+1)
	chain := full[1:] // full[0] only supplies the last commit and the trusted header of range requests
	n := len(chain)
	coordSeed := rapid.Uint64().Draw(t, "coordseed")
	crng := rand.New(rand.NewPCG(coordSeed, 0xE8C4))
	pick := func(_ string, lo, hi int) int { return lo + int(crng.Uint64()%uint64(hi-lo+1)) }

	api := &c15API{byHeight: map[int64]*c15Wire{}, byHash: map[string]*c15Wire{}, fault: map[int64]string{},
		fetchFailed: map[int64]bool{}, served: map[int64]int{}, swapHash: map[string]int64{}}
	p2p := &c15P2P{byHeight: map[int64]*c15Block{}, byHash: map[string]*c15Block{}}
	multipart := false
	for i, b := range chain {
		w, err := c15MakeWire(b, full[i])
		if err != nil {
			c15Infra(t, "wire form of %s: %v", b.desc, err)
		}
		if len(w.parts) > 1 {
			multipart = true
		}
		api.byHeight[b.height] = w
		api.byHash[string(b.hdr.Hash())] = w
		p2p.byHeight[b.height] = b
		p2p.byHash[string(b.hdr.Hash())] = b
	}

	base, err := os.MkdirTemp("", "c15exchange")
	if err != nil {
		c15Infra(t, "%v", err)
	}
	defer os.RemoveAll(base)
	st, err := store.NewStore(store.DefaultParameters(), base)
	if err != nil {
		c15Infra(t, "NewStore: %v", err)
	}
	heightsDir := filepath.Join(base, "blocks", "heights")
	opts := []Option{WithAvailabilityWindow(window)}
	if archival {
		opts = append(opts, WithArchivalMode())
	}
	ex, err := NewExchange(&BlockFetcher{client: api, addr: "c15-endpoint"}, st, header.MakeExtendedHeader, opts...)
	if err != nil {
		c15Infra(t, "NewExchange: %v", err)
	}
	if fallback {
		ex.p2pExchange = p2p
	}
	ctx := context.Background()

	stored := make([]bool, n)
	everFailed := make([]bool, n)
	labels := map[string]bool{}
	nontrivial := false
	var log_ strings.Builder

	keep := func(b *c15Block) bool { return archival || b.inside }
	aheadOfClock := func(b *c15Block) bool { return b.hdr.Time.After(time.Now().Add(-2 * time.Second)) }

	// judgeHeader: the header handed back for block b is the block's header with the block's own roots
	judgeHeader := func(where string, eh *header.ExtendedHeader, b *c15Block) {
		if eh == nil {
			t.Fatalf("C15 %s: nil header returned without an error", where)
		}
		if !bytes.Equal(eh.RawHeader.Hash(), b.hdr.Hash()) {
			t.Fatalf("C15 %s: the returned extended header (height %d) is not the header of the requested block %s", where, eh.Height(), b.desc)
		}
		if eh.DAH == nil || !bytes.Equal(eh.DAH.Hash(), b.hdr.DataHash) || !c15kit.RootsEqual(eh.DAH, b.roots) {
			t.Fatalf("C15 %s: the returned data availability header is not the one of the block's own square", where)
		}
		if eh.Commit == nil || eh.Commit.Height != b.height || !bytes.Equal(eh.Commit.BlockID.Hash, b.hdr.Hash()) {
			t.Fatalf("C15 %s: the returned commit is not the commit of the requested block", where)
		}
		if eh.ValidatorSet == nil || !bytes.Equal(eh.ValidatorSet.Hash(), b.hdr.ValidatorsHash) {
			t.Fatalf("C15 %s: the returned validator set is not the one the header commits to", where)
		}
	}
	// judgeAbsent: nothing of block i is in the store (it was never ingested)
	judgeAbsent := func(where string, i int) {
		b := chain[i]
		has, err := st.HasByHeight(ctx, uint64(b.height))
		if err != nil {
			t.Fatalf("C15 %s: HasByHeight(%d): %v", where, b.height, err)
		}
		if has {
			t.Fatalf("C15 %s: height %d is present in the store although no ingest of it succeeded", where, b.height)
		}
		if !b.empty {
			if hb, err := st.HasByHash(ctx, b.dataHash); err != nil || hb {
				t.Fatalf("C15 %s: the store holds block %d by hash although no ingest of it succeeded (HasByHash = %v, %v)", where, b.height, hb, err)
			}
			if hq, err := st.HasQ4ByHash(ctx, b.dataHash); err != nil || hq {
				t.Fatalf("C15 %s: the store holds the parity quadrant of block %d although no ingest of it succeeded (%v, %v)", where, b.height, hq, err)
			}
		}
	}
	// judgeStored: block i is in the store, is the block, and has the quadrants the policy demands
	judgeStored := func(where string, s *store.Store, i int, roots *share.AxisRoots) {
		b := chain[i]
		has, err := s.HasByHeight(ctx, uint64(b.height))
		if err != nil || !has {
			t.Fatalf("C15 %s: block %s was obtained and must be kept (archival=%v), HasByHeight = %v, %v", where, b.desc, archival, has, err)
		}
		acc, err := s.GetByHeight(ctx, uint64(b.height))
		if err != nil {
			t.Fatalf("C15 %s: GetByHeight(%d): %v", where, b.height, err)
		}
		r := b.roots
		if roots != nil {
			r = roots
		}
		err = c15kit.ReadCheck(ctx, acc, b.ref, r, c15kit.QuadrantCoords(len(b.ref), pick))
		acc.Close()
		if err != nil {
			t.Fatalf("C15 %s: the square stored under height %d is not the block's square: %v", where, b.height, err)
		}
		if !b.empty {
			hq, err := s.HasQ4ByHash(ctx, b.dataHash)
			if err != nil {
				t.Fatalf("C15 %s: HasQ4ByHash: %v", where, err)
			}
			if b.inside && !hq {
				t.Fatalf("C15 %s: block %d inside the window is stored without its parity quadrant", where, b.height)
			}
			if !b.inside && hq {
				t.Fatalf("C15 %s: an archival node stored the parity quadrant of block %d outside the window", where, b.height)
			}
		}
	}
	// after: the store agrees with the model for block i after a request that did (ok) or did not obtain it
	after := func(where string, i int, obtained bool, eh *header.ExtendedHeader) {
		b := chain[i]
		switch {
		case obtained && keep(b):
			var r *share.AxisRoots
			if eh != nil {
				r = eh.DAH
			}
			judgeStored(where, st, i, r)
			if !stored[i] && everFailed[i] {
				labels["ingested-after-failure"] = true
				nontrivial = true
			}
			if stored[i] {
				labels["re-request-of-ingested"] = true
			}
			stored[i] = true
			if b.inside {
				labels["inside:ingested"] = true
			} else {
				labels["outside:archival-stored"] = true
			}
			if b.empty {
				labels["empty-block-ingested"] = true
			}
		case stored[i]:
			judgeStored(where, st, i, nil)
		default:
			judgeAbsent(where, i)
			if obtained {
				labels["outside:pruned-dropped"] = true
			}
		}
	}

	steps := rapid.IntRange(n, 2*n+4).Draw(t, "steps")
	for step := 0; step < steps; step++ {
		op := rapid.SampledFrom([]string{"height", "height", "hash", "hash", "head", "range", "range", "range"}).Draw(t, "op")
		switch op {
		case "height", "hash", "head":
			i := rapid.IntRange(0, n-1).Draw(t, "block")
			if op == "height" || op == "hash" {
				// prefer a height that failed before (the retry the property speaks of)
				var failed []int
				for k := range chain {
					if everFailed[k] && !stored[k] {
						failed = append(failed, k)
					}
				}
				if len(failed) > 0 && rapid.Bool().Draw(t, "retryFailed") {
					i = rapid.SampledFrom(failed).Draw(t, "failedBlock")
				}
			}
			b := chain[i]
			kinds := []string{"none", "none", "none", "open", "first", "mid", "store-open0", "store-open1", "store-open2", "store-link", "cancelled"}
			if op == "hash" {
				kinds = append(kinds, "commitrpc", "valsetrpc", "unknown-hash", "other-block")
			}
			fault := rapid.SampledFrom(kinds).Draw(t, "fault")
			if fault == "store-link" && stored[i] {
				fault = "none"
			}
			if op == "head" {
				api.latest, p2p.latest = b.height, b.height
			}
			hash := libhead.Hash(b.hdr.Hash())
			switch fault {
			case "open", "first", "mid", "commitrpc", "valsetrpc":
				api.arm(b.height, fault)
			case "unknown-hash":
				hash = libhead.Hash(c15Bytes(crng, 32))
			case "other-block":
				o := chain[(i+1)%n]
				if o == b {
					fault = "none"
				} else {
					api.swapHash[string(hash)] = o.height
				}
			}
			cctx := ctx
			if fault == "cancelled" {
				var cancel context.CancelFunc
				cctx, cancel = context.WithCancel(ctx)
				cancel()
			}
			p2pBefore := p2p.calls
			var eh *header.ExtendedHeader
			var herr error
			var panicked any
			run := func() {
				defer func() { panicked = recover() }()
				switch op {
				case "height":
					eh, herr = ex.GetByHeight(cctx, uint64(b.height))
				case "hash":
					eh, herr = ex.Get(cctx, hash)
				case "head":
					eh, herr = ex.Head(cctx)
				}
			}
			var ferr error
			switch fault {
			case "store-open0":
				ferr = c15kit.WithOpenBudget(0, run)
			case "store-open1":
				ferr = c15kit.WithOpenBudget(1, run)
			case "store-open2":
				ferr = c15kit.WithOpenBudget(2, run)
			case "store-link":
				ferr = c15kit.WithoutDir(heightsDir, run)
			default:
				run()
			}
			if ferr != nil {
				c15Infra(t, "fault injection %s: %v", fault, ferr)
			}
			api.arm(b.height, "none")
			delete(api.swapHash, string(hash))
			where := fmt.Sprintf("step %d: %s request for %s (fault %s; archival=%v; fallback=%v; already ingested=%v)",
				step, op, b.desc, fault, archival, fallback, stored[i])
			if panicked != nil {
				t.Fatalf("C15 %s: the exchange panicked on a consistent block: %v", where, panicked)
			}
			fmt.Fprintf(&log_, "%d:%s:h%d:%s", step, op, i, fault)
			labels["op="+op] = true
			rpcFault := fault == "open" || fault == "first" || fault == "mid" || fault == "commitrpc" || fault == "valsetrpc" ||
				fault == "unknown-hash" || fault == "other-block"
			usedFallback := p2p.calls != p2pBefore
			dropExempt := func() {
				// a reported store failure while re-ingesting a height that is already kept: the store's
				// recovery path reads an unreadable file as a corrupted one, drops it and cannot write
				// it again. Nothing wrong is left behind, which is all the property asks of a failed
				// ingest; whether the earlier copy survives is not judged.
				if !stored[i] || !strings.HasPrefix(fault, "store-") {
					return
				}
				has, err := st.HasByHeight(ctx, uint64(b.height))
				if err != nil {
					t.Fatalf("C15 %s: HasByHeight: %v", where, err)
				}
				if !has {
					vk.Count("c15_exchange_failed_reingest_dropped_kept_block", 1)
					stored[i] = false
				}
			}
			switch {
			case usedFallback:
				// header-only fallback (any failure below the exchange, for Head also a store failure):
				// the header comes from the network, nothing is ingested - by design, the square is left
				// to the sampling component
				labels["fallback:header-only"] = true
				if !rpcFault && !strings.HasPrefix(fault, "store-") && fault != "cancelled" {
					t.Fatalf("C15 %s: the block was served completely and nothing was injected, but the exchange fell back to the network", where)
				}
				if herr == nil {
					judgeHeader(where, eh, b)
				}
				dropExempt()
				after(where, i, false, nil)
				if !stored[i] {
					everFailed[i] = true
				}
				log_.WriteString(":fallback;")
			case rpcFault:
				if herr == nil {
					t.Fatalf("C15 %s: the block could not be obtained (injected failure) but the request reported success", where)
				}
				after(where, i, false, nil)
				if fault == "other-block" {
					// the block served in its place was not asked for under this hash; it is a consistent
					// block, so whether it was kept under its own height is not judged here
					o := (i + 1) % n
					if has, _ := st.HasByHeight(ctx, uint64(chain[o].height)); has && !stored[o] {
						if keep(chain[o]) {
							judgeStored(where+" [block served in place of the requested one]", st, o, nil)
							stored[o] = true
						}
					}
				}
				if !stored[i] {
					everFailed[i] = true
				}
				labels["fault="+fault+":failed"] = true
				log_.WriteString(":failed;")
			case herr != nil:
				if !strings.HasPrefix(fault, "store-") && fault != "cancelled" {
					t.Fatalf("C15 %s: the block was served completely and nothing was injected, but the request failed: %v", where, herr)
				}
				dropExempt()
				after(where, i, false, nil)
				if !stored[i] {
					everFailed[i] = true
				}
				if strings.HasPrefix(fault, "store-") {
					labels["fault=store:failed"] = true
				} else {
					labels["fault=cancelled:failed"] = true
				}
				log_.WriteString(":failed;")
			default:
				judgeHeader(where, eh, b)
				after(where, i, true, eh)
				if strings.HasPrefix(fault, "store-") {
					labels["fault=store:survived"] = true
				}
				log_.WriteString(":ok;")
			}

		case "range":
			// trusted header = block a-1 (a == 0: the predecessor that is never served), heights a..e-1
			a := rapid.IntRange(0, n-1).Draw(t, "rangeFrom")
			e := rapid.IntRange(a, n).Draw(t, "rangeTo")
			fromB := full[a]
			from, _ := p2p.eh(fromB)
			faults := make([]string, n)
			firstFault := -1
			for k := a; k < e; k++ {
				if rapid.IntRange(0, 5).Draw(t, "rangeFaultHere") == 0 {
					faults[k] = rapid.SampledFrom([]string{"open", "first", "mid"}).Draw(t, "rangeFault")
					api.arm(chain[k].height, faults[k])
					if firstFault < 0 {
						firstFault = k
					}
				}
			}
			var hs []*header.ExtendedHeader
			var herr error
			var panicked any
			func() {
				defer func() { panicked = recover() }()
				hs, herr = ex.GetRangeByHeight(ctx, from, uint64(full[e].height)+1)
			}()
			for k := a; k < e; k++ {
				api.arm(chain[k].height, "none")
			}
			where := fmt.Sprintf("step %d: range request (%d, %d) after %s, faults %v (archival=%v; fallback=%v)",
				step, fromB.height, full[e].height+1, fromB.desc, faults[a:e], archival, fallback)
			if panicked != nil {
				t.Fatalf("C15 %s: the exchange panicked on consistent blocks: %v", where, panicked)
			}
			fmt.Fprintf(&log_, "%d:range:%d-%d:%v", step, a, e, faults[a:e])
			labels["op=range"] = true
			if e-a >= 2 {
				labels["range>=2"] = true
			}
			ahead := false
			for k := a; k < e; k++ {
				ahead = ahead || aheadOfClock(chain[k])
			}
			want := e - a
			if firstFault >= 0 && !fallback {
				want = firstFault - a
			}
			switch {
			case herr != nil:
				if !(firstFault == a && !fallback) && !ahead {
					if firstFault < 0 || fallback {
						t.Fatalf("C15 %s: every block was served and links to its predecessor, but the range request failed: %v", where, herr)
					}
					t.Fatalf("C15 %s: the blocks before the first failing height were obtained, but the range request failed as a whole: %v", where, herr)
				}
				hs = nil
			case firstFault == a && !fallback:
				t.Fatalf("C15 %s: the first block of the range could not be obtained, but the request reported success (%d headers)", where, len(hs))
			case len(hs) != want:
				t.Fatalf("C15 %s: %d headers returned, the contiguous run of obtained blocks has %d", where, len(hs), want)
			}
			for k, eh := range hs {
				judgeHeader(where, eh, chain[a+k])
			}
			for k := a; k < e; k++ {
				w2 := fmt.Sprintf("%s, height %d", where, chain[k].height)
				switch {
				case faults[k] != "":
					after(w2, k, false, nil)
					if !stored[k] {
						everFailed[k] = true
					}
					labels["range:fault="+faults[k]] = true
				case k-a < len(hs):
					// handed to the syncer: must have been ingested
					after(w2, k, true, hs[k-a])
				default:
					// fetched concurrently behind a failing height (or not at all): kept iff present
					has, err := st.HasByHeight(ctx, uint64(chain[k].height))
					if err != nil {
						t.Fatalf("C15 %s: HasByHeight: %v", w2, err)
					}
					after(w2, k, (has || stored[k]) && keep(chain[k]), nil)
					labels["range:behind-failure"] = true
				}
			}
			if firstFault > a && !fallback {
				labels["range:prefix-before-failure"] = true
				nontrivial = true
			}
			log_.WriteString(";")
		}
	}

	// the disk state, through a freshly opened store
	if err := st.Stop(ctx); err != nil {
		c15Infra(t, "Stop: %v", err)
	}
	st2, err := store.NewStore(store.DefaultParameters(), base)
	if err != nil {
		t.Fatalf("C15: the store does not open again after the script: %v", err)
	}
	for i, b := range chain {
		has, err := st2.HasByHeight(ctx, uint64(b.height))
		if err != nil || has != stored[i] {
			t.Fatalf("C15 end of script (reopened store): HasByHeight(%d) = %v, %v; ingested per the request outcomes: %v (%s; archival=%v)",
				b.height, has, err, stored[i], b.desc, archival)
		}
		if stored[i] {
			judgeStored("end of script (reopened store)", st2, i, nil)
		} else if !b.empty {
			if hb, err := st2.HasByHash(ctx, b.dataHash); err != nil || hb {
				t.Fatalf("C15 end of script (reopened store): height %d was never ingested but the store holds it by hash (%v, %v)", b.height, hb, err)
			}
		}
	}
	_ = st2.Stop(ctx)

	lab := []string{"exchange", fmt.Sprintf("archival=%v", archival), fmt.Sprintf("fallback=%v", fallback), "window=" + window.String()}
	if multipart {
		lab = append(lab, "multi-part-block")
	}
	for k := range labels {
		lab = append(lab, "ex:"+k)
	}
	sortStrings(lab)
	var desc strings.Builder
	fmt.Fprintf(&desc, "exchange archival=%v fallback=%v window=%s |", archival, fallback, window)
	for _, b := range chain {
		fmt.Fprintf(&desc, " [%s %X]", b.desc, b.dataHash[:4])
	}
	desc.WriteString(" | ")
	desc.WriteString(log_.String())
	d := desc.String()
	vk.Record(d, lab, nontrivial, func() any { return d })
	vk.Count("c15_exchange_requests", int64(steps))
}

func sortStrings(s []string) {
	for i := 1; i < len(s); i++ {
		for j := i; j > 0 && s[j] < s[j-1]; j-- {
			s[j], s[j-1] = s[j-1], s[j]
		}
	}
}
