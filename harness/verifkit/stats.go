// Package verifkit is the shared helper package of the /verif harnesses. It is not part of
// celestia-node: the driver (/verif/bin/check) injects it as an overlay-only package at
// <repo>/internal/verifkit when it builds a harness test binary.
package verifkit

import (
	"encoding/binary"
	"encoding/json"
	"fmt"
	"hash/fnv"
	"os"
	"sort"
	"strings"
	"sync"
)

// Stats collects, per test binary run (= one shard), what the generators actually produced.
// It is written to the file named by VERIF_STATS (JSON) plus a binary side file
// VERIF_STATS+".hashes" (8 bytes per distinct non-trivial case) so the driver can count
// distinct non-trivial cases across shards without trusting any derived number.
type stats struct {
	mu          sync.Mutex
	evaluations int64
	nontrivial  int64
	hashes      map[uint64]struct{}
	labels      map[string]int64
	samples     map[string][]any // first K samples per label class
	counters    map[string]int64
	notes       []string
	findings    map[string]string // known-finding signature -> witness description (still present)
	excluded    map[string]int64  // known-finding signature -> number of generated cases excluded
}

var st = &stats{
	hashes:   map[uint64]struct{}{},
	labels:   map[string]int64{},
	samples:  map[string][]any{},
	counters: map[string]int64{},
	findings: map[string]string{},
	excluded: map[string]int64{},
}

const samplesPerClass = 2

// Hash64 is the canonical case hash.
func Hash64(parts ...any) uint64 {
	h := fnv.New64a()
	for _, p := range parts {
		switch v := p.(type) {
		case []byte:
			var l [8]byte
			binary.LittleEndian.PutUint64(l[:], uint64(len(v)))
			h.Write(l[:])
			h.Write(v)
		case string:
			var l [8]byte
			binary.LittleEndian.PutUint64(l[:], uint64(len(v)))
			h.Write(l[:])
			h.Write([]byte(v))
		default:
			fmt.Fprintf(h, "|%v", v)
		}
	}
	return h.Sum64()
}

// Record registers one generated case. desc is a canonical description of the case (what was
// drawn); labels are class labels ("k=v"); sample is only evaluated for the first few cases of
// each class.
func Record(desc string, labels []string, nontrivial bool, sample func() any) {
	RecordHash(Hash64(desc), labels, nontrivial, sample)
}

// RecordHash is Record with a pre-computed case hash.
func RecordHash(h uint64, labels []string, nontrivial bool, sample func() any) {
	st.mu.Lock()
	defer st.mu.Unlock()
	st.evaluations++
	if nontrivial {
		st.nontrivial++
		st.hashes[h] = struct{}{}
	}
	for _, l := range labels {
		st.labels[l]++
	}
	if sample != nil {
		key := "trivial"
		if nontrivial {
			key = "nontrivial"
		}
		if len(labels) > 0 {
			key += ":" + labels[0]
		}
		if len(st.samples[key]) < samplesPerClass {
			st.samples[key] = append(st.samples[key], sample())
		}
	}
}

// Count adds to a free-form counter (e.g. "crash_states", "accessors_opened").
func Count(name string, n int64) {
	st.mu.Lock()
	st.counters[name] += n
	st.mu.Unlock()
}

// Note appends a free-text note to the shard's statistics.
func Note(format string, a ...any) {
	st.mu.Lock()
	if len(st.notes) < 50 {
		st.notes = append(st.notes, fmt.Sprintf(format, a...))
	}
	st.mu.Unlock()
}

// FindingPresent reports that the fixed witness of a known finding still fails on this tree.
func FindingPresent(signature, what string) {
	st.mu.Lock()
	st.findings[signature] = what
	st.mu.Unlock()
}

// Excluded counts a generated case that was excluded by construction because it has the shape of
// a known finding.
func Excluded(signature string) {
	st.mu.Lock()
	st.excluded[signature]++
	st.mu.Unlock()
}

// KnownOpen returns true when signature is listed as an open known finding (passed by the driver
// in VERIF_KNOWN_OPEN, comma separated).
func KnownOpen(signature string) bool {
	for _, s := range strings.Split(os.Getenv("VERIF_KNOWN_OPEN"), ",") {
		if s == signature {
			return true
		}
	}
	return false
}

// Flush writes the statistics file. Call it with defer from every harness Test function.
func Flush() {
	path := os.Getenv("VERIF_STATS")
	if path == "" {
		return
	}
	st.mu.Lock()
	defer st.mu.Unlock()
	type out struct {
		Evaluations int64             `json:"evaluations"`
		NonTrivial  int64             `json:"nontrivial"`
		Distinct    int               `json:"distinct_nontrivial_shard"`
		Labels      map[string]int64  `json:"labels"`
		Counters    map[string]int64  `json:"counters"`
		Samples     map[string][]any  `json:"samples"`
		Notes       []string          `json:"notes"`
		Findings    map[string]string `json:"findings"`
		Excluded    map[string]int64  `json:"excluded"`
	}
	o := out{
		Evaluations: st.evaluations, NonTrivial: st.nontrivial, Distinct: len(st.hashes),
		Labels: st.labels, Counters: st.counters, Samples: st.samples, Notes: st.notes,
		Findings: st.findings, Excluded: st.excluded,
	}
	data, err := json.Marshal(o)
	if err != nil {
		// a sample that cannot be marshalled must not lose the counts
		o.Samples = map[string][]any{"error": {err.Error()}}
		data, _ = json.Marshal(o)
	}
	_ = os.WriteFile(path, data, 0o644)

	hs := make([]uint64, 0, len(st.hashes))
	for h := range st.hashes {
		hs = append(hs, h)
	}
	sort.Slice(hs, func(i, j int) bool { return hs[i] < hs[j] })
	buf := make([]byte, 8*len(hs))
	for i, h := range hs {
		binary.LittleEndian.PutUint64(buf[8*i:], h)
	}
	_ = os.WriteFile(path+".hashes", buf, 0o644)
}

// Tier returns "quick" or "thorough" (VERIF_TIER).
func Tier() string {
	if os.Getenv("VERIF_TIER") == "thorough" {
		return "thorough"
	}
	return "quick"
}

// Thorough reports whether the thorough tier is running.
func Thorough() bool { return Tier() == "thorough" }
