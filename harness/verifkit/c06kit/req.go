package c06kit

import (
	"bytes"
	"context"
	"fmt"
	"runtime/debug"
	"strings"
	"time"

	libshare "github.com/celestiaorg/go-square/v4/share"
	"github.com/celestiaorg/rsmt2d"
	"pgregory.net/rapid"

	"github.com/celestiaorg/celestia-node/header"
	vk "github.com/celestiaorg/celestia-node/internal/verifkit"
	"github.com/celestiaorg/celestia-node/share/availability"
	"github.com/celestiaorg/celestia-node/share/shwap"
)

// Req is one generated retrieval request against a square.
type Req struct {
	Kind    string // samples | row | eds | nd | range
	Coords  []shwap.SampleCoords
	Row     int
	NS      libshare.Namespace
	NSClass string // present | absent-in-range | outside
	From    int
	To      int
}

// ODSChoices lists the ODS widths the C06 harnesses draw from.
func ODSChoices() []int {
	if vk.Thorough() {
		return []int{1, 2, 2, 4, 4, 8, 8, 16}
	}
	return []int{1, 2, 2, 4, 4, 8}
}

// GenReq draws a request of the given kind ("" = any) against sq.
func GenReq(t *rapid.T, sq *vk.Square, kind string) Req {
	w := sq.Width()
	if kind == "" {
		kind = rapid.SampledFrom([]string{"samples", "samples", "row", "eds", "nd", "range", "range"}).Draw(t, "reqkind")
	}
	switch kind {
	case "samples":
		n := rapid.IntRange(1, 16).Draw(t, "ncoords")
		if rapid.IntRange(0, 2).Draw(t, "fewcoords") == 0 {
			n = rapid.IntRange(1, 2).Draw(t, "ncoords.small")
		}
		seen := map[int]bool{}
		var coords []shwap.SampleCoords
		for i := 0; i < n; i++ {
			idx := rapid.IntRange(0, w*w-1).Draw(t, "coord")
			if seen[idx] {
				continue
			}
			seen[idx] = true
			coords = append(coords, shwap.SampleCoords{Row: idx / w, Col: idx % w})
		}
		return Req{Kind: kind, Coords: coords}
	case "row":
		return Req{Kind: kind, Row: rapid.IntRange(0, w-1).Draw(t, "row")}
	case "eds":
		return Req{Kind: kind}
	case "nd":
		var present, between, outside []libshare.Namespace
		for _, ns := range sq.NamespacesPresent() {
			if ns.ValidateForData() == nil {
				present = append(present, ns)
			}
		}
		for _, ns := range []libshare.Namespace{vk.OddNS(0), vk.OddNS(1), vk.OddNS(2), vk.OddNS(3), vk.OddNS(4), vk.OddNS(5), vk.OddNS(6), vk.LowNS(), vk.HighNS()} {
			if len(sq.RefRowsCovering(ns)) > 0 {
				between = append(between, ns)
			} else {
				outside = append(outside, ns)
			}
		}
		classes := [][]libshare.Namespace{present, present, between, between, outside}
		names := []string{"present", "present", "absent-in-range", "absent-in-range", "outside"}
		k := rapid.IntRange(0, len(classes)-1).Draw(t, "nsclass")
		for len(classes[k]) == 0 {
			k = (k + 1) % len(classes)
		}
		ns := classes[k][rapid.IntRange(0, len(classes[k])-1).Draw(t, "ns")]
		return Req{Kind: kind, NS: ns, NSClass: names[k]}
	default:
		anchor := rapid.IntRange(0, sq.ODS*sq.ODS-1).Draw(t, "anchor")
		lo, hi := sq.NSStretch(anchor)
		from := rapid.IntRange(lo, hi-1).Draw(t, "from")
		if rapid.IntRange(0, 2).Draw(t, "fromlo") == 0 {
			from = lo
		}
		to := rapid.IntRange(from+1, hi).Draw(t, "to")
		if rapid.IntRange(0, 2).Draw(t, "tohi") == 0 {
			to = hi
		}
		if rapid.IntRange(0, 2).Draw(t, "onerow") == 0 {
			// keep the range inside the row of `from`
			to = min(to, (from/sq.ODS+1)*sq.ODS)
		}
		return Req{Kind: "range", From: from, To: to}
	}
}

// Desc is the canonical description of the request.
func (r Req) Desc() string {
	switch r.Kind {
	case "samples":
		var b strings.Builder
		b.WriteString("samples")
		for _, c := range r.Coords {
			fmt.Fprintf(&b, "(%d,%d)", c.Row, c.Col)
		}
		return b.String()
	case "row":
		return fmt.Sprintf("row(%d)", r.Row)
	case "eds":
		return "eds"
	case "nd":
		return fmt.Sprintf("nd(%s,%s)", vk.NsShort(r.NS), r.NSClass)
	default:
		return fmt.Sprintf("range[%d,%d)", r.From, r.To)
	}
}

// Labels are the class labels of a request.
func (r Req) Labels(sq *vk.Square) []string {
	l := []string{"req=" + r.Kind, fmt.Sprintf("ods=%d", sq.ODS)}
	switch r.Kind {
	case "samples":
		switch n := len(r.Coords); {
		case n == 1:
			l = append(l, "coords=1")
		case n <= 4:
			l = append(l, "coords=2-4")
		default:
			l = append(l, "coords=5-16")
		}
	case "nd":
		l = append(l, "ns="+r.NSClass)
	case "range":
		if (r.To-1)/sq.ODS == r.From/sq.ODS {
			l = append(l, "range=one-row")
		} else {
			l = append(l, "range=multi-row")
		}
	}
	return l
}

// MakeHeader builds the header the request is made against: height, time (inside or outside the
// availability window) and the data availability header of sq.
func MakeHeader(sq *vk.Square, height uint64, archival bool) *header.ExtendedHeader {
	tm := time.Now()
	if archival {
		tm = tm.Add(-availability.StorageWindow - 30*24*time.Hour)
	}
	h := &header.ExtendedHeader{DAH: sq.Roots}
	h.RawHeader.Height = int64(height)
	h.RawHeader.Time = tm
	return h
}

// Result is what a getter call handed back.
type Result struct {
	Err     error
	Panic   string
	Samples []shwap.Sample
	Row     shwap.Row
	EDS     *rsmt2d.ExtendedDataSquare
	ND      shwap.NamespaceData
	Range   shwap.RangeNamespaceData
}

// Call runs the request against g. A panic escaping the getter is caught and reported in Result.
func (r Req) Call(ctx context.Context, g shwap.Getter, hdr *header.ExtendedHeader) (res Result) {
	defer func() {
		if p := recover(); p != nil {
			st := string(debug.Stack())
			if len(st) > 2500 {
				st = st[:2500] + "..."
			}
			res.Panic = fmt.Sprintf("%v\n%s", p, st)
		}
	}()
	switch r.Kind {
	case "samples":
		res.Samples, res.Err = g.GetSamples(ctx, hdr, r.Coords)
	case "row":
		res.Row, res.Err = g.GetRow(ctx, hdr, r.Row)
	case "eds":
		res.EDS, res.Err = g.GetEDS(ctx, hdr)
	case "nd":
		res.ND, res.Err = g.GetNamespaceData(ctx, hdr, r.NS)
	default:
		res.Range, res.Err = g.GetRangeNamespaceData(ctx, hdr, r.From, r.To)
	}
	return res
}

// CheckSafety is the reference-matrix oracle: every non-empty item of the returned value — with
// or without an error — is the committed data at the requested position of sq, and a nil error
// comes with a complete result. It returns a description of the first deviation.
func (r Req) CheckSafety(sq *vk.Square, res Result) error {
	if res.Panic != "" {
		return fmt.Errorf("the getter panicked: %s", res.Panic)
	}
	ok := res.Err == nil
	switch r.Kind {
	case "samples":
		if len(res.Samples) != 0 && len(res.Samples) != len(r.Coords) {
			return fmt.Errorf("returned %d samples for %d coordinates (err=%v): the slice is not aligned with the request",
				len(res.Samples), len(r.Coords), res.Err)
		}
		if ok && len(res.Samples) != len(r.Coords) {
			return fmt.Errorf("nil error with %d samples for %d coordinates", len(res.Samples), len(r.Coords))
		}
		for i, s := range res.Samples {
			c := r.Coords[i]
			if s.IsEmpty() {
				if ok {
					return fmt.Errorf("nil error but sample %d (%d,%d) is empty", i, c.Row, c.Col)
				}
				continue
			}
			if !bytes.Equal(s.ToBytes(), sq.RefShare(c.Row, c.Col)) {
				return fmt.Errorf("sample at slice position %d (requested (%d,%d), err=%v) is not the committed share at that coordinate",
					i, c.Row, c.Col, res.Err)
			}
			if err := s.Verify(sq.Roots, c.Row, c.Col); err != nil {
				return fmt.Errorf("sample at slice position %d (requested (%d,%d), err=%v) does not verify against the requested header: %v",
					i, c.Row, c.Col, res.Err, err)
			}
		}
	case "row":
		if res.Row.IsEmpty() {
			if ok {
				return fmt.Errorf("nil error with an empty row")
			}
			return nil
		}
		row := res.Row
		shrs, err := row.Shares()
		if err != nil {
			return fmt.Errorf("returned row (err=%v) cannot be expanded: %v", res.Err, err)
		}
		if err := vk.SharesBytesEqual(shrs, sq.Ref[r.Row]); err != nil {
			return fmt.Errorf("returned row %d (err=%v) is not the committed row: %v", r.Row, res.Err, err)
		}
	case "eds":
		if res.EDS == nil {
			if ok {
				return fmt.Errorf("nil error with a nil square")
			}
			return nil
		}
		if int(res.EDS.Width()) != sq.Width() {
			return fmt.Errorf("returned square (err=%v) has width %d, committed width %d", res.Err, res.EDS.Width(), sq.Width())
		}
		for i := 0; i < sq.Width(); i++ {
			for j := 0; j < sq.Width(); j++ {
				if !bytes.Equal(res.EDS.GetCell(uint(i), uint(j)), sq.Ref[i][j]) {
					return fmt.Errorf("returned square (err=%v) differs from the committed square at (%d,%d)", res.Err, i, j)
				}
			}
		}
	case "nd":
		want := sq.RefNamespace(r.NS)
		got := res.ND.Flatten()
		if ok {
			if err := vk.SharesBytesEqual(got, want); err != nil {
				return fmt.Errorf("nil error but the namespace data is not exactly the committed shares of the namespace: %v", err)
			}
			return nil
		}
		// with an error: whatever is there must be committed shares of the namespace, in order
		j := 0
		for i, s := range got {
			for j < len(want) && !bytes.Equal(s.ToBytes(), want[j]) {
				j++
			}
			if j == len(want) {
				return fmt.Errorf("namespace data returned with err=%v holds a share (%d) that is not a committed share of the namespace", res.Err, i)
			}
			j++
		}
	default:
		if res.Range.IsEmpty() {
			if ok {
				return fmt.Errorf("nil error with empty range data")
			}
			return nil
		}
		want := make([][]byte, 0, r.To-r.From)
		for i := r.From; i < r.To; i++ {
			want = append(want, sq.Ref[i/sq.ODS][i%sq.ODS])
		}
		if err := vk.SharesBytesEqual(res.Range.Flatten(), want); err != nil {
			return fmt.Errorf("range data returned with err=%v is not the committed shares [%d,%d): %v", res.Err, r.From, r.To, err)
		}
	}
	return nil
}

// ResultShape summarises a result for labels: "ok", "err", "err+partial".
func (r Req) ResultShape(res Result) string {
	if res.Err == nil {
		return "ok"
	}
	if r.Kind == "samples" {
		for _, s := range res.Samples {
			if !s.IsEmpty() {
				return "err+partial"
			}
		}
	}
	return "err"
}
