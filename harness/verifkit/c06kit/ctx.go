// Package c06kit holds the pieces the three C06 harnesses (shrex getter, bitswap getter, cascade)
// share: a context whose end is decided by the harness instead of the wall clock, the request
// generator with its reference-matrix oracle over the shwap.Getter interface, a scripted fake
// libp2p host for the shrex client and a scripted fake Bitswap exchange.
// It is an overlay-only package of /verif (not part of celestia-node) and must not import the
// packages under test (shrex_getter, bitswap, getters), whose in-package harnesses import it.
package c06kit

import (
	"context"
	"sync"
	"time"
)

// ScriptCtx is a context.Context that ends exactly when the harness says so (End), with the
// error the case drew (context.Canceled or context.DeadlineExceeded), so that "the deadline
// expires while peer k is being asked" is a position in the script and not a race with the
// clock. Deadline() reports either no deadline or a deadline one hour ahead ("ample").
type ScriptCtx struct {
	context.Context
	mu       sync.Mutex
	done     chan struct{}
	err      error
	flavour  error
	deadline time.Time
	hasDL    bool
}

// NewScriptCtx returns a live context. flavour is the error Err() reports once End was called.
func NewScriptCtx(farDeadline bool, flavour error) *ScriptCtx {
	c := &ScriptCtx{Context: context.Background(), done: make(chan struct{}), flavour: flavour}
	if farDeadline {
		c.hasDL = true
		c.deadline = time.Now().Add(time.Hour)
	}
	return c
}

func (c *ScriptCtx) Deadline() (time.Time, bool) { return c.deadline, c.hasDL }
func (c *ScriptCtx) Done() <-chan struct{}       { return c.done }

func (c *ScriptCtx) Err() error {
	c.mu.Lock()
	defer c.mu.Unlock()
	return c.err
}

// End ends the context (idempotent).
func (c *ScriptCtx) End() {
	c.mu.Lock()
	defer c.mu.Unlock()
	if c.err == nil {
		c.err = c.flavour
		close(c.done)
	}
}

// Ended reports whether End was called.
func (c *ScriptCtx) Ended() bool { return c.Err() != nil }
