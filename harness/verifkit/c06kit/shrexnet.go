package c06kit

import (
	"bytes"
	"context"
	"encoding/binary"
	"errors"
	"fmt"
	"io"
	"strings"
	"sync"
	"time"

	"github.com/libp2p/go-libp2p/core/host"
	"github.com/libp2p/go-libp2p/core/network"
	"github.com/libp2p/go-libp2p/core/peer"
	"github.com/libp2p/go-libp2p/core/protocol"
	"pgregory.net/rapid"

	"github.com/celestiaorg/go-libp2p-messenger/serde"
	libshare "github.com/celestiaorg/go-square/v4/share"
	"github.com/celestiaorg/rsmt2d"

	vk "github.com/celestiaorg/celestia-node/internal/verifkit"
	"github.com/celestiaorg/celestia-node/share/eds"
	"github.com/celestiaorg/celestia-node/share/shwap"
	shrexpb "github.com/celestiaorg/celestia-node/share/shwap/p2p/shrex/pb"
)

// EndMode says how a scripted peer ends its stream after the scripted bytes.
type EndMode int

const (
	EndEOF       EndMode = iota // clean close
	EndReset                    // stream reset
	EndResetCode                // stream reset with a resource-limit error code
	EndStall                    // nothing more until the client gives up (its attempt times out)
	EndExpire                   // the caller's context ends while the client waits for this peer
)

// Step is the behaviour of one peer towards one request item, fully materialised (bytes) before
// the getter is called, so that nothing is drawn off the test goroutine.
type Step struct {
	Kind     string
	Data     []byte // status frame + body
	End      EndMode
	Code     network.StreamErrorCode
	Dial     bool // the stream cannot be opened at all
	Honest   bool // Data is byte-for-byte what an honest server sends, and the stream ends cleanly
	NotFound bool
	Chunk    int // max bytes per Read (0 = no limit)

	// observed while the getter runs (guarded by ShrexNet.mu)
	Started    bool
	Delivered  int
	FailedRead bool
	CtxAlive   bool // the caller's context had not ended when the last byte was handed over
	// Spare is the time that was left until the deadline of the context the stream was opened
	// with when the last byte was handed over (very large without a deadline)
	Spare time.Duration
}

// Consumed reports whether the client took every scripted byte of the step without a read error.
func (s *Step) Consumed() bool {
	return s.Started && !s.Dial && s.Delivered == len(s.Data) && !s.FailedRead
}

// Item is one wire request (one sample coordinate, or the single row/eds/nd/range request) with
// the ordered behaviours of the peers that will be asked for it.
type Item struct {
	Proto     string
	Key       string
	Desc      string
	Steps     []*Step
	next      int
	Exhausted bool // every scripted peer was used up and the getter asked one more

	parked   bool // waits at the point where the caller's context is to end
	finished bool // took an answer a correct getter accepts; it is not expected to ask again
}

// HonestServed reports whether some honest step of the item was consumed entirely while the
// caller's context was alive.
func (it *Item) HonestServed() bool { return it.HonestServedWithSpare(0) }

// HonestServedWithSpare is HonestServed with the additional demand that at least spare was left
// until the deadline of the attempt when the last byte was handed over.
func (it *Item) HonestServedWithSpare(spare time.Duration) bool {
	for _, s := range it.Steps {
		if s.Honest && s.End == EndEOF && s.Consumed() && s.CtxAlive && s.Spare >= spare {
			return true
		}
	}
	return false
}

// WireID is what the shwap identifiers have in common for the fake server side.
type WireID interface {
	Name() string
	MarshalBinary() ([]byte, error)
	ResponseReader(ctx context.Context, acc shwap.Accessor) (io.Reader, error)
}

// ShrexIDs returns the identifiers the shrex getter puts on the wire for r.
func ShrexIDs(r Req, sq *vk.Square, height uint64) ([]WireID, error) {
	switch r.Kind {
	case "samples":
		out := make([]WireID, len(r.Coords))
		for i, c := range r.Coords {
			id, err := shwap.NewSampleID(height, c, sq.Width())
			if err != nil {
				return nil, err
			}
			out[i] = id
		}
		return out, nil
	case "row":
		id, err := shwap.NewRowID(height, r.Row, sq.Width())
		return []WireID{id}, err
	case "eds":
		id, err := shwap.NewEdsID(height)
		return []WireID{id}, err
	case "nd":
		id, err := shwap.NewNamespaceDataID(height, r.NS)
		return []WireID{id}, err
	default:
		e, err := shwap.NewEdsID(height)
		if err != nil {
			return nil, err
		}
		id, err := shwap.NewRangeNamespaceDataID(e, r.From, r.To, sq.ODS)
		return []WireID{id}, err
	}
}

// shrexNeighbour draws an identifier of the same type for other data of the same square
// (nil if there is none).
func shrexNeighbour(t *rapid.T, label string, r Req, i int, sq *vk.Square, height uint64) WireID {
	w := sq.Width()
	switch r.Kind {
	case "samples":
		c := r.Coords[i]
		n := c
		switch rapid.IntRange(0, 2).Draw(t, label+".nkind") {
		case 0:
			n.Col = (c.Col + 1 + rapid.IntRange(0, w-2).Draw(t, label+".dcol")) % w
		case 1:
			n.Row = (c.Row + 1 + rapid.IntRange(0, w-2).Draw(t, label+".drow")) % w
		default:
			n.Col = (c.Col + 1 + rapid.IntRange(0, w-2).Draw(t, label+".dcol")) % w
			n.Row = rapid.IntRange(0, w-1).Draw(t, label+".nrow")
		}
		id, err := shwap.NewSampleID(height, n, w)
		if err != nil {
			return nil
		}
		return id
	case "row":
		id, err := shwap.NewRowID(height, (r.Row+1+rapid.IntRange(0, w-2).Draw(t, label+".drow"))%w, w)
		if err != nil {
			return nil
		}
		return id
	case "nd":
		cands := []libshare.Namespace{vk.OddNS(rapid.IntRange(0, 6).Draw(t, label+".odd"))}
		for _, ns := range sq.NamespacesPresent() {
			if ns.ValidateForData() == nil {
				cands = append(cands, ns)
			}
		}
		ns := cands[rapid.IntRange(0, len(cands)-1).Draw(t, label+".nns")]
		if ns.Equals(r.NS) {
			return nil
		}
		id, err := shwap.NewNamespaceDataID(height, ns)
		if err != nil {
			return nil
		}
		return id
	case "range":
		area := sq.ODS * sq.ODS
		from, to := r.From, r.To
		switch rapid.IntRange(-1, 3).Draw(t, label+".nkind") {
		case -1, 0: // reach into the following row(s): more rows than requested, incomplete last row
			to = min(area, to+rapid.IntRange(1, 2*sq.ODS).Draw(t, label+".grow"))
		case 1: // start earlier
			from = max(0, from-rapid.IntRange(1, sq.ODS).Draw(t, label+".early"))
		case 2: // shifted by one
			if to < area {
				from, to = from+1, to+1
			} else if from > 0 {
				from, to = from-1, to-1
			}
		default: // shortened
			if to-from > 1 {
				to--
			} else if from > 0 {
				from--
			}
		}
		if from == r.From && to == r.To {
			return nil
		}
		e, err := shwap.NewEdsID(height)
		if err != nil {
			return nil
		}
		id, err := shwap.NewRangeNamespaceDataID(e, from, to, sq.ODS)
		if err != nil {
			return nil
		}
		return id
	}
	return nil
}

func shrexBody(sq *vk.Square, id WireID) ([]byte, error) {
	rd, err := id.ResponseReader(context.Background(), &eds.Rsmt2D{ExtendedDataSquare: sq.EDS})
	if err != nil {
		return nil, err
	}
	return io.ReadAll(rd)
}

func statusFrame(s shrexpb.Status) []byte {
	var b bytes.Buffer
	if _, err := serde.Write(&b, &shrexpb.Response{Status: s}); err != nil {
		panic(err)
	}
	return b.Bytes()
}

// ScriptOpts bounds the behaviour kinds a script may contain.
type ScriptOpts struct {
	AllowStall bool // attempts may time out (only when the per-attempt timeout is small)
	AllowDial  bool // the stream may fail to open (single-item requests only)
	NoExpire   bool // never end the caller's context from inside the script
}

// GenScript draws the ordered behaviours of 1-6 peers. An "expire-*" entry (the caller's deadline
// runs out while that peer is being asked) can only be the last one.
func GenScript(t *rapid.T, label string, o ScriptOpts) []string {
	n := rapid.IntRange(1, 6).Draw(t, label+".len")
	if rapid.IntRange(0, 11).Draw(t, label+".allnf") == 0 {
		out := make([]string, n)
		for i := range out {
			out[i] = "not-found"
		}
		return out
	}
	kinds := []string{
		"honest", "honest", "honest", "honest",
		"other-id", "other-id", "other-id", "other-square", "other-square", "other-square",
		"truncated", "extended", "repeated", "garbled", "garbled", "empty-body", "structural", "structural",
		"not-found", "not-found", "internal", "unknown-status", "invalid-status",
		"reset-pre", "reset-post", "reset-mid", "rate-limited",
	}
	if o.AllowStall {
		kinds = append(kinds, "stall-pre", "stall-post", "stall-mid")
	}
	if o.AllowDial {
		kinds = append(kinds, "dial-fail")
	}
	out := make([]string, 0, n)
	for i := 0; i < n; i++ {
		k := rapid.SampledFrom(kinds).Draw(t, label+".kind")
		out = append(out, k)
		if k == "honest" {
			break // nobody is asked after an honest answer
		}
	}
	if !o.NoExpire && out[len(out)-1] != "honest" && rapid.IntRange(0, 2).Draw(t, label+".expire") == 0 {
		out[len(out)-1] = rapid.SampledFrom([]string{"expire-pre", "expire-post", "expire-mid"}).Draw(t, label+".expkind")
	}
	return out
}

// PrepareItem materialises a script for the i-th wire request of r.
func PrepareItem(t *rapid.T, label string, r Req, i int, id WireID, sq, sib *vk.Square, height uint64, script []string) (*Item, error) {
	key, err := id.MarshalBinary()
	if err != nil {
		return nil, err
	}
	body, err := shrexBody(sq, id)
	if err != nil {
		return nil, fmt.Errorf("honest response for %s: %w", r.Desc(), err)
	}
	okFrame := statusFrame(shrexpb.Status_OK)
	honest := append(append([]byte(nil), okFrame...), body...)
	it := &Item{Proto: id.Name(), Key: string(key), Desc: fmt.Sprintf("%s#%d", r.Kind, i)}
	prefix := func(lbl string) []byte {
		if len(body) == 0 {
			return nil
		}
		return body[:rapid.IntRange(0, len(body)-1).Draw(t, lbl)]
	}
	for j, kind := range script {
		l := fmt.Sprintf("%s.s%d", label, j)
		st := &Step{Kind: kind}
		if rapid.IntRange(0, 3).Draw(t, l+".chunked") == 0 {
			st.Chunk = rapid.IntRange(1, 64).Draw(t, l+".chunk")
		}
		if r.Kind == "nd" && (kind == "other-id" || kind == "other-square" || kind == "garbled" || kind == "extended" || kind == "repeated") &&
			rapid.IntRange(0, 2).Draw(t, l+".ndstructural") == 0 {
			// namespace-data requests are one kind in seven: give their well-formed forgeries (a prefix
			// of the row messages, a row without its proof) more weight than the script's draw does
			kind = "structural"
		}
		switch kind {
		case "honest":
			st.Data = honest
		case "other-id":
			nb := shrexNeighbour(t, l, r, i, sq, height)
			var b []byte
			if nb != nil {
				b, err = shrexBody(sq, nb)
			}
			if nb == nil || err != nil {
				st.Kind = "other-square"
				b, err = shrexBody(sib, id)
				if err != nil {
					return nil, err
				}
			}
			st.Data = append(append([]byte(nil), okFrame...), b...)
		case "other-square":
			b, err := shrexBody(sib, id)
			if err != nil {
				return nil, err
			}
			st.Data = append(append([]byte(nil), okFrame...), b...)
		case "structural":
			// forgeries that stay well-formed on the wire: namespace data cut at a row-message
			// boundary (a prefix of the rows), a sample of another row of the requested column under an
			// axis value that is neither ROW nor COL; other request kinds fall back to other-square
			var b []byte
			switch r.Kind {
			case "nd":
				bounds := messageBoundaries(body)
				if len(bounds) >= 3 && rapid.Bool().Draw(t, l+".ndprefix") { // at least two messages
					b = body[:bounds[rapid.IntRange(1, len(bounds)-2).Draw(t, l+".rows")]]
					st.Kind = "structural:nd-row-prefix"
				} else if nd, err := eds.NamespaceData(context.Background(), &eds.Rsmt2D{ExtendedDataSquare: sq.EDS}, r.NS); err == nil && len(nd) > 0 {
					// the honest rows, one of them sent without its proof (shares kept)
					k := rapid.IntRange(0, len(nd)-1).Draw(t, l+".noproofrow")
					if len(nd[k].Shares) > 0 {
						nd[k].Proof = nil
						var buf bytes.Buffer
						if _, err := nd.WriteTo(&buf); err == nil {
							b = buf.Bytes()
							st.Kind = "structural:nd-row-noproof"
						}
					}
				}
			case "samples":
				c := r.Coords[i]
				w := sq.Width()
				if w > 1 {
					orow := (c.Row + 1 + rapid.IntRange(0, w-2).Draw(t, l+".drow")) % w
					acc := &eds.Rsmt2D{ExtendedDataSquare: sq.EDS}
					if smp, err := acc.SampleForProofAxis(shwap.SampleCoords{Row: orow, Col: c.Col}, rsmt2d.Col); err == nil {
						smp.ProofType = rsmt2d.Axis(rapid.SampledFrom([]int{-1, 2, 7}).Draw(t, l+".axis"))
						var buf bytes.Buffer
						if _, err := smp.WriteTo(&buf); err == nil {
							b = buf.Bytes()
							st.Kind = "structural:sample-invalid-axis"
						}
					}
				}
			}
			if b == nil {
				st.Kind = "other-square"
				b, err = shrexBody(sib, id)
				if err != nil {
					return nil, err
				}
			}
			st.Data = append(append([]byte(nil), okFrame...), b...)
		case "truncated":
			if bounds := messageBoundaries(body); r.Kind == "nd" && len(bounds) >= 3 && rapid.Bool().Draw(t, l+".atboundary") {
				// cut exactly at a row-message boundary: a well-formed but incomplete answer
				st.Kind = "structural:nd-row-prefix"
				st.Data = append(append([]byte(nil), okFrame...), body[:bounds[rapid.IntRange(1, len(bounds)-2).Draw(t, l+".rows")]]...)
				break
			}
			st.Data = append(append([]byte(nil), okFrame...), prefix(l+".cut")...)
		case "extended":
			ext := rapid.SliceOfN(rapid.Byte(), 1, 16).Draw(t, l+".ext")
			st.Data = append(append([]byte(nil), honest...), ext...)
		case "repeated":
			st.Data = append(append([]byte(nil), honest...), body...)
		case "garbled":
			if rapid.IntRange(0, 3).Draw(t, l+".whole") == 0 {
				st.Data, _ = vk.MutateBytes(t, l+".mut", honest, nil)
			} else {
				m, _ := vk.MutateBytes(t, l+".mut", body, nil)
				st.Data = append(append([]byte(nil), okFrame...), m...)
			}
		case "empty-body":
			st.Data = okFrame
		case "not-found":
			st.Data, st.NotFound = statusFrame(shrexpb.Status_NOT_FOUND), true
		case "internal":
			st.Data = statusFrame(shrexpb.Status_INTERNAL)
		case "unknown-status":
			st.Data = statusFrame(shrexpb.Status(rapid.IntRange(4, 200).Draw(t, l+".status")))
		case "invalid-status":
			st.Data = statusFrame(shrexpb.Status_INVALID)
		case "reset-pre":
			st.End = EndReset
		case "reset-post":
			st.Data, st.End = okFrame, EndReset
		case "reset-mid":
			st.Data, st.End = append(append([]byte(nil), okFrame...), prefix(l+".cut")...), EndReset
		case "rate-limited":
			st.End = EndResetCode
			st.Code = rapid.SampledFrom([]network.StreamErrorCode{network.StreamRateLimited, network.StreamResourceLimitExceeded}).Draw(t, l+".code")
		case "stall-pre":
			st.End = EndStall
		case "stall-post":
			st.Data, st.End = okFrame, EndStall
		case "stall-mid":
			st.Data, st.End = append(append([]byte(nil), okFrame...), prefix(l+".cut")...), EndStall
		case "expire-pre":
			st.End = EndExpire
		case "expire-post":
			st.Data, st.End = okFrame, EndExpire
		case "expire-mid":
			st.Data, st.End = append(append([]byte(nil), okFrame...), prefix(l+".cut")...), EndExpire
		case "dial-fail":
			st.Dial = true
		default:
			return nil, fmt.Errorf("unknown behaviour %q", kind)
		}
		// a "bad" answer that happens to be byte-identical to the honest one is an honest answer
		st.Honest = st.End == EndEOF && !st.Dial && bytes.Equal(st.Data, honest)
		it.Steps = append(it.Steps, st)
	}
	return it, nil
}

// ShrexNet is the fake libp2p host handed to the real shrex.Client: every stream the client opens
// is answered from the script of the request that is written to it. When a request's script is
// used up and the getter asks yet another peer, the caller's context is ended (the deadline runs
// out after the last scripted peer).
type ShrexNet struct {
	host.Host // nil: only the methods below are ever needed

	Ctl    *ScriptCtx // nil: a used-up script stalls instead of ending the caller's context
	sq     *vk.Square
	height uint64
	netw   *fakeNetwork

	// Barrier makes the end of the caller's context wait until every other wire request of the call
	// has either been answered acceptably or has itself arrived at the end of its script, so that
	// what a multi-request call (GetSamples) observes does not depend on goroutine scheduling.
	// The wait is bounded by BarrierGrace (a request that a faulty getter accepts early, or a slow
	// machine, only costs determinism, never a verdict).
	Barrier      bool
	BarrierGrace time.Duration

	mu      sync.Mutex
	items   map[string]*Item
	order   []*Item
	settled chan struct{}
	Log     []string
	Opened  int
	Unknown int // requests that matched no scripted item (answered honestly)
}

// acceptable lists the behaviours whose answer a correct getter accepts for a single-message
// container (the honest bytes, possibly followed by bytes it does not read).
var acceptable = map[string]bool{"honest": true, "extended": true, "repeated": true}

func (n *ShrexNet) checkSettledLocked() {
	for _, it := range n.order {
		if !it.parked && !it.finished {
			return
		}
	}
	select {
	case <-n.settled:
	default:
		close(n.settled)
	}
}

// endContext is called by a stream whose script says that the caller's context ends now.
func (n *ShrexNet) endContext(it *Item, reset <-chan struct{}) {
	if n.Ctl == nil {
		return
	}
	if it != nil && n.Barrier && len(n.order) > 1 {
		n.mu.Lock()
		it.parked = true
		n.checkSettledLocked()
		ch := n.settled
		n.mu.Unlock()
		tm := time.NewTimer(n.BarrierGrace)
		select {
		case <-ch:
		case <-reset:
		case <-tm.C:
		}
		tm.Stop()
	}
	n.Ctl.End()
}

// NewShrexNet builds the fake host. sq/height are what an honest server would answer from.
func NewShrexNet(ctl *ScriptCtx, sq *vk.Square, height uint64, items []*Item) *ShrexNet {
	n := &ShrexNet{Ctl: ctl, sq: sq, height: height, items: map[string]*Item{}, netw: &fakeNetwork{},
		settled: make(chan struct{}), BarrierGrace: 300 * time.Millisecond}
	for _, it := range items {
		n.items[it.Proto+"|"+it.Key] = it
		n.order = append(n.order, it)
	}
	return n
}

// PeerIDs returns n distinct peer identifiers in a fixed order.
func PeerIDs(n int) []peer.ID {
	out := make([]peer.ID, n)
	for i := range out {
		out[i] = peer.ID(fmt.Sprintf("c06-peer-%04d", i))
	}
	return out
}

func (n *ShrexNet) ID() peer.ID              { return peer.ID("c06-self") }
func (n *ShrexNet) Network() network.Network { return n.netw }

// Items returns the scripted items.
func (n *ShrexNet) Items() []*Item { return n.order }

// History returns the log of what was served, in order.
func (n *ShrexNet) History() []string {
	n.mu.Lock()
	defer n.mu.Unlock()
	return append([]string(nil), n.Log...)
}

var errDial = errors.New("c06: dial failed (scripted)")

func (n *ShrexNet) NewStream(ctx context.Context, p peer.ID, pids ...protocol.ID) (network.Stream, error) {
	if err := ctx.Err(); err != nil {
		return nil, err
	}
	if len(pids) == 0 {
		return nil, errors.New("c06: no protocol")
	}
	parts := strings.Split(string(pids[0]), "/")
	name := parts[len(parts)-1]
	n.mu.Lock()
	defer n.mu.Unlock()
	n.Opened++
	if len(n.order) == 1 {
		it := n.order[0]
		if it.next < len(it.Steps) && it.Steps[it.next].Dial {
			st := it.Steps[it.next]
			it.next++
			st.Started = true
			n.Log = append(n.Log, fmt.Sprintf("%s<-dial-fail", it.Desc))
			return nil, errDial
		}
	}
	fs := &fakeStream{net: n, peer: p, proto: name, reset: make(chan struct{}), ctx: ctx}
	return fs, nil
}

type fakeNetwork struct {
	network.Network
	mu     sync.Mutex
	closed []peer.ID
}

func (f *fakeNetwork) ClosePeer(p peer.ID) error {
	f.mu.Lock()
	f.closed = append(f.closed, p)
	f.mu.Unlock()
	return nil
}

// fakeStream is the client end of an in-memory stream to a scripted peer.
type fakeStream struct {
	network.Stream // nil

	net   *ShrexNet
	peer  peer.ID
	proto string
	ctx   context.Context // the context the stream was opened with

	mu       sync.Mutex
	wbuf     bytes.Buffer
	step     *Step
	item     *Item
	off      int
	reset    chan struct{}
	isReset  bool
	resolved bool
}

func (s *fakeStream) Write(p []byte) (int, error) {
	s.mu.Lock()
	defer s.mu.Unlock()
	if s.isReset {
		return 0, network.ErrReset
	}
	s.wbuf.Write(p)
	return len(p), nil
}

func (s *fakeStream) CloseWrite() error { return nil }
func (s *fakeStream) CloseRead() error  { return nil }

func (s *fakeStream) doReset() {
	s.mu.Lock()
	if !s.isReset {
		s.isReset = true
		close(s.reset)
	}
	s.mu.Unlock()
}

func (s *fakeStream) Reset() error                                 { s.doReset(); return nil }
func (s *fakeStream) ResetWithError(network.StreamErrorCode) error { s.doReset(); return nil }
func (s *fakeStream) Close() error                                 { s.doReset(); return nil }
func (s *fakeStream) SetDeadline(time.Time) error                  { return nil }
func (s *fakeStream) SetReadDeadline(time.Time) error              { return nil }
func (s *fakeStream) SetWriteDeadline(time.Time) error             { return nil }
func (s *fakeStream) ID() string                                   { return "c06-stream" }
func (s *fakeStream) Protocol() protocol.ID                        { return protocol.ID(s.proto) }

// resolve picks the step that answers the request written so far (called with s.mu held).
func (s *fakeStream) resolve() {
	if s.resolved {
		return
	}
	s.resolved = true
	n := s.net
	n.mu.Lock()
	defer n.mu.Unlock()
	it := n.items[s.proto+"|"+s.wbuf.String()]
	switch {
	case it == nil:
		// not a scripted request: answer like an honest server
		n.Unknown++
		s.step = &Step{Kind: "unscripted", End: EndReset, Started: true}
		if id := parseWireID(s.proto, s.wbuf.Bytes()); id != nil {
			if body, err := shrexBody(n.sq, id); err == nil {
				s.step = &Step{Kind: "unscripted-honest", Started: true,
					Data: append(statusFrame(shrexpb.Status_OK), body...)}
			}
		}
		n.Log = append(n.Log, fmt.Sprintf("?%s<-%s", s.proto, s.step.Kind))
	case it.next < len(it.Steps):
		s.item = it
		it.finished = false
		s.step = it.Steps[it.next]
		it.next++
		s.step.Started = true
		n.Log = append(n.Log, fmt.Sprintf("%s<-%s", it.Desc, s.step.Kind))
	default:
		s.item = it
		it.finished = false
		it.Exhausted = true
		s.step = &Step{Kind: "script-end", End: EndExpire, Started: true}
		if n.Ctl == nil {
			s.step.End = EndStall
		}
		n.Log = append(n.Log, fmt.Sprintf("%s<-script-end", it.Desc))
	}
}

func (s *fakeStream) Read(p []byte) (int, error) {
	s.mu.Lock()
	if s.isReset {
		if s.step != nil {
			s.fail()
		}
		s.mu.Unlock()
		return 0, network.ErrReset
	}
	s.resolve()
	st := s.step
	if s.off < len(st.Data) {
		if len(p) == 0 {
			s.mu.Unlock()
			return 0, nil
		}
		n := len(st.Data) - s.off
		if n > len(p) {
			n = len(p)
		}
		if st.Chunk > 0 && n > st.Chunk {
			n = st.Chunk
		}
		copy(p, st.Data[s.off:s.off+n])
		s.off += n
		alive := s.ctx.Err() == nil && (s.net.Ctl == nil || !s.net.Ctl.Ended())
		spare := time.Duration(1 << 62)
		if dl, ok := s.ctx.Deadline(); ok {
			spare = time.Until(dl)
		}
		s.net.mu.Lock()
		st.Delivered = s.off
		st.CtxAlive = alive
		st.Spare = spare
		if s.off == len(st.Data) && s.item != nil && st.End == EndEOF && (st.Honest || acceptable[st.Kind]) {
			s.item.finished = true
			s.net.checkSettledLocked()
		}
		s.net.mu.Unlock()
		s.mu.Unlock()
		return n, nil
	}
	if len(st.Data) == 0 {
		alive := s.net.Ctl == nil || !s.net.Ctl.Ended()
		s.net.mu.Lock()
		st.CtxAlive = alive
		s.net.mu.Unlock()
	}
	switch st.End {
	case EndEOF:
		s.mu.Unlock()
		return 0, io.EOF
	case EndReset:
		s.fail()
		s.mu.Unlock()
		return 0, network.ErrReset
	case EndResetCode:
		s.fail()
		s.mu.Unlock()
		return 0, &network.StreamError{ErrorCode: st.Code, Remote: true}
	case EndExpire:
		s.mu.Unlock()
		s.net.endContext(s.item, s.reset)
	default:
		s.mu.Unlock()
	}
	<-s.reset
	s.mu.Lock()
	s.fail()
	s.mu.Unlock()
	return 0, network.ErrReset
}

func (s *fakeStream) fail() {
	s.net.mu.Lock()
	s.step.FailedRead = true
	s.net.mu.Unlock()
}

// parseWireID decodes an identifier the way the shrex server does, by protocol name.
func parseWireID(name string, data []byte) WireID {
	rd := bytes.NewReader(data)
	switch name {
	case shwap.SampleID{}.Name():
		var id shwap.SampleID
		if _, err := id.ReadFrom(rd); err == nil {
			return id
		}
	case shwap.RowID{}.Name():
		var id shwap.RowID
		if _, err := id.ReadFrom(rd); err == nil {
			return id
		}
	case shwap.EdsID{}.Name():
		var id shwap.EdsID
		if _, err := id.ReadFrom(rd); err == nil {
			return id
		}
	case shwap.NamespaceDataID{}.Name():
		var id shwap.NamespaceDataID
		if _, err := id.ReadFrom(rd); err == nil {
			return id
		}
	case shwap.RangeNamespaceDataID{}.Name():
		var id shwap.RangeNamespaceDataID
		if _, err := id.ReadFrom(rd); err == nil {
			return id
		}
	}
	return nil
}

// HonestResponse returns what an honest server holding sq writes for id: OK status + body.
func HonestResponse(sq *vk.Square, id WireID) ([]byte, error) {
	body, err := shrexBody(sq, id)
	if err != nil {
		return nil, err
	}
	return append(statusFrame(shrexpb.Status_OK), body...), nil
}

// NewItem builds a scripted item by hand (fixed witnesses).
func NewItem(id WireID, desc string, steps ...*Step) (*Item, error) {
	key, err := id.MarshalBinary()
	if err != nil {
		return nil, err
	}
	return &Item{Proto: id.Name(), Key: string(key), Desc: desc, Steps: steps}, nil
}

// messageBoundaries returns the offsets at which the uvarint-length-prefixed messages of b start
// or end: 0, end of message 1, end of message 2, ...
func messageBoundaries(b []byte) []int {
	out := []int{0}
	off := 0
	for off < len(b) {
		l, n := binary.Uvarint(b[off:])
		if n <= 0 || off+n+int(l) > len(b) {
			break
		}
		off += n + int(l)
		out = append(out, off)
	}
	return out
}
