package c06kit

import (
	"context"
	"fmt"
	"sort"
	"strings"
	"time"

	"github.com/ipfs/go-cid"
	"pgregory.net/rapid"

	"github.com/celestiaorg/celestia-node/header"
	vk "github.com/celestiaorg/celestia-node/internal/verifkit"
	"github.com/celestiaorg/celestia-node/share/shwap"
)

// HangBound is how long a getter call may go without returning before the harness gives up. Every
// scripted peer answers from memory (micro- to milliseconds of work per attempt) and every wait in
// a script is ended by the harness itself, so a call that is still running after this bound is
// stuck, not slow; it is reported as inconclusive (VERIF-INFRA), never as a violation.
const HangBound = 90 * time.Second

// Run calls the getter on its own goroutine and waits for it. end is called if the call does
// not return within HangBound (it must release every wait of the fakes). hung reports that case.
func Run(ctx context.Context, r Req, g shwap.Getter, hdr *header.ExtendedHeader, end func()) (res Result, hung bool) {
	done := make(chan Result, 1)
	go func() { done <- r.Call(ctx, g, hdr) }()
	select {
	case res = <-done:
		return res, false
	case <-time.After(HangBound):
	}
	end()
	select {
	case res = <-done:
	case <-time.After(HangBound):
		res.Panic = "the call did not return even after its context ended"
	}
	return res, true
}

// ShrexStats derives class labels and the oracle preconditions from what the fake host observed.
type ShrexStats struct {
	Labels        []string
	Misbehaved    bool // some peer that was asked did not answer honestly
	AllServed     bool // every wire request got an honest answer that was consumed entirely
	Visited       bool // at least one peer was asked
	OnlyNotFound  bool // at least one peer was asked and every peer asked said NOT_FOUND (single request)
	EndedByScript bool
}

// Stats evaluates the observations of the fake host after the call returned.
func (n *ShrexNet) Stats() ShrexStats { return n.StatsWithSpare(0) }

// StatsWithSpare is Stats where an honest answer only counts if at least spare was left until the
// attempt's deadline when it was consumed.
func (n *ShrexNet) StatsWithSpare(spare time.Duration) ShrexStats {
	n.mu.Lock()
	defer n.mu.Unlock()
	st := ShrexStats{AllServed: len(n.order) > 0}
	lab := map[string]bool{}
	started, notFound := 0, 0
	for _, it := range n.order {
		served := it.HonestServedWithSpare(spare)
		st.AllServed = st.AllServed && served
		badBefore := false
		for _, s := range it.Steps {
			if !s.Started {
				continue
			}
			started++
			lab["peer="+s.Kind] = true
			if s.NotFound && s.Consumed() {
				notFound++
			}
			if s.Honest {
				if s.Consumed() && badBefore {
					lab["seq=bad-then-honest"] = true
				}
				if !s.Consumed() {
					lab["honest-cut-short"] = true
				}
				continue
			}
			st.Misbehaved = true
			badBefore = true
			if s.End == EndExpire {
				lab["deadline=expires-during-peer"] = true
				st.EndedByScript = true
			}
		}
		if it.Exhausted {
			lab["deadline=expires-after-last-peer"] = true
			st.EndedByScript = true
			if badBefore {
				lab["seq=bad-then-timeout"] = true
			}
		}
	}
	st.Visited = started > 0
	st.OnlyNotFound = len(n.order) == 1 && started > 0 && notFound == started && n.order[0].Exhausted
	if st.OnlyNotFound {
		lab["seq=all-not-found"] = true
	}
	if n.Unknown > 0 {
		lab["unscripted-request"] = true
	}
	for l := range lab {
		st.Labels = append(st.Labels, l)
	}
	sort.Strings(st.Labels)
	return st
}

// BSStats is the Bitswap counterpart of ShrexStats.
type BSStats struct {
	Labels     []string
	Misbehaved bool
	AllOffered bool // an honest block was offered for every want while the context was alive
	Panics     []string
}

// Stats evaluates the observations of the fake exchange after the call returned.
func (x *BSExchange) Stats() BSStats { return x.StatsWithSpare(0) }

// StatsWithSpare is Stats where an honest block only counts if at least spare was left until the
// request's deadline when it was offered.
func (x *BSExchange) StatsWithSpare(spare time.Duration) BSStats {
	x.mu.Lock()
	defer x.mu.Unlock()
	st := BSStats{AllOffered: len(x.order) > 0, Panics: append([]string(nil), x.Panics...)}
	lab := map[string]bool{}
	for _, it := range x.order {
		st.AllOffered = st.AllOffered && it.HonestOfferedWithSpare(spare)
		badBefore := false
		for _, s := range it.Steps {
			if !s.Reached {
				continue
			}
			lab["peer="+s.Kind] = true
			if s.Honest {
				if s.Offered && badBefore {
					lab["seq=bad-then-honest"] = true
				}
				continue
			}
			badBefore = true
			st.Misbehaved = true
			if s.Accepted {
				lab["bad-accepted"] = true
			}
			if s.Expire {
				lab["deadline=expires-during-peer"] = true
			}
		}
		if it.Exhausted {
			lab["deadline=expires-after-last-peer"] = true
			if badBefore {
				lab["seq=bad-then-timeout"] = true
			}
		}
	}
	if x.Unknown > 0 {
		lab["unscripted-want"] = true
	}
	for l := range lab {
		st.Labels = append(st.Labels, l)
	}
	sort.Strings(st.Labels)
	return st
}

// ScriptsDesc renders scripts canonically.
func ScriptsDesc(scripts [][]string) string {
	parts := make([]string, len(scripts))
	for i, s := range scripts {
		parts[i] = strings.Join(s, ",")
	}
	return fmt.Sprintf("[%s]", strings.Join(parts, " | "))
}

// PrepareShrex draws 1-3 script templates and materialises one item per wire request of r (the
// i-th request follows template i mod #templates).
func PrepareShrex(t *rapid.T, r Req, sq, sib *vk.Square, height uint64, o ScriptOpts) ([]*Item, [][]string, error) {
	ids, err := ShrexIDs(r, sq, height)
	if err != nil {
		return nil, nil, err
	}
	if len(ids) > 1 {
		o.AllowDial = false
	}
	nt := 1
	if len(ids) > 1 {
		nt = rapid.IntRange(1, min(3, len(ids))).Draw(t, "shrex.templates")
	}
	scripts := make([][]string, nt)
	for k := range scripts {
		scripts[k] = GenScript(t, fmt.Sprintf("shrex.t%d", k), o)
	}
	items := make([]*Item, len(ids))
	for i, id := range ids {
		it, err := PrepareItem(t, fmt.Sprintf("shrex.i%d", i), r, i, id, sq, sib, height, scripts[i%nt])
		if err != nil {
			return nil, nil, err
		}
		items[i] = it
	}
	return items, scripts, nil
}

// PrepareBS is PrepareShrex for the wanted CIDs of the Bitswap getter.
func PrepareBS(t *rapid.T, r Req, wants []cid.Cid, sq, sib *vk.Square, height uint64, serve ServeFn, noExpire bool,
) ([]*BSItem, [][]string, error) {
	if len(wants) == 0 {
		return nil, nil, nil
	}
	nt := 1
	if len(wants) > 1 {
		nt = rapid.IntRange(1, min(3, len(wants))).Draw(t, "bs.templates")
	}
	scripts := make([][]string, nt)
	for k := range scripts {
		scripts[k] = GenBSScript(t, fmt.Sprintf("bs.t%d", k), noExpire)
	}
	items := make([]*BSItem, len(wants))
	for i, w := range wants {
		it, err := PrepareBSItem(t, fmt.Sprintf("bs.i%d", i), r, i, w, sq, sib, height, serve, scripts[i%nt])
		if err != nil {
			return nil, nil, err
		}
		items[i] = it
	}
	return items, scripts, nil
}

// TotalSteps is the number of scripted peers over all items plus one closing visit per item.
func TotalSteps(items []*Item) int {
	n := 0
	for _, it := range items {
		n += len(it.Steps) + 1
	}
	return n
}
